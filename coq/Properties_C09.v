(* C09, network-data half - the Touchstone and NPD loaders are total: every byte string is tokenized, parsed and
   either rejected with a classified error or loaded.  Theorems only; models in Files/TsTok.v, Files/TsParse.v,
   Files/NpdLoad.v; lemmas in Files/TsTokProofs.v, TsParseBasics.v, TsTotal.v, NpdLoadProofs.v.
   (The calibration-file / YAML half is Properties_C09cal.v.)

   The models are structurally recursive functions of the input bytes (no fuel), so termination is by
   construction; the theorems say what the answer looks like.  The first part (byte-level models) does not model
   allocation failure, the message texts or the line counter.  The later parts add the pointer-level models of the
   parsers' own buffers with their allocation failures (Files/TsMem.v, TsMemNpd.v), the calls made on the destination
   object (Files/LoadFail.v) and the saver's acceptance of a loaded object (Files/LoadFailSave.v). *)
Require Import List NArith ZArith Bool.
Import ListNotations.
Require Import LV.Files.TsTok LV.Files.TsTokProofs LV.Files.TsParse LV.Files.TsParseBasics LV.Files.TsTotal.
Require Import LV.Files.TsWf LV.Files.NpdScan LV.Files.NpdLoad LV.Files.NpdLoadProofs LV.Files.NpdWf LV.Files.TsExamples.

(* ==== Touchstone tokenizer =============================================================================== *)

(* tok_total: on every byte string the scanner yields a stream that ends in exactly one final token
   (end of file, or one of the three scanner errors) and contains no other final token. *)
Theorem tok_total : forall l : list N, exists pre last,
  tokens l = pre ++ [last] /\ final_tok last = true /\ Forall (fun x => final_tok x = false) pre.
Proof. exact tok_total_lemma. Qed.
Print Assumptions tok_total.

(* pull_all_total: whatever flags next_token is called with, the caller sees a token list ending in T_EOF or -1 *)
Theorem next_token_total : forall fl r, exists pre last, pull_all fl r = pre ++ [last] /\ (last = TEof \/ last = TError).
Proof. exact pull_all_total. Qed.
Print Assumptions next_token_total.

(* tok_buffer_no_overflow: add_char keeps length + 1 <= allocation: for a text of every length n accumulated from
   an empty buffer of any allocation > 0 (it is 64 initially and only grows), the n characters and the NUL that
   end_text writes at text[n] are inside the block. *)
Theorem tok_buffer_no_overflow : forall (n : nat) (alloc : N), (0 < alloc)%N ->
  let (len', alloc') := add_chars n (0%N, alloc) in
  (len' = N.of_nat n) /\ (len' + 1 <= alloc')%N /\ (alloc <= alloc')%N.
Proof. exact tok_buffer_no_overflow_lemma. Qed.
Print Assumptions tok_buffer_no_overflow.

(* ... and along the whole token stream of any input (one buffer serves the whole load) *)
Theorem stream_buffer_no_overflow : forall bytes : list N, fits (tokens bytes) initial_text_allocation.
Proof. exact stream_buffer_no_overflow_lemma. Qed.
Print Assumptions stream_buffer_no_overflow.

(* the boundary cases: a text of 63 characters fits in 64 bytes, one of 64 grows the buffer to 128, 128 -> 256 *)
Example tok_buffer_boundaries :
  add_chars 63 (0, 64)%N = (63, 64)%N /\ add_chars 64 (0, 64)%N = (64, 128)%N /\
  add_chars 127 (0, 128)%N = (127, 128)%N /\ add_chars 128 (0, 128)%N = (128, 256)%N.
Proof. vm_compute. repeat split; reflexivity. Qed.

(* ==== Touchstone parser ================================================================================== *)

(* parse_total: every token stream that ends in a final token gives an object or one of three error classes
   (EBADMSG; ENOPROTOOPT for an unsupported [Version]; EINVAL only for a port count above 46340, finding DF11),
   never the "ended in a non-terminal state" class of the model. *)
Theorem parse_total : forall pre last, final_rtok last = true ->
  (exists o, parse (pre ++ [last]) = Ok o) \/ parse (pre ++ [last]) = Error EBADMSG \/
  parse (pre ++ [last]) = Error ENOPROTOOPT \/ parse (pre ++ [last]) = Error EINVAL.
Proof. exact parse_total_cases. Qed.
Print Assumptions parse_total.

(* load_ts_total: tokenizer and parser composed, for every byte string *)
Theorem load_ts_total : forall bytes : list N,
  (exists o, load_ts bytes = Ok o) \/ load_ts bytes = Error EBADMSG \/ load_ts bytes = Error ENOPROTOOPT \/
  load_ts bytes = Error EINVAL.
Proof. exact load_ts_total_lemma. Qed.
Print Assumptions load_ts_total.

(* load_ts_ok_wf: whatever the input, an object that is returned is self-consistent: as many matrices as frequencies,
   every matrix ports x ports cells, one reference impedance per port, two ports for H and G parameters
   (a state invariant of the parser, preserved by every token of every stream). *)
Theorem load_ts_ok_wf : forall (bytes : list N) (o : tsobj), load_ts bytes = Ok o ->
  length (o_cells o) = length (o_freqs o) /\ Forall (fun m => length m = (o_ports o * o_ports o)%nat) (o_cells o) /\
  length (o_z0 o) = o_ports o /\ (is_hg (o_type o) = true -> o_ports o = 2%nat).
Proof. exact load_ts_ok_wf_lemma. Qed.
Print Assumptions load_ts_ok_wf.

(* an error or the end of the file is final: the parser's terminal states absorb every further token *)
Theorem terminal_states_absorb : forall s x, terminal s -> pstep s x = s.
Proof. exact terminal_absorbing. Qed.
Print Assumptions terminal_states_absorb.

(* both outcomes occur: a well-formed file is loaded, a truncated one is rejected, version 3.0 is ENOPROTOOPT;
   EINVAL is reachable (the property text allows only EBADMSG / ENOPROTOOPT / system errors: finding DF11) *)
Example load_ts_outcomes :
  (exists o, load_ts ex2_upper_bytes = Ok o) /\
  load_ts (firstn 150 ex2_upper_bytes) = Error EBADMSG /\
  load_ts ex_version3 = Error ENOPROTOOPT.
Proof. exact ex_ts_outcomes. Qed.
Theorem load_ts_only_ebadmsg_enoprotoopt_refuted :
  exists b, load_ts b = Error EINVAL.
Proof. exact ts_einval_reachable. Qed.
Print Assumptions load_ts_only_ebadmsg_enoprotoopt_refuted.

(* ==== NPD ================================================================================================= *)

(* npd_scan_wf: scan_line never reports an empty line, and no field is empty or contains white space *)
Theorem npd_scan_wf : forall l : list N,
  Forall (fun line => line <> []) (npd_lines l) /\
  Forall (fun line => Forall (fun f => f <> [] /\ forallb (fun c => negb (is_space c)) f = true) line) (npd_lines l).
Proof. exact (fun l => conj (npd_lines_nonempty l) (npd_fields_no_space l)). Qed.
Print Assumptions npd_scan_wf.

(* load_npd_total: on every byte string the NPD loader model answers with an object or with EBADMSG / EINVAL
   (EINVAL: an invalid '#:parameters' specifier rejected by vnadata_set_format, finding DF7) *)
Theorem load_npd_total : forall l : list N,
  (exists o, load_npd l = NOk o) \/ load_npd l = NError NEBADMSG \/ load_npd l = NError NEINVAL.
Proof. exact load_npd_total_lemma. Qed.
Print Assumptions load_npd_total.

(* load_npd_ok_wf: an NPD object that is returned has a known parameter type, dimensions that fit it (1 x ports for
   Zin, ports x ports otherwise, 2 x 2 for T, U, H, G, A, B), as many complete cell rows (and per-frequency z0 rows)
   as frequencies. *)
Theorem load_npd_ok_wf : forall (bytes : list N) (o : nobj), load_npd bytes = NOk o ->
  b_type o <> PUNDEF /\ (0 <= b_columns o)%Z /\
  (match b_type o with PZIN => b_rows o = 1%Z | _ => b_rows o = b_columns o end) /\
  (two_port_type (b_type o) = true -> b_columns o = 2%Z) /\
  length (b_cells o) = length (b_freqs o) /\
  Forall (fun m => length m = Z.to_nat (b_rows o * b_columns o)) (b_cells o) /\
  match b_fz0 o with Some l => length l = length (b_freqs o) | None => True end.
Proof. exact load_npd_ok_wf_lemma. Qed.
Print Assumptions load_npd_ok_wf.

Example load_npd_outcomes :
  (exists o, load_npd ex_npd_bytes = NOk o /\ b_rows o = 2%Z /\ b_columns o = 2%Z /\
             length (b_freqs o) = 2%nat /\ length (b_cells o) = 2%nat) /\
  load_npd (firstn 120 ex_npd_bytes) = NError NEBADMSG.
Proof. exact ex_npd_outcomes. Qed.
Theorem load_npd_only_ebadmsg_refuted : exists b, load_npd b = NError NEINVAL.
Proof. exact npd_einval_reachable. Qed.
Print Assumptions load_npd_only_ebadmsg_refuted.

(* ==== the parsers' own buffers at pointer level (session 5, package B) ======================================== *)
(* Models Files/TsMem.v (Touchstone: token text, value vector, [Reference] vector) and Files/TsMemNpd.v (NPD: line
   text, field vector, z0 vector) in the checked-memory monad of Mem/Alloc.v: every store and load is checked against
   the allocation and the initialisation of the cell, every pointer use against the ledger of live blocks, and every
   request of the parser can fail (start (Some k): the (k+1)-th request returns NULL; start None: none fails). *)
Require Import LV.Mem.Alloc LV.Files.TsMem LV.Files.TsMemProofs LV.Files.TsMemNpd LV.Files.TsMemNpdProofs.

(* ts_no_fault: for every byte string and every failing request the Touchstone loader never stores or loads outside
   a buffer, never reads an uninitialised cell, never uses or frees a block that is not live *)
Theorem ts_no_fault : forall (bytes : list N) (k : option nat) (f : fault), mem_load_ts bytes (start k) <> Fault f.
Proof. exact ts_no_fault_lemma. Qed.
Print Assumptions ts_no_fault.

(* ts_no_leak: after the loader returns - success, syntax error or ENOMEM - the ledger holds no parser block *)
Theorem ts_no_leak : forall (bytes : list N) (k : option nat) r s',
  mem_load_ts bytes (start k) = Alloc.Ok (r, s') -> live s' = [].
Proof. exact ts_no_leak_lemma. Qed.
Print Assumptions ts_no_leak.

(* the invariant behind both is met in the middle of a load: text buffer grown twice (256), a two-entry [Reference]
   vector, two live blocks *)
Theorem ts_mem_inv_satisfiable :
  exists st s, (p <- malloc initial_text ;;
                match p with
                | Some b => mrun (tokens mid_bytes) (MRun SStart, set_text m_empty (Some b) (fresh_arr initial_text))
                | None => ret (MNoMem, m_empty)
                end) (start None) = Alloc.Ok (st, s) /\
    SInv st s /\ length (live s) = 2%nat /\ calloc (t_tarr (snd st)) = 256%Z /\ calloc (t_rarr (snd st)) = 2%Z.
Proof. exact ts_mem_inv_satisfiable_lemma. Qed.
Print Assumptions ts_mem_inv_satisfiable.

(* add_char with the test of the seeded change C09-3 ("length >= allocation"): a word of 64 characters is an
   out-of-bounds store of the NUL *)
Theorem add_char_late_oob_refuted :
  exists w, (p <- malloc initial_text ;; scan_word_late (set_text m_empty p (fresh_arr initial_text)) w) (start None) = Fault OOB.
Proof. exact add_char_late_oob_refuted_lemma. Qed.
Print Assumptions add_char_late_oob_refuted.

(* npd_no_fault / npd_no_leak: the same two statements for the NPD loader (scan_line's text and field vector, FIELD(i)
   for every field the loader examines, the '#:parameters' join, the z0 vector), with fix DB90 *)
Theorem npd_no_fault : forall (bytes : list N) (k : option nat) (f : fault), mem_load_npd NFixed bytes (start k) <> Fault f.
Proof. exact npd_no_fault_lemma. Qed.
Print Assumptions npd_no_fault.

Theorem npd_no_leak : forall (bytes : list N) (k : option nat) r s',
  mem_load_npd NFixed bytes (start k) = Alloc.Ok (r, s') -> live s' = [].
Proof. exact npd_no_leak_lemma. Qed.
Print Assumptions npd_no_leak.

(* npd_data_fields_in_range: the field accounting of the loader ("Find the best parameter") keeps every field index
   the data-line loop uses below the number of fields it demands of a data line *)
Theorem npd_data_fields_in_range : forall h x, post_header h = inr x ->
  (0 <= x_ports x /\ 1 <= x_nfields x /\ (x_fz0 x = true -> 1 + 2 * x_ports x <= x_nfields x) /\
   0 <= x_first x /\ 0 <= x_cells x /\ x_first x + 2 * x_cells x <= x_nfields x)%Z.
Proof. exact post_header_bounds. Qed.
Print Assumptions npd_data_fields_in_range.

(* as found (before fix DB90): end_field ignores the ENOMEM of the add_char that stores the NUL; '#:ports' with a
   73-character argument and the third request failing reads one byte past the text block (Fault OOB); with the fix
   the same input and failure point give -1 / ENOMEM and an empty ledger *)
Theorem npd_end_field_orig_refuted : exists bytes k, mem_load_npd NOrig bytes (start (Some k)) = Fault OOB.
Proof. exact npd_end_field_orig_refuted_lemma. Qed.
Print Assumptions npd_end_field_orig_refuted.

Example npd_end_field_fixed_example :
  exists rep s, mem_load_npd NFixed db90_bytes (start (Some 2%nat)) = Alloc.Ok ((NMENOMEM, rep), s) /\ live s = [].
Proof. exact npd_end_field_fixed_example_lemma. Qed.

(* ==== the destination after a load; savability of a loaded object (session 5, package B, second box) ============ *)
Require LV.Data.DataModel LV.Data.DataProofs.
Require Import LV.Files.LoadFail LV.Files.LoadFailProofs LV.Files.SaveModel LV.Files.LoadFailSave LV.Files.LoadFailSaveProofs.

(* ts_dest_usable: whatever the bytes, the failing request k and the file name, the calls the Touchstone loader has made
   on the destination when it returns (Files/TsMem.v records them: filetype, set_simple_format, vnadata_init, resize,
   set_all_z0 / set_z0_vector, add_frequency, set_frequency - tied to the C code by the digest of the destination after
   every run) leave an object that satisfies the container invariant of property C15: it can be queried,
   re-initialised, saved and freed.  Values are abstract (V, any three constants). *)
Theorem ts_dest_usable : forall (V : Type) (vzero vdef vany : V) name_ft bytes k d d',
  DataProofs.Inv V vzero vdef d -> ts_dest V vzero vdef vany name_ft bytes k d = Some d' -> DataProofs.Inv V vzero vdef d'.
Proof. exact ts_dest_usable_lemma. Qed.
Print Assumptions ts_dest_usable.

(* npd_dest_usable: the same for the NPD loader, which never faults; since fix DB91 every precision it stores directly
   (vdi_fprecision, vdi_dprecision: not through the setters) is >= 1 (npd_precisions_ok), so there is no proviso *)
Theorem npd_dest_usable : forall (V : Type) (vzero vdef vany : V) name_ft bytes k d,
  DataProofs.Inv V vzero vdef d ->
  exists d', npd_dest V vzero vdef vany name_ft bytes k d = Some d' /\ DataProofs.Inv V vzero vdef d'.
Proof. exact npd_dest_usable_lemma. Qed.
Print Assumptions npd_dest_usable.

Theorem npd_precisions_ok : forall bytes k r s',
  mem_load_npd NFixed bytes (start k) = Alloc.Ok (r, s') -> forallb prec_ok (nr_calls (snd r)) = true.
Proof. exact npd_precisions_ok_lemma. Qed.
Print Assumptions npd_precisions_ok.

(* before fix DB91: '#:fprecision 0' was accepted (hline_step_asfound) and stored, a value vnadata_set_fprecision refuses
   and the invariant excludes - an out-of-place vnadata_convert of such an object failed in its option copy after wiping
   its destination (review R2, C05 finding 1); since the fix the file is refused *)
Theorem npd_precision_asfound_refuted :
  (exists h', hline_step_asfound nh0 NKFprecision (hd [] (npd_lines prec0_bytes)) = inr h' /\ n_fprec h' = Some 0%Z) /\
  (~ DataProofs.Inv unit tt tt (ndop_apply unit tt tt tt harness_dest (NFprec 0))) /\
  load_npd prec0_bytes = NError NEBADMSG.
Proof. exact npd_precision_asfound_refuted_lemma. Qed.
Print Assumptions npd_precision_asfound_refuted.

(* NOTE on what the two _usable theorems give: they hold for the call list the model RECORDS because they hold for every
   call list (a call the container refuses leaves the model state unchanged).  That the recorded calls are all ACCEPTED -
   indices in range, vectors of one entry per port, i.e. that the unchecked stores of the loaders are in range - is not a
   theorem yet: LoadFail.calls_accepted decides it for a given list and the tie evaluates it on the recorded list of every
   run (tie:destination_after_load, class destination-call-refused).  Two instances: *)
Example ts_calls_accepted_example :
  match mem_load_ts mid_bytes (start None) with
  | Alloc.Ok ((_, rep), _) => ts_accepted 2 (r_calls rep) = true
  | Fault _ => False
  end.
Proof. vm_compute. reflexivity. Qed.

(* dest_shape_last_call: what IS left after a failed load: type, rows, columns and number of frequencies are those left by
   the last call that can change the shape (vnadata_init, vnadata_resize, vnadata_add_frequency); with ts_dest_usable /
   npd_dest_usable (every cell, frequency and impedance inside those dimensions is readable: c15_no_fault) this is the
   reading of "no partial object" adopted in docs/design_C09.md: the destination stays a valid object, it is NOT restored *)
Theorem dest_shape_last_call : forall (V : Type) (vzero vdef vany : V) l1 o l2 d,
  forallb (fun c => negb (shape_call c)) l2 = true ->
  dims V (run_calls V vzero vdef vany d (l1 ++ o :: l2)) = dims V (dop_apply V vzero vdef vany (run_calls V vzero vdef vany d l1) o).
Proof. exact dest_shape_last_call_lemma. Qed.
Print Assumptions dest_shape_last_call.

(* the destination of the memory harness (a 3 x 3 Z object with 2 frequencies) satisfies the invariant: the premise of the
   two theorems above is met by the object the tie runs on *)
Example harness_dest_inv : DataProofs.Inv unit tt tt harness_dest.
Proof. exact harness_dest_inv_lemma. Qed.

(* dest_unchanged_before_init: calls that only store save options (file type, format) leave type, dimensions, z0 mode
   and every frequency, impedance and cell of the destination as they were *)
Theorem dest_unchanged_before_init : forall (V : Type) (vzero vdef vany : V) l d,
  forallb meta_call l = true -> same_object V (run_calls V vzero vdef vany d l) d.
Proof. exact run_meta_same. Qed.
Print Assumptions dest_unchanged_before_init.

(* load_ts_z0_gt0 / load_ts_z0_pos: every reference impedance of an object the Touchstone loader returns has passed the
   loader's test "x > 0.0" (R value, [Reference] values; fix DB93: a NaN is refused), hence also the saver's test *)
Theorem load_ts_z0_gt0 : forall bytes o, load_ts bytes = TsParse.Ok o -> z0_gt0 (TsParse.o_z0 o) = true.
Proof. exact load_ts_z0_gt0_lemma. Qed.
Print Assumptions load_ts_z0_gt0.
Theorem load_ts_z0_pos : forall bytes o, load_ts bytes = TsParse.Ok o -> z0_pos (TsParse.o_z0 o) = true.
Proof. exact load_ts_z0_pos_lemma. Qed.
Print Assumptions load_ts_z0_pos.

(* ts_cksave_by_name: for every object the Touchstone loader returns, with >= 1 port and >= 1 frequency, in the format the
   loader left behind, and for every class of save name (the saver derives the file type from the name: .ts keeps a
   version-1 object version 1 but allows the promotion, .sNp forces Touchstone 1 also for a version-2 object, .npd forces
   NPD, any other name keeps the object's file type): what vnadata_cksave answers *)
Theorem ts_cksave_by_name : forall bytes o nc,
  load_ts bytes = TsParse.Ok o -> (1 <= TsParse.o_ports o)%nat -> TsParse.o_freqs o <> [] ->
  cksave (ts_sobj nc o) =
  match save_filetype nc (TsParse.o_v2 o) with
  | (TS2, _) => true
  | (TS1, promote) => (Nat.leb (TsParse.o_ports o) 4 || promote) && (z0_equal (TsParse.o_z0 o) || promote)
  | (NPD, _) => negb (npd_refuses o)
  end.
Proof. exact ts_cksave_by_name_lemma. Qed.
Print Assumptions ts_cksave_by_name.

(* ts_cksave_ts_name: in particular every loaded object is accepted under a name ending in .ts *)
Theorem ts_cksave_ts_name : forall bytes o,
  load_ts bytes = TsParse.Ok o -> (1 <= TsParse.o_ports o)%nat -> TsParse.o_freqs o <> [] -> cksave (ts_sobj NameTs o) = true.
Proof. exact ts_cksave_ts_name_lemma. Qed.
Print Assumptions ts_cksave_ts_name.

(* "R nan" is refused since fix DB93 (before: loaded, and the object was refused under x.s2p because NaN != NaN) *)
Theorem ts_r_nan_refused : load_ts rnan_bytes = Error EBADMSG.
Proof. exact ts_r_nan_refused_lemma. Qed.
Print Assumptions ts_r_nan_refused.

(* strict Touchstone 1 names: a five-port version-1 file, and a five-port VERSION-2 file (a .sNp name resets the file type
   to Touchstone 1), load but are refused under x.s5p; both are accepted under x.ts *)
Theorem ts_strict_name_five_ports_refuted :
  exists o, load_ts five_bytes = TsParse.Ok o /\ TsParse.o_ports o = 5%nat /\ length (TsParse.o_freqs o) = 1%nat /\
            cksave (ts_sobj NameSnp o) = false /\ cksave (ts_sobj NameTs o) = true.
Proof. exact ts_strict_name_five_ports_refuted_lemma. Qed.
Print Assumptions ts_strict_name_five_ports_refuted.
Theorem ts_v2_five_ports_snp_name_refuted :
  exists o, load_ts five_v2_bytes = TsParse.Ok o /\ TsParse.o_v2 o = true /\ TsParse.o_ports o = 5%nat /\
            cksave (ts_sobj NameSnp o) = false /\ cksave (ts_sobj NameTs o) = true /\ cksave (ts_sobj NameOther o) = true.
Proof. exact ts_v2_five_ports_snp_name_refuted_lemma. Qed.
Print Assumptions ts_v2_five_ports_snp_name_refuted.

(* npd_cksave_default: every object the NPD loader returns, with >= 1 port and >= 1 frequency, is accepted for the NPD
   file type with the default format; the format the loader left behind can be refused ('#:parameters ZdB') *)
Theorem npd_cksave_default : forall bytes o,
  load_npd bytes = NOk o -> (1 <= b_columns o)%Z -> b_freqs o <> [] -> cksave (npd_sobj [] o) = true.
Proof. exact npd_cksave_default_lemma. Qed.
Print Assumptions npd_cksave_default.
Theorem npd_format_left_behind_refuted :
  exists o l, load_npd zdb_bytes = NOk o /\ set_format [90;100;66]%N = Some l /\
              cksave (npd_sobj l o) = false /\ cksave (npd_sobj [] o) = true.
Proof. exact npd_format_left_behind_refuted_lemma. Qed.
Print Assumptions npd_format_left_behind_refuted.
