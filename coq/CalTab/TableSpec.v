(* Abstract specification for property C16: a vnacal_t is two finite maps,
     calibration index -> calibration record      and      parameter handle -> parameter,
   together with the reference structure that decides how long a handle stays valid.
   Definitions only (the statements are proved in CalTabProofs.v). *)
Require Import List ZArith Bool Arith.
Import ListNotations.
Require Import LV.CalTab.CalTabModel.
Local Open Scope nat_scope.

(* ------------------------------------------------------------------ the two finite maps *)
Definition cal_map (s : state) : nat -> option cal := fun i => nth i (st_cals s) None.
Definition param_map (s : state) : nat -> option param := fun h => slot (st_pt s) h.

(* a handle is live for the user: _vnacal_get_parameter finds it *)
Definition live (s : state) (h : nat) : Prop :=
  exists p, param_map s h = Some p /\ p_deleted p = false.

(* specification of add on a finite map of named records: the index of the record of that name if
   there is one, else the least free index *)
Definition spec_add_index (m : nat -> option cal) (name : Z) (i : nat) : Prop :=
  (exists c, m i = Some c /\ c_name c = name /\ forall j c', j < i -> m j = Some c' -> c_name c' <> name)
  \/ ((forall j c', m j = Some c' -> c_name c' <> name) /\ m i = None /\ forall j, j < i -> m j <> None).

Definition map_set {A} (m : nat -> option A) (i : nat) (x : option A) : nat -> option A :=
  fun j => if Nat.eqb j i then x else m j.

(* ------------------------------------------------------------------ reference structure *)
(* who refers to parameter slots: every entry of every vnacal_new_t's parameter set, and the
   [other] link of every unknown / correlated parameter in the table *)
Definition vn_owners (news : list (option vnew)) : list nat :=
  flat_map (fun v => match v with Some x => vn_params x | None => [] end) news.

Definition other_owners (slots : list (option param)) : list nat :=
  flat_map (fun p => match p with
                     | Some x => match other_of (p_kind x) with Some o => [o] | None => [] end
                     | None => [] end) slots.

Definition refs (s : state) (h : nat) : nat :=
  count_occ Nat.eq_dec (vn_owners (st_news s)) h + count_occ Nat.eq_dec (other_owners (pt_slots (st_pt s))) h.

Definition occupied (slots : list (option param)) : nat :=
  length (filter (fun p => match p with Some _ => true | None => false end) slots).

Definition b2n (b : bool) : nat := if b then 1 else 0.

(* ------------------------------------------------------------------ the invariant *)
(* bookkeeping of the collection *)
Definition inv_table (t : ptable) : Prop :=
  pt_count t = occupied (pt_slots t) /\
  pt_first_free t <= length (pt_slots t) /\
  (forall i, i < pt_first_free t -> slot t i <> None) /\
  3 <= length (pt_slots t).

(* the predefined parameters *)
Definition inv_predefined (t : ptable) : Prop :=
  (exists k, slot t 0 = Some (mkParam (KScalar (0, 0)%Z) false k)) /\
  (exists k, slot t 1 = Some (mkParam (KScalar (64, 0)%Z) false k)) /\
  (exists k, slot t 2 = Some (mkParam (KScalar (-64, 0)%Z) false k)).

(* reference counts: hold = [not deleted] + number of referrers; a slot is occupied iff its hold
   count is positive; nobody refers to an empty slot *)
Definition inv_refs (s : state) : Prop :=
  forall h, match slot (st_pt s) h with
            | Some p => p_hold p = b2n (negb (p_deleted p)) + refs s h /\ 0 < p_hold p
            | None => refs s h = 0
            end.

Definition inv_news (s : state) : Prop := length (st_news s) = max_vn.

(* the [other] links of unknown / correlated parameters are acyclic: they strictly decrease some
   rank.  (make_unknown / make_correlated link a NEW parameter to an EXISTING one, and the link
   holds a reference, so the target cannot be freed and its slot re-used while the referrer lives.)
   This is what makes the unbounded loops of the C code over vpmr_other terminate. *)
Definition inv_acyclic (t : ptable) : Prop :=
  exists rank : nat -> nat,
    forall h p o, slot t h = Some p -> other_of (p_kind p) = Some o -> rank o < rank h.

Definition Inv (s : state) : Prop :=
  st_freed s = false ->
  inv_table (st_pt s) /\ inv_predefined (st_pt s) /\ inv_refs s /\ inv_news s /\ inv_acyclic (st_pt s).

(* ------------------------------------------------------------------ specification of the walks over [other] *)
(* the chain of [other] links from slot h ends at parameter e (a scalar or vector parameter) *)
Inductive ends_at (t : ptable) : nat -> param -> Prop :=
| ends_here : forall h p, slot t h = Some p -> other_of (p_kind p) = None -> ends_at t h p
| ends_next : forall h p o e, slot t h = Some p -> other_of (p_kind p) = Some o -> ends_at t o e ->
                              ends_at t h e.

(* frequency range of a scalar / vector parameter; None = 0 .. infinity *)
Definition range_of (e : param) : option (Z * Z) :=
  match p_kind e with KVector fs _ => Some (hd 0%Z fs, last fs 0%Z) | _ => None end.

(* ------------------------------------------------------------------ which handles a vnacal_new_t accepts *)
(* specification of _vnacal_new_check_parameter / _vnacal_new_get_parameter: the parameter in slot n
   covers the frequency range of the vnacal_new_t (no requirement before set_frequency_vector) *)
Definition in_range (t : ptable) (v : vnew) (n : nat) : Prop :=
  vn_ranged v = false \/
  exists e, ends_at t n e /\ range_ok (clamp_range (sigma_at t n) (range_of e)) (vn_f0 v) (vn_fmax v) = true.

(* a handle is acceptable in a standard given to vnacal_new_t v: either v already holds it (then it
   works even if the user has deleted it), or the user can still see it (non-negative, occupied, not
   deleted), it covers the frequency range, and - for a correlated parameter - the parameter it is
   correlated with is acceptable too *)
Inductive acceptable (t : ptable) (v : vnew) : Z -> Prop :=
| acc_held : forall h, (0 <= h)%Z -> In (Z.to_nat h) (vn_params v) -> acceptable t v h
| acc_visible : forall h p, (0 <= h)%Z -> slot t (Z.to_nat h) = Some p -> p_deleted p = false ->
    in_range t v (Z.to_nat h) ->
    (forall o sf sv, p_kind p = KCorrelated o sf sv -> acceptable t v (Z.of_nat o)) ->
    acceptable t v h.

(* ------------------------------------------------------------------ operations that may write the calibration table *)
(* add_calibration, delete_calibration, a property set on a calibration (ci <> -1), vnacal_free *)
Definition touches_cals (o : op) : bool :=
  match o with
  | OAddCal _ _ | ODelCal _ | OFree => true
  | OPropSet ci _ => negb (Z.eqb ci (-1))
  | _ => false
  end.

(* executable form of the invariant (used by the driver on every state it reaches, and by the
   bounded statements) *)
Definition slot_some (p : option param) : bool := match p with Some _ => true | None => false end.

Definition inv_table_b (t : ptable) : bool :=
  Nat.eqb (pt_count t) (occupied (pt_slots t)) &&
  Nat.leb (pt_first_free t) (length (pt_slots t)) &&
  forallb slot_some (firstn (pt_first_free t) (pt_slots t)) &&
  Nat.leb 3 (length (pt_slots t)).

Definition is_predef (p : option param) (g : val) : bool :=
  match p with
  | Some x => match p_kind x with KScalar v => val_eqb v g | _ => false end && negb (p_deleted x)
  | None => false
  end.

Definition inv_predefined_b (t : ptable) : bool :=
  is_predef (slot t 0) (0, 0)%Z && is_predef (slot t 1) (64, 0)%Z && is_predef (slot t 2) (-64, 0)%Z.

Definition inv_refs_b (s : state) : bool :=
  forallb (fun h => match slot (st_pt s) h with
                    | Some p => Nat.eqb (p_hold p) (b2n (negb (p_deleted p)) + refs s h) && Nat.ltb 0 (p_hold p)
                    | None => Nat.eqb (refs s h) 0
                    end)
          (seq 0 (length (pt_slots (st_pt s))))
  && forallb (fun h => Nat.ltb h (length (pt_slots (st_pt s)))) (vn_owners (st_news s) ++ other_owners (pt_slots (st_pt s))).

Fixpoint nodup_b (l : list nat) : bool :=
  match l with [] => true | x :: r => negb (existsb (Nat.eqb x) r) && nodup_b r end.

Definition inv_news_b (s : state) : bool :=
  Nat.eqb (length (st_news s)) max_vn &&
  forallb (fun v => match v with Some x => nodup_b (vn_params x) | None => true end) (st_news s).

(* every chain of [other] links from an occupied slot ends within (number of slots + 1) steps *)
Definition inv_acyclic_b (t : ptable) : bool :=
  forallb (fun h => match slot t h with
                    | Some _ => match chain_end (S (length (pt_slots t))) t h with Some _ => true | None => false end
                    | None => true
                    end) (seq 0 (length (pt_slots t))).

Definition inv_b (s : state) : bool :=
  if st_freed s then true
  else inv_table_b (st_pt s) && inv_predefined_b (st_pt s) && inv_refs_b s && inv_news_b s &&
       inv_acyclic_b (st_pt s).
