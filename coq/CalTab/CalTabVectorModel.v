(* C16: the number vnacal_get_parameter_value returns for a vector parameter at ANY frequency, through
   the model of _vnacal_rfi of property C10 (Interp/RfiModel.v, imported, as coded there: Bulirsch-Stoer
   rational interpolation over a window of m points, exact at the knots).  Model only: no proofs.

   vnacal_get_parameter_value (vector parameter): range test in integer arithmetic as in
   CalTabModel.table_value (frequency within [0.99 fmin, 1.01 fmax]), then
       _vnacal_rfi(frequency_vector, gamma_vector, frequencies, MIN(frequencies, VNACAL_MAX_M),
                   &vpmr_segment, frequency)
   i.e. rfi over ALL supplied points with order m = min(n, 5); the cached segment is the hint (the value
   does not depend on it: C10 rfi_hint_indep).  Numbers: frequencies are the integers of the C16 model,
   values are in units of 1/64 (exact rationals); EPS / the cut-off factor / VNACAL_MAX_M are the
   constants regenerated from the C text for C10 (Gen/RangeGen.v). *)
Require Import List ZArith QArith Qcanon Bool.
Import ListNotations.
Require Import LV.Base.QcI LV.Interp.RfiModel LV.Gen.RangeGen LV.CalTab.CalTabModel.
Open Scope Z_scope.

Definition qz (z : Z) : Qc := Q2Qc (inject_Z z).
Definition qval (g : val) : qi := QI (Q2Qc (fst g # 64)) (Q2Qc (snd g # 64)).
Definition eps_c : Qc := Q2Qc rfi_eps.
Definition cut_c : Qc := Q2Qc (rfi_cut_factor * rfi_eps).

(* _vnacal_rfi on the supplied points, called with the cached segment [hint] *)
Definition interp_value_hint (hint : Z) (fs : list Z) (gs : list val) (f : Z) : option qi :=
  let n := Z.of_nat (length fs) in
  match rfi eps_c cut_c (map qz fs) (map qval gs) n (rfi_order n vnacal_max_m) (qz f) hint with
  | Some (v, _) => Some v
  | None => None                  (* an out-of-bounds access or a failed assert of _vnacal_rfi *)
  end.
Definition interp_value := interp_value_hint 0.

(* the range test of vnacal_get_parameter_value, as in CalTabModel.table_value *)
Definition out_of_band (fs : list Z) (f : Z) : bool :=
  (100 * f <? 99 * hd 0 fs) || (101 * last fs 0 <? 100 * f).

(* vnacal_get_parameter_value as a number, for scalar and vector parameters (None: HUGE_VAL, or an
   unknown / correlated parameter, whose solved values are outside the model) *)
Definition get_value_q (t : ptable) (h f : Z) : option qi :=
  match get_param t h with
  | None => None
  | Some (_, p) =>
    match p_kind p with
    | KScalar g => Some (qval g)
    | KVector fs gs => if out_of_band fs f then None else interp_value fs gs f
    | _ => None
    end
  end.
