(* C16: the parameter table of a vnacal_new_t (vn_parameter_hash: one vnacal_new_parameter_t per
   parameter index, each holding one reference) never holds an index twice.  The model keeps the hash
   as the list [vn_params]; duplicate-freedom joins the PROVED invariant here ([InvP] = TableSpec.Inv
   and [params_nodup]); until now it was only evaluated at run time by inv_b.  Lemmas only; the
   theorems are in Properties_C16.v.

   Why it holds: _vnacal_new_get_parameter looks the index up in the hash first and inserts only after
   a miss; for a correlated parameter it first recurses to the parameter it is correlated with, and
   that recursion can insert only indices on the chain of [other] links below the correlate - which,
   the links being acyclic (TableSpec.inv_acyclic), never contains the parameter itself. *)
Require Import List ZArith Bool Arith Lia.
Import ListNotations.
Require Import LV.CalTab.CalTabModel LV.CalTab.TableSpec LV.CalTab.CalTabProofs.

Definition vn_nodup (x : option vnew) : Prop := match x with Some v => NoDup (vn_params v) | None => True end.
Definition news_nodup (l : list (option vnew)) : Prop := Forall vn_nodup l.
Definition params_nodup (s : state) : Prop := st_freed s = false -> news_nodup (st_news s).
(* the strengthened invariant *)
Definition InvP (s : state) : Prop := Inv s /\ params_nodup s.

(* ------------------------------------------------------------------ lists *)
Lemma in_nat_In : forall h l, in_nat h l = true <-> In h l.
Proof.
  intros h l. unfold in_nat. rewrite existsb_exists. split.
  - intros [x [Hx E]]. apply Nat.eqb_eq in E. subst. exact Hx.
  - intros H. exists h. split; [exact H|apply Nat.eqb_refl].
Qed.

Lemma nodup_snoc : forall (l : list nat) n, NoDup l -> ~ In n l -> NoDup (l ++ [n]).
Proof.
  induction l as [|x r IH]; intros n H Hn; simpl.
  - constructor; [intros []|constructor].
  - inversion H; subst. constructor.
    + intro Hin. apply in_app_or in Hin. destruct Hin as [Hin|[E|[]]]; [contradiction|].
      subst. apply Hn. left. reflexivity.
    + apply IH; [assumption|]. intro Hin. apply Hn. right. exact Hin.
Qed.

Lemma news_nodup_upd : forall l id x, news_nodup l -> vn_nodup x -> news_nodup (upd l id x).
Proof.
  unfold news_nodup. induction l as [|y r IH]; intros id x H Hx; simpl; [constructor|].
  inversion H; subst. destruct id as [|id]; constructor; auto.
Qed.

Lemma news_nodup_get : forall s id v, news_nodup (st_news s) -> get_new s id = Some v -> NoDup (vn_params v).
Proof.
  intros s id v H G. unfold get_new in G. unfold news_nodup in H. rewrite Forall_forall in H.
  assert (Hin : In (Some v) (st_news s)).
  { destruct (Nat.lt_ge_cases id (length (st_news s))) as [L|L].
    - rewrite <- G. apply nth_In. exact L.
    - rewrite nth_overflow in G by exact L. discriminate. }
  apply (H _ Hin).
Qed.

Lemma news_nodup_repeat : forall n, news_nodup (repeat None n).
Proof. unfold news_nodup. induction n; simpl; constructor; simpl; auto. Qed.

(* ------------------------------------------------------------------ chains of [other] links *)
Definition acyc_by (rank : nat -> nat) (t : ptable) : Prop :=
  forall h p o, slot t h = Some p -> other_of (p_kind p) = Some o -> rank o < rank h.

Inductive reach (t : ptable) : nat -> nat -> Prop :=
| reach_refl : forall a, reach t a a
| reach_step : forall a p o b, slot t a = Some p -> other_of (p_kind p) = Some o -> reach t o b -> reach t a b.

Lemma reach_rank : forall rank t a b, acyc_by rank t -> reach t a b -> rank b <= rank a.
Proof.
  intros rank t a b A R. induction R as [a|a p o b S O R IH]; [lia|].
  pose proof (A a p o S O). lia.
Qed.

(* the links of a table: what shk preserves *)
Lemma acyc_by_shk : forall rank t t', shk t t' -> acyc_by rank t -> acyc_by rank t'.
Proof.
  intros rank t t' K A h q o S O. specialize (K h). rewrite S in K.
  destruct (slot t h) as [p|] eqn:Sp; [|contradiction].
  destruct K as (_ & _ & E). rewrite O in E. symmetry in E. apply (A h p o Sp E).
Qed.

(* ------------------------------------------------------------------ _vnacal_new_get_parameter *)
Lemma vn_get_param_params : forall rank fuel t v h t1 v1 ok,
  acyc_by rank t ->
  vn_get_param fuel t v h = (t1, v1, ok) ->
  shk t t1 /\
  (forall x, In x (vn_params v1) -> In x (vn_params v) \/ ((0 <= h)%Z /\ reach t (Z.to_nat h) x)) /\
  (NoDup (vn_params v) -> NoDup (vn_params v1)).
Proof.
  intros rank. induction fuel as [|f IH]; intros t v h t1 v1 ok A E; cbn [vn_get_param] in E.
  - inversion E; subst. split; [apply shk_refl|]. split; auto.
  - destruct ((0 <=? h)%Z && in_nat (Z.to_nat h) (vn_params v)) eqn:Hit.
    { inversion E; subst. split; [apply shk_refl|]. split; auto. }
    destruct (get_param t h) as [[n p]|] eqn:G.
    2:{ inversion E; subst. split; [apply shk_refl|]. split; auto. }
    destruct (get_param_some _ _ _ _ G) as (Sn & Dn & En & Hh).
    assert (Nin : ~ In n (vn_params v)).
    { intro Hin. apply in_nat_In in Hin. rewrite <- En in Hit.
      apply Z.leb_le in Hh. rewrite Hh, Hin in Hit. discriminate. }
    destruct (vn_ranged v && negb (range_ok (frange_c (S (length (pt_slots t))) t n) (vn_f0 v) (vn_fmax v))).
    { inversion E; subst. split; [apply shk_refl|]. split; auto. }
    assert (Reg : forall t0 v0, shk t t0 ->
              (forall x, In x (vn_params v0) -> In x (vn_params v) \/ ((0 <= h)%Z /\ reach t (Z.to_nat h) x)) ->
              (NoDup (vn_params v) -> NoDup (vn_params v0)) -> ~ In n (vn_params v0) ->
              forall t1 v1 ok,
              (hold t0 n,
               mkVN (vn_type v0) (vn_dim v0) (vn_nf v0) (vn_fvalid v0) (vn_f0 v0) (vn_params v0 ++ [n])
                    (if match p_kind p with KUnknown _ _ | KCorrelated _ _ _ => true | _ => false end
                     then vn_unknowns v0 ++ [n] else vn_unknowns v0) (vn_meas v0) (vn_cal v0), true) = (t1, v1, ok) ->
              shk t t1 /\
              (forall x, In x (vn_params v1) -> In x (vn_params v) \/ ((0 <= h)%Z /\ reach t (Z.to_nat h) x)) /\
              (NoDup (vn_params v) -> NoDup (vn_params v1))).
    { intros t0 v0 K0 I0 N0 Nn t1' v1' ok' E'. inversion E'; subst t1' v1' ok'. cbn [vn_params].
      split; [apply (shk_trans _ _ _ K0 (shk_hold t0 n))|]. split.
      - intros x Hx. apply in_app_or in Hx. destruct Hx as [Hx|[<-|[]]]; [apply I0; exact Hx|].
        right. split; [exact Hh|]. rewrite <- En. apply reach_refl.
      - intros Hn. apply nodup_snoc; [apply N0; exact Hn|exact Nn]. }
    destruct (p_kind p) as [g|fs gs|o sv|o sf sv] eqn:Kp;
      try (apply (Reg t v (shk_refl t) (fun x Hx => or_introl Hx) (fun H => H) Nin _ _ _ E)).
    destruct (vn_get_param f t v (Z.of_nat o)) as [[t0 v0] b] eqn:Er.
    destruct (IH _ _ _ _ _ _ A Er) as (K0 & I0 & N0).
    assert (Oo : other_of (p_kind p) = Some o) by (rewrite Kp; reflexivity).
    assert (I0' : forall x, In x (vn_params v0) -> In x (vn_params v) \/ ((0 <= h)%Z /\ reach t (Z.to_nat h) x)).
    { intros x Hx. destruct (I0 x Hx) as [Hv|[_ R]]; [left; exact Hv|]. right. split; [exact Hh|].
      rewrite Nat2Z.id in R. rewrite <- En. apply (reach_step t n p o x Sn Oo R). }
    destruct b.
    + refine (Reg t0 v0 K0 I0' N0 _ t1 v1 ok E).
      intro Hin. destruct (I0 n Hin) as [Hv|[_ R]]; [contradiction|].
      rewrite Nat2Z.id in R. pose proof (reach_rank rank t o n A R). pose proof (A n p o Sn Oo). lia.
    + inversion E; subst. split; [exact K0|]. split; [exact I0'|exact N0].
Qed.

Lemma vn_get_params_nodup : forall rank hs t v t1 v1 ok,
  acyc_by rank t -> vn_get_params t v hs = (t1, v1, ok) -> NoDup (vn_params v) -> NoDup (vn_params v1).
Proof.
  intros rank. induction hs as [|h r IH]; intros t v t1 v1 ok A E N; cbn [vn_get_params] in E.
  - inversion E; subst. exact N.
  - destruct (vn_get_param (S (length (pt_slots t))) t v h) as [[t0 v0] b] eqn:E0.
    destruct (vn_get_param_params rank _ _ _ _ _ _ _ A E0) as (K & _ & N0).
    destruct b.
    + apply (IH _ _ _ _ _ (acyc_by_shk rank t t0 K A) E (N0 N)).
    + inversion E; subst. apply N0. exact N.
Qed.

(* ------------------------------------------------------------------ one step *)
Lemma step_params_nodup : forall s o, st_freed s = false -> Good s -> news_nodup (st_news s) ->
  st_freed (fst (step s o)) = false -> news_nodup (st_news (fst (step s o))).
Proof.
  intros s o Fr G H. destruct (g_acyc s G) as (rank & A). change (acyc_by rank (st_pt s)) in A.
  unfold step, step_gen. rewrite Fr. cbv iota.
  assert (FM : forall r after, news_nodup (st_news (fst (finish_make s r after)))).
  { intros [t h|t|] after; simpl; exact H. }
  destruct o; intros Fr'; try exact H; try (apply FM).
  all: repeat match goal with
       | |- context [finish_make _ _ _] => apply FM
       | |- news_nodup (st_news (fst (match ?x with _ => _ end))) => destruct x eqn:?
       | |- news_nodup (st_news (fst (if ?x then _ else _))) => destruct x eqn:?
       | |- news_nodup (st_news (fst (let '(_, _) := ?x in _))) => destruct x eqn:?
       end; cbn [fst st_news with_new with_pt with_cals]; try exact H; try (apply FM).
  all: try (apply news_nodup_upd; [exact H|]; cbn [vn_nodup vn_params]).
  all: try (eapply news_nodup_get; eassumption).
  all: try exact I.
  - constructor; [intros []|constructor].
  - eapply vn_get_params_nodup; [exact A|eassumption|eapply news_nodup_get; eassumption].
  - eapply vn_get_params_nodup; [exact A|eassumption|eapply news_nodup_get; eassumption].
  - unfold free_all. destruct (free_news (st_pt s) (st_news s)) as [t1 f1].
    destruct (teardown t1 (rev (seq 0 (length (pt_slots t1))))) as [t2 f2].
    destruct (f1 || f2 || negb (pt_count t2 =? 0)); cbn [fst st_news]; [exact H|apply news_nodup_repeat].
Qed.

Lemma step_invp : forall s o, InvP s -> InvP (fst (step s o)).
Proof.
  intros s o [HI HP]. split; [apply step_inv; exact HI|].
  intros Fr'. destruct (st_freed s) eqn:Fr.
  - unfold step, step_gen in Fr'. rewrite Fr in Fr'. simpl in Fr'. congruence.
  - apply step_params_nodup; [exact Fr|apply (Inv_Good s Fr); exact HI|apply HP; exact Fr|exact Fr'].
Qed.

Lemma invp_initial : InvP st_initial.
Proof.
  split; [apply inv_initial|]. intros _. unfold st_initial. cbn [st_news]. apply news_nodup_repeat.
Qed.

Lemma run_invp : forall ops s, InvP s -> InvP (fst (run s ops)) /\
  forall x, In x (snd (run s ops)) -> o_ret x <> RFault.
Proof.
  induction ops as [|o r IH]; simpl; intros s H.
  - split; auto; try (intros x []).
  - destruct (step s o) as [s1 x1] eqn:E.
    pose proof (step_invp s o H) as H1. pose proof (step_no_fault s o (proj1 H)) as N1. rewrite E in *. simpl in *.
    destruct (IH s1 H1) as (A & B). destruct (run s1 r) as [s2 xs]. simpl in *. split; auto.
    intros x [<-|Hx]; auto.
Qed.

(* the executable test inv_b used by the driver agrees: nodup_b is NoDup *)
Lemma nodup_b_NoDup : forall l, nodup_b l = true <-> NoDup l.
Proof.
  induction l as [|x r IH]; simpl.
  - split; [constructor|reflexivity].
  - rewrite andb_true_iff, negb_true_iff, IH. split.
    + intros [E N]. constructor; [|exact N]. intro Hin. apply in_nat_In in Hin. unfold in_nat in Hin. congruence.
    + intros N. inversion N; subst. split; [|assumption].
      destruct (existsb (Nat.eqb x) r) eqn:E; [|reflexivity]. exfalso. apply H1. apply in_nat_In. exact E.
Qed.

(* consequence used by the properties: a reference count never counts one vnacal_new_t twice *)
Lemma held_once : forall s id v h, params_nodup s -> st_freed s = false -> get_new s id = Some v ->
  cnt (vn_params v) h <= 1.
Proof.
  intros s id v h HP Fr G. pose proof (news_nodup_get s id v (HP Fr) G) as N. clear - N.
  induction (vn_params v) as [|x r IH]; simpl; [lia|]. inversion N; subst. specialize (IH H2).
  destruct (Nat.eq_dec x h) as [->|Ne]; [|exact IH].
  assert (cnt r h = 0); [|lia]. clear - H1. induction r as [|y r IHr]; simpl; [reflexivity|].
  destruct (Nat.eq_dec y h) as [->|]; [exfalso; apply H1; left; reflexivity|].
  apply IHr. intro Hin. apply H1. right. exact Hin.
Qed.


(* ------------------------------------------------------------------ witness *)
(* CalTabWalks.chain_script: handle 5 = correlated -> unknown 4 -> vector 3; one standard naming 5 twice
   (a 2x2 reflect on both ports) and 4 once registers 4 (through the recursion) and 5 once each: vn_params = [0; 4; 5] *)
Require Import LV.CalTab.CalTabWalks.
Definition nodup_script : list op := chain_script ++ [OAddStd 0 [5%Z; 4%Z; 5%Z] [(1, 0); (2, 0); (3, 0)]%Z].
Example nodup_example :
  let s := run_state nodup_script in
  st_freed s = false /\
  exists v, get_new s 0 = Some v /\ vn_params v = [0; 4; 5] /\ NoDup (vn_params v) /\
            length (vn_meas v) = 1.
Proof.
  vm_compute. split; [reflexivity|]. eexists. split; [reflexivity|]. split; [reflexivity|]. split; [|reflexivity].
  repeat constructor; simpl; intuition discriminate.
Qed.

(* ------------------------------------------------------------------ vnacal_new_t without frequency points *)
(* vnacal_new_alloc accepts frequencies = 0.  As coded: vnacal_new_set_frequency_vector reads no element
   (no sign test, no ascending test, no range test of the registered parameters) and succeeds; the range
   tests of _vnacal_new_get_parameter / _vnacal_new_check_parameter are guarded by
   vn_frequencies_valid && vn_frequencies > 0; vnacal_new_solve has nothing to solve and succeeds. *)
Lemma zero_points_setfreq : forall s id v f0, st_freed s = false -> get_new s id = Some v -> vn_nf v = 0 ->
  step s (OSetFreq id f0)
  = (with_new s (st_pt s) id (Some (mkVN (vn_type v) (vn_dim v) (vn_nf v) true f0 (vn_params v) (vn_unknowns v)
                                         (vn_meas v) (vn_cal v))), ok_int 0).
Proof.
  intros s id v f0 Fr G Z. unfold step, step_gen. rewrite Fr, G, Z. reflexivity.
Qed.

Lemma zero_points_in_range : forall t v n, vn_nf v = 0 -> in_range t v n.
Proof. intros t v n Z. left. unfold vn_ranged. rewrite Z. apply andb_false_r. Qed.

Lemma zero_points_solve : forall s id v b, st_freed s = false -> get_new s id = Some v -> vn_nf v = 0 ->
  vn_fvalid v = true -> snd (step s (OSolve id b)) = ok_int 0.
Proof.
  intros s id v b Fr G Z V. unfold step, step_gen. rewrite Fr, G, V, Z. cbn [negb].
  rewrite andb_false_r. reflexivity.
Qed.

(* CONSEQUENCE (not an unfolding): a vnacal_new_t without frequency points accepts a standard naming ANY visible
   scalar / vector / unknown handles whatever frequency ranges they cover - also after set_frequency_vector,
   whatever start value it was given - and also handles it already holds; through the specification
   [acceptable] and CalTabWalks.accepted_standard_l (validation pass + registration of every cell) *)
Require Import LV.CalTab.CalTabWalks.
Lemma zero_points_visible_acceptable : forall t v h n p, vn_nf v = 0 ->
  get_param t h = Some (n, p) -> (forall o sf sv, p_kind p <> KCorrelated o sf sv) -> acceptable t v h.
Proof.
  intros t v h n p Z G NC. destruct (get_param_some _ _ _ _ G) as (Sn & Dn & En & Hh). subst n.
  apply acc_visible with p; auto.
  - apply zero_points_in_range. exact Z.
  - intros o sf sv K. exfalso. apply (NC o sf sv K).
Qed.

Lemma zero_points_standard_added : forall s id v hs ms,
  Inv s -> st_freed s = false -> get_new s id = Some v -> vn_nf v = 0 ->
  (forall h, In h hs -> ((0 <= h)%Z /\ In (Z.to_nat h) (vn_params v)) \/
                        exists n p, get_param (st_pt s) h = Some (n, p) /\ forall o sf sv, p_kind p <> KCorrelated o sf sv) ->
  exists s' v', step s (OAddStd id hs ms) = (s', ok_int 0) /\ get_new s' id = Some v' /\
                vn_meas v' = vn_meas v ++ [mkMeas (map Z.to_nat hs) ms].
Proof.
  intros s id v hs ms HI Fr G Z H.
  destruct (accepted_standard_l s id v hs ms HI Fr G) as (s' & v' & E & G' & M & _).
  - intros h Hh. destruct (H h Hh) as [(H0 & H1)|(n & p & Gp & NC)].
    + apply acc_held; assumption.
    + apply (zero_points_visible_acceptable _ _ _ n p Z Gp NC).
  - exists s', v'. auto.
Qed.

(* the calibration of a zero-point vnacal_new_t has no fmin / fmax: both getters answer HUGE_VAL / EINVAL *)
Lemma zero_points_calibration_no_range : forall s id v b s' out,
  st_freed s = false -> get_new s id = Some v -> vn_nf v = 0 -> vn_fvalid v = true ->
  step s (OSolve id b) = (s', out) ->
  exists v' c, get_new s' id = Some v' /\ vn_cal v' = Some c /\ cal_frange c = None.
Proof.
  intros s id v b s' out Fr G Z V E. pose proof (get_new_lt _ _ _ G) as Lt.
  unfold step, step_gen in E. rewrite Fr, G, V, Z in E. cbn [negb] in E. rewrite andb_false_r in E.
  inversion E; subst; clear E.
  eexists (mkVN _ _ _ _ _ _ _ _ (Some _)), _. split; [|split; [reflexivity|]].
  - unfold get_new, with_new. cbn [st_news]. apply nth_upd_eq. exact Lt.
  - reflexivity.
Qed.

(* a parameter that does not cover ANY range of a one-point vnacal_new_t is accepted by a zero-point one,
   before and after set_frequency_vector with a negative start; the solve succeeds without a standard *)
Definition zero_script : list op :=
  [OMakeVector [5; 6]%Z [(10, 0); (20, 0)]%Z 0; ONewAlloc 0 0 1 0; OSetFreq 0 (-5); OAddStd 0 [3%Z] []; OSolve 0 false;
   OAddCal 0 1; OGetCal 0].
Example zero_example :
  map o_ret (snd (run st_initial zero_script))
  = [RInt 3; RPtr true; RInt 0; RInt 0; RInt 0; RInt 0; RCal 1 0 1 1 0 (-5) (-6)] /\
  (* after set_frequency_vector: the hypotheses of zero_points_standard_added / _calibration_no_range hold *)
  (let s := run_state (firstn 3 zero_script) in
   Inv s /\ st_freed s = false /\
   exists v, get_new s 0 = Some v /\ vn_nf v = 0 /\ vn_fvalid v = true /\ vn_f0 v = (-5)%Z /\
             exists n p, get_param (st_pt s) 3 = Some (n, p) /\ p_kind p = KVector [5; 6]%Z [(10, 0); (20, 0)]%Z) /\
  (* the calibration that was added has no frequency range *)
  (exists c, nth 0 (st_cals (run_state zero_script)) None = Some c /\ c_nf c = 0%Z /\ cal_frange c = None).
Proof.
  split; [vm_compute; reflexivity|]. split.
  - split; [apply (proj1 (run_inv _ st_initial inv_initial))|]. vm_compute. split; [reflexivity|].
    eexists. repeat split. eexists _, _. split; reflexivity.
  - vm_compute. eexists. repeat split.
Qed.
