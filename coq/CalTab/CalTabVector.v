(* C16: values of vector parameters at EVERY frequency (lemmas).  CalTabVectorModel.get_value_q is the
   number vnacal_get_parameter_value returns: _vnacal_rfi (C10 model) over the supplied points with
   order min(n, VNACAL_MAX_M).  For a parameter made by vnacal_make_vector_parameter and a frequency
   inside the extrapolation band: the rfi model never faults (C10 rfi_no_fault), the value does not
   depend on the cached segment (C10 rfi_hint_indep), at a supplied frequency it IS the supplied value
   (C10 rfi_at_knot) - the clause the integer model proves as RValue - and between supplied frequencies
   the integer model's RInterp stands for exactly this number. *)
Require Import List ZArith QArith Qcanon Bool Lia.
Import ListNotations.
Require Import LV.Base.QcI LV.Interp.RfiModel LV.Interp.RfiProofs LV.Interp.C10Lemmas LV.Gen.RangeGen.
Require Import LV.CalTab.CalTabModel LV.CalTab.TableSpec LV.CalTab.CalTabProofs LV.CalTab.CalTabVectorModel.
Open Scope Z_scope.

Lemma qz_gap : forall a b, a < b -> (qz a + eps_c < qz b)%Qc.
Proof.
  intros a b H. unfold Qclt, qz, eps_c, Qcplus. cbn [this Q2Qc]. rewrite !Qred_correct.
  unfold Qlt, Qplus, inject_Z, rfi_eps. cbn [Qnum Qden]. lia.
Qed.
Lemma eps_nonneg : (0 <= eps_c)%Qc.
Proof. unfold Qcle, eps_c. cbn [this Q2Qc]. rewrite Qred_correct. unfold Qle, rfi_eps. simpl. lia. Qed.

Lemma ascending_nth : forall l i, ascending l = true -> (S i < length l)%nat -> nth i l 0 < nth (S i) l 0.
Proof.
  induction l as [|a r IH]; intros i H L; simpl in L; [lia|].
  destruct r as [|b r']; [simpl in L; lia|].
  cbn [ascending] in H. apply andb_prop in H. destruct H as (H1 & H2). apply Z.ltb_lt in H1.
  destruct i as [|i]; [exact H1|]. apply (IH i H2). simpl in *. lia.
Qed.

Lemma xat_qz : forall fs i, 0 <= i < Z.of_nat (length fs) -> xat (map qz fs) i = qz (nth (Z.to_nat i) fs 0).
Proof.
  intros fs i H. unfold xat. rewrite (nth_indep _ 0%Qc (qz 0)) by (rewrite map_length; lia). apply map_nth.
Qed.

Lemma knots_ok_qz : forall fs, ascending fs = true -> knots_ok eps_c (map qz fs) (Z.of_nat (length fs)).
Proof.
  intros fs A. split; [apply eps_nonneg|]. intros i Hi.
  rewrite !xat_qz by lia. apply qz_gap.
  replace (Z.to_nat (i + 1)) with (S (Z.to_nat i)) by lia. apply ascending_nth; [exact A|lia].
Qed.

Lemma index_of_nth : forall fs f i, index_of f fs = Some i -> nth i fs 0 = f /\ (i < length fs)%nat.
Proof.
  induction fs as [|a r IH]; intros f i H; simpl in H; [discriminate|].
  destruct (Z.eqb_spec a f) as [->|Ne].
  - inversion H; subst. simpl. split; [reflexivity|lia].
  - destruct (index_of f r) as [k|] eqn:E; [|discriminate]. inversion H; subst.
    destruct (IH f k E) as (A & B). simpl. split; [exact A|lia].
Qed.

Lemma rfi_order_ok : forall n, 1 <= n -> 1 <= rfi_order n vnacal_max_m <= n.
Proof. intros n H. unfold rfi_order, vnacal_max_m. destruct (Z.leb_spec n 5); lia. Qed.

(* _vnacal_rfi on the points of a vector parameter: total, hint independent, exact at the knots *)
Lemma interp_value_spec : forall fs gs f, (1 <= length fs)%nat -> length gs = length fs -> ascending fs = true ->
  exists v, (forall hint, interp_value_hint hint fs gs f = Some v) /\
            (forall i, index_of f fs = Some i -> v = qval (nth i gs (0, 0))).
Proof.
  intros fs gs f L1 L2 A. set (n := Z.of_nat (length fs)).
  assert (Hx : zlen (map qz fs) = n) by (unfold zlen; rewrite map_length; reflexivity).
  assert (Hy : zlen (map qval gs) = n) by (unfold zlen; rewrite map_length, L2; reflexivity).
  assert (Hm : 1 <= rfi_order n vnacal_max_m <= n) by (apply rfi_order_ok; unfold n; lia).
  pose proof (knots_ok_qz fs A) as K. fold n in K.
  destruct (rfi_no_fault_l eps_c cut_c _ _ n _ Hx Hy Hm (qz f) 0) as (v & h & E).
  exists v. split.
  - intros hint. unfold interp_value_hint. fold n.
    pose proof (rfi_hint_indep_l2 eps_c cut_c _ _ n (rfi_order n vnacal_max_m) Hx Hy K (qz f) hint 0) as I.
    rewrite E in I. simpl in I.
    destruct (rfi eps_c cut_c (map qz fs) (map qval gs) n (rfi_order n vnacal_max_m) (qz f) hint) as [[v' h']|];
      simpl in I; [inversion I; reflexivity|discriminate].
  - intros i Hi. destruct (index_of_nth _ _ _ Hi) as (Nf & Li).
    destruct K as (K0 & K1).
    pose proof (rfi_at_knot_l eps_c cut_c _ _ n _ Hx Hy Hm K0 K1 (Z.of_nat i) 0 ltac:(unfold n; lia)) as Ek.
    assert (Xk : nth (Z.to_nat (Z.of_nat i)) (map qz fs) 0%Qc = qz f).
    { rewrite Nat2Z.id. rewrite (nth_indep _ 0%Qc (qz 0)) by (rewrite map_length; lia). rewrite map_nth, Nf. reflexivity. }
    cbv beta in Ek. rewrite Xk in Ek. rewrite E in Ek. inversion Ek; subst.
    rewrite Nat2Z.id. rewrite (nth_indep _ qi0 (qval (0, 0))) by (rewrite map_length; lia). apply map_nth.
Qed.

Lemma values_vector_l : forall s fs gs fl s' z f,
  Inv s -> st_freed s = false -> step s (OMakeVector fs gs fl) = (s', ok_int z) ->
  out_of_band fs f = false ->
  exists v, get_value_q (st_pt s') z f = Some v /\
            (forall hint, interp_value_hint hint fs (firstn (length fs) gs) f = Some v) /\
            (forall i, index_of f fs = Some i ->
               exists g, nth_error gs i = Some g /\ v = qval g /\ get_value (st_pt s') z f = mkOut (RValue g) ENone 0) /\
            (index_of f fs = None -> get_value (st_pt s') z f = mkOut RInterp ENone 0).
Proof.
  intros s fs gs fl s' z f HI Fr H Hb. pose proof HI as HI0. apply (Inv_Good s Fr) in HI. destruct HI as [I P R N AC].
  pose proof H as H0.
  unfold step, step_gen in H. rewrite Fr in H. simpl negb in H.
  change (alloc_param_gen true) with alloc_param in H.
  destruct fs as [|f0 fs']; [inv H|].
  destruct ((f0 <? 0)%Z || negb (ascending (f0 :: fs')))%bool eqn:Chk; [inv H|].
  apply orb_false_elim in Chk. destruct Chk as (C0 & C1). apply negb_false_iff in C1.
  destruct (Nat.ltb_spec (length gs) (length (f0 :: fs'))) as [|Len]; [inv H|].
  destruct (finish_make_fresh _ _ _ _ _ _ I H (or_introl eq_refl)) as (h & -> & _ & B & _).
  set (fs := f0 :: fs') in *. set (gs' := firstn (length fs) gs).
  assert (Lg : length gs' = length fs) by (unfold gs'; rewrite firstn_length; lia).
  destruct (interp_value_spec fs gs' f ltac:(simpl; lia) Lg C1) as (v & Hv & Hk).
  assert (G : get_param (st_pt s') (Z.of_nat h) = Some (h, mkParam (KVector fs gs') false 1)).
  { unfold get_param. destruct (Z.ltb_spec (Z.of_nat h) 0); try lia. rewrite Nat2Z.id, B. reflexivity. }
  exists v. split; [|split; [exact Hv|split]].
  - unfold get_value_q. rewrite G. cbn [p_kind]. rewrite Hb. apply (Hv 0).
  - intros i Hi. destruct (values_as_supplied_vector_l s fs gs fl s' (Z.of_nat h) f i HI0 Fr H0 Hi) as (g & Eg & Ev).
    exists g. split; [exact Eg|]. split; [|exact Ev].
    rewrite (Hk i Hi). f_equal. destruct (index_of_nth _ _ _ Hi) as (_ & Li).
    assert (Eg' : nth_error gs' i = Some g) by (unfold gs'; rewrite nth_error_firstn_lt; auto).
    exact (nth_error_nth_some _ gs' i (0, 0)%Z g Eg').
  - intros Hn. unfold get_value. rewrite G. cbn [p_kind]. unfold table_value.
    unfold out_of_band in Hb. rewrite Hb. rewrite Hn. reflexivity.
Qed.

(* the number itself (also between knots) survives every history that neither deletes the handle nor frees
   the vnacal_t: companion of CalTabProofs.value_stable_run, whose conclusion is RInterp = RInterp off the knots *)
Lemma value_q_stable_run : forall ops s h p,
  Inv s -> st_freed s = false ->
  slot (st_pt s) h = Some p -> p_deleted p = false -> other_of (p_kind p) = None ->
  Forall (not_free_or_delete h) ops ->
  let s' := fst (run s ops) in
  forall f, get_value_q (st_pt s') (Z.of_nat h) f = get_value_q (st_pt s) (Z.of_nat h) f.
Proof.
  induction ops as [|o r IH]; intros s h p HI Fr S D O HF; simpl.
  - auto.
  - inversion HF as [|? ? (NF & ND) HF']; subst.
    pose proof (proj1 (Inv_Good s Fr) HI) as G.
    destruct (step_good s o Fr G NF) as (G1 & Fr1 & _).
    pose proof (step_keeps_value s o h Fr G NF ND p S D O) as (k & S1).
    destruct (step s o) as [s1 x1] eqn:E. simpl in *.
    assert (HI1 : Inv s1) by (apply Inv_Good; auto).
    pose proof (IH s1 h _ HI1 Fr1 S1 eq_refl O HF') as B.
    destruct (run s1 r) as [s2 xs]. simpl in *.
    intros f. rewrite B. unfold get_value_q, get_param.
    destruct (Z.ltb_spec (Z.of_nat h) 0); try lia. rewrite Nat2Z.id, S1, S, D. simpl. reflexivity.
Qed.

(* witness: three points 1, 3, 6; f = 2 lies between the knots: the integer model says RInterp, the value
   is the rational the rfi model computes; f = 3 is a knot *)
Example values_vector_example :
  exists s', step st_initial (OMakeVector [1; 3; 6]%Z [(64, 0); (32, 0); (16, 64)]%Z 0) = (s', ok_int 3) /\
             out_of_band [1; 3; 6] 2 = false /\ index_of 2 [1; 3; 6] = None /\
             get_value (st_pt s') 3 2 = mkOut RInterp ENone 0 /\
             (exists v, get_value_q (st_pt s') 3 2 = Some v) /\
             get_value_q (st_pt s') 3 3 = Some (qval (32, 0)).
Proof.
  eexists. split; [vm_compute; reflexivity|]. split; [reflexivity|]. split; [reflexivity|]. split; [vm_compute; reflexivity|].
  split.
  - destruct (get_value_q _ 3 2) eqn:E; [eexists; reflexivity|vm_compute in E; discriminate].
  - vm_compute. reflexivity.
Qed.
