(* Lemmas for property C16, second part:
     - the walks over the [other] links of unknown / correlated parameters terminate: under the
       invariant the fuel of chain_end / frange / vn_check_param / vn_get_param is never exhausted;
     - _vnacal_new_check_parameter decides the specification TableSpec.acceptable, a refused standard
       changes nothing, an acceptable one is registered (the second pass cannot fail);
     - frame: which operations can write the calibration table; calibration indices stay valid
       along whole histories. *)
Require Import List ZArith Bool Arith Lia.
Import ListNotations.
Require Import LV.CalTab.CalTabModel LV.CalTab.TableSpec LV.CalTab.CalTabProofs.
Local Open Scope nat_scope.

(* ================================================================== chains of [other] links *)
(* the slots visited from h until a parameter without [other] is reached *)
Inductive Chain (t : ptable) : nat -> list nat -> Prop :=
| Chain_end : forall h p, slot t h = Some p -> other_of (p_kind p) = None -> Chain t h [h]
| Chain_link : forall h p o l, slot t h = Some p -> other_of (p_kind p) = Some o -> Chain t o l ->
                               Chain t h (h :: l).

(* a link never points to an empty slot (the link holds a reference) *)
Lemma RI_link_occupied : forall t c h p o,
  RI t c -> slot t h = Some p -> other_of (p_kind p) = Some o -> exists q, slot t o = Some q.
Proof.
  intros t c h p o R S O. pose proof (R o) as Ro. destruct (slot t o) as [q|] eqn:So; eauto.
  exfalso. assert (Z : oc t o = 0) by lia. exact (oc_zero_no_link _ _ _ _ Z S O).
Qed.

Lemma chain_exists : forall t c, RI t c -> inv_acyclic t ->
  forall h p, slot t h = Some p -> exists l, Chain t h l.
Proof.
  intros t c R (rank & Rk).
  assert (H : forall n h p, rank h < n -> slot t h = Some p -> exists l, Chain t h l).
  { induction n as [|n IH]; intros h p Hn S; try lia.
    destruct (other_of (p_kind p)) as [o|] eqn:O.
    - destruct (RI_link_occupied _ _ _ _ _ R S O) as (q & Sq).
      pose proof (Rk h p o S O).
      destruct (IH o q) as (l & Hl); auto; try lia.
      exists (h :: l). eapply Chain_link; eauto.
    - exists [h]. eapply Chain_end; eauto. }
  intros h p S. eapply H; eauto.
Qed.

Lemma chain_bound : forall t rank,
  (forall h p o, slot t h = Some p -> other_of (p_kind p) = Some o -> rank o < rank h) ->
  forall h l, Chain t h l ->
  (forall x, In x l -> rank x <= rank h /\ x < length (pt_slots t)) /\ NoDup l.
Proof.
  intros t rank Rk h l C. induction C as [h p S O | h p o l S O C (IH1 & IH2)].
  - split.
    + intros x [<-|[]]. split; auto. eapply slot_some_lt; eauto.
    + constructor; auto. constructor.
  - pose proof (Rk h p o S O) as Lt. split.
    + intros x [<-|Hx].
      * split; auto. eapply slot_some_lt; eauto.
      * destruct (IH1 x Hx). split; auto. lia.
    + constructor; auto. intros Hin. destruct (IH1 h Hin). lia.
Qed.

(* pigeon-hole: a chain visits pairwise different slots, so it is not longer than the table *)
Lemma chain_length : forall t, inv_acyclic t -> forall h l, Chain t h l -> length l <= length (pt_slots t).
Proof.
  intros t (rank & Rk) h l C. destruct (chain_bound t rank Rk h l C) as (B & ND).
  rewrite <- (seq_length (length (pt_slots t)) 0). apply NoDup_incl_length; auto.
  intros x Hx. apply in_seq. destruct (B x Hx). lia.
Qed.

Lemma chain_nonempty : forall t h l, Chain t h l -> 1 <= length l.
Proof. intros t h l C. destruct C; simpl; lia. Qed.

(* ------------------------------------------------------------------ enough fuel: same result *)
Lemma chain_end_fuel : forall t h l, Chain t h l ->
  forall f1 f2, length l <= f1 -> length l <= f2 -> chain_end f1 t h = chain_end f2 t h.
Proof.
  intros t h l C. induction C as [h p S O | h p o l S O C IH]; intros f1 f2 H1 H2; simpl in H1, H2;
    (destruct f1; [lia|]); (destruct f2; [lia|]); simpl; rewrite S, O; auto.
  apply IH; lia.
Qed.

Lemma frange_fuel : forall t h l, Chain t h l ->
  forall f1 f2, length l <= f1 -> length l <= f2 -> frange f1 t h = frange f2 t h.
Proof.
  intros t h l C. induction C as [h p S O | h p o l S O C IH]; intros f1 f2 H1 H2; simpl in H1, H2;
    (destruct f1; [lia|]); (destruct f2; [lia|]); simpl; rewrite S.
  - destruct (p_kind p); simpl in O; auto; discriminate.
  - destruct (p_kind p); simpl in O; try discriminate; inv O; apply IH; lia.
Qed.

(* the walk reaches the end of the chain: a scalar or vector parameter; frange is its range *)
Lemma chain_end_spec : forall t h l, Chain t h l ->
  forall f, length l <= f ->
  exists e, chain_end f t h = Some e /\ other_of (p_kind e) = None /\ ends_at t h e /\
            frange f t h = range_of e.
Proof.
  intros t h l C. induction C as [h p S O | h p o l S O C IH]; intros f Hf; simpl in Hf;
    (destruct f; [lia|]); simpl; rewrite S, O.
  - exists p. ssplit; auto.
    + eapply ends_here; eauto.
    + unfold range_of. destruct (p_kind p); simpl in O; auto; discriminate.
  - destruct (IH f) as (e & E1 & E2 & E3 & E4); try lia. exists e. ssplit; auto.
    + eapply ends_next; eauto.
    + destruct (p_kind p); simpl in O; try discriminate; inv O; auto.
Qed.

Lemma ends_at_unique : forall t h e, ends_at t h e -> forall e', ends_at t h e' -> e = e'.
Proof.
  intros t h e H. induction H as [h p S O | h p o e S O H IH]; intros e' H'; inv H'; try congruence.
  apply IH. replace o with o0 by congruence. auto.
Qed.

Lemma vn_check_fuel : forall t v n l, Chain t n l ->
  forall f1 f2, length l <= f1 -> length l <= f2 ->
  vn_check_param f1 t v (Z.of_nat n) = vn_check_param f2 t v (Z.of_nat n).
Proof.
  intros t v n l C. induction C as [h p Sl O | h p o l Sl O C IH]; intros f1 f2 H1 H2; simpl in H1, H2;
    (destruct f1; [lia|]); (destruct f2; [lia|]); cbn [vn_check_param];
    (destruct ((0 <=? Z.of_nat h)%Z && in_nat (Z.to_nat (Z.of_nat h)) (vn_params v))%bool; auto);
    (destruct (get_param t (Z.of_nat h)) as [[m q]|] eqn:G; auto);
    destruct (get_param_some _ _ _ _ G) as (Sm & _ & Em & _); rewrite Nat2Z.id in Em; subst m;
    rewrite Sl in Sm; inv Sm;
    (destruct (vn_ranged v && negb (range_ok (frange_c (S (length (pt_slots t))) t h) (vn_f0 v) (vn_fmax v)))%bool; auto);
    destruct (p_kind q); simpl in O; auto; try discriminate.
  inv O. apply IH; lia.
Qed.

Lemma vn_get_fuel : forall t v n l, Chain t n l ->
  forall f1 f2, length l <= f1 -> length l <= f2 ->
  vn_get_param f1 t v (Z.of_nat n) = vn_get_param f2 t v (Z.of_nat n).
Proof.
  intros t v n l C. induction C as [h p Sl O | h p o l Sl O C IH]; intros f1 f2 H1 H2; simpl in H1, H2;
    (destruct f1; [lia|]); (destruct f2; [lia|]); cbn [vn_get_param];
    (destruct ((0 <=? Z.of_nat h)%Z && in_nat (Z.to_nat (Z.of_nat h)) (vn_params v))%bool; auto);
    (destruct (get_param t (Z.of_nat h)) as [[m q]|] eqn:G; auto);
    destruct (get_param_some _ _ _ _ G) as (Sm & _ & Em & _); rewrite Nat2Z.id in Em; subst m;
    rewrite Sl in Sm; inv Sm;
    (destruct (vn_ranged v && negb (range_ok (frange_c (S (length (pt_slots t))) t h) (vn_f0 v) (vn_fmax v)))%bool; auto);
    destruct (p_kind q); simpl in O; auto; try discriminate.
  inv O. rewrite (IH f1 f2) by lia. auto.
Qed.

(* a handle that _vnacal_get_parameter does not find: one step, whatever the fuel *)
Lemma vn_check_invisible : forall t v z f1 f2, get_param t z = None -> 1 <= f1 -> 1 <= f2 ->
  vn_check_param f1 t v z = vn_check_param f2 t v z.
Proof.
  intros t v z f1 f2 G H1 H2. destruct f1; try lia. destruct f2; try lia. cbn [vn_check_param]. rewrite G. auto.
Qed.

Lemma vn_get_invisible : forall t v z f1 f2, get_param t z = None -> 1 <= f1 -> 1 <= f2 ->
  vn_get_param f1 t v z = vn_get_param f2 t v z.
Proof.
  intros t v z f1 f2 G H1 H2. destruct f1; try lia. destruct f2; try lia. cbn [vn_get_param]. rewrite G. auto.
Qed.

(* the table-level statement: with the reference counts right and the links acyclic, the fuel
   (number of slots + 1) of every walk is enough: any larger fuel gives the same result *)
Lemma fuel_sufficient_table : forall t c, RI t c -> inv_acyclic t ->
  let n := S (length (pt_slots t)) in
  forall f, n <= f ->
    (forall h, chain_end f t h = chain_end n t h) /\
    (forall h, frange f t h = frange n t h) /\
    (forall v z, vn_check_param f t v z = vn_check_param n t v z) /\
    (forall v z, vn_get_param f t v z = vn_get_param n t v z).
Proof.
  intros t c R A n f Hf.
  assert (Hc : forall h p, slot t h = Some p -> exists l, Chain t h l /\ length l <= n /\ length l <= f).
  { intros h p S. destruct (chain_exists _ _ R A h p S) as (l & C). exists l.
    pose proof (chain_length _ A _ _ C). unfold n in *. ssplit; auto; lia. }
  ssplit.
  - intros h. destruct (slot t h) as [p|] eqn:S.
    + destruct (Hc h p S) as (l & C & L1 & L2). eapply chain_end_fuel; eauto.
    + destruct f; [unfold n in Hf; lia|]. unfold n. simpl. rewrite S. auto.
  - intros h. destruct (slot t h) as [p|] eqn:S.
    + destruct (Hc h p S) as (l & C & L1 & L2). eapply frange_fuel; eauto.
    + destruct f; [unfold n in Hf; lia|]. unfold n. simpl. rewrite S. auto.
  - intros v z. destruct (get_param t z) as [[m q]|] eqn:G.
    + destruct (get_param_some _ _ _ _ G) as (Sm & _ & Em & Hz).
      destruct (Hc m q Sm) as (l & C & L1 & L2).
      replace z with (Z.of_nat m) by (subst m; apply Z2Nat.id; auto). eapply vn_check_fuel; eauto.
    + apply vn_check_invisible; auto; unfold n in *; lia.
  - intros v z. destruct (get_param t z) as [[m q]|] eqn:G.
    + destruct (get_param_some _ _ _ _ G) as (Sm & _ & Em & Hz).
      destruct (Hc m q Sm) as (l & C & L1 & L2).
      replace z with (Z.of_nat m) by (subst m; apply Z2Nat.id; auto). eapply vn_get_fuel; eauto.
    + apply vn_get_invisible; auto; unfold n in *; lia.
Qed.

Lemma walk_total_table : forall t c, RI t c -> inv_acyclic t ->
  forall h p, slot t h = Some p ->
  exists e, chain_end (S (length (pt_slots t))) t h = Some e /\ other_of (p_kind e) = None /\
            ends_at t h e /\ frange (S (length (pt_slots t))) t h = range_of e.
Proof.
  intros t c R A h p S. destruct (chain_exists _ _ R A h p S) as (l & C).
  pose proof (chain_length _ A _ _ C). apply (chain_end_spec t h l C). lia.
Qed.

(* the statements for reachable states *)
Lemma fuel_sufficient_l : forall s, Inv s -> st_freed s = false ->
  let t := st_pt s in let n := S (length (pt_slots t)) in
  forall f, n <= f ->
    (forall h, chain_end f t h = chain_end n t h) /\
    (forall h, frange f t h = frange n t h) /\
    (forall v z, vn_check_param f t v z = vn_check_param n t v z) /\
    (forall v z, vn_get_param f t v z = vn_get_param n t v z).
Proof.
  intros s HI Fr. apply (Inv_Good s Fr) in HI. destruct HI as [I P R N AC].
  exact (fuel_sufficient_table _ _ R AC).
Qed.

Lemma walk_total_l : forall s h p, Inv s -> st_freed s = false ->
  slot (st_pt s) h = Some p ->
  exists e, chain_end (S (length (pt_slots (st_pt s)))) (st_pt s) h = Some e /\ other_of (p_kind e) = None /\
            ends_at (st_pt s) h e /\ frange (S (length (pt_slots (st_pt s)))) (st_pt s) h = range_of e.
Proof.
  intros s h p HI Fr S. apply (Inv_Good s Fr) in HI. destruct HI as [I P R N AC].
  exact (walk_total_table _ _ R AC h p S).
Qed.

(* ================================================================== which handles a vnacal_new_t accepts *)
Lemma in_nat_In : forall h l, in_nat h l = true <-> In h l.
Proof.
  intros. unfold in_nat. rewrite existsb_exists. split.
  - intros (x & Hx & E). apply Nat.eqb_eq in E. subst. auto.
  - intros H. exists h. split; auto. apply Nat.eqb_refl.
Qed.

(* _vnacal_new_check_parameter accepts only what the specification allows (any fuel) ... *)
Lemma check_acceptable : forall t c, RI t c -> inv_acyclic t ->
  forall v f z, vn_check_param f t v z = true -> acceptable t v z.
Proof.
  intros t c R A v. induction f as [|f IH]; intros z H; [discriminate|].
  cbn [vn_check_param] in H.
  destruct ((0 <=? z)%Z && in_nat (Z.to_nat z) (vn_params v))%bool eqn:Hit.
  { apply andb_prop in Hit. destruct Hit as (H0 & H1). apply Z.leb_le in H0. apply in_nat_In in H1.
    apply acc_held; auto. }
  destruct (get_param t z) as [[n p]|] eqn:G; [|discriminate].
  destruct (get_param_some _ _ _ _ G) as (Sn & Dn & En & Hz). subst n.
  destruct (vn_ranged v && negb (range_ok (frange_c (S (length (pt_slots t))) t (Z.to_nat z)) (vn_f0 v) (vn_fmax v)))%bool
    eqn:Rg; [discriminate|].
  apply acc_visible with p; auto.
  - apply andb_false_iff in Rg. destruct Rg as [Rg|Rg]; [left; auto|right].
    apply negb_false_iff in Rg.
    destruct (walk_total_table _ _ R A _ _ Sn) as (e & _ & _ & E3 & E4). exists e. split; auto. unfold frange_c in Rg. rewrite E4 in Rg. exact Rg.
  - intros o sf sv K. rewrite K in H. apply IH. auto.
Qed.

(* ... and everything it allows (with the fuel of the model, or more) *)
Lemma acceptable_check : forall t c, RI t c -> inv_acyclic t ->
  forall v z, acceptable t v z ->
  forall f, S (length (pt_slots t)) <= f -> vn_check_param f t v z = true.
Proof.
  intros t c R A v z H. induction H as [h H0 H1 | h p H0 Sl D Rg Hc IH]; intros f Hf.
  - destruct f; [lia|]. cbn [vn_check_param]. apply Z.leb_le in H0. apply in_nat_In in H1.
    rewrite H0, H1. reflexivity.
  - destruct f as [|f]; [lia|]. cbn [vn_check_param].
    destruct ((0 <=? h)%Z && in_nat (Z.to_nat h) (vn_params v))%bool; auto.
    assert (G : get_param t h = Some (Z.to_nat h, p)).
    { unfold get_param. destruct (Z.ltb_spec h 0); try lia. rewrite Sl, D. auto. }
    rewrite G.
    destruct (walk_total_table _ _ R A _ _ Sl) as (e & _ & _ & E3 & E4).
    assert (Rg' : (vn_ranged v && negb (range_ok (frange_c (S (length (pt_slots t))) t (Z.to_nat h)) (vn_f0 v) (vn_fmax v)))%bool = false).
    { destruct Rg as [Rg|(e' & Ee & Rg)].
      - rewrite Rg. auto.
      - unfold frange_c. rewrite E4, (ends_at_unique _ _ _ E3 _ Ee), Rg. apply andb_false_r. }
    rewrite Rg'.
    destruct (p_kind p) as [g|fs gs|o sv|o sf sv] eqn:K; auto.
    (* correlated: the rest of the chain is shorter than the table, so one unit of fuel less is enough *)
    specialize (IH o sf sv eq_refl (S (length (pt_slots t))) (le_n _)).
    destruct (chain_exists _ _ R A _ _ Sl) as (l & C).
    pose proof (chain_length _ A _ _ C) as Len.
    inversion C as [h1 p1 S1 O1 | h1 p1 o1 l1 S1 O1 C1]; subst; rewrite Sl in S1; inv S1; rewrite K in O1; simpl in O1;
      [discriminate|]. inv O1. simpl in Len.
    rewrite <- IH. apply (vn_check_fuel t v o1 l1 C1); lia.
Qed.

(* a handle the vnacal_new_t does not hold and the user cannot see is not acceptable *)
Lemma unheld_invisible_not_acceptable : forall t v h,
  ~ ((0 <= h)%Z /\ In (Z.to_nat h) (vn_params v)) -> get_param t h = None -> ~ acceptable t v h.
Proof.
  intros t v h NH G H. inversion H as [h1 H0 H1 | h1 p H0 Sl D Rg Hc]; subst.
  - apply NH. auto.
  - unfold get_param in G. destruct (Z.ltb_spec h 0); try lia. rewrite Sl, D in G. discriminate.
Qed.

(* fix D17: a standard with a handle that is not acceptable is refused with EINVAL and one
   callback, and NOTHING changes - no parameter of the other cells has been registered *)
Lemma rejected_standard_unchanged_l : forall s id v hs ms,
  Inv s -> st_freed s = false -> get_new s id = Some v ->
  (exists h, In h hs /\ ~ acceptable (st_pt s) v h) ->
  step s (OAddStd id hs ms) = (s, fail_usage).
Proof.
  intros s id v hs ms HI Fr G (h & Hin & NA). apply (Inv_Good s Fr) in HI. destruct HI as [I P R N AC].
  destruct (forallb (vn_check_param (S (length (pt_slots (st_pt s)))) (st_pt s) v) hs) eqn:F.
  - exfalso. apply NA. rewrite forallb_forall in F. eapply check_acceptable; eauto.
  - unfold step, step_gen. rewrite Fr, G, F. reflexivity.
Qed.

(* ------------------------------------------------------------------ the converse: an acceptable standard is registered *)
(* tables that differ in hold counts only *)
Definition HR (t t' : ptable) : Prop :=
  length (pt_slots t') = length (pt_slots t) /\
  forall j, match slot t j, slot t' j with
            | Some p, Some q => p_kind q = p_kind p /\ p_deleted q = p_deleted p
            | None, None => True
            | _, _ => False
            end.

Lemma HR_refl : forall t, HR t t.
Proof. intros t. split; auto. intros j. destruct (slot t j); auto. Qed.

Lemma HR_trans : forall a b c, HR a b -> HR b c -> HR a c.
Proof.
  intros a b c (L1 & H1) (L2 & H2). split; [congruence|]. intros j. specialize (H1 j). specialize (H2 j).
  destruct (slot a j), (slot b j), (slot c j); try tauto. destruct H1, H2. split; congruence.
Qed.

Lemma HR_hold : forall t n, HR t (hold t n).
Proof.
  intros t n. unfold hold. destruct (slot t n) as [p|] eqn:Sl; [|apply HR_refl]. split.
  - simpl. apply length_upd.
  - intros j. rewrite slot_set_slot. destruct (Nat.eqb_spec j n) as [->|]; simpl.
    + destruct (Nat.ltb_spec n (length (pt_slots t))); [|apply slot_some_lt in Sl; lia]. rewrite Sl. simpl. auto.
    + destruct (slot t j); auto.
Qed.

(* vnacal_new_t records that differ in the set of registered parameters only (a larger set) *)
Definition VR (v v' : vnew) : Prop :=
  incl (vn_params v) (vn_params v') /\ vn_fvalid v' = vn_fvalid v /\ vn_f0 v' = vn_f0 v /\ vn_nf v' = vn_nf v /\
  vn_type v' = vn_type v /\ vn_dim v' = vn_dim v /\ vn_meas v' = vn_meas v /\ vn_cal v' = vn_cal v.

Lemma VR_refl : forall v, VR v v.
Proof. intros v. unfold VR. ssplit; auto. apply incl_refl. Qed.

Lemma VR_trans : forall a b c, VR a b -> VR b c -> VR a c.
Proof.
  unfold VR. intros a b c (A1 & A2 & A3 & A4 & A5 & A6 & A7 & A8) (B1 & B2 & B3 & B4 & B5 & B6 & B7 & B8).
  ssplit; try congruence. eapply incl_tran; eauto.
Qed.

Lemma frange_HR : forall t t', HR t t' -> forall f n, frange f t' n = frange f t n.
Proof.
  intros t t' (_ & H). induction f as [|f IH]; intros n; simpl; auto.
  specialize (H n). destruct (slot t n) as [p|], (slot t' n) as [q|]; try tauto.
  destruct H as (K & _). rewrite K. destruct (p_kind p); auto.
Qed.

Lemma frange_c_HR : forall t t', HR t t' -> forall f n, frange_c f t' n = frange_c f t n.
Proof.
  intros t t' H f n. unfold frange_c. rewrite (frange_HR _ _ H). f_equal.
  destruct H as (_ & H). specialize (H n). unfold sigma_at.
  destruct (slot t n) as [p|], (slot t' n) as [q|]; try tauto. destruct H as (K & _). rewrite K. reflexivity.
Qed.

(* the two passes of _vnacal_new_add_common test the same things in the same order: what the
   validation pass accepts, the registration pass registers *)
Lemma check_then_get : forall f t v h, vn_check_param f t v h = true ->
  exists t' v', vn_get_param f t v h = (t', v', true) /\ HR t t' /\ VR v v'.
Proof.
  induction f as [|f IH]; intros t v h H; [discriminate|].
  cbn [vn_check_param] in H. cbn [vn_get_param].
  destruct ((0 <=? h)%Z && in_nat (Z.to_nat h) (vn_params v))%bool.
  { exists t, v. ssplit; auto. apply HR_refl. apply VR_refl. }
  destruct (get_param t h) as [[n p]|] eqn:G; [|discriminate].
  destruct (vn_ranged v && negb (range_ok (frange_c (S (length (pt_slots t))) t n) (vn_f0 v) (vn_fmax v)))%bool;
    [discriminate|].
  assert (Reg : forall t1 v1 (b : bool), HR t t1 -> VR v v1 ->
            HR t (hold t1 n) /\
            VR v (mkVN (vn_type v1) (vn_dim v1) (vn_nf v1) (vn_fvalid v1) (vn_f0 v1) (vn_params v1 ++ [n])
                       (if b then vn_unknowns v1 ++ [n] else vn_unknowns v1) (vn_meas v1) (vn_cal v1))).
  { intros t1 v1 b H1 (A1 & A2 & A3 & A4 & A5 & A6 & A7 & A8). split.
    - eapply HR_trans; [exact H1|apply HR_hold].
    - unfold VR. simpl. ssplit; auto. apply incl_appl. auto. }
  destruct (p_kind p) as [g|fs gs|o sv|o sf sv] eqn:K.
  - eexists _, _. split; [reflexivity|]. apply (Reg t v false (HR_refl t) (VR_refl v)).
  - eexists _, _. split; [reflexivity|]. apply (Reg t v false (HR_refl t) (VR_refl v)).
  - eexists _, _. split; [reflexivity|]. apply (Reg t v true (HR_refl t) (VR_refl v)).
  - destruct (IH t v (Z.of_nat o) H) as (t1 & v1 & E & H1 & V1). rewrite E.
    eexists _, _. split; [reflexivity|]. apply (Reg t1 v1 true H1 V1).
Qed.

(* the validation is monotone: more registered parameters and more references change nothing *)
Lemma check_mono : forall t t' v v', HR t t' -> VR v v' ->
  forall f h, vn_check_param f t v h = true -> vn_check_param f t' v' h = true.
Proof.
  intros t t' v v' Ht Hv. pose proof Ht as (Len & Hs). pose proof Hv as (Inc & V2 & V3 & V4 & _).
  induction f as [|f IH]; intros h H; [discriminate|].
  cbn [vn_check_param] in *.
  destruct ((0 <=? h)%Z && in_nat (Z.to_nat h) (vn_params v'))%bool eqn:Hit'; auto.
  destruct ((0 <=? h)%Z && in_nat (Z.to_nat h) (vn_params v))%bool eqn:Hit.
  { exfalso. apply andb_prop in Hit. destruct Hit as (H0 & H1). apply in_nat_In in H1. apply Inc in H1.
    apply in_nat_In in H1. rewrite H0, H1 in Hit'. discriminate. }
  destruct (get_param t h) as [[n p]|] eqn:G; [|discriminate].
  destruct (get_param_some _ _ _ _ G) as (Sn & Dn & En & Hz).
  pose proof (Hs n) as Hn. rewrite Sn in Hn. destruct (slot t' n) as [q|] eqn:Sq; [|tauto]. destruct Hn as (Kq & Dq).
  assert (G' : get_param t' h = Some (n, q)).
  { unfold get_param. destruct (Z.ltb_spec h 0); try lia. rewrite <- En, Sq, Dq, Dn. auto. }
  rewrite G'. rewrite Len, (frange_c_HR _ _ Ht). unfold vn_fmax, vn_ranged in *. rewrite V2, V3, V4.
  destruct (vn_fvalid v && (0 <? vn_nf v) && negb (range_ok (frange_c (S (length (pt_slots t))) t n) (vn_f0 v)
              (vn_f0 v + Z.of_nat (vn_nf v) - 1)))%bool; [discriminate|].
  rewrite Kq. destruct (p_kind p); auto.
Qed.

Lemma check_all_then_get_all : forall hs t v,
  forallb (vn_check_param (S (length (pt_slots t))) t v) hs = true ->
  exists t' v', vn_get_params t v hs = (t', v', true) /\ HR t t' /\ VR v v'.
Proof.
  induction hs as [|h r IH]; intros t v H.
  - exists t, v. ssplit; auto. apply HR_refl. apply VR_refl.
  - cbn [forallb] in H. apply andb_prop in H. destruct H as (Hh & Hr).
    destruct (check_then_get _ _ _ _ Hh) as (t1 & v1 & E & H1 & V1).
    cbn [vn_get_params]. rewrite E.
    assert (Hr1 : forallb (vn_check_param (S (length (pt_slots t1))) t1 v1) r = true).
    { pose proof H1 as (L1 & _). rewrite L1. rewrite forallb_forall in *. intros x Hx.
      eapply check_mono; eauto. }
    destruct (IH t1 v1 Hr1) as (t2 & v2 & E2 & H2 & V2). exists t2, v2. ssplit; auto.
    + eapply HR_trans; eauto.
    + eapply VR_trans; eauto.
Qed.

(* every handle acceptable: the standard is added (return 0, no callback), the measurement is
   recorded, the calibration table and the other vnacal_new_t are untouched, the parameter table
   changes in hold counts only *)
Lemma accepted_standard_l : forall s id v hs ms,
  Inv s -> st_freed s = false -> get_new s id = Some v ->
  (forall h, In h hs -> acceptable (st_pt s) v h) ->
  exists s' v', step s (OAddStd id hs ms) = (s', ok_int 0) /\
    get_new s' id = Some v' /\ vn_meas v' = vn_meas v ++ [mkMeas (map Z.to_nat hs) ms] /\
    incl (vn_params v) (vn_params v') /\
    st_cals s' = st_cals s /\ (forall j, j <> id -> get_new s' j = get_new s j) /\
    HR (st_pt s) (st_pt s').
Proof.
  intros s id v hs ms HI Fr G Hacc. apply (Inv_Good s Fr) in HI. destruct HI as [I P R N AC].
  assert (F : forallb (vn_check_param (S (length (pt_slots (st_pt s)))) (st_pt s) v) hs = true).
  { apply forallb_forall. intros h Hh. eapply acceptable_check; eauto. }
  destruct (check_all_then_get_all _ _ _ F) as (t' & v' & E & Ht & (V1 & V2 & V3 & V4 & V5 & V6 & V7 & V8)).
  unfold step, step_gen. rewrite Fr, G, F, E. simpl negb. cbv iota.
  eexists _, _. split; [reflexivity|]. pose proof (get_new_lt _ _ _ G) as Lt.
  unfold get_new. simpl. split; [rewrite nth_upd_eq by auto; reflexivity|].
  split; [simpl; congruence|]. split; [exact V1|]. split; [reflexivity|]. split; [|exact Ht].
  intros j Hj. apply nth_upd_neq. auto.
Qed.

(* ================================================================== frame: who writes the calibration table *)
Lemma finish_make_frame : forall s r after,
  st_cals (fst (finish_make s r after)) = st_cals s /\ st_freed (fst (finish_make s r after)) = st_freed s /\
  st_gprop (fst (finish_make s r after)) = st_gprop s.
Proof. intros s [t h|t|] after; simpl; auto. Qed.

(* every operation other than add_calibration, delete_calibration, a property set on a calibration
   and vnacal_free leaves the calibration table (and the "freed" flag) exactly as it was *)
Lemma step_cals_frame : forall s o, touches_cals o = false ->
  st_cals (fst (step s o)) = st_cals s /\ st_freed (fst (step s o)) = st_freed s.
Proof.
  intros s o H. unfold step, step_gen. destruct (st_freed s) eqn:Fr; [simpl; auto|].
  destruct o; simpl in H; try discriminate.
  - destruct (val_eqb g (0, 0)%Z); [simpl; auto|]. destruct (val_eqb g (64, 0)%Z); [simpl; auto|].
    destruct (val_eqb g (-64, 0)%Z); [simpl; auto|].
    match goal with |- context [finish_make ?a ?b ?c] => destruct (finish_make_frame a b c) as (X & Y & _) end.
    rewrite X, Y. auto.
  - destruct fs as [|f0 fs']; [simpl; auto|].
    destruct ((f0 <? 0)%Z || negb (ascending (f0 :: fs')))%bool; [simpl; auto|].
    destruct (length gs <? length (f0 :: fs')); [simpl; auto|].
    match goal with |- context [finish_make ?a ?b ?c] => destruct (finish_make_frame a b c) as (X & Y & _) end.
    rewrite X, Y. auto.
  - destruct (get_param (st_pt s) h) as [[n p]|]; [|simpl; auto].
    match goal with |- context [finish_make ?a ?b ?c] => destruct (finish_make_frame a b c) as (X & Y & _) end.
    rewrite X, Y. auto.
  - destruct (get_param (st_pt s) h) as [[n0 p]|]; [|simpl; auto].
    destruct (n <? 1)%Z; [simpl; auto|].
    destruct (negb (1 <? n)%Z); [(match goal with |- context [finish_make ?a ?b ?c] => let X := fresh in let Y := fresh in destruct (finish_make_frame a b c) as (X & Y & _); rewrite X, Y; auto end)|].
    destruct sf as [sfv|].
    { destruct (negb (Z.of_nat (length sfv) =? n)%Z); [simpl; auto|].
      destruct (existsb (fun f => (f <? 0)%Z) sfv || negb (ascending sfv))%bool; [simpl; auto|].
      match goal with |- context [if ?b then (s, fail_usage) else _] => destruct b end; [simpl; auto|].
      (match goal with |- context [finish_make ?a ?b ?c] => let X := fresh in let Y := fresh in destruct (finish_make_frame a b c) as (X & Y & _); rewrite X, Y; auto end). }
    match goal with |- context [if negb ?b then _ else _] => destruct b end; [|simpl; auto].
    simpl negb. cbv iota. (match goal with |- context [finish_make ?a ?b ?c] => let X := fresh in let Y := fresh in destruct (finish_make_frame a b c) as (X & Y & _); rewrite X, Y; auto end).
  - destruct ((0 <=? h)%Z && (h <? 3)%Z)%bool; [simpl; auto|].
    destruct (get_param (st_pt s) h) as [[n p]|]; [|simpl; auto].
    destruct (delete_release (st_pt s) n p) as [t1 [|]]; simpl; auto.
  - simpl; auto.
  - destruct (nth_error (st_news s) id) as [[v|]|]; try (simpl; auto; fail).
    destruct ((dim <? 1)%Z || negb (type_valid ty))%bool; simpl; auto.
  - destruct (get_new s id) as [v|]; [|simpl; auto]. destruct ((0 <? vn_nf v) && (f0 <? 0)%Z)%bool; [simpl; auto|].
    match goal with |- context [if ?b then _ else _] => destruct b end; simpl; auto.
  - destruct (get_new s id) as [v|]; [|simpl; auto].
    match goal with |- context [if negb ?b then (s, fail_usage) else _] => destruct b end; [|simpl; auto].
    simpl negb. cbv iota. destruct (vn_get_params (st_pt s) v hs) as [[t1 v1] [|]]; simpl; auto.
  - destruct (get_new s id) as [v|]; [|simpl; auto]. destruct (negb (vn_fvalid v)); [simpl; auto|].
    destruct (negb oracle_ok && (0 <? vn_nf v))%bool; simpl; auto.
  - destruct (find_name (st_cals s) name); simpl; auto.
  - destruct (cal_at (st_cals s) ci); simpl; auto.
  - simpl; auto.
  - apply negb_false_iff in H. rewrite H. simpl. auto.
  - destruct (Z.eqb ci (-1)); [simpl; auto|]. destruct (cal_at (st_cals s) ci); simpl; auto.
  - destruct (get_new s id) as [v|]; [|simpl; auto].
    destruct (release_all (st_pt s) (vn_params v)) as [t1 [|]]; simpl; auto.
Qed.

Lemma run_cals_frame : forall ops s, Forall (fun o => touches_cals o = false) ops ->
  st_cals (fst (run s ops)) = st_cals s /\ st_freed (fst (run s ops)) = st_freed s.
Proof.
  induction ops as [|o r IH]; intros s H; simpl; auto.
  inversion H as [|? ? Ho Hr]; subst.
  destruct (step_cals_frame s o Ho) as (A & B).
  destruct (step s o) as [s1 x1]. simpl in *. destruct (IH s1 Hr) as (C & D).
  destruct (run s1 r) as [s2 xs]. simpl in *. split; congruence.
Qed.

(* the answers of find / get_* / get_calibration_end / property get on a calibration depend on the
   calibration table and the freed flag only *)
Definition cal_query (o : op) : bool :=
  match o with
  | OFind _ | OGetCal _ | OEnd => true
  | OPropGet ci => negb (Z.eqb ci (-1))
  | _ => false
  end.

Lemma cal_query_same : forall a b q, cal_query q = true ->
  st_cals a = st_cals b -> st_freed a = st_freed b -> snd (step a q) = snd (step b q).
Proof.
  intros a b q H C F. unfold step, step_gen. rewrite F. destruct (st_freed b); auto.
  destruct q; simpl in H; try discriminate; rewrite C.
  - destruct (find_name (st_cals b) name); auto.
  - destruct (cal_at (st_cals b) ci); auto.
  - auto.
  - apply negb_true_iff in H. rewrite H. destruct (cal_at (st_cals b) ci); auto.
Qed.

(* lifted to histories: over ANY list of operations none of which is add_calibration,
   delete_calibration, a property set on a calibration or vnacal_free, the table is unchanged and so
   every calibration query answers as before; in particular the index returned by add is still the
   one find returns and get_* honour *)
Lemma add_index_stable_along_history_l : forall s id name s' z ops,
  step s (OAddCal id name) = (s', ok_int z) ->
  Forall (fun o => touches_cals o = false) ops ->
  let s'' := fst (run s' ops) in
  st_cals s'' = st_cals s' /\
  snd (step s'' (OFind name)) = ok_int z /\
  (exists v c, get_new s id = Some v /\ vn_cal v = Some c /\
     snd (step s'' (OGetCal z)) =
     mkOut (RCal name (c_type c) (c_rows c) (c_cols c) (c_nf c) (c_fmin c) (c_fmax c)) ENone 0) /\
  forall q, cal_query q = true -> snd (step s'' q) = snd (step s' q).
Proof.
  intros s id name s' z ops H F s''. destruct (run_cals_frame ops s' F) as (C & Fr).
  destruct (add_returns_found_index_l _ _ _ _ _ H) as (A & v & c & G & Vc & B).
  assert (Q : forall q, cal_query q = true -> snd (step s'' q) = snd (step s' q)).
  { intros q Hq. apply cal_query_same; auto. }
  ssplit; auto.
  - rewrite Q; auto.
  - exists v, c. ssplit; auto. rewrite Q; auto.
Qed.

(* ------------------------------------------------------------------ indices stay valid along histories that DO add and delete *)
(* stronger than the frame: other calibrations may be added, replaced and deleted, properties set,
   anything done to parameters and vnacal_new_t; as long as nobody deletes index i, re-adds the
   name, or frees the vnacal_t, the name is found at i and index i shows the same calibration *)
Definition same_cal (c c' : cal) : Prop :=
  c_name c' = c_name c /\ c_type c' = c_type c /\ c_rows c' = c_rows c /\ c_cols c' = c_cols c /\
  c_nf c' = c_nf c /\ c_fmin c' = c_fmin c /\ c_fmax c' = c_fmax c.

Definition leaves_index (i : nat) (name : Z) (o : op) : Prop :=
  o <> OFree /\ o <> ODelCal (Z.of_nat i) /\ forall id, o <> OAddCal id name.

Definition at_index (s : state) (i : nat) (c : cal) : Prop :=
  st_freed s = false /\ find_name (st_cals s) (c_name c) = Some i /\
  exists c', nth i (st_cals s) None = Some c' /\ same_cal c c'.

Lemma same_cal_refl : forall c, same_cal c c.
Proof. intros c. unfold same_cal. ssplit; auto. Qed.

Lemma find_name_upd_other : forall l name i j x,
  find_name l name = Some i -> j <> i -> cal_named name x = false ->
  find_name (upd l j x) name = Some i.
Proof.
  intros l name i j x F Nj Nx. destruct (find_name_spec _ _ _ F) as (L & Ni & P).
  apply find_name_intro.
  - rewrite length_upd. auto.
  - rewrite nth_upd_neq by auto. auto.
  - intros k Hk. rewrite nth_upd. destruct (Nat.eqb k j && Nat.ltb j (length l))%bool; auto.
Qed.

Lemma find_name_ext : forall l l' name i,
  find_name l name = Some i -> length l <= length l' -> (forall j, nth j l' None = nth j l None) ->
  find_name l' name = Some i.
Proof.
  intros l l' name i F L Same. destruct (find_name_spec _ _ _ F) as (Li & Ni & P).
  apply find_name_intro; try lia.
  - rewrite Same. auto.
  - intros k Hk. rewrite Same. auto.
Qed.

Lemma step_keeps_index : forall s o i c,
  at_index s i c -> leaves_index i (c_name c) o -> at_index (fst (step s o)) i c.
Proof.
  intros s o i c (Fr & F & c' & Ni & Sc) (NF & ND & NA).
  destruct (touches_cals o) eqn:T.
  2:{ destruct (step_cals_frame s o T) as (A & B). unfold at_index. rewrite A, B. eauto. }
  unfold step, step_gen. rewrite Fr.
  destruct o; simpl in T; try discriminate; try congruence.
  - (* add of another name *)
    destruct (get_new s id) as [v|]; [|simpl; unfold at_index; eauto].
    destruct (vn_cal v) as [cc|]; [|simpl; unfold at_index; eauto].
    destruct (add_slot (st_cals s) name) as [l j] eqn:A. simpl.
    assert (Nn : name <> c_name c) by (intro; subst; apply (NA id); auto).
    destruct (add_slot_spec _ _ _ _ A) as (Lj & LL & Same & Cases).
    destruct (find_name_spec _ _ _ F) as (Li & Nmi & Pi).
    assert (Nj : j <> i).
    { intro; subst j. destruct Cases as [Fj | (_ & Nj & _)].
      - destruct (find_name_spec _ _ _ Fj) as (_ & Nmj & _). rewrite Ni in Nmi, Nmj. simpl in *.
        apply Z.eqb_eq in Nmi, Nmj. destruct Sc as (E & _). congruence.
      - congruence. }
    unfold at_index. simpl. ssplit; auto.
    + apply find_name_upd_other; auto.
      * eapply find_name_ext; eauto.
      * simpl. apply Z.eqb_neq. auto.
    + exists c'. split; auto. rewrite nth_upd_neq by auto. rewrite Same. auto.
  - (* delete of another index *)
    destruct (cal_at (st_cals s) ci) as [x|] eqn:C; [|simpl; unfold at_index; eauto].
    unfold cal_at in C. destruct (Z.ltb_spec ci 0); try discriminate.
    assert (Nj : Z.to_nat ci <> i) by (intro; subst i; apply ND; rewrite Z2Nat.id; auto).
    unfold at_index. simpl. ssplit; auto.
    + apply find_name_upd_other; auto.
    + exists c'. split; auto. rewrite nth_upd_neq by auto. auto.
  - (* property set on a calibration: the name and the error-term geometry stay *)
    apply negb_true_iff in T. rewrite T.
    destruct (cal_at (st_cals s) ci) as [x|] eqn:C; [|simpl; unfold at_index; eauto].
    unfold cal_at in C. destruct (Z.ltb_spec ci 0); try discriminate.
    destruct (find_name_spec _ _ _ F) as (Li & Nmi & Pi).
    unfold at_index. simpl. split; auto.
    destruct (Nat.eq_dec (Z.to_nat ci) i) as [E|Nj].
    + rewrite E in *. rewrite Ni in C. inv C. split.
      * apply find_name_intro.
        -- rewrite length_upd. auto.
        -- rewrite nth_upd_eq by auto. rewrite Ni in Nmi. exact Nmi.
        -- intros k Hk. rewrite nth_upd_neq by lia. auto.
      * exists (set_prop x (Some tok)). rewrite nth_upd_eq by auto. split; auto.
    + split.
      * apply find_name_intro.
        -- rewrite length_upd. auto.
        -- rewrite nth_upd_neq by auto. auto.
        -- intros k Hk. rewrite nth_upd.
           destruct (Nat.eqb_spec k (Z.to_nat ci)) as [->|]; simpl; auto.
           destruct (Nat.ltb (Z.to_nat ci) (length (st_cals s))); auto.
           specialize (Pi _ Hk). rewrite C in Pi. exact Pi.
      * exists c'. split; auto. rewrite nth_upd_neq by auto. auto.
Qed.

Lemma index_stable_along_history_l : forall ops s i c,
  at_index s i c -> Forall (leaves_index i (c_name c)) ops ->
  let s' := fst (run s ops) in
  at_index s' i c /\
  snd (step s' (OFind (c_name c))) = ok_int (Z.of_nat i) /\
  snd (step s' (OGetCal (Z.of_nat i))) =
    mkOut (RCal (c_name c) (c_type c) (c_rows c) (c_cols c) (c_nf c) (c_fmin c) (c_fmax c)) ENone 0.
Proof.
  induction ops as [|o r IH]; intros s i c H HF.
  - simpl. split; auto. destruct H as (Fr & F & c' & Ni & (E1 & E2 & E3 & E4 & E5 & E6 & E7)).
    unfold step, step_gen. rewrite Fr, F, cal_at_nat, Ni. simpl. rewrite E1, E2, E3, E4, E5, E6, E7. auto.
  - inversion HF as [|? ? Ho Hr]; subst. pose proof (step_keeps_index s o i c H Ho) as H1.
    simpl. destruct (step s o) as [s1 x1]. simpl in H1.
    specialize (IH s1 i c H1 Hr). destruct (run s1 r) as [s2 xs]. exact IH.
Qed.

Lemma add_gives_at_index : forall s id name s' z,
  step s (OAddCal id name) = (s', ok_int z) ->
  exists i c, z = Z.of_nat i /\ c_name c = name /\ at_index s' i c /\
    exists v c0, get_new s id = Some v /\ vn_cal v = Some c0 /\
      c_type c = c_type c0 /\ c_rows c = c_rows c0 /\ c_cols c = c_cols c0 /\ c_nf c = c_nf c0 /\
      c_fmin c = c_fmin c0 /\ c_fmax c = c_fmax c0.
Proof.
  intros s id name s' z H.
  destruct (addcal_shape _ _ _ _ _ H) as (v & c & l & i & Fr & G & C & A & Z & Fr' & Cals & _).
  destruct (add_slot_spec _ _ _ _ A) as (L & _).
  exists i, (mkCal name (c_type c) (c_rows c) (c_cols c) (c_nf c) (c_fmin c) (c_fmax c) (c_prop c)).
  split; [exact Z|]. split; [reflexivity|]. split.
  - unfold at_index. rewrite Fr', Cals. split; auto. split.
    + apply (find_after_add _ _ _ _ _ A). reflexivity.
    + eexists. rewrite nth_upd_eq by auto. split; [reflexivity|apply same_cal_refl].
  - exists v, c. simpl. ssplit; auto.
Qed.

(* ================================================================== concrete witnesses (non-vacuity) *)
Lemma inv_run_state : forall ops, Inv (run_state ops).
Proof. intros ops. exact (proj1 (run_inv ops st_initial inv_initial)). Qed.

(* a vector parameter (handle 3), an unknown parameter whose initial guess it is (4), a parameter
   correlated with that unknown (5), and a vnacal_new_t with three frequencies 1, 2, 3 *)
Definition chain_script : list op :=
  [OMakeVector [1; 2; 3]%Z [(5, 6); (7, 8); (9, 10)]%Z 0; OMakeUnknown 3 0; OMakeCorrelated 4 3 None 0;
   ONewAlloc 0 0 1 3; OSetFreq 0 1].

(* two calibrations c1 (index 0), c2 (index 1); the vnacal_new_t is solved again *)
Definition two_cals_script : list op := d8_script ++ [OAddCal 0 2; OSolve 0 true].

Example fuel_example :
  let s := run_state chain_script in
  Inv s /\ st_freed s = false /\ length (pt_slots (st_pt s)) = 8 /\
  (exists p, slot (st_pt s) 5 = Some p /\ other_of (p_kind p) = Some 4) /\
  (exists e, chain_end 9 (st_pt s) 5 = Some e /\ p_kind e = KVector [1; 2; 3]%Z [(5, 6); (7, 8); (9, 10)]%Z) /\
  chain_end 2 (st_pt s) 5 = None.
Proof.
  split; [apply inv_run_state|]. vm_compute. ssplit; auto; eexists; split; reflexivity.
Qed.

Example accepted_standard_example :
  let s := run_state chain_script in
  Inv s /\ st_freed s = false /\
  exists v, get_new s 0 = Some v /\ (forall h, In h [5%Z] -> acceptable (st_pt s) v h) /\
            ~ In 5 (vn_params v) /\
            exists s', step s (OAddStd 0 [5%Z] [(1, 0); (2, 0); (3, 0)]%Z) = (s', ok_int 0).
Proof.
  split; [apply inv_run_state|]. split; [reflexivity|].
  eexists. split; [vm_compute; reflexivity|]. split; [|split].
  - intros h [<-|[]].
    assert (E3 : ends_at (st_pt (run_state chain_script)) 3
                   (mkParam (KVector [1; 2; 3]%Z [(5, 6); (7, 8); (9, 10)]%Z) false 2)).
    { apply ends_here; vm_compute; reflexivity. }
    assert (E4 : ends_at (st_pt (run_state chain_script)) 4
                   (mkParam (KVector [1; 2; 3]%Z [(5, 6); (7, 8); (9, 10)]%Z) false 2)).
    { eapply ends_next; [vm_compute; reflexivity|vm_compute; reflexivity|exact E3]. }
    eapply acc_visible; [lia|vm_compute; reflexivity|reflexivity| |].
    + right. eexists. split; [eapply ends_next; [vm_compute; reflexivity|vm_compute; reflexivity|exact E4]|].
      vm_compute. reflexivity.
    + intros o sf sv K. vm_compute in K. inv K.
      eapply acc_visible; [lia|vm_compute; reflexivity|reflexivity| |].
      * right. eexists. split; [exact E4|]. vm_compute. reflexivity.
      * intros o sf sv K. vm_compute in K. discriminate.
  - vm_compute. intros [H|[]]. discriminate.
  - eexists. vm_compute. reflexivity.
Qed.

(* handle 3 is held by the vnacal_new_t, handle 9 is neither held nor visible *)
Example rejected_standard_example :
  let s := run_state held_script in
  Inv s /\ st_freed s = false /\
  exists v, get_new s 0 = Some v /\ (exists h, In h [3%Z; 9%Z] /\ ~ acceptable (st_pt s) v h) /\
            acceptable (st_pt s) v 3.
Proof.
  split; [apply inv_run_state|]. split; [reflexivity|].
  eexists. split; [vm_compute; reflexivity|]. split.
  - exists 9%Z. split; [simpl; auto|]. apply unheld_invisible_not_acceptable.
    + vm_compute. intros (_ & [H|[H|[]]]); discriminate.
    + vm_compute. reflexivity.
  - apply acc_held; [lia|]. vm_compute. auto.
Qed.

(* a visible vector parameter over 1..3 offered to a vnacal_new_t whose frequencies are 1..10: the
   frequency-range test refuses it *)
Definition range_script : list op :=
  [OMakeVector [1; 2; 3]%Z [(5, 6); (7, 8); (9, 10)]%Z 0; ONewAlloc 0 0 1 10; OSetFreq 0 1].

Example rejected_standard_out_of_range_example :
  let s := run_state range_script in
  Inv s /\ st_freed s = false /\
  exists v, get_new s 0 = Some v /\ (exists h, In h [0%Z; 3%Z] /\ ~ acceptable (st_pt s) v h) /\
            get_param (st_pt s) 3 <> None.
Proof.
  split; [apply inv_run_state|]. split; [reflexivity|].
  eexists. split; [vm_compute; reflexivity|]. split; [|vm_compute; discriminate].
  exists 3%Z. split; [simpl; auto|]. intros H.
  inversion H as [h1 H0 H1 | h1 p H0 Sl D Rg Hc]; subst.
  - vm_compute in H1. destruct H1 as [H1|[]]. discriminate.
  - destruct Rg as [Rg|(e & Ee & Rg)]; [vm_compute in Rg; discriminate|].
    assert (E3 : ends_at (st_pt (run_state range_script)) (Z.to_nat 3)
                   (mkParam (KVector [1; 2; 3]%Z [(5, 6); (7, 8); (9, 10)]%Z) false 1)).
    { apply ends_here; vm_compute; reflexivity. }
    rewrite (ends_at_unique _ _ _ Ee _ E3) in Rg. vm_compute in Rg. discriminate.
Qed.

Example add_index_stable_example :
  let s := run_state d8_script in
  let ops := [OMakeScalar (32, 0)%Z 0; OMakeUnknown 3 0; ONewAlloc 1 0 1 2; OSetFreq 1 5;
              OAddStd 1 [4%Z] [(1, 0); (2, 0)]%Z; OSolve 1 true; OPropSet (-1) 7; ODeleteParam 3;
              OGetValue 4 5; ONewFree 1; OFind 9; OEnd] in
  exists s', step s (OAddCal 0 2) = (s', ok_int 1) /\
             Forall (fun o => touches_cals o = false) ops /\
             st_pt (fst (run s' ops)) <> st_pt s' /\
             snd (step (fst (run s' ops)) (OFind 2)) = ok_int 1.
Proof.
  eexists. split; [vm_compute; reflexivity|]. split; [repeat constructor|]. split.
  - vm_compute. discriminate.
  - vm_compute. reflexivity.
Qed.

(* index 1 = c2 survives: add of c3 (which takes index 2), delete of index 0, add of c4 (which
   re-uses index 0), a property set on index 1, replacement of c3 *)
Example index_stable_example :
  let s := run_state two_cals_script in
  let c := mkCal 2 0 1 1 1 1 1 None in
  let ops := [OAddCal 0 3; OSolve 0 true; ODelCal 0; OAddCal 0 4; OSolve 0 true; OPropSet 1 9;
              OAddCal 0 3; OMakeScalar (32, 0)%Z 0] in
  at_index s 1 c /\ Forall (leaves_index 1 (c_name c)) ops /\
  st_cals (fst (run s ops)) <> st_cals s /\
  snd (step (fst (run s ops)) OEnd) = ok_int 3.
Proof.
  split; [|split; [|split]].
  - unfold at_index. vm_compute. ssplit; auto. eexists. split; [reflexivity|]. ssplit; reflexivity.
  - repeat constructor; try discriminate; intros; discriminate.
  - vm_compute. discriminate.
  - vm_compute. reflexivity.
Qed.

(* a REACHABLE table on which the code as it was before fix D11 breaks the bookkeeping: after one
   make_scalar the table has 8 slots, 4 used, first_free = 3; a failing allocation scanned to the
   empty slot 4 and left first_free = 5 *)
Lemma alloc_fail_variant_breaks_first_free_l :
  let t := st_pt (run_state [OMakeScalar (32, 0)%Z 0]) in
  inv_table t /\ exists t', alloc_param_gen false t (KScalar (1, 1)%Z) 1 = AFail t' /\ ~ inv_table t'.
Proof.
  split.
  - destruct (inv_run_state [OMakeScalar (32, 0)%Z 0] eq_refl) as (A & _). exact A.
  - eexists. split; [vm_compute; reflexivity|].
    intros (_ & _ & P & _). apply (P 4); [vm_compute; lia|vm_compute; reflexivity].
Qed.

Example alloc_failure_example :
  let t := st_pt (run_state [OMakeScalar (32, 0)%Z 0]) in
  inv_table t /\ exists t', alloc_param t (KScalar (1, 1)%Z) 1 = AFail t' /\ pt_first_free t' = 4.
Proof.
  split.
  - destruct (inv_run_state [OMakeScalar (32, 0)%Z 0] eq_refl) as (A & _). exact A.
  - eexists. split; vm_compute; reflexivity.
Qed.

Example add_existing_name_full_example :
  let s := run_state d8_script in
  st_freed s = false /\ find_name (st_cals s) 1 = Some 0 /\
  exists s', step s (OAddCal 0 1) = (s', ok_int 0) /\ o_err (ok_int 0) = ENone /\ o_ret (ok_int 0) <> RNoSuch.
Proof. vm_compute. ssplit; auto. eexists. ssplit; auto. discriminate. Qed.

Example delete_refused_example :
  exists s' out, step (run_state two_cals_script) (ODelCal 5) = (s', out) /\ o_ret out <> RInt 0 /\ o_err out = ENOENT.
Proof. eexists _, _. split; [vm_compute; reflexivity|]. split; [discriminate|reflexivity]. Qed.

Example end_example :
  let s := fst (step (run_state two_cals_script) (ODelCal 0)) in
  st_freed s = false /\ step s OEnd = (s, ok_int 2) /\ cal_map s 0 = None /\ cal_map s 1 <> None.
Proof. vm_compute. ssplit; auto. discriminate. Qed.

Example properties_example :
  let s := run_state two_cals_script in
  (exists s', step s (OPropSet (-1) 7) = (s', ok_int 0) /\ snd (step s' (OPropGet 0)) = mkOut (RTok None) ENOENT 0) /\
  (exists s', step s (OPropSet 1 8) = (s', ok_int 0) /\ snd (step s' (OPropGet (-1))) = mkOut (RTok None) ENOENT 0 /\
              snd (step s' (OPropGet 0)) = mkOut (RTok None) ENOENT 0 /\
              snd (step s' (OPropGet 1)) = mkOut (RTok (Some 8%Z)) ENone 0).
Proof. split; eexists; vm_compute; ssplit; reflexivity. Qed.

Example handles_unique_full_example :
  let s := run_state held_script in
  Inv s /\ st_freed s = false /\ is_make (OMakeUnknown 3 0) = true /\
  exists s', step s (OMakeUnknown 3 0) = (s', ok_int 4) /\ (3 <= 4)%Z.
Proof. split; [apply inv_run_state|]. vm_compute. ssplit; auto. eexists. split; [reflexivity|discriminate]. Qed.

Example predefined_example : st_freed (run_state chain_script) = false /\ run_state chain_script <> st_initial.
Proof. vm_compute. split; [reflexivity|discriminate]. Qed.

Example deleted_while_held_full_example :
  let s := run_state held_script in
  Inv s /\ st_freed s = false /\ (exists p, get_param (st_pt s) 3 = Some (3, p)) /\ (3 <= 3)%Z /\
  (exists v, get_new s 0 = Some v /\ In 3 (vn_params v)).
Proof.
  split; [apply inv_run_state|]. vm_compute. ssplit; auto.
  - eexists; reflexivity.
  - discriminate.
  - eexists. split; [reflexivity|]. simpl. auto.
Qed.

Example scalar_value_example :
  let s := run_state held_script in
  Inv s /\ st_freed s = false /\
  exists s', step s (OMakeScalar (5, 7)%Z 0) = (s', ok_int 4) /\
             get_value (st_pt s') 4 123 = mkOut (RValue (5, 7)%Z) ENone 0.
Proof. split; [apply inv_run_state|]. vm_compute. ssplit; auto. eexists. split; reflexivity. Qed.

(* the vector parameter 3 of chain_script keeps its value while unknowns are made from it, a
   standard using it is added, solved, another parameter is deleted, the vnacal_new_t is freed *)
Example values_stable_example :
  let s := run_state chain_script in
  let ops := [OAddStd 0 [5%Z] [(1, 0); (2, 0); (3, 0)]%Z; OSolve 0 true; OAddCal 0 1; ODeleteParam 5;
              OMakeScalar (9, 9)%Z 0; ONewFree 0; ODeleteParam 4] in
  Inv s /\ st_freed s = false /\
  (exists p, slot (st_pt s) 3 = Some p /\ p_deleted p = false /\ other_of (p_kind p) = None) /\
  Forall (not_free_or_delete 3) ops /\
  st_pt (fst (run s ops)) <> st_pt s /\
  get_value (st_pt (fst (run s ops))) 3 2 = mkOut (RValue (7, 8)%Z) ENone 0.
Proof.
  split; [apply inv_run_state|]. split; [reflexivity|]. split; [eexists; vm_compute; ssplit; reflexivity|].
  split; [repeat constructor; discriminate|]. split; vm_compute; [discriminate|reflexivity].
Qed.

Example free_example :
  let s := run_state chain_script in
  Inv s /\ st_freed s = false /\ exists s', step s OFree = (s', mkOut (RInt 0) ENone 0).
Proof. split; [apply inv_run_state|]. vm_compute. split; auto. eexists. reflexivity. Qed.

Example short_gamma_example :
  step st_initial (OMakeVector [1; 2; 3]%Z [(5, 6)]%Z 0) = (st_initial, mkOut RUndef ENone 0).
Proof. vm_compute. reflexivity. Qed.
