(* Executable model, as coded, of the calibration slot vector and the parameter table of a
   vnacal_t (property C16):

     src/vnacal_calibration.c  _vnacal_add_calibration_common, _vnacal_calibration_free
     src/vnacal_add_calibration.c, vnacal_delete_calibration.c, vnacal_find_calibration.c,
     src/vnacal_get.c, vnacal_property.c (root selection only)
     src/vnacal_parameter.c, vnacal_make_{scalar,vector,unknown,correlated}_parameter.c,
     src/vnacal_delete_parameter.c, vnacal_get_parameter_value.c
     src/vnacal_new_parameter.c  _vnacal_new_get_parameter (per-vnacal_new_t parameter set)
     src/vnacal_new.c  vnacal_new_alloc / vnacal_new_free, vnacal_free.c, vnacal_create.c

   The model follows the code with the repairs of /verif/fixes/D08, D11, D23, D37, D42, D43, D44
   applied, D17 as well (each deviation from the unrepaired code is marked "fix Dnn" below).  [step_asis] is a
   VARIANT of the model that keeps three repaired defects (D08, D11, D42) for the record theorems
   c16_model_variant_before_fix_*; it corresponds to no current code and is not part of the tie.

   Abstractions (see docs/design_C16.md):
   - numbers: a complex value is a pair of integers in units of 1/64; frequencies are integers;
   - calibration names are integers (the harness prints "c<n>"); a property root is one optional
     integer token (key "tag");
   - the error terms of a calibration are not modelled; [OSolve] takes the outcome of the numeric
     solver as an oracle bit and the solved value of an unknown parameter is the measured value
     the script supplied for the standard that uses it (ideal VNA: M = S);
   - rational-function interpolation is not modelled: a value asked at a knot is the knot's value
     ([RValue]), any other in-range frequency gives [RInterp];
   - allocation failure only for the parameter allocation ([fail] argument of the make ops);
   - fuel: [release], [frange], [chain_end], [vn_get_param], [vn_check_param] follow [other] links with
     a fuel of (number of slots + 1) where the C code has an unbounded loop / recursion.  The
     invariant (TableSpec.Inv) contains the acyclicity of the [other] links, and CalTabProofs proves
     that under it the fuel is never exhausted (the result is the same for every larger fuel).
   No proofs in this file. *)
Require Import List ZArith Bool Arith.
Import ListNotations.
Local Open Scope nat_scope.

(* ------------------------------------------------------------------ generic list helpers *)
Fixpoint upd {A} (l : list A) (i : nat) (x : A) : list A :=
  match l, i with
  | [], _ => []
  | _ :: t, O => x :: t
  | h :: t, S j => h :: upd t j x
  end.

Fixpoint first_none {A} (l : list (option A)) : option nat :=
  match l with
  | [] => None
  | None :: _ => Some 0
  | Some _ :: t => match first_none t with Some k => Some (S k) | None => None end
  end.

(* ------------------------------------------------------------------ values, parameters *)
Definition val := (Z * Z)%type.
Definition val_eqb (a b : val) : bool := (Z.eqb (fst a) (fst b) && Z.eqb (snd a) (snd b))%bool.

Inductive solved := Unsolved | Solved (fs : list Z) (gs : list val).

Inductive pkind :=
| KScalar (g : val)
| KVector (fs : list Z) (gs : list val)
| KUnknown (other : nat) (s : solved)
| KCorrelated (other : nat) (sf : option (list Z)) (s : solved).   (* sf: the parameter's OWN sigma frequency grid (None = vpmr_sigma_frequency_vector NULL, or the chain end's own vector) *)

Record param := mkParam { p_kind : pkind; p_deleted : bool; p_hold : nat }.

Definition other_of (k : pkind) : option nat :=
  match k with KUnknown o _ | KCorrelated o _ _ => Some o | _ => None end.

(* vprmc_allocation = length pt_slots *)
Record ptable := mkPT { pt_slots : list (option param); pt_count : nat; pt_first_free : nat }.

Definition slot (t : ptable) (h : nat) : option param := nth h (pt_slots t) None.
Definition set_slot (t : ptable) (h : nat) (p : option param) : ptable :=
  mkPT (upd (pt_slots t) h p) (pt_count t) (pt_first_free t).

(* _vnacal_get_parameter: NULL when out of range, empty or deleted *)
Definition get_param (t : ptable) (h : Z) : option (nat * param) :=
  if (h <? 0)%Z then None else
  let n := Z.to_nat h in
  match slot t n with
  | Some p => if p_deleted p then None else Some (n, p)
  | None => None
  end.

Definition grow (a : nat) : nat := if a <? 3 then 3 else if a <? 8 then 8 else 2 * a.

Inductive alloc_res :=
| AOk (t : ptable) (h : nat)
| AFail (t : ptable)          (* realloc/malloc failed: ENOMEM, one callback *)
| AFault.                      (* assert(parameter < allocation) / read past the vector *)

(* _vnacal_alloc_parameter.  [fail] = which allocation request fails (0: none).
   [fixed_d11 = false] keeps the code as it was: first_free stays advanced when malloc fails. *)
Definition alloc_param_gen (fixed_d11 : bool) (t : ptable) (k : pkind) (fail : nat) : alloc_res :=
  let a := length (pt_slots t) in
  let fresh := Some (mkParam k false 1) in
  if pt_count t <? a then
    match first_none (skipn (pt_first_free t) (pt_slots t)) with
    | None => AFault
    | Some off =>
      let h := pt_first_free t + off in
      if fail =? 1 then
        AFail (mkPT (pt_slots t) (pt_count t) (if fixed_d11 then h else S h))
      else AOk (mkPT (upd (pt_slots t) h fresh) (S (pt_count t)) (S h)) h
    end
  else
    if fail =? 1 then AFail t
    else
      let slots' := pt_slots t ++ repeat None (grow a - a) in
      let h := pt_count t in
      if fail =? 2 then AFail (mkPT slots' (pt_count t) (pt_first_free t))
      else AOk (mkPT (upd slots' h fresh) (S (pt_count t)) (pt_first_free t)) h.

Definition alloc_param := alloc_param_gen true.

(* _vnacal_hold_parameter *)
Definition hold (t : ptable) (h : nat) : ptable :=
  match slot t h with
  | Some p => set_slot t h (Some (mkParam (p_kind p) (p_deleted p) (S (p_hold p))))
  | None => t
  end.

(* _vnacal_release_parameter with _vnacal_free_parameter; the recursion follows the [other]
   link of a freed unknown/correlated parameter.  The boolean is "an assertion failed / a NULL
   slot was dereferenced" (assert(hold_count > 0), assert(vpmr_deleted), assert(vprmc_count >= 1)).  Every recursive call removes one occupied slot, so fuel = number of
   slots + 1 suffices (proved in CalTabProofs: the fuel never runs out under the invariant). *)
Fixpoint release (fuel : nat) (t : ptable) (h : nat) : ptable * bool :=
  match fuel with
  | O => (t, true)
  | S f =>
    match slot t h with
    | None => (t, true)
    | Some p =>
      match p_hold p with
      | O => (t, true)                                   (* assert(hold_count > 0) *)
      | S O =>
        if negb (p_deleted p) then (t, true)             (* assert(vpmr_deleted) *)
        else if pt_count t =? 0 then (t, true)           (* _vnacal_free_parameter: assert(vprmc_count >= 1) *)
        else
          let t' := mkPT (upd (pt_slots t) h None) (pred (pt_count t))
                         (if h <? pt_first_free t then h else pt_first_free t) in
          match other_of (p_kind p) with
          | Some o => release f t' o
          | None => (t', false)
          end
      | S hc => (set_slot t h (Some (mkParam (p_kind p) (p_deleted p) hc)), false)
      end
    end
  end.

Definition release_top (t : ptable) (h : nat) : ptable * bool :=
  release (S (length (pt_slots t))) t h.

(* mark deleted and drop the creator's reference (vnacal_delete_parameter, teardown) *)
Definition delete_release (t : ptable) (h : nat) (p : param) : ptable * bool :=
  release_top (set_slot t h (Some (mkParam (p_kind p) true (p_hold p)))) h.

(* frequency range of a parameter (_vnacal_get_parameter_frange); None = 0 .. infinity *)
Fixpoint frange (fuel : nat) (t : ptable) (h : nat) : option (Z * Z) :=
  match fuel with
  | O => None
  | S f =>
    match slot t h with
    | Some p =>
      match p_kind p with
      | KScalar _ => None
      | KVector fs _ => Some (hd 0%Z fs, last fs 0%Z)
      | KUnknown o _ | KCorrelated o _ _ => frange f t o
      end
    | None => None
    end
  end.

(* _vnacal_get_parameter_frange, second half: "if the original object is of type VNACAL_CORRELATED and its
   sigma frequency vector is not NULL, further restrict the range" (only the parameter the question is
   asked about, not the parameters further down the chain).  None = 0 .. infinity.  The same comparisons as
   Gen/RangeGen.frange_clamp (regenerated from the C text for C10): fmin < smin ? smin : fmin,
   smax < fmax ? smax : fmax. *)
Definition sigma_of (k : pkind) : option (list Z) := match k with KCorrelated _ sf _ => sf | _ => None end.
Definition sigma_at (t : ptable) (h : nat) : option (list Z) :=
  match slot t h with Some p => sigma_of (p_kind p) | None => None end.
Definition clamp_range (sf : option (list Z)) (r : option (Z * Z)) : option (Z * Z) :=
  match sf with
  | None => r
  | Some fs =>
    let smin := hd 0%Z fs in let smax := last fs 0%Z in
    match r with
    | None => Some ((if (0 <? smin)%Z then smin else 0%Z), smax)
    | Some (a, b) => Some ((if (a <? smin)%Z then smin else a), (if (smax <? b)%Z then smax else b))
    end
  end.
Definition frange_c (fuel : nat) (t : ptable) (h : nat) : option (Z * Z) :=
  clamp_range (sigma_at t h) (frange fuel t h).

(* the predefined parameters MATCH (0), OPEN (1), SHORT (-1) at handles 0, 1, 2 *)
Definition pt_initial : ptable :=
  mkPT [Some (mkParam (KScalar (0, 0)%Z) false 1);
        Some (mkParam (KScalar (64, 0)%Z) false 1);
        Some (mkParam (KScalar (-64, 0)%Z) false 1)] 3 3.

(* ------------------------------------------------------------------ calibrations *)
Record cal := mkCal { c_name : Z; c_type : Z; c_rows : Z; c_cols : Z; c_nf : Z;
                      c_fmin : Z; c_fmax : Z; c_prop : option Z }.

Definition cal_named (name : Z) (c : option cal) : bool :=
  match c with Some x => Z.eqb (c_name x) name | None => false end.

Fixpoint find_name (l : list (option cal)) (name : Z) : option nat :=
  match l with
  | [] => None
  | c :: t => if cal_named name c then Some 0
              else match find_name t name with Some k => Some (S k) | None => None end
  end.

Definition cal_grow (a : nat) : nat := match a with 0 => 1 | 1 => 8 | _ => 2 * a end.

(* slot chosen by _vnacal_add_calibration_common and the (possibly extended) vector *)
Definition add_slot (l : list (option cal)) (name : Z) : list (option cal) * nat :=
  match find_name l name with
  | Some i => (l, i)
  | None =>
    match first_none l with
    | Some i => (l, i)
    | None => (l ++ repeat None (cal_grow (length l) - length l), length l)
    end
  end.

Definition cal_at (l : list (option cal)) (ci : Z) : option cal :=
  if (ci <? 0)%Z then None else nth (Z.to_nat ci) l None.

(* vnacal_get_calibration_end: trailing empty slots dropped *)
Fixpoint cal_end (l : list (option cal)) : nat :=
  match l with
  | [] => 0
  | c :: t => match cal_end t with
              | 0 => match c with Some _ => 1 | None => 0 end
              | S k => S (S k)
              end
  end.

(* ------------------------------------------------------------------ vnacal_new_t *)
Record meas := mkMeas { m_hs : list nat; m_vals : list val }.

Record vnew := mkVN { vn_type : Z; vn_dim : Z; vn_nf : nat; vn_fvalid : bool; vn_f0 : Z;
                      vn_params : list nat;      (* the parameter hash: each entry holds a reference *)
                      vn_unknowns : list nat;    (* vn_unknown_parameter_list, in order *)
                      vn_meas : list meas;
                      vn_cal : option cal }.

Definition type_valid (ty : Z) : bool :=
  existsb (Z.eqb ty) [0; 1; 2; 3; 4; 5; 6; 8]%Z.

Definition in_nat (h : nat) (l : list nat) : bool := existsb (Nat.eqb h) l.

(* check_single_frequency_range (fix D23: upper bound from fmax), in exact integer arithmetic:
   pfmin > 1.01 fmin  or  pfmax < 0.99 fmax *)
Definition range_ok (r : option (Z * Z)) (fmin fmax : Z) : bool :=
  match r with
  | None => true
  | Some (pmin, pmax) => negb ((101 * fmin <? 100 * pmin)%Z || (100 * pmax <? 99 * fmax)%Z)
  end.

Definition vn_fmax (v : vnew) : Z := (vn_f0 v + Z.of_nat (vn_nf v) - 1)%Z.

(* the guard of the frequency-range test in _vnacal_new_get_parameter / _vnacal_new_check_parameter, as
   coded: `vnp->vn_frequencies_valid && vnp->vn_frequencies > 0` (vnacal_new_alloc accepts 0 frequencies;
   a vnacal_new_t without frequency points has no range to test against) *)
Definition vn_ranged (v : vnew) : bool := (vn_fvalid v && (0 <? vn_nf v))%bool.

(* _vnacal_new_get_parameter.  Result: table, vnew, success.  (fix D44: a negative index is
   refused before the hash look-up; as coded it indexes the hash table with a negative number.) *)
Fixpoint vn_get_param (fuel : nat) (t : ptable) (v : vnew) (h : Z) : ptable * vnew * bool :=
  match fuel with
  | O => (t, v, false)
  | S f =>
    if ((0 <=? h)%Z && in_nat (Z.to_nat h) (vn_params v))%bool then (t, v, true)
    else
      match get_param t h with
      | None => (t, v, false)
      | Some (n, p) =>
        if (vn_ranged v && negb (range_ok (frange_c (S (length (pt_slots t))) t n) (vn_f0 v) (vn_fmax v)))%bool
        then (t, v, false)
        else
          let reg (t1 : ptable) (v1 : vnew) :=
            let unk := match p_kind p with KUnknown _ _ | KCorrelated _ _ _ => true | _ => false end in
            (hold t1 n,
             mkVN (vn_type v1) (vn_dim v1) (vn_nf v1) (vn_fvalid v1) (vn_f0 v1)
                  (vn_params v1 ++ [n]) (if unk then vn_unknowns v1 ++ [n] else vn_unknowns v1)
                  (vn_meas v1) (vn_cal v1), true) in
          match p_kind p with
          | KCorrelated o _ _ =>
            match vn_get_param f t v (Z.of_nat o) with
            | (t1, v1, true) => reg t1 v1
            | (t1, v1, false) => (t1, v1, false)
            end
          | _ => reg t v
          end
      end
  end.

(* _vnacal_new_check_parameter (fix D17): the tests of _vnacal_new_get_parameter, in the same
   order, without adding anything *)
Fixpoint vn_check_param (fuel : nat) (t : ptable) (v : vnew) (h : Z) : bool :=
  match fuel with
  | O => false
  | S f =>
    if ((0 <=? h)%Z && in_nat (Z.to_nat h) (vn_params v))%bool then true
    else
      match get_param t h with
      | None => false
      | Some (n, p) =>
        if (vn_ranged v && negb (range_ok (frange_c (S (length (pt_slots t))) t n) (vn_f0 v) (vn_fmax v)))%bool
        then false
        else match p_kind p with
             | KCorrelated o _ _ => vn_check_param f t v (Z.of_nat o)
             | _ => true
             end
      end
  end.

(* the loop over the cells of the S matrix in _vnacal_new_add_common, run after every cell has
   passed vn_check_param (fix D17: a refused standard registers nothing) *)
Fixpoint vn_get_params (t : ptable) (v : vnew) (hs : list Z) : ptable * vnew * bool :=
  match hs with
  | [] => (t, v, true)
  | h :: r =>
    match vn_get_param (S (length (pt_slots t))) t v h with
    | (t1, v1, true) => vn_get_params t1 v1 r
    | (t1, v1, false) => (t1, v1, false)
    end
  end.

(* _vnacal_new_free_parameter_hash *)
Fixpoint release_all (t : ptable) (hs : list nat) : ptable * bool :=
  match hs with
  | [] => (t, false)
  | h :: r => let '(t1, f1) := release_top t h in
              let '(t2, f2) := release_all t1 r in (t2, (f1 || f2)%bool)
  end.

(* ------------------------------------------------------------------ state, operations, outcomes *)
Record state := mkSt { st_pt : ptable; st_cals : list (option cal); st_news : list (option vnew);
                       st_gprop : option Z; st_freed : bool }.

Definition max_vn := 8.
Definition st_initial : state := mkSt pt_initial [] (repeat None max_vn) None false.

Inductive op :=
| OMakeScalar (g : val) (fail : nat)
| OMakeVector (fs : list Z) (gs : list val) (fail : nat)
| OMakeUnknown (h : Z) (fail : nat)
| OMakeCorrelated (h : Z) (n : Z) (sf : option (list Z)) (fail : nat)   (* sf = sigma_frequency_vector (None = NULL), n = sigma_frequencies *)
| ODeleteParam (h : Z)
| OGetValue (h : Z) (f : Z)
| ONewAlloc (id : nat) (ty : Z) (dim : Z) (nf : nat)
| OSetFreq (id : nat) (f0 : Z)
| OAddStd (id : nat) (hs : list Z) (ms : list val)
| OSolve (id : nat) (oracle_ok : bool)
| OAddCal (id : nat) (name : Z)
| ODelCal (ci : Z)
| OFind (name : Z)
| OGetCal (ci : Z)
| OEnd
| OPropSet (ci : Z) (tok : Z)
| OPropGet (ci : Z)
| ONewFree (id : nat)
| OFree.

Inductive ret :=
| RInt (z : Z)
| RValue (v : val)              (* exact value *)
| RApprox (v : val)             (* value produced by the numeric solver: compared with a tolerance *)
| RInterp                       (* interpolated value: not compared *)
| RHuge
| RPtr (ok : bool)
| RCal (name ty rows cols nf fmin fmax : Z)
| RTok (tok : option Z)
| RNoSuch                       (* the script names a vnacal_new_t id that is not allocated / is busy *)
| RGone                         (* vnacal_t already freed *)
| RUndef                        (* caller error the C code cannot detect (an argument array shorter than
                                   the count passed with it): the model makes no prediction; the state is
                                   left alone and the driver flags the line, so a script that reaches this
                                   outcome can never agree with the library *)
| RFault.                       (* assertion failure or invalid memory access *)

Inductive ecl := ENone | EINVAL | ENOENT | EDOM | ENOMEM.

Record outcome := mkOut { o_ret : ret; o_err : ecl; o_cb : nat }.

Definition ok_int (z : Z) := mkOut (RInt z) ENone 0.
Definition fail_usage := mkOut (RInt (-1)) EINVAL 1.      (* _vnacal_error(VNAERR_USAGE) *)
Definition fail_silent (e : ecl) := mkOut (RInt (-1)) e 0.
Definition fail_nomem := mkOut (RInt (-1)) ENOMEM 1.
Definition fault := mkOut RFault ENone 0.

Definition with_pt (s : state) (t : ptable) : state :=
  mkSt t (st_cals s) (st_news s) (st_gprop s) (st_freed s).
Definition with_cals (s : state) (l : list (option cal)) : state :=
  mkSt (st_pt s) l (st_news s) (st_gprop s) (st_freed s).
Definition with_new (s : state) (t : ptable) (id : nat) (v : option vnew) : state :=
  mkSt t (st_cals s) (upd (st_news s) id v) (st_gprop s) (st_freed s).

Definition get_new (s : state) (id : nat) : option vnew := nth id (st_news s) None.

(* ascending test of vnacal_make_vector_parameter *)
Fixpoint ascending (l : list Z) : bool :=
  match l with
  | a :: ((b :: _) as r) => ((a <? b)%Z && ascending r)%bool
  | _ => true
  end.

Fixpoint chain_end (fuel : nat) (t : ptable) (h : nat) : option param :=
  match fuel with
  | O => None
  | S f => match slot t h with
           | Some p => match other_of (p_kind p) with Some o => chain_end f t o | None => Some p end
           | None => None
           end
  end.

Fixpoint index_of (f : Z) (fs : list Z) : option nat :=
  match fs with
  | [] => None
  | x :: r => if Z.eqb x f then Some 0 else match index_of f r with Some k => Some (S k) | None => None end
  end.

(* vnacal_get_parameter_value on a frequency/gamma table *)
Definition table_value (approx : bool) (fs : list Z) (gs : list val) (f : Z) : outcome :=
  let fmin := hd 0%Z fs in let fmax := last fs 0%Z in
  if ((100 * f <? 99 * fmin)%Z || (101 * fmax <? 100 * f)%Z)%bool then mkOut RHuge EINVAL 1
  else match index_of f fs with
       | Some i => mkOut ((if approx then RApprox else RValue) (nth i gs (0, 0)%Z)) ENone 0
       | None => mkOut RInterp ENone 0
       end.

Definition get_value (t : ptable) (h : Z) (f : Z) : outcome :=
  match get_param t h with
  | None => mkOut RHuge EINVAL 1
  | Some (_, p) =>
    match p_kind p with
    | KScalar g => mkOut (RValue g) ENone 0
    | KVector fs gs => table_value false fs gs f
    | KUnknown _ (Solved fs gs) | KCorrelated _ _ (Solved fs gs) => table_value true fs gs f
    | KUnknown _ Unsolved | KCorrelated _ _ Unsolved => mkOut RHuge EINVAL 1
    end
  end.

Definition finish_make (s : state) (r : alloc_res) (after : ptable -> ptable) : state * outcome :=
  match r with
  | AOk t h => (with_pt s (after t), ok_int (Z.of_nat h))
  | AFail t => (with_pt s t, fail_nomem)
  | AFault => (s, fault)
  end.

(* solve write-back: the measured values of the first standard that uses the unknown *)
Fixpoint meas_for (h : nat) (k : nat) (ms : list meas) : list val :=
  match ms with
  | [] => []
  | m :: r =>
    match index_of (Z.of_nat h) (map Z.of_nat (m_hs m)) with
    | Some i => firstn k (skipn (i * k) (m_vals m))
    | None => meas_for h k r
    end
  end.

Definition write_back (t : ptable) (v : vnew) (h : nat) : ptable :=
  match slot t h with
  | Some p =>
    (* as coded: with 0 frequencies vpmr_frequency_vector is left NULL, which vnacal_get_parameter_value
       reads as "unknown parameter value": the parameter is unsolved again *)
    let sv := if vn_nf v =? 0 then Unsolved
              else Solved (map (fun i => (vn_f0 v + Z.of_nat i)%Z) (seq 0 (vn_nf v))) (meas_for h (vn_nf v) (vn_meas v)) in
    let k := match p_kind p with
             | KUnknown o _ => KUnknown o sv
             | KCorrelated o sf _ => KCorrelated o sf sv
             | k0 => k0
             end in
    set_slot t h (Some (mkParam k (p_deleted p) (p_hold p)))
  | None => t
  end.

(* vnacal_get_fmin / vnacal_get_fmax of a calibration: None = HUGE_VAL with errno EINVAL, the answer for a
   calibration without frequency points (the record fields c_fmin / c_fmax are then unused) *)
Definition frange_opt (nf fmin fmax : Z) : option (Z * Z) := if (nf =? 0)%Z then None else Some (fmin, fmax).
Definition cal_frange (c : cal) : option (Z * Z) := frange_opt (c_nf c) (c_fmin c) (c_fmax c).

Definition type_out (ty : Z) : Z := ty.     (* VNACAL_E12 is solved as UE14 and converted back *)

Definition set_prop (c : cal) (tok : option Z) : cal :=
  mkCal (c_name c) (c_type c) (c_rows c) (c_cols c) (c_nf c) (c_fmin c) (c_fmax c) tok.

(* vnacal_free: every vnacal_new_t, then the calibrations (fix D37), then the parameter table
   (fix D42: already-deleted entries are skipped; from the highest index down) *)
Fixpoint free_news (t : ptable) (l : list (option vnew)) : ptable * bool :=
  match l with
  | [] => (t, false)
  | None :: r => free_news t r
  | Some v :: r => let '(t1, f1) := release_all t (vn_params v) in
                   let '(t2, f2) := free_news t1 r in (t2, (f1 || f2)%bool)
  end.

Fixpoint teardown (t : ptable) (idx : list nat) : ptable * bool :=
  match idx with
  | [] => (t, false)
  | i :: r =>
    match slot t i with
    | Some p => if p_deleted p then teardown t r
                else let '(t1, f1) := delete_release t i p in
                     let '(t2, f2) := teardown t1 r in (t2, (f1 || f2)%bool)
    | None => teardown t r
    end
  end.

(* as coded before fix D42: each entry must be live and must be freed by its own release *)
Fixpoint teardown_asis (t : ptable) (idx : list nat) : ptable * bool :=
  match idx with
  | [] => (t, false)
  | i :: r =>
    match slot t i with
    | Some p => if p_deleted p then (t, true)
                else let '(t1, f1) := delete_release t i p in
                     match slot t1 i with
                     | Some _ => (t1, true)
                     | None => let '(t2, f2) := teardown_asis t1 r in (t2, (f1 || f2)%bool)
                     end
    | None => teardown_asis t r
    end
  end.

Definition free_all (asis : bool) (s : state) : state * outcome :=
  let '(t1, f1) := free_news (st_pt s) (st_news s) in
  let idx := rev (seq 0 (length (pt_slots t1))) in
  let '(t2, f2) := (if asis then teardown_asis else teardown) t1 idx in
  (* _vnacal_teardown_parameter_collection ends with assert(vprmc_count == 0) *)
  if (f1 || f2 || negb (pt_count t2 =? 0))%bool then (s, fault)
  else (mkSt t2 [] (repeat None max_vn) None true, mkOut (RInt 0) ENone 0).

Definition step_gen (asis : bool) (s : state) (o : op) : state * outcome :=
  if st_freed s then (s, mkOut RGone ENone 0) else
  let t := st_pt s in
  match o with
  | OMakeScalar g fl =>
    if val_eqb g (0, 0)%Z then (s, ok_int 0)
    else if val_eqb g (64, 0)%Z then (s, ok_int 1)
    else if val_eqb g (-64, 0)%Z then (s, ok_int 2)
    else finish_make s (alloc_param_gen (negb asis) t (KScalar g) fl) (fun t => t)
  | OMakeVector fs gs fl =>
    match fs with
    | [] => (s, fail_usage)
    | f0 :: _ =>
      if ((f0 <? 0)%Z || negb (ascending fs))%bool then (s, fail_usage)
      (* the C function receives ONE count (`frequencies`) for both arrays and copies that many
         entries of gamma_vector: a shorter caller array is read past its end (undefined, not
         detectable by the code); a longer one is truncated *)
      else if length gs <? length fs then (s, mkOut RUndef ENone 0)
      else finish_make s (alloc_param_gen (negb asis) t (KVector fs (firstn (length fs) gs)) fl) (fun t => t)
    end
  | OMakeUnknown h fl =>
    match get_param t h with
    | None => (s, fail_usage)
    | Some (n, _) => finish_make s (alloc_param_gen (negb asis) t (KUnknown n Unsolved) fl) (fun t => hold t n)
    end
  | OMakeCorrelated h n sf fl =>
    match get_param t h with
    | None => (s, fail_usage)
    | Some (o, _) =>
      if (n <? 1)%Z then (s, fail_usage)
      else if negb (1 <? n)%Z then
        (* one sigma value: sigma_frequency_vector is ignored, vpmr_sigma_frequency_vector = NULL *)
        finish_make s (alloc_param_gen (negb asis) t (KCorrelated o None Unsolved) fl) (fun t => hold t o)
      else
        let pe := chain_end (S (length (pt_slots t))) t o in
        match sf with
        | None =>
          (* NULL: the grid of the initial guess, which must be a vector parameter of n points (the new parameter
             then points at that vector: clamping with it changes nothing, hence None here) *)
          let shape_ok :=
            match pe with
            | Some pe => match p_kind pe with
                         | KVector fs _ => Z.eqb (Z.of_nat (length fs)) n
                         | _ => false
                         end
            | None => false
            end in
          if negb shape_ok then (s, fail_usage)
          else finish_make s (alloc_param_gen (negb asis) t (KCorrelated o None Unsolved) fl) (fun t => hold t o)
        | Some sfv =>
          (* own grid: ONE count for both arrays (a shorter caller array is read past its end: no prediction);
             every entry non-negative (fix DC93 also refuses NaN / inf, which integers cannot express), strictly
             ascending, not disjoint with a vector initial guess; the spline's MIN_DX test cannot fail on integers *)
          if negb (Z.of_nat (length sfv) =? n)%Z then (s, mkOut RUndef ENone 0)
          else if (existsb (fun f => (f <? 0)%Z) sfv || negb (ascending sfv))%bool then (s, fail_usage)
          else
            let disjoint :=
              match pe with
              | Some pe => match p_kind pe with
                           | KVector fs _ => ((last fs 0 <? hd 0 sfv)%Z || (last sfv 0 <? hd 0 fs)%Z)%bool
                           | _ => false
                           end
              | None => false
              end in
            if disjoint then (s, fail_usage)
            else finish_make s (alloc_param_gen (negb asis) t (KCorrelated o (Some sfv) Unsolved) fl) (fun t => hold t o)
        end
    end
  | ODeleteParam h =>
    if ((0 <=? h)%Z && (h <? 3)%Z)%bool then (s, ok_int 0)      (* predefined: nothing to do *)
    else match get_param t h with
         | None => (s, fail_usage)
         | Some (n, p) => let '(t1, f1) := delete_release t n p in
                          if f1 then (s, fault) else (with_pt s t1, ok_int 0)
         end
  | OGetValue h f => (s, get_value t h f)
  | ONewAlloc id ty dim nf =>
    match nth_error (st_news s) id with
    | Some None =>
      if ((dim <? 1)%Z || negb (type_valid ty))%bool then (s, mkOut (RPtr false) EINVAL 1)
      else (with_new s (hold t 0) id (Some (mkVN ty dim nf false 0 [0] [] [] None)), mkOut (RPtr true) ENone 0)
    | _ => (s, mkOut RNoSuch ENone 0)
    end
  | OSetFreq id f0 =>
    match get_new s id with
    | None => (s, mkOut RNoSuch ENone 0)
    | Some v =>
      (* as coded: the loops over the vector (negative / NaN, ascending) and
         _vnacal_new_check_all_frequency_ranges run only over existing elements: with 0 frequencies nothing
         is read and the call succeeds (a NULL pointer is refused before that; the script cannot express it) *)
      if ((0 <? vn_nf v) && (f0 <? 0)%Z)%bool then (s, fail_usage)
      else
        let fmax := (f0 + Z.of_nat (vn_nf v) - 1)%Z in
        if (negb (0 <? vn_nf v) ||
            forallb (fun h => range_ok (frange_c (S (length (pt_slots t))) t h) f0 fmax) (vn_params v))%bool
        then (with_new s t id (Some (mkVN (vn_type v) (vn_dim v) (vn_nf v) true f0 (vn_params v)
                                          (vn_unknowns v) (vn_meas v) (vn_cal v))), ok_int 0)
        else (s, fail_usage)
    end
  | OAddStd id hs ms =>
    match get_new s id with
    | None => (s, mkOut RNoSuch ENone 0)
    | Some v =>
      if negb (forallb (vn_check_param (S (length (pt_slots t))) t v) hs) then (s, fail_usage)
      else
      match vn_get_params t v hs with
      | (t1, v1, true) =>
        let m := mkMeas (map Z.to_nat hs) ms in
        (with_new s t1 id (Some (mkVN (vn_type v1) (vn_dim v1) (vn_nf v1) (vn_fvalid v1) (vn_f0 v1)
                                      (vn_params v1) (vn_unknowns v1) (vn_meas v1 ++ [m]) (vn_cal v1))),
         ok_int 0)
      | (t1, v1, false) => (with_new s t1 id (Some v1), fail_usage)
      end
    end
  | OSolve id oracle_ok =>
    match get_new s id with
    | None => (s, mkOut RNoSuch ENone 0)
    | Some v =>
      if negb (vn_fvalid v) then (s, fail_usage)
      (* the numeric part runs once per frequency: without frequency points there is nothing to solve and
         vnacal_new_solve succeeds whatever standards were given (as coded) *)
      else if (negb oracle_ok && (0 <? vn_nf v))%bool then (s, mkOut (RInt (-1)) EDOM 1)
      else
        let c := mkCal 0 (type_out (vn_type v)) (vn_dim v) (vn_dim v) (Z.of_nat (vn_nf v))
                       (vn_f0 v) (vn_fmax v) None in
        let t1 := fold_left (fun tt h => write_back tt v h) (vn_unknowns v) t in
        (with_new s t1 id (Some (mkVN (vn_type v) (vn_dim v) (vn_nf v) (vn_fvalid v) (vn_f0 v) (vn_params v)
                                      (vn_unknowns v) (vn_meas v) (Some c))), ok_int 0)
    end
  | OAddCal id name =>
    match get_new s id with
    | None => (s, mkOut RNoSuch ENone 0)
    | Some v =>
      match vn_cal v with
      | None => (s, fail_usage)
      | Some c =>
        let '(l, i) := add_slot (st_cals s) name in
        let c' := mkCal name (c_type c) (c_rows c) (c_cols c) (c_nf c) (c_fmin c) (c_fmax c) (c_prop c) in
        let s1 := with_cals s (upd l i (Some c')) in
        (with_new s1 t id (Some (mkVN (vn_type v) (vn_dim v) (vn_nf v) (vn_fvalid v) (vn_f0 v) (vn_params v)
                                      (vn_unknowns v) (vn_meas v) None)),
         ok_int (if asis then 0 else Z.of_nat i))           (* fix D08: the slot index *)
      end
    end
  | ODelCal ci =>
    match cal_at (st_cals s) ci with
    | Some _ => (with_cals s (upd (st_cals s) (Z.to_nat ci) None), ok_int 0)
    | None => (s, fail_silent ENOENT)
    end
  | OFind name =>
    match find_name (st_cals s) name with
    | Some i => (s, ok_int (Z.of_nat i))
    | None => (s, fail_silent ENOENT)
    end
  | OGetCal ci =>
    match cal_at (st_cals s) ci with
    | Some c => (s, mkOut (RCal (c_name c) (c_type c) (c_rows c) (c_cols c) (c_nf c) (c_fmin c) (c_fmax c)) ENone 0)
    | None => (s, mkOut (RTok None) EINVAL 0)
    end
  | OEnd => (s, ok_int (Z.of_nat (cal_end (st_cals s))))
  | OPropSet ci tok =>
    if Z.eqb ci (-1) then (mkSt t (st_cals s) (st_news s) (Some tok) false, ok_int 0)
    else match cal_at (st_cals s) ci with
         | Some c => (with_cals s (upd (st_cals s) (Z.to_nat ci) (Some (set_prop c (Some tok)))), ok_int 0)
         | None => (s, fail_silent EINVAL)
         end
  | OPropGet ci =>
    if Z.eqb ci (-1) then
      (s, match st_gprop s with Some k => mkOut (RTok (Some k)) ENone 0 | None => mkOut (RTok None) ENOENT 0 end)
    else match cal_at (st_cals s) ci with
         | Some c => (s, match c_prop c with Some k => mkOut (RTok (Some k)) ENone 0
                                             | None => mkOut (RTok None) ENOENT 0 end)
         | None => (s, mkOut (RTok None) EINVAL 0)
         end
  | ONewFree id =>
    match get_new s id with
    | None => (s, mkOut RNoSuch ENone 0)
    | Some v => let '(t1, f1) := release_all t (vn_params v) in
                if f1 then (s, fault) else (with_new s t1 id None, ok_int 0)
    end
  | OFree => free_all asis s
  end.

Definition step := step_gen false.
Definition step_asis := step_gen true.      (* model variant: the code as it was before the fixes D08, D11, D42 *)

Fixpoint run (s : state) (ops : list op) : state * list outcome :=
  match ops with
  | [] => (s, [])
  | o :: r => let '(s1, x) := step s o in
              let '(s2, xs) := run s1 r in (s2, x :: xs)
  end.

Definition run_state (ops : list op) : state := fst (run st_initial ops).
