(* Lemmas for property C16 about CalTab/CalTabModel.v and CalTab/TableSpec.v. *)
Require Import List ZArith Bool Arith Lia.
Import ListNotations.
Require Import LV.CalTab.CalTabModel LV.CalTab.TableSpec.
Local Open Scope nat_scope.

(* ================================================================== lists *)
Lemma length_upd : forall A (l : list A) i x, length (upd l i x) = length l.
Proof. induction l; destruct i; simpl; intros; auto. Qed.

Lemma nth_upd_eq : forall A (l : list A) i x d, i < length l -> nth i (upd l i x) d = x.
Proof. induction l; destruct i; simpl; intros; try lia; auto. apply IHl. lia. Qed.

Lemma nth_upd_neq : forall A (l : list A) i j x d, i <> j -> nth j (upd l i x) d = nth j l d.
Proof.
  induction l; destruct i; destruct j; simpl; intros; try congruence; auto.
Qed.

Lemma upd_out : forall A (l : list A) i x, length l <= i -> upd l i x = l.
Proof. induction l; destruct i; simpl; intros; auto; try lia. f_equal. apply IHl. lia. Qed.

Lemma nth_upd : forall A (l : list A) i j x d,
  nth j (upd l i x) d = if (Nat.eqb j i && Nat.ltb i (length l))%bool then x else nth j l d.
Proof.
  intros. destruct (Nat.eqb_spec j i) as [->|N]; simpl.
  - destruct (Nat.ltb_spec i (length l)).
    + apply nth_upd_eq; auto.
    + rewrite upd_out by lia. auto.
  - apply nth_upd_neq. auto.
Qed.

Lemma first_none_spec : forall A (l : list (option A)) i,
  first_none l = Some i ->
  i < length l /\ nth i l None = None /\ forall j, j < i -> nth j l None <> None.
Proof.
  induction l as [|a l IH]; simpl; intros i H; try discriminate.
  destruct a.
  - destruct (first_none l) eqn:E; inversion H; subst.
    destruct (IH n eq_refl) as (L & N & P). repeat split; auto; try lia.
    intros j Hj. destruct j; simpl; try discriminate. apply P. lia.
  - inversion H; subst. repeat split; simpl; auto; try lia.
Qed.

Lemma first_none_none : forall A (l : list (option A)),
  first_none l = None -> forall j, j < length l -> nth j l None <> None.
Proof.
  induction l as [|a l IH]; simpl; intros H j Hj; try lia.
  destruct a; try discriminate.
  destruct (first_none l) eqn:E; try discriminate.
  destruct j; simpl; try discriminate. apply IH; auto. lia.
Qed.

Lemma nth_app_repeat_none : forall A (l : list (option A)) k j,
  nth j (l ++ repeat None k) None = nth j l None.
Proof.
  intros. destruct (Nat.ltb_spec j (length l)).
  - apply app_nth1; auto.
  - rewrite app_nth2 by lia. rewrite (nth_overflow l) by lia.
    destruct (Nat.ltb_spec (j - length l) k).
    + apply nth_repeat.
    + apply nth_overflow. rewrite repeat_length. lia.
Qed.

(* ================================================================== calibration table *)
Lemma find_name_spec : forall l name i,
  find_name l name = Some i ->
  i < length l /\ cal_named name (nth i l None) = true /\
  forall j, j < i -> cal_named name (nth j l None) = false.
Proof.
  induction l as [|a l IH]; simpl; intros name i H; try discriminate.
  destruct (cal_named name a) eqn:E.
  - inversion H; subst. repeat split; auto; try lia.
  - destruct (find_name l name) eqn:F; inversion H; subst.
    destruct (IH name n F) as (L & N & P). repeat split; auto; try lia.
    intros j Hj. destruct j; simpl; auto. apply P. lia.
Qed.

Lemma find_name_none : forall l name,
  find_name l name = None -> forall j, cal_named name (nth j l None) = false.
Proof.
  induction l as [|a l IH]; simpl; intros name H j.
  - destruct j; auto.
  - destruct (cal_named name a) eqn:E; try discriminate.
    destruct (find_name l name) eqn:F; try discriminate.
    destruct j; simpl; auto.
Qed.

Lemma find_name_intro : forall l name i,
  i < length l -> cal_named name (nth i l None) = true ->
  (forall j, j < i -> cal_named name (nth j l None) = false) ->
  find_name l name = Some i.
Proof.
  induction l as [|a l IH]; simpl; intros name i L N P; try lia.
  destruct i.
  - simpl in N. rewrite N. auto.
  - rewrite (P 0) by lia. rewrite (IH name i); auto; try lia.
    intros j Hj. apply (P (S j)). lia.
Qed.

Lemma cal_grow_gt : forall a, a < cal_grow a.
Proof. intros [|[|a]]; simpl; lia. Qed.

(* the slot chosen by add: inside the (possibly extended) vector, old contents kept, and it is
   the slot of that name if there is one, else the first free slot *)
Lemma add_slot_spec : forall l name l' i,
  add_slot l name = (l', i) ->
  i < length l' /\ length l <= length l' /\
  (forall j, nth j l' None = nth j l None) /\
  ((find_name l name = Some i) \/
   (find_name l name = None /\ nth i l None = None /\ forall j, j < i -> nth j l None <> None)).
Proof.
  unfold add_slot. intros l name l' i H.
  destruct (find_name l name) eqn:F.
  - inversion H; subst. destruct (find_name_spec _ _ _ F) as (L & _). repeat split; auto.
  - destruct (first_none l) eqn:G.
    + inversion H; subst. destruct (first_none_spec _ _ _ G) as (L & N & P).
      repeat split; auto.
    + inversion H; subst. pose proof (cal_grow_gt (length l)).
      rewrite app_length, repeat_length. repeat split; try lia.
      * intros. apply nth_app_repeat_none.
      * right. repeat split; auto.
        -- apply nth_overflow. lia.
        -- intros j Hj. apply first_none_none; auto.
Qed.

Lemma cal_named_true : forall name c, cal_named name c = true -> exists x, c = Some x /\ c_name x = name.
Proof.
  intros name [x|]; simpl; intros H; try discriminate. exists x. split; auto. apply Z.eqb_eq. auto.
Qed.

(* after the add, find sees the name at the chosen slot *)
Lemma find_after_add : forall l name l' i c,
  add_slot l name = (l', i) -> c_name c = name ->
  find_name (upd l' i (Some c)) name = Some i.
Proof.
  intros l name l' i c H Hc.
  destruct (add_slot_spec _ _ _ _ H) as (L & LL & Same & Cases).
  apply find_name_intro.
  - rewrite length_upd. auto.
  - rewrite nth_upd_eq by auto. simpl. apply Z.eqb_eq. auto.
  - intros j Hj. rewrite nth_upd_neq by lia. rewrite Same.
    destruct Cases as [F | (F & _)].
    + destruct (find_name_spec _ _ _ F) as (_ & _ & P). apply P. auto.
    + apply find_name_none. auto.
Qed.

Lemma cal_at_nat : forall l i, cal_at l (Z.of_nat i) = nth i l None.
Proof.
  intros. unfold cal_at. destruct (Z.ltb_spec (Z.of_nat i) 0); try lia. rewrite Nat2Z.id. auto.
Qed.

(* cal_end: nothing at or above it, and (when positive) something just below it *)
Lemma cal_end_spec : forall l,
  (forall j, cal_end l <= j -> nth j l None = None) /\
  (0 < cal_end l -> nth (cal_end l - 1) l None <> None) /\
  cal_end l <= length l.
Proof.
  induction l as [|a l (A & B & C)]; simpl.
  - repeat split; try lia. intros [|j]; auto.
  - destruct (cal_end l) eqn:E.
    + destruct a; simpl.
      * repeat split; try lia; try discriminate.
        intros [|j] Hj; try lia. simpl. apply A. lia.
      * repeat split; try lia. intros [|j] Hj; simpl; auto. apply A. lia.
    + repeat split; try lia.
      * intros [|j] Hj; try lia. simpl. apply A. lia.
      * intros _. assert (Hn : 0 < S n) by lia. specialize (B Hn). simpl in *. rewrite Nat.sub_0_r in *. exact B.
Qed.

(* ================================================================== calibration operations *)
Ltac inv H := inversion H; subst; clear H.
Ltac ssplit := repeat match goal with |- _ /\ _ => split end.

Lemma addcal_shape : forall s id name s' z,
  step s (OAddCal id name) = (s', ok_int z) ->
  exists v c l i,
    st_freed s = false /\ get_new s id = Some v /\ vn_cal v = Some c /\
    add_slot (st_cals s) name = (l, i) /\ z = Z.of_nat i /\
    st_freed s' = false /\
    st_cals s' = upd l i (Some (mkCal name (c_type c) (c_rows c) (c_cols c) (c_nf c) (c_fmin c) (c_fmax c) (c_prop c))) /\
    st_pt s' = st_pt s /\ st_gprop s' = st_gprop s.
Proof.
  intros s id name s' z H. unfold step, step_gen in H.
  destruct (st_freed s) eqn:Fr; [inv H|].
  destruct (get_new s id) as [v|] eqn:G; [|inv H].
  destruct (vn_cal v) as [c|] eqn:C; [|inv H].
  destruct (add_slot (st_cals s) name) as [l i] eqn:A.
  inv H. exists v, c, l, i. simpl. rewrite Fr. repeat split; auto.
Qed.

(* add returns the index at which find / get_name / get_type / ... then see the calibration *)
Lemma add_returns_found_index_l : forall s id name s' z,
  step s (OAddCal id name) = (s', ok_int z) ->
  snd (step s' (OFind name)) = ok_int z /\
  exists v c, get_new s id = Some v /\ vn_cal v = Some c /\
    snd (step s' (OGetCal z)) =
    mkOut (RCal name (c_type c) (c_rows c) (c_cols c) (c_nf c) (c_fmin c) (c_fmax c)) ENone 0.
Proof.
  intros s id name s' z H.
  destruct (addcal_shape _ _ _ _ _ H) as (v & c & l & i & Fr & G & C & A & Z & Fr' & Cals & _).
  subst z. destruct (add_slot_spec _ _ _ _ A) as (L & _).
  split.
  - unfold step, step_gen. rewrite Fr', Cals.
    rewrite (find_after_add _ _ _ _ _ A) by reflexivity. reflexivity.
  - exists v, c. repeat split; auto.
    unfold step, step_gen. rewrite Fr', Cals, cal_at_nat, nth_upd_eq by auto. reflexivity.
Qed.

(* adding an existing name replaces that calibration in place: same index, all other slots and
   the end of the table unchanged *)
Lemma add_existing_name_replaces_l : forall s id name i s' out,
  st_freed s = false ->
  find_name (st_cals s) name = Some i ->
  step s (OAddCal id name) = (s', out) -> o_err out = ENone -> o_ret out <> RNoSuch ->
  o_ret out = RInt (Z.of_nat i) /\
  length (st_cals s') = length (st_cals s) /\
  (forall j, j <> i -> nth j (st_cals s') None = nth j (st_cals s) None) /\
  (exists c, nth i (st_cals s') None = Some c /\ c_name c = name).
Proof.
  intros s id name i s' out Fr F H E NS. unfold step, step_gen in H. rewrite Fr in H.
  destruct (get_new s id) as [v|] eqn:G; [|inv H; simpl in NS; congruence].
  destruct (vn_cal v) as [c|] eqn:C; [|inv H; simpl in E; discriminate].
  unfold add_slot in H. rewrite F in H. inv H. simpl.
  destruct (find_name_spec _ _ _ F) as (L & _).
  repeat split; auto.
  - apply length_upd.
  - intros j Hj. apply nth_upd_neq. auto.
  - eexists. rewrite nth_upd_eq by auto. split; reflexivity.
Qed.

(* delete empties exactly one slot and does not renumber the others *)
Lemma delete_one_slot_l : forall s ci s',
  step s (ODelCal ci) = (s', ok_int 0) ->
  (0 <= ci)%Z /\ nth (Z.to_nat ci) (st_cals s) None <> None /\
  nth (Z.to_nat ci) (st_cals s') None = None /\
  length (st_cals s') = length (st_cals s) /\
  (forall j, j <> Z.to_nat ci -> nth j (st_cals s') None = nth j (st_cals s) None) /\
  st_pt s' = st_pt s /\ st_news s' = st_news s /\ st_gprop s' = st_gprop s.
Proof.
  intros s ci s' H. unfold step, step_gen in H.
  destruct (st_freed s); [inv H|].
  destruct (cal_at (st_cals s) ci) eqn:C; [|inv H].
  inv H. unfold cal_at in C. destruct (Z.ltb_spec ci 0); try discriminate.
  simpl. repeat split; auto; try lia.
  - congruence.
  - destruct (Nat.ltb_spec (Z.to_nat ci) (length (st_cals s))).
    + apply nth_upd_eq; auto.
    + rewrite nth_overflow in C by lia. discriminate.
  - apply length_upd.
  - intros. apply nth_upd_neq. auto.
Qed.

(* a refused delete (no calibration there) changes nothing and invokes no callback *)
Lemma delete_refused_unchanged : forall s ci s' out,
  step s (ODelCal ci) = (s', out) -> o_ret out <> RInt 0 -> s' = s /\ o_cb out = 0.
Proof.
  intros s ci s' out H N. unfold step, step_gen in H.
  destruct (st_freed s); [inv H; auto|].
  destruct (cal_at (st_cals s) ci); inv H; auto. simpl in N. congruence.
Qed.

(* get_calibration_end is one past the highest live index (0 when there is none) *)
Lemma end_is_max_plus_one_l : forall s s' out,
  st_freed s = false -> step s OEnd = (s', out) ->
  s' = s /\ exists e, out = ok_int (Z.of_nat e) /\
  (forall j, e <= j -> cal_map s j = None) /\ (0 < e -> cal_map s (e - 1) <> None).
Proof.
  intros s s' out Fr H. unfold step, step_gen in H. rewrite Fr in H. inv H. split; auto.
  exists (cal_end (st_cals s')). destruct (cal_end_spec (st_cals s')) as (A & B & _).
  repeat split; auto.
Qed.

(* global and per-calibration properties are separate roots *)
Lemma properties_separate_l : forall s ci tok s' out,
  step s (OPropSet ci tok) = (s', out) -> o_err out = ENone -> o_ret out = RInt 0 ->
  (ci = (-1)%Z -> st_cals s' = st_cals s /\ st_gprop s' = Some tok) /\
  (ci <> (-1)%Z ->
     st_gprop s' = st_gprop s /\ (0 <= ci)%Z /\
     (forall j, j <> Z.to_nat ci -> nth j (st_cals s') None = nth j (st_cals s) None) /\
     exists c, nth (Z.to_nat ci) (st_cals s) None = Some c /\
               nth (Z.to_nat ci) (st_cals s') None = Some (set_prop c (Some tok))).
Proof.
  intros s ci tok s' out H E R. unfold step, step_gen in H.
  destruct (st_freed s); [inv H; simpl in R; discriminate|].
  destruct (Z.eqb_spec ci (-1)).
  - inv H. split; intros; try congruence. simpl. auto.
  - destruct (cal_at (st_cals s) ci) eqn:C; [|inv H; simpl in E; discriminate].
    inv H. split; intros; try congruence.
    unfold cal_at in C. destruct (Z.ltb_spec ci 0); try discriminate. simpl.
    repeat split; auto.
    + intros. apply nth_upd_neq. auto.
    + exists c. split; auto.
      destruct (Nat.ltb_spec (Z.to_nat ci) (length (st_cals s))).
      * apply nth_upd_eq; auto.
      * rewrite nth_overflow in C by lia. discriminate.
Qed.

(* model variant [step_asis] (a hand-written record of the code as it was before fix D08; not tied
   to the current code): add returned 0 whatever the slot - the second calibration is found at
   index 1 but add answered 0 *)
Definition d8_script : list op :=
  [ONewAlloc 0 0 1 1; OSetFreq 0 1; OAddStd 0 [0%Z] [(0, 0)%Z]; OAddStd 0 [1%Z] [(64, 0)%Z];
   OAddStd 0 [2%Z] [(-64, 0)%Z]; OSolve 0 true; OAddCal 0 1; OSolve 0 true].

Lemma add_index_asis_refuted_l :
  exists s name s' z, step_asis s (OAddCal 0 name) = (s', ok_int z) /\
                      snd (step_asis s' (OFind name)) <> ok_int z.
Proof.
  exists (run_state d8_script), 2%Z.
  eexists. exists 0%Z. split.
  - vm_compute. reflexivity.
  - vm_compute. discriminate.
Qed.

Example add_returns_found_index_example :
  exists s', step (run_state d8_script) (OAddCal 0 2) = (s', ok_int 1).
Proof. eexists. vm_compute. reflexivity. Qed.

(* ================================================================== parameter table: counting *)
Notation cnt := (count_occ Nat.eq_dec).

Definition oo (p : option param) : list nat :=
  match p with
  | Some x => match other_of (p_kind x) with Some o => [o] | None => [] end
  | None => []
  end.
Definition vp (v : option vnew) : list nat := match v with Some x => vn_params x | None => [] end.

Lemma other_owners_flat : forall l, other_owners l = flat_map oo l.
Proof. reflexivity. Qed.
Ltac flat_oo :=
  repeat match goal with
         | |- context [other_owners ?l] => change (other_owners l) with (flat_map oo l)
         | H : context [other_owners ?l] |- _ => change (other_owners l) with (flat_map oo l) in H
         end.
Lemma vn_owners_flat : forall l, vn_owners l = flat_map vp l.
Proof. reflexivity. Qed.

Lemma count_flat_map_upd : forall A (f : A -> list nat) (l : list A) i x d k,
  i < length l ->
  cnt (flat_map f (upd l i x)) k + cnt (f (nth i l d)) k = cnt (flat_map f l) k + cnt (f x) k.
Proof.
  induction l as [|a l IH]; simpl; intros i x d k H; try lia.
  destruct i; simpl; rewrite !count_occ_app.
  - lia.
  - specialize (IH i x d k). assert (i < length l) by lia. specialize (IH H0). lia.
Qed.

Lemma flat_map_app_repeat_none : forall A B (f : option A -> list B) (l : list (option A)) n,
  f None = [] -> flat_map f (l ++ repeat None n) = flat_map f l.
Proof.
  intros. rewrite flat_map_app. replace (flat_map f (repeat None n)) with (@nil B).
  - apply app_nil_r.
  - induction n; simpl; auto. rewrite H. auto.
Qed.

Definition bn (p : option param) : nat := if slot_some p then 1 else 0.

Lemma occupied_cons : forall a l, occupied (a :: l) = bn a + occupied l.
Proof. intros [x|] l; reflexivity. Qed.

Lemma occupied_upd : forall l i x, i < length l ->
  occupied (upd l i x) + bn (nth i l None) = occupied l + bn x.
Proof.
  induction l as [|a l IH]; simpl; intros i x H; try lia.
  destruct i; simpl upd; simpl nth; rewrite !occupied_cons.
  - lia.
  - assert (i < length l) by lia. specialize (IH i x H0). lia.
Qed.

Lemma occupied_app_repeat : forall l n, occupied (l ++ repeat None n) = occupied l.
Proof.
  intros. unfold occupied. rewrite filter_app, app_length.
  replace (filter _ (repeat None n)) with (@nil (option param)); simpl; try lia.
  induction n; simpl; auto.
Qed.

Lemma occupied_le : forall l, occupied l <= length l.
Proof. induction l as [|a l IH]; [unfold occupied; simpl; lia|]. rewrite occupied_cons. simpl length. destruct a; simpl; lia. Qed.

(* all of the first k slots occupied and occupied < length: some slot at or after k is empty *)
Lemma first_none_skipn_exists : forall (l : list (option param)) k,
  k <= length l -> (forall i, i < k -> nth i l None <> None) -> occupied l < length l ->
  exists off, first_none (skipn k l) = Some off.
Proof.
  induction l as [|a l IH]; intros k Hk P H.
  - unfold occupied in H. simpl in H. lia.
  - rewrite occupied_cons in H. simpl length in *. destruct k.
    + simpl skipn. destruct a as [p|].
      * assert (H1 : occupied l < length l) by (unfold bn in H; simpl in H; lia).
        destruct (IH 0) as (off & E); auto; try lia; try (intros; lia).
        simpl in E. simpl. rewrite E. eauto.
      * simpl. eauto.
    + simpl skipn. apply IH; try lia.
      * intros i Hi. apply (P (S i)). lia.
      * destruct a as [p|].
        -- unfold bn in H; simpl in H; lia.
        -- exfalso. apply (P 0); auto. lia.
Qed.

Lemma nth_skipn : forall A (l : list A) k i d, nth i (skipn k l) d = nth (k + i) l d.
Proof.
  induction l; destruct k; simpl; intros; auto. destruct i; auto.
Qed.

(* ================================================================== slot access *)
Lemma slot_mk_upd : forall t h x c f j,
  slot (mkPT (upd (pt_slots t) h x) c f) j =
  if (Nat.eqb j h && Nat.ltb h (length (pt_slots t)))%bool then x else slot t j.
Proof. intros. unfold slot. simpl. apply nth_upd. Qed.

Lemma slot_some_lt : forall t h p, slot t h = Some p -> h < length (pt_slots t).
Proof.
  intros. unfold slot in H. destruct (Nat.ltb_spec h (length (pt_slots t))); auto.
  rewrite nth_overflow in H by lia. discriminate.
Qed.

Lemma slot_set_slot : forall t h x j,
  slot (set_slot t h x) j = if (Nat.eqb j h && Nat.ltb h (length (pt_slots t)))%bool then x else slot t j.
Proof. intros. unfold set_slot. apply slot_mk_upd. Qed.

(* ================================================================== bookkeeping invariant *)
Lemma inv_table_set_some : forall t h p q,
  inv_table t -> slot t h = Some p -> inv_table (set_slot t h (Some q)).
Proof.
  intros t h p q (C & F & P & L) S. pose proof (slot_some_lt _ _ _ S) as Lt.
  unfold inv_table, set_slot. simpl. rewrite length_upd. repeat split; auto.
  - pose proof (occupied_upd (pt_slots t) h (Some q) Lt). unfold slot in S. rewrite S in H.
    unfold bn in H; simpl in H. lia.
  - intros i Hi. rewrite slot_mk_upd.
    destruct (Nat.eqb i h && Nat.ltb h (length (pt_slots t)))%bool; try discriminate. apply P. auto.
Qed.

Lemma inv_table_hold : forall t h, inv_table t -> inv_table (hold t h).
Proof.
  intros. unfold hold. destruct (slot t h) eqn:S; auto. eapply inv_table_set_some; eauto.
Qed.

Lemma inv_table_remove : forall t h p,
  inv_table t -> slot t h = Some p ->
  inv_table (mkPT (upd (pt_slots t) h None) (pred (pt_count t))
                  (if h <? pt_first_free t then h else pt_first_free t)).
Proof.
  intros t h p (C & F & P & L) S. pose proof (slot_some_lt _ _ _ S) as Lt.
  unfold inv_table. simpl. rewrite length_upd. repeat split; auto.
  - pose proof (occupied_upd (pt_slots t) h None Lt). unfold slot in S. rewrite S in H.
    unfold bn in H; simpl in H. lia.
  - destruct (Nat.ltb_spec h (pt_first_free t)); lia.
  - intros i Hi. rewrite slot_mk_upd.
    destruct (Nat.eqb_spec i h); simpl.
    + subst. destruct (Nat.ltb_spec h (pt_first_free t)); lia.
    + apply P. destruct (Nat.ltb_spec h (pt_first_free t)); lia.
Qed.

Lemma grow_gt : forall a, a < grow a.
Proof.
  intros a. unfold grow. destruct (Nat.ltb_spec a 3); try lia. destruct (Nat.ltb_spec a 8); lia.
Qed.

Lemma slot_app_repeat : forall t n c f j,
  slot (mkPT (pt_slots t ++ repeat None n) c f) j = slot t j.
Proof. intros. unfold slot. simpl. apply nth_app_repeat_none. Qed.

(* _vnacal_alloc_parameter: what a successful allocation does; a failed one (fix D11) and the
   bookkeeping invariant; the modelled assert(parameter < allocation) cannot fail *)
Lemma alloc_ok_spec : forall t k fl t' h,
  inv_table t -> alloc_param t k fl = AOk t' h ->
  slot t h = None /\ slot t' h = Some (mkParam k false 1) /\
  (forall j, j <> h -> slot t' j = slot t j) /\
  h < length (pt_slots t') /\ length (pt_slots t) <= length (pt_slots t') /\
  inv_table t' /\
  (forall c, cnt (other_owners (pt_slots t')) c =
             cnt (other_owners (pt_slots t)) c + cnt (oo (Some (mkParam k false 1))) c).
Proof.
  intros t k fl t' h (C & F & P & L) H. unfold alloc_param, alloc_param_gen in H.
  destruct (Nat.ltb_spec (pt_count t) (length (pt_slots t))) as [Lt|Ge].
  - destruct (first_none (skipn (pt_first_free t) (pt_slots t))) as [off|] eqn:E; [|inv H].
    destruct (Nat.eqb_spec fl 1); [inv H|]. inv H.
    destruct (first_none_spec _ _ _ E) as (Lo & N & Q).
    rewrite nth_skipn in N. rewrite skipn_length in Lo.
    set (h := pt_first_free t + off) in *.
    assert (Hh : h < length (pt_slots t)) by (unfold h; lia).
    repeat split.
    + exact N.
    + rewrite slot_mk_upd. rewrite Nat.eqb_refl. destruct (Nat.ltb_spec h (length (pt_slots t))); try lia. auto.
    + intros j Hj. rewrite slot_mk_upd. destruct (Nat.eqb_spec j h); try congruence. auto.
    + simpl. rewrite length_upd. auto.
    + simpl. rewrite length_upd. auto.
    + simpl. pose proof (occupied_upd (pt_slots t) h (Some (mkParam k false 1)) Hh).
      rewrite N in H. unfold bn in H; simpl in H. lia.
    + simpl. rewrite length_upd. lia.
    + simpl. intros i Hi. rewrite slot_mk_upd.
      destruct (Nat.eqb_spec i h) as [->|Ne]; simpl.
      { destruct (Nat.ltb_spec h (length (pt_slots t))); try lia. discriminate. }
      destruct (Nat.ltb_spec i (pt_first_free t)).
      * apply P. auto.
      * unfold slot. replace i with (pt_first_free t + (i - pt_first_free t)) by lia.
        rewrite <- nth_skipn. apply Q. unfold h in *. lia.
    + simpl. rewrite length_upd. auto.
    + intros c. simpl pt_slots.
      pose proof (count_flat_map_upd _ oo (pt_slots t) h (Some (mkParam k false 1)) None c Hh) as X.
      rewrite N in X. simpl (oo None) in X. simpl (cnt [] c) in X.
      flat_oo. lia.
  - destruct (Nat.eqb_spec fl 1); [inv H|]. destruct (Nat.eqb_spec fl 2); [inv H|]. inv H.
    pose proof (occupied_le (pt_slots t)).
    assert (E : pt_count t = length (pt_slots t)) by lia.
    pose proof (grow_gt (length (pt_slots t))) as G.
    set (nn := grow (length (pt_slots t)) - length (pt_slots t)) in *.
    assert (Hh : pt_count t < length (pt_slots t ++ repeat None nn)).
    { rewrite app_length, repeat_length. unfold nn. lia. }
    assert (N : nth (pt_count t) (pt_slots t ++ repeat None nn) None = None).
    { rewrite nth_app_repeat_none. apply nth_overflow. lia. }
    repeat split.
    + unfold slot. apply nth_overflow. lia.
    + unfold slot. simpl. rewrite nth_upd_eq by auto. auto.
    + intros j Hj. unfold slot. simpl. rewrite nth_upd_neq by auto. apply nth_app_repeat_none.
    + simpl. rewrite length_upd. auto.
    + simpl. rewrite length_upd, app_length. lia.
    + simpl. pose proof (occupied_upd _ (pt_count t) (Some (mkParam k false 1)) Hh) as X.
      rewrite N in X. unfold bn in X; simpl in X. rewrite occupied_app_repeat in X. lia.
    + simpl. rewrite length_upd, app_length. lia.
    + simpl. intros i Hi. unfold slot. simpl.
      destruct (Nat.eqb_spec i (pt_count t)).
      * subst. rewrite nth_upd_eq by auto. discriminate.
      * rewrite nth_upd_neq by auto. rewrite nth_app_repeat_none. apply P. auto.
    + simpl. rewrite length_upd, app_length. lia.
    + intros c. simpl pt_slots.
      pose proof (count_flat_map_upd _ oo _ (pt_count t) (Some (mkParam k false 1)) None c Hh) as X.
      rewrite N in X. simpl (oo None) in X. simpl (cnt [] c) in X.
      flat_oo. rewrite (flat_map_app_repeat_none _ _ oo) in X by reflexivity. lia.
Qed.

Lemma alloc_fail_spec : forall t k fl t',
  inv_table t -> alloc_param t k fl = AFail t' ->
  (forall j, slot t' j = slot t j) /\ inv_table t' /\
  other_owners (pt_slots t') = other_owners (pt_slots t).
Proof.
  intros t k fl t' (C & F & P & L) H. unfold alloc_param, alloc_param_gen in H.
  destruct (Nat.ltb_spec (pt_count t) (length (pt_slots t))) as [Lt|Ge].
  - destruct (first_none (skipn (pt_first_free t) (pt_slots t))) as [off|] eqn:E; [|inv H].
    destruct (Nat.eqb_spec fl 1); inv H.
    destruct (first_none_spec _ _ _ E) as (Lo & N & Q). rewrite skipn_length in Lo.
    repeat split; auto; simpl; try lia.
    intros i Hi. destruct (Nat.ltb_spec i (pt_first_free t)).
    + apply P. auto.
    + unfold slot. replace i with (pt_first_free t + (i - pt_first_free t)) by lia.
      rewrite <- nth_skipn. apply Q. lia.
  - destruct (Nat.eqb_spec fl 1); [inv H; repeat split; auto|].
    destruct (Nat.eqb_spec fl 2); inv H.
    pose proof (grow_gt (length (pt_slots t))) as G.
    repeat split; simpl.
    + intros. apply slot_app_repeat.
    + rewrite occupied_app_repeat. auto.
    + rewrite app_length. lia.
    + intros i Hi. rewrite slot_app_repeat. apply P. auto.
    + rewrite app_length. lia.
    + flat_oo. apply flat_map_app_repeat_none. reflexivity.
Qed.

Lemma alloc_no_fault : forall t k fl, inv_table t -> alloc_param t k fl <> AFault.
Proof.
  intros t k fl (C & F & P & L). unfold alloc_param, alloc_param_gen.
  destruct (Nat.ltb_spec (pt_count t) (length (pt_slots t))) as [Lt|Ge].
  - destruct (first_none_skipn_exists (pt_slots t) (pt_first_free t)) as (off & E); auto; try lia.
    rewrite E. destruct (fl =? 1); discriminate.
  - destruct (fl =? 1); try discriminate. destruct (fl =? 2); discriminate.
Qed.

(* release keeps the bookkeeping invariant (whatever the reference counts are) *)
Lemma release_inv_table : forall fuel t h t' b,
  inv_table t -> release fuel t h = (t', b) -> inv_table t' /\ length (pt_slots t') = length (pt_slots t).
Proof.
  induction fuel as [|f IH]; simpl; intros t h t' b I H.
  - inv H. auto.
  - destruct (slot t h) as [p|] eqn:S; [|inv H; auto].
    destruct (p_hold p) as [|[|hc]] eqn:Hp; [inv H; auto| |].
    + destruct (p_deleted p); simpl in H; [|inv H; auto].
      destruct (pt_count t =? 0); [inv H; auto|].
      pose proof (inv_table_remove _ _ _ I S) as I'.
      destruct (other_of (p_kind p)).
      * destruct (IH _ _ _ _ I' H) as (A & B). split; auto. rewrite B. simpl. apply length_upd.
      * inv H. split; auto. simpl. apply length_upd.
    + inv H. split.
      * eapply inv_table_set_some; eauto.
      * simpl. apply length_upd.
Qed.

(* ================================================================== reference counts *)
Definition oc (t : ptable) (h : nat) : nat := cnt (other_owners (pt_slots t)) h.
Definition dl (a b : nat) : nat := if Nat.eqb a b then 1 else 0.

(* hold = [not deleted] + c h + (number of [other] links to h); occupied iff hold > 0; nothing
   refers to an empty slot.  [c] counts the references from outside the table. *)
Definition RI (t : ptable) (c : nat -> nat) : Prop :=
  forall h, match slot t h with
            | Some p => p_hold p = b2n (negb (p_deleted p)) + c h + oc t h /\ 0 < p_hold p
            | None => c h + oc t h = 0
            end.

Lemma RI_ext : forall t c c', (forall x, c x = c' x) -> RI t c -> RI t c'.
Proof.
  intros t c c' E H h. specialize (H h). rewrite <- E. auto.
Qed.

Lemma cnt_single : forall o k, cnt [o] k = dl o k.
Proof.
  intros. simpl. unfold dl. destruct (Nat.eq_dec o k); destruct (Nat.eqb_spec o k); auto; congruence.
Qed.

Lemma dl_refl : forall a, dl a a = 1.
Proof. intros. unfold dl. rewrite Nat.eqb_refl. auto. Qed.

Lemma dl_neq : forall a b, a <> b -> dl a b = 0.
Proof. intros. unfold dl. destruct (Nat.eqb_spec a b); auto. congruence. Qed.

Definition odl (o : option nat) (k : nat) : nat := match o with Some x => dl x k | None => 0 end.

Lemma cnt_oo : forall p k, cnt (oo (Some p)) k = odl (other_of (p_kind p)) k.
Proof.
  intros. unfold oo, odl. destruct (other_of (p_kind p)); auto. apply cnt_single.
Qed.

(* effect of overwriting an occupied slot on the [other] counts *)
Lemma oc_upd : forall t h p x c f k,
  slot t h = Some p ->
  oc (mkPT (upd (pt_slots t) h x) c f) k + odl (other_of (p_kind p)) k = oc t k + cnt (oo x) k.
Proof.
  intros t h p x c f k S. pose proof (slot_some_lt _ _ _ S) as Lt. unfold oc. simpl pt_slots.
  pose proof (count_flat_map_upd _ oo (pt_slots t) h x None k Lt) as X.
  unfold slot in S. rewrite S in X. rewrite cnt_oo in X. flat_oo. lia.
Qed.

Lemma oc_set_same_kind : forall t h p q k,
  slot t h = Some p -> other_of (p_kind q) = other_of (p_kind p) ->
  oc (set_slot t h (Some q)) k = oc t k.
Proof.
  intros. unfold set_slot. pose proof (oc_upd t h p (Some q) (pt_count t) (pt_first_free t) k H).
  rewrite cnt_oo, H0 in H1. lia.
Qed.

Lemma occupied_remove : forall t h p, slot t h = Some p ->
  S (occupied (upd (pt_slots t) h None)) = occupied (pt_slots t).
Proof.
  intros. pose proof (slot_some_lt _ _ _ H) as Lt.
  pose proof (occupied_upd (pt_slots t) h None Lt). unfold slot in H. rewrite H in H0.
  unfold bn in H0; simpl in H0. lia.
Qed.

(* _vnacal_release_parameter never trips one of its (three, modelled) assertions when the counts are right, and the counts
   stay right (the released reference is [dl h]) *)
Lemma release_ok : forall fuel t h c,
  inv_table t -> RI t (fun x => c x + dl h x) -> occupied (pt_slots t) < fuel ->
  exists t', release fuel t h = (t', false) /\ RI t' c.
Proof.
  induction fuel as [|f IH]; intros t h c IT R O; try lia.
  simpl. pose proof (R h) as Rh. cbv beta in Rh. rewrite dl_refl in Rh.
  destruct (slot t h) as [p|] eqn:S; [|lia].
  destruct Rh as (Hh & Hpos).
  destruct (p_hold p) as [|[|hc]] eqn:Hp; try lia.
  - (* last reference *)
    assert (D : p_deleted p = true) by (destruct (p_deleted p); simpl in Hh; auto; lia).
    rewrite D in *. simpl in Hh. simpl negb.  cbv iota.
    (* assert(vprmc_count >= 1): the count is the number of occupied slots and slot h is occupied *)
    assert (Cpos : pt_count t <> 0).
    { destruct IT as (Cn & _). pose proof (occupied_remove _ _ _ S). lia. }
    apply Nat.eqb_neq in Cpos. rewrite Cpos.
    set (t1 := mkPT (upd (pt_slots t) h None) (pred (pt_count t))
                    (if h <? pt_first_free t then h else pt_first_free t)).
    assert (R1 : RI t1 (fun x => c x + odl (other_of (p_kind p)) x)).
    { intros j. unfold t1. rewrite slot_mk_upd.
      pose proof (oc_upd t h p None (pred (pt_count t)) (if h <? pt_first_free t then h else pt_first_free t) j S) as X.
      simpl (cnt (oo None) j) in X.
      destruct (Nat.eqb_spec j h) as [->|Ne]; simpl.
      - destruct (Nat.ltb_spec h (length (pt_slots t))); [|apply slot_some_lt in S; lia]. lia.
      - pose proof (R j) as Rj. cbv beta in Rj. rewrite (dl_neq h j) in Rj by auto.
        destruct (slot t j) as [q|]; lia. }
    destruct (other_of (p_kind p)) as [o|] eqn:Ot.
    + apply IH.
      * exact (inv_table_remove _ _ _ IT S).
      * eapply RI_ext; [|exact R1]. intros; reflexivity.
      * unfold t1. simpl. pose proof (occupied_remove _ _ _ S). lia.
    + exists t1. split; auto. eapply RI_ext; [|exact R1]. intros; simpl; lia.
  - (* other references remain *)
    eexists. split; [reflexivity|].
    intros j. rewrite slot_set_slot.
    rewrite (oc_set_same_kind t h p) by auto.
    destruct (Nat.eqb_spec j h) as [->|Ne]; simpl.
    + destruct (Nat.ltb_spec h (length (pt_slots t))); [|apply slot_some_lt in S; lia].
      simpl. lia.
    + pose proof (R j) as Rj. cbv beta in Rj. rewrite (dl_neq h j) in Rj by auto.
      destruct (slot t j); lia.
Qed.

Lemma release_top_ok : forall t h c,
  inv_table t -> RI t (fun x => c x + dl h x) ->
  exists t', release_top t h = (t', false) /\ RI t' c /\ inv_table t'.
Proof.
  intros t h c I R. unfold release_top.
  assert (O : occupied (pt_slots t) < S (length (pt_slots t))).
  { pose proof (occupied_le (pt_slots t)). lia. }
  destruct (release_ok (S (length (pt_slots t))) t h c I R O) as (t' & E & R').
  exists t'. destruct (release_inv_table _ _ _ _ _ I E). split; [auto|split; auto].
Qed.

(* release never changes the kind or the deleted flag of a parameter that stays, and never
   removes a parameter that is not deleted *)
Lemma release_keeps : forall fuel t h t' b,
  release fuel t h = (t', b) ->
  (forall j p, slot t j = Some p -> p_deleted p = false ->
               exists k, slot t' j = Some (mkParam (p_kind p) false k)) /\
  (forall j p', slot t' j = Some p' ->
               exists p, slot t j = Some p /\ p_kind p' = p_kind p /\ p_deleted p' = p_deleted p).
Proof.
  induction fuel as [|f IH]; simpl; intros t h t' b H.
  - inv H. split; intros; eauto. destruct p; simpl in *; subst; eauto.
  - assert (Base : (forall j p, slot t j = Some p -> p_deleted p = false ->
                      exists k, slot t j = Some (mkParam (p_kind p) false k)) /\
                   (forall j p', slot t j = Some p' ->
                      exists p, slot t j = Some p /\ p_kind p' = p_kind p /\ p_deleted p' = p_deleted p)).
    { split; intros; eauto. destruct p; simpl in *; subst; eauto. }
    destruct (slot t h) as [p|] eqn:S; [|inv H; auto].
    destruct (p_hold p) as [|[|hc]] eqn:Hp; [inv H; auto| |].
    + destruct (p_deleted p) eqn:D; simpl in H; [|inv H; auto].
      destruct (pt_count t =? 0); [inv H; auto|].
      set (t1 := mkPT (upd (pt_slots t) h None) (pred (pt_count t))
                      (if h <? pt_first_free t then h else pt_first_free t)) in *.
      assert (K1 : forall j q, slot t j = Some q -> p_deleted q = false -> slot t1 j = Some q).
      { intros j q Sj Dj. unfold t1. rewrite slot_mk_upd. destruct (Nat.eqb_spec j h); simpl; auto.
        subst. rewrite S in Sj. inv Sj. congruence. }
      assert (K2 : forall j q, slot t1 j = Some q -> slot t j = Some q).
      { intros j q Sj. unfold t1 in Sj. rewrite slot_mk_upd in Sj.
        destruct (Nat.eqb j h && Nat.ltb h (length (pt_slots t)))%bool; auto. discriminate. }
      destruct (other_of (p_kind p)).
      * destruct (IH _ _ _ _ H) as (A & B). split.
        -- intros j q Sj Dj. apply (A j q); auto.
        -- intros j q' Sj. destruct (B j q' Sj) as (q & Sq & E1 & E2). exists q. split; auto.
      * inv H. split.
        -- intros j q Sj Dj. rewrite (K1 j q Sj Dj). destruct q; simpl in *; subst; eauto.
        -- intros j q' Sj. exists q'. split; auto.
    + inv H. split.
      * intros j q Sj Dj. rewrite slot_set_slot. destruct (Nat.eqb_spec j h); simpl.
        -- subst. rewrite S in Sj. inv Sj.
           destruct (Nat.ltb_spec h (length (pt_slots t))); [|apply slot_some_lt in S; lia].
           rewrite Dj. eauto.
        -- destruct q; simpl in *; subst; eauto.
      * intros j q' Sj. rewrite slot_set_slot in Sj. destruct (Nat.eqb_spec j h); simpl in Sj.
        -- subst. destruct (Nat.ltb_spec h (length (pt_slots t))); [|apply slot_some_lt in S; lia].
           inv Sj. exists p. auto.
        -- exists q'. auto.
Qed.

(* ------------------------------------------------------------------ primitive steps and RI *)
Lemma RI_hold : forall t c n p,
  RI t c -> slot t n = Some p -> RI (hold t n) (fun x => c x + dl n x).
Proof.
  intros t c n p R S j. unfold hold. rewrite S. rewrite slot_set_slot.
  rewrite (oc_set_same_kind t n p) by auto.
  pose proof (R j) as Rj.
  destruct (Nat.eqb_spec j n) as [->|Ne]; simpl.
  - destruct (Nat.ltb_spec n (length (pt_slots t))); [|apply slot_some_lt in S; lia].
    rewrite S in Rj. simpl. rewrite dl_refl. lia.
  - rewrite (dl_neq n j) by auto. destruct (slot t j); lia.
Qed.

Lemma RI_set_deleted : forall t c h p,
  RI t c -> slot t h = Some p -> p_deleted p = false ->
  RI (set_slot t h (Some (mkParam (p_kind p) true (p_hold p)))) (fun x => c x + dl h x).
Proof.
  intros t c h p R S D j. rewrite slot_set_slot.
  rewrite (oc_set_same_kind t h p) by auto.
  pose proof (R j) as Rj.
  destruct (Nat.eqb_spec j h) as [->|Ne]; simpl.
  - destruct (Nat.ltb_spec h (length (pt_slots t))); [|apply slot_some_lt in S; lia].
    rewrite S, D in Rj. simpl in *. rewrite dl_refl. lia.
  - rewrite (dl_neq h j) by auto. destruct (slot t j); lia.
Qed.

Lemma RI_set_kind : forall t c h p k,
  RI t c -> slot t h = Some p -> other_of k = other_of (p_kind p) ->
  RI (set_slot t h (Some (mkParam k (p_deleted p) (p_hold p)))) c.
Proof.
  intros t c h p k R S E j. rewrite slot_set_slot.
  rewrite (oc_set_same_kind t h p) by auto.
  pose proof (R j) as Rj.
  destruct (Nat.eqb_spec j h) as [->|Ne]; simpl.
  - destruct (Nat.ltb_spec h (length (pt_slots t))); [|apply slot_some_lt in S; lia].
    rewrite S in Rj. simpl. auto.
  - auto.
Qed.

Lemma RI_alloc_plain : forall t c k fl t' h,
  inv_table t -> RI t c -> alloc_param t k fl = AOk t' h -> other_of k = None -> RI t' c.
Proof.
  intros t c k fl t' h I R A O j.
  destruct (alloc_ok_spec _ _ _ _ _ I A) as (N & S' & Same & _ & _ & _ & Oc).
  unfold oc. rewrite Oc. rewrite cnt_oo. simpl. rewrite O. simpl.
  destruct (Nat.eq_dec j h) as [->|Ne].
  - rewrite S'. simpl. pose proof (R h) as Rh. rewrite N in Rh. unfold oc in Rh. lia.
  - rewrite (Same j Ne). pose proof (R j) as Rj. unfold oc in Rj. destruct (slot t j); lia.
Qed.

Lemma RI_alloc_other : forall t c k fl t' h o q,
  inv_table t -> RI t c -> alloc_param t k fl = AOk t' h -> other_of k = Some o ->
  slot t o = Some q -> RI (hold t' o) c.
Proof.
  intros t c k fl t' h o q I R A O So.
  destruct (alloc_ok_spec _ _ _ _ _ I A) as (N & S' & Same & _ & _ & _ & Oc).
  assert (Ne : o <> h) by (intro; subst; congruence).
  assert (So' : slot t' o = Some q) by (rewrite Same; auto).
  intros j. unfold hold. rewrite So'. rewrite slot_set_slot.
  rewrite (oc_set_same_kind t' o q) by auto.
  unfold oc. rewrite Oc. rewrite cnt_oo. simpl. rewrite O. simpl.
  pose proof (R j) as Rj. unfold oc in Rj.
  destruct (Nat.eqb_spec j o) as [->|Nj]; simpl.
  - destruct (Nat.ltb_spec o (length (pt_slots t'))); [|apply slot_some_lt in So'; lia].
    rewrite So in Rj. simpl. rewrite dl_refl. lia.
  - rewrite (dl_neq o j) by auto.
    destruct (Nat.eq_dec j h) as [->|Nh].
    + rewrite S'. simpl. rewrite N in Rj. lia.
    + rewrite (Same j Nh). destruct (slot t j); lia.
Qed.

(* same occupied slots, same deleted flags, scalar and vector parameters unchanged (hold counts and
   the solved values of unknown parameters may differ) *)
Definition shk (t t' : ptable) : Prop :=
  forall j, match slot t j, slot t' j with
            | Some p, Some q => p_deleted p = p_deleted q /\ (other_of (p_kind p) = None -> p_kind q = p_kind p) /\
                                other_of (p_kind q) = other_of (p_kind p)
            | None, None => True
            | _, _ => False
            end.

Lemma shk_refl : forall t, shk t t.
Proof. intros t j. destruct (slot t j); auto. Qed.

Lemma shk_trans : forall a b c, shk a b -> shk b c -> shk a c.
Proof.
  intros a b c H1 H2 j. specialize (H1 j). specialize (H2 j).
  destruct (slot a j), (slot b j), (slot c j); try tauto. destruct H1 as (D1 & K1 & O1), H2 as (D2 & K2 & O2).
  split; [congruence|split; [|congruence]]. intros O. rewrite K2; [auto|]. rewrite K1; auto.
Qed.

Lemma shk_set : forall t h p q,
  slot t h = Some p -> p_deleted q = p_deleted p -> (other_of (p_kind p) = None -> p_kind q = p_kind p) ->
  other_of (p_kind q) = other_of (p_kind p) ->
  shk t (set_slot t h (Some q)).
Proof.
  intros t h p q S D K OO j. rewrite slot_set_slot. destruct (Nat.eqb_spec j h) as [->|]; simpl.
  - destruct (Nat.ltb_spec h (length (pt_slots t))); [|apply slot_some_lt in S; lia].
    rewrite S. simpl. auto.
  - destruct (slot t j); auto.
Qed.

Lemma shk_hold : forall t n, shk t (hold t n).
Proof.
  intros t n. unfold hold. destruct (slot t n) as [p|] eqn:S; [|apply shk_refl].
  eapply shk_set; eauto.
Qed.

Lemma shk_predefined : forall t t', shk t t' -> inv_predefined t -> inv_predefined t'.
Proof.
  intros t t' H ((k0 & A) & (k1 & B) & (k2 & C)).
  pose proof (H 0) as H0. pose proof (H 1) as H1. pose proof (H 2) as H2.
  rewrite A in H0. rewrite B in H1. rewrite C in H2. unfold inv_predefined.
  destruct (slot t' 0) as [[a0 b0 c0]|]; try tauto. destruct (slot t' 1) as [[a1 b1 c1]|]; try tauto.
  destruct (slot t' 2) as [[a2 b2 c2]|]; try tauto. cbn [p_kind p_deleted] in *.
  destruct H0 as (X0 & Y0 & _), H1 as (X1 & Y1 & _), H2 as (X2 & Y2 & _).
  rewrite (Y0 eq_refl), (Y1 eq_refl), (Y2 eq_refl). subst.
  split; [|split]; eexists; reflexivity.
Qed.

Lemma pc_app : forall l n x, cnt (l ++ [n]) x = cnt l x + dl n x.
Proof. intros. rewrite count_occ_app, cnt_single. auto. Qed.

Lemma get_param_some : forall t h n p,
  get_param t h = Some (n, p) -> slot t n = Some p /\ p_deleted p = false /\ n = Z.to_nat h /\ (0 <= h)%Z.
Proof.
  intros t h n p H. unfold get_param in H. destruct (Z.ltb_spec h 0); try discriminate.
  destruct (slot t (Z.to_nat h)) as [q|] eqn:S; try discriminate.
  destruct (p_deleted q) eqn:D; inv H. auto.
Qed.

(* _vnacal_new_get_parameter *)
Lemma vn_get_param_ok : forall fuel t v h t' v' ok c0,
  inv_table t -> RI t (fun x => c0 x + cnt (vn_params v) x) ->
  vn_get_param fuel t v h = (t', v', ok) ->
  inv_table t' /\ RI t' (fun x => c0 x + cnt (vn_params v') x) /\ shk t t' /\
  vn_type v' = vn_type v /\ vn_dim v' = vn_dim v /\ vn_nf v' = vn_nf v /\ vn_fvalid v' = vn_fvalid v /\
  vn_f0 v' = vn_f0 v /\ vn_meas v' = vn_meas v /\ vn_cal v' = vn_cal v.
Proof.
  induction fuel as [|f IH]; intros t v h t' v' ok c0 I R H.
  - simpl in H. inv H. ssplit; auto. apply shk_refl.
  - cbn [vn_get_param] in H. destruct ((0 <=? h)%Z && in_nat (Z.to_nat h) (vn_params v))%bool.
    { inv H. ssplit; auto. apply shk_refl. }
    destruct (get_param t h) as [[n p]|] eqn:G.
    2:{ inv H. ssplit; auto. apply shk_refl. }
    destruct (get_param_some _ _ _ _ G) as (Sn & Dn & _).
    destruct (vn_ranged v && negb (range_ok (frange_c (S (length (pt_slots t))) t n) (vn_f0 v) (vn_fmax v)))%bool.
    { inv H. ssplit; auto. apply shk_refl. }
    assert (Reg : forall t1 v1, inv_table t1 -> RI t1 (fun x => c0 x + cnt (vn_params v1) x) -> shk t t1 ->
              let unk := match p_kind p with KUnknown _ _ | KCorrelated _ _ _ => true | _ => false end in
              inv_table (hold t1 n) /\
              RI (hold t1 n) (fun x => c0 x + cnt (vn_params v1 ++ [n]) x) /\ shk t (hold t1 n)).
    { intros t1 v1 I1 R1 K1 unk. split; [apply inv_table_hold; auto|]. split.
      - pose proof (K1 n) as Kn. rewrite Sn in Kn. destruct (slot t1 n) as [q|] eqn:S1; [|tauto].
        eapply RI_ext; [|eapply RI_hold; eauto]. intros x. cbv beta. rewrite pc_app. lia.
      - eapply shk_trans; [exact K1|apply shk_hold]. }
    destruct (p_kind p) eqn:Kp.
    + inv H. destruct (Reg t v I R (shk_refl t)) as (A & B & C). simpl. ssplit; auto.
    + inv H. destruct (Reg t v I R (shk_refl t)) as (A & B & C). simpl. ssplit; auto.
    + inv H. destruct (Reg t v I R (shk_refl t)) as (A & B & C). simpl. ssplit; auto.
    + destruct (vn_get_param f t v (Z.of_nat other)) as [[t1 v1] ok1] eqn:E.
      destruct (IH _ _ _ _ _ _ _ I R E) as (I1 & R1 & K1 & E1 & E2 & E3 & E4 & E5 & E6 & E7).
      destruct ok1.
      * inv H. destruct (Reg t1 v1 I1 R1 K1) as (A & B & C). simpl. ssplit; auto.
      * inv H. ssplit; auto.
Qed.

Lemma vn_get_params_ok : forall hs t v t' v' ok c0,
  inv_table t -> RI t (fun x => c0 x + cnt (vn_params v) x) ->
  vn_get_params t v hs = (t', v', ok) ->
  inv_table t' /\ RI t' (fun x => c0 x + cnt (vn_params v') x) /\ shk t t' /\
  vn_type v' = vn_type v /\ vn_dim v' = vn_dim v /\ vn_nf v' = vn_nf v /\ vn_fvalid v' = vn_fvalid v /\
  vn_f0 v' = vn_f0 v /\ vn_meas v' = vn_meas v /\ vn_cal v' = vn_cal v.
Proof.
  induction hs as [|h r IH]; intros t v t' v' ok c0 I R H.
  - simpl in H. inv H. ssplit; auto. apply shk_refl.
  - cbn [vn_get_params] in H. destruct (vn_get_param (S (length (pt_slots t))) t v h) as [[t1 v1] ok1] eqn:E.
    destruct (vn_get_param_ok _ _ _ _ _ _ _ _ I R E) as (I1 & R1 & K1 & E1 & E2 & E3 & E4 & E5 & E6 & E7).
    destruct ok1.
    + destruct (IH _ _ _ _ _ _ I1 R1 H) as (I2 & R2 & K2 & F1 & F2 & F3 & F4 & F5 & F6 & F7).
      ssplit; auto; try congruence. eapply shk_trans; eauto.
    + inv H. ssplit; auto.
Qed.

(* _vnacal_new_free_parameter_hash *)
Lemma release_all_ok : forall hs t c,
  inv_table t -> RI t (fun x => c x + cnt hs x) ->
  exists t', release_all t hs = (t', false) /\ RI t' c /\ inv_table t' /\
             (forall j p, slot t j = Some p -> p_deleted p = false ->
                          exists k, slot t' j = Some (mkParam (p_kind p) false k)).
Proof.
  induction hs as [|h r IH]; simpl; intros t c I R.
  - exists t. ssplit; auto.
    + eapply RI_ext; [|exact R]. intros; simpl; lia.
    + intros j p S D. destruct p; simpl in *; subst; eauto.
  - assert (R0 : RI t (fun x => (c x + cnt r x) + dl h x)).
    { eapply RI_ext; [|exact R]. intros x. cbv beta. simpl. unfold dl.
      destruct (Nat.eq_dec h x); destruct (Nat.eqb_spec h x); try congruence; lia. }
    destruct (release_top_ok _ _ _ I R0) as (t1 & E1 & R1 & I1).
    destruct (IH t1 c I1 R1) as (t2 & E2 & R2 & I2 & K2).
    rewrite E1, E2. exists t2. ssplit; auto.
    intros j p S D. destruct (release_keeps _ _ _ _ _ E1) as (A & _).
    destruct (A j p S D) as (k & Sk). destruct (K2 j _ Sk eq_refl) as (k2 & S2). simpl in S2. eauto.
Qed.

(* ================================================================== acyclicity of the [other] links *)
(* every link of t' is a link of t: the same rank works *)
Lemma acyc_sub : forall t t',
  (forall h q o, slot t' h = Some q -> other_of (p_kind q) = Some o ->
     exists p, slot t h = Some p /\ other_of (p_kind p) = Some o) ->
  inv_acyclic t -> inv_acyclic t'.
Proof.
  intros t t' H (rank & R). exists rank. intros h q o S O.
  destruct (H h q o S O) as (p & Sp & Op). eauto.
Qed.

Lemma acyc_shk : forall t t', shk t t' -> inv_acyclic t -> inv_acyclic t'.
Proof.
  intros t t' K. apply acyc_sub. intros h q o S O. specialize (K h). rewrite S in K.
  destruct (slot t h) as [p|]; [|tauto]. destruct K as (_ & _ & E). exists p. split; auto. congruence.
Qed.

Lemma acyc_same : forall t t', (forall j, slot t' j = slot t j) -> inv_acyclic t -> inv_acyclic t'.
Proof.
  intros t t' Same. apply acyc_sub. intros h q o S O. rewrite Same in S. eauto.
Qed.

Lemma acyc_release : forall fuel t h t' b, release fuel t h = (t', b) -> inv_acyclic t -> inv_acyclic t'.
Proof.
  intros fuel t h t' b E. destruct (release_keeps _ _ _ _ _ E) as (_ & B).
  apply acyc_sub. intros j q o S O. destruct (B j q S) as (p & Sp & Kp & _). exists p. split; auto. congruence.
Qed.

Lemma acyc_release_all : forall hs t t' b, release_all t hs = (t', b) -> inv_acyclic t -> inv_acyclic t'.
Proof.
  induction hs as [|h r IH]; simpl; intros t t' b E A.
  - inv E. auto.
  - destruct (release_top t h) as [t1 f1] eqn:E1. destruct (release_all t1 r) as [t2 f2] eqn:E2. inv E.
    eapply IH; eauto. eapply acyc_release; eauto.
Qed.

Lemma acyc_set_same_kind : forall t h p q,
  slot t h = Some p -> other_of (p_kind q) = other_of (p_kind p) ->
  inv_acyclic t -> inv_acyclic (set_slot t h (Some q)).
Proof.
  intros t h p q S E. apply acyc_sub. intros j r o Sj O. rewrite slot_set_slot in Sj.
  destruct (Nat.eqb j h && Nat.ltb h (length (pt_slots t)))%bool eqn:B.
  - inv Sj. apply andb_prop in B. destruct B as (B & _). apply Nat.eqb_eq in B. subst. exists p. split; auto. congruence.
  - eauto.
Qed.

Lemma acyc_delete_release : forall t n p t' b,
  slot t n = Some p -> delete_release t n p = (t', b) -> inv_acyclic t -> inv_acyclic t'.
Proof.
  intros t n p t' b S E A. unfold delete_release, release_top in E.
  eapply acyc_release; [exact E|]. eapply acyc_set_same_kind; eauto.
Qed.

(* nobody links to a slot whose [other] count is zero *)
Lemma oc_zero_no_link : forall t h j p,
  oc t h = 0 -> slot t j = Some p -> other_of (p_kind p) <> Some h.
Proof.
  intros t h j p Z S O. unfold oc in Z. flat_oo.
  assert (In h (flat_map oo (pt_slots t))).
  { apply in_flat_map. exists (Some p). split.
    - unfold slot in S. rewrite <- S. apply nth_In. eapply slot_some_lt; eauto.
    - simpl. rewrite O. simpl. auto. }
  apply (count_occ_In Nat.eq_dec) in H. lia.
Qed.

(* a new parameter in an empty slot, linked to an occupied one: rank of the new slot = rank of its
   target + 1; nobody links to the new slot, so the other ranks stand *)
Lemma acyc_alloc : forall t c k fl t' h,
  inv_table t -> RI t c -> alloc_param t k fl = AOk t' h ->
  (forall o, other_of k = Some o -> slot t o <> None) ->
  inv_acyclic t -> inv_acyclic t'.
Proof.
  intros t c k fl t' h I R A Ho (rank & Rk).
  destruct (alloc_ok_spec _ _ _ _ _ I A) as (N & S' & Same & _).
  assert (Z : oc t h = 0). { pose proof (R h) as Rh. rewrite N in Rh. lia. }
  exists (fun x => if Nat.eqb x h then match other_of k with Some o => S (rank o) | None => 0 end else rank x).
  intros j q o S O. destruct (Nat.eqb_spec j h) as [->|Nj].
  - rewrite S' in S. inv S. simpl in O. rewrite O.
    destruct (Nat.eqb_spec o h) as [->|]; [exfalso; apply (Ho h O); auto|]. lia.
  - rewrite (Same j Nj) in S.
    destruct (Nat.eqb_spec o h) as [->|]; [exfalso; eapply oc_zero_no_link; eauto|]. eauto.
Qed.

(* ================================================================== the invariant is preserved *)
Definition vc (news : list (option vnew)) (h : nat) : nat := cnt (vn_owners news) h.

Lemma inv_refs_RI : forall s, inv_refs s <-> RI (st_pt s) (vc (st_news s)).
Proof.
  intros s. unfold inv_refs, RI, refs, vc, oc. split; intros H h; specialize (H h);
  destruct (slot (st_pt s) h); lia.
Qed.

Lemma vc_upd : forall news id x k, id < length news ->
  vc (upd news id x) k + cnt (vp (nth id news None)) k = vc news k + cnt (vp x) k.
Proof. intros. unfold vc. rewrite !vn_owners_flat. apply count_flat_map_upd. auto. Qed.

Lemma get_new_lt : forall s id v, get_new s id = Some v -> id < length (st_news s).
Proof.
  intros s id v H. unfold get_new in H. destruct (Nat.ltb_spec id (length (st_news s))); auto.
  rewrite nth_overflow in H by lia. discriminate.
Qed.

(* replacing a vnacal_new_t by one with the same parameter set does not change the counts *)
Lemma vc_same_params : forall s id v v' k,
  get_new s id = Some v -> vn_params v' = vn_params v -> vc (upd (st_news s) id (Some v')) k = vc (st_news s) k.
Proof.
  intros s id v v' k G E. pose proof (vc_upd (st_news s) id (Some v') k (get_new_lt _ _ _ G)) as X.
  unfold get_new in G. rewrite G in X. simpl in X. rewrite E in X. lia.
Qed.

Record Good (s : state) : Prop := mkGood {
  g_table : inv_table (st_pt s);
  g_pre : inv_predefined (st_pt s);
  g_refs : RI (st_pt s) (vc (st_news s));
  g_news : length (st_news s) = max_vn;
  g_acyc : inv_acyclic (st_pt s) }.

Lemma Inv_Good : forall s, st_freed s = false -> (Inv s <-> Good s).
Proof.
  intros s Fr. unfold Inv, inv_news. split.
  - intros H. destruct (H Fr) as (A & B & C & D & E). constructor; auto. apply inv_refs_RI. auto.
  - intros [A B C D E] _. ssplit; auto. apply inv_refs_RI. auto.
Qed.

Lemma RI_same : forall t t' c,
  (forall j, slot t' j = slot t j) -> other_owners (pt_slots t') = other_owners (pt_slots t) ->
  RI t c -> RI t' c.
Proof.
  intros t t' c S O R j. specialize (R j). rewrite S. unfold oc in *. rewrite O. auto.
Qed.

Lemma predefined_same : forall t t',
  slot t' 0 = slot t 0 -> slot t' 1 = slot t 1 -> slot t' 2 = slot t 2 ->
  inv_predefined t -> inv_predefined t'.
Proof. intros t t' A B C (X & Y & Z). unfold inv_predefined. rewrite A, B, C. auto. Qed.

Lemma alloc_predefined : forall t k fl t' h,
  inv_table t -> inv_predefined t -> alloc_param t k fl = AOk t' h -> inv_predefined t'.
Proof.
  intros t k fl t' h I P A. destruct (alloc_ok_spec _ _ _ _ _ I A) as (N & _ & Same & _).
  destruct P as ((k0 & P0) & (k1 & P1) & (k2 & P2)).
  apply (predefined_same t); try (apply Same; intro; subst; congruence).
  repeat split; eauto.
Qed.

(* make_* after the argument checks: allocate, then (unknown / correlated) hold the other *)
Lemma finish_make_good : forall s k fl after,
  st_freed s = false -> Good s ->
  (other_of k = None /\ after = (fun t => t)) \/
  (exists o q, other_of k = Some o /\ slot (st_pt s) o = Some q /\ after = (fun t => hold t o)) ->
  let r := finish_make s (alloc_param (st_pt s) k fl) after in
  Good (fst r) /\ st_freed (fst r) = false /\ o_ret (snd r) <> RFault /\
  st_cals (fst r) = st_cals s /\ st_news (fst r) = st_news s.
Proof.
  intros s k fl after Fr [I P R N AC] Hk. simpl.
  destruct (alloc_param (st_pt s) k fl) as [t' h| t' |] eqn:A.
  - simpl. destruct (alloc_ok_spec _ _ _ _ _ I A) as (Nn & S' & Same & _ & _ & I' & _).
    pose proof (alloc_predefined _ _ _ _ _ I P A) as P'.
    assert (AC' : inv_acyclic t').
    { apply (acyc_alloc (st_pt s) _ k fl t' h I R A); auto. intros o0 O0.
      destruct Hk as [(O & _) | (o & q & O & So & _)]; [congruence|]. rewrite O in O0. inv O0. congruence. }
    destruct Hk as [(O & ->) | (o & q & O & So & ->)].
    + ssplit; auto; try discriminate. constructor; simpl; auto. exact (RI_alloc_plain _ _ _ _ _ _ I R A O).
    + ssplit; auto; try discriminate. constructor; simpl; auto.
      * apply inv_table_hold. auto.
      * eapply shk_predefined; [apply shk_hold|auto].
      * exact (RI_alloc_other _ _ _ _ _ _ _ _ I R A O So).
      * eapply acyc_shk; [apply shk_hold|auto].
  - simpl. destruct (alloc_fail_spec _ _ _ _ I A) as (Same & I' & O').
    ssplit; auto; try discriminate. constructor; simpl; auto.
    + apply (predefined_same (st_pt s)); auto.
    + eapply RI_same; eauto.
    + eapply acyc_same; eauto.
  - exfalso. eapply alloc_no_fault; eauto.
Qed.

Lemma write_back_good : forall t v h c,
  inv_table t -> RI t c -> inv_table (write_back t v h) /\ RI (write_back t v h) c /\ shk t (write_back t v h).
Proof.
  intros t v h c I R. unfold write_back. destruct (slot t h) as [p|] eqn:S.
  - set (sv := if vn_nf v =? 0 then Unsolved else Solved _ _).
    set (k := match p_kind p with KUnknown o _ => KUnknown o sv | KCorrelated o sf0 _ => KCorrelated o sf0 sv | k0 => k0 end).
    assert (E : other_of k = other_of (p_kind p)) by (unfold k; destruct (p_kind p); auto).
    ssplit.
    + eapply inv_table_set_some; eauto.
    + apply RI_set_kind; auto.
    + eapply shk_set; eauto. intros Hg. simpl. unfold k. destruct (p_kind p); auto; discriminate.
  - ssplit; auto. apply shk_refl.
Qed.

Lemma write_back_fold_good : forall hs t v c,
  inv_table t -> RI t c ->
  let t' := fold_left (fun tt h => write_back tt v h) hs t in
  inv_table t' /\ RI t' c /\ shk t t'.
Proof.
  induction hs as [|h r IH]; simpl; intros t v c I R.
  - ssplit; auto. apply shk_refl.
  - destruct (write_back_good t v h c I R) as (I1 & R1 & K1).
    destruct (IH _ v c I1 R1) as (I2 & R2 & K2). ssplit; auto. eapply shk_trans; eauto.
Qed.

Lemma delete_release_good : forall t c n p,
  inv_table t -> inv_predefined t -> RI t c -> slot t n = Some p -> p_deleted p = false -> 3 <= n ->
  exists t', delete_release t n p = (t', false) /\ inv_table t' /\ inv_predefined t' /\ RI t' c.
Proof.
  intros t c n p I P R S D Hn. unfold delete_release.
  set (t0 := set_slot t n (Some (mkParam (p_kind p) true (p_hold p)))).
  assert (I0 : inv_table t0) by (eapply inv_table_set_some; eauto).
  assert (R0 : RI t0 (fun x => c x + dl n x)) by (apply RI_set_deleted; auto).
  assert (P0 : inv_predefined t0).
  { apply (predefined_same t); auto; unfold t0; rewrite slot_set_slot;
    match goal with |- context [Nat.eqb ?a n] => destruct (Nat.eqb_spec a n); try lia end; auto. }
  destruct (release_top_ok _ _ _ I0 R0) as (t' & E & R' & I').
  exists t'. ssplit; auto.
  destruct (release_keeps _ _ _ _ _ E) as (A & _).
  destruct P0 as ((k0 & P0) & (k1 & P1) & (k2 & P2)).
  destruct (A 0 _ P0 eq_refl) as (j0 & Q0). destruct (A 1 _ P1 eq_refl) as (j1 & Q1).
  destruct (A 2 _ P2 eq_refl) as (j2 & Q2). simpl in *. repeat split; eauto.
Qed.

Lemma release_all_predefined : forall t t',
  inv_predefined t ->
  (forall j p, slot t j = Some p -> p_deleted p = false -> exists k, slot t' j = Some (mkParam (p_kind p) false k)) ->
  inv_predefined t'.
Proof.
  intros t t' ((k0 & P0) & (k1 & P1) & (k2 & P2)) A.
  destruct (A 0 _ P0 eq_refl) as (j0 & Q0). destruct (A 1 _ P1 eq_refl) as (j1 & Q1).
  destruct (A 2 _ P2 eq_refl) as (j2 & Q2). simpl in *. repeat split; eauto.
Qed.

Ltac same_state := match goal with |- Good ?s /\ _ => idtac end.

(* every operation except vnacal_free keeps the invariant and trips no modelled assertion *)
Lemma step_good : forall s o,
  st_freed s = false -> Good s -> o <> OFree ->
  Good (fst (step s o)) /\ st_freed (fst (step s o)) = false /\ o_ret (snd (step s o)) <> RFault.
Proof.
  intros s o Fr G NF. pose proof G as [I P R N AC].
  unfold step, step_gen. rewrite Fr. simpl negb.
  change (alloc_param_gen true) with alloc_param.
  destruct o; try congruence.
  - (* make_scalar *)
    destruct (val_eqb g (0, 0)%Z); [simpl; ssplit; auto; discriminate|].
    destruct (val_eqb g (64, 0)%Z); [simpl; ssplit; auto; discriminate|].
    destruct (val_eqb g (-64, 0)%Z); [simpl; ssplit; auto; discriminate|].
    destruct (finish_make_good s (KScalar g) fail (fun t => t) Fr G) as (A & B & C & _); auto.
  - (* make_vector *)
    destruct fs as [|f0 fs']; [simpl; ssplit; auto; discriminate|].
    destruct ((f0 <? 0)%Z || negb (ascending (f0 :: fs')))%bool; [simpl; ssplit; auto; discriminate|].
    destruct (length gs <? length (f0 :: fs')); [simpl; ssplit; auto; discriminate|].
    destruct (finish_make_good s (KVector (f0 :: fs') (firstn (length (f0 :: fs')) gs)) fail (fun t => t) Fr G) as (A & B & C & _); auto.
  - (* make_unknown *)
    destruct (get_param (st_pt s) h) as [[n p]|] eqn:Gp; [|simpl; ssplit; auto; discriminate].
    destruct (get_param_some _ _ _ _ Gp) as (Sn & _).
    destruct (finish_make_good s (KUnknown n Unsolved) fail (fun t => hold t n) Fr G) as (A & B & C & _); auto.
    right. exists n, p. auto.
  - (* make_correlated *)
    destruct (get_param (st_pt s) h) as [[n0 p]|] eqn:Gp; [|simpl; ssplit; auto; discriminate].
    destruct (get_param_some _ _ _ _ Gp) as (Sn & _).
    destruct (n <? 1)%Z; [simpl; ssplit; auto; discriminate|].
    assert (FM : forall sfx,
              Good (fst (finish_make s (alloc_param (st_pt s) (KCorrelated n0 sfx Unsolved) fail) (fun t => hold t n0))) /\
              st_freed (fst (finish_make s (alloc_param (st_pt s) (KCorrelated n0 sfx Unsolved) fail) (fun t => hold t n0))) = false /\
              o_ret (snd (finish_make s (alloc_param (st_pt s) (KCorrelated n0 sfx Unsolved) fail) (fun t => hold t n0))) <> RFault).
    { intros sfx.
      destruct (finish_make_good s (KCorrelated n0 sfx Unsolved) fail (fun t => hold t n0) Fr G) as (A & B & C & _); auto.
      right. exists n0, p. auto. }
    destruct (negb (1 <? n)%Z); [apply FM|].
    destruct sf as [sfv|].
    { destruct (negb (Z.of_nat (length sfv) =? n)%Z); [simpl; ssplit; auto; discriminate|].
      destruct (existsb (fun f => (f <? 0)%Z) sfv || negb (ascending sfv))%bool; [simpl; ssplit; auto; discriminate|].
      match goal with |- context [if ?b then (s, fail_usage) else _] => destruct b end; [simpl; ssplit; auto; discriminate|].
      apply FM. }
    match goal with |- context [if negb ?b then _ else _] => destruct b end;
      [|simpl; ssplit; auto; discriminate].
    simpl negb. cbv iota. apply FM.
  - (* delete_parameter *)
    destruct ((0 <=? h)%Z && (h <? 3)%Z)%bool eqn:H3; [simpl; ssplit; auto; discriminate|].
    destruct (get_param (st_pt s) h) as [[n p]|] eqn:Gp; [|simpl; ssplit; auto; discriminate].
    destruct (get_param_some _ _ _ _ Gp) as (Sn & Dn & En & Hh).
    assert (3 <= n).
    { apply andb_false_iff in H3. destruct H3 as [H3|H3]; [apply Z.leb_gt in H3|apply Z.ltb_ge in H3]; lia. }
    destruct (delete_release_good _ _ _ _ I P R Sn Dn H) as (t' & E & I' & P' & R').
    rewrite E. simpl. ssplit; auto; try discriminate. constructor; auto.
    simpl. eapply acyc_delete_release; eauto.
  - (* get_parameter_value *)
    simpl. ssplit; auto. unfold get_value.
    destruct (get_param (st_pt s) h) as [[n p]|]; simpl; try discriminate.
    destruct (p_kind p) as [g|fs gs|o [|fs gs]|o sf0 [|fs gs]]; simpl; try discriminate;
      unfold table_value;
      match goal with |- context [if ?b then _ else _] => destruct b end; simpl; try discriminate;
      match goal with |- context [index_of ?a ?b] => destruct (index_of a b) end; simpl; discriminate.
  - (* new_alloc *)
    destruct (nth_error (st_news s) id) as [[v|]|] eqn:E; try (simpl; ssplit; auto; discriminate).
    destruct ((dim <? 1)%Z || negb (type_valid ty))%bool; [simpl; ssplit; auto; discriminate|].
    simpl. ssplit; auto; try discriminate.
    assert (Lt : id < length (st_news s)) by (apply nth_error_Some; congruence).
    destruct P as ((k0 & P0) & P12).
    constructor; simpl.
    + apply inv_table_hold. auto.
    + eapply shk_predefined; [apply shk_hold|]. split; eauto.
    + eapply RI_ext; [|eapply RI_hold; eauto]. intros x. cbv beta.
      pose proof (vc_upd (st_news s) id (Some (mkVN ty dim nf false 0 [0] [] [] None)) x Lt) as X.
      rewrite (nth_error_nth _ _ None E) in X. cbn [vp vn_params] in X.
      rewrite cnt_single in X. change (cnt [] x) with 0 in X. lia.
    + rewrite length_upd. auto.
    + eapply acyc_shk; [apply shk_hold|auto].
  - (* set_frequency_vector *)
    destruct (get_new s id) as [v|] eqn:Gn; [|simpl; ssplit; auto; discriminate].
    destruct ((0 <? vn_nf v) && (f0 <? 0)%Z)%bool; [simpl; ssplit; auto; discriminate|].
    match goal with |- context [if ?b then _ else _] => destruct b end; [|simpl; ssplit; auto; discriminate].
    simpl. ssplit; auto; try discriminate. constructor; simpl; auto.
    + eapply RI_ext; [|exact R]. intros x. symmetry. eapply vc_same_params; eauto.
    + rewrite length_upd. auto.
  - (* add standard *)
    destruct (get_new s id) as [v|] eqn:Gn; [|simpl; ssplit; auto; discriminate].
    match goal with |- context [if negb ?b then (s, fail_usage) else _] => destruct b end;
      simpl negb; cbv iota; [|simpl; ssplit; auto; discriminate].
    pose proof (get_new_lt _ _ _ Gn) as Lt.
    set (c0 := vc (upd (st_news s) id None)).
    assert (R0 : RI (st_pt s) (fun x => c0 x + cnt (vn_params v) x)).
    { eapply RI_ext; [|exact R]. intros x. unfold c0.
      pose proof (vc_upd (st_news s) id None x Lt) as X. unfold get_new in Gn. rewrite Gn in X.
      simpl in X. lia. }
    destruct (vn_get_params (st_pt s) v hs) as [[t1 v1] ok] eqn:E.
    destruct (vn_get_params_ok _ _ _ _ _ _ _ I R0 E) as (I1 & R1 & K1 & _).
    assert (Fin : forall v2, vn_params v2 = vn_params v1 ->
                  RI t1 (vc (upd (st_news s) id (Some v2)))).
    { intros v2 E2. eapply RI_ext; [|exact R1]. intros x. unfold c0.
      pose proof (vc_upd (st_news s) id None x Lt) as X.
      pose proof (vc_upd (st_news s) id (Some v2) x Lt) as Y.
      simpl in X, Y. rewrite E2 in Y. lia. }
    destruct ok; simpl; ssplit; auto; try discriminate; constructor; simpl; auto;
      try (eapply shk_predefined; eauto); try (rewrite length_upd; auto);
      try (eapply acyc_shk; [exact K1|exact AC]).
  - (* solve *)
    destruct (get_new s id) as [v|] eqn:Gn; [|simpl; ssplit; auto; discriminate].
    destruct (negb (vn_fvalid v)); [simpl; ssplit; auto; discriminate|].
    destruct (negb oracle_ok && (0 <? vn_nf v))%bool; [simpl; ssplit; auto; discriminate|].
    simpl. ssplit; auto; try discriminate.
    destruct (write_back_fold_good (vn_unknowns v) (st_pt s) v _ I R) as (I1 & R1 & K1).
    constructor; simpl; auto.
    + eapply shk_predefined; eauto.
    + eapply RI_ext; [|exact R1]. intros x. symmetry. eapply vc_same_params; eauto.
    + rewrite length_upd. auto.
    + eapply acyc_shk; eauto.
  - (* add_calibration *)
    destruct (get_new s id) as [v|] eqn:Gn; [|simpl; ssplit; auto; discriminate].
    destruct (vn_cal v); [|simpl; ssplit; auto; discriminate].
    destruct (add_slot (st_cals s) name) as [l i]. simpl. ssplit; auto; try discriminate.
    constructor; simpl; auto.
    + eapply RI_ext; [|exact R]. intros x. symmetry.
      apply (vc_same_params s id v); auto.
    + rewrite length_upd. auto.
  - (* delete_calibration *)
    destruct (cal_at (st_cals s) ci); simpl; ssplit; auto; try discriminate. constructor; auto.
  - (* find *)
    destruct (find_name (st_cals s) name); simpl; ssplit; auto; discriminate.
  - (* get_* *)
    destruct (cal_at (st_cals s) ci); simpl; ssplit; auto; discriminate.
  - (* end *)
    simpl; ssplit; auto; discriminate.
  - (* property set *)
    destruct (Z.eqb ci (-1)); [simpl; ssplit; auto; try discriminate; constructor; auto|].
    destruct (cal_at (st_cals s) ci); simpl; ssplit; auto; try discriminate. constructor; auto.
  - (* property get *)
    destruct (Z.eqb ci (-1)).
    + destruct (st_gprop s); simpl; ssplit; auto; discriminate.
    + destruct (cal_at (st_cals s) ci) as [c|]; [destruct (c_prop c)|]; simpl; ssplit; auto; discriminate.
  - (* new_free *)
    destruct (get_new s id) as [v|] eqn:Gn; [|simpl; ssplit; auto; discriminate].
    pose proof (get_new_lt _ _ _ Gn) as Lt.
    assert (R0 : RI (st_pt s) (fun x => vc (upd (st_news s) id None) x + cnt (vn_params v) x)).
    { eapply RI_ext; [|exact R]. intros x.
      pose proof (vc_upd (st_news s) id None x Lt) as X. unfold get_new in Gn. rewrite Gn in X.
      simpl in X. lia. }
    destruct (release_all_ok _ _ _ I R0) as (t' & E & R' & I' & K').
    rewrite E. simpl. ssplit; auto; try discriminate. constructor; simpl; auto.
    + eapply release_all_predefined; eauto.
    + rewrite length_upd. auto.
    + eapply acyc_release_all; eauto.
Qed.

(* ================================================================== vnacal_free *)
Lemma delete_release_ok : forall t c n p,
  inv_table t -> RI t c -> slot t n = Some p -> p_deleted p = false ->
  exists t', delete_release t n p = (t', false) /\ inv_table t' /\ RI t' c.
Proof.
  intros t c n p I R S D. unfold delete_release.
  set (t0 := set_slot t n (Some (mkParam (p_kind p) true (p_hold p)))).
  assert (I0 : inv_table t0) by (eapply inv_table_set_some; eauto).
  assert (R0 : RI t0 (fun x => c x + dl n x)) by (apply RI_set_deleted; auto).
  destruct (release_top_ok _ _ _ I0 R0) as (t' & E & R' & I'). eauto.
Qed.

Lemma free_news_ok : forall l t c,
  inv_table t -> RI t (fun x => cnt (vn_owners l) x + c x) ->
  exists t', free_news t l = (t', false) /\ inv_table t' /\ RI t' c.
Proof.
  induction l as [|[v|] r IH]; simpl; intros t c I R.
  - exists t. ssplit; auto.
  - assert (R0 : RI t (fun x => (cnt (vn_owners r) x + c x) + cnt (vn_params v) x)).
    { eapply RI_ext; [|exact R]. intros x. cbv beta. rewrite count_occ_app. lia. }
    destruct (release_all_ok _ _ _ I R0) as (t1 & E1 & R1 & I1 & _).
    destruct (IH t1 c I1 R1) as (t2 & E2 & I2 & R2).
    rewrite E1, E2. exists t2. ssplit; auto.
  - apply IH; auto.
Qed.

Lemma teardown_ok : forall idx t c,
  inv_table t -> RI t c -> exists t', teardown t idx = (t', false) /\ inv_table t' /\ RI t' c.
Proof.
  induction idx as [|i r IH]; simpl; intros t c I R.
  - exists t. auto.
  - destruct (slot t i) as [p|] eqn:S; [|apply IH; auto].
    destruct (p_deleted p) eqn:D; [apply IH; auto|].
    destruct (delete_release_ok _ _ _ _ I R S D) as (t1 & E1 & I1 & R1).
    destruct (IH t1 c I1 R1) as (t2 & E2 & I2 & R2).
    rewrite E1, E2. exists t2. auto.
Qed.

(* ------------------------------------------------------------------ nothing is left: assert(vprmc_count == 0) *)
Lemma acyc_free_news : forall l t t' b, free_news t l = (t', b) -> inv_acyclic t -> inv_acyclic t'.
Proof.
  induction l as [|[v|] r IH]; simpl; intros t t' b E A.
  - inv E. auto.
  - destruct (release_all t (vn_params v)) as [t1 f1] eqn:E1. destruct (free_news t1 r) as [t2 f2] eqn:E2.
    inv E. eapply IH; eauto. eapply acyc_release_all; eauto.
  - eapply IH; eauto.
Qed.

Lemma acyc_teardown : forall idx t t' b, teardown t idx = (t', b) -> inv_acyclic t -> inv_acyclic t'.
Proof.
  induction idx as [|i r IH]; simpl; intros t t' b E A.
  - inv E. auto.
  - destruct (slot t i) as [p|] eqn:S; [|eapply IH; eauto].
    destruct (p_deleted p); [eapply IH; eauto|].
    destruct (delete_release t i p) as [t1 f1] eqn:E1. destruct (teardown t1 r) as [t2 f2] eqn:E2.
    inv E. eapply IH; eauto. eapply acyc_delete_release; eauto.
Qed.

(* after the teardown loop a parameter that is still live was live before and is not one of the
   indices the loop went over *)
Lemma teardown_all_deleted : forall idx t t' b, teardown t idx = (t', b) ->
  forall j p', slot t' j = Some p' -> p_deleted p' = false ->
    ~ In j idx /\ exists p, slot t j = Some p /\ p_deleted p = false.
Proof.
  induction idx as [|i r IH]; simpl; intros t t' b H j p' Sj Dj.
  - inv H. split; auto. eauto.
  - destruct (slot t i) as [p|] eqn:S.
    + destruct (p_deleted p) eqn:D.
      * destruct (IH _ _ _ H j p' Sj Dj) as (NI & q & Sq & Dq). split; eauto.
        intros [<-|X]; auto. rewrite S in Sq. inv Sq. congruence.
      * destruct (delete_release t i p) as [t1 f1] eqn:E1. destruct (teardown t1 r) as [t2 f2] eqn:E2. inv H.
        destruct (IH _ _ _ E2 j p' Sj Dj) as (NI & q & Sq & Dq).
        unfold delete_release, release_top in E1. destruct (release_keeps _ _ _ _ _ E1) as (_ & B).
        destruct (B j q Sq) as (q0 & S0 & _ & D0). rewrite slot_set_slot in S0.
        destruct (Nat.eqb_spec j i) as [->|Nj]; simpl in S0.
        -- destruct (Nat.ltb_spec i (length (pt_slots t))); [|apply slot_some_lt in S; lia].
           inv S0. simpl in D0. congruence.
        -- split; [intros [X|X]; auto; congruence|]. exists q0. split; auto. congruence.
    + destruct (IH _ _ _ H j p' Sj Dj) as (NI & q & Sq & Dq). split; eauto.
      intros [<-|X]; auto. congruence.
Qed.

Lemma oc_pos_link : forall t h, 0 < oc t h ->
  exists j p, slot t j = Some p /\ other_of (p_kind p) = Some h.
Proof.
  intros t h H. unfold oc in H. flat_oo. apply (count_occ_In Nat.eq_dec) in H.
  apply in_flat_map in H. destruct H as ([p|] & Hin & Ho); [|destruct Ho].
  destruct (In_nth _ _ None Hin) as (j & Lj & Nj). exists j, p. split; auto.
  simpl in Ho. destruct (other_of (p_kind p)) as [o|]; [|destruct Ho]. destruct Ho as [<-|[]]. auto.
Qed.

Lemma le_list_max : forall l x, In x l -> x <= list_max l.
Proof.
  intros l x H. assert (F : Forall (fun k => k <= list_max l) l) by (apply list_max_le; lia).
  rewrite Forall_forall in F. auto.
Qed.

(* acyclic links: if every occupied slot had a referrer the ranks would grow without bound *)
Lemma no_occupied_when_all_referred : forall t, inv_acyclic t ->
  (forall h p, slot t h = Some p -> exists j q, slot t j = Some q /\ other_of (p_kind q) = Some h) ->
  forall h, slot t h = None.
Proof.
  intros t (rank & Rk) Ref.
  assert (Up : forall k h p, slot t h = Some p -> exists h' p', slot t h' = Some p' /\ rank h + k <= rank h').
  { induction k as [|k IH]; intros h p S.
    - exists h, p. split; auto. lia.
    - destruct (IH h p S) as (h1 & p1 & S1 & L1). destruct (Ref h1 p1 S1) as (j & q & Sq & Oq).
      pose proof (Rk j q h1 Sq Oq). exists j, q. split; auto. lia. }
  intros h. destruct (slot t h) as [p|] eqn:Sh; auto. exfalso.
  set (M := list_max (map rank (seq 0 (length (pt_slots t))))).
  destruct (Up (S M) h p Sh) as (h' & p' & S' & L').
  assert (rank h' <= M).
  { apply le_list_max. apply in_map. apply in_seq. pose proof (slot_some_lt _ _ _ S'). lia. }
  lia.
Qed.

Lemma occupied_none : forall l, (forall j, nth j l None = None) -> occupied l = 0.
Proof.
  induction l as [|a l IH]; intros H; [reflexivity|].
  rewrite occupied_cons. pose proof (H 0) as H0. simpl in H0. subst a. simpl.
  apply IH. intros j. exact (H (S j)).
Qed.

(* vnacal_free (with fix D42) never trips a modelled assertion - assert(vprmc_count == 0) at the end of the
   teardown included: every parameter has been freed - and ends the life of the object *)
Lemma free_ok : forall s, st_freed s = false -> Good s ->
  exists s', step s OFree = (s', mkOut (RInt 0) ENone 0) /\ st_freed s' = true /\
             pt_count (st_pt s') = 0 /\ (forall h, slot (st_pt s') h = None) /\ st_cals s' = [].
Proof.
  intros s Fr [I P R N AC]. unfold step, step_gen, free_all. rewrite Fr.
  assert (R0 : RI (st_pt s) (fun x => cnt (vn_owners (st_news s)) x + 0)).
  { eapply RI_ext; [|exact R]. intros; unfold vc; lia. }
  destruct (free_news_ok _ _ _ I R0) as (t1 & E1 & I1 & R1). rewrite E1.
  pose proof (acyc_free_news _ _ _ _ E1 AC) as A1.
  destruct (teardown_ok (rev (seq 0 (length (pt_slots t1)))) _ _ I1 R1) as (t2 & E2 & I2 & R2).
  rewrite E2. pose proof (acyc_teardown _ _ _ _ E2 A1) as A2.
  assert (NoOcc : forall h, slot t2 h = None).
  { apply (no_occupied_when_all_referred t2 A2). intros h p Sh.
    assert (D : p_deleted p = true).
    { destruct (p_deleted p) eqn:D; auto. exfalso.
      destruct (teardown_all_deleted _ _ _ _ E2 h p Sh D) as (NI & q & Sq & _). apply NI.
      rewrite <- in_rev. apply in_seq. pose proof (slot_some_lt _ _ _ Sq). lia. }
    pose proof (R2 h) as Rh. rewrite Sh, D in Rh. simpl in Rh. apply oc_pos_link. lia. }
  assert (Z : pt_count t2 = 0).
  { destruct I2 as (Cn & _). rewrite Cn. apply occupied_none. exact NoOcc. }
  rewrite Z. simpl. eexists. ssplit; [reflexivity|reflexivity|exact Z|exact NoOcc|reflexivity].
Qed.

(* model variant [step_asis] (record of the code before fix D42; not tied to the current code): it
   aborted on an unknown parameter in a lower slot than the parameter it refers to *)
Definition d42_script : list op :=
  [OMakeScalar (32, 0)%Z 0; OMakeScalar (16, 0)%Z 0; ODeleteParam 3; OMakeUnknown 4 0].

Lemma free_asis_aborts_l :
  exists s, s = fst (run st_initial d42_script) /\ o_ret (snd (step_asis s OFree)) = RFault.
Proof. eexists. split; [reflexivity|]. vm_compute. reflexivity. Qed.

(* ================================================================== reachability *)
Lemma good_initial : Good st_initial.
Proof.
  constructor.
  - unfold inv_table. simpl. ssplit; auto.
    intros i Hi. destruct i as [|[|[|i]]]; unfold slot; simpl; try discriminate. lia.
  - unfold inv_predefined, slot. simpl. ssplit; eexists; reflexivity.
  - intros h. unfold slot, oc, vc. simpl.
    destruct h as [|[|[|h]]]; simpl; auto; try (split; lia). destruct h; auto.
  - reflexivity.
  - exists (fun _ => 0). intros h p o S O. unfold slot in S.
    destruct h as [|[|[|h]]]; simpl in S; try (inv S; discriminate). destruct h; discriminate.
Qed.

Lemma op_eq_free : forall o, {o = OFree} + {o <> OFree}.
Proof. destruct o; (left; reflexivity) || (right; discriminate). Qed.

Lemma step_inv : forall s o, Inv s -> Inv (fst (step s o)).
Proof.
  intros s o H. destruct (st_freed s) eqn:Fr.
  - unfold step, step_gen. rewrite Fr. simpl. auto.
  - apply (Inv_Good s Fr) in H.
    destruct (op_eq_free o) as [->|NF].
    + destruct (free_ok s Fr H) as (s' & E & Fr' & _). rewrite E. simpl. intros X. congruence.
    + destruct (step_good s o Fr H NF) as (G' & Fr' & _). apply Inv_Good; auto.
Qed.

Lemma step_no_fault : forall s o, Inv s -> o_ret (snd (step s o)) <> RFault.
Proof.
  intros s o H. destruct (st_freed s) eqn:Fr.
  - unfold step, step_gen. rewrite Fr. simpl. discriminate.
  - apply (Inv_Good s Fr) in H.
    destruct (op_eq_free o) as [->|NF].
    + destruct (free_ok s Fr H) as (s' & E & Fr' & _). rewrite E. simpl. discriminate.
    + destruct (step_good s o Fr H NF) as (_ & _ & X). auto.
Qed.

Lemma run_inv : forall ops s, Inv s -> Inv (fst (run s ops)) /\
  forall x, In x (snd (run s ops)) -> o_ret x <> RFault.
Proof.
  induction ops as [|o r IH]; simpl; intros s H.
  - split; auto; try (intros x []).
  - destruct (step s o) as [s1 x1] eqn:E.
    pose proof (step_inv s o H) as H1. pose proof (step_no_fault s o H) as N1. rewrite E in *. simpl in *.
    destruct (IH s1 H1) as (A & B). destruct (run s1 r) as [s2 xs]. simpl in *. split; auto.
    intros x [<-|Hx]; auto.
Qed.

Lemma inv_initial : Inv st_initial.
Proof. apply Inv_Good; [reflexivity|apply good_initial]. Qed.

(* ================================================================== handles *)
Lemma slot_hold_neq : forall t n j, j <> n -> slot (hold t n) j = slot t j.
Proof.
  intros. unfold hold. destruct (slot t n); auto. rewrite slot_set_slot.
  destruct (Nat.eqb_spec j n); try congruence. auto.
Qed.

Lemma slot_hold_eq : forall t n p, slot t n = Some p ->
  slot (hold t n) n = Some (mkParam (p_kind p) (p_deleted p) (S (p_hold p))).
Proof.
  intros. unfold hold. rewrite H. rewrite slot_set_slot, Nat.eqb_refl.
  destruct (Nat.ltb_spec n (length (pt_slots t))); auto. apply slot_some_lt in H. lia.
Qed.

Definition is_make (o : op) : bool :=
  match o with OMakeScalar _ _ | OMakeVector _ _ _ | OMakeUnknown _ _ | OMakeCorrelated _ _ _ _ => true | _ => false end.

Lemma finish_make_fresh : forall s k fl after s' z,
  inv_table (st_pt s) ->
  finish_make s (alloc_param (st_pt s) k fl) after = (s', ok_int z) ->
  (after = (fun t => t)) \/ (exists o q, slot (st_pt s) o = Some q /\ after = (fun t => hold t o)) ->
  exists h, z = Z.of_nat h /\ slot (st_pt s) h = None /\
    slot (st_pt s') h = Some (mkParam k false 1) /\
    (forall j p, slot (st_pt s) j = Some p ->
       j <> h /\ exists p', slot (st_pt s') j = Some p' /\ p_kind p' = p_kind p /\ p_deleted p' = p_deleted p) /\
    st_cals s' = st_cals s /\ st_news s' = st_news s.
Proof.
  intros s k fl after s' z I H Ha. unfold finish_make in H.
  destruct (alloc_param (st_pt s) k fl) as [t' h|t'|] eqn:A; [|inv H|inv H].
  inv H. destruct (alloc_ok_spec _ _ _ _ _ I A) as (N & S' & Same & _).
  exists h. simpl. destruct Ha as [->|(o & q & So & ->)].
  - ssplit; auto. intros j p Sj. assert (j <> h) by (intro; subst; congruence).
    split; auto. exists p. rewrite Same; auto.
  - assert (Ne : o <> h) by (intro; subst; congruence).
    ssplit; auto.
    + rewrite slot_hold_neq; auto.
    + intros j p Sj. assert (j <> h) by (intro; subst; congruence). split; auto.
      destruct (Nat.eq_dec j o) as [->|Nj].
      * rewrite (slot_hold_eq t' o p) by (rewrite Same; auto). eexists; ssplit; eauto.
      * rewrite slot_hold_neq by auto. rewrite Same by auto. eauto.
Qed.

(* a handle returned by make_*_parameter is different from every handle in the table (live, or
   deleted but still held), and those stay where they are *)
Lemma handles_unique_while_live_l : forall s o s' z,
  Inv s -> st_freed s = false -> is_make o = true ->
  step s o = (s', ok_int z) -> (3 <= z)%Z ->
  param_map s (Z.to_nat z) = None /\
  live s' (Z.to_nat z) /\
  forall j p, param_map s j = Some p ->
    j <> Z.to_nat z /\ exists p', param_map s' j = Some p' /\ p_kind p' = p_kind p /\ p_deleted p' = p_deleted p.
Proof.
  intros s o s' z HI Fr M H Hz. apply (Inv_Good s Fr) in HI. destruct HI as [I P R N AC].
  unfold step, step_gen in H. rewrite Fr in H. simpl negb in H.
  change (alloc_param_gen true) with alloc_param in H.
  assert (Fin : forall k fl after,
            finish_make s (alloc_param (st_pt s) k fl) after = (s', ok_int z) ->
            (after = (fun t => t)) \/ (exists o q, slot (st_pt s) o = Some q /\ after = (fun t => hold t o)) ->
            param_map s (Z.to_nat z) = None /\ live s' (Z.to_nat z) /\
            forall j p, param_map s j = Some p ->
              j <> Z.to_nat z /\ exists p', param_map s' j = Some p' /\ p_kind p' = p_kind p /\ p_deleted p' = p_deleted p).
  { intros k fl after F Ha. destruct (finish_make_fresh _ _ _ _ _ _ I F Ha) as (h & -> & A & B & C & _).
    rewrite Nat2Z.id. unfold param_map, live. ssplit; auto. eexists. split; eauto. }
  destruct o; try discriminate.
  - destruct (val_eqb g (0, 0)%Z); [inv H; lia|].
    destruct (val_eqb g (64, 0)%Z); [inv H; lia|].
    destruct (val_eqb g (-64, 0)%Z); [inv H; lia|]. eapply Fin; eauto.
  - destruct fs as [|f0 fs']; [inv H|].
    destruct ((f0 <? 0)%Z || negb (ascending (f0 :: fs')))%bool; [inv H|].
    destruct (length gs <? length (f0 :: fs')); [inv H|]. eapply Fin; eauto.
  - destruct (get_param (st_pt s) h) as [[n p]|] eqn:Gp; [|inv H].
    destruct (get_param_some _ _ _ _ Gp) as (Sn & _). eapply Fin; eauto.
  - destruct (get_param (st_pt s) h) as [[n0 p]|] eqn:Gp; [|inv H].
    destruct (get_param_some _ _ _ _ Gp) as (Sn & _).
    destruct (n <? 1)%Z; [inv H|].
    destruct (negb (1 <? n)%Z); [eapply Fin; eauto|].
    destruct sf as [sfv|].
    { destruct (negb (Z.of_nat (length sfv) =? n)%Z); [inv H|].
      destruct (existsb (fun f => (f <? 0)%Z) sfv || negb (ascending sfv))%bool; [inv H|].
      match type of H with context [if ?b then (s, fail_usage) else _] => destruct b end; [inv H|].
      eapply Fin; eauto. }
    match type of H with context [if negb ?b then _ else _] => destruct b end; [|inv H].
    simpl negb in H. cbv iota in H. eapply Fin; eauto.
Qed.

(* the predefined handles: always there, never deleted, deleting them is a no-op *)
Lemma predefined_permanent_l : forall ops,
  let s := run_state ops in
  st_freed s = false ->
  (forall f, get_value (st_pt s) 0 f = mkOut (RValue (0, 0)%Z) ENone 0) /\
  (forall f, get_value (st_pt s) 1 f = mkOut (RValue (64, 0)%Z) ENone 0) /\
  (forall f, get_value (st_pt s) 2 f = mkOut (RValue (-64, 0)%Z) ENone 0) /\
  (forall h, (0 <= h < 3)%Z -> step s (ODeleteParam h) = (s, ok_int 0)).
Proof.
  intros ops s Fr.
  destruct (run_inv ops st_initial inv_initial) as (HI & _). fold (run_state ops) in HI. fold s in HI.
  destruct (HI Fr) as (_ & ((k0 & P0) & (k1 & P1) & (k2 & P2)) & _).
  ssplit; intros.
  - unfold get_value, get_param. change (0 <? 0)%Z with false. change (Z.to_nat 0) with 0. cbv iota.
    rewrite P0. reflexivity.
  - unfold get_value, get_param. change (1 <? 0)%Z with false. change (Z.to_nat 1) with 1. cbv iota.
    rewrite P1. reflexivity.
  - unfold get_value, get_param. change (2 <? 0)%Z with false. change (Z.to_nat 2) with 2. cbv iota.
    rewrite P2. reflexivity.
  - unfold step, step_gen. rewrite Fr. destruct H as (H0 & H1). apply Z.leb_le in H0. apply Z.ltb_lt in H1.
    rewrite H0, H1. reflexivity.
Qed.

(* a handle deleted while a vnacal_new_t holds it: the user can no longer see it, the parameter
   stays in its slot with its kind, and the vnacal_new_t keeps accepting and evaluating it *)
Lemma deleted_while_held_still_works_l : forall s h n p id v,
  Inv s -> st_freed s = false ->
  get_param (st_pt s) h = Some (n, p) -> (3 <= h)%Z ->
  get_new s id = Some v -> In n (vn_params v) ->
  exists s' k,
    step s (ODeleteParam h) = (s', ok_int 0) /\
    param_map s' n = Some (mkParam (p_kind p) true k) /\ 0 < k /\
    st_news s' = st_news s /\
    get_param (st_pt s') h = None /\
    (forall ms, exists s'', step s' (OAddStd id [h] ms) = (s'', ok_int 0) /\ st_pt s'' = st_pt s').
Proof.
  intros s h n p id v HI Fr Gp H3 Gn Hin. apply (Inv_Good s Fr) in HI. destruct HI as [I P R N AC].
  destruct (get_param_some _ _ _ _ Gp) as (Sn & Dn & En & Hh).
  assert (Hn : 3 <= n) by lia.
  (* the vnacal_new_t's reference keeps the hold count above one *)
  assert (Vc : 1 <= vc (st_news s) n).
  { pose proof (vc_upd (st_news s) id None n (get_new_lt _ _ _ Gn)) as X. unfold get_new in Gn.
    rewrite Gn in X. simpl in X. assert (1 <= cnt (vn_params v) n) by (apply count_occ_In; auto). lia. }
  pose proof (R n) as Rn. rewrite Sn, Dn in Rn. simpl in Rn. destruct Rn as (Hh1 & _).
  destruct (p_hold p) as [|[|hc]] eqn:Hp; try lia.
  assert (Lt : n < length (pt_slots (st_pt s))) by (eapply slot_some_lt; eauto).
  set (t0 := set_slot (st_pt s) n (Some (mkParam (p_kind p) true (S (S hc))))).
  assert (S0 : slot t0 n = Some (mkParam (p_kind p) true (S (S hc)))).
  { unfold t0. rewrite slot_set_slot, Nat.eqb_refl. destruct (Nat.ltb_spec n (length (pt_slots (st_pt s)))); auto. lia. }
  set (t1 := set_slot t0 n (Some (mkParam (p_kind p) true (S hc)))).
  assert (E : delete_release (st_pt s) n p = (t1, false)).
  { unfold delete_release, release_top. rewrite Hp. fold t0. simpl release. rewrite S0. simpl. reflexivity. }
  assert (S1 : slot t1 n = Some (mkParam (p_kind p) true (S hc))).
  { unfold t1. rewrite slot_set_slot, Nat.eqb_refl. unfold t0, set_slot. simpl. rewrite length_upd.
    destruct (Nat.ltb_spec n (length (pt_slots (st_pt s)))); auto. lia. }
  exists (with_pt s t1), (S hc).
  assert (St : step s (ODeleteParam h) = (with_pt s t1, ok_int 0)).
  { unfold step, step_gen. rewrite Fr. destruct (Z.ltb_spec h 3); try lia. rewrite andb_false_r. rewrite Gp, E. reflexivity. }
  ssplit; auto; try lia.
  - unfold get_param. destruct (Z.ltb_spec h 0); try lia. simpl. rewrite <- En, S1. reflexivity.
  - intros ms. eexists. unfold step, step_gen. simpl st_freed. rewrite Fr.
    unfold get_new. simpl st_news. unfold get_new in Gn. rewrite Gn.
    assert (Hm : in_nat n (vn_params v) = true).
    { unfold in_nat. apply existsb_exists. exists n. split; auto. apply Nat.eqb_refl. }
    simpl vn_get_params. simpl forallb. simpl vn_check_param.
    destruct (Z.leb_spec 0 h); try lia. rewrite <- En.
    simpl. rewrite Hm. simpl. split; reflexivity.
Qed.

(* values are returned as supplied *)
Lemma values_as_supplied_scalar_l : forall s g fl s' z,
  Inv s -> st_freed s = false -> step s (OMakeScalar g fl) = (s', ok_int z) ->
  forall f, get_value (st_pt s') z f = mkOut (RValue g) ENone 0.
Proof.
  intros s g fl s' z HI Fr H f. pose proof HI as HI0. apply (Inv_Good s Fr) in HI. destruct HI as [I P R N AC].
  unfold step, step_gen in H. rewrite Fr in H. simpl negb in H.
  change (alloc_param_gen true) with alloc_param in H.
  destruct P as ((k0 & P0) & (k1 & P1) & (k2 & P2)).
  unfold val_eqb in H.
  destruct g as [a b]. simpl in H.
  destruct (Z.eqb_spec a 0); destruct (Z.eqb_spec b 0); simpl in H;
    try (inv H; unfold get_value, get_param; change (0 <? 0)%Z with false; change (Z.to_nat 0) with 0; cbv iota; rewrite P0; reflexivity).
  all: destruct (Z.eqb_spec a 64); simpl in H;
    try (inv H; unfold get_value, get_param; change (1 <? 0)%Z with false; change (Z.to_nat 1) with 1; cbv iota; rewrite P1; reflexivity).
  all: destruct (Z.eqb_spec a (-64)); simpl in H;
    try (inv H; unfold get_value, get_param; change (2 <? 0)%Z with false; change (Z.to_nat 2) with 2; cbv iota; rewrite P2; reflexivity).
  all: destruct (finish_make_fresh _ _ _ _ _ _ I H (or_introl eq_refl)) as (h & -> & _ & B & _);
    unfold get_value, get_param; destruct (Z.ltb_spec (Z.of_nat h) 0); try lia;
    rewrite Nat2Z.id, B; reflexivity.
Qed.

(* vector parameter asked at one of the supplied frequencies.  A successful make_vector means that
   the caller's gamma array has at least [length fs] entries (otherwise the outcome is RUndef: the C
   code would read past the array), so the i-th supplied value exists: no default value is involved.
   A supplied frequency always passes the range test of vnacal_get_parameter_value (ascending,
   non-negative frequencies).  The interpolation between knots is not modelled. *)
Lemma ascending_head_le_last : forall l a, ascending (a :: l) = true -> (a <= last (a :: l) 0)%Z.
Proof.
  induction l as [|b r IH]; intros a H.
  - simpl. lia.
  - cbn [ascending] in H. apply andb_prop in H. destruct H as (H1 & H2). apply Z.ltb_lt in H1.
    specialize (IH b H2). change (last (a :: b :: r) 0%Z) with (last (b :: r) 0%Z). lia.
Qed.

Lemma ascending_bounds : forall l a f, ascending (a :: l) = true -> In f (a :: l) ->
  (a <= f <= last (a :: l) 0)%Z.
Proof.
  induction l as [|b r IH]; intros a f H Hin.
  - destruct Hin as [<-|[]]. simpl. lia.
  - pose proof (ascending_head_le_last _ _ H) as HL.
    cbn [ascending] in H. apply andb_prop in H. destruct H as (H1 & H2). apply Z.ltb_lt in H1.
    destruct Hin as [<-|Hin]; [lia|].
    specialize (IH b f H2 Hin). change (last (a :: b :: r) 0%Z) with (last (b :: r) 0%Z). lia.
Qed.

Lemma index_of_In : forall fs f i, index_of f fs = Some i -> In f fs /\ i < length fs.
Proof.
  induction fs as [|x r IH]; simpl; intros f i H; try discriminate.
  destruct (Z.eqb_spec x f).
  - inv H. split; auto; lia.
  - destruct (index_of f r) as [k|] eqn:E; inv H. destruct (IH f k E). split; auto; lia.
Qed.

Lemma nth_error_firstn_lt : forall A (l : list A) n i, i < n -> nth_error (firstn n l) i = nth_error l i.
Proof.
  induction l as [|a l IH]; intros n i H.
  - rewrite firstn_nil. auto.
  - destruct n; try lia. destruct i; simpl; auto. apply IH. lia.
Qed.

Lemma nth_error_nth_some : forall A (l : list A) i d x, nth_error l i = Some x -> nth i l d = x.
Proof. induction l; destruct i; simpl; intros; try discriminate; eauto. congruence. Qed.

Lemma values_as_supplied_vector_l : forall s fs gs fl s' z f i,
  Inv s -> st_freed s = false -> step s (OMakeVector fs gs fl) = (s', ok_int z) ->
  index_of f fs = Some i ->
  exists g, nth_error gs i = Some g /\ get_value (st_pt s') z f = mkOut (RValue g) ENone 0.
Proof.
  intros s fs gs fl s' z f i HI Fr H Hi. apply (Inv_Good s Fr) in HI. destruct HI as [I P R N AC].
  unfold step, step_gen in H. rewrite Fr in H. simpl negb in H.
  change (alloc_param_gen true) with alloc_param in H.
  destruct fs as [|f0 fs']; [inv H|].
  destruct ((f0 <? 0)%Z || negb (ascending (f0 :: fs')))%bool eqn:Chk; [inv H|].
  apply orb_false_elim in Chk. destruct Chk as (C0 & C1). apply Z.ltb_ge in C0.
  apply negb_false_iff in C1.
  destruct (Nat.ltb_spec (length gs) (length (f0 :: fs'))) as [|Len]; [inv H|].
  destruct (index_of_In _ _ _ Hi) as (Hin & Hlt).
  destruct (nth_error gs i) as [g|] eqn:Eg; [|apply nth_error_None in Eg; lia].
  exists g. split; auto.
  destruct (finish_make_fresh _ _ _ _ _ _ I H (or_introl eq_refl)) as (h & -> & _ & B & _).
  unfold get_value, get_param. destruct (Z.ltb_spec (Z.of_nat h) 0); try lia.
  rewrite Nat2Z.id, B. simpl p_deleted. cbv iota. simpl p_kind. cbv iota. unfold table_value.
  pose proof (ascending_bounds _ _ _ C1 Hin) as (B1 & B2).
  change (hd 0%Z (f0 :: fs')) with f0.
  destruct (Z.ltb_spec (100 * f) (99 * f0)); try lia.
  destruct (Z.ltb_spec (101 * last (f0 :: fs') 0%Z) (100 * f)); try lia.
  simpl orb. cbv iota. rewrite Hi.
  assert (Eg' : nth_error (firstn (length (f0 :: fs')) gs) i = Some g) by (rewrite nth_error_firstn_lt; auto).
  f_equal. f_equal. exact (nth_error_nth_some _ (firstn (length (f0 :: fs')) gs) i (0, 0)%Z g Eg').
Qed.

(* the model makes no prediction when the caller's gamma array is shorter than the frequency
   count: the outcome is RUndef and nothing changes (and so no theorem about values applies) *)
Lemma make_vector_short_gamma_undefined : forall s f0 fs gs fl,
  st_freed s = false -> (0 <= f0)%Z -> ascending (f0 :: fs) = true -> length gs < length (f0 :: fs) ->
  step s (OMakeVector (f0 :: fs) gs fl) = (s, mkOut RUndef ENone 0).
Proof.
  intros s f0 fs gs fl Fr H0 Ha Hl. unfold step, step_gen. rewrite Fr.
  destruct (Z.ltb_spec f0 0); try lia. rewrite Ha. simpl orb. cbv iota.
  destruct (Nat.ltb_spec (length gs) (length (f0 :: fs))); try lia. reflexivity.
Qed.

(* ================================================================== refinement of the finite-map spec *)
Lemma cal_named_false : forall name c, cal_named name (Some c) = false -> c_name c <> name.
Proof. intros name c H. simpl in H. apply Z.eqb_neq. auto. Qed.

Lemma add_refines_spec_l : forall s id name s' z,
  step s (OAddCal id name) = (s', ok_int z) ->
  exists i c, z = Z.of_nat i /\ spec_add_index (cal_map s) name i /\
    c_name c = name /\
    forall j, cal_map s' j = map_set (cal_map s) i (Some c) j.
Proof.
  intros s id name s' z H.
  destruct (addcal_shape _ _ _ _ _ H) as (v & c & l & i & Fr & G & C & A & Z & Fr' & Cals & _).
  destruct (add_slot_spec _ _ _ _ A) as (L & LL & Same & Cases).
  exists i. exists (mkCal name (c_type c) (c_rows c) (c_cols c) (c_nf c) (c_fmin c) (c_fmax c) (c_prop c)). ssplit; auto.
  - unfold spec_add_index, cal_map. destruct Cases as [F | (F & Nn & P)].
    + left. destruct (find_name_spec _ _ _ F) as (Li & Ni & Pi).
      destruct (cal_named_true _ _ Ni) as (x & Ex & Nx). exists x. ssplit; auto.
      intros j c' Hj Ej. apply cal_named_false. rewrite <- Ej. apply Pi. auto.
    + right. ssplit; auto. intros j c' Ej. apply cal_named_false. rewrite <- Ej.
      apply find_name_none. auto.
  - intros j. unfold cal_map, map_set. rewrite Cals. rewrite nth_upd.
    destruct (Nat.eqb_spec j i); simpl.
    + destruct (Nat.ltb_spec i (length l)); try lia. reflexivity.
    + apply Same.
Qed.

(* ================================================================== concrete witnesses *)
Definition held_script : list op :=
  [OMakeScalar (32, 0)%Z 0; ONewAlloc 0 0 1 1; OSetFreq 0 1; OAddStd 0 [3%Z] [(32, 0)%Z]].

Example deleted_while_held_example :
  let s := run_state held_script in
  st_freed s = false /\ (exists p, get_param (st_pt s) 3 = Some (3, p)) /\
  (exists v, get_new s 0 = Some v /\ In 3 (vn_params v)).
Proof.
  vm_compute. ssplit; auto.
  - eexists; reflexivity.
  - eexists. split; [reflexivity|]. simpl. auto.
Qed.

Example handles_unique_example :
  exists s', step (run_state held_script) (OMakeUnknown 3 0) = (s', ok_int 4).
Proof. eexists. vm_compute. reflexivity. Qed.

Example values_as_supplied_example :
  exists s', step st_initial (OMakeVector [1; 2; 3]%Z [(5, 6); (7, 8); (9, 10)]%Z 0) = (s', ok_int 3) /\
             get_value (st_pt s') 3 2 = mkOut (RValue (7, 8)%Z) ENone 0.
Proof. eexists. vm_compute. split; reflexivity. Qed.

Example add_existing_name_example :
  let s := fst (step (run_state d8_script) (OAddCal 0 2)) in
  st_freed s = false /\ find_name (st_cals s) 1 = Some 0 /\ find_name (st_cals s) 2 = Some 1.
Proof. vm_compute. auto. Qed.

Example delete_one_slot_example :
  let s := fst (step (run_state d8_script) (OAddCal 0 2)) in
  exists s', step s (ODelCal 0) = (s', ok_int 0) /\ snd (step s' OEnd) = ok_int 2.
Proof. eexists. vm_compute. split; reflexivity. Qed.

(* ================================================================== a live scalar / vector parameter keeps its value *)
Definition keeps (t t' : ptable) (h : nat) : Prop :=
  forall p, slot t h = Some p -> p_deleted p = false -> other_of (p_kind p) = None ->
  exists k, slot t' h = Some (mkParam (p_kind p) false k).

Lemma keeps_refl : forall t h, keeps t t h.
Proof. intros t h p S D O. destruct p; simpl in *; subst; eauto. Qed.

Lemma shk_keeps : forall t t' h, shk t t' -> keeps t t' h.
Proof.
  intros t t' h H p S D O. specialize (H h). rewrite S in H. destruct (slot t' h) as [q|]; [|tauto].
  destruct H as (Dq & Kq & _). specialize (Kq O). destruct q as [qk qd qh]; simpl in *. subst qk.
  rewrite D in Dq. subst qd. eauto.
Qed.

Lemma finish_make_keeps : forall s k fl after h,
  inv_table (st_pt s) ->
  (after = (fun t => t)) \/ (exists o, after = (fun t => hold t o)) ->
  keeps (st_pt s) (st_pt (fst (finish_make s (alloc_param (st_pt s) k fl) after))) h.
Proof.
  intros s k fl after h I Ha p S D O. unfold finish_make.
  destruct (alloc_param (st_pt s) k fl) as [t' hn|t'|] eqn:A; simpl.
  - destruct (alloc_ok_spec _ _ _ _ _ I A) as (N & _ & Same & _).
    assert (Ne : h <> hn) by (intro; subst; congruence).
    assert (S' : slot t' h = Some p) by (rewrite Same; auto).
    destruct Ha as [->|(o & ->)].
    + destruct p; simpl in *; subst; eauto.
    + destruct (Nat.eq_dec h o) as [->|No].
      * rewrite (slot_hold_eq t' o p S'). rewrite D. eauto.
      * rewrite slot_hold_neq by auto. rewrite S'. destruct p; simpl in *; subst; eauto.
  - destruct (alloc_fail_spec _ _ _ _ I A) as (Same & _). rewrite Same, S.
    destruct p; simpl in *; subst; eauto.
  - rewrite S. destruct p; simpl in *; subst; eauto.
Qed.

Lemma step_keeps_value : forall s o h,
  st_freed s = false -> Good s -> o <> OFree -> o <> ODeleteParam (Z.of_nat h) ->
  keeps (st_pt s) (st_pt (fst (step s o))) h.
Proof.
  intros s o h Fr G NF ND. pose proof G as [I P R N AC].
  unfold step, step_gen. rewrite Fr. simpl negb.
  change (alloc_param_gen true) with alloc_param.
  destruct o; try congruence.
  - destruct (val_eqb g (0, 0)%Z); [apply keeps_refl|].
    destruct (val_eqb g (64, 0)%Z); [apply keeps_refl|].
    destruct (val_eqb g (-64, 0)%Z); [apply keeps_refl|]. apply finish_make_keeps; auto.
  - destruct fs as [|f0 fs']; [apply keeps_refl|].
    destruct ((f0 <? 0)%Z || negb (ascending (f0 :: fs')))%bool; [apply keeps_refl|].
    destruct (length gs <? length (f0 :: fs')); [apply keeps_refl|].
    apply finish_make_keeps; auto.
  - destruct (get_param (st_pt s) h0) as [[n p]|]; [|apply keeps_refl]. apply finish_make_keeps; eauto.
  - destruct (get_param (st_pt s) h0) as [[n0 p]|]; [|apply keeps_refl].
    destruct (n <? 1)%Z; [apply keeps_refl|].
    destruct (negb (1 <? n)%Z); [apply finish_make_keeps; eauto|].
    destruct sf as [sfv|].
    { destruct (negb (Z.of_nat (length sfv) =? n)%Z); [apply keeps_refl|].
      destruct (existsb (fun f => (f <? 0)%Z) sfv || negb (ascending sfv))%bool; [apply keeps_refl|].
      match goal with |- context [if ?b then (s, fail_usage) else _] => destruct b end; [apply keeps_refl|].
      apply finish_make_keeps; eauto. }
    match goal with |- context [if negb ?b then _ else _] => destruct b end; [|apply keeps_refl].
    simpl negb. cbv iota. apply finish_make_keeps; eauto.
  - (* delete of another handle *)
    destruct ((0 <=? h0)%Z && (h0 <? 3)%Z)%bool eqn:H3; [apply keeps_refl|].
    destruct (get_param (st_pt s) h0) as [[n p]|] eqn:Gp; [|apply keeps_refl].
    destruct (get_param_some _ _ _ _ Gp) as (Sn & Dn & En & Hh).
    assert (Nh : h <> n) by (intro; subst; apply ND; rewrite Z2Nat.id; auto).
    destruct (delete_release (st_pt s) n p) as [t1 f1] eqn:E. destruct f1; [apply keeps_refl|].
    simpl. intros q S D O. unfold delete_release, release_top in E.
    destruct (release_keeps _ _ _ _ _ E) as (A & _).
    apply (A h q); auto. rewrite slot_set_slot. destruct (Nat.eqb_spec h n); try congruence. auto.
  - (* get_value *) apply keeps_refl.
  - (* new_alloc *)
    destruct (nth_error (st_news s) id) as [[v|]|]; try apply keeps_refl.
    destruct ((dim <? 1)%Z || negb (type_valid ty))%bool; [apply keeps_refl|].
    simpl. apply shk_keeps, shk_hold.
  - destruct (get_new s id) as [v|]; [|apply keeps_refl].
    destruct ((0 <? vn_nf v) && (f0 <? 0)%Z)%bool; [apply keeps_refl|].
    match goal with |- context [if ?b then _ else _] => destruct b end; apply keeps_refl.
  - (* add standard *)
    destruct (get_new s id) as [v|] eqn:Gn; [|apply keeps_refl].
    match goal with |- context [if negb ?b then (s, fail_usage) else _] => destruct b end;
      simpl negb; cbv iota; [|apply keeps_refl].
    pose proof (get_new_lt _ _ _ Gn) as Lt.
    assert (R0 : RI (st_pt s) (fun x => vc (upd (st_news s) id None) x + cnt (vn_params v) x)).
    { eapply RI_ext; [|exact R]. intros x.
      pose proof (vc_upd (st_news s) id None x Lt) as X. unfold get_new in Gn. rewrite Gn in X.
      simpl in X. lia. }
    destruct (vn_get_params (st_pt s) v hs) as [[t1 v1] ok] eqn:E.
    destruct (vn_get_params_ok _ _ _ _ _ _ _ I R0 E) as (_ & _ & K1 & _).
    destruct ok; simpl; apply shk_keeps; auto.
  - (* solve *)
    destruct (get_new s id) as [v|]; [|apply keeps_refl].
    destruct (negb (vn_fvalid v)); [apply keeps_refl|].
    destruct (negb oracle_ok && (0 <? vn_nf v))%bool; [apply keeps_refl|].
    simpl. destruct (write_back_fold_good (vn_unknowns v) (st_pt s) v _ I R) as (_ & _ & K1).
    apply shk_keeps. auto.
  - destruct (get_new s id) as [v|]; [|apply keeps_refl].
    destruct (vn_cal v); [|apply keeps_refl].
    destruct (add_slot (st_cals s) name) as [l i]. simpl. apply keeps_refl.
  - destruct (cal_at (st_cals s) ci); apply keeps_refl.
  - destruct (find_name (st_cals s) name); apply keeps_refl.
  - destruct (cal_at (st_cals s) ci); apply keeps_refl.
  - apply keeps_refl.
  - destruct (Z.eqb ci (-1)); [apply keeps_refl|]. destruct (cal_at (st_cals s) ci); apply keeps_refl.
  - destruct (Z.eqb ci (-1)); [apply keeps_refl|]. destruct (cal_at (st_cals s) ci); apply keeps_refl.
  - (* new_free *)
    destruct (get_new s id) as [v|] eqn:Gn; [|apply keeps_refl].
    pose proof (get_new_lt _ _ _ Gn) as Lt.
    assert (R0 : RI (st_pt s) (fun x => vc (upd (st_news s) id None) x + cnt (vn_params v) x)).
    { eapply RI_ext; [|exact R]. intros x.
      pose proof (vc_upd (st_news s) id None x Lt) as X. unfold get_new in Gn. rewrite Gn in X.
      simpl in X. lia. }
    destruct (release_all_ok _ _ _ I R0) as (t' & E & _ & _ & K').
    rewrite E. simpl. intros q S D O. apply (K' h q); auto.
Qed.

Definition not_free_or_delete (h : nat) (o : op) : Prop := o <> OFree /\ o <> ODeleteParam (Z.of_nat h).

(* over a whole history: as long as the handle is not deleted and the vnacal_t not freed, the
   value vnacal_get_parameter_value returns for a scalar or vector parameter does not change *)
Lemma value_stable_run : forall ops s h p,
  Inv s -> st_freed s = false ->
  slot (st_pt s) h = Some p -> p_deleted p = false -> other_of (p_kind p) = None ->
  Forall (not_free_or_delete h) ops ->
  let s' := fst (run s ops) in
  st_freed s' = false /\ forall f, get_value (st_pt s') (Z.of_nat h) f = get_value (st_pt s) (Z.of_nat h) f.
Proof.
  induction ops as [|o r IH]; intros s h p HI Fr S D O HF; simpl.
  - auto.
  - inversion HF as [|? ? (NF & ND) HF']; subst.
    pose proof (proj1 (Inv_Good s Fr) HI) as G.
    destruct (step_good s o Fr G NF) as (G1 & Fr1 & _).
    pose proof (step_keeps_value s o h Fr G NF ND p S D O) as (k & S1).
    destruct (step s o) as [s1 x1] eqn:E. simpl in *.
    assert (HI1 : Inv s1) by (apply Inv_Good; auto).
    destruct (IH s1 h _ HI1 Fr1 S1 eq_refl O HF') as (A & B).
    destruct (run s1 r) as [s2 xs]. simpl in *. split; auto.
    intros f. rewrite B. unfold get_value, get_param.
    destruct (Z.ltb_spec (Z.of_nat h) 0); try lia. rewrite Nat2Z.id, S1, S, D. simpl. reflexivity.
Qed.
