(* C16: correlated parameters with their OWN sigma frequency grid (review round 2, MEDIUM 1).  The model
   (CalTabModel: KCorrelated o sf sv, OMakeCorrelated h n sf, frange_c = clamp_range (sigma_at t h) (frange ..))
   and the specification (TableSpec.in_range, with the same clamp) now cover them; every theorem of
   Properties_C16.v about acceptable / rejected standards is proved at that scope.  Here: the clamp is C10's
   frange_clamp (Gen/RangeGen.v, regenerated from the C text) on the integers of this model, what a successful
   make_correlated with an own grid stores, and a reachable witness of the review's reproducer. *)
Require Import List ZArith QArith Bool Lia.
Import ListNotations.
Require Import LV.Interp.QOrd LV.Interp.FrangeBase LV.Gen.RangeGen.
Require Import LV.CalTab.CalTabModel LV.CalTab.TableSpec LV.CalTab.CalTabProofs LV.CalTab.CalTabWalks.
Open Scope Z_scope.

Definition xz (z : Z) : xq := Fin (inject_Z z).
Definition xrange (r : option (Z * Z)) : xq * xq :=
  match r with Some (a, b) => (xz a, xz b) | None => (xz 0, Inf) end.

Lemma Qltb_inject : forall a b, Qltb (inject_Z a) (inject_Z b) = (a <? b).
Proof.
  intros a b. unfold Qltb. destruct (Z.ltb_spec a b) as [H|H].
  - apply negb_true_iff. destruct (Qle_bool (inject_Z b) (inject_Z a)) eqn:E; [|reflexivity].
    apply Qle_bool_iff in E. rewrite <- Zle_Qle in E. lia.
  - apply negb_false_iff. apply Qle_bool_iff. rewrite <- Zle_Qle. lia.
Qed.

(* the clamp of the model is the regenerated frange_clamp on the sigma grid's first and last entries *)
Lemma clamp_range_is_frange_clamp : forall fs r,
  xrange (clamp_range (Some fs) r) = frange_clamp (xz (hd 0 fs)) (xz (last fs 0)) (fst (xrange r)) (snd (xrange r)).
Proof.
  intros fs [[a b]|]; unfold clamp_range, frange_clamp, xrange, xz, fst, snd, xltb.
  - rewrite !Qltb_inject. destruct (a <? hd 0 fs), (last fs 0 <? b); reflexivity.
  - rewrite Qltb_inject. destruct (0 <? hd 0 fs); reflexivity.
Qed.

Lemma clamp_range_none : forall r, clamp_range None r = r.
Proof. reflexivity. Qed.

(* reachable witness (the review's reproducer): vector 3 over 1..5, unknown 4 on it, correlated 5 with the own
   grid 2, 3, 4 and correlated 6 with a NULL grid; a vnacal_new_t over 1..5 refuses a standard naming 5 (range
   2..4) with the whole state unchanged and adds one naming 6; a vnacal_new_t over 2..4 adds both *)
Definition sigma_script : list op :=
  [OMakeVector [1; 2; 3; 4; 5] [(10, 0); (20, 0); (30, 0); (40, 0); (50, 0)] 0; OMakeUnknown 3 0;
   OMakeCorrelated 4 3 (Some [2; 3; 4]) 0; OMakeCorrelated 4 5 None 0;
   ONewAlloc 0 0 1 5; OSetFreq 0 1; ONewAlloc 1 0 1 3; OSetFreq 1 2].
Example sigma_example :
  let s := run_state sigma_script in
  Inv s /\ st_freed s = false /\
  sigma_at (st_pt s) 5 = Some [2; 3; 4] /\ sigma_at (st_pt s) 6 = None /\
  frange_c (S (length (pt_slots (st_pt s)))) (st_pt s) 5 = Some (2, 4) /\
  frange_c (S (length (pt_slots (st_pt s)))) (st_pt s) 6 = Some (1, 5) /\
  step s (OAddStd 0 [5] [(1, 1); (1, 1); (1, 1); (1, 1); (1, 1)]) = (s, fail_usage) /\
  (exists s', step s (OAddStd 0 [6] [(1, 1); (1, 1); (1, 1); (1, 1); (1, 1)]) = (s', ok_int 0)) /\
  (exists s', step s (OAddStd 1 [5] [(1, 1); (1, 1); (1, 1)]) = (s', ok_int 0)) /\
  (* refused grids: disjoint with the vector initial guess, negative, not ascending *)
  step s (OMakeCorrelated 4 2 (Some [6; 9]) 0) = (s, fail_usage) /\
  step s (OMakeCorrelated 4 2 (Some [-1; 3]) 0) = (s, fail_usage) /\
  step s (OMakeCorrelated 4 2 (Some [3; 3]) 0) = (s, fail_usage).
Proof.
  split; [apply (proj1 (run_inv _ st_initial inv_initial))|].
  vm_compute. repeat split; try reflexivity; eexists; reflexivity.
Qed.
