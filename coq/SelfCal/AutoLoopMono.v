(* Monotonicity of the control skeleton of _vnacal_new_solve_auto (SelfCal/AutoLoop.v) in the
   tolerances, for every kernel: the iteration is deterministic and p_tolerance / et_tolerance enter
   only the convergence test, so a run that converges with tolerances (ptol, ettol) also converges,
   in at most as many passes, with any looser pair.  (Review R3: this is requirement (ii) of the
   perturbed-data family of checks/c02_perturbed.py as a theorem of the model; the converse --
   tightening keeps success -- is false of the code in binary64, known finding DE90, and is not
   claimed.) *)
Require Import QArith Qcanon List Lia Arith Bool.
Import ListNotations.
Require Import LV.SelfCal.AutoLoop.
Local Open Scope Qc_scope.

Lemma Qc_lebb_true x y : Qc_lebb x y = true <-> x <= y.
Proof.
  unfold Qc_lebb. destruct (Qclt_le_dec y x) as [H|H]; split; intros E; try discriminate; auto.
  exfalso. exact (Qclt_not_le _ _ H E).
Qed.

Lemma Qc_sq_mono a b : 0 <= a -> a <= b -> a * a <= b * b.
Proof.
  intros Ha Hab. assert (Hb : 0 <= b) by (apply Qcle_trans with a; assumption).
  apply Qcle_trans with (a * b).
  - replace (a * a) with (a * a) by ring. replace (a * b) with (b * a) by ring.
    apply Qcmult_le_compat_r; assumption.
  - apply Qcmult_le_compat_r; assumption.
Qed.

Section Mono.
Variables P X KD D : Type.
Variable solve_x : nat -> P -> option (X * KD).
Variable sumk : KD -> Qc.
Variable step : nat -> KD -> Qc -> option D.
Variable apply_step : P -> D -> P.
Variable normd : D -> Qc.
Variable normdx : X -> X -> Qc.
Variables plen xlen : Qc.
Variable limit : nat.
Variables ptol ettol ptol' ettol' : Qc.
Hypothesis Hp0 : 0 <= ptol.
Hypothesis Hp : ptol <= ptol'.
Hypothesis He0 : 0 <= ettol.
Hypothesis He : ettol <= ettol'.

Notation loopT := (loop P X KD D solve_x sumk step apply_step normd normdx ptol ettol plen xlen limit).
Notation loopL := (loop P X KD D solve_x sumk step apply_step normd normdx ptol' ettol' plen xlen limit).

Lemma loop_tolerance_monotone fuel : forall it s x p,
  fst (loopT fuel it s) = Converged x p ->
  exists x' p', fst (loopL fuel it s) = Converged x' p' /\
                (length (snd (loopL fuel it s)) <= length (snd (loopT fuel it s)))%nat.
Proof.
  induction fuel as [|f IH]; intros it s x0 p0; [simpl; discriminate|].
  simpl.
  destruct (solve_x it (cur_p P X KD s)) as [[x kd]|]; simpl; [|discriminate].
  match goal with |- context [step it ?k ?l] => destruct (step it k l) as [d|]; simpl; [|discriminate] end.
  match goal with |- context [if (?b && Qc_lebb ?a1 (ptol * ptol) && Qc_lebb ?a2 (ettol * ettol)) then _ else _] =>
    set (A1 := a1); set (A2 := a2); set (bb := b) end.
  assert (Himp : bb && Qc_lebb A1 (ptol * ptol) && Qc_lebb A2 (ettol * ettol) = true ->
                 bb && Qc_lebb A1 (ptol' * ptol') && Qc_lebb A2 (ettol' * ettol') = true).
  { intros H. apply andb_prop in H as [H H2]. apply andb_prop in H as [H0 H1].
    rewrite H0. simpl. apply andb_true_intro. split; apply Qc_lebb_true.
    - apply Qc_lebb_true in H1. apply Qcle_trans with (ptol * ptol); [exact H1|apply Qc_sq_mono; assumption].
    - apply Qc_lebb_true in H2. apply Qcle_trans with (ettol * ettol); [exact H2|apply Qc_sq_mono; assumption]. }
  destruct (bb && Qc_lebb A1 (ptol * ptol) && Qc_lebb A2 (ettol * ettol)) eqn:ET.
  - rewrite (Himp eq_refl). simpl. intros _. eexists; eexists; split; [reflexivity|simpl; lia].
  - destruct (bb && Qc_lebb A1 (ptol' * ptol') && Qc_lebb A2 (ettol' * ettol')) eqn:EL; simpl.
    + destruct (Nat.leb limit it); simpl; [discriminate|].
      match goal with |- context [loopT f ?i ?t] => destruct (loopT f i t) as [o tr] end.
      simpl. intros _. eexists; eexists; split; [reflexivity|simpl; lia].
    + destruct (Nat.leb limit it); simpl; [discriminate|].
      match goal with |- context [loopT f ?i ?t] =>
        specialize (IH i t x0 p0); destruct (loopT f i t) as [o tr]; destruct (loopL f i t) as [o' tr'] end.
      simpl in *. intros H. destruct (IH H) as (x' & p' & E & L). exists x', p'. split; [exact E|lia].
Qed.

Theorem auto_run_tolerance_monotone (p0 : P) x p :
  fst (auto_run P X KD D solve_x sumk step apply_step normd normdx ptol ettol plen xlen limit p0) = Converged x p ->
  exists x' p',
    fst (auto_run P X KD D solve_x sumk step apply_step normd normdx ptol' ettol' plen xlen limit p0) = Converged x' p' /\
    (length (snd (auto_run P X KD D solve_x sumk step apply_step normd normdx ptol' ettol' plen xlen limit p0)) <=
     length (snd (auto_run P X KD D solve_x sumk step apply_step normd normdx ptol ettol plen xlen limit p0)))%nat.
Proof. unfold auto_run. apply loop_tolerance_monotone. Qed.
End Mono.
