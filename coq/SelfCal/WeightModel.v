(* Measurement-error weights: _vnacal_new_solve_calc_weights (src/vnacal_new_solve.c) and the
   indices with which _vnacal_new_solve_simple and _vnacal_new_solve_auto read the vector,
   the degrees-of-freedom count of _vnacal_new_solve_calc_pvalue, and the weighted least-squares
   cost.  No proofs in this file.

   The equations of a calibration are a list of systems, each a list of equations; all the model
   needs of an equation is the (leakage-corrected) measurement value of its own cell,
   vnmm_m_matrix[vne_row * m_columns + vne_column] of its own standard.

   Two variants of the two index computations are modelled, selected by booleans, so that the
   model can follow either form of the source; which form the working tree has is decided by the
   white-box correspondence on every run:
     restart = true   "int k = 0;" inside the loop over systems (k restarts in every system)
     restart = false  one running k over all systems
     offset  = false  solve_simple reads w_vector[eq_count]
     offset  = true   solve_simple reads w_vector[w_offset + eq_count]
   solve_auto always reads w_vector[equation] with one running counter. *)
Require Import List Arith ZArith QArith Qcanon.
Import ListNotations.
Require Import LV.Lin.MatL.

Section W.
Variable M : Type.            (* measurement values *)
Variable R : Type.            (* weights *)
Variable wt : M -> R.         (* 1 / sqrt(nf^2 + tr^2 |m|^2): ABSTRACT here -- the theorems about this
                                 section are about which measurement a weight was computed from and
                                 which element a consumer reads, not about the formula; the formula
                                 (and the same expression as chi-square divisor in calc_pvalue) is
                                 compared numerically by the white-box tie only *)
Variable r0 : R.              (* 0.0 from calloc *)

Definition systems := list (list M).

Definition total (sys : systems) : nat := fold_right (fun e n => length e + n)%nat 0%nat sys.
(* index of the first equation of system s in one running count *)
Definition offset_of (sys : systems) (s : nat) : nat := total (firstn s sys).

(* w_vector[k++] = weight(m) for the equations of one system, starting at k *)
Fixpoint fill (w : list R) (k : nat) (eqs : list M) : list R * nat :=
  match eqs with
  | [] => (w, k)
  | m :: r => fill (upd w k (wt m)) (S k) r
  end.

Fixpoint fill_systems (restart : bool) (w : list R) (k : nat) (sys : systems) : list R :=
  match sys with
  | [] => w
  | eqs :: r => let '(w', k') := fill w (if restart then 0%nat else k) eqs in fill_systems restart w' k' r
  end.

Definition calc_weights (restart : bool) (sys : systems) : list R :=
  fill_systems restart (repeat r0 (total sys)) 0%nat sys.

(* the element the consumers multiply equation e of system s with *)
Definition simple_index (offset : bool) (sys : systems) (s e : nat) : nat :=
  ((if offset then offset_of sys s else 0) + e)%nat.
Definition auto_index (sys : systems) (s e : nat) : nat := (offset_of sys s + e)%nat.

Definition weight_simple (restart offset : bool) (sys : systems) (s e : nat) : R :=
  nth (simple_index offset sys s e) (calc_weights restart sys) r0.
Definition weight_auto (restart : bool) (sys : systems) (s e : nat) : R :=
  nth (auto_index sys s e) (calc_weights restart sys) r0.

(* the weight the equation should get: that of its own measurement *)
Definition own_weight (m0 : M) (sys : systems) (s e : nat) : R := wt (nth e (nth s sys []) m0).

(* ---- w_offset of _vnacal_new_solve_simple as the loop computes it ----
     int w_offset = 0;
     for (sindex = 0; sindex < vn_systems; ++sindex) {
         const int equations = vnsp->vns_equation_count;      (per system: the counts may differ)
         ... w_vector[w_offset + eq_count] ...
         w_offset += equations;
     }
   running_offsets k sys is the list of the values w_offset has at the top of the loop body.  The
   closed form "sindex * equations" (equations = the count of the CURRENT system) is a model
   variant: it agrees with the loop only when all the earlier systems have that same count. *)
Fixpoint running_offsets (k : nat) (sys : systems) : list nat :=
  match sys with
  | [] => []
  | eqs :: r => k :: running_offsets (k + length eqs)%nat r
  end.
Definition simple_index_loop (sys : systems) (s e : nat) : nat :=
  (nth s (running_offsets 0%nat sys) 0 + e)%nat.
Definition simple_index_closed (sys : systems) (s e : nat) : nat :=
  (s * length (nth s sys []) + e)%nat.
Definition weight_simple_loop (sys : systems) (s e : nat) : R :=
  nth (simple_index_loop sys s e) (calc_weights false sys) r0.
Definition weight_simple_closed (sys : systems) (s e : nat) : R :=
  nth (simple_index_closed sys s e) (calc_weights false sys) r0.
End W.

(* ---- degrees of freedom, as coded in _vnacal_new_solve_calc_pvalue ---- *)
Section Dof.
Local Open Scope Z_scope.
(* per system: df += 2 for every equation, then df -= 2 * (vl_t_terms - 1);
   per off-diagonal leakage cell with more than one sample: df += 2 * (count - 1)
   ("if (ltp->vnlt_count > 1)": cells with 0 samples and cells with 1 sample add nothing) *)
Definition dof_systems (unknowns : Z) (eq_counts : list Z) : Z :=
  fold_left (fun df n => df + 2 * n - 2 * unknowns) eq_counts 0.
Definition dof_leakage (counts : list Z) (df : Z) : Z :=
  fold_left (fun df n => if Z.ltb 1 n then df + 2 * (n - 1) else df) counts df.
Definition dof (unknowns : Z) (eq_counts leak_counts : list Z) : Z :=
  dof_leakage leak_counts (dof_systems unknowns eq_counts).
Definition zsum (l : list Z) : Z := fold_right Z.add 0 l.

(* vnlt_count of one off-diagonal cell as _vnacal_new_solve_start_frequency accumulates it: one
   sample for every standard whose measurement of the cell was given and that has no signal path
   between the two ports ("if (m == NULL) continue; if (connectivity) continue; ++vnlt_count").
   A standard is (given, connected) for the cell.  The count is 0 when every standard connects
   the two ports. *)
Definition leak_count (stds : list (bool * bool)) : Z :=
  fold_left (fun n gc => if (fst gc && negb (snd gc))%bool then n + 1 else n) stds 0.
(* df from the per-cell lists of standards *)
Definition dof_of_standards (unknowns : Z) (eq_counts : list Z) (cells : list (list (bool * bool))) : Z :=
  dof unknowns eq_counts (map leak_count cells).
(* model variant: "df += 2 * (n - 1)" applied to every cell, whatever its count (subtracts two
   degrees of freedom for every cell without samples) *)
Definition dof_leakage_unguarded (counts : list Z) (df : Z) : Z :=
  fold_left (fun df n => df + 2 * (n - 1)) counts df.
End Dof.

(* ---- the end of _vnacal_new_solve_calc_pvalue and the test in _vnacal_new_solve_internal ----
     "if (df < 1) return 1.0;"          (no degrees of freedom: nothing to test; 1.0 since fix D59,
                                          the code returned 0.0 before)
     "return chisq_pvalue(df, chisq);"   the chi-square tail function is a parameter (not modelled)
     "if (pvalue < vn_pvalue_limit) -> EDOM"   with 0 < vn_pvalue_limit <= 1 (vnacal_new_set_pvalue_limit) *)
Section Pvalue.
Variable tail : Z -> Qc -> Qc.
Definition pvalue_of (df : Z) (chisq : Qc) : Qc := if Z.ltb df 1 then 1%Qc else tail df chisq.
Definition rejected (pvalue limit : Qc) : bool := if Qclt_le_dec pvalue limit then true else false.
End Pvalue.
