(* The bridge from exact data (ExactOverModel.data_exact) to the p-value theorems of session 4
   (PvalueProofs.fits): the residual _vnacal_new_solve_calc_pvalue computes for every equation, on ANY
   final V state, is zero at the truth; hence chi-square 0, p-value 1, never rejected, for every
   number of degrees of freedom -- and, composed with exact_data_fixed_point, end to end. *)
Require Import List Arith Bool QArith Qcanon Lia.
Import ListNotations.
Require Import LV.Base.CField LV.SelfCal.PvalueModel LV.SelfCal.PvalueProofs LV.SelfCal.GuardModel LV.SelfCal.LsqModel.
Require Import LV.SelfCal.VMatrixModel LV.SelfCal.ExactOverModel LV.SelfCal.ExactOverProofs.
Local Open Scope nat_scope.

Section B.
Variable K : CField.
Add Field Kf_eopv : (cth K).
Variable ofq : Qc -> K.

Notation ksum := (ksum K).
Notation residual := (residual K c0 c1 cadd cmul copp).
Notation term_value := (term_value K c0 c1 cmul copp).

Lemma fold_left_ksum {A} (f : A -> K) l : forall a,
  fold_left (fun r t => cadd r (f t)) l a = cadd a (ksum (map f l)).
Proof.
  induction l as [|t l IH]; intros a; cbn [fold_left map ExactOverModel.ksum]; [ring|]. rewrite IH. ring.
Qed.

(* the sum of the contributions of the terms the iterator walks is zero for every V and weight *)
Lemma eq_contrib_zero p x e vm w : eq_exact K ofq p x e ->
  ksum (map (contrib K (term_coef K ofq (std_of K p e) vm w) x)
            (eq_terms (v_n K p) (match vm with Some _ => true | None => false end) e)) = c0.
Proof.
  intros Hex. set (sd := std_of K p e).
  rewrite (map_ext _ (fun t => cmul (term_res K ofq sd x t) (vw_factor K ofq vm w (vt_v t))))
    by (intros t; apply contrib_factor).
  unfold eq_terms. destruct vm as [V|].
  - apply (regroup K (term_res K ofq sd x) (vw_factor K ofq (Some V) w) (length (ve_terms e))); [lia|].
    intros c. apply (Hex c).
  - rewrite (ksum_filter_ind K (fun t => cmul (term_res K ofq sd x t) (vw_factor K ofq None w (vt_v t)))).
    rewrite (map_ext _ (fun t => cmul (term_res K ofq sd x t)
               (cmul (vw_factor K ofq None w (vt_v t))
                     (if Nat.eqb (vt_v t mod (v_n K p + 1)) 0 then c1 else c0))))
      by (intros t; ring).
    apply (regroup K (term_res K ofq sd x)
             (fun c => cmul (vw_factor K ofq None w c) (if Nat.eqb (c mod (v_n K p + 1)) 0 then c1 else c0))
             (length (ve_terms e))); [lia|].
    intros c. apply (Hex c).
Qed.

(* the term of calc_pvalue = the contribution of the same term to (row . x - b), unweighted *)
Lemma term_value_contrib sd vm X off xb t :
  (forall i, vt_x t = Some i -> nth (off + i) X c0 = nth i xb c0) ->
  term_value X off (pv_term K sd vm t) = contrib K (term_coef K ofq sd vm None) xb t.
Proof.
  intros Hx. unfold PvalueModel.term_value, pv_term, contrib, term_coef, facn, fac. cbn.
  destruct (vt_x t) as [i|]; [rewrite (Hx i eq_refl)|];
    destruct (vt_m t), (vt_s t), vm; cbn; ring.
Qed.

Lemma nth_concat_block (u : nat) : forall (xs : list (list K)) s i,
  (forall b, In b xs -> length b = u) -> s < length xs -> i < u ->
  nth (s * u + i) (concat xs) c0 = nth i (nth s xs []) c0.
Proof.
  induction xs as [|b xs IH]; intros s i Hb Hs Hi; [simpl in Hs; lia|].
  pose proof (Hb b (or_introl eq_refl)) as Lb.
  destruct s as [|s]; cbn [concat nth].
  - rewrite app_nth1 by lia. reflexivity.
  - rewrite app_nth2 by (rewrite Lb; lia).
    replace (S s * u + i - length b) with (s * u + i) by (rewrite Lb; lia).
    apply IH; [intros b' Hb'; apply Hb; right; exact Hb' | simpl in Hs; lia | exact Hi].
Qed.

Section Data.
Variable p : vprob K.
Variable xs : list (list K).
Hypothesis Hblocks : blocks_wf K p xs.
Hypothesis Hexact : data_exact K ofq p xs.

(* THE RESIDUAL OF EVERY EQUATION IS ZERO on every V state *)
Lemma residual_zero st s es e : nth_error (vp_systems p) s = Some es -> In e es ->
  residual (concat xs) (s * vp_unknowns p) (pv_equation K p st s e) = c0.
Proof.
  intros Hes He. destruct (Hexact s es e Hes He) as (Hwf & Hex).
  assert (Hs : s < length (vp_systems p)) by (apply nth_error_Some; congruence).
  destruct Hblocks as (Lx & Hb).
  unfold PvalueModel.residual, pv_equation. cbn [e_terms].
  rewrite fold_left_ksum, map_map.
  set (vm := eq_vmat K st s e).
  rewrite (map_ext_in _ (contrib K (term_coef K ofq (std_of K p e) vm None) (nth s xs []))).
  - rewrite (eq_contrib_zero p (nth s xs []) e vm None Hex). ring.
  - intros t Ht. apply term_value_contrib. intros i Hi.
    apply nth_concat_block; [exact Hb | lia|].
    apply (Hwf t i); [|exact Hi].
    unfold eq_terms in Ht. destruct vm; [exact Ht | apply filter_In in Ht; tauto].
Qed.

Lemma fits_from sindex : forall syss st, skipn sindex (vp_systems p) = syss ->
  Forall (fun se => Forall (fun e => residual (concat xs) (fst se * vp_unknowns p) e = c0) (snd se))
         (number sindex (pv_systems K p st sindex syss)).
Proof.
  intros syss. revert sindex. induction syss as [|es r IH]; intros sindex st Hsk; cbn [pv_systems number]; [constructor|].
  destruct (skipn_cons_nth _ _ _ _ Hsk) as (Hes & Hr).
  constructor; [|apply IH; exact Hr].
  cbn [fst snd]. apply Forall_forall. intros e' He'. apply in_map_iff in He'. destruct He' as (e & <- & He).
  apply (residual_zero st sindex es e Hes He).
Qed.

(* EXACT DATA FIT: PvalueProofs.fits for the systems as calc_pvalue walks them, on EVERY V state *)
Lemma exact_data_fits st :
  fits K c0 c1 cadd cmul copp (vp_unknowns p) (concat xs) (pv_systems K p st 0 (vp_systems p)).
Proof. unfold fits. apply (fits_from 0 (vp_systems p) st eq_refl). Qed.
End Data.
End B.

(* END TO END on the models, core form (solver premise: solver_exact_on) *)
Theorem exact_data_never_rejected_end_to_end_core (K : CField) (N : K -> Qc) (rsqrt : Qc -> Qc) (ofq : Qc -> K)
  (minv : nat -> list K -> option (list K))
  (solve_sq solve_ls : nat -> list (list K) -> list K -> option (list K))
  (exp erfc sqrt : Qc -> Qc) (pi : Qc) :
  N c0 = 0%Qc ->
  forall (p : vprob K) (xs : list (list K)) (tol : Qc) (limit : nat) (xinit : list K) (st_prev : vstate K)
         (leak : option (list (lcell K))) (ms : mstate) (findex : nat) (plimit : Qc),
  blocks_wf K p xs -> data_exact K ofq p xs ->
  (forall es, In es (vp_systems p) -> vp_unknowns p <= length es) -> 2 <= limit ->
  full_rank_on K ofq minv p xs (calc_weights K N rsqrt p) (init_v_matrices K (v_n K p) st_prev) ->
  v_regular K minv p xs ->
  solver_exact_on K ofq minv solve_sq solve_ls p xs (calc_weights K N rsqrt p) (init_v_matrices K (v_n K p) st_prev) ->
  match leak with Some cells => Forall (leak_exact K N) cells | None => True end ->
  (plimit <= 1)%Qc ->
  exists st' ns,
    solve_frequency K N rsqrt ofq minv solve_sq solve_ls tol limit xinit st_prev p = SOk (concat xs, st', ns) /\
    forall nf tr,
    fst (calc_stat K c0 c1 cadd cmul copp N (vp_unknowns p) nf tr (concat xs)
                   (pv_systems K p st' 0 (vp_systems p)) leak) = 0%Qc /\
    calc_pvalue K c0 c1 cadd cmul copp N exp erfc sqrt pi (vp_unknowns p) nf tr (concat xs)
                (pv_systems K p st' 0 (vp_systems p)) leak = 1%Qc /\
    solve_rejects K c0 c1 cadd cmul copp N exp erfc sqrt pi ms plimit findex (vp_unknowns p) (concat xs)
                  (pv_systems K p st' 0 (vp_systems p)) leak = false.
Proof.
  intros Hn0 p xs tol limit xinit st_prev leak ms findex plimit Hb He Hc Hl Hr Hv Hsol Hleak Hpl.
  destruct (exact_data_fixed_point_core K N rsqrt ofq minv solve_sq solve_ls Hn0
              p xs tol limit xinit st_prev Hb He Hc Hl Hr Hv Hsol) as (st' & ns & E & _).
  exists st', ns. split; [exact E|]. intros nf tr.
  pose proof (exact_data_fits K ofq p xs Hb He st') as Hf.
  split; [apply (exact_data_chisq_zero K c0 c1 cadd cmul copp N Hn0); assumption|].
  split; [apply (exact_data_pvalue_one K c0 c1 cadd cmul copp N Hn0); assumption|].
  apply (exact_data_never_rejected K c0 c1 cadd cmul copp N Hn0); assumption.
Qed.

(* END TO END on the models: exact over-determined data, noise model on -> the solve returns the
   truth, and on the V state it ends with the statistic is 0, the p-value 1, and nothing is rejected
   at any limit <= 1, for every number of degrees of freedom *)
Theorem exact_data_never_rejected_end_to_end_l (K : CField) (N : K -> Qc) (rsqrt : Qc -> Qc) (ofq : Qc -> K)
  (minv : nat -> list K -> option (list K))
  (solve_sq solve_ls : nat -> list (list K) -> list K -> option (list K))
  (exp erfc sqrt : Qc -> Qc) (pi : Qc) :
  (forall z : K, (0 <= N z)%Qc) -> (forall z : K, N z = 0%Qc -> z = c0) -> N c0 = 0%Qc ->
  solver_spec K N solve_sq -> solver_spec K N solve_ls ->
  forall (p : vprob K) (xs : list (list K)) (tol : Qc) (limit : nat) (xinit : list K) (st_prev : vstate K)
         (leak : option (list (lcell K))) (ms : mstate) (findex : nat) (plimit : Qc),
  blocks_wf K p xs -> data_exact K ofq p xs ->
  (forall es, In es (vp_systems p) -> vp_unknowns p <= length es) -> 2 <= limit ->
  full_rank_on K ofq minv p xs (calc_weights K N rsqrt p) (init_v_matrices K (v_n K p) st_prev) ->
  v_regular K minv p xs ->
  match leak with Some cells => Forall (leak_exact K N) cells | None => True end ->
  (plimit <= 1)%Qc ->
  exists st' ns,
    solve_frequency K N rsqrt ofq minv solve_sq solve_ls tol limit xinit st_prev p = SOk (concat xs, st', ns) /\
    forall nf tr,
    fst (calc_stat K c0 c1 cadd cmul copp N (vp_unknowns p) nf tr (concat xs)
                   (pv_systems K p st' 0 (vp_systems p)) leak) = 0%Qc /\
    calc_pvalue K c0 c1 cadd cmul copp N exp erfc sqrt pi (vp_unknowns p) nf tr (concat xs)
                (pv_systems K p st' 0 (vp_systems p)) leak = 1%Qc /\
    solve_rejects K c0 c1 cadd cmul copp N exp erfc sqrt pi ms plimit findex (vp_unknowns p) (concat xs)
                  (pv_systems K p st' 0 (vp_systems p)) leak = false.
Proof.
  intros Hn1 Hn2 Hn0 Hsq Hls p xs tol limit xinit st_prev leak ms findex plimit Hb He Hc Hl Hr Hv Hleak Hpl.
  destruct (exact_data_fixed_point_l K N rsqrt ofq minv solve_sq solve_ls Hn1 Hn2 Hn0 Hsq Hls
              p xs tol limit xinit st_prev Hb He Hc Hl Hr Hv) as (st' & ns & E & _).
  exists st', ns. split; [exact E|]. intros nf tr.
  pose proof (exact_data_fits K ofq p xs Hb He st') as Hf.
  split; [apply (exact_data_chisq_zero K c0 c1 cadd cmul copp N Hn0); assumption|].
  split; [apply (exact_data_pvalue_one K c0 c1 cadd cmul copp N Hn0); assumption|].
  apply (exact_data_never_rejected K c0 c1 cadd cmul copp N Hn0); assumption.
Qed.
