(* The part of src/vnacommon_qr.c that Lin/QrModel.v does not model: the loop that forms the
   m x m matrix Q from the reflection vectors left in the array by _vnacommon_qrd, and the way
   _vnacal_new_solve_auto reads Q2 = the columns x_length .. equations-1 of it.  Over an abstract
   field with conjugation, as coded.  No proofs in this file.

     Q = I;
     for (diagonal = 0; diagonal < MIN(m, n); ++diagonal)
       for (i = 0; i < m; ++i) {
         s = 0;  for (j = diagonal; j < m; ++j) s += Q(i,j) * A(j,diagonal);
                 for (j = diagonal; j < m; ++j) Q(i,j) -= 2.0 * s * conj(A(j,diagonal)); }

   The step for one diagonal rewrites, in every row, the cells of the columns >= diagonal from the
   value of s computed on the row before the rewrite; it is rendered as one [mbuild] from the
   previous matrix with the C expressions and the C summation order. *)
Require Import List Arith Bool.
Import ListNotations.
Require Import LV.Base.CField LV.Lin.MatL.
Local Open Scope cf_scope.

Section FormQ.
Variable K : CField.
Notation mat := (mat K).

Definition formq_s (m : nat) (a q : mat) (d i : nat) : K :=
  fold_left (fun s j => s + mget K q i j * mget K a j d) (seq d (m - d)) 0.

Definition formq_step (m : nat) (a : mat) (q : mat) (d : nat) : mat :=
  mbuild K m m (fun i j =>
    if d <=? j then mget K q i j - two * formq_s m a q d i * cj (mget K a j d) else mget K q i j).

Definition formq_upto (m : nat) (a : mat) (cnt : nat) : mat :=
  fold_left (formq_step m a) (seq 0 cnt) (mident K m).

(* the Q of _vnacommon_qr, from the array left by _vnacommon_qrd *)
Definition qr_formq (m n : nat) (a : mat) : mat := formq_upto m a (Nat.min m n).

(* what solve_auto computes with it (x_length = n, p_equations = m - n), for a vector y of length m:
     for (k = 0; k < p_equations; ++k) acc[k] += conj(q_matrix[equation][x_length + k]) * y[equation]
   i.e. component k of Q2^H y; k_vector = q2h b, column u of j_matrix = - q2h (column u of A'(p) x) *)
Definition q2h (m n : nat) (q : mat) (y : nat -> K) (k : nat) : K :=
  fold_left (fun s e => s + cj (mget K q e (n + k)) * y e) (seq 0 m) 0.

(* sum over the p_equations rows of conj(first) * second: an entry of J^H J, J^H k (up to the
   signs of j_matrix) or k^H k *)
Definition q2_gram (m n : nat) (q : mat) (u v : nat -> K) : K :=
  fold_left (fun s k => s + cj (q2h m n q u k) * q2h m n q v k) (seq 0 (m - n)) 0.
End FormQ.
