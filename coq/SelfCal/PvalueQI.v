(* SelfCal/PvalueModel.v at the Gaussian rationals: executable instances (extracted for the white-box
   correspondence), a leakage cell whose samples are all equal has no scatter, and concrete states
   meeting the hypotheses of the theorems of PvalueProofs.v. *)
Require Import List ZArith QArith Qcanon Bool Lia.
Import ListNotations.
Require Import LV.Base.CField LV.Base.QcI.
Require Import LV.SelfCal.WeightModel LV.SelfCal.C18MErrorModel LV.SelfCal.PvalueModel LV.SelfCal.PvalueProofs.
Local Open Scope Qc_scope.

Definition q_weight2 := weight2 qi qi_nrm.
Definition q_residual := residual qi qi0 qi1 qi_add qi_mul qi_opp.
Definition q_calc_stat := calc_stat qi qi0 qi1 qi_add qi_mul qi_opp qi_nrm.
Definition q_calc_pvalue := calc_pvalue qi qi0 qi1 qi_add qi_mul qi_opp qi_nrm.
Definition q_leak_of_samples := leak_of_samples qi qi0 qi_add qi_nrm.
Definition q_cell_samples := cell_samples qi.
Definition q_chisq_pvalue := chisq_pvalue.
Definition q_fits := fits qi qi0 qi1 qi_add qi_mul qi_opp.
Definition q_leak_exact := leak_exact qi qi_nrm.

Definition Qc_le_b (a b : Qc) : bool := if Qclt_le_dec b a then false else true.
Definition Qc_lt_b (a b : Qc) : bool := if Qclt_le_dec a b then true else false.
(* vnacal_new_set_m_error over exact rationals; the interpolation is an argument *)
Definition q_merr_run_args := run_args Qc 0 Qc_le_b Qc_lt_b.
Definition q_merr_returns := returns Qc 0 Qc_le_b Qc_lt_b.

(* ---- equal samples: no scatter ---- *)
Lemma zq_add a b : zq (a + b) = zq a + zq b.
Proof.
  unfold zq, Qcplus. apply Q2Qc_eq_iff. cbn [this Q2Qc]. rewrite !Qred_correct. rewrite inject_Z_plus. reflexivity.
Qed.
Lemma zq_1 : zq 1 = 1. Proof. apply Qc_is_canon. reflexivity. Qed.
Lemma zq_0 : zq 0 = 0. Proof. apply Qc_is_canon. reflexivity. Qed.
Lemma zq_neq0 n : n <> 0%Z -> zq n <> 0.
Proof.
  intros H E. apply H. unfold zq in E. apply Q2Qc_eq_iff in E. unfold Qeq in E. simpl in E. lia.
Qed.
Lemma zq_succ k : zq (Z.of_nat (S k)) = zq (Z.of_nat k) + 1.
Proof. rewrite Nat2Z.inj_succ. unfold Z.succ. rewrite zq_add, zq_1. reflexivity. Qed.

Lemma leak_fold_repeat (l : qi) k : forall a b s c,
  fold_left (fun (t : lcell qi) m => {| l_sum := qi_add (l_sum qi t) m; l_sumsq := l_sumsq qi t + qi_nrm m;
                                        l_count := (l_count qi t + 1)%Z |})
            (repeat l k) {| l_sum := QI a b; l_sumsq := s; l_count := c |} =
  {| l_sum := QI (a + zq (Z.of_nat k) * qre l) (b + zq (Z.of_nat k) * qim l);
     l_sumsq := s + zq (Z.of_nat k) * qi_nrm l; l_count := (c + Z.of_nat k)%Z |}.
Proof.
  induction k as [|k IH]; intros a b s c.
  - cbn [repeat fold_left Z.of_nat]. rewrite zq_0. f_equal; [f_equal; ring | ring | lia].
  - cbn [repeat fold_left]. cbn [l_sum l_sumsq l_count].
    replace (qi_add (QI a b) l) with (QI (a + qre l) (b + qim l)) by reflexivity. rewrite IH, zq_succ.
    f_equal; [f_equal; ring | ring | lia].
Qed.

(* every sample of the cell equals l (the leakage is what the error model says: a constant): the
   accumulated sums have sumsq = |sum|^2 / n, for every number of samples *)
Lemma equal_samples_leak_exact (l : qi) (n : nat) : q_leak_exact (q_leak_of_samples (repeat l n)).
Proof.
  unfold q_leak_exact, leak_exact, q_leak_of_samples, leak_of_samples.
  change qi0 with (QI 0 0). rewrite leak_fold_repeat. cbn [l_sum l_sumsq l_count Z.add].
  destruct n as [|k].
  - cbn [Z.of_nat]. rewrite zq_0. unfold qi_nrm. cbn [qre qim].
    replace (0 + 0 * qi_nrm l) with 0 by ring. unfold Qcdiv. replace ((0 + 0 * qre l) * (0 + 0 * qre l) + (0 + 0 * qim l) * (0 + 0 * qim l)) with 0 by ring.
    replace (0 * / 0) with 0 by ring. apply Qcle_refl.
  - set (q := zq (Z.of_nat (S k))). assert (Hq : q <> 0) by (apply zq_neq0; lia).
    unfold qi_nrm. cbn [qre qim].
    replace (((0 + q * qre l) * (0 + q * qre l) + (0 + q * qim l) * (0 + q * qim l)) / q)
      with (0 + q * (qre l * qre l + qim l * qim l)) by (field; exact Hq).
    apply Qcle_refl.
Qed.

(* ---- an instance meeting every hypothesis: two systems (offsets 0 and 1), negative and right-hand
        side terms, a leakage cell with three equal samples, one with one sample, one with none ---- *)
Definition qn (n : Z) : qi := QI (zq n) 0.
Definition tm (neg : bool) (m : Z) (xi : option nat) : term qi :=
  {| t_neg := neg; t_m := Some (qn m); t_s := None; t_v := None; t_x := xi |}.
Definition ex_x : list qi := [qn 2; qn 3].
Definition ex_systems : list (list (equation qi)) :=
  [[ {| e_m := qn 5; e_terms := [tm false 5 (Some 0%nat); tm false 10 None] |};
     {| e_m := qn 1; e_terms := [tm false 1 (Some 0%nat); {| t_neg := false; t_m := None; t_s := Some (qn 2); t_v := Some (qn 1); t_x := None |}] |};
     {| e_m := qn 7; e_terms := [tm true 7 (Some 0%nat); tm true 14 None] |} ];
   [ {| e_m := qn 4; e_terms := [tm true 4 (Some 0%nat); tm true 12 None] |};
     {| e_m := qn 6; e_terms := [tm false 6 (Some 0%nat); tm false 18 None] |} ]].
Definition ex_leak : list (lcell qi) :=
  [q_leak_of_samples (repeat (QI (zq 1) (zq 2)) 3); q_leak_of_samples [QI (zq 3) (zq 1)]; q_leak_of_samples []].
Definition ex_nf : Qc := Q2Qc (1 # 100).
Definition ex_tr : Qc := Q2Qc (1 # 10).

Lemma ex_fits : q_fits 1 ex_x ex_systems.
Proof.
  unfold q_fits, fits, ex_systems. cbn [number].
  repeat (constructor; try (apply qi_eqb_eq; vm_compute; reflexivity)).
Qed.
Lemma ex_leak_exact : Forall q_leak_exact ex_leak.
Proof.
  unfold ex_leak. constructor; [apply equal_samples_leak_exact|].
  constructor; [apply (equal_samples_leak_exact (QI (zq 3) (zq 1)) 1)|].
  constructor; [apply (equal_samples_leak_exact qi0 0) | constructor].
Qed.

(* the statistic of the instance is 0 with df = 2 (5 - 2) + 2 (3 - 1) = 10; moving one measurement makes
   it positive (the statistic is not constantly 0) and leaves df alone *)
Definition ex_systems_off : list (list (equation qi)) :=
  match ex_systems with
  | (e :: r) :: r' => ({| e_m := e_m qi e; e_terms := [tm false 5 (Some 0%nat); tm false 11 None] |} :: r) :: r'
  | _ => ex_systems
  end.
Lemma ex_stat :
  Qc_eq_bool (fst (q_calc_stat 1 ex_nf ex_tr ex_x ex_systems (Some ex_leak))) 0 = true /\
  snd (q_calc_stat 1 ex_nf ex_tr ex_x ex_systems (Some ex_leak)) = 10%Z /\
  Qc_lt_b 0 (fst (q_calc_stat 1 ex_nf ex_tr ex_x ex_systems_off (Some ex_leak))) = true /\
  snd (q_calc_stat 1 ex_nf ex_tr ex_x ex_systems_off (Some ex_leak)) = 10%Z /\
  (* scattered samples: the leakage term is positive *)
  Qc_lt_b 0 (fst (q_calc_stat 1 ex_nf ex_tr ex_x ex_systems
                     (Some [q_leak_of_samples [QI (zq 1) (zq 2); QI (zq 1) (zq 3)]]))) = true.
Proof. repeat split; vm_compute; reflexivity. Qed.

Lemma qi_nrm_nonneg' z : 0 <= qi_nrm z.
Proof. unfold qi_nrm. apply LsqProofs.Qc_add_nonneg; apply AutoProofs.Qc_sq_nonneg. Qed.

(* the conclusion of exact_data_pvalue_one for the instance, through the theorem *)
Lemma ex_pvalue_one (exp erfc sqrt : Qc -> Qc) (pi : Qc) :
  q_calc_pvalue exp erfc sqrt pi 1 ex_nf ex_tr ex_x ex_systems (Some ex_leak) = 1.
Proof.
  apply (exact_data_pvalue_one qi qi0 qi1 qi_add qi_mul qi_opp qi_nrm); [reflexivity | exact ex_fits | exact ex_leak_exact].
Qed.

(* weight formula: positive radicand, monotone; an instance of the strict fall of the radicand's
   reciprocal with |m| *)
Lemma ex_weight2 :
  q_weight2 ex_nf ex_tr (qn 1) = Q2Qc (101 # 10000) /\ q_weight2 ex_nf ex_tr (qn 2) = Q2Qc (401 # 10000) /\
  q_weight2 ex_nf 0 (qn 1) = q_weight2 ex_nf 0 (qn 2).
Proof. repeat split; apply Qc_is_canon; vm_compute; reflexivity. Qed.
