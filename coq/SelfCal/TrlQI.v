(* The TRL model at the Gaussian rationals: executable instance and a concrete instance on
   which every hypothesis of trl_solve_truth_t / _u holds (non-vacuity). *)
Require Import QArith Qcanon List.
Require Import LV.Base.CField LV.Base.QcI LV.SelfCal.TrlModel LV.SelfCal.TrlProofs.

Definition Qc_leb (x y : Qc) : bool := if Qclt_le_dec y x then false else true.   (* x <= y *)

Lemma Qc_leb_total x y : Qc_leb x y = false -> Qc_leb y x = true.
Proof.
  unfold Qc_leb. destruct (Qclt_le_dec y x) as [H|H]; [intros _|discriminate].
  destruct (Qclt_le_dec x y) as [H'|H']; [|reflexivity].
  exfalso. exact (Qclt_not_le _ _ H (Qclt_le_weak _ _ H')).
Qed.

Definition qi_eq_dec (x y : qi) : {x = y} + {x <> y}.
Proof.
  destruct (qi_eqb x y) eqn:E; [left; apply qi_eqb_eq; exact E | right; apply qi_neqb; exact E].
Defined.

(* moduli are compared through their squares (monotone on non-negative reals) *)
Definition q_trl_solve (sq : qi -> qi) := trl_solve QIF sq Qc qi_nrm Qc_leb.

(* ---- a concrete T8 instance ---- *)
Definition e0 : tbox QIF :=
  TBox QIF (mkqi 2 1 1 3) (mkqi 3 2 (-1) 4) (mkqi 1 3 1 7) (mkqi 1 5 (-1) 6)
           (mkqi 1 4 1 9) (mkqi 1 7 (-1) 5) (mkqi 1 1 0 1) (mkqi 5 4 1 8).
Definition l0 : qi := mkqi 1 2 1 3.
Definition r0 : qi := mkqi (-3) 4 1 5.
Definition lg0 : qi := mkqi 3 5 1 4.          (* guesses *)
Definition rg0 : qi := mkqi (-1) 2 1 3.
Definition mt0 := meas_t QIF e0 (s_through QIF).
Definition ml0 := meas_t QIF e0 (s_line QIF l0).
Definition mr0 := meas_t QIF e0 (s_reflect QIF r0).
Definition a0 := trl_a QIF mt0 ml0.
Definition b0 := trl_b QIF mt0 ml0.
Definition disc0 : qi := qi_sub (qi_mul b0 b0) (qi_mul (qi_mul (qi_mul (@two QIF) (@two QIF)) a0) a0).
Definition q0 : qi := qi_div (trl_n QIF mt0 mr0 ml0 l0) (trl_d QIF mt0 mr0 ml0 l0).
(* csqrt restricted to the two arguments that occur: the discriminant is a^2 (l - 1/l)^2 and
   n/d is r^2, so both have square roots in Q[i] *)
Definition sq0 (z : qi) : qi :=
  if qi_eqb z disc0 then qi_mul a0 (qi_sub l0 (qi_inv l0))
  else if qi_eqb z q0 then qi_opp r0 else qi0.

(* every hypothesis of trl_solve_truth_t holds for this instance ... *)
Example trl_hyps_satisfiable_t :
  let a := trl_a QIF mt0 ml0 in let b := trl_b QIF mt0 ml0 in
  let n := trl_n QIF mt0 mr0 ml0 l0 in let d := trl_d QIF mt0 mr0 ml0 l0 in
  tdet QIF e0 (s_through QIF) <> qi0 /\ tdet QIF e0 (s_line QIF l0) <> qi0 /\
  tdet QIF e0 (s_reflect QIF r0) <> qi0 /\ a <> qi0 /\ d <> qi0 /\
  qi_mul (sq0 disc0) (sq0 disc0) = disc0 /\
  qi_mul (sq0 (qi_div n d)) (sq0 (qi_div n d)) = qi_div n d /\
  Qc_leb (qi_nrm (qi_sub (qi_sub (qi_add (trl_u QIF a b) (trl_u QIF a b)) l0) lg0)) (qi_nrm (qi_sub l0 lg0)) = false /\
  Qc_leb (qi_nrm (qi_sub (qi_opp r0) rg0)) (qi_nrm (qi_sub r0 rg0)) = false.
Proof.
  cbv zeta.
  split; [apply qi_neqb; vm_compute; reflexivity|].
  split; [apply qi_neqb; vm_compute; reflexivity|].
  split; [apply qi_neqb; vm_compute; reflexivity|].
  split; [apply qi_neqb; vm_compute; reflexivity|].
  split; [apply qi_neqb; vm_compute; reflexivity|].
  split; [apply qi_eqb_eq; vm_compute; reflexivity|].
  split; [apply qi_eqb_eq; vm_compute; reflexivity|].
  split; vm_compute; reflexivity.
Qed.

(* ... and the model then returns the truth (also obtained by trl_solve_truth_t) *)
Example trl_truth_instance_t :
  fst (q_trl_solve sq0 mt0 mr0 ml0 lg0 rg0) = l0 /\ snd (q_trl_solve sq0 mt0 mr0 ml0 lg0 rg0) = r0.
Proof. split; apply qi_eqb_eq; vm_compute; reflexivity. Qed.

(* ---- a concrete U8 instance ---- *)
Definition f0 : ubox QIF :=
  UBox QIF (mkqi 1 1 0 1) (mkqi 6 5 1 7) (mkqi 1 6 1 5) (mkqi (-1) 8 1 3)
           (mkqi 1 5 (-1) 4) (mkqi 2 7 1 6) (mkqi 3 2 1 5) (mkqi 4 3 (-1) 3).
Definition nt0 := meas_u QIF f0 (s_through QIF).
Definition nl0 := meas_u QIF f0 (s_line QIF l0).
Definition nr0 := meas_u QIF f0 (s_reflect QIF r0).
Definition a1 := trl_a QIF nt0 nl0.
Definition b1 := trl_b QIF nt0 nl0.
Definition disc1 : qi := qi_sub (qi_mul b1 b1) (qi_mul (qi_mul (qi_mul (@two QIF) (@two QIF)) a1) a1).
Definition q1 : qi := qi_div (trl_n QIF nt0 nr0 nl0 l0) (trl_d QIF nt0 nr0 nl0 l0).
Definition sq1 (z : qi) : qi :=
  if qi_eqb z disc1 then qi_opp (qi_mul a1 (qi_sub l0 (qi_inv l0)))
  else if qi_eqb z q1 then r0 else qi0.

(* every hypothesis of trl_solve_truth_u holds for this instance ... *)
Example trl_hyps_satisfiable_u :
  let a := trl_a QIF nt0 nl0 in let b := trl_b QIF nt0 nl0 in
  let n := trl_n QIF nt0 nr0 nl0 l0 in let d := trl_d QIF nt0 nr0 nl0 l0 in
  udet QIF f0 (s_through QIF) <> qi0 /\ udet QIF f0 (s_line QIF l0) <> qi0 /\
  udet QIF f0 (s_reflect QIF r0) <> qi0 /\ a <> qi0 /\ d <> qi0 /\
  qi_mul (sq1 disc1) (sq1 disc1) = disc1 /\
  qi_mul (sq1 (qi_div n d)) (sq1 (qi_div n d)) = qi_div n d /\
  Qc_leb (qi_nrm (qi_sub (qi_sub (qi_add (trl_u QIF a b) (trl_u QIF a b)) l0) lg0)) (qi_nrm (qi_sub l0 lg0)) = false /\
  Qc_leb (qi_nrm (qi_sub (qi_opp r0) rg0)) (qi_nrm (qi_sub r0 rg0)) = false.
Proof.
  cbv zeta.
  split; [apply qi_neqb; vm_compute; reflexivity|].
  split; [apply qi_neqb; vm_compute; reflexivity|].
  split; [apply qi_neqb; vm_compute; reflexivity|].
  split; [apply qi_neqb; vm_compute; reflexivity|].
  split; [apply qi_neqb; vm_compute; reflexivity|].
  split; [apply qi_eqb_eq; vm_compute; reflexivity|].
  split; [apply qi_eqb_eq; vm_compute; reflexivity|].
  split; vm_compute; reflexivity.
Qed.

(* ... and the model then returns the truth (also obtained by trl_solve_truth_u) *)
Example trl_truth_instance_u :
  fst (q_trl_solve sq1 nt0 nr0 nl0 lg0 rg0) = l0 /\ snd (q_trl_solve sq1 nt0 nr0 nl0 lg0 rg0) = r0.
Proof. split; apply qi_eqb_eq; vm_compute; reflexivity. Qed.

(* with the guess on the wrong side the rule returns the other root: the hypothesis of
   trl_selects_truth is needed *)
Example trl_wrong_side_selects_other :
  fst (q_trl_solve sq0 mt0 mr0 ml0 (qi_inv l0) rg0) = qi_inv l0 /\ qi_inv l0 <> l0.
Proof. split; [apply qi_eqb_eq; vm_compute; reflexivity | apply qi_neqb; vm_compute; reflexivity]. Qed.
