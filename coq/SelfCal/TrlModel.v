(* Model of the analytic two-port TRL solution, src/vnacal_new_solve_trl.c
   (_vnacal_new_solve_trl), as coded, over an abstract field.  No proofs in this file.

   Measurement model (vnacal_new(3), comments of vnacal_new_solve_update_v_matrices.c):
     T8 / TE10 :   M (Tx S + Tm) = Ts S + Ti            i.e.  M = (Ts S + Ti) (Tx S + Tm)^-1
     U8 / UE10 :   (Um - S Ux) M = S Us - Ui            i.e.  M = (Um - S Ux)^-1 (S Us - Ui)
   with diagonal 2x2 blocks.  For TE10 / UE10 the off-diagonal leakage is estimated from the
   reflect standard and subtracted before the solver sees the data (leak_removed below).

   csqrt and cabs are not field operations: csqrt is a parameter [sq] (the theorems assume
   sq z * sq z = z at the one argument where it is used), and the comparison of moduli
   "cabs x <= cabs y" is a parameter [le_abs] on an abstract magnitude [mag x]. *)
Require Import LV.Base.CField.
Local Open Scope cf_scope.

Section Trl.
Variable K : CField.

Record m2 := M2 { m11 : K; m12 : K; m21 : K; m22 : K }.

(* diagonal 2x2 error boxes *)
Record tbox := TBox { ts1 : K; ts2 : K; ti1 : K; ti2 : K; tx1 : K; tx2 : K; tm1 : K; tm2 : K }.
Record ubox := UBox { um1 : K; um2 : K; ui1 : K; ui2 : K; ux1 : K; ux2 : K; us1 : K; us2 : K }.

(* determinant of Tx S + Tm *)
Definition tdet (e : tbox) (s : m2) : K :=
  (tx1 e * m11 s + tm1 e) * (tx2 e * m22 s + tm2 e) - (tx1 e * m12 s) * (tx2 e * m21 s).

(* M = (Ts S + Ti) (Tx S + Tm)^-1 *)
Definition meas_t (e : tbox) (s : m2) : m2 :=
  let n11 := ts1 e * m11 s + ti1 e in let n12 := ts1 e * m12 s in
  let n21 := ts2 e * m21 s in let n22 := ts2 e * m22 s + ti2 e in
  let d11 := tx1 e * m11 s + tm1 e in let d12 := tx1 e * m12 s in
  let d21 := tx2 e * m21 s in let d22 := tx2 e * m22 s + tm2 e in
  let det := tdet e s in
  M2 ((n11 * d22 - n12 * d21) / det) ((n12 * d11 - n11 * d12) / det)
     ((n21 * d22 - n22 * d21) / det) ((n22 * d11 - n21 * d12) / det).

(* determinant of Um - S Ux *)
Definition udet (e : ubox) (s : m2) : K :=
  (um1 e - m11 s * ux1 e) * (um2 e - m22 s * ux2 e) - (m12 s * ux2 e) * (m21 s * ux1 e).

(* M = (Um - S Ux)^-1 (S Us - Ui) *)
Definition meas_u (e : ubox) (s : m2) : m2 :=
  let a11 := um1 e - m11 s * ux1 e in let a12 := - (m12 s * ux2 e) in
  let a21 := - (m21 s * ux1 e) in let a22 := um2 e - m22 s * ux2 e in
  let b11 := m11 s * us1 e - ui1 e in let b12 := m12 s * us2 e in
  let b21 := m21 s * us1 e in let b22 := m22 s * us2 e - ui2 e in
  let det := udet e s in
  M2 ((a22 * b11 - a12 * b21) / det) ((a22 * b12 - a12 * b22) / det)
     ((a11 * b21 - a21 * b11) / det) ((a11 * b22 - a21 * b12) / det).

(* the three standards *)
Definition s_through : m2 := M2 0 1 1 0.
Definition s_line (l : K) : m2 := M2 0 l l 0.
Definition s_reflect (r : K) : m2 := M2 r 0 0 r.

(* TE10 / UE10: measured = 8-term part + off-diagonal leakage; _vnacal_new_solve_start_frequency
   subtracts the mean of the off-diagonal cells of the standards without a through path
   (here: the reflect) from every standard. *)
Definition add_leak (m : m2) (l12 l21 : K) : m2 := M2 (m11 m) (m12 m + l12) (m21 m + l21) (m22 m).
Definition leak_removed (raw reflect_raw : m2) : m2 :=
  M2 (m11 raw) (m12 raw - m12 reflect_raw) (m21 raw - m21 reflect_raw) (m22 raw).

(* ---- the line quadratic  a l^2 + b l + c = 0  with c = a ---- *)
Definition trl_a (mt ml : m2) : K := (m12 ml * m21 mt + m21 ml * m12 mt) / two.
Definition trl_b (mt ml : m2) : K :=
  (m11 ml - m11 mt) * (m22 ml - m22 mt) - m12 ml * m21 ml - m12 mt * m21 mt.

(* ---- the reflect equation  r^2 = n / d ---- *)
Definition trl_n (mt mr ml : m2) (l : K) : K :=
  (m21 ml * m12 mt - l * ((m11 mr - m11 mt) * (m22 mt - m22 ml) + m12 mt * m21 mt)) *
  (m12 ml * m21 mt - l * ((m22 mr - m22 mt) * (m11 mt - m11 ml) + m12 mt * m21 mt)).
Definition trl_d (mt mr ml : m2) (l : K) : K :=
  (m12 ml * (m11 mr - m11 mt) - l * m12 mt * (m11 mr - m11 ml)) *
  (m21 ml * (m22 mr - m22 mt) - l * m21 mt * (m22 mr - m22 ml)).

(* ---- root selection ---- *)
Variable sq : K -> K.                 (* csqrt *)
Variable Mag : Type.                  (* non-negative reals *)
Variable mag : K -> Mag.              (* cabs *)
Variable le_abs : Mag -> Mag -> bool. (* <= *)

(* u = -b / (2 a);  v = csqrt(b b - 4 a c) / (2 a);  the two candidates are u + v and u - v;
   "if (d1 <= d2) l = u + v; else l = u - v;" *)
Definition trl_u (a b : K) : K := (- b) / (two * a).
Definition trl_v (a b : K) : K := sq (b * b - (two * two) * a * a) / (two * a).
Definition trl_select_line (a b guess : K) : K :=
  let u := trl_u a b in let v := trl_v a b in
  if le_abs (mag (u + v - guess)) (mag (u - v - guess)) then u + v else u - v.

(* r = csqrt(n / d);  "if (d1 > d2) r = -r;" *)
Definition trl_select_reflect (n d guess : K) : K :=
  let r := sq (n / d) in
  if le_abs (mag (r - guess)) (mag (- r - guess)) then r else - r.

(* the solver's two outputs from the (leakage-free) measurements and the two guesses *)
Definition trl_solve (mt mr ml : m2) (lguess rguess : K) : K * K :=
  let l := trl_select_line (trl_a mt ml) (trl_b mt ml) lguess in
  let r := trl_select_reflect (trl_n mt mr ml l) (trl_d mt mr ml l) rguess in
  (l, r).
End Trl.

Arguments M2 {K}. Arguments m11 {K}. Arguments m12 {K}. Arguments m21 {K}. Arguments m22 {K}.
