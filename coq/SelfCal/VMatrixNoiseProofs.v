(* Noise vectors given on their OWN frequency grid pass through the given points (property C18, last
   clause): the vector vnacal_new_set_m_error stores, with the interpolation of C18MErrorModel
   instantiated by C10's spline model (VMatrixNoise.noise_interp). *)
Require Import List ZArith QArith Qcanon Lia.
Import ListNotations.
Require Import LV.Interp.QOrd LV.Interp.SplineModel LV.Interp.SplineProofs LV.Interp.C10Lemmas.
Require Import LV.Interp.SigmaSplineModel LV.Interp.SigmaSplineProofs.
Require Import LV.SelfCal.C18MErrorModel LV.SelfCal.C18MErrorProofs LV.SelfCal.VMatrixNoise.
Local Open Scope Z_scope.

Lemma nth_firstn_lt {A} (l : list A) d : forall n i, (i < n)%nat -> nth i (firstn n l) d = nth i l d.
Proof.
  induction l as [|a l IH]; intros [|n] [|i] H; simpl; try reflexivity; try lia. apply IH. lia.
Qed.

Section P.
Variable min_dx : Qc.
Hypothesis min_dx_pos : (0 < min_dx)%Qc.

Notation lower := (q_lower min_dx).
Notation values_at := (q_values_at min_dx).
Notation run_args := (q_run_args min_dx).

(* an accepted call with sigma_nf_vector = nf stores values_at of its vectors *)
Lemma lower_set_values env a vnf vtr nf : lower env a = MSet Qc vnf vtr -> a_nf Qc a = Some nf ->
  vnf = values_at env a nf /\ vtr = option_map (values_at env a) (a_tr Qc a).
Proof.
  intros E Hnf. unfold q_lower, C18MErrorModel.lower in E. rewrite Hnf in E.
  destruct (Nat.eqb (a_n Qc a) 0); [discriminate|].
  repeat match type of E with (if ?c then _ else _) = _ => destruct c; [discriminate|] end.
  inversion E. split; reflexivity.
Qed.

(* the stored vector after any history ending with an accepted call *)
Lemma stored_after env h st fresh a vnf vtr :
  state_wf Qc (length (en_calf Qc env)) st -> fresh_ok Qc env h ->
  length fresh = length (en_calf Qc env) -> lower env a = MSet Qc vnf vtr ->
  run_args env st (h ++ [(fresh, a)]) = Some (declared Qc 0%Qc (length (en_calf Qc env)) vnf vtr) /\
  length vnf = length (en_calf Qc env) /\
  match vtr with Some t => length t = length (en_calf Qc env) | None => True end.
Proof.
  intros Hs Hh Hf E. unfold q_run_args. rewrite run_args_app.
  pose proof (run_args_wf Qc 0%Qc Qcleb Qcltb (noise_interp min_dx) env h st Hs Hh) as Hw.
  set (s := C18MErrorModel.run_args Qc 0%Qc Qcleb Qcltb (noise_interp min_dx) true env st h) in *. clearbody s.
  unfold C18MErrorModel.run_args. cbn [fold_left fst snd]. unfold set_m_error_args.
  pose proof (lower_wf Qc 0%Qc Qcleb Qcltb (noise_interp min_dx) env a fresh Hf) as W.
  unfold q_lower in E. rewrite E in *.
  split; [apply (set_m_error_last_call_wins Qc 0%Qc _ fresh s vnf vtr Hw W)|].
  destruct W as (_ & W2 & W3). cbn [snd] in *. split; assumption.
Qed.

Lemma fst_nth_combine (a b : list Qc) j : (j < length a)%nat -> length b = length a ->
  fst (nth j (combine a b) (0%Qc, 0%Qc)) = nth j a 0%Qc /\ snd (nth j (combine a b) (0%Qc, 0%Qc)) = nth j b 0%Qc.
Proof. intros Hj Hl. rewrite combine_nth by (symmetry; exact Hl). split; reflexivity. Qed.

(* the value at calibration frequency j of a vector ys given on the grid fv *)
Lemma values_at_grid env a fv ys j : a_fv Qc a = Some fv -> a_n Qc a <> 1%nat ->
  (j < length (en_calf Qc env))%nat ->
  nth j (values_at env a ys) 0%Qc =
  noise_interp min_dx (firstn (a_n Qc a) fv) (firstn (a_n Qc a) ys) (nth j (en_calf Qc env) 0%Qc).
Proof.
  intros Hfv Hn Hj. unfold q_values_at, C18MErrorModel.values_at. rewrite Hfv.
  destruct (Nat.eqb (a_n Qc a) 1) eqn:E; [apply Nat.eqb_eq in E; contradiction|].
  rewrite (nth_indep _ 0%Qc (noise_interp min_dx (firstn (a_n Qc a) fv) (firstn (a_n Qc a) ys) 0%Qc))
    by (rewrite map_length; exact Hj).
  apply (map_nth (noise_interp min_dx (firstn (a_n Qc a) fv) (firstn (a_n Qc a) ys))).
Qed.

Section Grid.
Variables (xs ys : list Qc).
Hypothesis Hnp : 2 <= sigma_np ys.
Hypothesis Hgap : forall i, 0 <= i < sigma_np ys - 1 -> (min_dx <= gq xs (i + 1) - gq xs i)%Qc.

Lemma noise_interp_at_knot k : 0 <= k < sigma_np ys -> noise_interp min_dx xs ys (gq xs k) = gq ys k.
Proof.
  intros Hk. unfold noise_interp.
  destruct (sigma_make_ok_l min_dx xs ys Hnp Hgap) as (cs & ->).
  rewrite (sigma_at_knot_l xs ys Hnp); [reflexivity | | exact Hk].
  apply (gap_increasing min_dx); [exact min_dx_pos | exact Hgap].
Qed.

Lemma noise_interp_linear p q : (forall i, 0 <= i < sigma_np ys -> gq ys i = (p + q * gq xs i)%Qc) ->
  forall f, noise_interp min_dx xs ys f = (p + q * f)%Qc.
Proof.
  intros Hl f. unfold noise_interp.
  destruct (sigma_linear_l min_dx xs ys p q Hnp min_dx_pos Hgap Hl) as (cs & -> & He).
  rewrite He. reflexivity.
Qed.
End Grid.

(* THE STORED NOISE VECTOR PASSES THROUGH THE GIVEN POINTS.  After any history of calls on any
   well-formed earlier state, a call on an own grid of n >= 2 points (gaps >= MIN_DX) that is accepted
   leaves, at every calibration frequency that is the k-th grid point, exactly sigma_nf[k] and
   sigma_tr[k] (0 when sigma_tr_vector is NULL) *)
Theorem stored_noise_at_knot_l env h st fresh a fv nf vnf vtr (j : nat) (k : Z) :
  state_wf Qc (length (en_calf Qc env)) st -> fresh_ok Qc env h ->
  length fresh = length (en_calf Qc env) ->
  lower env a = MSet Qc vnf vtr -> a_fv Qc a = Some fv -> a_nf Qc a = Some nf ->
  (2 <= a_n Qc a)%nat -> (a_n Qc a <= length fv)%nat -> (a_n Qc a <= length nf)%nat ->
  match a_tr Qc a with Some tr => (a_n Qc a <= length tr)%nat | None => True end ->
  (forall i, 0 <= i < Z.of_nat (a_n Qc a) - 1 -> (min_dx <= gq fv (i + 1) - gq fv i)%Qc) ->
  (j < length (en_calf Qc env))%nat -> 0 <= k < Z.of_nat (a_n Qc a) ->
  nth j (en_calf Qc env) 0%Qc = gq fv k ->
  exists v, run_args env st (h ++ [(fresh, a)]) = Some v /\
            fst (nth j v (0%Qc, 0%Qc)) = gq nf k /\
            snd (nth j v (0%Qc, 0%Qc)) = match a_tr Qc a with Some tr => gq tr k | None => 0%Qc end.
Proof.
  intros Hs Hh Hf E Hfv Hnf Hn Hlf Hln Hlt Hgap Hj Hk Hcal.
  destruct (stored_after env h st fresh a vnf vtr Hs Hh Hf E) as (R & Lv & Lt).
  destruct (lower_set_values env a vnf vtr nf E Hnf) as (-> & ->).
  eexists. split; [exact R|].
  set (n := a_n Qc a) in *.
  assert (Gq : forall (l : list Qc) i, (n <= length l)%nat -> 0 <= i < Z.of_nat n -> gq (firstn n l) i = gq l i).
  { intros l i Hl Hi. unfold gq. rewrite nth_firstn_lt by lia. reflexivity. }
  assert (At : forall ys, (n <= length ys)%nat ->
             nth j (values_at env a ys) 0%Qc = gq ys k).
  { intros ys Hly. rewrite (values_at_grid env a fv ys j Hfv ltac:(fold n; lia) Hj). fold n.
    rewrite Hcal, <- (Gq fv k Hlf Hk), <- (Gq ys k Hly Hk).
    apply noise_interp_at_knot.
    - unfold sigma_np. rewrite firstn_length_le by exact Hly. lia.
    - unfold sigma_np. rewrite firstn_length_le by exact Hly. intros i Hi.
      rewrite !Gq by (try exact Hlf; lia). apply Hgap. lia.
    - unfold sigma_np. rewrite firstn_length_le by exact Hly. exact Hk. }
  unfold declared.
  destruct (a_tr Qc a) as [tr|] eqn:Etr; cbn [option_map] in *.
  - destruct (fst_nth_combine (values_at env a nf) (values_at env a tr) j) as (F1 & F2); [lia | lia|].
    rewrite F1, F2, (At nf Hln), (At tr Hlt). split; reflexivity.
  - destruct (fst_nth_combine (values_at env a nf) (repeat 0%Qc (length (en_calf Qc env))) j) as (F1 & F2);
      [lia | rewrite repeat_length; lia|].
    rewrite F1, F2, (At nf Hln). split; [reflexivity|].
    apply nth_repeat.
Qed.

(* ... and reproduces data on a line at EVERY calibration frequency, on or off the grid (also outside
   it: the extrapolation continues the line) *)
Theorem stored_noise_linear_l env h st fresh a fv nf vnf vtr (p q : Qc) (j : nat) :
  state_wf Qc (length (en_calf Qc env)) st -> fresh_ok Qc env h ->
  length fresh = length (en_calf Qc env) ->
  lower env a = MSet Qc vnf vtr -> a_fv Qc a = Some fv -> a_nf Qc a = Some nf ->
  (2 <= a_n Qc a)%nat -> (a_n Qc a <= length fv)%nat -> (a_n Qc a <= length nf)%nat ->
  (forall i, 0 <= i < Z.of_nat (a_n Qc a) - 1 -> (min_dx <= gq fv (i + 1) - gq fv i)%Qc) ->
  (forall i, 0 <= i < Z.of_nat (a_n Qc a) -> gq nf i = (p + q * gq fv i)%Qc) ->
  (j < length (en_calf Qc env))%nat ->
  exists v, run_args env st (h ++ [(fresh, a)]) = Some v /\
            fst (nth j v (0%Qc, 0%Qc)) = (p + q * nth j (en_calf Qc env) 0%Qc)%Qc.
Proof.
  intros Hs Hh Hf E Hfv Hnf Hn Hlf Hln Hgap Hline Hj.
  destruct (stored_after env h st fresh a vnf vtr Hs Hh Hf E) as (R & Lv & Lt).
  destruct (lower_set_values env a vnf vtr nf E Hnf) as (-> & ->).
  eexists. split; [exact R|].
  set (n := a_n Qc a) in *.
  assert (Gq : forall (l : list Qc) i, (n <= length l)%nat -> 0 <= i < Z.of_nat n -> gq (firstn n l) i = gq l i).
  { intros l i Hl Hi. unfold gq. rewrite nth_firstn_lt by lia. reflexivity. }
  unfold declared.
  assert (Lb : length (match option_map (values_at env a) (a_tr Qc a) with
                       | Some t => t | None => repeat 0%Qc (length (en_calf Qc env)) end) =
               length (values_at env a nf)).
  { destruct (option_map (values_at env a) (a_tr Qc a)); [lia | rewrite repeat_length; lia]. }
  destruct (fst_nth_combine (values_at env a nf) _ j ltac:(lia) Lb) as (F1 & _).
  rewrite F1, (values_at_grid env a fv nf j Hfv ltac:(fold n; lia) Hj). fold n.
  apply noise_interp_linear.
  - unfold sigma_np. rewrite firstn_length_le by exact Hln. lia.
  - unfold sigma_np. rewrite firstn_length_le by exact Hln. intros i Hi.
    rewrite !Gq by (try exact Hlf; lia). apply Hgap. lia.
  - unfold sigma_np. rewrite firstn_length_le by exact Hln. intros i Hi.
    rewrite !Gq by (try exact Hlf; try exact Hln; lia). apply Hline. exact Hi.
Qed.
End P.
