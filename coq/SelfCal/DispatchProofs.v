(* Lemmas about SelfCal/DispatchModel.v. *)
Require Import List Arith Bool Permutation.
Import ListNotations.
Require Import LV.SelfCal.DispatchModel.

(* ---------------- lemmas ---------------- *)
Lemma eqb_cell a b : cell_eqb a b = true -> a = b.
Proof.
  destruct a, b; simpl; try discriminate; try reflexivity; intros H; apply Nat.eqb_eq in H; subst; reflexivity.
Qed.

Ltac cases H :=
  repeat match type of H with context [if ?c then _ else _] => destruct c eqn:? end;
  try discriminate H.

Ltac finish :=
  repeat match goal with E : (_ && _)%bool = true |- _ => apply andb_prop in E; destruct E end;
  repeat match goal with E : Nat.eqb _ _ = true |- _ => apply Nat.eqb_eq in E; subst end;
  try discriminate; try reflexivity.

Lemma classify_T s : classify s = Val WT -> s = std_T.
Proof.
  destruct s as [[[s0 s1] s2] s3]. unfold classify, classify_body.
  destruct s0, s1, s2, s3; simpl; intros H; cases H; reflexivity.
Qed.

Lemma classify_R s u : classify s = Val (WR u) -> s = std_R u.
Proof.
  destruct s as [[[s0 s1] s2] s3]. unfold classify, classify_body.
  destruct s0, s1, s2, s3; simpl; intros H; cases H; inversion H; subst; finish.
Qed.

Lemma classify_L s u : classify s = Val (WL u) -> s = std_L u.
Proof.
  destruct s as [[[s0 s1] s2] s3]. unfold classify, classify_body.
  destruct s0, s1, s2, s3; simpl; intros H; cases H; inversion H; subst; finish.
Qed.

(* ---------------- no read through a NULL cell ---------------- *)
(* classify_standard as it is now never dereferences an absent cell, whatever the four cells are *)
Lemma classify_never_faults s : classify s <> Fault.
Proof.
  destruct s as [[[s0 s1] s2] s3]. unfold classify, classify_body.
  destruct s0, s1, s2, s3; simpl; try discriminate;
    repeat match goal with |- context [if ?c then _ else _] => destruct c end; discriminate.
Qed.

(* a standard with an absent cell is none of T, R, L *)
Lemma classify_partial s : has_absent s = true -> classify s = Val WNone.
Proof. destruct s as [[[s0 s1] s2] s3]. unfold classify, has_absent. intros ->. reflexivity. Qed.

Lemma scan_never_faults stds : forall t r l, scan classify stds t r l <> Fault.
Proof.
  induction stds as [|s rest IH]; intros t r l; simpl; [discriminate|].
  destruct (classify s) as [w|] eqn:E; [|exfalso; exact (classify_never_faults s E)].
  simpl. destruct w; try discriminate;
    match goal with |- (if ?b then _ else _) <> _ => destruct b end; try discriminate; apply IH.
Qed.

(* the dispatch of vnacal_new_solve never reads through a NULL S cell: for EVERY calibration type,
   dimensions, counts and EVERY list of standards, including standards with absent cells *)
Lemma dispatch_never_faults ty rows cols stds unknowns correlated m_error :
  dispatch ty rows cols stds unknowns correlated m_error <> Fault.
Proof.
  unfold dispatch, dispatch_with, is_trl.
  destruct (Nat.eqb rows 2 && Nat.eqb cols 2 && eight_term ty && Nat.eqb (length stds) 3 &&
            Nat.eqb unknowns 2 && Nat.eqb correlated 0 && negb m_error); [|discriminate].
  destruct (scan classify stds false false false) eqn:E; [discriminate|].
  exfalso. exact (scan_never_faults stds _ _ _ E).
Qed.

(* finding D69 (fixed in /repo): the function as it was before the NULL test read through the
   absent S11 of a single reflect on port 2 -- the reviewer's reproducer, in the model *)
Lemma dispatch_before_D69_faults :
  dispatch_before_D69 T8 2 2 [std_single2 (Unknown 0); std_single1 (Unknown 1); std_T] 2 0 false = Fault.
Proof. reflexivity. Qed.

(* the same standards with the code as it is: iterative solver, no fault *)
Example dispatch_single_reflects :
  dispatch T8 2 2 [std_single2 (Unknown 0); std_single1 (Unknown 1); std_T] 2 0 false = Val PathAuto /\
  dispatch UE10 2 2 [std_T; std_single2 (Unknown 0); std_R 1] 2 0 false = Val PathAuto /\
  dispatch TE10 2 2 [std_L 0; std_T; (Unknown 1, Absent, Absent, Known 3)] 2 0 false = Val PathAuto.
Proof. repeat split; reflexivity. Qed.

(* The analytic path is taken only for a 2x2 8-term calibration without error model whose
   three standards are exactly a perfect through, an equal unknown reflect and a matched
   reciprocal line with unknown transmission (in any order). *)
Lemma trl_path_only_for_exact_shapes ty rows cols stds unknowns correlated m_error :
  dispatch ty rows cols stds unknowns correlated m_error = Val PathTrl ->
  rows = 2 /\ cols = 2 /\ eight_term ty = true /\ unknowns = 2 /\ correlated = 0 /\ m_error = false /\
  exists a b, Permutation stds [std_T; std_R a; std_L b].
Proof.
  unfold dispatch, dispatch_with, is_trl.
  destruct (Nat.eqb rows 2 && Nat.eqb cols 2 && eight_term ty && Nat.eqb (length stds) 3 &&
            Nat.eqb unknowns 2 && Nat.eqb correlated 0 && negb m_error) eqn:E;
    [|simpl; destruct (Nat.eqb unknowns 0); discriminate].
  destruct (scan classify stds false false false) as [b|] eqn:Hs; [|discriminate].
  simpl. destruct b; [intros _ | destruct (Nat.eqb unknowns 0); discriminate].
  repeat (apply andb_prop in E; destruct E as [E ?]).
  repeat match goal with H : Nat.eqb _ _ = true |- _ => apply Nat.eqb_eq in H end.
  match goal with H : negb m_error = true |- _ => apply negb_true_iff in H end.
  repeat (split; [assumption|]).
  destruct stds as [|x [|y [|z [|? ?]]]]; try discriminate.
  simpl in Hs.
  destruct (classify x) as [wx|] eqn:Cx; simpl in Hs; try discriminate;
  destruct wx; simpl in Hs; try discriminate;
  destruct (classify y) as [wy|] eqn:Cy; simpl in Hs; try discriminate;
  destruct wy; simpl in Hs; try discriminate;
  destruct (classify z) as [wz|] eqn:Cz; simpl in Hs; try discriminate;
  destruct wz; simpl in Hs; try discriminate;
  repeat match goal with
         | H : classify _ = Val WT |- _ => apply classify_T in H
         | H : classify _ = Val (WR _) |- _ => apply classify_R in H
         | H : classify _ = Val (WL _) |- _ => apply classify_L in H
         end; subst.
  - exists u, u0. apply Permutation_refl.
  - exists u0, u. apply perm_skip. apply perm_swap.
  - exists u, u0. apply perm_swap.
  - exists u, u0. eapply perm_trans; [apply perm_skip; apply perm_swap | apply perm_swap].
  - exists u0, u. eapply perm_trans; [apply perm_swap | apply perm_skip; apply perm_swap].
  - exists u0, u. eapply perm_trans; [apply perm_swap |].
    eapply perm_trans; [apply perm_skip; apply perm_swap | apply perm_swap].
Qed.

(* hence a calibration with a partial standard (single reflect, ...) never takes the analytic path *)
Lemma partial_standard_not_trl ty rows cols stds unknowns correlated m_error s :
  In s stds -> has_absent s = true ->
  dispatch ty rows cols stds unknowns correlated m_error <> Val PathTrl.
Proof.
  intros Hin Ha H. apply trl_path_only_for_exact_shapes in H.
  destruct H as (_ & _ & _ & _ & _ & _ & a & b & Hp).
  pose proof (Permutation_in _ Hp Hin) as Hi.
  destruct Hi as [E|[E|[E|[]]]]; subst s; discriminate.
Qed.

(* conversely the exact shapes take it, in all six orders *)
Lemma exact_shapes_take_trl_path ty a b :
  eight_term ty = true ->
  forall stds, Permutation stds [std_T; std_R a; std_L b] ->
  dispatch ty 2 2 stds 2 0 false = Val PathTrl.
Proof.
  intros H stds Hp.
  assert (Hl : length stds = 3) by (rewrite (Permutation_length Hp); reflexivity).
  destruct stds as [|x [|y [|z [|? ?]]]]; try discriminate.
  assert (Hx := Permutation_in x Hp (or_introl eq_refl)).
  assert (Hy := Permutation_in y Hp (or_intror (or_introl eq_refl))).
  assert (Hz := Permutation_in z Hp (or_intror (or_intror (or_introl eq_refl)))).
  assert (Hnd : NoDup [x; y; z]).
  { apply (Permutation_NoDup (Permutation_sym Hp)).
    repeat constructor; simpl; intuition discriminate. }
  unfold dispatch, dispatch_with, is_trl. rewrite H.
  simpl in Hx, Hy, Hz.
  destruct Hx as [Hx|[Hx|[Hx|[]]]], Hy as [Hy|[Hy|[Hy|[]]]], Hz as [Hz|[Hz|[Hz|[]]]];
    subst x y z;
    try (exfalso; inversion Hnd as [|? ? Hn1 Hn2]; inversion Hn2 as [|? ? Hn3 Hn4]; simpl in *; intuition congruence);
    simpl; rewrite ?Nat.eqb_refl; reflexivity.
Qed.

(* TRL-shaped inputs that are not TRL go to the iterative solver *)
Example not_trl_examples :
  (* mismatched line: S11 = S22 = the same known parameter *)
  dispatch T8 2 2 [std_T; std_R 0; (Known 5, Unknown 1, Unknown 1, Known 5)] 2 0 false = Val PathAuto /\
  (* reflect with different unknowns on the two ports *)
  dispatch U8 2 2 [std_T; (Unknown 0, Zero, Zero, Unknown 2); std_L 1] 3 0 false = Val PathAuto /\
  (* asymmetric through *)
  dispatch TE10 2 2 [(Zero, One, Known 7, Zero); std_R 0; std_L 1] 2 0 false = Val PathAuto /\
  (* correlated instead of unknown reflect *)
  dispatch UE10 2 2 [std_T; (Corr 0, Zero, Zero, Corr 0); std_L 1] 2 1 false = Val PathAuto /\
  (* error model given, 16-term type, fourth standard *)
  dispatch T8 2 2 [std_T; std_R 0; std_L 1] 2 0 true = Val PathAuto /\
  dispatch T16 2 2 [std_T; std_R 0; std_L 1] 2 0 false = Val PathAuto /\
  dispatch T8 2 2 [std_T; std_R 0; std_L 1; (Zero, Zero, Zero, Zero)] 2 0 false = Val PathAuto.
Proof. repeat split; reflexivity. Qed.

(* ---------------- write-back ---------------- *)
Section Writeback.
Variables F V : Type.
Variable F_eqb : F -> F -> bool.
Variable f0 : F.
Hypothesis F_eqb_eq : forall a b, F_eqb a b = true <-> a = b.
Notation lookup := (lookup F V F_eqb).
Notation get := (get F V F_eqb).
Notation writeback := (writeback F V f0).

Lemma lookup_nth fs : forall vs i df dv, NoDup fs -> length fs = length vs -> i < length fs ->
  lookup fs vs (nth i fs df) = Some (nth i vs dv).
Proof.
  induction fs as [|a fr IH]; intros vs i df dv Hnd Hlen Hi; simpl in *; [inversion Hi|].
  destruct vs as [|v vr]; [discriminate|]. simpl in Hlen. inversion Hnd; subst.
  destruct i as [|i]; simpl.
  - assert (E : F_eqb a a = true) by (apply F_eqb_eq; reflexivity). rewrite E. reflexivity.
  - destruct (F_eqb a (nth i fr df)) eqn:E.
    + apply F_eqb_eq in E. exfalso. apply H1. rewrite E. apply nth_In. apply Nat.succ_lt_mono. exact Hi.
    + apply IH; auto. apply Nat.succ_lt_mono. exact Hi.
Qed.

(* the steps of the write-back leave exactly the calibration grid in the parameter object,
   whether or not the vector was reallocated *)
Lemma writeback_grid old fs vs : pf F V (writeback old fs vs) = fs.
Proof.
  unfold DispatchModel.writeback, memcpy_over. simpl.
  destruct (Nat.eqb (length (pf F V old)) (length fs)) eqn:E.
  - apply Nat.eqb_eq in E. rewrite <- E, skipn_all. apply app_nil_r.
  - rewrite <- (repeat_length f0 (length fs)) at 1. rewrite skipn_all. apply app_nil_r.
Qed.

(* after a solve, the value of the parameter at every calibration frequency of THAT solve is
   the solved value, whatever the parameter held before *)
Lemma writeback_exact old fs vs i df dv :
  NoDup fs -> length fs = length vs -> i < length fs ->
  get (writeback old fs vs) (nth i fs df) = Some (nth i vs dv).
Proof.
  intros. unfold DispatchModel.get. rewrite writeback_grid. simpl. apply lookup_nth; assumption.
Qed.
End Writeback.

(* model variant (seeded change C02-1, not the code): copying the grid only inside the
   reallocation branch keeps a stale grid when the count is unchanged *)
Lemma model_variant_writeback_stale_grid :
  exists old fs vs, NoDup fs /\ length fs = length vs /\
    get nat nat Nat.eqb (writeback_variant_copy_on_realloc nat nat 0 old fs vs) (nth 0 fs 0) <> Some (nth 0 vs 0).
Proof.
  exists (PObj nat nat [1; 2] [10; 20]), [3; 4], [30; 40].
  split; [repeat constructor; simpl; intuition discriminate|]. split; [reflexivity|]. simpl. discriminate.
Qed.

(* all hypotheses of writeback_exact at once: a parameter solved before on a grid of the same
   length is re-solved on another grid *)
Example writeback_exact_instance :
  let old := PObj nat nat [1; 2] [10; 20] in
  NoDup [3; 4] /\ length [3; 4] = length [30; 40] /\
  get nat nat Nat.eqb (writeback nat nat 0 old [3; 4] [30; 40]) 4 = Some 40 /\
  get nat nat Nat.eqb (writeback nat nat 0 (PObj nat nat [7] [70]) [3; 4] [30; 40]) 3 = Some 30.
Proof. split; [repeat constructor; simpl; intuition discriminate|]. repeat split. Qed.
