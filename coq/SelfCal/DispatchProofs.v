(* Lemmas about SelfCal/DispatchModel.v. *)
Require Import List Arith Bool Permutation.
Import ListNotations.
Require Import LV.SelfCal.DispatchModel.

(* ---------------- lemmas ---------------- *)
Lemma eqb_cell a b : cell_eqb a b = true -> a = b.
Proof.
  destruct a, b; simpl; try discriminate; try reflexivity; intros H; apply Nat.eqb_eq in H; subst; reflexivity.
Qed.

Ltac cases H :=
  repeat match type of H with context [if ?c then _ else _] => destruct c eqn:? end;
  try discriminate H.

Lemma classify_T s : classify s = WT -> s = std_T.
Proof.
  destruct s as [[[s0 s1] s2] s3]. unfold classify.
  destruct s0, s1, s2, s3; simpl; intros H; cases H; reflexivity.
Qed.

Lemma classify_R s u : classify s = WR u -> s = std_R u.
Proof.
  destruct s as [[[s0 s1] s2] s3]. unfold classify.
  destruct s0, s1, s2, s3; simpl; intros H; cases H; inversion H; subst;
    repeat match goal with E : (_ && _)%bool = true |- _ => apply andb_prop in E; destruct E end;
    repeat match goal with E : Nat.eqb _ _ = true |- _ => apply Nat.eqb_eq in E; subst end;
    try discriminate; reflexivity.
Qed.

Lemma classify_L s u : classify s = WL u -> s = std_L u.
Proof.
  destruct s as [[[s0 s1] s2] s3]. unfold classify.
  destruct s0, s1, s2, s3; simpl; intros H; cases H; inversion H; subst;
    repeat match goal with E : (_ && _)%bool = true |- _ => apply andb_prop in E; destruct E end;
    repeat match goal with E : Nat.eqb _ _ = true |- _ => apply Nat.eqb_eq in E; subst end;
    try discriminate; reflexivity.
Qed.

(* The analytic path is taken only for a 2x2 8-term calibration without error model whose
   three standards are exactly a perfect through, an equal unknown reflect and a matched
   reciprocal line with unknown transmission (in any order). *)
Lemma trl_path_only_for_exact_shapes ty rows cols stds unknowns correlated m_error :
  dispatch ty rows cols stds unknowns correlated m_error = PathTrl ->
  rows = 2 /\ cols = 2 /\ eight_term ty = true /\ unknowns = 2 /\ correlated = 0 /\ m_error = false /\
  exists a b, Permutation stds [std_T; std_R a; std_L b].
Proof.
  unfold dispatch. destruct (is_trl ty rows cols stds unknowns correlated m_error) eqn:E;
    [intros _ | destruct (Nat.eqb unknowns 0); discriminate].
  unfold is_trl in E. repeat (apply andb_prop in E; destruct E as [E ?]).
  repeat match goal with H : Nat.eqb _ _ = true |- _ => apply Nat.eqb_eq in H end.
  match goal with H : negb m_error = true |- _ => apply negb_true_iff in H end.
  repeat (split; [assumption|]).
  destruct stds as [|x [|y [|z [|? ?]]]]; try discriminate.
  match goal with H : scan _ _ _ _ = true |- _ => rename H into Hs end.
  simpl in Hs.
  destruct (classify x) eqn:Cx; simpl in Hs; try discriminate;
  destruct (classify y) eqn:Cy; simpl in Hs; try discriminate;
  destruct (classify z) eqn:Cz; simpl in Hs; try discriminate;
  repeat match goal with
         | H : classify _ = WT |- _ => apply classify_T in H
         | H : classify _ = WR _ |- _ => apply classify_R in H
         | H : classify _ = WL _ |- _ => apply classify_L in H
         end; subst.
  - exists u, u0. apply Permutation_refl.
  - exists u0, u. apply perm_skip. apply perm_swap.
  - exists u, u0. apply perm_swap.
  - exists u, u0. eapply perm_trans; [apply perm_skip; apply perm_swap | apply perm_swap].
  - exists u0, u. eapply perm_trans; [apply perm_swap | apply perm_skip; apply perm_swap].
  - exists u0, u. eapply perm_trans; [apply perm_swap |].
    eapply perm_trans; [apply perm_skip; apply perm_swap | apply perm_swap].
Qed.

(* conversely the exact shapes (any order is covered by the examples below) take it *)
Lemma exact_shapes_take_trl_path ty a b :
  eight_term ty = true ->
  dispatch ty 2 2 [std_T; std_R a; std_L b] 2 0 false = PathTrl /\
  dispatch ty 2 2 [std_L b; std_T; std_R a] 2 0 false = PathTrl /\
  dispatch ty 2 2 [std_R a; std_L b; std_T] 2 0 false = PathTrl.
Proof. intros H. unfold dispatch, is_trl. rewrite H. simpl. rewrite !Nat.eqb_refl. simpl. auto. Qed.

(* TRL-shaped inputs that are not TRL go to the iterative solver *)
Example not_trl_examples :
  (* mismatched line: S11 = S22 = the same known parameter *)
  dispatch T8 2 2 [std_T; std_R 0; (Known 5, Unknown 1, Unknown 1, Known 5)] 2 0 false = PathAuto /\
  (* reflect with different unknowns on the two ports *)
  dispatch U8 2 2 [std_T; (Unknown 0, Zero, Zero, Unknown 2); std_L 1] 3 0 false = PathAuto /\
  (* asymmetric through *)
  dispatch TE10 2 2 [(Zero, One, Known 7, Zero); std_R 0; std_L 1] 2 0 false = PathAuto /\
  (* correlated instead of unknown reflect *)
  dispatch UE10 2 2 [std_T; (Corr 0, Zero, Zero, Corr 0); std_L 1] 2 1 false = PathAuto /\
  (* error model given, 16-term type, fourth standard *)
  dispatch T8 2 2 [std_T; std_R 0; std_L 1] 2 0 true = PathAuto /\
  dispatch T16 2 2 [std_T; std_R 0; std_L 1] 2 0 false = PathAuto /\
  dispatch T8 2 2 [std_T; std_R 0; std_L 1; (Zero, Zero, Zero, Zero)] 2 0 false = PathAuto.
Proof. repeat split; reflexivity. Qed.

(* ---------------- write-back ---------------- *)
Section Writeback.
Variables F V : Type.
Variable F_eqb : F -> F -> bool.
Hypothesis F_eqb_eq : forall a b, F_eqb a b = true <-> a = b.
Notation lookup := (lookup F V F_eqb).
Notation get := (get F V F_eqb).
Notation writeback := (writeback F V).

Lemma lookup_nth fs : forall vs i df dv, NoDup fs -> length fs = length vs -> i < length fs ->
  lookup fs vs (nth i fs df) = Some (nth i vs dv).
Proof.
  induction fs as [|a fr IH]; intros vs i df dv Hnd Hlen Hi; simpl in *; [inversion Hi|].
  destruct vs as [|v vr]; [discriminate|]. simpl in Hlen. inversion Hnd; subst.
  destruct i as [|i]; simpl.
  - assert (E : F_eqb a a = true) by (apply F_eqb_eq; reflexivity). rewrite E. reflexivity.
  - destruct (F_eqb a (nth i fr df)) eqn:E.
    + apply F_eqb_eq in E. exfalso. apply H1. rewrite E. apply nth_In. apply Nat.succ_lt_mono. exact Hi.
    + apply IH; auto. apply Nat.succ_lt_mono. exact Hi.
Qed.

(* after a solve, the value of the parameter at every calibration frequency of THAT solve is
   the solved value, whatever the parameter held before *)
Lemma writeback_exact old fs vs i df dv :
  NoDup fs -> length fs = length vs -> i < length fs ->
  get (writeback true old fs vs) (nth i fs df) = Some (nth i vs dv).
Proof. intros. unfold get, writeback. simpl. apply lookup_nth; assumption. Qed.
End Writeback.

(* the form that copies the grid only when the count changed keeps a stale grid *)
Lemma writeback_stale_grid_refuted :
  exists old fs vs, NoDup fs /\ length fs = length vs /\
    get nat nat Nat.eqb (writeback nat nat false old fs vs) (nth 0 fs 0) <> Some (nth 0 vs 0).
Proof.
  exists (PObj nat nat [1; 2] [10; 20]), [3; 4], [30; 40].
  split; [repeat constructor; simpl; intuition discriminate|]. split; [reflexivity|]. simpl. discriminate.
Qed.
