(* The premises of exact_data_fixed_point_core / exact_data_never_rejected_end_to_end_core are met:
   every one of them is PROVED for the instance ExactOverExample.ex_on (T8 1 x 1, four reflect
   standards, the library's term lists, noise model on) and the theorems are APPLIED to it.
     blocks_wf, data_exact      from the boolean forms (reflection lemmas below)
     v_regular                  the four 1 x 1 matrices tx s + 1 are inverted by q_minv
     reach                      the solve goes through exactly two V states: identity, and (tx s + 1)^-1
     full_rank_on               on both, with the w_offset the code uses: the least-squares oracle answers
                                (LsLuProofs.ls_lu_some_iff_full_rank), bridged to the list form
     solver_exact_on            on both, q_solve_ls returns the truth (computed), and a consistent
                                full-rank system has no other solution *)
Require Import List Arith Bool QArith Qcanon Lia.
Import ListNotations.
Require Import LV.Base.CField LV.Base.QcI LV.Lin.MatL LV.Lin.LuGenA LV.Lin.LuQI2 LV.Lin.LsProofs LV.Lin.LsLuProofs.
Require Import LV.SelfCal.PvalueModel LV.SelfCal.PvalueProofs LV.SelfCal.GuardModel LV.SelfCal.LsqModel.
Require Import LV.SelfCal.VMatrixModel LV.SelfCal.VMatrixQI.
Require Import LV.SelfCal.ExactOverModel LV.SelfCal.ExactOverProofs LV.SelfCal.ExactOverPvalue LV.SelfCal.ExactOverExample.
Local Open Scope nat_scope.

(* ---------------------------------------------------------------- reflection, any field *)
Section R.
Variable K : CField.
Variable ofq : Qc -> K.
Variable eqb0 : K -> bool.
Hypothesis eqb0_sound : forall z, eqb0 z = true -> z = c0.

Lemma eq_wfb_sound p e : eq_wfb K p e = true -> eq_wf K p e.
Proof.
  unfold eq_wfb, eq_wf. intros H t i Hin Hx. rewrite forallb_forall in H.
  specialize (H t Hin). rewrite Hx in H. apply Nat.ltb_lt. exact H.
Qed.

Lemma eq_exactb_sound p x e : eq_exactb K ofq eqb0 p x e = true -> eq_exact K ofq p x e.
Proof.
  unfold eq_exactb, eq_exact. intros H c. rewrite forallb_forall in H.
  destruct (in_dec Nat.eq_dec c (map vt_v (ve_terms e))) as [Hin|Hnin].
  - apply eqb0_sound. apply H. exact Hin.
  - unfold group_res. rewrite (filter_none (fun t => Nat.eqb (vt_v t) c)); [reflexivity|].
    intros t Ht. apply Nat.eqb_neq. intros E. apply Hnin. rewrite <- E. apply in_map. exact Ht.
Qed.

Definition data_exactb (p : vprob K) (xs : list (list K)) : bool :=
  forallb (fun se => forallb (fun e => eq_wfb K p e && eq_exactb K ofq eqb0 p (nth (fst se) xs []) e) (snd se))
          (number 0 (vp_systems p)).

Lemma number_nth {A} (l : list A) : forall k s a, nth_error l s = Some a -> In (k + s, a) (number k l).
Proof.
  induction l as [|b l IH]; intros k [|s] a H; simpl in *; try discriminate.
  - inversion H. left. f_equal. lia.
  - right. replace (k + S s) with (S k + s) by lia. apply IH. exact H.
Qed.

Lemma data_exactb_sound p xs : data_exactb p xs = true -> data_exact K ofq p xs.
Proof.
  unfold data_exactb. intros H s es e Hes He. rewrite forallb_forall in H.
  specialize (H (s, es) (number_nth _ 0 s es Hes)). cbn [fst snd] in H.
  rewrite forallb_forall in H. specialize (H e He). apply andb_prop in H. destruct H as (H1 & H2).
  split; [apply eq_wfb_sound; exact H1 | apply eq_exactb_sound; exact H2].
Qed.
End R.

(* ---------------------------------------------------------------- Q[i]: equality by computation *)
Lemma qi_list_eqb_sound a b : qi_list_eqb a b = true -> a = b.
Proof.
  unfold qi_list_eqb. intros H. apply andb_prop in H. destruct H as (Hl & Hf). apply Nat.eqb_eq in Hl.
  revert b Hl Hf. induction a as [|x a IH]; intros [|y b] Hl Hf; simpl in *; try discriminate; [reflexivity|].
  apply andb_prop in Hf. destruct Hf as (H1 & H2). f_equal; [apply qi_eqb_eq; exact H1 | apply IH; [lia | exact H2]].
Qed.

Definition omat_eqb (a b : option (list qi)) : bool :=
  match a, b with Some x, Some y => qi_list_eqb x y | None, None => true | _, _ => false end.
Lemma omat_eqb_sound a b : omat_eqb a b = true -> a = b.
Proof. destruct a, b; simpl; intros H; try discriminate; [f_equal; apply qi_list_eqb_sound; exact H | reflexivity]. Qed.
Definition vvec_eqb (a b : vvec qi) : bool :=
  match a, b with Some x, Some y => list_eqb omat_eqb x y | None, None => true | _, _ => false end.
Lemma vvec_eqb_sound a b : vvec_eqb a b = true -> a = b.
Proof.
  destruct a, b; simpl; intros H; try discriminate; [|reflexivity].
  f_equal. apply (list_eqb_sound omat_eqb omat_eqb_sound). exact H.
Qed.
Definition vstate_eqb (a b : vstate QIF) : bool := list_eqb vvec_eqb a b.
Lemma vstate_eqb_sound a b : vstate_eqb a b = true -> a = b.
Proof. apply (list_eqb_sound vvec_eqb vvec_eqb_sound). Qed.

(* ---------------------------------------------------------------- full column rank: matrix form -> list form *)
Lemma dot_sumf : forall (u : nat) (row y : list QIF), length row = u -> length y = u ->
  dot QIF row y = @sumf QIF u (fun k => @cmul QIF (nth k row (@c0 QIF)) (nth k y (@c0 QIF))).
Proof.
  induction u as [|u IH]; intros [|a row] [|b y] Hr Hy; simpl in Hr, Hy; try discriminate; [reflexivity|].
  change (S u) with (1 + u). rewrite (sumf_split QIF). cbn [sumf LsqModel.dot nth].
  rewrite (IH row y (eq_add_S _ _ Hr) (eq_add_S _ _ Hy)). apply qi_eq; simpl; ring.
Qed.

Lemma injective_of_full_col_rank (rows : list (list QIF * QIF)) (u : nat) (x0 : list QIF) :
  (forall ab, In ab rows -> length (fst ab) = u) -> length x0 = u ->
  full_col_rank (length rows) u (map fst rows) ->
  injective QIF (sys_of QIF rows) x0.
Proof.
  intros Hw Hx Hf y Hy Hall.
  assert (V : forall k, k < u -> @csub QIF (nth k y (@c0 QIF)) (nth k x0 (@c0 QIF)) = @c0 QIF).
  { apply (Hf (fun k => @csub QIF (nth k y (@c0 QIF)) (nth k x0 (@c0 QIF)))).
    intros i Hi.
    set (ab := nth i rows ([], @c0 QIF)).
    assert (Hin : In ab rows) by (apply nth_In; exact Hi).
    assert (Er : mrow QIF (map fst rows) i = fst ab).
    { unfold mrow, ab. rewrite (nth_indep _ [] (fst ([], @c0 QIF))) by (rewrite map_length; exact Hi).
      apply (map_nth fst). }
    assert (Ed : dot QIF (fst ab) y = dot QIF (fst ab) x0).
    { apply (Hall 1%Qc (fst ab) (snd ab)). unfold ExactOverModel.sys_of. apply in_map_iff. exists ab. split; [reflexivity | exact Hin]. }
    rewrite (dot_sumf u _ y (Hw ab Hin) (eq_trans Hy Hx)), (dot_sumf u _ x0 (Hw ab Hin) Hx) in Ed.
    unfold mget. rewrite Er.
    rewrite (sumf_ext QIF u _ (fun k => @csub QIF (@cmul QIF (nth k (fst ab) (@c0 QIF)) (nth k y (@c0 QIF)))
                                        (@cmul QIF (nth k (fst ab) (@c0 QIF)) (nth k x0 (@c0 QIF)))))
      by (intros k _; apply qi_eq; simpl; ring).
    rewrite (sumf_sub QIF), Ed. apply qi_eq; simpl; ring. }
  apply (nth_ext y x0 (@c0 QIF) (@c0 QIF)); [congruence|].
  intros k Hk. specialize (V k ltac:(lia)).
  transitivity (@cadd QIF (@csub QIF (nth k y (@c0 QIF)) (nth k x0 (@c0 QIF))) (nth k x0 (@c0 QIF))); [apply qi_eq; simpl; ring|].
  rewrite V. apply qi_eq; simpl; ring.
Qed.

(* a boolean certificate of full column rank *)
Definition rankb (u : nat) (rows : list (list qi * qi)) : bool :=
  forallb (fun ab => Nat.eqb (length (fst ab)) u) rows &&
  match q2_ls_lu (length rows) u 1 (map fst rows) (map (fun ab => [snd ab]) rows) with Some _ => true | None => false end.

Lemma rankb_injective u rows x0 : length x0 = u -> rankb u rows = true -> injective QIF (sys_of QIF rows) x0.
Proof.
  intros Hx H. unfold rankb in H. apply andb_prop in H. destruct H as (Hw & Hs).
  apply (injective_of_full_col_rank rows u x0).
  - intros ab Hin. rewrite forallb_forall in Hw. apply Nat.eqb_eq. apply Hw. exact Hin.
  - exact Hx.
  - apply (ls_lu_some_iff_full_rank (length rows) u 1 (map fst rows) (map (fun ab => [snd ab]) rows)).
    destruct (q2_ls_lu _ _ _ _ _) as [x|]; [exists x; reflexivity | discriminate].
Qed.

(* ---------------------------------------------------------------- the instance *)
Definition xs0 : list (list qi) := [ex_truth].
Definition ws0 := calc_weights QIF qi_nrm ex_rsqrt ex_on.
Definition st0 : vstate QIF := init_v_matrices QIF (v_n QIF ex_on) (alloc_v QIF ex_on).
Definition upd (st : vstate QIF) : option (vstate QIF) :=
  update_v_matrices QIF q_minv ex_on 0 ex_truth (vp_stds ex_on) st.
Definition st1 : vstate QIF := match upd st0 with Some s => s | None => [] end.

Lemma upd_st0 : upd st0 = Some st1.
Proof.
  unfold st1. destruct (upd st0) as [s|] eqn:E; [reflexivity|].
  exfalso. assert (H : (match upd st0 with Some _ => true | None => false end) = true) by (vm_compute; reflexivity).
  rewrite E in H. discriminate.
Qed.

Lemma upd_st1 : upd st1 = Some st1.
Proof.
  assert (H : (match upd st1 with Some s => vstate_eqb s st1 | None => false end) = true) by (vm_compute; reflexivity).
  destruct (upd st1) as [s|]; [|discriminate]. f_equal. apply vstate_eqb_sound. exact H.
Qed.

Lemma reach_two st : reach QIF q_minv ex_on xs0 st0 st -> st = st0 \/ st = st1.
Proof.
  induction 1 as [|st s st' _ IH Hs Hu]; [left; reflexivity|].
  assert (s = 0) by (cbn in Hs; lia). subst s.
  change (upd st = Some st') in Hu.
  destruct IH as [-> | ->]; [rewrite upd_st0 in Hu | rewrite upd_st1 in Hu]; inversion Hu; right; reflexivity.
Qed.

Definition rows_at (st : vstate QIF) : list (list qi * qi) :=
  build_eqs QIF qi_of_Qc ex_on st 0 ws0 (woff_of QIF ex_on 0) (nth 0 (vp_systems ex_on) []).

Lemma ex_blocks : blocks_wf QIF ex_on xs0.
Proof. split; [reflexivity|]. intros x [<-|[]]. reflexivity. Qed.

Lemma ex_data : data_exact QIF qi_of_Qc ex_on xs0.
Proof.
  apply (data_exactb_sound QIF qi_of_Qc qi_isz).
  - intros z H. apply qi_eqb_eq. exact H.
  - vm_compute. reflexivity.
Qed.

Lemma ex_counts : forall es, In es (vp_systems ex_on) -> vp_unknowns ex_on <= length es.
Proof. intros es [<-|[]]. vm_compute. lia. Qed.

Lemma ex_regular : v_regular QIF q_minv ex_on xs0.
Proof.
  intros s sd Hs Hin. assert (s = 0) by (cbn in Hs; lia). subst s.
  assert (H : forallb (fun sd => match q_minv (v_n QIF ex_on) (vi_matrix QIF ex_on 0 sd (nth 0 xs0 [])) with
                                 | Some _ => true | None => false end) (vp_stds ex_on) = true) by (vm_compute; reflexivity).
  rewrite forallb_forall in H. specialize (H sd Hin). intros E.
  match type of E with ?L = None =>
    assert (H' : match L with Some _ => true | None => false end = true) by exact H end.
  rewrite E in H'. discriminate.
Qed.

Lemma ex_nth_sys s es : nth_error (vp_systems ex_on) s = Some es -> s = 0 /\ es = nth 0 (vp_systems ex_on) [].
Proof. destruct s as [|[|s]]; cbn; intros H; inversion H; split; reflexivity. Qed.

Lemma ex_full_rank : full_rank_on QIF qi_of_Qc q_minv ex_on xs0 ws0 st0.
Proof.
  intros st s es Hr Hes. destruct (ex_nth_sys s es Hes) as (-> & ->).
  change (injective QIF (sys_of QIF (rows_at st)) ex_truth).
  apply (rankb_injective 3); [reflexivity|].
  destruct (reach_two st Hr) as [-> | ->]; vm_compute; reflexivity.
Qed.

Definition sol (st : vstate QIF) : option (list qi) :=
  solve_rows QIF q_solve_sq q_solve_ls (vp_unknowns ex_on) (rows_at st).
Definition solves_truth (st : vstate QIF) : bool :=
  match sol st with Some y => qi_list_eqb y ex_truth | None => false end.

(* conversion must compare these by name, never by unfolding them on symbolic V states *)
Local Strategy opaque [solve_rows build_eqs].

Lemma solves_truth_st0 : solves_truth st0 = true.
Proof. vm_compute. reflexivity. Qed.
Lemma solves_truth_st1 : solves_truth st1 = true.
Proof. vm_compute. reflexivity. Qed.

Lemma truth_consistent st : consistent QIF (sys_of QIF (rows_at st)) ex_truth.
Proof.
  unfold rows_at. apply (build_eqs_consistent QIF qi_of_Qc ex_on ex_truth st 0 ws0).
  intros e He. apply (ex_data 0 (nth 0 (vp_systems ex_on) []) e eq_refl He).
Qed.

Lemma some_of_eqb (o : option (list qi)) (t : list qi) :
  match o with Some y => qi_list_eqb y t | None => false end = true -> o = Some t.
Proof. destruct o as [y|]; [|discriminate]. intros H. f_equal. apply qi_list_eqb_sound. exact H. Qed.

Lemma sol_truth st : solves_truth st = true -> sol st = Some ex_truth.
Proof. unfold solves_truth. apply some_of_eqb. Qed.

Lemma solve_rows_at st : reach QIF q_minv ex_on xs0 st0 st -> sol st = Some ex_truth.
Proof.
  intros Hr. apply sol_truth.
  destruct (reach_two st Hr) as [E | E]; rewrite E; [exact solves_truth_st0 | exact solves_truth_st1].
Qed.

Lemma ex_solver : solver_exact_on QIF qi_of_Qc q_minv q_solve_sq q_solve_ls ex_on xs0 ws0 st0.
Proof.
  intros st s es x0 Hr Hes rows Hlen Hc Hi. destruct (ex_nth_sys s es Hes) as (-> & ->).
  (* the truth solves the same rows (row theorem), so it is the unique solution x0 *)
  assert (Ht : ex_truth = x0).
  { apply Hi; [rewrite Hlen; reflexivity|]. intros w row b Hin.
    rewrite (Hc w row b Hin). exact (truth_consistent st w row b Hin). }
  rewrite <- Ht. subst rows. change (sol st = Some ex_truth). exact (solve_rows_at st Hr).
Qed.

Lemma qi_nrm_c0 : qi_nrm (@c0 QIF) = 0%Qc.
Proof. reflexivity. Qed.

(* THE THEOREMS APPLIED TO THE INSTANCE (not re-evaluated): for every et_tolerance, every initial x and
   every iteration limit >= 2 the solve of ex_on returns the truth in one or two passes ... *)
Theorem exact_data_fixed_point_satisfiable_l : forall (tol : Qc) (limit : nat) (xinit : list qi), 2 <= limit ->
  exists st' ns, solve_frequency QIF qi_nrm ex_rsqrt qi_of_Qc q_minv q_solve_sq q_solve_ls tol limit xinit (alloc_v QIF ex_on) ex_on
                 = SOk (concat xs0, st', ns) /\
                 Forall (fun n => 1 <= n <= 2) ns /\ length ns = length (vp_systems ex_on).
Proof.
  intros tol limit xinit Hl.
  exact (exact_data_fixed_point_core QIF qi_nrm ex_rsqrt qi_of_Qc q_minv q_solve_sq q_solve_ls qi_nrm_c0
           ex_on xs0 tol limit xinit (alloc_v QIF ex_on) ex_blocks ex_data ex_counts Hl ex_full_rank ex_regular ex_solver).
Qed.

(* ... and is never rejected: statistic 0, p-value 1, for every exp / erfc / sqrt and every limit <= 1 *)
Theorem exact_data_never_rejected_satisfiable_l : forall (exp erfc sqrt : Qc -> Qc) (pi tol : Qc) (limit : nat) (xinit : list qi)
  (ms : mstate) (findex : nat) (plimit : Qc), 2 <= limit -> (plimit <= 1)%Qc ->
  exists st' ns,
    solve_frequency QIF qi_nrm ex_rsqrt qi_of_Qc q_minv q_solve_sq q_solve_ls tol limit xinit (alloc_v QIF ex_on) ex_on
      = SOk (concat xs0, st', ns) /\
    forall nf tr,
    fst (calc_stat QIF c0 c1 cadd cmul copp qi_nrm (vp_unknowns ex_on) nf tr (concat xs0)
                   (pv_systems QIF ex_on st' 0 (vp_systems ex_on)) None) = 0%Qc /\
    calc_pvalue QIF c0 c1 cadd cmul copp qi_nrm exp erfc sqrt pi (vp_unknowns ex_on) nf tr (concat xs0)
                (pv_systems QIF ex_on st' 0 (vp_systems ex_on)) None = 1%Qc /\
    solve_rejects QIF c0 c1 cadd cmul copp qi_nrm exp erfc sqrt pi ms plimit findex (vp_unknowns ex_on) (concat xs0)
                  (pv_systems QIF ex_on st' 0 (vp_systems ex_on)) None = false.
Proof.
  intros exp erfc sqrt pi tol limit xinit ms findex plimit Hl Hp.
  exact (exact_data_never_rejected_end_to_end_core QIF qi_nrm ex_rsqrt qi_of_Qc q_minv q_solve_sq q_solve_ls exp erfc sqrt pi
           qi_nrm_c0 ex_on xs0 tol limit xinit (alloc_v QIF ex_on) None ms findex plimit
           ex_blocks ex_data ex_counts Hl ex_full_rank ex_regular ex_solver I Hp).
Qed.

(* the conversion real -> complex used by the instances has the laws intended of ofq ("double -> double
   complex"); the general theorems assume none of them (they hold for every ofq) *)
Lemma qi_of_Qc_laws :
  qi_of_Qc 0%Qc = @c0 QIF /\ qi_of_Qc 1%Qc = @c1 QIF /\
  (forall a b, qi_of_Qc (a + b)%Qc = @cadd QIF (qi_of_Qc a) (qi_of_Qc b)) /\
  (forall a b, qi_of_Qc (a * b)%Qc = @cmul QIF (qi_of_Qc a) (qi_of_Qc b)) /\
  (forall a (z : qi), qi_nrm (@cmul QIF z (qi_of_Qc a)) = (a * a * qi_nrm z)%Qc).
Proof.
  repeat split; try reflexivity; intros; try (apply qi_eq; simpl; ring).
  unfold qi_nrm; simpl. ring.
Qed.
