(* Lemmas about SelfCal/TrlTermsModel.v: with the true l and r in the S matrices, the linear system
   of _vnacal_new_solve_trl is solved exactly by the normalised true error box and by nothing
   else (full column rank), and vnacal_apply with those terms returns every device.
   T8 (TE10 after leakage removal) and U8 (UE10). *)
Require Import List Field.
Import ListNotations.
Require Import LV.Base.CField LV.SelfCal.TrlModel LV.SelfCal.TrlTermsModel.
Local Open Scope cf_scope.

Section P.
Variable K : CField.
Add Field Kf : (cth K).
Notation m2 := (m2 K).

Lemma mul_cancel (x y : K) : x <> 0 -> x * y = 0 -> y = 0.
Proof. intros Hx H. transitivity ((1 / x) * (x * y)); [field; exact Hx | rewrite H; ring]. Qed.

Lemma nz_mul (x y : K) : x <> 0 -> y <> 0 -> x * y <> 0.
Proof. intros Hx Hy E. apply Hy. exact (mul_cancel x y Hx E). Qed.

Lemma sub_zero (x y : K) : x - y = 0 -> x = y.
Proof. intros H. transitivity (x - y + y); [ring | rewrite H; ring]. Qed.

Definition lin_t11 (e : tbox K) (s m : m2) : Prop :=
  - ts1 K e * m11 s - ti1 K e + m11 m * m11 s * tx1 K e + m12 m * m21 s * tx2 K e + m11 m * tm1 K e = 0.
Definition lin_t12 (e : tbox K) (s m : m2) : Prop :=
  - ts1 K e * m12 s + m11 m * m12 s * tx1 K e + m12 m * m22 s * tx2 K e + m12 m * tm2 K e = 0.
Definition lin_t21 (e : tbox K) (s m : m2) : Prop :=
  - ts2 K e * m21 s + m21 m * m11 s * tx1 K e + m22 m * m21 s * tx2 K e + m21 m * tm1 K e = 0.
Definition lin_t22 (e : tbox K) (s m : m2) : Prop :=
  - ts2 K e * m22 s - ti2 K e + m21 m * m12 s * tx1 K e + m22 m * m22 s * tx2 K e + m22 m * tm2 K e = 0.
Definition lin_t (e : tbox K) (s m : m2) : Prop :=
  lin_t11 e s m /\ lin_t12 e s m /\ lin_t21 e s m /\ lin_t22 e s m.

Ltac unf := unfold lin_t, lin_t11, lin_t12, lin_t21, lin_t22, meas_t, tdet, s_through, s_line, s_reflect, sat, t_row11, t_row12, t_row21, t_row22,
  x_of_tbox, tbox_of_x, tnorm, adet_t, corr_t, tdelta1, tdelta2 in *; cbn [fst snd rdot nth m11 m12 m21 m22
  ts1 ts2 ti1 ti2 tx1 tx2 tm1 tm2] in *.
Ltac side H := let E := fresh "E" in intro E; apply H; etransitivity; [|exact E]; ring.
Ltac from H := match type of H with ?a = ?b => transitivity (a - b); [ring | rewrite H; ring] end.
Ltac to H := apply sub_zero; match type of H with ?a = _ => transitivity a; [ring | exact H] end.

Lemma meas_t_lin (e : tbox K) (s : m2) : tdet K e s <> 0 -> lin_t e s (meas_t K e s).
Proof.
  destruct e, s; intros H; unf. repeat split; field; side H.
Qed.

Lemma t_rows_lin (e : tbox K) (s m : m2) : tm1 K e = 1 ->
  (sat K (x_of_tbox K e) (t_row11 K s m) /\ sat K (x_of_tbox K e) (t_row12 K s m) /\
   sat K (x_of_tbox K e) (t_row21 K s m) /\ sat K (x_of_tbox K e) (t_row22 K s m)) <-> lin_t e s m.
Proof.
  destruct e, s, m; unf; intros ->. split; intros (H1 & H2 & H3 & H4).
  - repeat split; [from H1 | from H2 | from H3 | from H4].
  - repeat split; [to H1 | to H2 | to H3 | to H4].
Qed.

(* ---- uniqueness ---- *)
Definition prop_t (e e' : tbox K) : Prop :=
  ts1 K e' * tm1 K e = tm1 K e' * ts1 K e /\ ts2 K e' * tm1 K e = tm1 K e' * ts2 K e /\
  ti1 K e' * tm1 K e = tm1 K e' * ti1 K e /\ ti2 K e' * tm1 K e = tm1 K e' * ti2 K e /\
  tx1 K e' * tm1 K e = tm1 K e' * tx1 K e /\ tx2 K e' * tm1 K e = tm1 K e' * tx2 K e /\
  tm2 K e' * tm1 K e = tm1 K e' * tm2 K e.

Lemma t_unique (e e' : tbox K) (l r : K) :
  tm1 K e <> 0 -> tm2 K e <> 0 -> tdelta1 K e <> 0 -> tdelta2 K e <> 0 -> l * l - 1 <> 0 -> r <> 0 ->
  tdet K e (s_through K) <> 0 -> tdet K e (s_line K l) <> 0 -> tdet K e (s_reflect K r) <> 0 ->
  lin_t e' (s_through K) (meas_t K e (s_through K)) ->
  lin_t e' (s_line K l) (meas_t K e (s_line K l)) ->
  lin_t11 e' (s_reflect K r) (meas_t K e (s_reflect K r)) ->
  prop_t e e'.
Proof.
  destruct e as [s1 s2 i1 i2 x1 x2 n1 n2], e' as [a1 a2 b1 b2 c1 c2 d1 d2].
  unfold prop_t. unf.
  intros Hn1 Hn2 Hd1 Hd2 Hl Hr Ht HL HR (T11 & T12 & T21 & T22) (L11 & L12 & L21 & L22) R11.
  (* group A: tm1', tx2' *)
  assert (A1 : c2 * n1 = d1 * x2).
  { apply sub_zero. apply (mul_cancel ((l * l - 1) * (s1 * n1 - i1 * x1) * n1 * n2)).
    - repeat apply nz_mul; assumption.
    - match type of T11 with ?et = 0 => match type of L11 with ?el = 0 =>
        transitivity (((x1 * 0 + n1) * (x2 * 0 + n2) - x1 * 1 * (x2 * 1)) *
                      ((x1 * 0 + n1) * (x2 * 0 + n2) - x1 * l * (x2 * l)) * n1 * (el - et));
        [field; repeat split; first [side Ht | side HL] | rewrite T11, L11; ring] end end. }
  (* group B: tx1', tm2' *)
  assert (B1 : c1 * n2 = d2 * x1).
  { apply sub_zero. apply (mul_cancel ((l * l - 1) * (s2 * n2 - i2 * x2) * n1 * n2)).
    - repeat apply nz_mul; assumption.
    - match type of T22 with ?et = 0 => match type of L22 with ?el = 0 =>
        transitivity (((x1 * 0 + n1) * (x2 * 0 + n2) - x1 * 1 * (x2 * 1)) *
                      ((x1 * 0 + n1) * (x2 * 0 + n2) - x1 * l * (x2 * l)) * n2 * (el - et));
        [field; repeat split; first [side Ht | side HL] | rewrite T22, L22; ring] end end. }
  (* the other members of group A *)
  assert (A2 : b1 * n1 = d1 * i1).
  { apply sub_zero. match type of T11 with ?et = 0 =>
      transitivity (- n1 * et + (s1 * n1 - i1 * x1) / (n1 * n2 - x1 * x2) * (c2 * n1 - d1 * x2));
      [field; side Ht | rewrite T11, A1; ring] end. }
  assert (A3 : a2 * n1 = d1 * s2).
  { apply sub_zero. match type of T21 with ?et = 0 =>
      transitivity (- n1 * et + (i2 * n1 - s2 * x1) / (n1 * n2 - x1 * x2) * (c2 * n1 - d1 * x2));
      [field; side Ht | rewrite T21, A1; ring] end. }
  (* the other members of group B *)
  assert (B2 : a1 * n2 = d2 * s1).
  { apply sub_zero. match type of T12 with ?et = 0 =>
      transitivity (- n2 * et + (i1 * n2 - s1 * x2) / (n1 * n2 - x1 * x2) * (c1 * n2 - d2 * x1));
      [field; side Ht | rewrite T12, B1; ring] end. }
  assert (B3 : b2 * n2 = d2 * i2).
  { apply sub_zero. match type of T22 with ?et = 0 =>
      transitivity (- n2 * et + (s2 * n2 - i2 * x2) / (n1 * n2 - x1 * x2) * (c1 * n2 - d2 * x1));
      [field; side Ht | rewrite T22, B1; ring] end. }
  (* the reflect couples the two groups *)
  assert (Hf1 : x1 * r + n1 <> 0).
  { intro E. apply HR. rewrite E. ring. }
  assert (Hf2 : x2 * r + n2 <> 0).
  { intro E. apply HR. rewrite E. ring. }
  assert (C : d2 * n1 = d1 * n2).
  { apply sub_zero. apply (mul_cancel (r * (s1 * n1 - i1 * x1))).
    - apply nz_mul; assumption.
    - match type of R11 with ?er = 0 =>
        transitivity (- (x1 * r + n1) * (n1 * n2 * er + r * n1 * (a1 * n2 - d2 * s1) + n2 * (b1 * n1 - d1 * i1)
                                         - (s1 * r + i1) / (x1 * r + n1) * r * n1 * (c1 * n2 - d2 * x1)));
        [field; repeat split; assumption | rewrite R11, B2, A2, B1; ring] end. }
  assert (G : forall u v : K, u * n2 = d2 * v -> u * n1 = d1 * v).
  { intros u v H. apply sub_zero. apply (mul_cancel n2 _ Hn2).
    transitivity (n1 * (u * n2 - d2 * v) + v * (d2 * n1 - d1 * n2)); [ring | rewrite H, C; ring]. }
  repeat split; auto.
Qed.

(* single rows <-> single equations, for a box with unity term 1 *)
Lemma t_row11_lin e s m : tm1 K e = 1 -> (sat K (x_of_tbox K e) (t_row11 K s m) <-> lin_t11 e s m).
Proof. destruct e, s, m; unf; intros ->. split; intros H; [from H | to H]. Qed.
Lemma t_row22_lin e s m : tm1 K e = 1 -> (sat K (x_of_tbox K e) (t_row22 K s m) <-> lin_t22 e s m).
Proof. destruct e, s, m; unf; intros ->. split; intros H; [from H | to H]. Qed.

(* exactness: the normalised true box satisfies the documented equation of every device *)
Lemma tnorm_lin (e : tbox K) (s : m2) : tm1 K e <> 0 -> tdet K e s <> 0 -> lin_t (tnorm K e) s (meas_t K e s).
Proof.
  destruct e, s; intros Hn H; unf. repeat split; field; repeat split; first [exact Hn | side H].
Qed.

(* vnacal_apply returns S whenever the terms satisfy the equation of (S, M) and its
   determinant is not zero (Cramer) *)
Lemma corr_t_lin (e : tbox K) (s m : m2) : lin_t e s m -> adet_t K e m <> 0 -> corr_t K e m = s.
Proof.
  destruct e as [s1 s2 i1 i2 x1 x2 n1 n2], s as [p11 p12 p21 p22], m as [q11 q12 q21 q22]. unfold corr_t. unf.
  intros (H11 & H12 & H21 & H22) Hd.
  set (a11 := s1 - q11 * x1) in *. set (a12 := - (q12 * x2)) in *.
  set (a21 := - (q21 * x1)) in *. set (a22 := s2 - q22 * x2) in *.
  assert (E11 : q11 * n1 - i1 = a11 * p11 + a12 * p21) by (apply sub_zero; unfold a11, a12; to H11).
  assert (E12 : q12 * n2 = a11 * p12 + a12 * p22) by (apply sub_zero; unfold a11, a12; to H12).
  assert (E21 : q21 * n1 = a21 * p11 + a22 * p21) by (apply sub_zero; unfold a21, a22; to H21).
  assert (E22 : q22 * n2 - i2 = a21 * p12 + a22 * p22) by (apply sub_zero; unfold a21, a22; to H22).
  rewrite E11, E12, E21, E22. clearbody a11 a12 a21 a22.
  f_equal; field; exact Hd.
Qed.

Lemma len7 (x : list K) : length x = 7 -> x = x_of_tbox K (tbox_of_x K x).
Proof.
  destruct x as [|a [|b [|c [|d [|e [|f [|g [|? ?]]]]]]]]; try discriminate. reflexivity.
Qed.

(* With the true l and r in the S matrices:
   (1) the normalised true box solves every equation of the system exactly;
   (2) any solution of the system is the normalised true box (the system has full column rank);
   (3) vnacal_apply with a solution returns every device whose measurement it is given,
       whenever it does not report a singular system. *)
Lemma trl_terms_t (e : tbox K) (l r : K) (order : list skind) :
  tm1 K e <> 0 -> tm2 K e <> 0 -> tdelta1 K e <> 0 -> tdelta2 K e <> 0 -> l * l - 1 <> 0 -> r <> 0 ->
  tdet K e (s_through K) <> 0 -> tdet K e (s_line K l) <> 0 -> tdet K e (s_reflect K r) <> 0 ->
  In KT order -> In KR order -> In KL order ->
  let rows := trl_rows_t K order (meas_t K e (s_through K)) (meas_t K e (s_reflect K r))
                         (meas_t K e (s_line K l)) l r in
  (forall row, In row rows -> sat K (x_of_tbox K (tnorm K e)) row) /\
  (forall x, length x = 7 -> (forall row, In row rows -> sat K x row) ->
     x = x_of_tbox K (tnorm K e) /\
     forall s, tdet K e s <> 0 -> adet_t K (tbox_of_x K x) (meas_t K e s) <> 0 ->
               corr_t K (tbox_of_x K x) (meas_t K e s) = s).
Proof.
  intros Hn1 Hn2 Hd1 Hd2 Hl Hr Ht HL HR IT IR IL rows.
  assert (Hu : tm1 K (tnorm K e) = 1) by reflexivity.
  split.
  - intros row Hin. unfold rows, trl_rows_t in Hin. apply in_flat_map in Hin.
    destruct Hin as (k & _ & Hin).
    destruct k; cbn [In] in Hin.
    + pose proof (proj2 (t_rows_lin _ _ _ Hu) (tnorm_lin e _ Hn1 Ht)) as (A & B & C & D).
      destruct Hin as [<-|[<-|[<-|[<-|[]]]]]; assumption.
    + pose proof (tnorm_lin e _ Hn1 HR) as (A & _ & _ & D).
      destruct Hin as [<-|[<-|[]]]; [apply (t_row11_lin _ _ _ Hu) | apply (t_row22_lin _ _ _ Hu)]; assumption.
    + pose proof (proj2 (t_rows_lin _ _ _ Hu) (tnorm_lin e _ Hn1 HL)) as (A & B & C & D).
      destruct Hin as [<-|[<-|[<-|[<-|[]]]]]; assumption.
  - intros x Hlen Hsat.
    pose proof (len7 x Hlen) as Ex. set (e' := tbox_of_x K x) in *.
    assert (Hu' : tm1 K e' = 1) by reflexivity.
    assert (Hrow : forall k row, In k order ->
              In row ((fun k => match k with
                | KT => [t_row11 K (s_through K) (meas_t K e (s_through K)); t_row12 K (s_through K) (meas_t K e (s_through K));
                         t_row21 K (s_through K) (meas_t K e (s_through K)); t_row22 K (s_through K) (meas_t K e (s_through K))]
                | KR => [t_row11 K (s_reflect K r) (meas_t K e (s_reflect K r)); t_row22 K (s_reflect K r) (meas_t K e (s_reflect K r))]
                | KL => [t_row11 K (s_line K l) (meas_t K e (s_line K l)); t_row12 K (s_line K l) (meas_t K e (s_line K l));
                         t_row21 K (s_line K l) (meas_t K e (s_line K l)); t_row22 K (s_line K l) (meas_t K e (s_line K l))]
                end) k) -> sat K (x_of_tbox K e') row).
    { intros k row Hk Hin. rewrite <- Ex. apply Hsat. unfold rows, trl_rows_t. apply in_flat_map.
      exists k. split; assumption. }
    assert (LT : lin_t e' (s_through K) (meas_t K e (s_through K))).
    { apply (t_rows_lin _ _ _ Hu'). repeat split; apply (Hrow KT _ IT); cbn [In]; auto. }
    assert (LL : lin_t e' (s_line K l) (meas_t K e (s_line K l))).
    { apply (t_rows_lin _ _ _ Hu'). repeat split; apply (Hrow KL _ IL); cbn [In]; auto 6. }
    assert (LR : lin_t11 e' (s_reflect K r) (meas_t K e (s_reflect K r))).
    { apply (t_row11_lin _ _ _ Hu'). apply (Hrow KR _ IR). cbn [In]; auto. }
    pose proof (t_unique e e' l r Hn1 Hn2 Hd1 Hd2 Hl Hr Ht HL HR LT LL LR) as P.
    assert (Ee : e' = tnorm K e).
    { unfold prop_t in P. rewrite Hu' in P. destruct P as (P1 & P2 & P3 & P4 & P5 & P6 & P7).
      assert (Q : forall u v : K, u * tm1 K e = 1 * v -> u = v / tm1 K e).
      { intros u v H. transitivity (u * tm1 K e / tm1 K e); [field; exact Hn1 | rewrite H; field; exact Hn1]. }
      apply Q in P1, P2, P3, P4, P5, P6, P7.
      unfold e', tbox_of_x in *. cbn [ts1 ts2 ti1 ti2 tx1 tx2 tm1 tm2] in *.
      unfold tnorm. rewrite P1, P2, P3, P4, P5, P6, P7. reflexivity. }
    split; [rewrite Ex, Ee; reflexivity|].
    intros s Hs Hdet. apply corr_t_lin; [|exact Hdet].
    rewrite Ee. apply tnorm_lin; assumption.
Qed.

(* ================================================================= U8 / UE10 *)
(* the four scalar equations of  (Um' - S Ux') M = S Us' - Ui'  (homogeneous form) *)
Definition lin_u11 (e : ubox K) (s m : m2) : Prop :=
  um1 K e * m11 m + ui1 K e - m11 s * ux1 K e * m11 m - m12 s * ux2 K e * m21 m - m11 s * us1 K e = 0.
Definition lin_u12 (e : ubox K) (s m : m2) : Prop :=
  um1 K e * m12 m - m11 s * ux1 K e * m12 m - m12 s * ux2 K e * m22 m - m12 s * us2 K e = 0.
Definition lin_u21 (e : ubox K) (s m : m2) : Prop :=
  um2 K e * m21 m - m21 s * ux1 K e * m11 m - m22 s * ux2 K e * m21 m - m21 s * us1 K e = 0.
Definition lin_u22 (e : ubox K) (s m : m2) : Prop :=
  um2 K e * m22 m + ui2 K e - m21 s * ux1 K e * m12 m - m22 s * ux2 K e * m22 m - m22 s * us2 K e = 0.
Definition lin_u (e : ubox K) (s m : m2) : Prop :=
  lin_u11 e s m /\ lin_u12 e s m /\ lin_u21 e s m /\ lin_u22 e s m.

Ltac unfu := unfold lin_u, lin_u11, lin_u12, lin_u21, lin_u22, meas_u, udet, s_through, s_line, s_reflect, sat,
  u_row11, u_row12, u_row21, u_row22, x_of_ubox, ubox_of_x, unorm, adet_u, udelta1, udelta2 in *;
  cbn [fst snd rdot nth m11 m12 m21 m22 um1 um2 ui1 ui2 ux1 ux2 us1 us2] in *.

Lemma meas_u_lin (e : ubox K) (s : m2) : udet K e s <> 0 -> lin_u e s (meas_u K e s).
Proof.
  destruct e, s; intros H; unfu. repeat split; field; side H.
Qed.

Lemma u_rows_lin (e : ubox K) (s m : m2) : um1 K e = 1 ->
  (sat K (x_of_ubox K e) (u_row11 K s m) /\ sat K (x_of_ubox K e) (u_row12 K s m) /\
   sat K (x_of_ubox K e) (u_row21 K s m) /\ sat K (x_of_ubox K e) (u_row22 K s m)) <-> lin_u e s m.
Proof.
  destruct e, s, m; unfu; intros ->. split; intros (H1 & H2 & H3 & H4).
  - repeat split; [from H1 | from H2 | from H3 | from H4].
  - repeat split; [to H1 | to H2 | to H3 | to H4].
Qed.
Lemma u_row11_lin e s m : um1 K e = 1 -> (sat K (x_of_ubox K e) (u_row11 K s m) <-> lin_u11 e s m).
Proof. destruct e, s, m; unfu; intros ->. split; intros H; [from H | to H]. Qed.
Lemma u_row22_lin e s m : um1 K e = 1 -> (sat K (x_of_ubox K e) (u_row22 K s m) <-> lin_u22 e s m).
Proof. destruct e, s, m; unfu; intros ->. split; intros H; [from H | to H]. Qed.

Definition prop_u (e e' : ubox K) : Prop :=
  um2 K e' * um1 K e = um1 K e' * um2 K e /\
  ui1 K e' * um1 K e = um1 K e' * ui1 K e /\ ui2 K e' * um1 K e = um1 K e' * ui2 K e /\
  ux1 K e' * um1 K e = um1 K e' * ux1 K e /\ ux2 K e' * um1 K e = um1 K e' * ux2 K e /\
  us1 K e' * um1 K e = um1 K e' * us1 K e /\ us2 K e' * um1 K e = um1 K e' * us2 K e.

Lemma u_unique (e e' : ubox K) (l r : K) :
  um1 K e <> 0 -> um2 K e <> 0 -> udelta1 K e <> 0 -> udelta2 K e <> 0 -> l * l - 1 <> 0 -> r <> 0 ->
  udet K e (s_through K) <> 0 -> udet K e (s_line K l) <> 0 -> udet K e (s_reflect K r) <> 0 ->
  lin_u e' (s_through K) (meas_u K e (s_through K)) ->
  lin_u e' (s_line K l) (meas_u K e (s_line K l)) ->
  lin_u11 e' (s_reflect K r) (meas_u K e (s_reflect K r)) ->
  prop_u e e'.
Proof.
  destruct e as [n1 n2 i1 i2 x1 x2 s1 s2], e' as [a1 a2 b1 b2 c1 c2 d1 d2].
  unfold prop_u. unfu.
  intros Hn1 Hn2 Hd1 Hd2 Hl Hr Ht HL HR (T11 & T12 & T21 & T22) (L11 & L12 & L21 & L22) R11.
  (* row 1: um1', ux2' *)
  assert (A1 : c2 * n1 = a1 * x2).
  { apply sub_zero. apply (mul_cancel (- ((l * l - 1) * (s1 * n1 - i1 * x1) * n1 * n2))).
    - intro E. apply (nz_mul _ _ (nz_mul _ _ (nz_mul _ _ Hl Hd1) Hn1) Hn2).
      transitivity (- - ((l * l - 1) * (s1 * n1 - i1 * x1) * n1 * n2)); [ring | rewrite E; ring].
    - match type of T11 with ?et = 0 => match type of L11 with ?el = 0 =>
        transitivity (((n1 - 0 * x1) * (n2 - 0 * x2) - 1 * x2 * (1 * x1)) *
                      ((n1 - 0 * x1) * (n2 - 0 * x2) - l * x2 * (l * x1)) * n1 * (el - et));
        [field; repeat split; first [side Ht | side HL] | rewrite T11, L11; ring] end end. }
  (* row 2: um2', ux1' *)
  assert (B1 : c1 * n2 = a2 * x1).
  { apply sub_zero. apply (mul_cancel (- ((l * l - 1) * (s2 * n2 - i2 * x2) * n1 * n2))).
    - intro E. apply (nz_mul _ _ (nz_mul _ _ (nz_mul _ _ Hl Hd2) Hn1) Hn2).
      transitivity (- - ((l * l - 1) * (s2 * n2 - i2 * x2) * n1 * n2)); [ring | rewrite E; ring].
    - match type of T22 with ?et = 0 => match type of L22 with ?el = 0 =>
        transitivity (((n1 - 0 * x1) * (n2 - 0 * x2) - 1 * x2 * (1 * x1)) *
                      ((n1 - 0 * x1) * (n2 - 0 * x2) - l * x2 * (l * x1)) * n2 * (el - et));
        [field; repeat split; first [side Ht | side HL] | rewrite T22, L22; ring] end end. }
  assert (A2 : b1 * n1 = a1 * i1).
  { apply sub_zero. match type of T11 with ?et = 0 =>
      transitivity (n1 * et + (n1 * s1 - x1 * i1) / (n1 * n2 - x1 * x2) * (c2 * n1 - a1 * x2));
      [field; side Ht | rewrite T11, A1; ring] end. }
  assert (A3 : d2 * n1 = a1 * s2).
  { apply sub_zero. match type of T12 with ?et = 0 =>
      transitivity (- n1 * et - (x1 * s2 - n1 * i2) / (n1 * n2 - x1 * x2) * (c2 * n1 - a1 * x2));
      [field; side Ht | rewrite T12, A1; ring] end. }
  assert (B2 : b2 * n2 = a2 * i2).
  { apply sub_zero. match type of T22 with ?et = 0 =>
      transitivity (n2 * et + (n2 * s2 - x2 * i2) / (n1 * n2 - x1 * x2) * (c1 * n2 - a2 * x1));
      [field; side Ht | rewrite T22, B1; ring] end. }
  assert (B3 : d1 * n2 = a2 * s1).
  { apply sub_zero. match type of T21 with ?et = 0 =>
      transitivity (- n2 * et - (x2 * s1 - n2 * i1) / (n1 * n2 - x1 * x2) * (c1 * n2 - a2 * x1));
      [field; side Ht | rewrite T21, B1; ring] end. }
  assert (Hf1 : n1 - r * x1 <> 0).
  { intro E. apply HR. rewrite E. ring. }
  assert (Hf2 : n2 - r * x2 <> 0).
  { intro E. apply HR. rewrite E. ring. }
  assert (C : a2 * n1 = a1 * n2).
  { apply sub_zero. apply (mul_cancel (r * (s1 * n1 - i1 * x1))).
    - apply nz_mul; assumption.
    - match type of R11 with ?er = 0 =>
        transitivity (- (n1 - r * x1) * (n1 * n2 * er - n2 * (b1 * n1 - a1 * i1)
                                         + r * ((r * s1 - i1) / (n1 - r * x1)) * n1 * (c1 * n2 - a2 * x1)
                                         + r * n1 * (d1 * n2 - a2 * s1)));
        [field; repeat split; assumption | rewrite R11, A2, B1, B3; ring] end. }
  assert (G : forall u v : K, u * n2 = a2 * v -> u * n1 = a1 * v).
  { intros u v H. apply sub_zero. apply (mul_cancel n2 _ Hn2).
    transitivity (n1 * (u * n2 - a2 * v) + v * (a2 * n1 - a1 * n2)); [ring | rewrite H, C; ring]. }
  repeat split; auto.
Qed.

Lemma unorm_lin (e : ubox K) (s : m2) : um1 K e <> 0 -> udet K e s <> 0 -> lin_u (unorm K e) s (meas_u K e s).
Proof.
  destruct e, s; intros Hn H; unfu. repeat split; field; repeat split; first [exact Hn | side H].
Qed.

Lemma corr_u_lin (e : ubox K) (s m : m2) : lin_u e s m -> adet_u K e m <> 0 -> corr_u K e m = s.
Proof.
  destruct e as [n1 n2 i1 i2 x1 x2 s1 s2], s as [p11 p12 p21 p22], m as [q11 q12 q21 q22]. unfold corr_u. unfu.
  intros (H11 & H12 & H21 & H22) Hd.
  set (a11 := x1 * q11 + s1) in *. set (a12 := x1 * q12) in *.
  set (a21 := x2 * q21) in *. set (a22 := x2 * q22 + s2) in *.
  assert (E11 : n1 * q11 + i1 = p11 * a11 + p12 * a21) by (apply sub_zero; unfold a11, a21; to H11).
  assert (E12 : n1 * q12 = p11 * a12 + p12 * a22) by (apply sub_zero; unfold a12, a22; to H12).
  assert (E21 : n2 * q21 = p21 * a11 + p22 * a21) by (apply sub_zero; unfold a11, a21; to H21).
  assert (E22 : n2 * q22 + i2 = p21 * a12 + p22 * a22) by (apply sub_zero; unfold a12, a22; to H22).
  rewrite E11, E12, E21, E22. clearbody a11 a12 a21 a22.
  f_equal; field; exact Hd.
Qed.

Lemma len7u (x : list K) : length x = 7 -> x = x_of_ubox K (ubox_of_x K x).
Proof.
  destruct x as [|a [|b [|c [|d [|e [|f [|g [|? ?]]]]]]]]; try discriminate. reflexivity.
Qed.

Lemma trl_terms_u (e : ubox K) (l r : K) (order : list skind) :
  um1 K e <> 0 -> um2 K e <> 0 -> udelta1 K e <> 0 -> udelta2 K e <> 0 -> l * l - 1 <> 0 -> r <> 0 ->
  udet K e (s_through K) <> 0 -> udet K e (s_line K l) <> 0 -> udet K e (s_reflect K r) <> 0 ->
  In KT order -> In KR order -> In KL order ->
  let rows := trl_rows_u K order (meas_u K e (s_through K)) (meas_u K e (s_reflect K r))
                         (meas_u K e (s_line K l)) l r in
  (forall row, In row rows -> sat K (x_of_ubox K (unorm K e)) row) /\
  (forall x, length x = 7 -> (forall row, In row rows -> sat K x row) ->
     x = x_of_ubox K (unorm K e) /\
     forall s, udet K e s <> 0 -> adet_u K (ubox_of_x K x) (meas_u K e s) <> 0 ->
               corr_u K (ubox_of_x K x) (meas_u K e s) = s).
Proof.
  intros Hn1 Hn2 Hd1 Hd2 Hl Hr Ht HL HR IT IR IL rows.
  assert (Hu : um1 K (unorm K e) = 1) by reflexivity.
  split.
  - intros row Hin. unfold rows, trl_rows_u in Hin. apply in_flat_map in Hin.
    destruct Hin as (k & _ & Hin).
    destruct k; cbn [In] in Hin.
    + pose proof (proj2 (u_rows_lin _ _ _ Hu) (unorm_lin e _ Hn1 Ht)) as (A & B & C & D).
      destruct Hin as [<-|[<-|[<-|[<-|[]]]]]; assumption.
    + pose proof (unorm_lin e _ Hn1 HR) as (A & _ & _ & D).
      destruct Hin as [<-|[<-|[]]]; [apply (u_row11_lin _ _ _ Hu) | apply (u_row22_lin _ _ _ Hu)]; assumption.
    + pose proof (proj2 (u_rows_lin _ _ _ Hu) (unorm_lin e _ Hn1 HL)) as (A & B & C & D).
      destruct Hin as [<-|[<-|[<-|[<-|[]]]]]; assumption.
  - intros x Hlen Hsat.
    pose proof (len7u x Hlen) as Ex. set (e' := ubox_of_x K x) in *.
    assert (Hu' : um1 K e' = 1) by reflexivity.
    assert (Hrow : forall k row, In k order ->
              In row ((fun k => match k with
                | KT => [u_row11 K (s_through K) (meas_u K e (s_through K)); u_row12 K (s_through K) (meas_u K e (s_through K));
                         u_row21 K (s_through K) (meas_u K e (s_through K)); u_row22 K (s_through K) (meas_u K e (s_through K))]
                | KR => [u_row11 K (s_reflect K r) (meas_u K e (s_reflect K r)); u_row22 K (s_reflect K r) (meas_u K e (s_reflect K r))]
                | KL => [u_row11 K (s_line K l) (meas_u K e (s_line K l)); u_row12 K (s_line K l) (meas_u K e (s_line K l));
                         u_row21 K (s_line K l) (meas_u K e (s_line K l)); u_row22 K (s_line K l) (meas_u K e (s_line K l))]
                end) k) -> sat K (x_of_ubox K e') row).
    { intros k row Hk Hin. rewrite <- Ex. apply Hsat. unfold rows, trl_rows_u. apply in_flat_map.
      exists k. split; assumption. }
    assert (LT : lin_u e' (s_through K) (meas_u K e (s_through K))).
    { apply (u_rows_lin _ _ _ Hu'). repeat split; apply (Hrow KT _ IT); cbn [In]; auto. }
    assert (LL : lin_u e' (s_line K l) (meas_u K e (s_line K l))).
    { apply (u_rows_lin _ _ _ Hu'). repeat split; apply (Hrow KL _ IL); cbn [In]; auto 6. }
    assert (LR : lin_u11 e' (s_reflect K r) (meas_u K e (s_reflect K r))).
    { apply (u_row11_lin _ _ _ Hu'). apply (Hrow KR _ IR). cbn [In]; auto. }
    pose proof (u_unique e e' l r Hn1 Hn2 Hd1 Hd2 Hl Hr Ht HL HR LT LL LR) as P.
    assert (Ee : e' = unorm K e).
    { unfold prop_u in P. rewrite Hu' in P. destruct P as (P1 & P2 & P3 & P4 & P5 & P6 & P7).
      assert (Q : forall u v : K, u * um1 K e = 1 * v -> u = v / um1 K e).
      { intros u v H. transitivity (u * um1 K e / um1 K e); [field; exact Hn1 | rewrite H; field; exact Hn1]. }
      apply Q in P1, P2, P3, P4, P5, P6, P7.
      unfold e', ubox_of_x in *. cbn [um1 um2 ui1 ui2 ux1 ux2 us1 us2] in *.
      unfold unorm. rewrite P1, P2, P3, P4, P5, P6, P7. reflexivity. }
    split; [rewrite Ex, Ee; reflexivity|].
    intros s Hs Hdet. apply corr_u_lin; [|exact Hdet].
    rewrite Ee. apply unorm_lin; assumption.
Qed.
End P.

(* ================================================================= both halves of the TRL path *)
Require Import LV.SelfCal.TrlProofs.

Section Path.
Variable K : CField.
Hypothesis H2 : char_ok K.
Hypothesis eq_dec : forall x y : K, {x = y} + {x <> y}.
Variable sq : K -> K.
Variable Mag : Type.
Variable mag : K -> Mag.
Variable le_abs : Mag -> Mag -> bool.
Hypothesis le_total : forall x y, le_abs x y = false -> le_abs y x = true.

(* _vnacal_new_solve_trl followed by vnacal_apply, T8 (TE10 after leakage removal): when the guesses
   are on the side of the true roots, every solution of the linear system formed with the SELECTED
   l and r corrects every device (whenever vnacal_apply does not report a singular system) *)
Lemma trl_path_corrects_device_t (e : tbox K) (l r lguess rguess : K) (order : list skind) :
  tdet K e (s_through K) <> 0 -> tdet K e (s_line K l) <> 0 -> tdet K e (s_reflect K r) <> 0 ->
  let mt := meas_t K e (s_through K) in let ml := meas_t K e (s_line K l) in
  let mr := meas_t K e (s_reflect K r) in
  let a := trl_a K mt ml in let b := trl_b K mt ml in
  let n := trl_n K mt mr ml l in let d := trl_d K mt mr ml l in
  a <> 0 -> d <> 0 ->
  sq (b * b - (two * two) * a * a) * sq (b * b - (two * two) * a * a) = b * b - (two * two) * a * a ->
  sq (n / d) * sq (n / d) = n / d ->
  le_abs (mag (trl_u K a b + trl_u K a b - l - lguess)) (mag (l - lguess)) = false ->
  le_abs (mag (- r - rguess)) (mag (r - rguess)) = false ->
  tm1 K e <> 0 -> tm2 K e <> 0 -> tdelta1 K e <> 0 -> tdelta2 K e <> 0 -> l * l - 1 <> 0 -> r <> 0 ->
  In KT order -> In KR order -> In KL order ->
  let lr := trl_solve K sq Mag mag le_abs mt mr ml lguess rguess in
  forall x, length x = 7 ->
    (forall row, In row (trl_rows_t K order mt mr ml (fst lr) (snd lr)) -> sat K x row) ->
    x = x_of_tbox K (tnorm K e) /\
    forall s, tdet K e s <> 0 -> adet_t K (tbox_of_x K x) (meas_t K e s) <> 0 ->
              corr_t K (tbox_of_x K x) (meas_t K e s) = s.
Proof.
  intros Ht HL HR mt ml mr a b n d Ha Hd Hs1 Hs2 Hc1 Hc2 Hn1 Hn2 Hd1 Hd2 Hl Hr IT IR IL lr x Hlen Hsat.
  assert (E : lr = (l, r)).
  { unfold lr. exact (trl_solve_truth_t K H2 eq_dec sq Mag mag le_abs le_total e l r lguess rguess
                        Ht HL HR Ha Hd Hs1 Hs2 Hc1 Hc2). }
  rewrite E in Hsat. cbn [fst snd] in Hsat.
  exact (proj2 (trl_terms_t K e l r order Hn1 Hn2 Hd1 Hd2 Hl Hr Ht HL HR IT IR IL) x Hlen Hsat).
Qed.

Lemma trl_path_corrects_device_u (e : ubox K) (l r lguess rguess : K) (order : list skind) :
  udet K e (s_through K) <> 0 -> udet K e (s_line K l) <> 0 -> udet K e (s_reflect K r) <> 0 ->
  let mt := meas_u K e (s_through K) in let ml := meas_u K e (s_line K l) in
  let mr := meas_u K e (s_reflect K r) in
  let a := trl_a K mt ml in let b := trl_b K mt ml in
  let n := trl_n K mt mr ml l in let d := trl_d K mt mr ml l in
  a <> 0 -> d <> 0 ->
  sq (b * b - (two * two) * a * a) * sq (b * b - (two * two) * a * a) = b * b - (two * two) * a * a ->
  sq (n / d) * sq (n / d) = n / d ->
  le_abs (mag (trl_u K a b + trl_u K a b - l - lguess)) (mag (l - lguess)) = false ->
  le_abs (mag (- r - rguess)) (mag (r - rguess)) = false ->
  um1 K e <> 0 -> um2 K e <> 0 -> udelta1 K e <> 0 -> udelta2 K e <> 0 -> l * l - 1 <> 0 -> r <> 0 ->
  In KT order -> In KR order -> In KL order ->
  let lr := trl_solve K sq Mag mag le_abs mt mr ml lguess rguess in
  forall x, length x = 7 ->
    (forall row, In row (trl_rows_u K order mt mr ml (fst lr) (snd lr)) -> sat K x row) ->
    x = x_of_ubox K (unorm K e) /\
    forall s, udet K e s <> 0 -> adet_u K (ubox_of_x K x) (meas_u K e s) <> 0 ->
              corr_u K (ubox_of_x K x) (meas_u K e s) = s.
Proof.
  intros Ht HL HR mt ml mr a b n d Ha Hd Hs1 Hs2 Hc1 Hc2 Hn1 Hn2 Hd1 Hd2 Hl Hr IT IR IL lr x Hlen Hsat.
  assert (E : lr = (l, r)).
  { unfold lr. exact (trl_solve_truth_u K H2 eq_dec sq Mag mag le_abs le_total e l r lguess rguess
                        Ht HL HR Ha Hd Hs1 Hs2 Hc1 Hc2). }
  rewrite E in Hsat. cbn [fst snd] in Hsat.
  exact (proj2 (trl_terms_u K e l r order Hn1 Hn2 Hd1 Hd2 Hl Hr Ht HL HR IT IR IL) x Hlen Hsat).
Qed.
End Path.
