(* Lemmas about SelfCal/AutoKernelModel.v (one pass of the Levenberg-Marquardt loop of
   _vnacal_new_solve_auto over Q[i]):
     solve_x_exact          consistent full-rank data: the solve returns the true error terms
     kernel_pass_exact      ... and the residual quantities J^H k, sum |k|^2 vanish
     kernel_step_spec       J1 nonsingular: the step is returned, solves J1 d = J^H k, and
                            d = 0  <->  J^H k = 0   (stationarity)
     kernel_fixed_point     the fixed point of the whole iteration (AutoLoop over this kernel),
                            derived: nothing about the kernel is assumed
   Uses the least-squares / LU theorems of Lin (ls_lu_complete, ls_consistent_exact,
   q_solvers_c_nonsingular). *)
Require Import List Arith Lia Bool QArith Qcanon.
Import ListNotations.
Require Import LV.Base.CField LV.Base.QcI LV.Lin.MatL LV.Lin.LuModel LV.Lin.LuPartial LV.Lin.LuQI
               LV.Lin.LsSpec LV.Lin.LsLu LV.Lin.LuQI2.
Require Import LV.Lin.LuGenA LV.Lin.LuProofs LV.Lin.LuNonsing LV.Lin.LuNonsingQI LV.Lin.LsProofs
               LV.Lin.LsLuProofs.
Require Import LV.SelfCal.AutoLoop LV.SelfCal.AutoProofs LV.SelfCal.AutoKernelModel.
Local Open Scope nat_scope.

(* ---------- small facts about Q[i] and lists ---------- *)
Lemma qi_mul_0_l (x : qi) : qi_mul qi0 x = qi0.
Proof. apply qi_eq; simpl; ring. Qed.
Lemma qi_mul_0_r' (x : qi) : qi_mul x qi0 = qi0.
Proof. apply qi_eq; simpl; ring. Qed.
Lemma qi_add_0_0 : qi_add qi0 qi0 = qi0.
Proof. apply qi_eq; simpl; ring. Qed.
Lemma qi_add_0_r (x : qi) : qi_add x qi0 = x.
Proof. apply qi_eq; simpl; ring. Qed.
Lemma qi_opp_0 : qi_opp qi0 = qi0.
Proof. apply qi_eq; simpl; ring. Qed.
Lemma qi_sub_self (x : qi) : qi_sub x x = qi0.
Proof. apply qi_eq; simpl; ring. Qed.
Lemma qi_sub_0_r (x : qi) : qi_sub x qi0 = x.
Proof. apply qi_eq; simpl; ring. Qed.
Lemma qi_sub_eq (x y : qi) : qi_sub x y = qi0 -> x = y.
Proof.
  intros H. apply qi_eq.
  - apply (f_equal qre) in H. simpl in H. transitivity ((qre x - qre y) + qre y)%Qc; [ring|]. rewrite H. ring.
  - apply (f_equal qim) in H. simpl in H. transitivity ((qim x - qim y) + qim y)%Qc; [ring|]. rewrite H. ring.
Qed.
Lemma qi_nrm_0' : qi_nrm qi0 = 0%Qc.
Proof. unfold qi_nrm; simpl; ring. Qed.

Lemma col0_eq n (x : qmat) (xs : list qi) : length xs = n ->
  (forall k, k < n -> mget QIF x k 0 = nth k xs qi0) -> col0 n x = xs.
Proof.
  intros Hl H. unfold col0. apply (nth_ext _ _ qi0 qi0).
  - rewrite map_length, seq_length. symmetry. exact Hl.
  - intros i Hi. rewrite map_length, seq_length in Hi.
    transitivity (mget QIF x i 0); [exact (nth_map_seq (fun k => mget QIF x k 0) n i qi0 Hi)|].
    apply H. exact Hi.
Qed.

Lemma col0_nth n (x : qmat) k : k < n -> nth k (col0 n x) qi0 = mget QIF x k 0.
Proof. intros Hk. unfold col0. exact (nth_map_seq (fun k => mget QIF x k 0) n k qi0 Hk). Qed.

Lemma col0_length n (x : qmat) : length (col0 n x) = n.
Proof. unfold col0. rewrite map_length, seq_length. reflexivity. Qed.

Lemma nth_repeat_qi0 k n : nth k (repeat qi0 n) qi0 = qi0.
Proof. revert k; induction n; intros [|k]; simpl; auto. Qed.

Lemma norm2_from (v : list qi) : forall s, (forall z, In z v -> z = qi0) ->
  fold_left (fun s z => (s + qi_nrm z)%Qc) v s = s.
Proof.
  induction v as [|z v IH]; intros s H; simpl; [reflexivity|].
  rewrite (H z (or_introl eq_refl)), qi_nrm_0'. replace (s + 0)%Qc with s by ring.
  apply IH. intros z' Hz. apply H. right. exact Hz.
Qed.

Lemma norm2_zero (v : list qi) : (forall z, In z v -> z = qi0) -> norm2 v = 0%Qc.
Proof. intros H. unfold norm2. apply norm2_from. exact H. Qed.

Lemma apply_d_zero (p : list qi) : forall n, length p = n -> apply_d p (repeat qi0 n) = p.
Proof.
  unfold apply_d. induction p as [|z p IH]; intros n Hn; destruct n; simpl in *; try discriminate; [reflexivity|].
  rewrite qi_sub_0_r. f_equal. apply IH. lia.
Qed.

Lemma apply_d_self_zero (x : list qi) : forall z, In z (apply_d x x) -> z = qi0.
Proof.
  unfold apply_d. induction x as [|a x IH]; simpl; intros z H; [contradiction|].
  destruct H as [H|H]; [rewrite <- H; apply qi_sub_self|apply IH; exact H].
Qed.

Lemma nat_Qc_nz n : n <> 0 -> Q2Qc (inject_Z (Z.of_nat n)) <> 0%Qc.
Proof.
  intros Hn H.
  assert (E : (this (Q2Qc (inject_Z (Z.of_nat n))) == this 0%Qc)%Q) by (rewrite H; reflexivity).
  change (Qred (inject_Z (Z.of_nat n)) == Qred 0)%Q in E. rewrite !Qred_correct in E.
  unfold Qeq, inject_Z in E. simpl in E. lia.
Qed.

(* ---------- well-formedness of what the model builds ---------- *)
Lemma a_matrix_wf pr p : wf (pr_equations pr) (pr_xlen pr) (a_matrix pr p).
Proof. unfold a_matrix. apply wf_mbuild. Qed.
Lemma b_vector_wf pr p : wf (pr_equations pr) 1 (b_vector pr p).
Proof. unfold b_vector. apply wf_mbuild. Qed.

(* ---------- the hypotheses of the fixed point ---------- *)
(* the measurements are exact for the error terms xs and the parameter values p: every equation,
   as the code forms it at p, is satisfied by xs *)
Definition exact_data (pr : problem) (p xs : list qi) : Prop :=
  forall i, i < pr_equations pr ->
    sumf (pr_xlen pr) (fun k => cmul (mget QIF (a_matrix pr p) i k) (nth k xs qi0)) =
    mget QIF (b_vector pr p) i 0.

(* every correlated parameter has the value of its partner: E p - f = 0 *)
Definition corr_consistent (pr : problem) (p : list qi) : Prop :=
  forall c, In c (pr_corr pr) -> corr_k p c = qi0.

(* ---------- the solve for x ---------- *)
Lemma solve_x_exact pr p xs :
  length xs = pr_xlen pr ->
  full_col_rank (pr_equations pr) (pr_xlen pr) (a_matrix pr p) ->
  exact_data pr p xs ->
  exists x, q2_ls_lu (pr_equations pr) (pr_xlen pr) 1 (a_matrix pr p) (b_vector pr p) = Some x /\
            (forall i, i < pr_equations pr ->
               mget QIF (mmul QIF (pr_equations pr) (pr_xlen pr) 1 (a_matrix pr p) x) i 0 =
               mget QIF (b_vector pr p) i 0) /\
            solve_x pr p = Some xs.
Proof.
  intros Hl Hf He. unfold exact_data in He.
  set (m := pr_equations pr) in *. set (n := pr_xlen pr) in *.
  set (a := a_matrix pr p) in *. set (b := b_vector pr p) in *.
  destruct (ls_lu_complete m n 1 a b Hf) as (x & Hx & NE).
  assert (Hc : exists x0 : mat QIF, forall i k, i < m -> k < 1 ->
             mget QIF (mmul QIF m n 1 a x0) i k = mget QIF b i k).
  { exists (mbuild QIF n 1 (fun t _ => nth t xs qi0)). intros i k Hi Hk. assert (k = 0) by lia. subst k.
    rewrite mget_mmul by auto. rewrite <- (He i Hi). apply sumf_ext. intros t Ht.
    rewrite mget_mbuild by auto. reflexivity. }
  pose proof (ls_consistent_exact m n 1 a b x NE Hc) as Hax.
  exists x. split; [exact Hx|]. split; [intros i Hi; apply Hax; auto|].
  unfold solve_x. fold m n a b. rewrite Hx. f_equal. apply col0_eq; [exact Hl|].
  intros k Hk.
  assert (Hz : (fun k => csub (mget QIF x k 0) (nth k xs qi0)) k = @c0 QIF).
  { apply (Hf (fun k => csub (mget QIF x k 0) (nth k xs qi0))); [|exact Hk].
    intros i Hi. pose proof (Hax i 0 Hi ltac:(lia)) as E1. rewrite mget_mmul in E1 by auto.
    pose proof (He i Hi) as E2.
    rewrite (sumf_ext QIF n _ (fun k => cadd (cmul (mget QIF a i k) (mget QIF x k 0))
                                             (cmul (copp c1) (cmul (mget QIF a i k) (nth k xs qi0))))).
    2:{ intros t Ht. apply qi_eq; simpl; ring. }
    rewrite sumf_add, <- sumf_scale_l, E1, E2. apply qi_eq; simpl; ring. }
  cbv beta in Hz. apply qi_sub_eq. exact Hz.
Qed.

(* ---------- one pass on exact data ---------- *)
Lemma corr_kv_entry pr p t : corr_consistent pr p -> t < length (pr_corr pr) ->
  mget QIF (corr_kv pr p) t 0 = qi0.
Proof.
  intros Hc Ht. unfold corr_kv, mget, mrow.
  set (dc := Corr qi0 0 (SKnown qi0)).
  pose proof (map_nth (fun c => [corr_k p c]) (pr_corr pr) dc t) as E. cbv beta in E.
  rewrite (nth_indep _ [] [corr_k p dc]) by (rewrite map_length; exact Ht).
  rewrite E. simpl. apply Hc. apply nth_In. exact Ht.
Qed.

Lemma corr_kv_fold pr p : corr_consistent pr p ->
  fold_left (fun s r => (s + qi_nrm (nth 0 r qi0))%Qc) (corr_kv pr p) 0%Qc = 0%Qc.
Proof.
  intros Hc. unfold corr_kv.
  assert (G : forall l s, (forall c, In c l -> corr_k p c = qi0) ->
            fold_left (fun s r => (s + qi_nrm (nth 0 r qi0))%Qc) (map (fun c => [corr_k p c]) l) s = s).
  { induction l as [|c l IH]; intros s H; simpl; [reflexivity|].
    rewrite (H c (or_introl eq_refl)), qi_nrm_0'. replace (s + 0)%Qc with s by ring.
    apply IH. intros c' Hc'. apply H. right. exact Hc'. }
  apply G. exact Hc.
Qed.

Lemma kernel_pass_exact pr p xs :
  length xs = pr_xlen pr ->
  full_col_rank (pr_equations pr) (pr_xlen pr) (a_matrix pr p) ->
  exact_data pr p xs ->
  corr_consistent pr p ->
  exists pd, kernel_pass pr p = Some pd /\ pd_x pd = xs /\ pd_sumk pd = 0%Qc /\
             wf (pr_pl pr) 1 (pd_jtk pd) /\
             forall i, i < pr_pl pr -> mget QIF (pd_jtk pd) i 0 = qi0.
Proof.
  intros Hl Hf He Hc.
  destruct (solve_x_exact pr p xs Hl Hf He) as (x & Hx & Hax & Hs).
  unfold kernel_pass. rewrite Hs.
  set (m := pr_equations pr) in *. set (n := pr_xlen pr) in *. set (pl := pr_pl pr).
  set (a := a_matrix pr p) in *. set (b := b_vector pr p) in *.
  unfold project at 1. rewrite Hx.
  destruct (ls_lu_complete m n pl a (aprimex pr xs) Hf) as (y & Hy & _).
  unfold project. rewrite Hy.
  set (pb := msub QIF m 1 b (mmul QIF m n 1 a x)).
  assert (Hpb : forall t, t < m -> mget QIF pb t 0 = qi0).
  { intros t Ht. unfold pb, msub. rewrite mget_mbuild by (auto; lia). rewrite (Hax t Ht).
    apply qi_sub_self. }
  eexists. split; [reflexivity|]. cbn [pd_x pd_sumk pd_jtk]. split; [reflexivity|]. split; [|split].
  - rewrite mget_mmul by lia.
    rewrite (sumf_zero QIF m) by (intros t Ht; rewrite (Hpb t Ht); apply qi_mul_0_r').
    rewrite (corr_kv_fold pr p Hc). simpl. ring.
  - unfold madd. apply wf_mbuild.
  - intros i Hi. unfold madd. rewrite mget_mbuild by (auto; lia).
    rewrite mget_mbuild by (auto; lia). rewrite !mget_mmul by (auto; lia).
    rewrite (sumf_zero QIF m) by (intros t Ht; rewrite (Hpb t Ht); apply qi_mul_0_r').
    rewrite (sumf_zero QIF (length (pr_corr pr)))
      by (intros t Ht; rewrite (corr_kv_entry pr p t Hc Ht); apply qi_mul_0_r').
    change (qi_add (qi_opp qi0) qi0 = qi0). rewrite qi_opp_0. apply qi_add_0_0.
Qed.

(* ---------- the step ---------- *)
Lemma j1_matrix_wf pl jtj lam : wf pl pl (j1_matrix pl jtj lam).
Proof. unfold j1_matrix. apply wf_mbuild. Qed.

(* J1 nonsingular: the LU solve as coded returns d with J1 d = J^H k, the determinant test
   accepts, and d vanishes exactly when J^H k does *)
Lemma kernel_step_spec pl (jtj jtk : qmat) (lam : Qc) :
  wf pl 1 jtk ->
  q_kernel_trivial (j1_matrix pl jtj lam) pl ->
  exists d, kernel_step pl jtj jtk lam = Some d /\ length d = pl /\
    (forall i, i < pl ->
       sumf pl (fun t => cmul (mget QIF (j1_matrix pl jtj lam) i t) (nth t d qi0)) = mget QIF jtk i 0) /\
    (d = repeat qi0 pl <-> forall i, i < pl -> mget QIF jtk i 0 = qi0).
Proof.
  intros Hw Hk.
  destruct (q_solvers_c_nonsingular pl (j1_matrix pl jtj lam) (j1_matrix_wf pl jtj lam) Hk) as (H1 & _ & _).
  destruct (H1 1 jtk Hw) as (x & dt & Hm & Hd & Hsol).
  exists (col0 pl x). unfold kernel_step. rewrite Hm.
  assert (Ez : qi_isz dt = false).
  { destruct (qi_isz dt) eqn:E; [|reflexivity]. exfalso. apply Hd. apply qi_isz_spec. exact E. }
  cbn [site_rejects_full]. rewrite Ez.
  split; [reflexivity|]. split; [apply col0_length|].
  assert (Hsum : forall i, i < pl ->
            sumf pl (fun t => cmul (mget QIF (j1_matrix pl jtj lam) i t) (nth t (col0 pl x) qi0)) = mget QIF jtk i 0).
  { intros i Hi. rewrite <- (Hsol i 0 Hi ltac:(lia)). rewrite mget_mmul by (auto; lia).
    apply sumf_ext. intros t Ht. rewrite col0_nth by exact Ht. reflexivity. }
  split; [exact Hsum|]. split.
  - intros E i Hi. rewrite <- (Hsum i Hi). apply sumf_zero. intros t Ht.
    rewrite E, nth_repeat_qi0. apply qi_mul_0_r'.
  - intros Hz. apply col0_eq; [apply repeat_length|].
    intros k Hkk. rewrite nth_repeat_qi0.
    apply (Hk (fun t => mget QIF x t 0)); [|exact Hkk].
    intros i Hi. transitivity (mget QIF jtk i 0); [|apply Hz; exact Hi]. rewrite <- (Hsum i Hi).
    apply sumf_ext. intros t Ht. rewrite col0_nth by exact Ht. reflexivity.
Qed.

(* ---------- the fixed point of the iteration, derived ---------- *)
Theorem kernel_fixed_point pr ptol ettol limit (ps xs : list qi) :
  length ps = pr_pl pr -> length xs = pr_xlen pr -> pr_pl pr <> 0 -> pr_xlen pr <> 0 ->
  full_col_rank (pr_equations pr) (pr_xlen pr) (a_matrix pr ps) ->
  exact_data pr ps xs ->
  corr_consistent pr ps ->
  (forall pd, kernel_pass pr ps = Some pd ->
     q_kernel_trivial (j1_matrix (pr_pl pr) (pd_jtj pd) 0%Qc) (pr_pl pr)) ->
  exists pd, kernel_pass pr ps = Some pd /\ pd_x pd = xs /\ pd_sumk pd = 0%Qc /\
    (forall i, i < pr_pl pr -> mget QIF (pd_jtk pd) i 0 = qi0) /\
    kernel_step (pr_pl pr) (pd_jtj pd) (pd_jtk pd) 0%Qc = Some (repeat qi0 (pr_pl pr)) /\
    kernel_run pr ptol ettol limit ps = (Converged xs ps, [Entry true 1%Qc 0%Qc true]).
Proof.
  intros Hlp Hlx Hpl Hxl Hf He Hc Hns.
  destruct (kernel_pass_exact pr ps xs Hlx Hf He Hc) as (pd & Hp & Hx & Hs & Hw & Hz).
  specialize (Hns pd Hp).
  destruct (kernel_step_spec (pr_pl pr) (pd_jtj pd) (pd_jtk pd) 0%Qc Hw Hns) as (d & Hd & _ & _ & Hiff).
  assert (Ed : d = repeat qi0 (pr_pl pr)) by (apply Hiff; exact Hz).
  subst d.
  exists pd. split; [exact Hp|]. split; [exact Hx|]. split; [exact Hs|]. split; [exact Hz|]. split; [exact Hd|].
  unfold kernel_run.
  assert (E0 : (1 * pd_sumk pd)%Qc = 0%Qc) by (rewrite Hs; ring).
  rewrite <- E0.
  apply (auto_fixed_point (list qi) (list qi) passdata (list qi)) with (d0 := repeat qi0 (pr_pl pr)).
  - rewrite Hp, Hx. reflexivity.
  - rewrite E0. exact Hd.
  - apply norm2_zero. intros z Hz'. apply repeat_spec in Hz'. exact Hz'.
  - unfold normdx. apply norm2_zero. apply apply_d_self_zero.
  - apply apply_d_zero. exact Hlp.
  - apply nat_Qc_nz. exact Hpl.
  - apply nat_Qc_nz. exact Hxl.
Qed.
