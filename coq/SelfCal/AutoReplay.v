(* Instances of the AutoLoop model: a toy kernel (non-vacuity examples) and the replay kernel
   that drives the model with the quantities observed in a run of the C code. *)
Require Import QArith Qcanon List.
Import ListNotations.
Require Import LV.SelfCal.AutoLoop LV.SelfCal.AutoProofs.
Local Open Scope Qc_scope.

(* ---- toy kernel: one real parameter, residual k(p) = p - 3, Jacobian 1 ---- *)
Definition toy_run (ptol : Qc) (limit : nat) (p0 : Qc) :=
  auto_run Qc unit Qc Qc
    (fun _ p => Some (tt, p - Q2Qc 3)) (fun k => k * k)
    (fun _ k lam => Some (k / (1 + lam))) (fun p d => p - d)
    (fun d => d * d) (fun _ _ => 0) ptol ptol 1 1 limit p0.

Definition q (n : Z) (d : positive) : Qc := Q2Qc (Qmake n d).

Definition outcome_tag {P X} (o : outcome P X) : nat :=
  match o with Converged _ _ => 0%nat | Edom Singular => 1%nat | Edom NotConverged => 2%nat | OutOfFuel => 3%nat end.

(* hypotheses of auto_fixed_point hold at the solution, and the conclusion can be computed *)
Example toy_fixed_point :
  outcome_tag (fst (toy_run (q 1 1000) 30 (Q2Qc 3))) = 0%nat /\
  length (snd (toy_run (q 1 1000) 30 (Q2Qc 3))) = 1%nat.
Proof. split; vm_compute; reflexivity. Qed.

(* from a guess away from the solution: converges in a few passes with a generous limit,
   fails with NotConverged after exactly limit + 1 passes with a small one *)
Example toy_converges :
  outcome_tag (fst (toy_run (q 1 1000) 30 (Q2Qc 4))) = 0%nat /\
  (length (snd (toy_run (q 1 1000) 30 (Q2Qc 4))) <= 31)%nat.
Proof. split; [vm_compute; reflexivity | apply loop_entries]. Qed.

Example toy_exhausts :
  outcome_tag (fst (toy_run (q 1 1000000) 1 (Q2Qc 4))) = 2%nat /\
  length (snd (toy_run (q 1 1000000) 1 (Q2Qc 4))) = 2%nat.
Proof. split; vm_compute; reflexivity. Qed.

(* ---- replay kernel ---- *)
Record obs := Obs { o_solve_ok : bool; o_sumk : Qc; o_step_ok : bool; o_sumd : Qc; o_sumdx : Qc }.

Definition nth_obs (ob : list obs) (i : nat) : obs := nth i ob (Obs false 0 false 0 0).

Definition replay_run (ob : list obs) (ptol ettol plen xlen : Qc) (limit : nat) :
  outcome nat nat * list entry :=
  auto_run nat nat (nat * Qc) nat
    (fun it _ => if o_solve_ok (nth_obs ob it) then Some (it, (it, o_sumk (nth_obs ob it))) else None)
    (fun kd => snd kd)
    (fun it _ _ => if o_step_ok (nth_obs ob it) then Some it else None)
    (fun _ d => S d)
    (fun d => o_sumd (nth_obs ob d))
    (fun x _ => o_sumdx (nth_obs ob x))
    ptol ettol plen xlen limit 0%nat.
