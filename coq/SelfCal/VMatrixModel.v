(* The V-matrix machinery of the NON-ITERATIVE solve (_vnacal_new_solve_simple) with the
   measurement-error model on, as coded.  No proofs in this file.

   src/vnacal_new_solve.c
     _vnacal_new_solve_init             allocation of vnsm_v_matrices (GuardModel.init_vvec)
     init_v_matrices                    every existing V matrix := identity, called by
     _vnacal_new_solve_start_frequency  at EVERY frequency
     _vnacal_new_solve_next_equation    vnss_include_v = (vnsm_v_matrices != NULL &&
                                          vnsm_v_matrices[sindex] != NULL) of the equation's standard
     _vnacal_new_solve_next_term        term list: vne_term_list when include_v, else the thread
                                          vnt_next_no_v = the terms with v_cell % (v_columns + 1) == 0
                                          (add_term of vnacal_new_build_equation_terms.c)
     _vnacal_new_solve_calc_weights     w_vector[k++] = 1 / sqrt(|m[eq_cell]|^2 tr^2 + nf^2),
                                          eq_cell = vne_row * m_columns + vne_column, k over all systems
   src/vnacal_new_solve_update_v_matrices.c
     update_v_t8 / _u8 / _t16 / _u16 / _ue14 and the dispatch loop over the standards
   src/vnacal_new_solve_simple.c
     the loop over the systems (w_offset running), the coefficient matrix
       value = (negative ? -1 : 1) [* m] [* s] [* v if vs_have_v] [* w_vector[w_offset + eq_count]]
       xindex == -1 ? b[eq] += value : a[eq][xindex] += value
     equations == unknowns ? mldivide : qrsolve, the test "if (!vs_have_v(vnssp)) break", the
     V update, sum_dx_squared / unknowns <= et_tolerance^2, ++iteration >= iteration_limit, memcpy.
   src/vnacal_new_solve.c _vnacal_new_solve_internal: the loop over the frequencies (first failure ends it).

   Numbers: K is a field (CField), real numbers are Qc, ofq is the conversion double -> double complex,
   N = _vnacommon_cabs2, rsqrt x = 1.0 / sqrt(x) (abstract, as in PvalueModel).  The linear-algebra
   routines are Section variables: minv = _vnacommon_minverse (None: "determinant == 0.0 ||
   !isnormal(cabs(determinant))"), solve_sq = _vnacommon_mldivide (None: the same test), solve_ls =
   _vnacommon_qrsolve (None: rank < unknowns); the theorems name the laws they need, the extraction
   instantiates them with the LU model / the least-squares oracle of coq/Lin at Q[i].
   The term lists of the equations are DATA (built by vnacal_new_build_equation_terms.c; the
   white-box harness dumps them); NAN fill values of absent cells are never read by this code and are
   any value here.  Not modelled: malloc failure, the asserts. *)
Require Import List Arith Bool QArith Qcanon.
Import ListNotations.
Require Import LV.Base.CField LV.SelfCal.PvalueModel LV.SelfCal.GuardModel.
Local Open Scope nat_scope.

Inductive caltype := CT8 | CU8 | CT16 | CU16 | CUE14.     (* TE10 = T8, UE10 = U8, E12 = UE14 here *)
Definition is_t (t : caltype) : bool := match t with CT8 | CT16 => true | _ => false end.

(* a term of an equation: vnt_negative, vnt_m_cell, vnt_s_cell (-1 = None), vnt_v_cell, vnt_xindex *)
Record vterm := { vt_neg : bool; vt_m : option nat; vt_s : option nat; vt_v : nat; vt_x : option nat }.
(* an equation: index of its standard, vne_row, vne_column, vne_term_list *)
Record veq := { ve_std : nat; ve_row : nat; ve_col : nat; ve_terms : list vterm }.

Section VM.
Variable K : CField.
Variable N : K -> Qc.
Variable rsqrt : Qc -> Qc.
Variable ofq : Qc -> K.
Variable minv : nat -> list K -> option (list K).
Variable solve_sq : nat -> list (list K) -> list K -> option (list K).
Variable solve_ls : nat -> list (list K) -> list K -> option (list K).

(* a standard at the current frequency: vnmm_m_matrix, vnmm_s_matrix, vnm_s_matrix[cell] != NULL *)
Record vstd := { sd_m : list K; sd_s : list K; sd_sk : list bool }.

(* everything the solve reads at ONE frequency *)
Record vprob := {
  vp_type : caltype; vp_rows : nat; vp_cols : nat;
  vp_unknowns : nat;                       (* vl_t_terms - 1 *)
  vp_stds : list vstd;
  vp_systems : list (list veq);
  vp_noise : option (Qc * Qc) }.           (* vn_m_error_vector[findex]; None: the vector is NULL *)

Definition v_n (p : vprob) : nat := if is_t (vp_type p) then vp_cols p else vp_rows p.
Definition eq_counts (p : vprob) : list nat := map (@length veq) (vp_systems p).

(* the V matrices of all standards *)
Definition vstate := list (vvec K).

(* _vnacal_new_solve_init: the same decision for every standard *)
Definition alloc_v (p : vprob) : vstate :=
  map (fun _ => init_vvec K (v_n p * v_n p) c0
                  (match vp_noise p with Some _ => true | None => false end)
                  (vp_unknowns p) (eq_counts p)) (vp_stds p).

(* init_v_matrices: matrix[vr * v_columns + vc] = vr == vc ? 1.0 : 0.0 *)
Definition ident_flat (n : nat) : list K :=
  flat_map (fun vr => map (fun vc => if Nat.eqb vr vc then c1 else c0) (seq 0 n)) (seq 0 n).
Definition init_v_matrices (n : nat) (st : vstate) : vstate :=
  map (option_map (map (option_map (fun _ : list K => ident_flat n)))) st.

(* _vnacal_new_solve_calc_weights: one element per equation, systems in order *)
Definition eq_cell (p : vprob) (e : veq) : nat := ve_row e * vp_cols p + ve_col e.
Definition own_m (p : vprob) (e : veq) : K :=
  nth (eq_cell p e) (sd_m (nth (ve_std e) (vp_stds p) {| sd_m := []; sd_s := []; sd_sk := [] |})) c0.
Definition calc_weights (p : vprob) : option (list Qc) :=
  match vp_noise p with
  | None => None
  | Some (nf, tr) => Some (map (fun e => weight K N rsqrt nf tr (own_m p e)) (concat (vp_systems p)))
  end.

(* vnss_include_v of an equation; the matrix vs_get_v reads *)
Definition eq_vmat (st : vstate) (sindex : nat) (e : veq) : option (list K) :=
  match nth (ve_std e) st None with Some vs => nth sindex vs None | None => None end.
(* the term list the iterator walks *)
Definition eq_terms (n : nat) (include_v : bool) (e : veq) : list vterm :=
  if include_v then ve_terms e else filter (fun t => Nat.eqb (vt_v t mod (n + 1)) 0) (ve_terms e).

(* the product of the factors of one term *)
Definition facn (o : option nat) (l : list K) (v : K) : K :=
  match o with Some c => cmul v (nth c l c0) | None => v end.
Definition term_coef (sd : vstd) (vm : option (list K)) (w : option Qc) (t : vterm) : K :=
  let v0 := if vt_neg t then copp c1 else c1 in
  let v1 := facn (vt_s t) (sd_s sd) (facn (vt_m t) (sd_m sd) v0) in
  let v2 := match vm with Some V => cmul v1 (nth (vt_v t) V c0) | None => v1 end in
  match w with Some q => cmul v2 (ofq q) | None => v2 end.

Fixpoint add_at (l : list K) (i : nat) (v : K) : list K :=
  match l, i with
  | a :: r, O => cadd a v :: r
  | a :: r, S j => a :: add_at r j v
  | [], _ => []
  end.
(* one row of a_matrix and its element of b_vector *)
Definition build_row (unknowns : nat) (coef : vterm -> K) (ts : list vterm) : list K * K :=
  fold_left (fun ab t => match vt_x t with
                         | Some i => (add_at (fst ab) i (coef t), snd ab)
                         | None => (fst ab, cadd (snd ab) (coef t))
                         end) ts (repeat c0 unknowns, c0).
Definition std_of (p : vprob) (e : veq) : vstd :=
  nth (ve_std e) (vp_stds p) {| sd_m := []; sd_s := []; sd_sk := [] |}.
Definition build_eq (p : vprob) (st : vstate) (sindex : nat) (w : option Qc) (e : veq) : list K * K :=
  let vm := eq_vmat st sindex e in
  build_row (vp_unknowns p) (term_coef (std_of p e) vm w)
            (eq_terms (v_n p) (match vm with Some _ => true | None => false end) e).
(* w_vector[w_offset + eq_count] *)
Fixpoint build_eqs (p : vprob) (st : vstate) (sindex : nat) (ws : option (list Qc)) (k : nat) (es : list veq)
  : list (list K * K) :=
  match es with
  | [] => []
  | e :: r => build_eq p st sindex (option_map (fun w => nth k w 0%Qc) ws) e :: build_eqs p st sindex ws (S k) r
  end.
(* vs_have_v after the loop over the equations: the flag of the last equation *)
Definition have_v_after (st : vstate) (sindex : nat) (es : list veq) : bool :=
  match rev es with e :: _ => match eq_vmat st sindex e with Some _ => true | None => false end | [] => false end.

Inductive sres (A : Type) := SOk (a : A) | SInsufficient | SSingular | SVSingular | SNoConv.
Arguments SOk {A}. Arguments SInsufficient {A}. Arguments SSingular {A}. Arguments SVSingular {A}.
Arguments SNoConv {A}.

(* one solve of the current coefficient matrix *)
Definition solve_rows (unknowns : nat) (rows : list (list K * K)) : option (list K) :=
  if Nat.eqb (length rows) unknowns
  then solve_sq unknowns (map fst rows) (map snd rows)
  else solve_ls unknowns (map fst rows) (map snd rows).

(* ---- the V update ---- *)
Definition xat (x : list K) (i : nat) : K := nth i x c0.
Definition cells (n : nat) (f : nat -> nat -> K) : list K :=
  flat_map (fun i => map (fun j => f i j) (seq 0 n)) (seq 0 n).
Definition sknown (sd : vstd) (c : nat) : bool := nth c (sd_sk sd) false.
Definition sval (sd : vstd) (c : nat) : K := nth c (sd_s sd) c0.
Definition msum (n : nat) (f : nat -> K) : K := fold_left (fun a k => cadd a (f k)) (seq 0 n) c0.

(* update_v_t8: vi = tm + tx s (tx, tm diagonal; tm11 = 1; unknown s treated as zero).
   tx_base = 2 m_rows, tm_base = tx_base + m_columns, "--tm_base" at cell (0, 0) *)
Definition vi_t8 (rows cols : nat) (sd : vstd) (x : list K) : list K :=
  let tx_base := rows + rows in let tm_base := tx_base + cols in
  cells cols (fun i j =>
    let c := i * cols + j in
    let d := if negb (Nat.eqb i j) then c0 else if Nat.eqb i 0 then c1 else xat x (tm_base - 1 + i) in
    if sknown sd c then cadd d (cmul (xat x (tx_base + i)) (sval sd c)) else d).
(* update_v_u8: vi = um - s ux.  um_base = 0 ("--um_base" at (0, 0)), ux_base = m_rows - 1 + m_columns *)
Definition vi_u8 (rows cols : nat) (sd : vstd) (x : list K) : list K :=
  let ux_base := rows - 1 + cols in
  cells rows (fun i j =>
    let c := i * rows + j in
    let d := if negb (Nat.eqb i j) then c0 else if Nat.eqb i 0 then c1 else xat x (i - 1) in
    if sknown sd c then csub d (cmul (sval sd c) (xat x (ux_base + j))) else d).
(* update_v_t16: vi = tm + tx s, full matrices; tx_base = 2 m_rows m_columns, tm_base = tx_base + m_columns^2 *)
Definition vi_t16 (rows cols : nat) (sd : vstd) (x : list K) : list K :=
  let tx_base := rows * cols + rows * cols in let tm_base := tx_base + cols * cols in
  cells cols (fun i j =>
    let c := i * cols + j in
    let d := if Nat.eqb c 0 then c1 else xat x (tm_base - 1 + c) in
    fold_left (fun a k => if sknown sd (k * cols + j)
                          then cadd a (cmul (xat x (tx_base + (i * cols + k))) (sval sd (k * cols + j))) else a)
              (seq 0 cols) d).
(* update_v_u16: vi = um - s ux; ux_base = m_rows^2 - 1 + m_rows m_columns *)
Definition vi_u16 (rows cols : nat) (sd : vstd) (x : list K) : list K :=
  let ux_base := rows * rows - 1 + rows * cols in
  cells rows (fun i j =>
    let c := i * rows + j in
    let d := if Nat.eqb c 0 then c1 else xat x (c - 1) in
    fold_left (fun a k => if sknown sd (i * rows + k)
                          then csub a (cmul (sval sd (i * rows + k)) (xat x (ux_base + (k * rows + j)))) else a)
              (seq 0 rows) d).
(* update_v_ue14: as u8 with the unity term at i == sindex and one ui / us term;
   ux_base = m_rows - 1 + 1 *)
Definition vi_ue14 (rows : nat) (sindex : nat) (sd : vstd) (x : list K) : list K :=
  let ux_base := rows - 1 + 1 in
  cells rows (fun i j =>
    let c := i * rows + j in
    let d := if negb (Nat.eqb i j) then c0 else if Nat.eqb i sindex then c1
             else xat x (if Nat.ltb i sindex then i else i - 1) in
    if sknown sd c then csub d (cmul (sval sd c) (xat x (ux_base + j))) else d).

Definition vi_matrix (p : vprob) (sindex : nat) (sd : vstd) (x : list K) : list K :=
  match vp_type p with
  | CT8 => vi_t8 (vp_rows p) (vp_cols p) sd x
  | CU8 => vi_u8 (vp_rows p) (vp_cols p) sd x
  | CT16 => vi_t16 (vp_rows p) (vp_cols p) sd x
  | CU16 => vi_u16 (vp_rows p) (vp_cols p) sd x
  | CUE14 => vi_ue14 (vp_rows p) sindex sd x
  end.
(* which matrix of the standard is rewritten: [0] for the one-system types, [sindex] for UE14 / E12 *)
Definition v_slot (p : vprob) (sindex : nat) : nat := match vp_type p with CUE14 => sindex | _ => 0 end.

Fixpoint set_nth {A} (l : list A) (i : nat) (a : A) : list A :=
  match l, i with
  | _ :: r, O => a :: r
  | b :: r, S j => b :: set_nth r j a
  | [], _ => []
  end.
(* one standard: skip without vector / without matrix, else invert; None: "singular matrix" *)
Definition update_v_std (p : vprob) (sindex : nat) (x : list K) (sd : vstd) (vv : vvec K) : option (vvec K) :=
  match vv with
  | None => Some None
  | Some vs =>
      match nth (v_slot p sindex) vs None with
      | None => Some (Some vs)
      | Some _ =>
          match minv (v_n p) (vi_matrix p sindex sd x) with
          | Some V => Some (Some (set_nth vs (v_slot p sindex) (Some V)))
          | None => None
          end
      end
  end.
(* _vnacal_new_solve_update_v_matrices: the standards in order, the first failure ends the walk *)
Fixpoint update_v_matrices (p : vprob) (sindex : nat) (x : list K) (sds : list vstd) (st : vstate) : option vstate :=
  match sds, st with
  | sd :: sr, vv :: vr =>
      match update_v_std p sindex x sd vv with
      | Some vv' => option_map (cons vv') (update_v_matrices p sindex x sr vr)
      | None => None
      end
  | _, _ => Some []
  end.

(* ---- the loop over V of one system ---- *)
Definition sum_dx2 (x prev : list K) : Qc :=
  fold_left Qcplus (map (fun ab => N (csub (fst ab) (snd ab))) (combine x prev)) 0%Qc.
(* sum_dx_squared / unknowns <= et_tolerance * et_tolerance *)
Definition converged (tol : Qc) (unknowns : nat) (x prev : list K) : bool :=
  if Qclt_le_dec (tol * tol) (sum_dx2 x prev / zq (Z.of_nat unknowns)) then false else true.

(* more = passes that may still follow this one: iteration_limit - 1 at entry;
   "++iteration >= vn_iteration_limit" is "more = 0".  Result: x of the system, V state, passes made *)
Fixpoint v_loop (p : vprob) (sindex : nat) (ws : option (list Qc)) (woff : nat) (es : list veq) (tol : Qc)
         (more : nat) (passes : nat) (prev : list K) (st : vstate) : sres (list K * vstate * nat) :=
  match solve_rows (vp_unknowns p) (build_eqs p st sindex ws woff es) with
  | None => SSingular
  | Some x =>
      if negb (have_v_after st sindex es) then SOk (x, st, S passes)
      else match update_v_matrices p sindex x (vp_stds p) st with
           | None => SVSingular
           | Some st' =>
               if converged tol (vp_unknowns p) x prev then SOk (x, st', S passes)
               else match more with
                    | O => SNoConv
                    | S m => v_loop p sindex ws woff es tol m (S passes) x st'
                    end
           end
  end.

(* one system: "if (equations < unknowns) -> insufficient" first *)
Definition solve_system (p : vprob) (sindex : nat) (ws : option (list Qc)) (woff : nat) (es : list veq)
           (tol : Qc) (limit : nat) (prev : list K) (st : vstate) : sres (list K * vstate * nat) :=
  if Nat.ltb (length es) (vp_unknowns p) then SInsufficient
  else v_loop p sindex ws woff es tol (limit - 1) 0 prev st.

(* the loop over the systems: x_vector[offset ..], prev_x_vector[offset ..], w_offset += equations.
   xinit = _vnacal_new_solve_init_x_vector (one block of `unknowns' values per system).
   Result: x_vector, V state, passes per system *)
Fixpoint solve_systems (p : vprob) (ws : option (list Qc)) (tol : Qc) (limit : nat) (xinit : list K)
         (sindex woff : nat) (syss : list (list veq)) (st : vstate) : sres (list K * vstate * list nat) :=
  match syss with
  | [] => SOk ([], st, [])
  | es :: r =>
      match solve_system p sindex ws woff es tol limit
                         (firstn (vp_unknowns p) (skipn (sindex * vp_unknowns p) xinit)) st with
      | SOk (x, st', n) =>
          match solve_systems p ws tol limit xinit (S sindex) (woff + length es) r st' with
          | SOk (xs, st'', ns) => SOk (x ++ xs, st'', n :: ns)
          | SInsufficient => SInsufficient | SSingular => SSingular
          | SVSingular => SVSingular | SNoConv => SNoConv
          end
      | SInsufficient => SInsufficient | SSingular => SSingular
      | SVSingular => SVSingular | SNoConv => SNoConv
      end
  end.

(* _vnacal_new_solve_simple at the frequency of p on the solve state st (the V matrices as the
   previous frequency left them): start_frequency re-initialises, then the systems *)
Definition solve_frequency (tol : Qc) (limit : nat) (xinit : list K) (st : vstate) (p : vprob)
  : sres (list K * vstate * list nat) :=
  solve_systems p (calc_weights p) tol limit xinit 0 0 (vp_systems p) (init_v_matrices (v_n p) st).

(* the loop over the frequencies of _vnacal_new_solve_internal, threading the solve state: the
   results of the frequencies solved, and the failure that ended the loop if any *)
Fixpoint solve_frequencies (tol : Qc) (limit : nat) (xinit : list K) (st : vstate) (ps : list vprob)
  : list (list K * list nat) * option (sres unit) :=
  match ps with
  | [] => ([], None)
  | p :: r =>
      match solve_frequency tol limit xinit st p with
      | SOk (x, st', ns) =>
          let rr := solve_frequencies tol limit xinit st' r in ((x, ns) :: fst rr, snd rr)
      | SInsufficient => ([], Some SInsufficient) | SSingular => ([], Some SSingular)
      | SVSingular => ([], Some SVSingular) | SNoConv => ([], Some SNoConv)
      end
  end.

(* the unweighted solve: what the same code does when vn_m_error_vector == NULL (no V vector is
   ever allocated, no weight vector): the no-V thread of every equation, one solve per system *)
Definition plain_row (p : vprob) (e : veq) : list K * K :=
  build_row (vp_unknowns p) (term_coef (std_of p e) None None) (eq_terms (v_n p) false e).
Fixpoint plain_systems (p : vprob) (syss : list (list veq)) : sres (list K) :=
  match syss with
  | [] => SOk []
  | es :: r =>
      if Nat.ltb (length es) (vp_unknowns p) then SInsufficient
      else match solve_rows (vp_unknowns p) (map (plain_row p) es) with
           | None => SSingular
           | Some x => match plain_systems p r with
                       | SOk xs => SOk (x ++ xs)
                       | e => e
                       end
           end
  end.

(* ---- the residual of _vnacal_new_solve_calc_pvalue on the final V state, in the vocabulary of
   PvalueModel (the factor values of every term) ---- *)
Definition pv_term (sd : vstd) (vm : option (list K)) (t : vterm) : term K :=
  {| t_neg := vt_neg t;
     t_m := option_map (fun c => nth c (sd_m sd) c0) (vt_m t);
     t_s := option_map (fun c => nth c (sd_s sd) c0) (vt_s t);
     t_v := option_map (fun V => nth (vt_v t) V c0) vm;
     t_x := vt_x t |}.
Definition pv_equation (p : vprob) (st : vstate) (sindex : nat) (e : veq) : equation K :=
  let vm := eq_vmat st sindex e in
  {| e_m := own_m p e;
     e_terms := map (pv_term (std_of p e) vm)
                    (eq_terms (v_n p) (match vm with Some _ => true | None => false end) e) |}.
Fixpoint pv_systems (p : vprob) (st : vstate) (sindex : nat) (syss : list (list veq)) : list (list (equation K)) :=
  match syss with
  | [] => []
  | es :: r => map (pv_equation p st sindex) es :: pv_systems p st (S sindex) r
  end.
End VM.

Arguments SOk {A}. Arguments SInsufficient {A}. Arguments SSingular {A}. Arguments SVSingular {A}.
Arguments SNoConv {A}.
Arguments sd_m {K}. Arguments sd_s {K}. Arguments sd_sk {K}.
Arguments vp_type {K}. Arguments vp_rows {K}. Arguments vp_cols {K}. Arguments vp_unknowns {K}.
Arguments vp_stds {K}. Arguments vp_systems {K}. Arguments vp_noise {K}.

(* ---- additions of the second round (no proofs) ---- *)
(* the element of the stored noise model a solve at frequency index findex reads *)
Definition noise_at (ms : option (list (Qc * Qc))) (findex : nat) : option (Qc * Qc) :=
  option_map (fun v => nth findex v (0%Qc, 0%Qc)) ms.

Definition sres_map {A B} (f : A -> B) (r : sres A) : sres B :=
  match r with
  | SOk a => SOk (f a)
  | SInsufficient => SInsufficient | SSingular => SSingular
  | SVSingular => SVSingular | SNoConv => SNoConv
  end.

Section Each.
Variable K : CField.
Variable N : K -> Qc.
Variable rsqrt : Qc -> Qc.
Variable ofq : Qc -> K.
Variable minv : nat -> list K -> option (list K).
Variables solve_sq solve_ls : nat -> list (list K) -> list K -> option (list K).
(* every frequency solved on the SAME solve state st (nothing threaded): the reference
   solve_frequencies is compared with in v_reinit_per_frequency *)
Fixpoint solve_each (tol : Qc) (limit : nat) (xinit : list K) (st : vstate K) (ps : list (vprob K))
  : list (list K * list nat) * option (sres unit) :=
  match ps with
  | [] => ([], None)
  | p :: r =>
      match solve_frequency K N rsqrt ofq minv solve_sq solve_ls tol limit xinit st p with
      | SOk (x, _, ns) => let rr := solve_each tol limit xinit st r in ((x, ns) :: fst rr, snd rr)
      | SInsufficient => ([], Some SInsufficient) | SSingular => ([], Some SSingular)
      | SVSingular => ([], Some SVSingular) | SNoConv => ([], Some SNoConv)
      end
  end.
(* the shape of a solve state: which pointers are NULL *)
Definition shape_vv (vv : vvec K) : option (list bool) :=
  option_map (map (fun o : option (list K) => match o with Some _ => true | None => false end)) vv.
Definition shape (st : vstate K) : list (option (list bool)) := map shape_vv st.
End Each.

(* ---- vnacal_new_build_equation_terms.c: build_terms_t8 and build_terms_u8 as coded ----
   conn c = vnm_connectivity_matrix[c], szero c = (vnm_s_matrix[c] == vn_zero); cells are indices
   into the n x n S / V matrices (n = m_columns for T, m_rows for U) and the m_rows x m_columns M
   matrix.  The result is vne_term_list in the order of the add_term calls. *)
Definition mk_term (neg : bool) (m s : option nat) (v : nat) (x : option nat) : vterm :=
  {| vt_neg := neg; vt_m := m; vt_s := s; vt_v := v; vt_x := x |}.

Definition build_terms_t8 (rows cols eq_row eq_col : nat) (conn szero : nat -> bool) : list vterm :=
  (* -Ts S V *)
  flat_map (fun v_row =>
      let s_cell := eq_row * cols + v_row in let v_cell := v_row * cols + eq_col in
      if conn v_cell && negb (szero s_cell)
      then [mk_term true None (Some s_cell) v_cell (Some eq_row)] else []) (seq 0 cols)
  (* -Ti V *)
  ++ (let v_cell := eq_row * cols + eq_col in
      if conn v_cell then [mk_term true None None v_cell (Some (rows + eq_row))] else [])
  (* M Tx S V *)
  ++ flat_map (fun tx_d =>
      let m_cell := eq_row * cols + tx_d in
      flat_map (fun v_row =>
          let s_cell := tx_d * cols + v_row in let v_cell := v_row * cols + eq_col in
          if conn v_cell && negb (szero s_cell)
          then [mk_term false (Some m_cell) (Some s_cell) v_cell (Some (rows + rows + tx_d))] else [])
        (seq 0 cols)) (seq 0 cols)
  (* M Tm V, tm11 = 1 on the right-hand side *)
  ++ flat_map (fun tm_d =>
      let m_cell := eq_row * cols + tm_d in let v_cell := tm_d * cols + eq_col in
      if conn v_cell
      then [if Nat.eqb tm_d 0 then mk_term true (Some m_cell) None v_cell None
            else mk_term false (Some m_cell) None v_cell (Some (rows + rows + cols + tm_d - 1))]
      else []) (seq 0 cols).

Definition build_terms_u8 (rows cols eq_row eq_col : nat) (conn szero : nat -> bool) : list vterm :=
  (* V Um M, um11 = 1 on the right-hand side *)
  flat_map (fun um_d =>
      let v_cell := eq_row * rows + um_d in let m_cell := um_d * cols + eq_col in
      if conn v_cell
      then [if Nat.eqb um_d 0 then mk_term true (Some m_cell) None v_cell None
            else mk_term false (Some m_cell) None v_cell (Some (um_d - 1))]
      else []) (seq 0 rows)
  (* V Ui *)
  ++ (let v_cell := eq_row * rows + eq_col in
      if conn v_cell then [mk_term false None None v_cell (Some (rows - 1 + eq_col))] else [])
  (* -V S Ux M *)
  ++ flat_map (fun ux_d =>
      let m_cell := ux_d * cols + eq_col in
      flat_map (fun v_column =>
          let v_cell := eq_row * rows + v_column in let s_cell := v_column * rows + ux_d in
          if conn v_cell && negb (szero s_cell)
          then [mk_term true (Some m_cell) (Some s_cell) v_cell (Some (rows - 1 + cols + ux_d))] else [])
        (seq 0 rows)) (seq 0 rows)
  (* -V S Us *)
  ++ flat_map (fun v_column =>
      let v_cell := eq_row * rows + v_column in let s_cell := v_column * rows + eq_col in
      if conn v_cell && negb (szero s_cell)
      then [mk_term true None (Some s_cell) v_cell (Some (rows - 1 + cols + rows + eq_col))] else [])
    (seq 0 rows).
