(* Lemmas about SelfCal/AutoLoop.v: termination / exhaustion and the fixed point. *)
Require Import QArith Qcanon List Lia Arith.
Import ListNotations.
Require Import LV.SelfCal.AutoLoop.
Local Open Scope Qc_scope.

Section P.
Variables P X KD D : Type.
Variable solve_x : nat -> P -> option (X * KD).
Variable sumk : KD -> Qc.
Variable step : nat -> KD -> Qc -> option D.
Variable apply_step : P -> D -> P.
Variable normd : D -> Qc.
Variable normdx : X -> X -> Qc.
Variables ptol ettol plen xlen : Qc.
Variable limit : nat.

Notation loop := (loop P X KD D solve_x sumk step apply_step normd normdx ptol ettol plen xlen limit).
Notation auto_run := (auto_run P X KD D solve_x sumk step apply_step normd normdx ptol ettol plen xlen limit).
Notation outcome := (outcome P X).

Ltac dsolve it s := destruct (solve_x it (cur_p P X KD s)) as [[x kd]|]; simpl.
Ltac dstep it := match goal with |- context [step it ?k ?l] => destruct (step it k l) as [d|]; simpl end.
Ltac dconv := match goal with |- context [if ?c then (Converged _ _, _) else _] => destruct c; simpl end.

(* the loop body is entered at most [fuel] times *)
Lemma loop_entries fuel : forall it s, (length (snd (loop fuel it s)) <= fuel)%nat.
Proof.
  induction fuel as [|f IH]; intros it s; [simpl; lia|].
  simpl. dsolve it s; [|lia]. dstep it; [|lia]. dconv; [lia|].
  destruct (Nat.leb limit it); simpl; [lia|].
  match goal with |- context [loop f ?i ?t] => specialize (IH i t); destruct (loop f i t) as [o tr] end.
  simpl in *. lia.
Qed.

(* with the fuel auto_run provides, running out of fuel never happens *)
Lemma loop_no_fuel fuel : forall it s, (it + fuel = S limit)%nat -> (1 <= fuel)%nat ->
  fst (loop fuel it s) <> OutOfFuel.
Proof.
  induction fuel as [|f IH]; intros it s Hsum Hf; [lia|].
  simpl. dsolve it s; [|discriminate]. dstep it; [|discriminate]. dconv; [discriminate|].
  destruct (Nat.leb limit it) eqn:El; simpl; [discriminate|].
  apply Nat.leb_gt in El.
  match goal with |- context [loop f ?i ?t] =>
    specialize (IH i t ltac:(lia) ltac:(lia)); destruct (loop f i t) as [o tr] end.
  simpl in *. exact IH.
Qed.

(* more fuel changes nothing *)
Lemma loop_fuel_irrelevant fuel : forall extra it s, (it + fuel = S limit)%nat -> (1 <= fuel)%nat ->
  loop (fuel + extra) it s = loop fuel it s.
Proof.
  induction fuel as [|f IH]; intros extra it s Hsum Hf; [lia|].
  simpl.
  destruct (solve_x it (cur_p P X KD s)) as [[x kd]|]; [|reflexivity].
  match goal with |- context [step it ?k ?l] => destruct (step it k l) as [d|]; [|reflexivity] end.
  match goal with |- context [if ?c then (Converged _ _, _) else _] => destruct c; [reflexivity|] end.
  destruct (Nat.leb limit it) eqn:El; [reflexivity|].
  apply Nat.leb_gt in El.
  rewrite IH by lia. reflexivity.
Qed.

(* failing to converge happens exactly when the body has been entered limit + 1 times *)
Lemma loop_notconverged_length fuel : forall it s, (it + fuel = S limit)%nat ->
  fst (loop fuel it s) = Edom NotConverged -> (it + length (snd (loop fuel it s)) = S limit)%nat.
Proof.
  induction fuel as [|f IH]; intros it s Hsum; [simpl; discriminate|].
  simpl.
  destruct (solve_x it (cur_p P X KD s)) as [[x kd]|]; simpl; [|discriminate].
  match goal with |- context [step it ?k ?l] => destruct (step it k l) as [d|]; simpl; [|discriminate] end.
  match goal with |- context [if ?c then (Converged _ _, _) else _] => destruct c; simpl; [discriminate|] end.
  destruct (Nat.leb limit it) eqn:El; simpl.
  - apply Nat.leb_le in El. intros _. lia.
  - match goal with |- context [loop f ?i ?t] =>
      specialize (IH i t ltac:(lia)); destruct (loop f i t) as [o tr] end.
    simpl in *. intros H. specialize (IH H). lia.
Qed.

(* a normal return is always the consequence of a pass whose convergence test succeeded *)
Lemma loop_converged_entry fuel : forall it s x p,
  fst (loop fuel it s) = Converged x p ->
  exists e, In e (snd (loop fuel it s)) /\ e_converged e = true.
Proof.
  induction fuel as [|f IH]; intros it s x0 p0; [simpl; discriminate|].
  simpl.
  destruct (solve_x it (cur_p P X KD s)) as [[x kd]|]; simpl; [|discriminate].
  match goal with |- context [step it ?k ?l] => destruct (step it k l) as [d|]; simpl; [|discriminate] end.
  match goal with |- context [if ?c then (Converged _ _, _) else _] => destruct c; simpl end.
  - intros _. eexists; split; [left; reflexivity|reflexivity].
  - destruct (Nat.leb limit it); simpl; [discriminate|].
    match goal with |- context [loop f ?i ?t] =>
      specialize (IH i t x0 p0); destruct (loop f i t) as [o tr] end.
    simpl in *. intros H. destruct (IH H) as (e & Hin & He). exists e; split; [right; exact Hin|exact He].
Qed.

Lemma auto_terminates (p0 : P) :
  let r := auto_run p0 in
  (length (snd r) <= S limit)%nat /\
  fst r <> OutOfFuel /\
  (fst r = Edom NotConverged -> length (snd r) = S limit) /\
  ((forall e, In e (snd r) -> e_converged e = false) -> exists why, fst r = Edom why) /\
  (forall extra, loop (S limit + extra) 0 (init P X KD p0) = r).
Proof.
  unfold auto_run. cbv zeta. split; [apply loop_entries|].
  split; [apply loop_no_fuel; lia|].
  split; [intros H; apply (loop_notconverged_length (S limit) 0 _ ltac:(lia)) in H; lia|].
  split.
  - intros Hall.
    pose proof (loop_no_fuel (S limit) 0 (init P X KD p0) ltac:(lia) ltac:(lia)) as Hnf.
    destruct (fst (loop (S limit) 0 (init P X KD p0))) as [x p|why|] eqn:E.
    + destruct (loop_converged_entry _ _ _ _ _ E) as (e & Hin & He).
      rewrite (Hall e Hin) in He. discriminate.
    + exists why; reflexivity.
    + contradiction.
  - intros extra. apply loop_fuel_irrelevant; lia.
Qed.

(* ---------- fixed point ---------- *)
Lemma Qc_sq_nonneg (q : Qc) : 0 <= q * q.
Proof.
  destruct (Qclt_le_dec q 0) as [H|H].
  - replace (q * q) with ((- q) * (- q)) by ring.
    assert (H' : 0 <= - q). { apply Qclt_le_weak in H. apply Qcopp_le_compat in H.
                              replace (- 0) with 0 in H by ring. exact H. }
    replace 0 with (0 * - q) by ring. apply Qcmult_le_compat_r; assumption.
  - replace 0 with (0 * q) by ring. apply Qcmult_le_compat_r; assumption.
Qed.

Lemma Qc_lebb_zero (q : Qc) : 0 <= q -> Qc_lebb 0 q = true.
Proof.
  intros H. unfold Qc_lebb. destruct (Qclt_le_dec q 0) as [H'|H']; [|reflexivity].
  exfalso. exact (Qclt_not_le _ _ H' H).
Qed.

(* If the kernel reports a zero step and zero change of the error terms at the initial
   parameters (in particular when the residual is zero), the loop returns at the first
   opportunity with the initial vector and the error terms computed from it. *)
Lemma auto_fixed_point (p0 : P) (x0 : X) (kd0 : KD) (d0 : D) :
  solve_x 0 p0 = Some (x0, kd0) ->
  step 0 kd0 (1 * sumk kd0) = Some d0 ->
  normd d0 = 0 -> normdx x0 x0 = 0 -> apply_step p0 d0 = p0 ->
  plen <> 0 -> xlen <> 0 ->
  auto_run p0 = (Converged x0 p0, [Entry true 1 (1 * sumk kd0) true]).
Proof.
  intros Hx Hs Hd Hdx Hp Hpl Hxl. unfold auto_run, init. simpl.
  rewrite Hx. simpl.
  assert (Em : Qcmax1 0 = 1).
  { unfold Qcmax1, Qc_ltb. destruct (Qclt_le_dec 0 1) as [H|H]; [reflexivity|].
    exfalso. apply (Qcle_not_lt _ _ H). reflexivity. }
  rewrite Em. rewrite Hs. rewrite Hd, Hdx, Hp.
  replace (1 * 1 * 0 / plen) with 0 by (field; exact Hpl).
  replace (1 * 1 * 0 / xlen) with 0 by (field; exact Hxl).
  rewrite !Qc_lebb_zero by apply Qc_sq_nonneg. simpl. reflexivity.
Qed.
End P.
