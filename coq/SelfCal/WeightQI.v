(* Concrete instances for SelfCal/WeightModel.v and SelfCal/LsqModel.v: the refutation
   witnesses for the shipped indexing of the weight vector and a non-vacuity example of
   exact_data_weight_free at the Gaussian rationals. *)
Require Import QArith Qcanon List Arith ZArith Lia.
Import ListNotations.
Require Import LV.Base.CField LV.Base.QcI LV.Lin.MatL.
Require Import LV.SelfCal.WeightModel LV.SelfCal.WeightProofs LV.SelfCal.LsqModel LV.SelfCal.LsqProofs
        LV.SelfCal.AutoProofs LV.SelfCal.LsqLinkModel LV.SelfCal.LsqLinkProofs.

(* measurements are numbered, the "weight" of measurement m is m + 1 (never the calloc zero) *)
Definition w_simple := weight_simple nat nat S 0%nat.
Definition w_auto := weight_auto nat nat S 0%nat.
Definition w_own := own_weight nat nat S 0%nat.

(* two systems of one equation each (e.g. E12 1x2 with one standard per column) *)
Definition two_systems : systems nat := [[1%nat]; [2%nat]].

(* As shipped (k restarts in every system, solve_simple without offset): system 0 is solved
   with the weight computed from system 1's measurement ... *)
Lemma weights_aligned_refuted_simple :
  exists sys s e, (s < length sys)%nat /\ (e < length (nth s sys []))%nat /\
                  w_simple true false sys s e <> w_own sys s e.
Proof. exists two_systems, 0%nat, 0%nat. repeat split; try (simpl; lia). vm_compute. discriminate. Qed.

(* ... and solve_auto multiplies every equation of the systems after the first by the zero
   left by calloc *)
Lemma weights_aligned_refuted_auto :
  exists sys s e, (s < length sys)%nat /\ (e < length (nth s sys []))%nat /\
                  w_auto true sys s e <> w_own sys s e /\ w_auto true sys s e = 0%nat.
Proof. exists two_systems, 1%nat, 0%nat. repeat split; try (simpl; lia). vm_compute. discriminate. Qed.

(* repairing only one of the two places is not enough *)
Lemma weights_half_repaired_refuted :
  (exists sys s e, (s < length sys)%nat /\ (e < length (nth s sys []))%nat /\
                   w_simple false false sys s e <> w_own sys s e) /\
  (exists sys s e, (s < length sys)%nat /\ (e < length (nth s sys []))%nat /\
                   w_simple true true sys s e <> w_own sys s e).
Proof.
  split; exists two_systems, 1%nat, 0%nat; repeat split; try (simpl; lia); vm_compute; discriminate.
Qed.

(* an instance of weights_aligned with several systems of different sizes *)
Example weights_aligned_instance :
  let sys := [[5; 7; 9]; [11]; [13; 15]]%nat in
  forallb (fun '(s, e) => Nat.eqb (w_simple false true sys s e) (w_own sys s e) &&
                          Nat.eqb (w_auto false sys s e) (w_own sys s e))
          [(0,0); (0,1); (0,2); (1,0); (2,0); (2,1)]%nat = true.
Proof. vm_compute. reflexivity. Qed.

(* ---- unequal systems: the closed form "sindex * equations" for w_offset ----
   five reflects on port 1 and four on port 2 (measurements numbered 1..9): with the closed form
   the first equation of system 1 gets the weight of measurement 5 (the last of system 0), the
   loop form gives it its own; with the sizes the other way round the last equation of system 1
   reads beyond the end of the vector *)
Definition w_loop := weight_simple_loop nat nat S 0%nat.
Definition w_closed := weight_simple_closed nat nat S 0%nat.

Lemma closed_form_offset_refuted :
  (exists sys s e, (s < length sys)%nat /\ (e < length (nth s sys []))%nat /\
                   w_closed sys s e <> w_own sys s e /\ w_loop sys s e = w_own sys s e) /\
  (exists sys s e, (s < length sys)%nat /\ (e < length (nth s sys []))%nat /\
                   (length (calc_weights nat nat S 0%nat false sys) <= simple_index_closed nat sys s e)%nat /\
                   w_loop sys s e = w_own sys s e).
Proof.
  split.
  - exists [[1; 2; 3; 4; 5]; [6; 7; 8; 9]]%nat, 1%nat, 0%nat.
    repeat split; try (simpl; lia); vm_compute; try discriminate; reflexivity.
  - exists [[1; 2; 3; 4]; [5; 6; 7; 8; 9]]%nat, 1%nat, 4%nat.
    repeat split; try (simpl; lia); vm_compute; reflexivity.
Qed.

(* instance of weights_aligned_loop's hypotheses: three systems of 5, 4 and 6 equations *)
Example weights_aligned_loop_instance :
  let sys := [[1; 2; 3; 4; 5]; [6; 7; 8; 9]; [10; 11; 12; 13; 14; 15]]%nat in
  forallb (fun s => forallb (fun e => Nat.eqb (w_loop sys s e) (w_own sys s e))
                            (seq 0 (length (nth s sys [])))) (seq 0 (length sys)) = true /\
  running_offsets nat 0 sys = [0; 5; 9]%nat.
Proof. split; vm_compute; reflexivity. Qed.

(* leakage cells with 0, 1 and several samples: E12 2x2, 7 equations and 5 unknowns per column:
   no samples (every standard connects the two ports) 8; one sample per cell 8; three samples in
   one cell and none in the other 12.  The unguarded variant takes 2 away per empty cell. *)
Example dof_leak_instances :
  dof 5 [7; 7]%Z [0; 0]%Z = 8%Z /\ dof 5 [7; 7]%Z [1; 1]%Z = 8%Z /\ dof 5 [7; 7]%Z [3; 0]%Z = 12%Z /\
  dof_of_standards 5 [7; 7]%Z [[(true, true); (true, true)]; [(true, false); (false, false); (true, true)]] = 8%Z /\
  dof_leakage_unguarded [0; 0]%Z (dof_systems 5 [7; 7]%Z) = 4%Z.
Proof. repeat split; vm_compute; reflexivity. Qed.

(* degrees of freedom: 2x2 T8 with 16 equations, 7 unknowns, no leakage: 18;
   2x2 E12 with 8 equations per column, 5 unknowns per column, two leakage cells with 4 samples: 24 *)
Example dof_instances : dof 7 [16%Z] [] = 18%Z /\ dof 5 [8; 8]%Z [4; 4]%Z = 24%Z.
Proof. split; vm_compute; reflexivity. Qed.

(* ---- exact_data_weight_free at Q[i] ---- *)
Local Open Scope Qc_scope.

Lemma qi_nrm_nonneg z : 0 <= qi_nrm z.
Proof. unfold qi_nrm. apply Qc_add_nonneg; apply Qc_sq_nonneg. Qed.

Lemma qi_nrm_of_zero : qi_nrm (@c0 QIF) = 0.
Proof. vm_compute. apply Qc_is_canon. reflexivity. Qed.

Definition q_exact_data_weight_free :=
  exact_data_weight_free QIF qi_nrm qi_nrm_nonneg qi_nrm_zero qi_nrm_of_zero.

(* three equations, two unknowns, x0 = (1 + i, 2): consistent, weights 3, 1/7, 10 *)
Definition ex_x0 : list qi := [mkqi 1 1 1 1; mkqi 2 1 0 1].
Definition ex_sys : list (eqn QIF) :=
  [ (Q2Qc 3,         [mkqi 1 1 0 1; mkqi 0 1 0 1], mkqi 1 1 1 1);
    (Q2Qc (1 # 7),   [mkqi 0 1 0 1; mkqi 1 1 0 1], mkqi 2 1 0 1);
    (Q2Qc 10,        [mkqi 1 1 0 1; mkqi 1 1 0 1], mkqi 3 1 1 1) ].

Add Field qif : (cth QIF).
Lemma lit_one : mkqi 1 1 0 1 = @c1 QIF. Proof. apply qi_eqb_eq. vm_compute. reflexivity. Qed.
Lemma lit_zero : mkqi 0 1 0 1 = @c0 QIF. Proof. apply qi_eqb_eq. vm_compute. reflexivity. Qed.

Example exact_data_hypotheses_satisfiable :
  consistent QIF ex_sys ex_x0 /\ weights_nonzero QIF ex_sys /\ injective QIF ex_sys ex_x0.
Proof.
  split; [|split].
  - intros w row b [E|[E|[E|[]]]]; inversion E; subst; apply qi_eqb_eq; vm_compute; reflexivity.
  - intros w row b [E|[E|[E|[]]]]; inversion E; subst; intro H; apply (f_equal this) in H; vm_compute in H; discriminate.
  - intros y Hlen Hall.
    destruct y as [|y1 [|y2 [|? ?]]]; try discriminate.
    pose proof (Hall _ _ _ (or_introl eq_refl)) as H1.
    pose proof (Hall _ _ _ (or_intror (or_introl eq_refl))) as H2.
    assert (E1 : y1 = mkqi 1 1 1 1).
    { transitivity (dot QIF [mkqi 1 1 0 1; mkqi 0 1 0 1] [y1; y2]).
      - rewrite lit_one, lit_zero. cbn [dot]. ring.
      - rewrite H1. apply qi_eqb_eq. vm_compute. reflexivity. }
    assert (E2 : y2 = mkqi 2 1 0 1).
    { transitivity (dot QIF [mkqi 0 1 0 1; mkqi 1 1 0 1] [y1; y2]).
      - rewrite lit_one, lit_zero. cbn [dot]. ring.
      - rewrite H2. apply qi_eqb_eq. vm_compute. reflexivity. }
    subst. reflexivity.
Qed.

(* ---- the link theorem (LsqLinkProofs.exact_data_simple_weights_as_computed) at Q[i] ----
   two systems (one and three equations); measurement number m has weight 1 / (m + 1); the
   second system is the example above with its rows multiplied by the weights the model of the
   code reads for them *)
Definition lk_wt (m : nat) : Qc := Q2Qc (1 # Pos.of_succ_nat m).
Definition lk_sys : systems nat := [[4%nat]; [1%nat; 2%nat; 6%nat]].
Definition lk_rows (s e : nat) : list qi * qi :=
  match s with
  | 1%nat => nth e [([mkqi 1 1 0 1; mkqi 0 1 0 1], mkqi 1 1 1 1);
                    ([mkqi 0 1 0 1; mkqi 1 1 0 1], mkqi 2 1 0 1);
                    ([mkqi 1 1 0 1; mkqi 1 1 0 1], mkqi 3 1 1 1)] ([], mkqi 0 1 0 1)
  | _ => ([mkqi 1 1 0 1; mkqi 0 1 0 1], mkqi 1 1 1 1)
  end.
Definition lk_ws := weighted_system_simple QIF nat lk_wt lk_rows lk_sys 1.

Lemma lk_wt_nonzero m : lk_wt m <> 0.
Proof.
  unfold lk_wt. intro H. apply (f_equal this) in H. unfold Q2Qc, this in H.
  assert (E : (Qred (1 # Pos.of_succ_nat m) == 0)%Q) by (rewrite H; reflexivity).
  rewrite Qred_correct in E. unfold Qeq in E. simpl in E. discriminate.
Qed.

(* all hypotheses of the link theorem hold, and the weights in lk_ws are those of the equations'
   own measurements (1/2, 1/3, 1/7: the running index skipped the first system's equation) *)
Example exact_data_link_hypotheses_satisfiable :
  (forall m, lk_wt m <> 0) /\ (1 < length lk_sys)%nat /\
  consistent QIF lk_ws ex_x0 /\ injective QIF lk_ws ex_x0 /\
  map (fun e => fst (fst e)) lk_ws = [Q2Qc (1 # 2); Q2Qc (1 # 3); Q2Qc (1 # 7)].
Proof.
  split; [exact lk_wt_nonzero|]. split; [simpl; lia|]. split; [|split].
  - intros w row b [E|[E|[E|[]]]]; inversion E; subst; apply qi_eqb_eq; vm_compute; reflexivity.
  - intros y Hlen Hall.
    destruct y as [|y1 [|y2 [|? ?]]]; try discriminate.
    pose proof (Hall _ _ _ (or_introl eq_refl)) as H1.
    pose proof (Hall _ _ _ (or_intror (or_introl eq_refl))) as H2.
    cbn [lk_rows nth fst snd] in H1, H2.
    assert (E1 : y1 = mkqi 1 1 1 1).
    { transitivity (dot QIF [mkqi 1 1 0 1; mkqi 0 1 0 1] [y1; y2]).
      - rewrite lit_one, lit_zero. cbn [dot]. ring.
      - rewrite H1. apply qi_eqb_eq. vm_compute. reflexivity. }
    assert (E2 : y2 = mkqi 2 1 0 1).
    { transitivity (dot QIF [mkqi 0 1 0 1; mkqi 1 1 0 1] [y1; y2]).
      - rewrite lit_one, lit_zero. cbn [dot]. ring.
      - rewrite H2. apply qi_eqb_eq. vm_compute. reflexivity. }
    subst. reflexivity.
  - unfold lk_ws, weighted_system_simple. cbn [map seq length nth lk_sys fst snd].
    repeat f_equal; apply Qc_is_canon; vm_compute; reflexivity.
Qed.
