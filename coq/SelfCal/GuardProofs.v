(* Lemmas about SelfCal/GuardModel.v. *)
Require Import List Arith Bool Lia.
Import ListNotations.
Require Import LV.SelfCal.GuardModel.

(* ---------------------------------------------------------------- vectors *)
Lemma upd_length {A} (l : list A) i v : length (upd l i v) = length l.
Proof. revert i; induction l; intros [|i]; simpl; auto. Qed.

Lemma nth_upd_eq {A} (l : list A) i v d : i < length l -> nth i (upd l i v) d = v.
Proof. revert i; induction l; intros [|i] H; simpl in *; try lia; auto. apply IHl; lia. Qed.

Lemma nth_upd_neq {A} (l : list A) i j v d : i <> j -> nth j (upd l i v) d = nth j l d.
Proof. revert i j; induction l; intros [|i] [|j] H; simpl; auto; try congruence. Qed.

Lemma rd_ok {A} (v : list A) i d : i < length v -> rd v i = MOk (nth i v d).
Proof.
  intros H. unfold rd. rewrite (nth_error_nth' v d H). reflexivity.
Qed.

Lemma wr_ok {A} (v : list A) i a : i < length v -> wr v i a = MOk (upd v i a).
Proof. intros H. unfold wr. apply Nat.ltb_lt in H. rewrite H. reflexivity. Qed.

(* ================================================================ 1. update_s_matrices *)
Lemma map_add_seq b c : forall a, map (fun c0 => b + c0) (seq a c) = seq (b + a) c.
Proof.
  induction c; intros a; simpl; [reflexivity|]. rewrite IHc, Nat.add_succ_r. reflexivity.
Qed.

(* the index computation visits every cell of the matrix exactly once, in storage order *)
Lemma cell_indices_seq R C : cell_indices R C = seq 0 (R * C).
Proof.
  unfold cell_indices. induction R as [|r IH].
  - reflexivity.
  - rewrite seq_S, flat_map_app, IH. cbn [flat_map]. rewrite app_nil_r. simpl Nat.add.
    replace (S r * C) with (r * C + C) by lia.
    rewrite seq_app. f_equal. rewrite map_add_seq. f_equal. lia.
Qed.

Section UpdateS.
Variable V : Type.
Variables s_rows s_columns : nat.
Variable p_vector : list (list V).
Variable findex : nat.
Variable v0 : V.
Notation n := (s_rows * s_columns).
Notation update_cell := (update_cell V p_vector findex).
Notation walk := (walk_cells V update_cell).

Hypothesis Hp : wf_p V p_vector findex.

(* the value written into cell k, given the value it held *)
Definition newv (cells : list (option (sparam))) (k : nat) (old : V) : V :=
  match nth k cells None with
  | Some p => if sp_unknown p then nth findex (nth (sp_uindex p) p_vector []) v0 else old
  | None => old
  end.

Lemma update_cell_ok cells vals k :
  length cells = n -> length vals = n -> k < n ->
  (forall p, In (Some p) cells -> sp_unknown p = true -> sp_uindex p < length p_vector) ->
  update_cell cells vals k = MOk (upd vals k (newv cells k (nth k vals v0))).
Proof.
  intros Hc Hv Hk Hu. unfold GuardModel.update_cell, newv.
  rewrite (rd_ok cells k None) by lia. cbn [mbind].
  assert (Same : upd vals k (nth k vals v0) = vals).
  { clear -Hv Hk. revert k Hk Hv. generalize n as m. induction vals as [|a r IH]; intros m [|k] Hk Hv; simpl in *; try lia; auto.
    f_equal. apply (IH (pred m)); lia. }
  destruct (nth k cells None) as [p|] eqn:E; [|rewrite Same; reflexivity].
  destruct (sp_unknown p) eqn:U; [|rewrite Same; reflexivity].
  assert (Hin : In (Some p) cells) by (rewrite <- E; apply nth_In; lia).
  pose proof (Hu p Hin U) as Hlt.
  rewrite (rd_ok p_vector _ []) by exact Hlt. cbn [mbind].
  assert (Hf : findex < length (nth (sp_uindex p) p_vector [])) by (apply Hp; apply nth_In; exact Hlt).
  rewrite (rd_ok _ findex v0) by exact Hf. cbn [mbind].
  apply wr_ok. lia.
Qed.

Lemma walk_spec cells m : forall a vals,
  length cells = n -> length vals = n -> a + m <= n ->
  (forall p, In (Some p) cells -> sp_unknown p = true -> sp_uindex p < length p_vector) ->
  exists vals', walk cells (seq a m) vals = MOk vals' /\ length vals' = n /\
    forall k, nth k vals' v0 = if (a <=? k) && (k <? a + m) then newv cells k (nth k vals v0) else nth k vals v0.
Proof.
  induction m as [|m IH]; intros a vals Hc Hv Ham Hu.
  - exists vals. split; [reflexivity|]. split; [exact Hv|]. intros k.
    destruct (a <=? k) eqn:E1, (k <? a + 0) eqn:E2; try reflexivity.
    apply Nat.leb_le in E1. apply Nat.ltb_lt in E2. lia.
  - cbn [seq walk_cells]. rewrite (update_cell_ok cells vals a Hc Hv ltac:(lia) Hu). cbn [mbind].
    set (vals1 := upd vals a (newv cells a (nth a vals v0))).
    assert (Hv1 : length vals1 = n) by (unfold vals1; rewrite upd_length; exact Hv).
    destruct (IH (S a) vals1 Hc Hv1 ltac:(lia) Hu) as (vals' & Hw & Hl & Hs).
    exists vals'. split; [exact Hw|]. split; [exact Hl|]. intros k. rewrite Hs.
    destruct (Nat.eq_dec k a) as [->|Hne].
    + replace (S a <=? a) with false by (symmetry; apply Nat.leb_gt; lia). cbn [andb].
      replace (a <=? a) with true by (symmetry; apply Nat.leb_le; lia).
      replace (a <? a + S m) with true by (symmetry; apply Nat.ltb_lt; lia). cbn [andb].
      unfold vals1. apply nth_upd_eq. lia.
    + unfold vals1. rewrite (nth_upd_neq vals a k) by lia.
      replace (k <? S a + m) with (k <? a + S m) by (f_equal; lia).
      destruct (k <? a + S m) eqn:E2; [|rewrite !andb_false_r; reflexivity].
      rewrite !andb_true_r.
      destruct (S a <=? k) eqn:E3, (a <=? k) eqn:E4; try reflexivity.
      * apply Nat.leb_le in E3. apply Nat.leb_gt in E4. lia.
      * apply Nat.leb_gt in E3. apply Nat.leb_le in E4. lia.
Qed.

(* relation between a standard before and after *)
Definition updated (s s' : sstd V) : Prop :=
  ss_cells V s' = ss_cells V s /\ length (ss_vals V s') = n /\
  forall k, k < n -> nth k (ss_vals V s') v0 = expected V p_vector findex v0 s k.

Lemma update_std_ok s : wf_std V s_rows s_columns p_vector s ->
  exists s', update_std V s_rows s_columns update_cell s = MOk s' /\ updated s s'.
Proof.
  intros (Hc & Hv & Hu). unfold update_std. rewrite cell_indices_seq.
  destruct (walk_spec (ss_cells V s) n 0 (ss_vals V s) Hc Hv ltac:(lia) Hu) as (vals' & Hw & Hl & Hs).
  rewrite Hw. cbn [mbind]. eexists. split; [reflexivity|].
  split; [reflexivity|]. split; [exact Hl|]. intros k Hk. cbn [ss_vals]. rewrite Hs.
  replace (0 <=? k) with true by (symmetry; apply Nat.leb_le; lia).
  replace (k <? 0 + n) with true by (symmetry; apply Nat.ltb_lt; lia). cbn [andb].
  unfold newv, expected. destruct (nth k (ss_cells V s) None) as [p|]; [destruct (sp_unknown p)|]; reflexivity.
Qed.

(* _vnacal_new_solve_update_s_matrices never reads or writes outside an allocation and never
   through a NULL cell, for EVERY list of standards whose S matrices have any mixture of absent,
   known and unknown cells; afterwards every cell of an unknown parameter holds that parameter's
   current value and every other cell is unchanged *)
Lemma update_s_safe stds :
  (forall s, In s stds -> wf_std V s_rows s_columns p_vector s) ->
  exists stds', update_s_matrices V s_rows s_columns p_vector findex stds = MOk stds' /\
                Forall2 updated stds stds'.
Proof.
  unfold update_s_matrices. induction stds as [|s r IH]; intros Hwf.
  - exists []. split; [reflexivity | constructor].
  - destruct (update_std_ok s (Hwf s (or_introl eq_refl))) as (s' & Hs & Hu).
    destruct (IH (fun x Hx => Hwf x (or_intror Hx))) as (r' & Hr & HF).
    exists (s' :: r'). cbn [update_all]. rewrite Hs. cbn [mbind]. rewrite Hr. cbn [mbind].
    split; [reflexivity | constructor; assumption].
Qed.
End UpdateS.

(* finding D19 (fixed in /repo): with the unknown index read in front of the NULL test, a
   well-formed standard with an absent cell (a single reflect) made the function read through NULL *)
Lemma update_s_before_D19_faults :
  exists stds, (forall s, In s stds -> wf_std nat 2 2 [[7]] s) /\ wf_p nat [[7]] 0 /\
               update_s_matrices_before_D19 nat 2 2 [[7]] 0 stds = MNull.
Proof.
  exists [SStd nat [Some (SParam true 0); Some (SParam false 0); Some (SParam false 0); None] [1; 0; 0; 0]].
  split; [|split].
  - intros s [<-|[]]. repeat split. intros p Hin _.
    destruct Hin as [E|[E|[E|[E|[]]]]]; inversion E; subst; simpl; lia.
  - intros pv [<-|[]]. simpl. lia.
  - reflexivity.
Qed.

(* the same standard with the function as it is: the unknown cell gets the parameter's value,
   the others keep theirs *)
Example update_s_instance :
  update_s_matrices nat 2 2 [[7]] 0
    [SStd nat [Some (SParam true 0); Some (SParam false 0); Some (SParam false 0); None] [1; 0; 0; 9]] =
  MOk [SStd nat [Some (SParam true 0); Some (SParam false 0); Some (SParam false 0); None] [7; 0; 0; 9]].
Proof. reflexivity. Qed.

(* ================================================================ 2. V matrices *)
Lemma firstn_len_app {A} (a b : list A) : firstn (length a) (a ++ b) = a.
Proof. induction a; simpl; [destruct b; reflexivity | f_equal; exact IHa]. Qed.
Lemma skipn_len_app {A} (a b : list A) : skipn (length a) (a ++ b) = b.
Proof. induction a; simpl; auto. Qed.
Lemma firstn_eq_app {A} (a b : list A) k : k = length a -> firstn k (a ++ b) = a.
Proof. intros ->. apply firstn_len_app. Qed.
Lemma skipn_eq_app {A} (a b : list A) k : k = length a -> skipn k (a ++ b) = b.
Proof. intros ->. apply skipn_len_app. Qed.
Lemma nth_error_mid {A} (a : list A) x b : nth_error (a ++ x :: b) (length a) = Some x.
Proof. induction a; simpl; auto. Qed.
Lemma upd_mid {A} (a : list A) x y b : upd (a ++ x :: b) (length a) y = a ++ y :: b.
Proof. induction a; simpl; [reflexivity | f_equal; exact IHa]. Qed.

Section VMat.
Variable V : Type.
Variables systems v_cells : nat.
Notation vmat := (vmat V).
Notation vvec := (vvec V).

Definition flat (vs : list (option vmat)) : list V :=
  concat (map (fun e => match e with Some p => p | None => [] end) vs).
Definition flat_all (stds : list vvec) : list V :=
  concat (map (fun vv => match vv with Some vs => flat vs | None => [] end) stds).

Definition entries_ok (vs : list (option vmat)) : Prop := forall p, In (Some p) vs -> length p = v_cells.

Lemma flat_bound vs : entries_ok vs -> length (flat vs) <= length vs * v_cells.
Proof.
  unfold flat. induction vs as [|e r IH]; intros H; simpl; [lia|].
  rewrite app_length. assert (IH' := IH (fun p Hp => H p (or_intror Hp))).
  destruct e as [p|]; simpl; [rewrite (H p (or_introl eq_refl))|]; lia.
Qed.

(* ---- save ---- *)
Lemma save_loop_spec todo : forall done pre old post,
  entries_ok todo -> length old = length (flat todo) ->
  save_loop V v_cells (seq (length done) (length todo)) (done ++ todo) (pre ++ old ++ post, length pre) =
  MOk (pre ++ flat todo ++ post, length pre + length (flat todo)).
Proof.
  induction todo as [|e rest IH]; intros done pre old post Hok Hlen.
  - destruct old; [|discriminate]. simpl. rewrite Nat.add_0_r. reflexivity.
  - cbn [length seq save_loop]. unfold rd. rewrite nth_error_mid. cbn [mbind].
    assert (Hok' : entries_ok rest) by (intros p Hp; apply Hok; right; exact Hp).
    replace (done ++ e :: rest) with ((done ++ [e]) ++ rest) by (rewrite <- app_assoc; reflexivity).
    replace (S (length done)) with (length (done ++ [e])) by (rewrite app_length; simpl; lia).
    destruct e as [p|].
    + assert (Hp : length p = v_cells) by (apply Hok; left; reflexivity).
      unfold flat in Hlen |- *. cbn [map concat] in Hlen |- *. rewrite app_length in Hlen.
      set (old1 := firstn v_cells old). set (old2 := skipn v_cells old).
      assert (Eo : old = old1 ++ old2) by (symmetry; apply firstn_skipn).
      assert (L1 : length old1 = v_cells) by (unfold old1; rewrite firstn_length; lia).
      assert (L2 : length old2 = length (concat (map (fun e => match e with Some p => p | None => [] end) rest))).
      { unfold old2. rewrite skipn_length. lia. }
      unfold copy_in. cbn [fst snd].
      replace (v_cells <=? length p) with true by (symmetry; apply Nat.leb_le; lia).
      replace (length pre + v_cells <=? length (pre ++ old ++ post)) with true
        by (symmetry; apply Nat.leb_le; rewrite !app_length; lia).
      cbn [andb mbind].
      rewrite firstn_len_app.
      replace (firstn v_cells p) with p by (symmetry; rewrite <- Hp; apply firstn_all).
      replace (skipn (length pre + v_cells) (pre ++ old ++ post)) with (old2 ++ post).
      2:{ rewrite Eo, <- app_assoc, app_assoc. symmetry. apply skipn_eq_app. rewrite app_length. lia. }
      replace (pre ++ p ++ old2 ++ post) with ((pre ++ p) ++ old2 ++ post) by (rewrite <- app_assoc; reflexivity).
      replace (length pre + v_cells) with (length (pre ++ p)) by (rewrite app_length; lia).
      rewrite (IH (done ++ [Some p]) (pre ++ p) old2 post Hok' L2).
      unfold flat. rewrite <- !app_assoc, !app_length. f_equal. f_equal. lia.
    + unfold flat in Hlen |- *. cbn [map concat app] in Hlen |- *.
      exact (IH (done ++ [None]) pre old post Hok' Hlen).
Qed.

Lemma seq_all_ok (vs : list (option vmat)) :
  length vs = systems -> seq 0 systems = seq (length (@nil (option vmat))) (length vs).
Proof. intros ->. reflexivity. Qed.

Lemma save_std_spec (vv : vvec) pre old post :
  wf_vvec V systems v_cells vv ->
  length old = length (match vv with Some vs => flat vs | None => [] end) ->
  save_std V systems v_cells vv (pre ++ old ++ post, length pre) =
  MOk (pre ++ match vv with Some vs => flat vs | None => [] end ++ post,
       length pre + length (match vv with Some vs => flat vs | None => [] end)).
Proof.
  destruct vv as [vs|]; cbn [save_std wf_vvec].
  - intros (Hl & Hok) Hlen. rewrite (seq_all_ok vs Hl).
    exact (save_loop_spec vs [] pre old post Hok Hlen).
  - intros _ Hlen. destruct old; [|discriminate]. simpl. rewrite Nat.add_0_r. reflexivity.
Qed.

Lemma save_all_spec stds : forall pre old post,
  (forall vv, In vv stds -> wf_vvec V systems v_cells vv) ->
  length old = length (flat_all stds) ->
  save_all V (save_std V systems v_cells) stds (pre ++ old ++ post, length pre) =
  MOk (pre ++ flat_all stds ++ post, length pre + length (flat_all stds)).
Proof.
  induction stds as [|vv r IH]; intros pre old post Hwf Hlen.
  - destruct old; [|discriminate]. simpl. rewrite Nat.add_0_r. reflexivity.
  - unfold flat_all in Hlen |- *. cbn [map concat] in Hlen |- *. rewrite app_length in Hlen.
    set (m := match vv with Some vs => flat vs | None => [] end) in *.
    set (old1 := firstn (length m) old). set (old2 := skipn (length m) old).
    assert (Eo : old = old1 ++ old2) by (symmetry; apply firstn_skipn).
    assert (L1 : length old1 = length m) by (unfold old1; rewrite firstn_length; lia).
    assert (L2 : length old2 = length (concat (map (fun vv => match vv with Some vs => flat vs | None => [] end) r))).
    { unfold old2. rewrite skipn_length. lia. }
    cbn [save_all]. rewrite Eo, <- app_assoc.
    rewrite (save_std_spec vv pre old1 (old2 ++ post) (Hwf vv (or_introl eq_refl)) L1).
    cbn [mbind]. fold m.
    replace (pre ++ m ++ old2 ++ post) with ((pre ++ m) ++ old2 ++ post) by (rewrite <- app_assoc; reflexivity).
    replace (length pre + length m) with (length (pre ++ m)) by (rewrite app_length; lia).
    rewrite (IH (pre ++ m) old2 post (fun x Hx => Hwf x (or_intror Hx)) L2).
    unfold flat_all. rewrite <- !app_assoc, !app_length. f_equal. f_equal. lia.
Qed.

Lemma flat_all_bound stds : (forall vv, In vv stds -> wf_vvec V systems v_cells vv) ->
  length (flat_all stds) <= length stds * systems * v_cells.
Proof.
  unfold flat_all. induction stds as [|vv r IH]; intros Hwf; simpl; [lia|].
  rewrite app_length. assert (IH' := IH (fun x Hx => Hwf x (or_intror Hx))).
  assert (H1 : length (match vv with Some vs => flat vs | None => [] end) <= systems * v_cells).
  { pose proof (Hwf vv (or_introl eq_refl)) as W. destruct vv as [vs|]; simpl in *; [|lia].
    destruct W as (Hl & Hok). rewrite <- Hl. apply flat_bound. exact Hok. }
  nia.
Qed.

(* save_v_matrices writes only inside the buffer its caller allocated (measurement_count *
   systems * v_cells elements), reads only inside existing matrices and never through a NULL
   vector, for EVERY pattern of absent vectors and absent matrices; the buffer then holds the
   existing matrices back to back *)
Lemma save_v_matrices_safe stds buf :
  (forall vv, In vv stds -> wf_vvec V systems v_cells vv) ->
  length buf = length stds * systems * v_cells ->
  save_v_matrices V systems v_cells stds buf =
  MOk (flat_all stds ++ skipn (length (flat_all stds)) buf).
Proof.
  intros Hwf Hlen. unfold save_v_matrices.
  pose proof (flat_all_bound stds Hwf) as Hb.
  set (k := length (flat_all stds)) in *.
  assert (Eb : buf = [] ++ firstn k buf ++ skipn k buf) by (symmetry; apply firstn_skipn).
  rewrite Eb at 1. change 0 with (length (@nil V)).
  rewrite (save_all_spec stds [] (firstn k buf) (skipn k buf) Hwf); [reflexivity|].
  rewrite firstn_length. lia.
Qed.

(* ---- restore ---- *)
Lemma restore_loop_spec saved : forall todo done pre post,
  same_shape_vec V saved todo -> entries_ok saved -> entries_ok todo ->
  restore_loop V v_cells (pre ++ flat saved ++ post) (seq (length done) (length todo)) (done ++ todo) (length pre) =
  MOk (done ++ saved, length pre + length (flat saved)).
Proof.
  induction saved as [|q srest IH]; intros todo done pre post Hsh Hs Ht; inversion Hsh as [|? e ? rest Hqe Hrest]; subst.
  - simpl. rewrite Nat.add_0_r. reflexivity.
  - cbn [length seq restore_loop]. unfold rd. rewrite nth_error_mid. cbn [mbind].
    assert (Hs' : entries_ok srest) by (intros p Hp; apply Hs; right; exact Hp).
    assert (Ht' : entries_ok rest) by (intros p Hp; apply Ht; right; exact Hp).
    destruct q as [q|], e as [p|]; try contradiction.
    + assert (Hq : length q = v_cells) by (apply Hs; left; reflexivity).
      assert (Hp : length p = v_cells) by (apply Ht; left; reflexivity).
      unfold flat. cbn [map concat]. fold (flat srest).
      unfold copy_out.
      replace (v_cells <=? length p) with true by (symmetry; apply Nat.leb_le; lia).
      replace (length pre + v_cells <=? length (pre ++ (q ++ flat srest) ++ post)) with true
        by (symmetry; apply Nat.leb_le; rewrite !app_length; lia).
      cbn [andb mbind].
      rewrite skipn_len_app, <- app_assoc.
      rewrite (firstn_eq_app q _ v_cells (eq_sym Hq)).
      replace (skipn v_cells p) with (@nil V) by (symmetry; rewrite <- Hp; apply skipn_all).
      rewrite app_nil_r.
      rewrite wr_ok by (rewrite app_length; simpl; lia). cbn [mbind]. rewrite upd_mid.
      replace (done ++ Some q :: rest) with ((done ++ [Some q]) ++ rest) by (rewrite <- app_assoc; reflexivity).
      replace (S (length done)) with (length (done ++ [Some q])) by (rewrite app_length; simpl; lia).
      replace (pre ++ q ++ flat srest ++ post) with ((pre ++ q) ++ flat srest ++ post) by (rewrite <- app_assoc; reflexivity).
      replace (length pre + v_cells) with (length (pre ++ q)) by (rewrite app_length; lia).
      rewrite (IH rest (done ++ [Some q]) (pre ++ q) post Hrest Hs' Ht').
      rewrite <- !app_assoc, !app_length. cbn [app]. f_equal. f_equal. lia.
    + unfold flat. cbn [map concat app]. fold (flat srest).
      replace (done ++ None :: rest) with ((done ++ [None]) ++ rest) by (rewrite <- app_assoc; reflexivity).
      replace (S (length done)) with (length (done ++ [None])) by (rewrite app_length; simpl; lia).
      rewrite (IH rest (done ++ [None]) pre post Hrest Hs' Ht').
      rewrite <- !app_assoc. reflexivity.
Qed.

Lemma same_shape_vec_length a b : same_shape_vec V a b -> length a = length b.
Proof. induction 1; simpl; auto. Qed.

Lemma restore_all_spec saved : forall now pre post,
  Forall2 (same_shape V) saved now ->
  (forall vv, In vv saved -> wf_vvec V systems v_cells vv) ->
  (forall vv, In vv now -> wf_vvec V systems v_cells vv) ->
  restore_all V systems v_cells (pre ++ flat_all saved ++ post) now (length pre) =
  MOk (saved, length pre + length (flat_all saved)).
Proof.
  induction saved as [|sv sr IH]; intros now pre post Hsh Hs Hn; inversion Hsh as [|? nv ? nr Hsn Hrest]; subst.
  - simpl. rewrite Nat.add_0_r. reflexivity.
  - cbn [restore_all]. unfold flat_all. cbn [map concat]. fold (flat_all sr).
    pose proof (Hs sv (or_introl eq_refl)) as Ws. pose proof (Hn nv (or_introl eq_refl)) as Wn.
    destruct sv as [svs|], nv as [nvs|]; try contradiction; cbn [restore_std same_shape wf_vvec] in *.
    + destruct Ws as (Ls & Os), Wn as (Ln & On).
      rewrite (seq_all_ok nvs Ln). rewrite <- app_assoc.
      pose proof (restore_loop_spec svs nvs [] pre (flat_all sr ++ post) Hsn Os On) as R.
      cbn [app] in R. rewrite R. clear R. cbn [mbind fst snd].
      replace (pre ++ flat svs ++ flat_all sr ++ post) with ((pre ++ flat svs) ++ flat_all sr ++ post)
        by (rewrite <- app_assoc; reflexivity).
      replace (length pre + length (flat svs)) with (length (pre ++ flat svs)) by (rewrite app_length; lia).
      rewrite (IH nr (pre ++ flat svs) post Hrest (fun x Hx => Hs x (or_intror Hx)) (fun x Hx => Hn x (or_intror Hx))).
      cbn [mbind fst snd]. rewrite !app_length. f_equal. f_equal. lia.
    + cbn [mbind fst snd app].
      rewrite (IH nr pre post Hrest (fun x Hx => Hs x (or_intror Hx)) (fun x Hx => Hn x (or_intror Hx))).
      reflexivity.
Qed.

(* restore_v_matrices after save_v_matrices gives back exactly the saved V matrices, whatever was
   written into the (same) matrices in between -- both walks compute the same offsets -- and both
   stay inside their allocations *)
Lemma v_matrices_roundtrip saved now buf :
  (forall vv, In vv saved -> wf_vvec V systems v_cells vv) ->
  (forall vv, In vv now -> wf_vvec V systems v_cells vv) ->
  Forall2 (same_shape V) saved now ->
  length buf = length saved * systems * v_cells ->
  exists buf', save_v_matrices V systems v_cells saved buf = MOk buf' /\ length buf' = length buf /\
               restore_v_matrices V systems v_cells now buf' = MOk saved.
Proof.
  intros Hs Hn Hsh Hlen.
  pose proof (flat_all_bound saved Hs) as Hb.
  exists (flat_all saved ++ skipn (length (flat_all saved)) buf).
  split; [apply save_v_matrices_safe; assumption|]. split.
  - rewrite app_length, skipn_length. lia.
  - unfold restore_v_matrices.
    change (flat_all saved ++ skipn (length (flat_all saved)) buf)
      with ([] ++ flat_all saved ++ skipn (length (flat_all saved)) buf).
    change 0 with (length (@nil V)).
    rewrite (restore_all_spec saved now [] _ Hsh Hs Hn). reflexivity.
Qed.

(* ---- 3. the vectors _vnacal_new_solve_init builds are well formed ---- *)
Lemma init_vvec_wf (v0 : V) m_error ups eq_counts :
  length eq_counts = systems -> wf_vvec V systems v_cells (init_vvec V v_cells v0 m_error ups eq_counts).
Proof.
  intros Hl. unfold init_vvec.
  destruct ((ups <? fold_right Nat.max 0 eq_counts) && m_error); [|exact I].
  split; [rewrite map_length; exact Hl|].
  intros p Hin. apply in_map_iff in Hin. destruct Hin as (c & E & _).
  destruct (ups <? c); [|discriminate]. inversion E. apply repeat_length.
Qed.
End VMat.

(* finding D38 (fixed in /repo): with the test on the address of the array element instead of on
   the vector, a standard without V matrices made save_v_matrices index a NULL vector *)
Lemma save_v_before_D38_faults :
  exists stds buf, (forall vv, In vv stds -> wf_vvec nat 1 4 vv) /\ length buf = length stds * 1 * 4 /\
                   save_v_matrices_before_D38 nat 1 4 stds buf = MNull.
Proof. exists [None], [0; 0; 0; 0]. split; [intros vv [<-|[]]; exact I|]. split; reflexivity. Qed.

(* an instance with every kind of entry: a standard without vector, a vector with an absent
   matrix, two present matrices; saved, overwritten, restored *)
Example v_matrices_instance :
  let saved := [None; Some [Some [1; 2]; None]; Some [Some [3; 4]; Some [5; 6]]] in
  let now := [None; Some [Some [0; 0]; None]; Some [Some [9; 9]; Some [8; 8]]] in
  (forall vv, In vv saved -> wf_vvec nat 2 2 vv) /\ (forall vv, In vv now -> wf_vvec nat 2 2 vv) /\
  Forall2 (same_shape nat) saved now /\
  save_v_matrices nat 2 2 saved (repeat 7 12) = MOk [1; 2; 3; 4; 5; 6; 7; 7; 7; 7; 7; 7] /\
  restore_v_matrices nat 2 2 now [1; 2; 3; 4; 5; 6; 7; 7; 7; 7; 7; 7] = MOk saved.
Proof.
  cbv zeta. split; [|split; [|split; [|split; reflexivity]]].
  - intros vv [<-|[<-|[<-|[]]]]; simpl; auto; split; auto; intros p Hin; simpl in Hin;
      repeat (destruct Hin as [Hin|Hin]; [inversion Hin; reflexivity|]); try discriminate; contradiction.
  - intros vv [<-|[<-|[<-|[]]]]; simpl; auto; split; auto; intros p Hin; simpl in Hin;
      repeat (destruct Hin as [Hin|Hin]; [inversion Hin; reflexivity|]); try discriminate; contradiction.
  - repeat constructor.
Qed.
