(* Lemmas about SelfCal/PvalueModel.v: the weight formula, the chi-square statistic of exact data,
   chisq_pvalue at 0, the degrees of freedom, disabling the model. *)
Require Import List ZArith QArith Qcanon Bool Lia.
Import ListNotations.
Require Import LV.Base.CField.
Require Import LV.SelfCal.WeightModel LV.SelfCal.LsqModel LV.SelfCal.LsqProofs LV.SelfCal.AutoProofs.
Require Import LV.SelfCal.LsqLinkModel LV.SelfCal.LsqLinkProofs.
Require Import LV.SelfCal.C18MErrorModel LV.SelfCal.C18MErrorProofs LV.SelfCal.PvalueModel.
Local Open Scope Qc_scope.

Lemma Qc_1_neq_0 : (1 : Qc) <> 0.
Proof. intro H. apply (f_equal this) in H. vm_compute in H. discriminate. Qed.

Lemma Qc_div_0_l a : 0 / a = 0.
Proof. unfold Qcdiv. ring. Qed.

Lemma Qc_pos_add a b : 0 <= a -> 0 < b -> 0 < a + b.
Proof.
  intros Ha Hb. apply (Qclt_le_trans _ b); [exact Hb|].
  replace b with (0 + b) at 1 by ring. apply Qcplus_le_compat; [exact Ha | apply Qcle_refl].
Qed.

Lemma Qc_sq_pos a : 0 < a -> 0 < a * a.
Proof. intros H. replace 0 with (0 * a) by ring. apply Qcmult_lt_compat_r; assumption. Qed.

Section P.
Variable C : Type.
Variables (c0 c1 : C) (cadd cmul : C -> C -> C) (copp : C -> C).
Variable N : C -> Qc.
Variable rsqrt : Qc -> Qc.
Hypothesis N_nonneg : forall z, 0 <= N z.

Notation weight2 := (weight2 C N).
Notation weight := (weight C N rsqrt).
Notation residual := (residual C c0 c1 cadd cmul copp).
Notation acc_equation := (acc_equation C c0 c1 cadd cmul copp N).
Notation acc_system := (acc_system C c0 c1 cadd cmul copp N).
Notation acc_systems := (acc_systems C c0 c1 cadd cmul copp N).
Notation acc_leak := (acc_leak C N).
Notation calc_stat := (calc_stat C c0 c1 cadd cmul copp N).

(* ---- the weight formula ---- *)
(* sigma_nf > 0 (vnacal_new_set_m_error rejects anything else): the radicand is positive *)
Lemma weight2_pos nf tr m : 0 < nf -> 0 < weight2 nf tr m.
Proof.
  intros H. unfold PvalueModel.weight2. apply Qc_pos_add; [|apply Qc_sq_pos; exact H].
  apply Qc_mul_nonneg; [apply N_nonneg | apply Qc_sq_nonneg].
Qed.

(* the radicand grows with |m|^2 ... *)
Lemma weight2_monotone nf tr m1 m2 : N m1 <= N m2 -> weight2 nf tr m1 <= weight2 nf tr m2.
Proof.
  intros H. unfold PvalueModel.weight2. apply Qcplus_le_compat; [|apply Qcle_refl].
  apply Qcmult_le_compat_r; [exact H | apply Qc_sq_nonneg].
Qed.

(* ... so the weight falls with |m|: larger signals are trusted less, for any decreasing 1/sqrt *)
Hypothesis rsqrt_antitone : forall a b, 0 < a -> a <= b -> rsqrt b <= rsqrt a.
Lemma weight_antitone nf tr m1 m2 : 0 < nf -> N m1 <= N m2 -> weight nf tr m2 <= weight nf tr m1.
Proof.
  intros Hn H. unfold PvalueModel.weight. apply rsqrt_antitone; [apply weight2_pos; exact Hn | apply weight2_monotone; exact H].
Qed.

(* without a tracking term every equation has the same weight (why a noise floor alone cannot show an
   indexing fault) *)
Lemma weight_without_tracking nf m1 m2 : weight nf 0 m1 = weight nf 0 m2.
Proof. unfold PvalueModel.weight, PvalueModel.weight2. f_equal. ring. Qed.

(* the one law of 1/sqrt the rest needs *)
Hypothesis rsqrt_law : forall a, 0 < a -> rsqrt a * rsqrt a * a = 1.

Lemma weight_nonzero nf tr m : 0 < nf -> weight nf tr m <> 0.
Proof.
  intros Hn E. pose proof (rsqrt_law _ (weight2_pos nf tr m Hn)) as L.
  unfold PvalueModel.weight in E. rewrite E in L. apply Qc_1_neq_0. rewrite <- L. ring.
Qed.

(* the chi-square divisor is the reciprocal square of the weight the solver multiplied the equation
   with: |r|^2 / weight2 = | w r |^2 *)
Lemma normalised_residual nf tr m (r : Qc) : 0 < nf -> r / weight2 nf tr m = weight nf tr m * weight nf tr m * r.
Proof.
  intros Hn. pose proof (weight2_pos nf tr m Hn) as Hp. pose proof (rsqrt_law _ Hp) as L.
  unfold PvalueModel.weight. set (w2 := weight2 nf tr m) in *. set (s := rsqrt w2) in *.
  assert (Hz : w2 <> 0). { intro E. rewrite E in Hp. exact (Qclt_not_le _ _ Hp (Qcle_refl 0)). }
  transitivity (s * s * w2 * (r / w2)); [rewrite L; ring | field; exact Hz].
Qed.

(* ---- the statistic ---- *)
Lemma acc_equations_df nf tr x off es : forall st,
  snd (fold_left (acc_equation nf tr x off) es st) = (snd st + 2 * Z.of_nat (length es))%Z.
Proof.
  induction es as [|e es IH]; intros st; cbn [fold_left length]; [lia|].
  rewrite IH. unfold PvalueModel.acc_equation. cbn [snd]. lia.
Qed.

Lemma acc_systems_df_gen unknowns nf tr x systems : forall k st,
  snd (fold_left (acc_system unknowns nf tr x) (number k systems) st) =
  fold_left (fun df n => (df + 2 * n - 2 * Z.of_nat unknowns)%Z)
            (map (fun l => Z.of_nat (length l)) systems) (snd st).
Proof.
  induction systems as [|s r IH]; intros k st; cbn [number fold_left map]; [reflexivity|].
  rewrite IH. f_equal. unfold PvalueModel.acc_system. cbn [fst snd]. rewrite acc_equations_df. reflexivity.
Qed.

Lemma acc_leak_df nf tr cells : forall st,
  snd (fold_left (acc_leak nf tr) cells st) = dof_leakage (map (l_count C) cells) (snd st).
Proof.
  induction cells as [|l r IH]; intros st; [reflexivity|].
  cbn [fold_left map]. rewrite IH. unfold dof_leakage. cbn [fold_left]. f_equal.
  unfold PvalueModel.acc_leak. destruct (Z.ltb 1 (l_count C l)); reflexivity.
Qed.

(* the degrees of freedom of the statistic are WeightModel.dof of the equation counts of the systems
   and the sample counts of the leakage cells, whatever the data *)
Lemma calc_stat_df unknowns nf tr x systems leak :
  snd (calc_stat unknowns nf tr x systems leak) =
  dof (Z.of_nat unknowns) (map (fun l => Z.of_nat (length l)) systems)
      (match leak with Some cells => map (l_count C) cells | None => [] end).
Proof.
  unfold PvalueModel.calc_stat, dof, dof_systems.
  destruct leak as [cells|].
  - rewrite acc_leak_df. f_equal. unfold PvalueModel.acc_systems. apply acc_systems_df_gen.
  - unfold PvalueModel.acc_systems. rewrite acc_systems_df_gen. reflexivity.
Qed.

(* data that fit: every residual the code computes is zero, every leakage cell has no scatter *)
Hypothesis N_zero : N c0 = 0.
Definition fits (unknowns : nat) (x : list C) (systems : list (list (equation C))) : Prop :=
  Forall (fun se => Forall (fun e => residual x (fst se * unknowns) e = c0) (snd se)) (number 0 systems).
Definition leak_exact (l : lcell C) : Prop := l_sumsq C l <= N (l_sum C l) / zq (l_count C l).

Lemma acc_equations_fit nf tr x off es : Forall (fun e => residual x off e = c0) es ->
  forall st, fst (fold_left (acc_equation nf tr x off) es st) = fst st.
Proof.
  induction 1 as [|e es He _ IH]; intros st; [reflexivity|].
  cbn [fold_left]. rewrite IH. unfold PvalueModel.acc_equation. cbn [fst]. rewrite He, N_zero, Qc_div_0_l. ring.
Qed.

Lemma acc_systems_fit unknowns nf tr x (ns : list (nat * list (equation C))) :
  Forall (fun se => Forall (fun e => residual x (fst se * unknowns) e = c0) (snd se)) ns ->
  forall st, fst (fold_left (acc_system unknowns nf tr x) ns st) = fst st.
Proof.
  induction 1 as [|se r Hs _ IH]; intros st; [reflexivity|].
  cbn [fold_left]. rewrite IH. unfold PvalueModel.acc_system. cbn [fst]. apply acc_equations_fit. exact Hs.
Qed.

Lemma leak_value_exact l : leak_exact l -> leak_value C N l = 0.
Proof.
  unfold leak_exact, PvalueModel.leak_value. intros H.
  set (v := l_sumsq C l - N (l_sum C l) / zq (l_count C l)).
  assert (Hv : v <= 0).
  { unfold v. apply (Qcplus_le_compat _ _ (- (N (l_sum C l) / zq (l_count C l))) (- (N (l_sum C l) / zq (l_count C l)))) in H;
      [|apply Qcle_refl].
    unfold Qcminus. replace 0 with (N (l_sum C l) / zq (l_count C l) + - (N (l_sum C l) / zq (l_count C l))) by ring. exact H. }
  unfold qc_lt0. destruct (Qclt_le_dec v 0) as [_|H0]; [reflexivity|]. apply Qcle_antisym; assumption.
Qed.

Lemma acc_leak_fit nf tr cells : Forall leak_exact cells ->
  forall st, fst (fold_left (acc_leak nf tr) cells st) = fst st.
Proof.
  induction 1 as [|l r Hl _ IH]; intros st; [reflexivity|].
  cbn [fold_left]. rewrite IH. unfold PvalueModel.acc_leak.
  destruct (Z.ltb 1 (l_count C l)); [|reflexivity]. cbn [fst]. rewrite (leak_value_exact l Hl). ring.
Qed.

(* EXACT DATA: the statistic is 0, for every sigma_nf, sigma_tr, number of equations and of samples *)
Lemma exact_data_chisq_zero unknowns nf tr x systems leak :
  fits unknowns x systems -> match leak with Some cells => Forall leak_exact cells | None => True end ->
  fst (calc_stat unknowns nf tr x systems leak) = 0.
Proof.
  intros Hf Hl. unfold PvalueModel.calc_stat.
  assert (E : fst (acc_systems unknowns nf tr x systems) = 0).
  { unfold PvalueModel.acc_systems. rewrite acc_systems_fit; [reflexivity | exact Hf]. }
  destruct leak as [cells|]; [rewrite acc_leak_fit; assumption | exact E].
Qed.

(* ---- chisq_pvalue ---- *)
Variables (exp erfc sqrt : Qc -> Qc) (pi : Qc).
Notation chisq_pvalue := (chisq_pvalue exp erfc sqrt pi).
Notation pvalue_of_stat := (pvalue_of_stat exp erfc sqrt pi).
Notation calc_pvalue := (calc_pvalue C c0 c1 cadd cmul copp N exp erfc sqrt pi).

(* "if (x <= 0.0) result = 1.0": at a statistic of 0 the tail probability is 1 for EVERY number of
   degrees of freedom, without any property of exp / erfc / sqrt *)
Lemma chisq_pvalue_zero n : chisq_pvalue n 0 = 1.
Proof.
  unfold PvalueModel.chisq_pvalue. rewrite Qc_div_0_l. unfold qc_le0.
  destruct (Qclt_le_dec 0 0) as [H|_]; [|reflexivity]. exfalso. exact (Qclt_not_le _ _ H (Qcle_refl 0)).
Qed.

Lemma pvalue_of_zero_stat df : pvalue_of_stat (0, df) = 1.
Proof. unfold PvalueModel.pvalue_of_stat. cbn [fst snd]. destruct (Z.ltb df 1); [reflexivity | apply chisq_pvalue_zero]. Qed.

Lemma stat_eta (p : Qc * Z) : p = (fst p, snd p).
Proof. destruct p; reflexivity. Qed.

(* EXACT DATA ARE NEVER REJECTED: p-value 1 whatever df is (over-determined or not) *)
Lemma exact_data_pvalue_one unknowns nf tr x systems leak :
  fits unknowns x systems -> match leak with Some cells => Forall leak_exact cells | None => True end ->
  calc_pvalue unknowns nf tr x systems leak = 1.
Proof.
  intros Hf Hl. unfold PvalueModel.calc_pvalue. rewrite (stat_eta (calc_stat _ _ _ _ _ _)).
  rewrite (exact_data_chisq_zero unknowns nf tr x systems leak Hf Hl). apply pvalue_of_zero_stat.
Qed.

Lemma exact_data_never_rejected (st : mstate) limit findex unknowns x systems leak :
  limit <= 1 ->
  fits unknowns x systems -> match leak with Some cells => Forall leak_exact cells | None => True end ->
  solve_rejects C c0 c1 cadd cmul copp N exp erfc sqrt pi st limit findex unknowns x systems leak = false.
Proof.
  intros Hl Hf Hk. unfold solve_rejects, solve_pvalue. destruct st as [v|]; [|reflexivity].
  destruct (Qc_eq_dec limit 0); [reflexivity|].
  rewrite (exact_data_pvalue_one unknowns _ _ x systems leak Hf Hk).
  destruct (Qclt_le_dec 1 limit) as [H|H]; [|reflexivity]. exfalso. exact (Qclt_not_le _ _ H Hl).
Qed.

(* the even-df recurrence agrees with the shortcut at 0: Q(a, 0) = exp(0) (1 + 0 + ... + 0) = 1 *)
Hypothesis exp_0 : exp 0 = 1.
Lemma even_sum_zero_tail cnt : forall i f s, i <> 0%nat -> even_sum 0 cnt i f s = s.
Proof.
  induction cnt as [|c IH]; intros i f s Hi; [reflexivity|].
  cbn [even_sum]. destruct (Nat.eqb i 0) eqn:E; [apply Nat.eqb_eq in E; contradiction|].
  rewrite IH by discriminate. rewrite Qc_div_0_l. ring.
Qed.
Lemma even_branch_at_zero k : exp (- 0) * even_sum 0 (S k) 0 1 0 = 1.
Proof.
  cbn [even_sum Nat.eqb]. rewrite even_sum_zero_tail by discriminate.
  replace (- 0) with 0 by ring. rewrite exp_0. ring.
Qed.
End P.

(* ---- the statistic is twice the weighted least-squares cost the solver minimised ---- *)
Section Link.
Variable K : CField.
Variable N : K -> Qc.
Variable rsqrt : Qc -> Qc.
Hypothesis N_nonneg : forall z, 0 <= N z.
Hypothesis rsqrt_law : forall a, 0 < a -> rsqrt a * rsqrt a * a = 1.

(* q is the least-squares form of e: its weight is the weight of e's own measurement, its residual the
   residual the p-value code computes *)
Definition lsq_form (nf tr : Qc) (x : list K) (off : nat) (e : equation K) (q : eqn K) : Prop :=
  fst (fst q) = weight K N rsqrt nf tr (e_m K e) /\
  residual K c0 c1 cadd cmul copp x off e = csub (dot K (snd (fst q)) x) (snd q).

Lemma chisq_is_twice_cost nf tr x off es qs : 0 < nf ->
  Forall2 (lsq_form nf tr x off) es qs ->
  forall st, fst (fold_left (acc_equation K c0 c1 cadd cmul copp N nf tr x off) es st) =
             fst st + q_two * cost K N qs x.
Proof.
  intros Hn. induction 1 as [|e [[w row] b] es qs [Hw Hr] _ IH]; intros st; cbn [fold_left cost]; [ring|].
  rewrite IH. unfold acc_equation. cbn [fst snd] in *.
  rewrite (normalised_residual K N rsqrt N_nonneg rsqrt_law nf tr (e_m K e) _ Hn). rewrite Hr, Hw. ring.
Qed.

(* the link theorems of LsqLinkProofs with the weight FORMULA in place of an abstract weight function:
   its premise "no weight is zero" holds for sigma_nf > 0 *)
Lemma formula_weight_nonzero nf tr : 0 < nf -> forall m : K, weight K N rsqrt nf tr m <> 0.
Proof. intros Hn m. apply (weight_nonzero K N rsqrt N_nonneg rsqrt_law); exact Hn. Qed.
End Link.

(* ---- disabling ---- *)
Section Disable.
Variable C : Type.
Variables (c0 c1 : C) (cadd cmul : C -> C -> C) (copp : C -> C).
Variable N : C -> Qc.
Variable rsqrt : Qc -> Qc.
Variables (exp erfc sqrt : Qc -> Qc) (pi : Qc).
Variables leb ltb : Qc -> Qc -> bool.
Variable interp : list Qc -> list Qc -> Qc -> Qc.

(* after ANY history of calls on any state, NULL / NULL leaves a structure on which a solve does what it
   does on one that never had a noise model: no factor on any equation, no p-value, no rejection *)
Lemma disable_restores (env : menv Qc) (h : list (mvec Qc * margs Qc)) (st : option (mvec Qc))
      (fresh : mvec Qc) (a : margs Qc) :
  a_n Qc a <> 0%nat -> a_nf Qc a = None -> a_tr Qc a = None ->
  let after := run_args Qc 0 leb ltb interp true env st (h ++ [(fresh, a)]) in
  let never := run_args Qc 0 leb ltb interp true env None [] in
  after = never /\
  (forall findex m, eq_factor C N rsqrt after findex m = 1) /\
  (forall limit findex unknowns x systems leak,
     solve_pvalue C c0 c1 cadd cmul copp N exp erfc sqrt pi after limit findex unknowns x systems leak = None /\
     solve_rejects C c0 c1 cadd cmul copp N exp erfc sqrt pi after limit findex unknowns x systems leak = false).
Proof.
  intros Hn Hnf Htr. cbv zeta.
  rewrite (m_error_disable Qc 0 leb ltb interp env h st a fresh Hn Hnf Htr).
  split; [reflexivity|]. split; [reflexivity|]. intros. split; reflexivity.
Qed.
End Disable.

(* ---- exact data with the weight FORMULA 1 / sqrt(sigma_nf^2 + sigma_tr^2 |m|^2) (modulo the abstract
        1/sqrt with its one law), indexed as the code indexes it: the measurement type is the field,
        the weight function is PvalueModel.weight ---- *)
Section Formula.
Variable K : CField.
Variable N : K -> Qc.
Variable rsqrt : Qc -> Qc.
Hypothesis N_nonneg : forall z, 0 <= N z.
Hypothesis N_zero : forall z, N z = 0 -> z = c0.
Hypothesis N_of_zero : N c0 = 0.
Hypothesis rsqrt_law : forall a, 0 < a -> rsqrt a * rsqrt a * a = 1.

Lemma exact_data_simple_weight_formula (nf tr : Qc) (rows : nat -> nat -> list K * K)
      (sys : systems K) (s : nat) (x0 : list K) :
  0 < nf -> (s < length sys)%nat ->
  let ws := weighted_system_simple K K (weight K N rsqrt nf tr) rows sys s in
  consistent K ws x0 -> injective K ws x0 ->
  cost K N ws x0 = 0 /\ minimises K N ws x0 /\
  (forall x, length x = length x0 -> minimises K N ws x -> x = x0) /\
  (forall x, length x = length x0 -> (minimises K N ws x <-> minimises K N (unweighted K ws) x)).
Proof.
  intros Hn Hs. apply (exact_data_simple_weights_as_computed K N N_nonneg N_zero N_of_zero K
                         (weight K N rsqrt nf tr) (formula_weight_nonzero K N rsqrt N_nonneg rsqrt_law nf tr Hn) c0 rows sys s x0 Hs).
Qed.

Lemma exact_data_auto_weight_formula (nf tr : Qc) (rows : nat -> nat -> list K * K)
      (sys : systems K) (x0 : list K) :
  0 < nf ->
  let ws := weighted_system_auto K K (weight K N rsqrt nf tr) rows sys in
  consistent K ws x0 -> injective K ws x0 ->
  cost K N ws x0 = 0 /\ minimises K N ws x0 /\
  (forall x, length x = length x0 -> minimises K N ws x -> x = x0) /\
  (forall x, length x = length x0 -> (minimises K N ws x <-> minimises K N (unweighted K ws) x)).
Proof.
  intros Hn. apply (exact_data_auto_weights_as_computed K N N_nonneg N_zero N_of_zero K
                      (weight K N rsqrt nf tr) (formula_weight_nonzero K N rsqrt N_nonneg rsqrt_law nf tr Hn) c0 rows sys x0).
Qed.
End Formula.
