(* Control skeleton of _vnacal_new_solve_auto (src/vnacal_new_solve_auto.c), the
   Levenberg-Marquardt iteration that solves for unknown standard parameters, as coded.
   No proofs in this file.

   The numeric kernel is abstract (Section variables):
     solve_x it p   = build A(p), b; QR; x = R1^-1 Q1^H b; update V matrices; Jacobian j and
                      residual k = Q2^H b (plus the rows of the correlated parameters).
                      None: rank deficiency / singular V matrix  -> "goto out" with EDOM.
     sumk kd        = sum |k_i|^2
     step it kd lam = d with (J^H J + lam I) d = J^H k;  None: singular -> EDOM
     apply_step p d = p - d
     normd d        = sum |d_i|^2,   normdx x bx = sum |x_i - bx_i|^2
   [it] (the iteration number) is passed to the kernel only so that the model can be driven by a
   recorded run of the C code; every theorem holds for all kernels, in particular for those
   that ignore it.

   ASSUMPTION built into this representation: the kernel operations are total Coq functions, i.e.
   every call of the QR factorisation, the Jacobian / V-matrix update and the LU solve RETURNS
   (with a value or with the failure indication None).  "The loop terminates" (auto_terminates)
   is therefore a statement about the control skeleton only: it bounds the number of passes
   through the loop body; it does not prove that _vnacommon_qr, _vnacommon_mldivide or
   _vnacal_new_solve_update_all_v_matrices return.  (They are loops with fixed bounds over the
   matrix dimensions; the wall-clock limit of the API scenarios is the only check of that.)

   Reals are Qc (exact; rounding not modelled).  INFINITY (initial best_sum_k_squared) is None. *)
Require Import QArith Qcanon List.
Import ListNotations.
Local Open Scope Qc_scope.

Definition Qc_ltb (x y : Qc) : bool := if Qclt_le_dec x y then true else false.
Definition Qc_lebb (x y : Qc) : bool := if Qclt_le_dec y x then false else true.

Section Auto.
Variables P X KD D : Type.
Variable solve_x : nat -> P -> option (X * KD).
Variable sumk : KD -> Qc.
Variable step : nat -> KD -> Qc -> option D.
Variable apply_step : P -> D -> P.
Variable normd : D -> Qc.
Variable normdx : X -> X -> Qc.
Variables ptol ettol : Qc.          (* vn_p_tolerance, vn_et_tolerance *)
Variables plen xlen : Qc.           (* p_length, x_length as reals *)
Variable limit : nat.               (* vn_iteration_limit *)

Inductive reason := Singular | NotConverged.
Inductive outcome :=
| Converged (x : X) (p : P)          (* rv = 0, x_vector and vnss_p_vector as left by the loop *)
| Edom (r : reason)                  (* rv = -1, VNAERR_MATH *)
| OutOfFuel.                         (* artefact of the fuel; shown unreachable *)

(* the variables that live across iterations *)
Record st := St {
  cur_p : P;                         (* vnss_p_vector[..][findex] *)
  best_p : P;                        (* best_p_vector (meaningful once best_sumk <> None) *)
  best_x : option X;                 (* best_x_vector *)
  best_kd : option KD;               (* best_j_matrix, best_k_vector *)
  best_sumk : option Qc;             (* best_sum_k_squared; None = INFINITY *)
  mult : Qc }.                       (* marquardt_multiplier *)

Definition init (p0 : P) : st := St p0 p0 None None None 1.

(* what one pass through the loop body decides; recorded for the correspondence *)
Record entry := Entry { e_best : bool; e_mult : Qc; e_lambda : Qc; e_converged : bool }.

Definition Qcmax1 (q : Qc) : Qc := if Qc_ltb q 1 then 1 else q.

Fixpoint loop (fuel : nat) (iteration : nat) (s : st) : outcome * list entry :=
  match fuel with
  | O => (OutOfFuel, [])
  | S fuel' =>
    match solve_x iteration (cur_p s) with
    | None => (Edom Singular, [])
    | Some (x, kd) =>
      let sk := sumk kd in
      (* best = sum_k_squared < best_sum_k_squared *)
      let best := match best_sumk s with None => true | Some b => Qc_ltb sk b end in
      let s1 :=
        if best then
          (* remember this solution; marquardt_multiplier *= sum_k_squared / best_sum_k_squared,
             not below 1; x / INFINITY = 0 *)
          St (cur_p s) (cur_p s) (Some x) (Some kd) (Some sk)
             (Qcmax1 (match best_sumk s with None => 0 | Some b => mult s * (sk / b) end))
        else
          (* restore the best parameters (and S, V, j, k), double the multiplier *)
          St (best_p s) (best_p s) (best_x s) (best_kd s) (best_sumk s) (mult s * (1 + 1)) in
      let kd_used := match best_kd s1 with Some k => k | None => kd end in
      let lambda := mult s1 * (match best_sumk s1 with Some b => b | None => 0 end) in
      match step iteration kd_used lambda with
      | None => (Edom Singular, [Entry best (mult s1) lambda false])
      | Some d =>
        let p1 := apply_step (cur_p s1) d in            (* p -= d *)
        let scale := mult s1 * mult s1 in
        let conv :=
          best &&
          Qc_lebb (scale * normd d / plen) (ptol * ptol) &&
          Qc_lebb (scale * normdx x (match best_x s1 with Some bx => bx | None => x end) / xlen)
                  (ettol * ettol) in
        if conv then (Converged x p1, [Entry best (mult s1) lambda true])
        else if Nat.leb limit iteration then               (* iteration >= vn_iteration_limit *)
          (Edom NotConverged, [Entry best (mult s1) lambda false])
        else
          let '(o, tr) := loop fuel' (S iteration)
                            (St p1 (best_p s1) (best_x s1) (best_kd s1) (best_sumk s1) (mult s1)) in
          (o, Entry best (mult s1) lambda false :: tr)
      end
    end
  end.

(* for (iteration = 0; ; ++iteration) with fuel for the largest number of passes the limit
   test allows *)
Definition auto_run (p0 : P) : outcome * list entry := loop (S limit) 0 (init p0).
End Auto.

Arguments Converged {P X}. Arguments Edom {P X}. Arguments OutOfFuel {P X}.
