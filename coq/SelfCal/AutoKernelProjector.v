(* The projector identity behind SelfCal/AutoKernelModel.v, over an abstract field with
   conjugation (the hypotheses of Lin/QrProofs.v):

     formq_spec        the matrix Q formed by the loop of _vnacommon_qr (AutoKernelQrQ.qr_formq)
                       satisfies  conj(Q(i,c)) = (H_(k-1) ... H_0 e_i)(c): Q = H_0 ... H_(k-1)
     q2h_Tf            hence component k of Q2^H y, as solve_auto accumulates it, is
                       (H_(n-1) ... H_0 y)(n + k)
     tail_projector    for a finished sweep (QrProofs.Inv: unit reflection vectors, nonzero
                       diagonal, R = H_(n-1)...H_0 A upper triangular) and every u, v, z with
                       A^H A z = A^H v:
                         sum_{n <= i < m} conj((T u)(i)) (T v)(i) = sum_{i<m} conj(u(i)) (v(i) - (A z)(i))
     q2_gram_projector the same for the run of the Householder model on A (wf, n <= m, the run's
                       sqrt / phase laws, trivial kernel), stated on the code's Q2:
                         q2_gram Q u v = u^H (v - A z)
   i.e. Q2 Q2^H v = v - A (A^H A)^-1 A^H v in every Hermitian product, for every m >= n.  Every
   quantity of a pass of solve_auto that involves Q2 (J^H J, J^H k, k^H k) is such a product. *)
Require Import List Arith Lia Bool.
Import ListNotations.
Require Import LV.Base.CField LV.Lin.MatL LV.Lin.LuGenA LV.Lin.QrModel LV.Lin.QrAlg LV.Lin.QrProofs.
Require Import LV.SelfCal.AutoKernelQrQ.
Local Open Scope nat_scope.
Local Open Scope cf_scope.

Section Proj.
Variable K : CField.
Add Field KfProj : (cth K).
Hypothesis cj_0 : cj (0 : K) = 0.
Hypothesis cj_1 : cj (1 : K) = 1.
Hypothesis cj_add : forall x y : K, cj (x + y) = cj x + cj y.
Hypothesis cj_mul : forall x y : K, cj (x * y) = cj x * cj y.
Hypothesis cj_cj : forall x : K, cj (cj x) = x.
Hypothesis H2 : char_ok K.
Hypothesis sos_zero : forall n (f : nat -> K),
  sumf n (fun i => f i * cj (f i)) = 0 -> forall i, (i < n)%nat -> f i = 0.

Notation mat := (mat K).
Notation ip := (ip K).
Notation Hf := (Hf K).
Notation Tf := (Tf K).
Notation vst := (vst K).
Notation Lg := (Lg K).

Definition evec (i : nat) : nat -> K := fun r => if Nat.eqb r i then 1 else 0.

(* ---------- the Q-forming loop ---------- *)
Lemma formq_upto_S m a cnt : formq_upto K m a (S cnt) = formq_step K m a (formq_upto K m a cnt) cnt.
Proof. unfold formq_upto. rewrite seq_S, fold_left_app. reflexivity. Qed.

Lemma formq_spec m (a : mat) : forall cnt, (cnt <= m)%nat -> forall i c, (i < m)%nat -> (c < m)%nat ->
  cj (mget K (formq_upto K m a cnt) i c) = Tf m a cnt (evec i) c.
Proof.
  induction cnt as [|d IH]; intros Hc i c Hi Hcm.
  - unfold formq_upto, mident. simpl. rewrite mget_mbuild by auto. unfold evec.
    rewrite Nat.eqb_sym. destruct (Nat.eqb c i); [apply cj_1|apply cj_0].
  - rewrite formq_upto_S. unfold formq_step. rewrite mget_mbuild by auto.
    set (q := formq_upto K m a d) in *.
    cbn [QrProofs.Tf]. unfold QrAlg.Hf.
    assert (Hs : cj (formq_s K m a q d i) = ip m (vst a d) (Tf m a d (evec i))).
    { unfold formq_s, QrAlg.ip.
      rewrite (fold_add_seq K (m - d) d (fun j => mget K q i j * mget K a j d)).
      rewrite <- (sumf_cut_ge K m d (fun j => mget K q i j * mget K a j d)) by lia.
      transitivity (cj (sumf m (fun k => if (d <=? k)%nat then mget K q i k * mget K a k d else 0))); [f_equal; ring|].
      rewrite (cj_sumf K cj_0 cj_add). apply sumf_ext. intros r Hr.
      rewrite <- (IH ltac:(lia) i r Hi Hr). unfold QrProofs.vst.
      destruct (Nat.leb_spec d r); destruct (Nat.ltb_spec r d); try lia.
      - rewrite cj_mul. ring.
      - rewrite !cj_0. ring. }
    destruct (Nat.leb_spec d c) as [Hdc|Hdc].
    + rewrite (cj_sub K cj_0 cj_add), !cj_mul, cj_cj, (cj_two K cj_1 cj_add), Hs.
      rewrite (IH ltac:(lia) i c Hi Hcm). unfold QrProofs.vst.
      destruct (Nat.ltb_spec c d); [lia|reflexivity].
    + rewrite (IH ltac:(lia) i c Hi Hcm). unfold QrProofs.vst.
      destruct (Nat.ltb_spec c d); [|lia]. ring.
Qed.

(* component k of Q2^H y as solve_auto accumulates it *)
Lemma q2h_Tf m n (a : mat) cnt (y : nat -> K) k : (cnt <= m)%nat -> (n + k < m)%nat ->
  q2h K m n (formq_upto K m a cnt) y k = Tf m a cnt y (n + k)%nat.
Proof.
  intros Hc Hk. unfold q2h.
  rewrite (fold_add_seq K m 0 (fun e => cj (mget K (formq_upto K m a cnt) e (n + k)) * y e)).
  transitivity (sumf m (fun e => Tf m a cnt (evec e) (n + k)%nat * y e)).
  { transitivity (sumf m (fun e => cj (mget K (formq_upto K m a cnt) e (n + k)) * y e)); [simpl; ring|].
    apply sumf_ext. intros e He. rewrite (formq_spec m a cnt Hc e (n + k)%nat He Hk). reflexivity. }
  rewrite <- (Tf_lin K m m a cnt evec y (n + k)%nat Hk).
  apply (Tf_ext K m a a cnt ltac:(auto)); [|exact Hk].
  intros r Hr.
  rewrite (sumf_ext K m _ (fun j => if Nat.eqb j r then y j else 0)).
  2:{ intros j Hj. unfold evec. rewrite Nat.eqb_sym. destruct (Nat.eqb j r); ring. }
  apply (sumf_single K m r y Hr).
Qed.

(* ---------- |A w|^2 = w^H (A^H A) w,  and  A^H A w = 0 -> A w = 0 ---------- *)
Lemma gram_quadratic m n (A : nat -> nat -> K) (w : nat -> K) :
  sumf m (fun i => sumf n (fun t => A i t * w t) * cj (sumf n (fun t => A i t * w t))) =
  sumf n (fun j => cj (w j) * sumf n (fun t => sumf m (fun i => cj (A i j) * A i t) * w t)).
Proof.
  set (f := fun i => sumf n (fun t => A i t * w t)).
  transitivity (sumf m (fun i => sumf n (fun j => cj (w j) * (cj (A i j) * f i)))).
  { apply sumf_ext. intros i Hi. fold (f i). unfold f at 2. rewrite (cj_sumf K cj_0 cj_add).
    rewrite (Field_theory.F_R (cth K)).(Ring_theory.Rmul_comm), sumf_scale_r.
    apply sumf_ext. intros j Hj. rewrite cj_mul. ring. }
  rewrite sumf_exchange. apply sumf_ext. intros j Hj.
  rewrite <- sumf_scale_l. f_equal.
  transitivity (sumf m (fun i => sumf n (fun t => cj (A i j) * A i t * w t))).
  { apply sumf_ext. intros i Hi. unfold f. rewrite sumf_scale_l. apply sumf_ext. intros; ring. }
  rewrite sumf_exchange. apply sumf_ext. intros t Ht. rewrite sumf_scale_r. reflexivity.
Qed.

Lemma normal_kernel_abs m n (A : nat -> nat -> K) (w : nat -> K) :
  (forall j, (j < n)%nat -> sumf n (fun t => sumf m (fun i => cj (A i j) * A i t) * w t) = 0) ->
  forall i, (i < m)%nat -> sumf n (fun t => A i t * w t) = 0.
Proof.
  intros HN.
  apply (sos_zero m (fun i => sumf n (fun t => A i t * w t))).
  rewrite gram_quadratic. apply sumf_zero. intros j Hj. rewrite (HN j Hj). ring.
Qed.

(* ---------- the projector identity on a finished sweep ---------- *)
Lemma tail_projector m n (A : mat) st (u v z : nat -> K) : (n <= m)%nat -> Inv K m n A n st ->
  (forall j, (j < n)%nat ->
     sumf n (fun t => sumf m (fun i => cj (mget K A i j) * mget K A i t) * z t) =
     sumf m (fun i => cj (mget K A i j) * v i)) ->
  sumf (m - n) (fun k => cj (Tf m (qr_a K st) n u (n + k)%nat) * Tf m (qr_a K st) n v (n + k)%nat) =
  sumf m (fun i => cj (u i) * (v i - sumf n (fun t => mget K A i t * z t))).
Proof.
  intros Hnm HI HN.
  assert (HI' := HI). destruct HI' as (Hw & Hl & Hn & Hu & Hd & HL).
  set (a := qr_a K st) in *. set (d := qr_d K st) in *.
  set (T := Tf m a n).
  (* R is upper triangular with nonzero diagonal *)
  assert (Hlow : forall i j, (j < n)%nat -> (j < i)%nat -> Lg a d n i j = 0).
  { intros i j Hj Hji. unfold QrProofs.Lg. destruct (Nat.ltb_spec j n); [|lia].
    destruct (Nat.eqb_spec i j); [lia|]. destruct (Nat.ltb_spec i j); [lia|reflexivity]. }
  assert (Hdiag : forall i, (i < n)%nat -> Lg a d n i i <> 0).
  { intros i Hi. unfold QrProofs.Lg. destruct (Nat.ltb_spec i n); [|lia]. rewrite Nat.eqb_refl. apply Hd. exact Hi. }
  (* x' with R1 x' = head (T v) *)
  destruct (tri_solve K n (Lg a d n) (T v) Hdiag n (le_n n)) as (x' & Hx').
  assert (Hx'' : forall i, (i < n)%nat -> sumf n (fun t => Lg a d n i t * x' t) = T v i).
  { intros i Hi. rewrite <- (Hx' i) by lia. apply sumf_ext. intros t Ht.
    destruct (Nat.leb_spec i t); [reflexivity|]. rewrite Hlow by lia. ring. }
  pose proof (Inv_normal_equations K cj_0 cj_1 cj_add cj_mul cj_cj m n A st v x' Hnm HI Hx'') as HNx.
  (* z = x' on the index range *)
  assert (Hker : ker_trivial K m n A)
    by exact (Inv_full_ker_trivial K cj_0 cj_1 cj_add cj_mul cj_cj sos_zero m n A st Hnm HI).
  assert (Hz : forall j, (j < n)%nat -> z j = x' j).
  { intros j Hj.
    assert (E : (fun t => z t - x' t) j = 0).
    { apply (Hker (fun t => z t - x' t)); [|exact Hj]. intros i Hi.
      apply (normal_kernel_abs m n (mget K A) (fun t => z t - x' t)); [|exact Hi].
      intros j' Hj'.
      rewrite (sumf_ext K n _ (fun t => sumf m (fun i => cj (mget K A i j') * mget K A i t) * z t
                                        + (- (1)) * (sumf m (fun i => cj (mget K A i j') * mget K A i t) * x' t)))
        by (intros; ring).
      rewrite sumf_add, <- sumf_scale_l, (HN j' Hj'), (HNx j' Hj'). ring. }
    cbv beta in E. transitivity ((z j - x' j) + x' j); [ring|]. rewrite E. ring. }
  (* T (A z): head = head (T v), tail = 0 *)
  set (Az := fun r => sumf n (fun t => mget K A r t * z t)).
  assert (HTAz : forall i, (i < m)%nat -> T Az i = if (i <? n)%nat then T v i else 0).
  { intros i Hi. pose proof (Inv_image K m n A n st z HI i Hi) as EI. fold a d in EI.
    unfold T at 1, Az. rewrite EI.
    destruct (Nat.ltb_spec i n) as [Hin|Hin].
    - rewrite <- (Hx'' i Hin). apply sumf_ext. intros t Ht. rewrite (Hz t Ht). reflexivity.
    - apply sumf_zero. intros t Ht. rewrite Hlow by lia. ring. }
  (* the two inner products through T *)
  assert (E1 : ip m u v = sumf n (fun i => cj (T u i) * T v i)
                          + sumf (m - n) (fun k => cj (T u (n + k)%nat) * T v (n + k)%nat)).
  { rewrite <- (Tf_ip K cj_0 cj_1 cj_add cj_mul cj_cj m a n Hu u v). fold T. unfold QrAlg.ip.
    replace m with (n + (m - n))%nat at 1 by lia. apply sumf_split. }
  assert (E2 : ip m u Az = sumf n (fun i => cj (T u i) * T v i)).
  { rewrite <- (Tf_ip K cj_0 cj_1 cj_add cj_mul cj_cj m a n Hu u Az). fold T. unfold QrAlg.ip.
    replace m with (n + (m - n))%nat at 1 by lia. rewrite sumf_split.
    rewrite (sumf_ext K n _ (fun i => cj (T u i) * T v i)).
    2:{ intros i Hi. rewrite HTAz by lia. destruct (Nat.ltb_spec i n); [reflexivity|lia]. }
    rewrite (sumf_zero K (m - n)).
    2:{ intros k Hk. rewrite HTAz by lia. destruct (Nat.ltb_spec (n + k) n); [lia|ring]. }
    ring. }
  transitivity (ip m u v - ip m u Az); [rewrite E1, E2; ring|].
  unfold QrAlg.ip.
  rewrite (sumf_ext K m (fun i => cj (u i) * (v i - sumf n (fun t => mget K A i t * z t)))
                        (fun i => cj (u i) * v i + (- (1)) * (cj (u i) * Az i)))
    by (intros; unfold Az; ring).
  rewrite sumf_add, <- sumf_scale_l. ring.
Qed.

(* ---------- the same for the run of the Householder model, on the code's Q2 ---------- *)
Variable nrm : K -> K.
Variable phase : K -> K.
Variable isz : K -> bool.
Hypothesis isz_spec : forall x, isz x = true <-> x = 0.

Lemma q2_gram_sumf m n (q : mat) (u v : nat -> K) :
  q2_gram K m n q u v = sumf (m - n) (fun k => cj (q2h K m n q u k) * q2h K m n q v k).
Proof.
  unfold q2_gram. rewrite (fold_add_seq K (m - n) 0 (fun k => cj (q2h K m n q u k) * q2h K m n q v k)).
  simpl. ring.
Qed.

Theorem q2_gram_projector m n (A : mat) (u v z : nat -> K) :
  wf m n A -> (n <= m)%nat -> run_laws K nrm phase isz m n A n -> ker_trivial K m n A ->
  (forall j, (j < n)%nat ->
     sumf n (fun t => sumf m (fun i => cj (mget K A i j) * mget K A i t) * z t) =
     sumf m (fun i => cj (mget K A i j) * v i)) ->
  let st := qrd K nrm phase isz m n A in
  q2_gram K m n (qr_formq K m n (qr_a K st)) u v =
  sumf m (fun i => cj (u i) * (v i - sumf n (fun t => mget K A i t * z t))).
Proof.
  intros Hw Hnm HL Hker HN st.
  assert (HI : Inv K m n A n st).
  { unfold st, QrModel.qrd. rewrite Nat.min_r by exact Hnm.
    destruct (run_char K cj_0 cj_add cj_mul cj_cj H2 sos_zero nrm phase isz isz_spec m n A n Hw Hnm (le_n n) HL)
      as [HI | (k & Hk & HI & Hz & Hs)]; auto.
    exfalso.
    destruct (stop_kernel K cj_0 cj_1 cj_add cj_mul cj_cj sos_zero m n A k _ ltac:(lia) Hk HI Hz) as (x & Hx & Hxk).
    assert (E := Hker x Hx k Hk). rewrite Hxk in E. exact (F_1_neq_0 (cth K) E). }
  rewrite q2_gram_sumf. unfold qr_formq. rewrite Nat.min_r by exact Hnm.
  rewrite <- (tail_projector m n A st u v z Hnm HI HN).
  apply sumf_ext. intros k Hk.
  rewrite !(q2h_Tf m n (qr_a K st) n _ k) by lia. reflexivity.
Qed.
End Proj.
