(* Exact over-determined data with the measurement-error model on (VMatrixModel): the truth solves
   every coefficient row for EVERY V and every weight, every pass returns it, the loop over V ends
   at its second test at the latest, the residuals of calc_pvalue vanish. *)
Require Import List Arith Bool QArith Qcanon Lia.
Import ListNotations.
Require Import LV.Base.CField LV.SelfCal.PvalueModel LV.SelfCal.GuardModel LV.SelfCal.LsqModel LV.SelfCal.LsqProofs.
Require Import LV.SelfCal.AutoProofs LV.SelfCal.VMatrixModel LV.SelfCal.ExactOverModel.
Local Open Scope nat_scope.

Section P.
Variable K : CField.
Add Field Kf_eo : (cth K).
Variable ofq : Qc -> K.

Notation ksum := (ksum K).
Notation dot := (dot K).
Notation term_res := (term_res K ofq).
Notation group_res := (group_res K ofq).

(* ---------------------------------------------------------------- sums *)
Lemma ksum_app a b : ksum (a ++ b) = cadd (ksum a) (ksum b).
Proof. induction a as [|x a IH]; simpl; [ring | rewrite IH; ring]. Qed.

Lemma ksum_partition {A} (h : A -> K) (q : A -> bool) l :
  ksum (map h l) = cadd (ksum (map h (filter q l))) (ksum (map h (filter (fun a => negb (q a)) l))).
Proof.
  induction l as [|a l IH]; simpl; [ring|].
  destruct (q a); simpl; rewrite IH; ring.
Qed.

Lemma ksum_scale {A} (h f : A -> K) k l : (forall a, In a l -> h a = cmul k (f a)) ->
  ksum (map h l) = cmul k (ksum (map f l)).
Proof.
  induction l as [|a l IH]; intros H; simpl; [ring|].
  rewrite (H a (or_introl eq_refl)), IH by (intros b Hb; apply H; right; exact Hb). ring.
Qed.

Lemma filter_filter_comm {A} (f g : A -> bool) l : filter f (filter g l) = filter g (filter f l).
Proof.
  induction l as [|a l IH]; simpl; [reflexivity|].
  destruct (f a) eqn:Ef, (g a) eqn:Eg; simpl; rewrite ?Ef, ?Eg, IH; reflexivity.
Qed.

Lemma filter_none {A} (f : A -> bool) l : (forall a, In a l -> f a = false) -> filter f l = [].
Proof.
  induction l as [|a l IH]; intros H; simpl; [reflexivity|].
  rewrite (H a (or_introl eq_refl)). apply IH. intros b Hb. apply H. right. exact Hb.
Qed.

Lemma filter_len_le {A} (f : A -> bool) l : length (filter f l) <= length l.
Proof. induction l as [|a l IH]; simpl; [lia|]. destruct (f a); simpl; lia. Qed.

Lemma filter_all {A} (f : A -> bool) l : (forall a, In a l -> f a = true) -> filter f l = l.
Proof.
  induction l as [|a l IH]; intros H; simpl; [reflexivity|].
  rewrite (H a (or_introl eq_refl)). f_equal. apply IH. intros b Hb. apply H. right. exact Hb.
Qed.

(* REGROUPING: if the terms of every v_cell sum to zero, so does the sum with an arbitrary factor
   g(v_cell) on every term *)
Lemma regroup (f : vterm -> K) (g : nat -> K) : forall n ts, length ts <= n ->
  (forall c, ksum (map f (filter (fun t => Nat.eqb (vt_v t) c) ts)) = c0) ->
  ksum (map (fun t => cmul (f t) (g (vt_v t))) ts) = c0.
Proof.
  induction n as [|n IH]; intros ts Hlen H.
  - destruct ts; [reflexivity | simpl in Hlen; lia].
  - destruct ts as [|t0 r]; [reflexivity|].
    set (ts := t0 :: r) in *. set (c := vt_v t0).
    rewrite (ksum_partition (fun t => cmul (f t) (g (vt_v t))) (fun t => Nat.eqb (vt_v t) c) ts).
    rewrite (ksum_scale (fun t => cmul (f t) (g (vt_v t))) f (g c)).
    2:{ intros a Ha. apply filter_In in Ha. destruct Ha as (_ & Ea). apply Nat.eqb_eq in Ea. rewrite Ea. ring. }
    rewrite (H c).
    rewrite IH.
    + ring.
    + unfold ts. cbn [filter]. unfold c. rewrite Nat.eqb_refl. cbn [negb].
      pose proof (filter_len_le (fun a => negb (Nat.eqb (vt_v a) (vt_v t0))) r) as L.
      simpl in Hlen. lia.
    + intros c'. rewrite filter_filter_comm.
      destruct (Nat.eq_dec c' c) as [->|Hne].
      * rewrite filter_none; [reflexivity|].
        intros a Ha. apply filter_In in Ha. destruct Ha as (_ & Ea). rewrite Ea. reflexivity.
      * assert (E : filter (fun a => negb (Nat.eqb (vt_v a) c)) (filter (fun t => Nat.eqb (vt_v t) c') ts)
                    = filter (fun t => Nat.eqb (vt_v t) c') ts).
        { apply filter_all. intros a Ha. apply filter_In in Ha.
          destruct Ha as (_ & Ea). apply Nat.eqb_eq in Ea. rewrite Ea.
          apply negb_true_iff. apply Nat.eqb_neq. exact Hne. }
        rewrite E. apply H.
Qed.

(* ---------------------------------------------------------------- one row *)
Lemma add_at_length l : forall i v, length (add_at K l i v) = length l.
Proof. induction l as [|a l IH]; intros [|i] v; simpl; try reflexivity. rewrite IH. reflexivity. Qed.

Lemma dot_add_at l : forall i v x, i < length l ->
  dot (add_at K l i v) x = cadd (dot l x) (cmul v (nth i x c0)).
Proof.
  induction l as [|a l IH]; intros i v x Hi; [simpl in Hi; lia|].
  destruct i as [|i]; destruct x as [|y x]; cbn [add_at LsqModel.dot nth]; try ring.
  rewrite IH by (simpl in Hi; lia). ring.
Qed.

Lemma dot_zero n x : dot (repeat c0 n) x = c0.
Proof. revert x. induction n as [|n IH]; intros [|y x]; simpl; try reflexivity. rewrite IH. ring. Qed.

(* contribution of a term with coefficient function coef to (row . x - b) *)
Definition contrib (coef : vterm -> K) (x : list K) (t : vterm) : K :=
  match vt_x t with Some i => cmul (coef t) (nth i x c0) | None => copp (coef t) end.

Definition row_step (coef : vterm -> K) (ab : list K * K) (t : vterm) : list K * K :=
  match vt_x t with
  | Some i => (add_at K (fst ab) i (coef t), snd ab)
  | None => (fst ab, cadd (snd ab) (coef t))
  end.

Lemma row_step_res coef x ab t : (forall i, vt_x t = Some i -> i < length (fst ab)) ->
  length (fst (row_step coef ab t)) = length (fst ab) /\
  csub (dot (fst (row_step coef ab t)) x) (snd (row_step coef ab t)) =
  cadd (csub (dot (fst ab) x) (snd ab)) (contrib coef x t).
Proof.
  intros H. unfold row_step, contrib. destruct (vt_x t) as [i|]; cbn [fst snd].
  - split; [apply add_at_length|]. rewrite dot_add_at by (apply H; reflexivity). ring.
  - split; [reflexivity | ring].
Qed.

Lemma build_row_gen coef x ts : forall ab,
  (forall t i, In t ts -> vt_x t = Some i -> i < length (fst ab)) ->
  length (fst (fold_left (row_step coef) ts ab)) = length (fst ab) /\
  csub (dot (fst (fold_left (row_step coef) ts ab)) x) (snd (fold_left (row_step coef) ts ab)) =
  cadd (csub (dot (fst ab) x) (snd ab)) (ksum (map (contrib coef x) ts)).
Proof.
  induction ts as [|t ts IH]; intros ab Hwf; cbn [fold_left map ExactOverModel.ksum].
  - split; [reflexivity | ring].
  - destruct (row_step_res coef x ab t) as (L0 & E0).
    { intros i Hx. apply (Hwf t i); [left; reflexivity | exact Hx]. }
    destruct (IH (row_step coef ab t)) as (L & E).
    { intros t' i' Hin Hx. rewrite L0. apply (Hwf t' i'); [right; exact Hin | exact Hx]. }
    rewrite L, E, L0, E0. split; [reflexivity | ring].
Qed.

Lemma build_row_res u coef x ts : (forall t i, In t ts -> vt_x t = Some i -> i < u) ->
  length (fst (build_row K u coef ts)) = u /\
  csub (dot (fst (build_row K u coef ts)) x) (snd (build_row K u coef ts)) = ksum (map (contrib coef x) ts).
Proof.
  intros Hwf. unfold build_row. change (fun ab t => _) with (row_step coef).
  destruct (build_row_gen coef x ts (repeat c0 u, c0)) as (L & E).
  { intros t i Hin Hx. cbn [fst]. rewrite repeat_length. apply (Hwf t i Hin Hx). }
  cbn [fst snd] in *. split; [rewrite L; apply repeat_length|].
  rewrite E, dot_zero. ring.
Qed.

(* the coefficient of a term = its V-free, weight-free coefficient times (V factor) (weight) *)
Definition vw_factor (vm : option (list K)) (w : option Qc) (c : nat) : K :=
  cmul (match vm with Some V => nth c V c0 | None => c1 end)
       (match w with Some q => ofq q | None => c1 end).

Lemma term_coef_factor sd vm w t :
  term_coef K ofq sd vm w t = cmul (term_coef K ofq sd None None t) (vw_factor vm w (vt_v t)).
Proof. unfold term_coef, vw_factor. destruct vm, w; ring. Qed.

Lemma contrib_factor sd vm w x t :
  contrib (term_coef K ofq sd vm w) x t = cmul (term_res sd x t) (vw_factor vm w (vt_v t)).
Proof.
  unfold contrib, ExactOverModel.term_res. rewrite term_coef_factor.
  destruct (vt_x t); ring.
Qed.

(* sum over the no-V thread = sum over all terms with the indicator of the diagonal cells *)
Lemma ksum_filter_ind (h : vterm -> K) (q : vterm -> bool) ts :
  ksum (map h (filter q ts)) = ksum (map (fun t => cmul (h t) (if q t then c1 else c0)) ts).
Proof.
  induction ts as [|t ts IH]; simpl; [reflexivity|].
  destruct (q t); simpl; rewrite IH; ring.
Qed.

(* THE ROW THEOREM: at an x for which the standard's measurements are exact, the row built from the
   equation with ANY V matrix (or none) and ANY weight (or none) is solved by x *)
Lemma row_holds_any_v p x e : eq_wf K p e -> eq_exact K ofq p x e ->
  forall st sindex w, let rb := build_eq K ofq p st sindex w e in
  length (fst rb) = vp_unknowns p /\ dot (fst rb) x = snd rb.
Proof.
  intros Hwf Hex st sindex w. unfold build_eq.
  set (vm := eq_vmat K st sindex e). set (sd := std_of K p e).
  set (ts := eq_terms (v_n K p) (match vm with Some _ => true | None => false end) e).
  assert (Hsub : forall t, In t ts -> In t (ve_terms e)).
  { intros t. unfold ts, eq_terms. destruct vm; [tauto|]. intros H. apply filter_In in H. tauto. }
  destruct (build_row_res (vp_unknowns p) (term_coef K ofq sd vm w) x ts) as (L & E).
  { intros t i Hin Hx. apply (Hwf t i (Hsub t Hin) Hx). }
  cbn zeta. split; [exact L|].
  assert (Z : ksum (map (contrib (term_coef K ofq sd vm w) x) ts) = c0).
  { rewrite (map_ext _ (fun t => cmul (term_res sd x t) (vw_factor vm w (vt_v t))))
      by (intros t; apply contrib_factor).
    unfold ts, eq_terms. destruct vm as [V|].
    - apply (regroup (term_res sd x) (vw_factor (Some V) w) (length (ve_terms e))); [lia|].
      intros c. apply (Hex c).
    - rewrite (ksum_filter_ind (fun t => cmul (term_res sd x t) (vw_factor None w (vt_v t)))).
      rewrite (map_ext _ (fun t => cmul (term_res sd x t)
                 (cmul (vw_factor None w (vt_v t))
                       (if Nat.eqb (vt_v t mod (v_n K p + 1)) 0 then c1 else c0))))
        by (intros t; ring).
      apply (regroup (term_res sd x)
               (fun c => cmul (vw_factor None w c) (if Nat.eqb (c mod (v_n K p + 1)) 0 then c1 else c0))
               (length (ve_terms e))); [lia|].
      intros c. apply (Hex c). }
  rewrite Z in E.
  transitivity (cadd (csub (dot (fst (build_row K (vp_unknowns p) (term_coef K ofq sd vm w) ts)) x)
                            (snd (build_row K (vp_unknowns p) (term_coef K ofq sd vm w) ts)))
                     (snd (build_row K (vp_unknowns p) (term_coef K ofq sd vm w) ts))); [ring|].
  rewrite E. ring.
Qed.
End P.

(* ================================================================ passes, loop, systems *)
Section Q.
Variable K : CField.
Variable N : K -> Qc.
Variable rsqrt : Qc -> Qc.
Variable ofq : Qc -> K.
Variable minv : nat -> list K -> option (list K).
Variables solve_sq solve_ls : nat -> list (list K) -> list K -> option (list K).
Hypothesis N_nonneg : forall z, (0 <= N z)%Qc.
Hypothesis N_zero : forall z, N z = 0%Qc -> z = c0.
Hypothesis N_of_zero : N (@c0 K) = 0%Qc.
Hypothesis Hsq : solver_spec K N solve_sq.
Hypothesis Hls : solver_spec K N solve_ls.
Add Field Kf_eo2 : (cth K).

Notation dot := (dot K).
Notation sys_of := (sys_of K).
Notation build_eqs := (build_eqs K ofq).
Notation update_v_matrices := (update_v_matrices K minv).
Notation v_loop := (v_loop K N ofq minv solve_sq solve_ls).
Notation reach := (reach K minv).

Lemma combine_fst_snd {A B} (l : list (A * B)) : combine (map fst l) (map snd l) = l.
Proof. induction l as [|[a b] l IH]; simpl; [reflexivity | rewrite IH; reflexivity]. Qed.

Lemma build_eqs_consistent p x st s ws : forall es woff,
  (forall e, In e es -> eq_wf K p e /\ eq_exact K ofq p x e) ->
  consistent K (sys_of (build_eqs p st s ws woff es)) x.
Proof.
  induction es as [|e es IH]; intros woff H w row b Hin; [destruct Hin|].
  cbn [VMatrixModel.build_eqs ExactOverModel.sys_of map] in Hin. destruct Hin as [E|Hin].
  - inversion E; subst w row b.
    destruct (H e (or_introl eq_refl)) as (Hwf & Hex).
    apply (row_holds_any_v K ofq p x e Hwf Hex).
  - apply (IH (S woff) (fun e' He' => H e' (or_intror He')) w row b Hin).
Qed.

Lemma sys_of_weights rows : weights_nonzero K (sys_of rows).
Proof.
  intros w row b Hin. unfold ExactOverModel.sys_of in Hin. apply in_map_iff in Hin.
  destruct Hin as (ab & E & _). inversion E. discriminate.
Qed.

(* ONE PASS: on rows that x solves and that have full column rank, the solve returns x *)
Lemma solve_rows_truth u rows x : length x = u ->
  consistent K (sys_of rows) x -> injective K (sys_of rows) x ->
  solve_rows K solve_sq solve_ls u rows = Some x.
Proof.
  intros Hlen Hc Hi. unfold solve_rows.
  assert (G : forall solve, solver_spec K N solve -> solve u (map fst rows) (map snd rows) = Some x).
  { intros solve (S1 & S2).
    destruct (solve u (map fst rows) (map snd rows)) as [y|] eqn:E.
    - destruct (S1 _ _ _ _ E) as (Ly & My). rewrite combine_fst_snd in My.
      destruct (exact_data_weight_free K N N_nonneg N_zero N_of_zero (sys_of rows) x Hc (sys_of_weights rows) Hi)
        as (_ & _ & U).
      f_equal. apply U; [congruence | exact My].
    - exfalso. apply (S2 u (map fst rows) (map snd rows) x); [rewrite !map_length; reflexivity | exact Hlen | | exact E].
      rewrite combine_fst_snd. exact Hi. }
  destruct (Nat.eqb (length rows) u); [apply G; exact Hsq | apply G; exact Hls].
Qed.

Lemma update_succeeds p s x : forall sds,
  (forall sd, In sd sds -> minv (v_n K p) (vi_matrix K p s sd x) <> None) ->
  forall st, exists st', update_v_matrices p s x sds st = Some st'.
Proof.
  induction sds as [|sd sds IH]; intros H st; [exists []; reflexivity|].
  destruct st as [|vv st]; [exists []; reflexivity|].
  cbn [VMatrixModel.update_v_matrices].
  assert (E : exists vv', update_v_std K minv p s x sd vv = Some vv').
  { unfold update_v_std. destruct vv as [vs|]; [|eexists; reflexivity].
    destruct (nth (v_slot K p s) vs None); [|eexists; reflexivity].
    destruct (minv (v_n K p) (vi_matrix K p s sd x)) eqn:Em; [eexists; reflexivity|].
    exfalso. apply (H sd (or_introl eq_refl)). exact Em. }
  destruct E as (vv' & ->).
  destruct (IH (fun sd' Hin => H sd' (or_intror Hin)) st) as (st' & ->).
  eexists; reflexivity.
Qed.

Lemma fold_plus_zero l : (forall q, In q l -> q = 0%Qc) -> forall a, fold_left Qcplus l a = a.
Proof.
  induction l as [|q l IH]; intros H a; [reflexivity|]. cbn [fold_left].
  rewrite IH by (intros q' Hq; apply H; right; exact Hq).
  rewrite (H q (or_introl eq_refl)). ring.
Qed.

Lemma sum_dx2_same x : sum_dx2 K N x x = 0%Qc.
Proof.
  unfold sum_dx2. apply fold_plus_zero. intros q Hq. apply in_map_iff in Hq.
  destruct Hq as ((a & b) & <- & Hin). cbn [fst snd].
  assert (a = b).
  { clear -Hin. revert Hin. induction x as [|y x IH]; simpl; [tauto|].
    intros [E|Hin]; [inversion E; reflexivity | apply IH; exact Hin]. }
  subst b. replace (csub a a) with (@c0 K) by ring. exact N_of_zero.
Qed.

Lemma converged_same tol u x : converged K N tol u x x = true.
Proof.
  unfold converged. rewrite sum_dx2_same.
  destruct (Qclt_le_dec (tol * tol) (0 / zq (Z.of_nat u))) as [H|_]; [|reflexivity].
  exfalso. unfold Qcdiv in H. replace (0 * / zq (Z.of_nat u))%Qc with 0%Qc in H by ring.
  apply (Qclt_not_le _ _ H). apply Qc_sq_nonneg.
Qed.

Lemma v_loop_passes p s ws woff es tol : forall m k prev st (r : list K * vstate K * nat),
  v_loop p s ws woff es tol m k prev st = SOk r -> k < snd r.
Proof.
  induction m as [|m IHm]; intros k prev st r E; cbn [VMatrixModel.v_loop] in E;
    (destruct (solve_rows _ _ _ _ _); [|discriminate]);
    (destruct (negb _); [inversion E; cbn; lia|]);
    (destruct (VMatrixModel.update_v_matrices _ _ _ _ _ _ _); [|discriminate]);
    (destruct (converged _ _ _ _ _ _); [inversion E; cbn; lia|]); [discriminate|].
  apply IHm in E. lia.
Qed.

Section OneFrequency.
Variable p : vprob K.
Variable xs : list (list K).
Variable ws : option (list Qc).
Variable st0 : vstate K.
Hypothesis Hblocks : blocks_wf K p xs.
Hypothesis Hexact : data_exact K ofq p xs.
Hypothesis Hrank : full_rank_on K ofq minv p xs ws st0.
Hypothesis Hreg : v_regular K minv p xs.
Hypothesis Hsolver : solver_exact_on K ofq minv solve_sq solve_ls p xs ws st0.

Lemma block_length s : s < length (vp_systems p) -> length (nth s xs []) = vp_unknowns p.
Proof.
  intros Hs. destruct Hblocks as (L & H). apply H. apply nth_In. lia.
Qed.

(* THE LOOP OVER V: with at least one further pass allowed it ends with the truth after one or two
   passes, whatever prev_x_vector held *)
Lemma v_loop_truth s es woff tol more passes prev st : woff = woff_of K p s ->
  nth_error (vp_systems p) s = Some es -> reach p xs st0 st -> 1 <= more ->
  exists st' n, v_loop p s ws woff es tol more passes prev st = SOk (nth s xs [], st', n) /\
                n <= passes + 2 /\ reach p xs st0 st'.
Proof.
  intros -> Hes Hr Hm.
  assert (Hs : s < length (vp_systems p)) by (apply nth_error_Some; congruence).
  assert (Hall : forall e, In e es -> eq_wf K p e /\ eq_exact K ofq p (nth s xs []) e)
    by (intros e He; apply (Hexact s es e Hes He)).
  assert (Pass : forall st1, reach p xs st0 st1 ->
            solve_rows K solve_sq solve_ls (vp_unknowns p) (build_eqs p st1 s ws (woff_of K p s) es) = Some (nth s xs [])).
  { intros st1 Hr1. apply (Hsolver st1 s es (nth s xs []) Hr1 Hes);
      [apply block_length; exact Hs | apply build_eqs_consistent; exact Hall | apply (Hrank st1 s es Hr1 Hes)]. }
  destruct more as [|m]; [lia|].
  cbn [VMatrixModel.v_loop]. rewrite (Pass st Hr).
  destruct (have_v_after K st s es); cbn [negb].
  2:{ exists st, (S passes). split; [reflexivity | split; [lia | exact Hr]]. }
  destruct (update_succeeds p s (nth s xs []) (vp_stds p) (fun sd Hin => Hreg s sd Hs Hin) st) as (st1 & E1).
  rewrite E1.
  assert (Hr1 : reach p xs st0 st1) by (apply (reach_update K minv p xs st0 st s st1 Hr Hs E1)).
  destruct (converged K N tol (vp_unknowns p) (nth s xs []) prev).
  { exists st1, (S passes). split; [reflexivity | split; [lia | exact Hr1]]. }
  destruct m as [|m']; cbn [VMatrixModel.v_loop]; rewrite (Pass st1 Hr1);
    (destruct (have_v_after K st1 s es); cbn [negb];
     [ destruct (update_succeeds p s (nth s xs []) (vp_stds p) (fun sd Hin => Hreg s sd Hs Hin) st1) as (st2 & E2);
       rewrite E2, converged_same;
       exists st2, (S (S passes)); split; [reflexivity | split; [lia | apply (reach_update K minv p xs st0 st1 s st2 Hr1 Hs E2)]]
     | exists st1, (S (S passes)); split; [reflexivity | split; [lia | exact Hr1]] ]).
Qed.

Hypothesis Hcount : forall es, In es (vp_systems p) -> vp_unknowns p <= length es.

Lemma skipn_cons_nth {A} (l : list A) : forall n a r, skipn n l = a :: r ->
  nth_error l n = Some a /\ skipn (S n) l = r.
Proof.
  induction l as [|b l IH]; intros [|n] a r H; simpl in *; try discriminate.
  - inversion H; subst. split; reflexivity.
  - apply IH. exact H.
Qed.

Lemma skipn_nil_len {A} (l : list A) : forall n, skipn n l = [] -> length l <= n.
Proof. induction l as [|b l IH]; intros [|n] H; simpl in *; try discriminate; try lia. apply IH in H. lia. Qed.

Lemma skipn_nth_cons {A} (l : list A) d : forall n, n < length l -> skipn n l = nth n l d :: skipn (S n) l.
Proof.
  induction l as [|b l IH]; intros [|n] H; simpl in *; try lia; [reflexivity|]. apply IH. lia.
Qed.

(* ALL SYSTEMS of one frequency *)
Lemma firstn_S_concat {A} (l : list (list A)) : forall s es, nth_error l s = Some es ->
  concat (firstn (S s) l) = concat (firstn s l) ++ es.
Proof.
  induction l as [|a l IH]; intros [|s] es H; simpl in *; try discriminate.
  - inversion H. rewrite app_nil_r. reflexivity.
  - rewrite (IH s es H). rewrite app_assoc. reflexivity.
Qed.

Lemma solve_systems_truth tol limit xinit : 2 <= limit -> forall syss sindex woff st,
  woff = woff_of K p sindex ->
  skipn sindex (vp_systems p) = syss -> reach p xs st0 st ->
  exists st' ns, solve_systems K N ofq minv solve_sq solve_ls p ws tol limit xinit sindex woff syss st
                 = SOk (concat (skipn sindex xs), st', ns) /\
                 reach p xs st0 st' /\ Forall (fun n => 1 <= n <= 2) ns /\ length ns = length syss.
Proof.
  intros Hl. induction syss as [|es r IH]; intros sindex woff st Hw Hsk Hr.
  - exists st, []. apply skipn_nil_len in Hsk. destruct Hblocks as (L & _).
    rewrite skipn_all2 by lia. cbn. repeat split; [exact Hr | constructor].
  - destruct (skipn_cons_nth _ _ _ _ Hsk) as (Hes & Hr').
    assert (Hs : sindex < length (vp_systems p)) by (apply nth_error_Some; congruence).
    cbn [VMatrixModel.solve_systems]. unfold solve_system.
    assert (Hin : In es (vp_systems p)) by (apply (nth_error_In _ _ Hes)).
    pose proof (Hcount es Hin) as Hc. apply Nat.ltb_ge in Hc. rewrite Hc.
    destruct (v_loop_truth sindex es woff tol (limit - 1) 0
                (firstn (vp_unknowns p) (skipn (sindex * vp_unknowns p) xinit)) st Hw Hes Hr) as (st1 & n & E & Hn & Hr1); [lia|].
    rewrite E.
    assert (Hw' : woff + length es = woff_of K p (S sindex)).
    { unfold woff_of. rewrite (firstn_S_concat _ _ _ Hes), app_length, Hw. reflexivity. }
    destruct (IH (S sindex) (woff + length es) st1 Hw' Hr' Hr1) as (st2 & ns & E2 & Hr2 & Hns & Hlen).
    rewrite E2. exists st2, (n :: ns).
    destruct Hblocks as (L & _).
    rewrite (skipn_nth_cons xs [] sindex) by lia. cbn [concat].
    repeat split; [exact Hr2 | constructor; [|exact Hns] | cbn; rewrite Hlen; reflexivity].
    split; [|lia].
    pose proof (v_loop_passes p sindex ws woff es tol _ _ _ _ _ E) as G. cbn in G. lia.
Qed.
End OneFrequency.

(* EXACT DATA ARE A FIXED POINT: one frequency, any earlier solve state, any tolerance, any initial
   x, iteration limit >= 2.  Core form: the solver premise is solver_exact_on *)
Theorem exact_data_fixed_point_core p xs tol limit xinit st_prev :
  blocks_wf K p xs -> data_exact K ofq p xs ->
  (forall es, In es (vp_systems p) -> vp_unknowns p <= length es) -> 2 <= limit ->
  full_rank_on K ofq minv p xs (calc_weights K N rsqrt p) (init_v_matrices K (v_n K p) st_prev) ->
  v_regular K minv p xs ->
  solver_exact_on K ofq minv solve_sq solve_ls p xs (calc_weights K N rsqrt p) (init_v_matrices K (v_n K p) st_prev) ->
  exists st' ns, solve_frequency K N rsqrt ofq minv solve_sq solve_ls tol limit xinit st_prev p
                 = SOk (concat xs, st', ns) /\
                 Forall (fun n => 1 <= n <= 2) ns /\ length ns = length (vp_systems p).
Proof.
  intros Hb He Hc Hl Hr Hv Hsol. unfold solve_frequency.
  destruct (solve_systems_truth p xs (calc_weights K N rsqrt p) (init_v_matrices K (v_n K p) st_prev)
              Hb He Hr Hv Hsol Hc tol limit xinit Hl (vp_systems p) 0 0 (init_v_matrices K (v_n K p) st_prev) eq_refl eq_refl
              (reach_start K minv p xs _)) as (st' & ns & E & _ & Hns & Hlen).
  exists st', ns. split; [exact E | split; [exact Hns | exact Hlen]].
Qed.

(* linear solvers that return a least-squares minimiser whenever the matrix has full column rank
   (solver_spec) are exact on the matrices of every solve *)
Lemma solver_spec_exact_on p xs ws st0 : solver_exact_on K ofq minv solve_sq solve_ls p xs ws st0.
Proof.
  intros st s es x0 _ _ rows Hlen Hc Hi. apply solve_rows_truth; assumption.
Qed.

Theorem exact_data_fixed_point_l p xs tol limit xinit st_prev :
  blocks_wf K p xs -> data_exact K ofq p xs ->
  (forall es, In es (vp_systems p) -> vp_unknowns p <= length es) -> 2 <= limit ->
  full_rank_on K ofq minv p xs (calc_weights K N rsqrt p) (init_v_matrices K (v_n K p) st_prev) ->
  v_regular K minv p xs ->
  exists st' ns, solve_frequency K N rsqrt ofq minv solve_sq solve_ls tol limit xinit st_prev p
                 = SOk (concat xs, st', ns) /\
                 Forall (fun n => 1 <= n <= 2) ns /\ length ns = length (vp_systems p).
Proof.
  intros Hb He Hc Hl Hr Hv.
  apply exact_data_fixed_point_core; try assumption. apply solver_spec_exact_on.
Qed.
End Q.
