(* VMatrixModel: the solve state between frequencies and the model-off branch.
     v_reinit_per_frequency   the loop over the frequencies = every frequency solved on its own
     model_off_is_plain       vn_m_error_vector == NULL: the solve is the unweighted one
     both_null_restores       ... after any history of set_m_error calls ending with (NULL, NULL) *)
Require Import List Arith Bool QArith Qcanon Lia.
Import ListNotations.
Require Import LV.Base.CField LV.SelfCal.PvalueModel LV.SelfCal.GuardModel LV.SelfCal.VMatrixModel.
Require Import LV.SelfCal.C18MErrorModel LV.SelfCal.C18MErrorProofs.
Local Open Scope nat_scope.

Section P.
Variable K : CField.
Variable N : K -> Qc.
Variable rsqrt : Qc -> Qc.
Variable ofq : Qc -> K.
Variable minv : nat -> list K -> option (list K).
Variables solve_sq solve_ls : nat -> list (list K) -> list K -> option (list K).

Notation shape := (shape K).
Notation shape_vv := (shape_vv K).
Notation update_v_matrices := (update_v_matrices K minv).
Notation v_loop := (v_loop K N ofq minv solve_sq solve_ls).
Notation solve_systems := (solve_systems K N ofq minv solve_sq solve_ls).
Notation solve_frequency := (solve_frequency K N rsqrt ofq minv solve_sq solve_ls).
Notation solve_frequencies := (solve_frequencies K N rsqrt ofq minv solve_sq solve_ls).
Notation solve_each := (solve_each K N rsqrt ofq minv solve_sq solve_ls).

(* ---------------------------------------------------------------- shapes *)
Definition of_shape (n : nat) (sh : list (option (list bool))) : vstate K :=
  map (option_map (map (fun b : bool => if b then Some (ident_flat K n) else None))) sh.

Lemma init_of_shape n st : init_v_matrices K n st = of_shape n (shape st).
Proof.
  unfold init_v_matrices, of_shape, VMatrixModel.shape. rewrite map_map. apply map_ext.
  intros [vs|]; [|reflexivity]. cbn. f_equal. rewrite map_map. apply map_ext. intros [m|]; reflexivity.
Qed.

Lemma shape_init n st : shape (init_v_matrices K n st) = shape st.
Proof.
  unfold init_v_matrices, VMatrixModel.shape. rewrite map_map. apply map_ext.
  intros [vs|]; [|reflexivity]. cbn. f_equal. rewrite map_map. apply map_ext. intros [m|]; reflexivity.
Qed.

Lemma shape_length st : length (shape st) = length st.
Proof. apply map_length. Qed.

Lemma set_nth_same_shape {A B} (f : A -> B) (l : list A) : forall i a d,
  i < length l -> f a = f (nth i l d) -> map f (set_nth l i a) = map f l.
Proof.
  induction l as [|b l IH]; intros [|i] a d Hi E; simpl in *; try lia.
  - rewrite E. reflexivity.
  - f_equal. apply (IH i a d); [lia | exact E].
Qed.

Lemma update_v_std_shape p s x sd vv vv' :
  update_v_std K minv p s x sd vv = Some vv' -> shape_vv vv' = shape_vv vv.
Proof.
  unfold update_v_std. destruct vv as [vs|]; [|intros E; inversion E; reflexivity].
  destruct (nth (v_slot K p s) vs None) as [m|] eqn:En; [|intros E; inversion E; reflexivity].
  destruct (minv _ _) as [V|]; [|discriminate]. intros E. inversion E; subst vv'. cbn. f_equal.
  assert (Hi : v_slot K p s < length vs).
  { destruct (Nat.lt_ge_cases (v_slot K p s) (length vs)) as [H|H]; [exact H|].
    rewrite nth_overflow in En by exact H. discriminate. }
  apply (set_nth_same_shape _ vs _ _ None Hi). rewrite En. reflexivity.
Qed.

Lemma update_v_matrices_shape p s x : forall sds st st', length sds = length st ->
  update_v_matrices p s x sds st = Some st' -> shape st' = shape st.
Proof.
  induction sds as [|sd sds IH]; intros [|vv st] st' Hl E; simpl in Hl; try discriminate.
  - inversion E. reflexivity.
  - cbn [VMatrixModel.update_v_matrices] in E.
    destruct (update_v_std K minv p s x sd vv) as [vv'|] eqn:E1; [|discriminate].
    destruct (update_v_matrices p s x sds st) as [st1|] eqn:E2; [|discriminate].
    inversion E; subst st'. cbn. f_equal; [apply (update_v_std_shape _ _ _ _ _ _ E1)|].
    apply (IH st st1); [lia | exact E2].
Qed.

Lemma v_loop_shape p s ws woff es tol : forall more passes prev st x st' n,
  length (vp_stds p) = length st ->
  v_loop p s ws woff es tol more passes prev st = SOk (x, st', n) -> shape st' = shape st.
Proof.
  induction more as [|m IH]; intros passes prev st x st' n Hl E; cbn [VMatrixModel.v_loop] in E;
    (destruct (solve_rows _ _ _ _ _) as [y|]; [|discriminate]);
    (destruct (negb _); [inversion E; reflexivity|]);
    (destruct (update_v_matrices p s y (vp_stds p) st) as [st1|] eqn:Eu; [|discriminate]);
    pose proof (update_v_matrices_shape p s y _ _ _ Hl Eu) as Hs;
    (destruct (converged _ _ _ _ _ _); [inversion E; subst; exact Hs|]); [discriminate|].
  rewrite <- Hs. apply (IH _ _ _ _ _ _ (eq_trans Hl (eq_trans (eq_sym (shape_length st)) (eq_trans (f_equal (@length _) (eq_sym Hs)) (shape_length st1)))) E).
Qed.

Lemma solve_systems_shape p ws tol limit xinit : forall syss sindex woff st x st' ns,
  length (vp_stds p) = length st ->
  solve_systems p ws tol limit xinit sindex woff syss st = SOk (x, st', ns) -> shape st' = shape st.
Proof.
  induction syss as [|es r IH]; intros sindex woff st x st' ns Hl E; cbn [VMatrixModel.solve_systems] in E.
  - inversion E. reflexivity.
  - unfold solve_system in E. destruct (Nat.ltb _ _); [discriminate|].
    destruct (v_loop p sindex ws woff es tol (limit - 1) 0 _ st) as [[[y st1] n]| | | |] eqn:E1; try discriminate.
    pose proof (v_loop_shape _ _ _ _ _ _ _ _ _ _ _ _ _ Hl E1) as H1.
    assert (Hl1 : length (vp_stds p) = length st1).
    { rewrite Hl, <- (shape_length st), <- H1. apply shape_length. }
    destruct (solve_systems p ws tol limit xinit (S sindex) (woff + length es) r st1) as [[[ys st2] ns2]| | | |] eqn:E2;
      try discriminate.
    inversion E; subst. rewrite (IH _ _ _ _ _ _ Hl1 E2). exact H1.
Qed.

Lemma solve_frequency_shape tol limit xinit st p x st' ns : length (vp_stds p) = length st ->
  solve_frequency tol limit xinit st p = SOk (x, st', ns) -> shape st' = shape st.
Proof.
  intros Hl E. unfold VMatrixModel.solve_frequency in E.
  rewrite <- (shape_init (v_n K p) st).
  apply (solve_systems_shape _ _ _ _ _ _ _ _ _ _ _ _ (eq_trans Hl (eq_trans (eq_sym (shape_length st)) (eq_trans (f_equal (@length _) (eq_sym (shape_init (v_n K p) st))) (shape_length _)))) E).
Qed.

(* the solve of a frequency reads the solve state only through its shape *)
Lemma solve_frequency_shape_only tol limit xinit st st' p : shape st = shape st' ->
  solve_frequency tol limit xinit st p = solve_frequency tol limit xinit st' p.
Proof. intros H. unfold VMatrixModel.solve_frequency. rewrite !init_of_shape, H. reflexivity. Qed.

(* V IS RE-INITIALISED AT EVERY FREQUENCY: the loop over the frequencies that threads the solve state
   computes, at every frequency, what the single-frequency solve computes on ANY state of the same
   shape (same pointers NULL) -- the result at a frequency does not depend on the other frequencies *)
Theorem v_reinit_per_frequency_l tol limit xinit : forall ps st st',
  (forall p, In p ps -> length (vp_stds p) = length st) -> shape st = shape st' ->
  solve_frequencies tol limit xinit st ps = solve_each tol limit xinit st' ps.
Proof.
  induction ps as [|p r IH]; intros st st' Hl Hs; [reflexivity|].
  cbn [VMatrixModel.solve_frequencies VMatrixModel.solve_each].
  rewrite (solve_frequency_shape_only tol limit xinit st st' p Hs).
  destruct (solve_frequency tol limit xinit st' p) as [[[x st1] ns]| | | |] eqn:E; try reflexivity.
  assert (Hl' : length (vp_stds p) = length st').
  { rewrite (Hl p (or_introl eq_refl)), <- (shape_length st), Hs. apply shape_length. }
  pose proof (solve_frequency_shape _ _ _ _ _ _ _ _ Hl' E) as H1.
  rewrite (IH st1 st').
  - reflexivity.
  - intros q Hq. rewrite (Hl q (or_intror Hq)), <- (shape_length st), Hs, <- H1. apply shape_length.
  - exact H1.
Qed.

(* ---------------------------------------------------------------- the model switched off *)
Definition all_null (st : vstate K) : Prop := forall vv, In vv st -> vv = None.

Lemma all_null_nth st i : all_null st -> nth i st None = None.
Proof.
  intros H. destruct (nth_in_or_default i st None) as [Hin|E]; [apply H; exact Hin | exact E].
Qed.

Lemma init_all_null n st : all_null st -> init_v_matrices K n st = st.
Proof.
  intros H. unfold init_v_matrices. rewrite <- (map_id st) at 2. apply map_ext_in.
  intros vv Hin. rewrite (H vv Hin). reflexivity.
Qed.

Lemma alloc_v_off p : vp_noise p = None -> all_null (alloc_v K p).
Proof.
  intros Hn vv Hin. unfold alloc_v in Hin. apply in_map_iff in Hin. destruct Hin as (sd & <- & _).
  rewrite Hn. unfold init_vvec. rewrite andb_false_r. reflexivity.
Qed.

Lemma eq_vmat_null st s e : all_null st -> eq_vmat K st s e = None.
Proof. intros H. unfold eq_vmat. rewrite (all_null_nth st _ H). reflexivity. Qed.

Lemma build_eqs_off p st s : all_null st -> forall es woff,
  build_eqs K ofq p st s None woff es = map (plain_row K ofq p) es.
Proof.
  intros H. induction es as [|e es IH]; intros woff; [reflexivity|].
  cbn [VMatrixModel.build_eqs map]. rewrite IH. f_equal.
  unfold build_eq, plain_row. rewrite (eq_vmat_null st s e H). reflexivity.
Qed.

Lemma have_v_off st s es : all_null st -> have_v_after K st s es = false.
Proof.
  intros H. unfold have_v_after. destruct (rev es) as [|e r]; [reflexivity|].
  rewrite (eq_vmat_null st s e H). reflexivity.
Qed.

Definition x_of (r : sres (list K * vstate K * list nat)) : sres (list K) := sres_map (fun t => fst (fst t)) r.

Lemma solve_systems_off p tol limit xinit st : all_null st -> forall syss sindex woff,
  x_of (solve_systems p None tol limit xinit sindex woff syss st) = plain_systems K ofq solve_sq solve_ls p syss /\
  (forall x st' ns, solve_systems p None tol limit xinit sindex woff syss st = SOk (x, st', ns) -> st' = st).
Proof.
  intros H. induction syss as [|es r IH]; intros sindex woff.
  - split; [reflexivity | intros x st' ns E; inversion E; reflexivity].
  - cbn [VMatrixModel.solve_systems VMatrixModel.plain_systems]. unfold solve_system.
    destruct (Nat.ltb (length es) (vp_unknowns p)); [split; [reflexivity | discriminate]|].
    assert (L : forall more, v_loop p sindex None woff es tol more 0 (firstn (vp_unknowns p) (skipn (sindex * vp_unknowns p) xinit)) st =
                match solve_rows K solve_sq solve_ls (vp_unknowns p) (map (plain_row K ofq p) es) with
                | Some y => SOk (y, st, 1) | None => SSingular end).
    { intros more. destruct more; cbn [VMatrixModel.v_loop]; rewrite (build_eqs_off p st sindex H), (have_v_off st sindex es H);
        destruct (solve_rows _ _ _ _ _); reflexivity. }
    rewrite L. destruct (solve_rows _ _ _ _ _) as [y|]; [|split; [reflexivity | discriminate]].
    destruct (IH (S sindex) (woff + length es)) as (I1 & I2).
    destruct (solve_systems p None tol limit xinit (S sindex) (woff + length es) r st) as [[[ys st2] ns2]| | | |] eqn:E2;
      cbn in I1 |- *; rewrite <- I1; cbn; (split; [reflexivity | try discriminate]).
    intros x st' ns E. inversion E; subst. apply (I2 _ _ _ eq_refl).
Qed.

(* MODEL OFF: with vn_m_error_vector == NULL (no weight vector, no V vector allocated by
   _vnacal_new_solve_init) the solve of a frequency is the unweighted solve: same vector, same failures *)
Theorem model_off_is_plain_l p tol limit xinit : vp_noise p = None ->
  x_of (solve_frequency tol limit xinit (alloc_v K p) p) = plain_systems K ofq solve_sq solve_ls p (vp_systems p).
Proof.
  intros Hn. unfold VMatrixModel.solve_frequency.
  pose proof (alloc_v_off p Hn) as Ha. rewrite (init_all_null _ _ Ha).
  unfold calc_weights. rewrite Hn.
  apply (proj1 (solve_systems_off p tol limit xinit _ Ha (vp_systems p) 0 0)).
Qed.
End P.

(* BOTH VECTORS NULL RESTORE THE UNWEIGHTED BEHAVIOUR: after ANY history of vnacal_new_set_m_error
   calls with any arguments on any earlier state, ending with (NULL, NULL) and frequencies >= 1, a
   solve whose noise element is read from the stored vector is the unweighted solve *)
Theorem both_null_restores_l (K : CField) (N : K -> Qc) (rsqrt : Qc -> Qc) (ofq : Qc -> K)
  (minv : nat -> list K -> option (list K)) (solve_sq solve_ls : nat -> list (list K) -> list K -> option (list K))
  (leb ltb : Qc -> Qc -> bool) (interp : list Qc -> list Qc -> Qc -> Qc) (env : menv Qc)
  (h : list (mvec Qc * margs Qc)) (st : option (mvec Qc)) (fresh : mvec Qc) (a : margs Qc)
  (p : vprob K) (findex : nat) (tol : Qc) (limit : nat) (xinit : list K) :
  a_n Qc a <> 0 -> a_nf Qc a = None -> a_tr Qc a = None ->
  vp_noise p = noise_at (run_args Qc 0%Qc leb ltb interp true env st (h ++ [(fresh, a)])) findex ->
  x_of K (solve_frequency K N rsqrt ofq minv solve_sq solve_ls tol limit xinit (alloc_v K p) p) =
  plain_systems K ofq solve_sq solve_ls p (vp_systems p).
Proof.
  intros Hn Hnf Htr Hp. apply model_off_is_plain_l.
  rewrite Hp, (m_error_disable Qc 0%Qc leb ltb interp env h st a fresh Hn Hnf Htr). reflexivity.
Qed.
