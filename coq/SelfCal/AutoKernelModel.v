(* One pass of the Levenberg-Marquardt loop of _vnacal_new_solve_auto
   (src/vnacal_new_solve_auto.c) AS CODED, executable over the Gaussian rationals.  No proofs in
   this file.

   What the pass reads (all of it is data of the model, nothing is an oracle):
     - the equations of every system as the iterator vs_start_system / vs_next_equation /
       vs_next_term presents them: per term the sign, the optional m factor, the optional s cell
       (a known value, or the index of an unknown parameter: vs_get_s reads vnmm_s_matrix, which
       _vnacal_new_solve_update_s_matrices has patched with vnss_p_vector -- GuardModel.v), the
       optional v factor, and the index of the error term (None = right-hand side);
     - per equation the optional weight w_vector[equation];
     - the rows of the correlated parameters (weight = 1 / sigma, index, partner);
     - the current parameter vector p.
   What it computes, in the order of the code:
     build_ab     a_matrix, b_vector     (v = +-1; v *= m; v *= s; v *= v; v *= w; "+=" into the
                                          cell offset + xindex or into b)
     solve_x      x_vector               (see "QR" below)
     aprimex      A'(p) x, one column per unknown parameter (the quantity called aprimex_matrix
                                          in the DEBUG >= 3 code; j_matrix is -Q2^H aprimex)
     jtj, jtk, sumk   J^H J, J^H k, sum |k_i|^2  with the rows of the correlated parameters appended
     j1_matrix    J^H J + lambda I
     step         d = J1 \ k1 by _vnacommon_mldivide (LuModel / LuPartial as coded), refused when
                  the returned determinant is 0 or not finite
     p - d
   QR.  _vnacommon_qr needs square roots, so Q itself is not a rational function of the input.
   The pass uses Q only through  x = R1^-1 Q1^H b  and through products with Q2 Q2^H
   (J^H J, J^H k, k^H k); the model computes x from the normal equations A^H A x = A^H b (LU as
   coded on the normal matrix, LsLu.ls_lu) and replaces Q2 Q2^H y by y - A z with z the
   normal-equation solution for the right-hand side y.  That the products solve_auto forms with
   the Q2 of _vnacommon_qr (Householder model of Lin/QrModel.v, the Q-forming loop and the Q2^H
   accumulation of AutoKernelQrQ.v) are exactly these values is proved for every m >= n in
   AutoKernelProjector.v / AutoKernelProjQI.v (premise: the sqrt / phase law instances of the run),
   and checked numerically on every run as well (checks/c02_kernel.py).  j_matrix and k_vector
   themselves depend on the choice of Q2 and are not model outputs.
   Not modelled: the update of the V matrices from x (measurement-error model,
   _vnacal_new_solve_update_all_v_matrices, called between the solve for x and the Jacobian loop);
   the v factors are inputs of the pass, one value per term for each of the two walks (without an
   error model there are no v factors at all).  Rounding is not modelled. *)
Require Import List Arith Bool QArith Qcanon.
Import ListNotations.
Require Import LV.Base.CField LV.Base.QcI LV.Lin.MatL LV.Lin.LuModel LV.Lin.LuQI LV.Lin.LsSpec
               LV.Lin.LuPartial LV.Lin.LsLu LV.Lin.LuQI2.
Require Import LV.SelfCal.AutoLoop.

Notation qmat := (mat QIF).

Inductive scell := SKnown (v : qi) | SUnk (u : nat).
Record term := Term { t_neg : bool; t_m : option qi; t_s : option scell;
                      t_v : option qi;       (* vs_get_v in the first walk (a_matrix, b_vector) *)
                      t_vj : option qi;      (* vs_get_v in the second walk (Jacobian): the V matrices
                                                have been recomputed from x_vector in between *)
                      t_x : option nat }.
Record equation := Eqn { e_w : option qi; e_terms : list term }.
(* correlated parameter: weight, its index, what it is correlated with *)
Record corr := Corr { c_w : qi; c_i : nat; c_other : scell }.

Record problem := Problem {
  pr_xl : nat;                       (* vl_t_terms - 1: unknowns per system *)
  pr_sys : list (list equation);     (* vn_system_vector[..].vns_equation_list *)
  pr_corr : list corr;               (* correlated members of vn_unknown_parameter_list, in order *)
  pr_pl : nat }.                     (* vn_unknown_parameters *)

Definition pr_equations (pr : problem) : nat := fold_left (fun n s => (n + length s)%nat) (pr_sys pr) 0%nat.
Definition pr_xlen (pr : problem) : nat := (length (pr_sys pr) * pr_xl pr)%nat.

Definition qmul := qi_mul.
Definition qadd := qi_add.
Definition qsub := qi_sub.
Definition omul (v : qi) (o : option qi) : qi := match o with Some m => qmul v m | None => v end.

(* vs_get_s *)
Definition sval (p : list qi) (c : scell) : qi :=
  match c with SKnown v => v | SUnk u => nth u p qi0 end.

(* the coefficient of a term in the first loop: v = +-1; *= m; *= s; *= v; *= w *)
Definition coef (p : list qi) (w : option qi) (t : term) : qi :=
  let v0 := if t_neg t then qi_opp qi1 else qi1 in
  let v1 := omul v0 (t_m t) in
  let v2 := match t_s t with Some c => qmul v1 (sval p c) | None => v1 end in
  let v3 := omul v2 (t_v t) in
  omul v3 w.

(* the factor of a term in the Jacobian loop: v = +-1; *= m; *= v; *= w  (no s) *)
Definition coef_j (w : option qi) (t : term) : qi :=
  let v0 := if t_neg t then qi_opp qi1 else qi1 in
  let v1 := omul v0 (t_m t) in
  let v2 := omul v1 (t_vj t) in
  omul v2 w.

Definition addat (row : list qi) (j : nat) (v : qi) : list qi := upd row j (qadd (nth j row qi0) v).

(* one row of a_matrix and the element of b_vector *)
Definition build_row (p : list qi) (n offset : nat) (e : equation) : list qi * qi :=
  fold_left (fun '(row, b) t =>
               let v := coef p (e_w e) t in
               match t_x t with
               | None => (row, qadd b v)
               | Some xi => (addat row (offset + xi)%nat v, b)
               end)
            (e_terms e) (repeat qi0 n, qi0).

(* (sindex * (vl_t_terms - 1), equation) for every equation, in the order of the two loops *)
Definition flat_eqs (pr : problem) : list (nat * equation) :=
  concat (map (fun '(sindex, eqs) => map (fun e => ((sindex * pr_xl pr)%nat, e)) eqs)
              (combine (seq 0 (length (pr_sys pr))) (pr_sys pr))).

Definition rows_ab (pr : problem) (p : list qi) : list (list qi * qi) :=
  map (fun '(off, e) => build_row p (pr_xlen pr) off e) (flat_eqs pr).

Definition a_matrix (pr : problem) (p : list qi) : qmat :=
  let rows := map fst (rows_ab pr p) in
  mbuild QIF (pr_equations pr) (pr_xlen pr) (fun i j => mget QIF rows i j).
Definition b_vector (pr : problem) (p : list qi) : qmat :=
  let bs := map snd (rows_ab pr p) in
  mbuild QIF (pr_equations pr) 1 (fun i _ => nth i bs qi0).

Definition col0 (n : nat) (x : qmat) : list qi := map (fun k => mget QIF x k 0%nat) (seq 0 n).

(* x_vector; None = rank < x_length ("singular linear system") *)
Definition solve_x (pr : problem) (p : list qi) : option (list qi) :=
  match q2_ls_lu (pr_equations pr) (pr_xlen pr) 1 (a_matrix pr p) (b_vector pr p) with
  | Some x => Some (col0 (pr_xlen pr) x)
  | None => None
  end.

(* one row of aprimex_matrix: for every term whose s cell is an unknown parameter,
   aprimex[equation][unknown] += v * x_vector[offset + xindex].  The code asserts xindex >= 0
   for such a term; a right-hand-side term with an unknown s does not occur and is skipped here. *)
Definition aprimex_row (pl offset : nat) (x : list qi) (e : equation) : list qi :=
  fold_left (fun row t =>
               match t_s t, t_x t with
               | Some (SUnk u), Some xi => addat row u (qmul (coef_j (e_w e) t) (nth (offset + xi)%nat x qi0))
               | _, _ => row
               end)
            (e_terms e) (repeat qi0 pl).

Definition aprimex (pr : problem) (x : list qi) : qmat :=
  let rows := map (fun '(off, e) => aprimex_row (pr_pl pr) off x e) (flat_eqs pr) in
  mbuild QIF (pr_equations pr) (pr_pl pr) (fun i j => mget QIF rows i j).

(* y - A z for the normal-equation solution z: the value of Q2 Q2^H y, column by column *)
Definition project (m n o : nat) (a y : qmat) : option qmat :=
  match q2_ls_lu m n o a y with
  | Some z => Some (msub QIF m o y (mmul QIF m n o a z))
  | None => None
  end.

(* rows appended for the correlated parameters: E (row of j_matrix) and E p0 - f (k_vector) *)
Definition corr_jrow (pl : nat) (c : corr) : list qi :=
  let r1 := upd (repeat qi0 pl) (c_i c) (c_w c) in
  match c_other c with SUnk i2 => upd r1 i2 (qi_opp (c_w c)) | SKnown _ => r1 end.
Definition corr_k (p : list qi) (c : corr) : qi :=
  qsub (qmul (c_w c) (nth (c_i c) p qi0)) (qmul (c_w c) (sval p (c_other c))).

Definition corr_E (pr : problem) : qmat := map (corr_jrow (pr_pl pr)) (pr_corr pr).
Definition corr_kv (pr : problem) (p : list qi) : qmat := map (fun c => [corr_k p c]) (pr_corr pr).

(* the quantities of a pass that do not depend on the choice of Q2 *)
Record passdata := Pass {
  pd_x : list qi;          (* x_vector *)
  pd_jtj : qmat;           (* J^H J, p_length x p_length *)
  pd_jtk : qmat;           (* J^H k, p_length x 1 *)
  pd_sumk : Qc }.          (* sum_k_squared *)

Definition kernel_pass (pr : problem) (p : list qi) : option passdata :=
  let m := pr_equations pr in
  let n := pr_xlen pr in
  let pl := pr_pl pr in
  let nc := length (pr_corr pr) in
  let a := a_matrix pr p in
  let b := b_vector pr p in
  match solve_x pr p with
  | None => None
  | Some x =>
    let ax := aprimex pr x in
    match project m n 1 a b, project m n pl a ax with
    | Some pb, Some pax =>
      let E := corr_E pr in
      let kc := corr_kv pr p in
      let axH := mherm QIF m pl ax in
      let EH := mherm QIF nc pl E in
      (* J = [ -Q2^H ax ; E ],  k = [ Q2^H b ; kc ] *)
      let jtj := madd QIF pl pl (mmul QIF pl m pl axH pax) (mmul QIF pl nc pl EH E) in
      let jtk := madd QIF pl 1 (mbuild QIF pl 1 (fun i j => qi_opp (mget QIF (mmul QIF pl m 1 axH pb) i j)))
                               (mmul QIF pl nc 1 EH kc) in
      let sumk := (qre (mget QIF (mmul QIF 1 m 1 (mherm QIF m 1 b) pb) 0 0)
                   + fold_left (fun s r => s + qi_nrm (nth 0 r qi0)) kc 0)%Qc in
      Some (Pass x jtj jtk sumk)
    | _, _ => None
    end
  end.

(* J1 = J^H J + lambda I *)
Definition j1_matrix (pl : nat) (jtj : qmat) (lambda : Qc) : qmat :=
  mbuild QIF pl pl (fun i j => if Nat.eqb i j then qadd (mget QIF jtj i j) (qi_of_Qc lambda)
                               else mget QIF jtj i j).

(* d = J1 \ k1; "determinant == 0.0 || !isnormal(cabs(determinant))" refuses *)
Definition kernel_step (pl : nat) (jtj jtk : qmat) (lambda : Qc) : option (list qi) :=
  match q2_mldivide_c_recip (j1_matrix pl jtj lambda) jtk pl 1 with
  | (Some d, det) => if site_rejects_full QIF qi_isz det then None else Some (col0 pl d)
  | (None, _) => None
  end.

(* p -= d *)
Definition apply_d (p d : list qi) : list qi := map (fun pd => qsub (fst pd) (snd pd)) (combine p d).

Definition norm2 (v : list qi) : Qc := fold_left (fun s z => (s + qi_nrm z)%Qc) v 0%Qc.
Definition normdx (x bx : list qi) : Qc := norm2 (apply_d x bx).

(* the whole iteration: AutoLoop's control skeleton over this kernel *)
Definition kernel_run (pr : problem) (ptol ettol : Qc) (limit : nat) (p0 : list qi) :=
  auto_run (list qi) (list qi) passdata (list qi)
    (fun _ p => match kernel_pass pr p with Some pd => Some (pd_x pd, pd) | None => None end)
    pd_sumk
    (fun _ pd lam => kernel_step (pr_pl pr) (pd_jtj pd) (pd_jtk pd) lam)
    apply_d norm2 normdx ptol ettol
    (Q2Qc (inject_Z (Z.of_nat (pr_pl pr)))) (Q2Qc (inject_Z (Z.of_nat (pr_xlen pr)))) limit p0.
