(* The measurement-error FORMULAS of the solver, as coded (no proofs in this file):
     - the weight of an equation, _vnacal_new_solve_calc_weights (src/vnacal_new_solve.c):
           weight2  = _vnacommon_cabs2(m);  weight2 *= tracking * tracking;  weight2 += noise * noise;
           w_vector[k++] = 1.0 / sqrt(weight2);
     - the leakage samples of _vnacal_new_solve_start_frequency (sum, sum of squared magnitudes, count
       over the standards that measured the cell and have no path between its ports);
     - _vnacal_new_solve_calc_pvalue (src/vnacal_new_solve_pvalue.c): the residual of every equation
       from its terms, normalised by THE SAME expression weight2 ("divisor"), chisq += 2 * ..., df += 2,
       df -= 2 * (vl_t_terms - 1) per system, the variance term of every off-diagonal leakage cell with
       more than one sample, "if (df < 1) return 1.0;", chisq_pvalue(df, chisq);
     - chisq_pvalue: "x = x2 / 2; if (x <= 0) 1; else if (n == 1) erfc(sqrt x); else <even / odd
       finite sums>" over ABSTRACT exp, erfc, sqrt and pi;
     - the test of _vnacal_new_solve_internal:
           if (vn_m_error_vector != NULL && vn_pvalue_limit != 0.0) { p = calc_pvalue; if (p < limit) -> EDOM }
       and "if (w_vector != NULL) value *= w_vector[...]" of the two solvers.
   Real numbers are exact rationals (Qc); complex numbers are a plain type C with the operations the
   code uses (Section variables: nothing but the operations is assumed here; the theorems name the
   laws they need).  N is _vnacommon_cabs2. *)
Require Import List ZArith QArith Qcanon Bool.
Import ListNotations.
Local Open Scope Qc_scope.

Definition zq (n : Z) : Qc := Q2Qc (inject_Z n).
Definition q_two : Qc := 1 + 1.
Definition qc_le0 (x : Qc) : bool := if Qclt_le_dec 0 x then false else true.      (* x <= 0.0 *)
Definition qc_lt0 (x : Qc) : bool := if Qclt_le_dec x 0 then true else false.      (* x < 0.0 *)

Section Formula.
Variable C : Type.
Variables (c0 c1 : C) (cadd cmul : C -> C -> C) (copp : C -> C).
Variable N : C -> Qc.                  (* _vnacommon_cabs2 *)
Variable rsqrt : Qc -> Qc.             (* x |-> 1.0 / sqrt(x): abstract *)

(* ---- the weight ---- *)
Definition weight2 (nf tr : Qc) (m : C) : Qc := N m * (tr * tr) + nf * nf.
Definition weight (nf tr : Qc) (m : C) : Qc := rsqrt (weight2 nf tr m).

(* ---- terms and residuals: the inner loop of calc_pvalue ----
     value = negative ? -1.0 : 1.0;  if (have_m) value *= m;  if (have_s) value *= s;
     if (have_v) value *= v;  if (xindex >= 0) value *= x_vector[offset + xindex]; else value = -value;
     residual += value; *)
Record term := { t_neg : bool; t_m : option C; t_s : option C; t_v : option C; t_x : option nat }.
Definition fac (o : option C) (v : C) : C := match o with Some a => cmul v a | None => v end.
Definition term_value (x : list C) (off : nat) (t : term) : C :=
  let v := fac (t_v t) (fac (t_s t) (fac (t_m t) (if t_neg t then copp c1 else c1))) in
  match t_x t with Some i => cmul v (nth (off + i) x c0) | None => copp v end.
(* an equation: the (leakage-corrected) measurement of its own cell, vnmm_m_matrix[eq_cell], and its terms *)
Record equation := { e_m : C; e_terms : list term }.
Definition residual (x : list C) (off : nat) (e : equation) : C :=
  fold_left (fun r t => cadd r (term_value x off t)) (e_terms e) c0.

(* (chisq, df) after one equation, one system *)
Definition acc_equation (nf tr : Qc) (x : list C) (off : nat) (st : Qc * Z) (e : equation) : Qc * Z :=
  (fst st + q_two * (N (residual x off e) / weight2 nf tr (e_m e)), (snd st + 2)%Z).
(* "int offset = sindex * (vl_t_terms - 1)"; "df -= 2 * (vl_t_terms - 1)" *)
Definition acc_system (unknowns : nat) (nf tr : Qc) (x : list C) (st : Qc * Z) (se : nat * list equation) : Qc * Z :=
  let r := fold_left (acc_equation nf tr x (fst se * unknowns)) (snd se) st in
  (fst r, (snd r - 2 * Z.of_nat unknowns)%Z).
Fixpoint number {A} (k : nat) (l : list A) : list (nat * A) :=
  match l with [] => [] | a :: r => (k, a) :: number (S k) r end.
Definition acc_systems (unknowns : nat) (nf tr : Qc) (x : list C) (systems : list (list equation)) : Qc * Z :=
  fold_left (acc_system unknowns nf tr x) (number 0 systems) (0, 0%Z).

(* ---- leakage cells ---- *)
Record lcell := { l_sum : C; l_sumsq : Qc; l_count : Z }.
(* _vnacal_new_solve_start_frequency: "vnlt_sum += m; vnlt_sumsq += cabs2(m); ++vnlt_count" over the
   samples of the cell *)
Definition leak_of_samples (ms : list C) : lcell :=
  fold_left (fun l m => {| l_sum := cadd (l_sum l) m; l_sumsq := l_sumsq l + N m; l_count := (l_count l + 1)%Z |})
            ms {| l_sum := c0; l_sumsq := 0; l_count := 0%Z |}.
(* the samples: the standards that measured the cell and do not connect its ports (WeightModel.leak_count
   counts the same list) *)
Definition cell_samples (stds : list (bool * bool * C)) : list C :=
  map snd (filter (fun s => (fst (fst s) && negb (snd (fst s)))%bool) stds).

(*  if (ltp->vnlt_count > 1) {
        n_mean_squared = creal(sum_x * conj(sum_x)) / n;
        value = ltp->vnlt_sumsq - n_mean_squared;  if (value < 0.0) value = 0.0;
        weight = 1.0 / (noise * noise + n_mean_squared / n * tracking * tracking);
        value *= weight;  chisq += 2.0 * value;  df += 2 * (n - 1);  } *)
Definition leak_value (l : lcell) : Qc :=
  let v := l_sumsq l - N (l_sum l) / zq (l_count l) in if qc_lt0 v then 0 else v.
Definition leak_weight (nf tr : Qc) (l : lcell) : Qc :=
  1 / (nf * nf + N (l_sum l) / zq (l_count l) / zq (l_count l) * tr * tr).
Definition acc_leak (nf tr : Qc) (st : Qc * Z) (l : lcell) : Qc * Z :=
  if Z.ltb 1 (l_count l)
  then (fst st + q_two * (leak_value l * leak_weight nf tr l), (snd st + 2 * (l_count l - 1))%Z)
  else st.

(* the statistic and its degrees of freedom; leak = None: "leakage_matrix == NULL" (T8, U8, T16, U16) *)
Definition calc_stat (unknowns : nat) (nf tr : Qc) (x : list C) (systems : list (list equation))
           (leak : option (list lcell)) : Qc * Z :=
  let st := acc_systems unknowns nf tr x systems in
  match leak with Some cells => fold_left (acc_leak nf tr) cells st | None => st end.

(* ---- chisq_pvalue ---- *)
Variables (exp erfc sqrt : Qc -> Qc) (pi : Qc).
(* "for (i = 0; i < n; ++i) { if (i != 0) f *= x / (double)i; s += f; }" *)
Fixpoint even_sum (x : Qc) (cnt i : nat) (f s : Qc) : Qc :=
  match cnt with
  | O => s
  | S c => let f' := if Nat.eqb i 0 then f else f * (x / zq (Z.of_nat i)) in even_sum x c (S i) f' (s + f')
  end.
(* "for (i = 1; i <= n; ++i) { f *= x / (i - 0.5); s += f; }" *)
Fixpoint odd_sum (x : Qc) (cnt i : nat) (f s : Qc) : Qc :=
  match cnt with
  | O => s
  | S c => let f' := f * (x / (zq (Z.of_nat i) - 1 / q_two)) in odd_sum x c (S i) f' (s + f')
  end.
Definition chisq_pvalue (n : Z) (x2 : Qc) : Qc :=
  let x := x2 / q_two in
  if qc_le0 x then 1
  else if Z.eqb n 1 then erfc (sqrt x)
  else if Z.even n then exp (- x) * even_sum x (Z.to_nat (Z.shiftr n 1)) 0 1 0
  else erfc (sqrt x) + exp (- x) / sqrt (pi * x) * odd_sum x (Z.to_nat (Z.shiftr n 1)) 1 1 0.

(* "if (df < 1) return 1.0;  return chisq_pvalue(df, chisq);" *)
Definition pvalue_of_stat (st : Qc * Z) : Qc := if Z.ltb (snd st) 1 then 1 else chisq_pvalue (snd st) (fst st).
Definition calc_pvalue (unknowns : nat) (nf tr : Qc) (x : list C) (systems : list (list equation))
           (leak : option (list lcell)) : Qc :=
  pvalue_of_stat (calc_stat unknowns nf tr x systems leak).

(* ---- what a solve does with the stored noise model (vn_m_error_vector: None = NULL) ----
   the factor an equation with own measurement m is multiplied with ("if (w_vector != NULL) value *= w":
   no vector, no factor), the p-value computed at frequency findex (None: not computed), the verdict *)
Definition mstate := option (list (Qc * Qc)).
Definition eq_factor (st : mstate) (findex : nat) (m : C) : Qc :=
  match st with
  | None => 1
  | Some v => weight (fst (nth findex v (0, 0))) (snd (nth findex v (0, 0))) m
  end.
Definition solve_pvalue (st : mstate) (limit : Qc) (findex unknowns : nat) (x : list C)
           (systems : list (list equation)) (leak : option (list lcell)) : option Qc :=
  match st with
  | None => None
  | Some v => if Qc_eq_dec limit 0 then None
              else Some (calc_pvalue unknowns (fst (nth findex v (0, 0))) (snd (nth findex v (0, 0))) x systems leak)
  end.
(* "if (pvalue < vn_pvalue_limit) -> error, EDOM" *)
Definition solve_rejects (st : mstate) (limit : Qc) (findex unknowns : nat) (x : list C)
           (systems : list (list equation)) (leak : option (list lcell)) : bool :=
  match solve_pvalue st limit findex unknowns x systems leak with
  | None => false
  | Some p => if Qclt_le_dec p limit then true else false
  end.
End Formula.
