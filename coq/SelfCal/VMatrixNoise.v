(* The interpolation of vnacal_new_set_m_error (C18MErrorModel.values_at, abstract there) instantiated
   with the spline model of property C10 as set_m_error calls it:
     _vnacommon_spline_calc(frequencies - 1, frequency_vector, sigma_vector, c_vector) once, then
     _vnacommon_spline_eval(frequencies - 1, ...) at every calibration frequency
   which is SigmaSplineModel.sigma_make / sigma_eval of package M (the frequencies == 1 shortcut is
   taken before, in values_at).  A failing spline_calc (a gap below MIN_DX; set_m_error returns -1) is
   outside this function: 0 stands for "no value".  No proofs in this file. *)
Require Import List ZArith QArith Qcanon.
Require Import LV.Interp.QOrd LV.Interp.SplineModel LV.Interp.SigmaSplineModel LV.SelfCal.C18MErrorModel.
Import ListNotations.

Definition noise_interp (min_dx : Qc) (fv ys : list Qc) (f : Qc) : Qc :=
  match sigma_make min_dx fv ys with
  | Some cs => match sigma_eval fv ys cs f with Some v => v | None => 0%Qc end
  | None => 0%Qc
  end.

(* the MIN_DX test of _vnacommon_spline_calc on the knots (SplineModel.spline_calc: some hp[i] < MIN_DX
   -> EINVAL): what C18MErrorModel.en_gaps_ok stands for *)
Definition q_gaps_ok (min_dx : Qc) (fv : list Qc) : bool :=
  let n := (Z.of_nat (length fv) - 1)%Z in
  negb (existsb (fun i => Qcltb (hp fv i) min_dx) (zrange (Z.to_nat n) 0)).

(* vnacal_new_set_m_error over the rationals with the real order and the spline *)
Definition q_values_at (min_dx : Qc) := values_at Qc 0%Qc (noise_interp min_dx).
Definition q_lower (min_dx : Qc) := lower Qc 0%Qc Qcleb Qcltb (noise_interp min_dx).
Definition q_run_args (min_dx : Qc) := run_args Qc 0%Qc Qcleb Qcltb (noise_interp min_dx) true.
