(* vnacal_new_set_m_error (src/vnacal_new_set_m_error.c) as a state machine over calls on ONE
   vnacal_new_t.  No proofs in this file.

   State: vn_m_error_vector, NULL or a vector of vn_frequencies elements
   (vnme_sigma_nf, vnme_sigma_tr).  A call is one of
     MClear         both vectors NULL: "free(vn_m_error_vector); vn_m_error_vector = NULL; return 0"
     MInvalid       any call that fails validation (all the tests precede the first write):
                    "return -1", the state is not touched
     MSet nf tr     sigma_nf_vector given, sigma_tr_vector given or NULL; nf / tr are the VALUES AT
                    THE CALIBRATION FREQUENCIES (the same for the three ways the code obtains them:
                    element 0 for every frequency, element findex, or the spline through the given
                    points -- the interpolation is C10's subject and not modelled here)
   and the code of a successful MSet is, in this order,
     if (m_error_vector == NULL) m_error_vector = malloc(...);       alloc_if_needed: an existing
                                                                      vector is REUSED; a fresh one
                                                                      has arbitrary contents
     for (findex ...) { sigma_nf = 0.0; sigma_tr = 0.0; }             init_vec ("Always init")
     for (findex ...) sigma_nf = <value>;                             write_nf
     if (sigma_tr_vector != NULL) for (findex ...) sigma_tr = <value> write_tr, skipped for NULL
   The boolean reinit selects whether the "always init" loop is there: true is the code; false is
   a model variant (allocation by calloc, no loop) showing what the loop is for. *)
Require Import List.
Import ListNotations.

Section MErr.
Variable R : Type.
Variable r0 : R.                       (* 0.0 *)

Definition mvec := list (R * R).       (* (sigma_nf, sigma_tr) per calibration frequency *)

Inductive mcall :=
| MClear
| MInvalid
| MSet (nf : list R) (tr : option (list R)).

Definition alloc_if_needed (fresh : mvec) (st : option mvec) : mvec :=
  match st with Some v => v | None => fresh end.

Definition init_vec (reinit : bool) (v : mvec) : mvec :=
  if reinit then map (fun _ => (r0, r0)) v else v.

Fixpoint write_nf (v : mvec) (nf : list R) : mvec :=
  match v, nf with
  | (_, t) :: v', x :: nf' => (x, t) :: write_nf v' nf'
  | _, _ => v
  end.

Fixpoint write_tr (v : mvec) (tr : list R) : mvec :=
  match v, tr with
  | (n, _) :: v', x :: tr' => (n, x) :: write_tr v' tr'
  | _, _ => v
  end.

(* one call; fresh is what malloc hands out if the call allocates *)
Definition set_m_error (reinit : bool) (fresh : mvec) (st : option mvec) (c : mcall) : option mvec :=
  match c with
  | MClear => None
  | MInvalid => st
  | MSet nf tr =>
      let v := write_nf (init_vec reinit (alloc_if_needed fresh st)) nf in
      Some (match tr with Some t => write_tr v t | None => v end)
  end.

(* a history of calls, each with the contents malloc would return at that moment *)
Definition run (reinit : bool) (st : option mvec) (h : list (mvec * mcall)) : option mvec :=
  fold_left (fun s fc => set_m_error reinit (fst fc) s (snd fc)) h st.

(* what a single declaration means: sigma_tr NULL is a tracking term of zero *)
Definition declared (F : nat) (nf : list R) (tr : option (list R)) : mvec :=
  combine nf (match tr with Some t => t | None => repeat r0 F end).

(* the state a history should leave: that of its last call that is not invalid *)
Fixpoint last_effective (F : nat) (h : list (mvec * mcall)) (acc : option mvec) : option mvec :=
  match h with
  | [] => acc
  | (_, MClear) :: r => last_effective F r None
  | (_, MInvalid) :: r => last_effective F r acc
  | (_, MSet nf tr) :: r => last_effective F r (Some (declared F nf tr))
  end.

(* shapes: every vector has one element per calibration frequency *)
Definition call_wf (F : nat) (fc : mvec * mcall) : Prop :=
  match snd fc with
  | MSet nf tr => length (fst fc) = F /\ length nf = F /\ match tr with Some t => length t = F | None => True end
  | _ => True
  end.
Definition state_wf (F : nat) (st : option mvec) : Prop :=
  match st with Some v => length v = F | None => True end.
End MErr.

(* ---- the call with its ARGUMENTS: validation and the three ways of obtaining the values ----
   vnacal_new_set_m_error(vnp, frequency_vector, frequencies, sigma_nf_vector, sigma_tr_vector).
   lower env a is the call in the vocabulary above (MClear / MInvalid / MSet values-at-the-calibration-
   frequencies), computed as the code does, every test in the code's order and all of them before
   the first write:
     frequencies < 1 -> -1;  both vectors NULL -> clear;  sigma_nf_vector NULL -> -1;
     some sigma_nf[i] <= 0 -> -1;  some sigma_tr[i] < 0 -> -1;  !vn_frequencies_valid -> -1;
     frequency_vector given: not ascending -> -1; vn_frequencies > 0 and (frequency_vector[0] > lower
     or frequency_vector[frequencies - 1] < upper) -> -1;
     frequency_vector NULL: frequencies != 1 && frequencies != vn_frequencies -> -1;
     T16 / U16 and some standard without full S -> -1 (en_full_s_ok: the outcome of that walk, not modelled);
     own grid with frequencies > 1 and two knots closer than MIN_DX -> -1 (en_gaps_ok: the outcome of
     _vnacommon_spline_calc's test, C10's model; VMatrixNoise instantiates it);
   then  frequencies == 1: element 0 at every calibration frequency (also when a frequency vector was
   given);  frequency_vector NULL: element findex;  else the spline through the given points evaluated
   at the calibration frequencies (interp: C10's model, abstract here).
   The vectors hold (at least) `frequencies' elements; only those are read.  malloc failure is not
   modelled.  leb / ltb: <= and < on the reals. *)
Section Args.
Variable R : Type.
Variable r0 : R.
Variables leb ltb : R -> R -> bool.
Variable interp : list R -> list R -> R -> R.

Record menv := { en_calf : list R;          (* vn_frequency_vector; vn_frequencies = its length *)
                 en_fvalid : bool;          (* vn_frequencies_valid *)
                 en_lo : R; en_hi : R;      (* (1 + VNACAL_F_EXTRAPOLATION) * fmin, (1 - ...) * fmax *)
                 en_full_s_ok : bool;
                 en_gaps_ok : list R -> bool }.  (* _vnacommon_spline_calc accepts the knots: every gap >= MIN_DX *)
Record margs := { a_fv : option (list R); a_n : nat; a_nf : option (list R); a_tr : option (list R) }.

Fixpoint ascending (l : list R) : bool :=
  match l with
  | a :: r => match r with b :: _ => (ltb a b && ascending r)%bool | [] => true end
  | [] => true
  end.

Definition values_at (env : menv) (a : margs) (ys : list R) : list R :=
  let F := length (en_calf env) in
  if Nat.eqb (a_n a) 1 then repeat (nth 0 ys r0) F
  else match a_fv a with
       | None => map (fun i => nth i ys r0) (seq 0 F)
       | Some fv => map (interp (firstn (a_n a) fv) (firstn (a_n a) ys)) (en_calf env)
       end.

(* "if (frequency_vector != NULL && frequencies > 1) { entries finite and >= 0; ascending; range }
    else if (frequencies != 1 && frequencies != vn_frequencies) -> -1": a vector given with
   frequencies == 1 is not looked at (since fix DC94); NaN / inf have no counterpart over R, the
   "< 0.0" test of fix DC92 has *)
Definition grid_rejected (env : menv) (a : margs) : bool :=
  let F := length (en_calf env) in
  match a_fv a with
  | Some fv =>
      if Nat.eqb (a_n a) 1 then false
      else (existsb (fun v => ltb v r0) (firstn (a_n a) fv) ||
            negb (ascending (firstn (a_n a) fv)) ||
            (negb (Nat.eqb F 0) && (ltb (en_lo env) (nth 0 fv r0) || ltb (nth (a_n a - 1) fv r0) (en_hi env))))%bool
  | None => (negb (Nat.eqb (a_n a) 1) && negb (Nat.eqb (a_n a) F))%bool
  end.
(* "use_spline = frequencies != 1 && frequency_vector != NULL; _vnacommon_spline_calc(...) == -1 ->
   -1 (EINVAL: frequencies are too close together)", before the first write (fix DI90) *)
Definition spline_rejected (env : menv) (a : margs) : bool :=
  match a_fv a with
  | Some fv => (negb (Nat.eqb (a_n a) 1) && negb (en_gaps_ok env (firstn (a_n a) fv)))%bool
  | None => false
  end.

Definition lower (env : menv) (a : margs) : mcall R :=
  if Nat.eqb (a_n a) 0 then MInvalid R else
  match a_nf a with
  | None => match a_tr a with None => MClear R | Some _ => MInvalid R end
  | Some nf =>
      if existsb (fun v => leb v r0) (firstn (a_n a) nf) then MInvalid R
      else if match a_tr a with Some t => existsb (fun v => ltb v r0) (firstn (a_n a) t) | None => false end then MInvalid R
      else if negb (en_fvalid env) then MInvalid R
      else if grid_rejected env a then MInvalid R
      else if negb (en_full_s_ok env) then MInvalid R
      else if spline_rejected env a then MInvalid R
      else MSet R (values_at env a nf) (option_map (values_at env a) (a_tr a))
  end.

Definition set_m_error_args (reinit : bool) (env : menv) (fresh : mvec R) (st : option (mvec R)) (a : margs) :=
  set_m_error R r0 reinit fresh st (lower env a).
Definition run_args (reinit : bool) (env : menv) (st : option (mvec R)) (h : list (mvec R * margs)) : option (mvec R) :=
  fold_left (fun s fa => set_m_error_args reinit env (fst fa) s (snd fa)) h st.
(* the return value of every call of a history: true = 0, false = -1 *)
Definition returns (env : menv) (h : list (mvec R * margs)) : list bool :=
  map (fun fa => match lower env (snd fa) with MInvalid _ => false | _ => true end) h.
End Args.
