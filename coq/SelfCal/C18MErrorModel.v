(* vnacal_new_set_m_error (src/vnacal_new_set_m_error.c) as a state machine over calls on ONE
   vnacal_new_t.  No proofs in this file.

   State: vn_m_error_vector, NULL or a vector of vn_frequencies elements
   (vnme_sigma_nf, vnme_sigma_tr).  A call is one of
     MClear         both vectors NULL: "free(vn_m_error_vector); vn_m_error_vector = NULL; return 0"
     MInvalid       any call that fails validation (all the tests precede the first write):
                    "return -1", the state is not touched
     MSet nf tr     sigma_nf_vector given, sigma_tr_vector given or NULL; nf / tr are the VALUES AT
                    THE CALIBRATION FREQUENCIES (the same for the three ways the code obtains them:
                    element 0 for every frequency, element findex, or the spline through the given
                    points -- the interpolation is C10's subject and not modelled here)
   and the code of a successful MSet is, in this order,
     if (m_error_vector == NULL) m_error_vector = malloc(...);       alloc_if_needed: an existing
                                                                      vector is REUSED; a fresh one
                                                                      has arbitrary contents
     for (findex ...) { sigma_nf = 0.0; sigma_tr = 0.0; }             init_vec ("Always init")
     for (findex ...) sigma_nf = <value>;                             write_nf
     if (sigma_tr_vector != NULL) for (findex ...) sigma_tr = <value> write_tr, skipped for NULL
   The boolean reinit selects whether the "always init" loop is there: true is the code; false is
   a model variant (allocation by calloc, no loop) showing what the loop is for. *)
Require Import List.
Import ListNotations.

Section MErr.
Variable R : Type.
Variable r0 : R.                       (* 0.0 *)

Definition mvec := list (R * R).       (* (sigma_nf, sigma_tr) per calibration frequency *)

Inductive mcall :=
| MClear
| MInvalid
| MSet (nf : list R) (tr : option (list R)).

Definition alloc_if_needed (fresh : mvec) (st : option mvec) : mvec :=
  match st with Some v => v | None => fresh end.

Definition init_vec (reinit : bool) (v : mvec) : mvec :=
  if reinit then map (fun _ => (r0, r0)) v else v.

Fixpoint write_nf (v : mvec) (nf : list R) : mvec :=
  match v, nf with
  | (_, t) :: v', x :: nf' => (x, t) :: write_nf v' nf'
  | _, _ => v
  end.

Fixpoint write_tr (v : mvec) (tr : list R) : mvec :=
  match v, tr with
  | (n, _) :: v', x :: tr' => (n, x) :: write_tr v' tr'
  | _, _ => v
  end.

(* one call; fresh is what malloc hands out if the call allocates *)
Definition set_m_error (reinit : bool) (fresh : mvec) (st : option mvec) (c : mcall) : option mvec :=
  match c with
  | MClear => None
  | MInvalid => st
  | MSet nf tr =>
      let v := write_nf (init_vec reinit (alloc_if_needed fresh st)) nf in
      Some (match tr with Some t => write_tr v t | None => v end)
  end.

(* a history of calls, each with the contents malloc would return at that moment *)
Definition run (reinit : bool) (st : option mvec) (h : list (mvec * mcall)) : option mvec :=
  fold_left (fun s fc => set_m_error reinit (fst fc) s (snd fc)) h st.

(* what a single declaration means: sigma_tr NULL is a tracking term of zero *)
Definition declared (F : nat) (nf : list R) (tr : option (list R)) : mvec :=
  combine nf (match tr with Some t => t | None => repeat r0 F end).

(* the state a history should leave: that of its last call that is not invalid *)
Fixpoint last_effective (F : nat) (h : list (mvec * mcall)) (acc : option mvec) : option mvec :=
  match h with
  | [] => acc
  | (_, MClear) :: r => last_effective F r None
  | (_, MInvalid) :: r => last_effective F r acc
  | (_, MSet nf tr) :: r => last_effective F r (Some (declared F nf tr))
  end.

(* shapes: every vector has one element per calibration frequency *)
Definition call_wf (F : nat) (fc : mvec * mcall) : Prop :=
  match snd fc with
  | MSet nf tr => length (fst fc) = F /\ length nf = F /\ match tr with Some t => length t = F | None => True end
  | _ => True
  end.
Definition state_wf (F : nat) (st : option mvec) : Prop :=
  match st with Some v => length v = F | None => True end.
End MErr.
