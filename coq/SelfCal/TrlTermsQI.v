(* SelfCal/TrlTermsModel.v at the Gaussian rationals: the executable rows used by the
   correspondence, and a concrete instance (the boxes e0 / f0 of TrlQI.v) on which every
   hypothesis of trl_terms_t / trl_terms_u holds and the conclusions are also obtained by
   computation (non-vacuity). *)
Require Import QArith Qcanon List.
Import ListNotations.
Require Import LV.Base.CField LV.Base.QcI LV.SelfCal.TrlModel LV.SelfCal.TrlQI LV.SelfCal.TrlTermsModel
        LV.SelfCal.TrlTermsProofs.

Definition q_trl_rows_t := trl_rows_t QIF.
Definition q_trl_rows_u := trl_rows_u QIF.

Definition q_satb (x : list qi) (r : row QIF) : bool := qi_eqb (rdot QIF (fst r) x) (snd r).
Definition m2_eqb (a b : m2 QIF) : bool :=
  qi_eqb (m11 a) (m11 b) && qi_eqb (m12 a) (m12 b) && qi_eqb (m21 a) (m21 b) && qi_eqb (m22 a) (m22 b).

Definition order0 : list skind := [KL; KT; KR].
Definition rows0 := q_trl_rows_t order0 mt0 mr0 ml0 l0 r0.
Definition x0 : list qi := x_of_tbox QIF (tnorm QIF e0).
Definition dut0 : m2 QIF := @M2 QIF (mkqi 1 5 1 4) (mkqi 2 3 (-1) 6) (mkqi (-1) 2 1 7) (mkqi 1 9 2 5).

(* every hypothesis of trl_terms_t holds for e0, l0, r0 and the device dut0 ... *)
Example trl_terms_hyps_satisfiable_t :
  tm1 QIF e0 <> qi0 /\ tm2 QIF e0 <> qi0 /\ tdelta1 QIF e0 <> qi0 /\ tdelta2 QIF e0 <> qi0 /\
  qi_sub (qi_mul l0 l0) qi1 <> qi0 /\ r0 <> qi0 /\
  tdet QIF e0 (s_through QIF) <> qi0 /\ tdet QIF e0 (s_line QIF l0) <> qi0 /\
  tdet QIF e0 (s_reflect QIF r0) <> qi0 /\
  In KT order0 /\ In KR order0 /\ In KL order0 /\
  length x0 = 7%nat /\ (forall row, In row rows0 -> sat QIF x0 row) /\
  tdet QIF e0 dut0 <> qi0 /\ adet_t QIF (tbox_of_x QIF x0) (meas_t QIF e0 dut0) <> qi0.
Proof.
  repeat match goal with |- _ <> _ /\ _ => split; [apply qi_neqb; vm_compute; reflexivity|] end.
  split; [simpl; auto|]. split; [simpl; auto|]. split; [simpl; auto|].
  split; [reflexivity|]. split.
  - assert (H : forallb (q_satb x0) rows0 = true) by (vm_compute; reflexivity).
    rewrite forallb_forall in H. intros row Hin. apply qi_eqb_eq. exact (H row Hin).
  - split; apply qi_neqb; vm_compute; reflexivity.
Qed.

(* ... the system has 10 rows, and the corrected measurement of dut0 is dut0 (by computation) *)
Example trl_terms_instance_t :
  length rows0 = 10%nat /\ m2_eqb (corr_t QIF (tbox_of_x QIF x0) (meas_t QIF e0 dut0)) dut0 = true.
Proof. split; vm_compute; reflexivity. Qed.

(* the U8 instance *)
Definition rows1 := q_trl_rows_u order0 nt0 nr0 nl0 l0 r0.
Definition x1 : list qi := x_of_ubox QIF (unorm QIF f0).

Example trl_terms_hyps_satisfiable_u :
  um1 QIF f0 <> qi0 /\ um2 QIF f0 <> qi0 /\ udelta1 QIF f0 <> qi0 /\ udelta2 QIF f0 <> qi0 /\
  qi_sub (qi_mul l0 l0) qi1 <> qi0 /\ r0 <> qi0 /\
  udet QIF f0 (s_through QIF) <> qi0 /\ udet QIF f0 (s_line QIF l0) <> qi0 /\
  udet QIF f0 (s_reflect QIF r0) <> qi0 /\
  In KT order0 /\ In KR order0 /\ In KL order0 /\
  length x1 = 7%nat /\ (forall row, In row rows1 -> sat QIF x1 row) /\
  udet QIF f0 dut0 <> qi0 /\ adet_u QIF (ubox_of_x QIF x1) (meas_u QIF f0 dut0) <> qi0.
Proof.
  repeat match goal with |- _ <> _ /\ _ => split; [apply qi_neqb; vm_compute; reflexivity|] end.
  split; [simpl; auto|]. split; [simpl; auto|]. split; [simpl; auto|].
  split; [reflexivity|]. split.
  - assert (H : forallb (q_satb x1) rows1 = true) by (vm_compute; reflexivity).
    rewrite forallb_forall in H. intros row Hin. apply qi_eqb_eq. exact (H row Hin).
  - split; apply qi_neqb; vm_compute; reflexivity.
Qed.

Example trl_terms_instance_u :
  length rows1 = 10%nat /\ m2_eqb (corr_u QIF (ubox_of_x QIF x1) (meas_u QIF f0 dut0)) dut0 = true.
Proof. split; vm_compute; reflexivity. Qed.
