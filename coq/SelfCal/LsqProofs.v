(* exact_data_weight_free: on consistent data the weighted least-squares solution does not
   depend on the (non-zero) weights, and its residual is zero. *)
Require Import QArith Qcanon List Field.
Import ListNotations.
Require Import LV.Base.CField LV.SelfCal.LsqModel LV.SelfCal.AutoProofs.
Local Open Scope Qc_scope.

Lemma Qc_add_nonneg a b : 0 <= a -> 0 <= b -> 0 <= a + b.
Proof. intros Ha Hb. replace 0 with (0 + 0) by ring. apply Qcplus_le_compat; assumption. Qed.

Lemma Qc_mul_nonneg a b : 0 <= a -> 0 <= b -> 0 <= a * b.
Proof. intros Ha Hb. replace 0 with (0 * b) by ring. apply Qcmult_le_compat_r; assumption. Qed.

Lemma Qc_add_zero a b : 0 <= a -> 0 <= b -> a + b = 0 -> a = 0 /\ b = 0.
Proof.
  intros Ha Hb H.
  assert (Ha0 : a <= 0).
  { rewrite <- H. replace a with (a + 0) at 1 by ring. apply Qcplus_le_compat; [apply Qcle_refl|exact Hb]. }
  assert (Ea : a = 0) by (apply Qcle_antisym; assumption).
  split; [exact Ea|]. rewrite Ea in H. rewrite <- H. ring.
Qed.

Section P.
Variable K : CField.
Add Field Kf4 : (cth K).
Variable N : K -> Qc.
Hypothesis N_nonneg : forall z, 0 <= N z.
Hypothesis N_zero : forall z, N z = 0 -> z = c0.
Hypothesis N_of_zero : N c0 = 0.

Notation cost := (cost K N).
Notation dot := (dot K).

Lemma cost_nonneg sys x : 0 <= cost sys x.
Proof.
  induction sys as [|[[w row] b] r IH]; simpl; [apply Qcle_refl|].
  apply Qc_add_nonneg; [|exact IH].
  apply Qc_mul_nonneg; [apply Qc_sq_nonneg | apply N_nonneg].
Qed.

Lemma cost_at_truth sys x0 : consistent K sys x0 -> cost sys x0 = 0.
Proof.
  induction sys as [|[[w row] b] r IH]; intros Hc; simpl; [reflexivity|].
  rewrite IH by (intros w' row' b' Hin; apply (Hc w' row' b'); right; exact Hin).
  rewrite (Hc w row b (or_introl eq_refl)).
  replace (csub b b) with (@c0 K) by ring. rewrite N_of_zero. ring.
Qed.

Lemma cost_zero sys x : weights_nonzero K sys -> cost sys x = 0 ->
  forall w row b, In (w, row, b) sys -> dot row x = b.
Proof.
  induction sys as [|[[w row] b] r IH]; intros Hw Hz w' row' b' Hin; simpl in *; [contradiction|].
  destruct (Qc_add_zero _ _ (Qc_mul_nonneg _ _ (Qc_sq_nonneg w) (N_nonneg _)) (cost_nonneg r x) Hz) as (H1 & H2).
  destruct Hin as [E|Hin].
  - inversion E; subst w' row' b'.
    assert (Hwn : w <> 0) by (apply (Hw w row b); left; reflexivity).
    apply Qcmult_integral in H1. destruct H1 as [H1|H1].
    + apply Qcmult_integral in H1. destruct H1; contradiction.
    + apply N_zero in H1. transitivity (cadd (csub (dot row x) b) b); [ring | rewrite H1; ring].
  - apply (IH (fun a b c H => Hw a b c (or_intror H)) H2 w' row' b' Hin).
Qed.

(* For consistent data (A x0 = b), non-zero weights and a coefficient matrix of full column
   rank: x minimises the weighted cost iff x = x0; the minimum is 0. *)
Lemma exact_data_weight_free sys x0 :
  consistent K sys x0 -> weights_nonzero K sys -> injective K sys x0 ->
  cost sys x0 = 0 /\ minimises K N sys x0 /\
  (forall x, length x = length x0 -> minimises K N sys x -> x = x0).
Proof.
  intros Hc Hw Hi. pose proof (cost_at_truth sys x0 Hc) as H0.
  split; [exact H0|]. split.
  - intros y _. rewrite H0. apply cost_nonneg.
  - intros x Hlen Hmin.
    assert (Hz : cost sys x = 0).
    { apply Qcle_antisym; [|apply cost_nonneg]. rewrite <- H0. apply Hmin. symmetry; exact Hlen. }
    apply Hi; [exact Hlen|].
    intros w row b Hin. rewrite (cost_zero sys x Hw Hz w row b Hin). symmetry. exact (Hc w row b Hin).
Qed.

(* the three hypotheses are insensitive to replacing the weights by 1 ... *)
Lemma unweighted_consistent sys x0 : consistent K sys x0 -> consistent K (unweighted K sys) x0.
Proof.
  intros Hc w row b Hin. unfold unweighted in Hin. apply in_map_iff in Hin.
  destruct Hin as ([[w' row'] b'] & E & Hin). simpl in E. inversion E; subst. exact (Hc w' row b Hin).
Qed.
Lemma unweighted_injective sys x0 : injective K sys x0 -> injective K (unweighted K sys) x0.
Proof.
  intros Hi y Hlen Hall. apply Hi; [exact Hlen|]. intros w row b Hin.
  apply (Hall 1 row b). unfold unweighted. apply in_map_iff. exists (w, row, b). split; [reflexivity|exact Hin].
Qed.
Lemma unweighted_nonzero sys : weights_nonzero K (unweighted K sys).
Proof.
  intros w row b Hin. unfold unweighted in Hin. apply in_map_iff in Hin.
  destruct Hin as ([[w' row'] b'] & E & _). simpl in E. inversion E; subst. discriminate.
Qed.

(* ... hence the weighted and the unweighted problem have the same solution set *)
Lemma weighted_equals_unweighted sys x0 x :
  consistent K sys x0 -> weights_nonzero K sys -> injective K sys x0 -> length x = length x0 ->
  (minimises K N sys x <-> minimises K N (unweighted K sys) x).
Proof.
  intros Hc Hw Hi Hlen.
  destruct (exact_data_weight_free sys x0 Hc Hw Hi) as (_ & Hm0 & Hu).
  destruct (exact_data_weight_free (unweighted K sys) x0 (unweighted_consistent _ _ Hc)
              (unweighted_nonzero _) (unweighted_injective _ _ Hi)) as (_ & Hm1 & Hu1).
  split; intros H.
  - rewrite (Hu x Hlen H). exact Hm1.
  - rewrite (Hu1 x Hlen H). exact Hm0.
Qed.
End P.
