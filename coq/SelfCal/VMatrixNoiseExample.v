(* Instances of the noise-grid theorems at concrete numbers (satisfiability of their premises):
   calibration frequencies 10, 20, 25, 30; an own grid of four points 8, 20, 30, 40 with sigma values
   that have curvature (3, 7, 2, 9 and tracking 1, 1/2, 4, 1/3), MIN_DX = 1/1000, after a history that
   contains an earlier accepted call and a rejected one: at the calibration frequencies 20 and 30
   (grid points 1 and 2) the stored vector holds exactly (7, 1/2) and (2, 4). *)
Require Import List ZArith QArith Qcanon.
Import ListNotations.
Require Import LV.Base.QcI LV.Interp.QOrd LV.SelfCal.C18MErrorModel LV.SelfCal.VMatrixNoise.

Definition nz (n : Z) : Qc := qz n.
Definition ex_env : menv Qc :=
  {| en_calf := [nz 10; nz 20; nz 25; nz 30]; en_fvalid := true; en_lo := nz 10; en_hi := nz 30; en_full_s_ok := true;
     en_gaps_ok := q_gaps_ok (qq 1 1000) |}.
Definition ex_fresh : mvec Qc := repeat (nz 77, nz 88) 4.
Definition ex_call : margs Qc :=
  {| a_fv := Some [nz 8; nz 20; nz 30; nz 40]; a_n := 4;
     a_nf := Some [nz 3; nz 7; nz 2; nz 9]; a_tr := Some [nz 1; qq 1 2; nz 4; qq 1 3] |}.
Definition ex_earlier : margs Qc := {| a_fv := None; a_n := 1; a_nf := Some [nz 5]; a_tr := None |}.
Definition ex_rejected : margs Qc := {| a_fv := None; a_n := 1; a_nf := Some [nz 0]; a_tr := None |}.
Definition ex_history := [(ex_fresh, ex_earlier); (ex_fresh, ex_rejected); (ex_fresh, ex_call)].

Definition qc_eqb (a b : Qc) : bool := if Qc_eq_dec a b then true else false.
Definition ex_stored_ok : bool :=
  match q_run_args (qq 1 1000) ex_env None ex_history with
  | Some v => qc_eqb (fst (nth 1 v (0, 0)%Qc)) (nz 7) && qc_eqb (snd (nth 1 v (0, 0)%Qc)) (qq 1 2) &&
              qc_eqb (fst (nth 3 v (0, 0)%Qc)) (nz 2) && qc_eqb (snd (nth 3 v (0, 0)%Qc)) (nz 4) &&
              (* between the knots the value is NOT the chord (curvature): at 25 the chord gives 9/2 *)
              negb (qc_eqb (fst (nth 2 v (0, 0)%Qc)) (qq 9 2))
  | None => false
  end.
Definition ex_accepted : bool :=
  match q_lower (qq 1 1000) ex_env ex_call with MSet _ _ _ => true | _ => false end.

Lemma stored_noise_instance : ex_accepted = true /\ ex_stored_ok = true.
Proof. vm_compute. split; reflexivity. Qed.

(* ---- stored_noise_at_knot APPLIED to the instance: every hypothesis is discharged ---- *)
Require Import Lia LV.Interp.SplineModel LV.SelfCal.C18MErrorProofs LV.SelfCal.VMatrixNoiseProofs.

Definition ex_mdx : Qc := qq 1 1000.
Definition ex_fv : list Qc := [nz 8; nz 20; nz 30; nz 40].
Definition ex_nf : list Qc := [nz 3; nz 7; nz 2; nz 9].
Definition ex_tr : list Qc := [nz 1; qq 1 2; nz 4; qq 1 3].
Definition ex_h : list (mvec Qc * margs Qc) := [(ex_fresh, ex_earlier); (ex_fresh, ex_rejected)].

Lemma ex_mdx_pos : (0 < ex_mdx)%Qc.
Proof. vm_compute. reflexivity. Qed.

Lemma ex_lower_accepts :
  q_lower ex_mdx ex_env ex_call =
  MSet Qc (q_values_at ex_mdx ex_env ex_call ex_nf) (Some (q_values_at ex_mdx ex_env ex_call ex_tr)).
Proof. vm_compute. reflexivity. Qed.

Lemma ex_gaps : forall i : Z, (0 <= i < Z.of_nat (a_n Qc ex_call) - 1)%Z -> (ex_mdx <= gq ex_fv (i + 1) - gq ex_fv i)%Qc.
Proof.
  intros i Hi. cbn in Hi. assert (E : i = 0%Z \/ i = 1%Z \/ i = 2%Z) by lia.
  destruct E as [-> | [-> | ->]]; vm_compute; discriminate.
Qed.

Lemma ex_fresh_ok : fresh_ok Qc ex_env ex_h.
Proof. repeat constructor. Qed.
Lemma ex_n_ge2 : (2 <= a_n Qc ex_call)%nat. Proof. cbn. lia. Qed.
Lemma ex_n_le4 : (a_n Qc ex_call <= 4)%nat. Proof. cbn. lia. Qed.
Lemma ex_tr_len : match a_tr Qc ex_call with Some tr => (a_n Qc ex_call <= length tr)%nat | None => True end.
Proof. cbn. lia. Qed.
Lemma ex_j : (1 < length (en_calf Qc ex_env))%nat. Proof. cbn. lia. Qed.
Lemma ex_k : (0 <= 1 < Z.of_nat (a_n Qc ex_call))%Z. Proof. cbn. lia. Qed.

Theorem stored_noise_at_knot_satisfiable_l :
  exists v, q_run_args ex_mdx ex_env None (ex_h ++ [(ex_fresh, ex_call)]) = Some v /\
            fst (nth 1 v (0, 0)%Qc) = gq ex_nf 1 /\ snd (nth 1 v (0, 0)%Qc) = gq ex_tr 1.
Proof.
  exact (stored_noise_at_knot_l ex_mdx ex_mdx_pos ex_env ex_h None ex_fresh ex_call ex_fv ex_nf _ _ 1%nat 1%Z
           I ex_fresh_ok eq_refl ex_lower_accepts eq_refl eq_refl
           ex_n_ge2 ex_n_le4 ex_n_le4 ex_tr_len ex_gaps ex_j ex_k eq_refl).
Qed.
