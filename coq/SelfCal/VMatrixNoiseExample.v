(* Instances of the noise-grid theorems at concrete numbers (satisfiability of their premises):
   calibration frequencies 10, 20, 25, 30; an own grid of four points 8, 20, 30, 40 with sigma values
   that have curvature (3, 7, 2, 9 and tracking 1, 1/2, 4, 1/3), MIN_DX = 1/1000, after a history that
   contains an earlier accepted call and a rejected one: at the calibration frequencies 20 and 30
   (grid points 1 and 2) the stored vector holds exactly (7, 1/2) and (2, 4). *)
Require Import List ZArith QArith Qcanon.
Import ListNotations.
Require Import LV.Base.QcI LV.Interp.QOrd LV.SelfCal.C18MErrorModel LV.SelfCal.VMatrixNoise.

Definition nz (n : Z) : Qc := qz n.
Definition ex_env : menv Qc :=
  {| en_calf := [nz 10; nz 20; nz 25; nz 30]; en_fvalid := true; en_lo := nz 10; en_hi := nz 30; en_full_s_ok := true |}.
Definition ex_fresh : mvec Qc := repeat (nz 77, nz 88) 4.
Definition ex_call : margs Qc :=
  {| a_fv := Some [nz 8; nz 20; nz 30; nz 40]; a_n := 4;
     a_nf := Some [nz 3; nz 7; nz 2; nz 9]; a_tr := Some [nz 1; qq 1 2; nz 4; qq 1 3] |}.
Definition ex_earlier : margs Qc := {| a_fv := None; a_n := 1; a_nf := Some [nz 5]; a_tr := None |}.
Definition ex_rejected : margs Qc := {| a_fv := None; a_n := 1; a_nf := Some [nz 0]; a_tr := None |}.
Definition ex_history := [(ex_fresh, ex_earlier); (ex_fresh, ex_rejected); (ex_fresh, ex_call)].

Definition qc_eqb (a b : Qc) : bool := if Qc_eq_dec a b then true else false.
Definition ex_stored_ok : bool :=
  match q_run_args (qq 1 1000) ex_env None ex_history with
  | Some v => qc_eqb (fst (nth 1 v (0, 0)%Qc)) (nz 7) && qc_eqb (snd (nth 1 v (0, 0)%Qc)) (qq 1 2) &&
              qc_eqb (fst (nth 3 v (0, 0)%Qc)) (nz 2) && qc_eqb (snd (nth 3 v (0, 0)%Qc)) (nz 4) &&
              (* between the knots the value is NOT the chord (curvature): at 25 the chord gives 9/2 *)
              negb (qc_eqb (fst (nth 2 v (0, 0)%Qc)) (qq 9 2))
  | None => false
  end.
Definition ex_accepted : bool :=
  match q_lower (qq 1 1000) ex_env ex_call with MSet _ _ _ => true | _ => false end.

Lemma stored_noise_instance : ex_accepted = true /\ ex_stored_ok = true.
Proof. vm_compute. split; reflexivity. Qed.
