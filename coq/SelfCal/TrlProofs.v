(* Lemmas about SelfCal/TrlModel.v. *)
Require Import Field.
Require Import LV.Base.CField LV.SelfCal.TrlModel.
Local Open Scope cf_scope.

Section P.
Variable K : CField.
Add Field Kf : (cth K).
Hypothesis H2 : char_ok K.
Notation m2 := (m2 K).

Ltac unf := unfold trl_a, trl_b, trl_n, trl_d, meas_t, meas_u, tdet, udet, s_through, s_line,
  s_reflect, two in *; simpl in *.
Ltac side H := let E := fresh "E" in intro E; apply H; etransitivity; [|exact E]; ring.
(* a factor of the (diagonal) determinant of the reflect standard *)
Ltac side_factor H :=
  let E := fresh "E" in intro E; apply H;
  match goal with |- ?a * ?b - _ = 0 => transitivity (a * b); [ring | rewrite E; ring] end.

(* ---------------- T8 / TE10 ---------------- *)
Lemma trl_line_root_t (e : tbox K) (l : K) :
  tdet K e (s_through K) <> 0 -> tdet K e (s_line K l) <> 0 ->
  let mt := meas_t K e (s_through K) in let ml := meas_t K e (s_line K l) in
  trl_a K mt ml * l * l + trl_b K mt ml * l + trl_a K mt ml = 0.
Proof.
  destruct e; intros Ht Hl; unf. field; repeat split; first [exact H2 | side Ht | side Hl].
Qed.

Lemma trl_reflect_root_t (e : tbox K) (l r : K) :
  tdet K e (s_through K) <> 0 -> tdet K e (s_line K l) <> 0 -> tdet K e (s_reflect K r) <> 0 ->
  let mt := meas_t K e (s_through K) in let ml := meas_t K e (s_line K l) in
  let mr := meas_t K e (s_reflect K r) in
  r * r * trl_d K mt mr ml l = trl_n K mt mr ml l.
Proof.
  destruct e; intros Ht Hl Hr; unf. field; repeat split; first [exact H2 | side Ht | side Hl | side Hr | side_factor Hr].
Qed.

(* ---------------- U8 / UE10 ---------------- *)
Lemma trl_line_root_u (e : ubox K) (l : K) :
  udet K e (s_through K) <> 0 -> udet K e (s_line K l) <> 0 ->
  let mt := meas_u K e (s_through K) in let ml := meas_u K e (s_line K l) in
  trl_a K mt ml * l * l + trl_b K mt ml * l + trl_a K mt ml = 0.
Proof.
  destruct e; intros Ht Hl; unf. field; repeat split; first [exact H2 | side Ht | side Hl].
Qed.

Lemma trl_reflect_root_u (e : ubox K) (l r : K) :
  udet K e (s_through K) <> 0 -> udet K e (s_line K l) <> 0 -> udet K e (s_reflect K r) <> 0 ->
  let mt := meas_u K e (s_through K) in let ml := meas_u K e (s_line K l) in
  let mr := meas_u K e (s_reflect K r) in
  r * r * trl_d K mt mr ml l = trl_n K mt mr ml l.
Proof.
  destruct e; intros Ht Hl Hr; unf. field; repeat split; first [exact H2 | side Ht | side Hl | side Hr | side_factor Hr].
Qed.
End P.

(* ---------------- leakage (TE10 / UE10) ---------------- *)
Section Leak.
Variable K : CField.
Add Field Kf2 : (cth K).
Lemma reflect_offdiag_t (e : tbox K) (r : K) :
  tdet K e (s_reflect K r) <> 0 ->
  m12 (meas_t K e (s_reflect K r)) = 0 /\ m21 (meas_t K e (s_reflect K r)) = 0.
Proof.
  destruct e; unfold meas_t, tdet, s_reflect; simpl; intros H; split; field; split;
    (let E := fresh "E" in intro E; apply H;
     match goal with |- ?a * ?b - _ = 0 => transitivity (a * b); [ring | rewrite E; ring] end).
Qed.
Lemma reflect_offdiag_u (e : ubox K) (r : K) :
  udet K e (s_reflect K r) <> 0 ->
  m12 (meas_u K e (s_reflect K r)) = 0 /\ m21 (meas_u K e (s_reflect K r)) = 0.
Proof.
  destruct e; unfold meas_u, udet, s_reflect; simpl; intros H; split; field; split;
    (let E := fresh "E" in intro E; apply H;
     match goal with |- ?a * ?b - _ = 0 => transitivity (a * b); [ring | rewrite E; ring] end).
Qed.
(* subtracting the reflect's off-diagonal cells from a raw measurement with additive leakage
   gives back the 8-term part, whenever the 8-term part of the reflect has no off-diagonal *)
Lemma leak_removed_exact (m mr : m2 K) (l12 l21 : K) :
  m12 mr = 0 -> m21 mr = 0 ->
  leak_removed K (add_leak K m l12 l21) (add_leak K mr l12 l21) = m.
Proof.
  destruct m, mr; unfold leak_removed, add_leak; simpl; intros -> ->. f_equal; ring.
Qed.
End Leak.

(* ---------------- root selection ---------------- *)
Section Select.
Variable K : CField.
Add Field Kf3 : (cth K).
Hypothesis H2 : char_ok K.
Hypothesis eq_dec : forall x y : K, {x = y} + {x <> y}.
Variable sq : K -> K.
Variable Mag : Type.
Variable mag : K -> Mag.
Variable le_abs : Mag -> Mag -> bool.
(* the order on magnitudes is total *)
Hypothesis le_total : forall x y, le_abs x y = false -> le_abs y x = true.

Lemma mul_zero (x y : K) : x * y = 0 -> x = 0 \/ y = 0.
Proof.
  intros H. destruct (eq_dec x 0) as [E|N]; [left; exact E|right].
  transitivity ((1 / x) * (x * y)); [field; exact N | rewrite H; ring].
Qed.

Lemma mul_nz (x y : K) : x <> 0 -> y <> 0 -> x * y <> 0.
Proof. intros Hx Hy E. apply mul_zero in E. destruct E; contradiction. Qed.

Lemma line_two_roots (a b l : K) :
  a <> 0 ->
  sq (b * b - (two * two) * a * a) * sq (b * b - (two * two) * a * a) = b * b - (two * two) * a * a ->
  a * l * l + b * l + a = 0 ->
  l = trl_u K a b + trl_v K sq a b \/ l = trl_u K a b - trl_v K sq a b.
Proof.
  intros Ha Hs Hroot. unfold trl_u, trl_v, two in *.
  pose proof H2 as Ht. unfold char_ok, two in Ht.
  set (D := b * b - ((1 + 1) * (1 + 1)) * a * a) in *. set (s := sq D) in *.
  assert (Hp : (l - ((- b) / ((1 + 1) * a) + s / ((1 + 1) * a))) *
               (l - ((- b) / ((1 + 1) * a) - s / ((1 + 1) * a))) = 0).
  { transitivity ((a * l * l + b * l + a) / a + (D - s * s) / ((1 + 1) * (1 + 1) * a * a)).
    - unfold D. field. repeat split;
        first [exact Ha | exact Ht | apply mul_nz; first [exact Ha | exact Ht]].
    - rewrite Hs, Hroot. field. repeat split;
        first [exact Ha | exact Ht | apply mul_nz; first [exact Ha | exact Ht]]. }
  apply mul_zero in Hp. destruct Hp as [E|E]; [left|right];
    (transitivity (l - 0); [ring | rewrite <- E; ring]).
Qed.

(* If the guess is strictly closer to the true l than to the other root of the quadratic,
   the selection rule returns the true l. *)
Lemma trl_selects_truth_line (a b l guess : K) :
  a <> 0 ->
  sq (b * b - (two * two) * a * a) * sq (b * b - (two * two) * a * a) = b * b - (two * two) * a * a ->
  a * l * l + b * l + a = 0 ->
  le_abs (mag (trl_u K a b + trl_u K a b - l - guess)) (mag (l - guess)) = false ->
  trl_select_line K sq Mag mag le_abs a b guess = l.
Proof.
  intros Ha Hs Hroot Hc. unfold trl_select_line.
  destruct (line_two_roots a b l Ha Hs Hroot) as [E|E];
    set (u := trl_u K a b) in *; set (v := trl_v K sq a b) in *; clearbody u v; subst l.
  - replace (u + u - (u + v) - guess) with (u - v - guess) in Hc by ring.
    apply le_total in Hc. rewrite Hc. reflexivity.
  - replace (u + u - (u - v) - guess) with (u + v - guess) in Hc by ring.
    rewrite Hc. reflexivity.
Qed.

Lemma reflect_two_roots (q r : K) : sq q * sq q = q -> r * r = q -> r = sq q \/ r = - sq q.
Proof.
  intros Hs Hr.
  assert (Hp : (r - sq q) * (r + sq q) = 0).
  { transitivity (r * r - sq q * sq q); [ring | rewrite Hs, Hr; ring]. }
  apply mul_zero in Hp. destruct Hp as [E|E]; [left|right].
  - transitivity (r - 0); [ring | rewrite <- E; ring].
  - transitivity (0 - sq q); [rewrite <- E; ring | ring].
Qed.

Lemma trl_selects_truth_reflect (n d r guess : K) :
  sq (n / d) * sq (n / d) = n / d ->
  r * r = n / d ->
  le_abs (mag (- r - guess)) (mag (r - guess)) = false ->
  trl_select_reflect K sq Mag mag le_abs n d guess = r.
Proof.
  intros Hs Hr Hc. unfold trl_select_reflect.
  destruct (reflect_two_roots (n / d) r Hs Hr) as [E|E].
  - rewrite <- E. apply le_total in Hc. rewrite Hc. reflexivity.
  - replace (sq (n / d)) with (- r) by (rewrite E; ring).
    replace (- - r) with r by ring. rewrite Hc. reflexivity.
Qed.

(* both together, for data produced by a T8/TE10 (after leakage removal) error box *)
Lemma trl_solve_truth_t (e : tbox K) (l r lguess rguess : K) :
  tdet K e (s_through K) <> 0 -> tdet K e (s_line K l) <> 0 -> tdet K e (s_reflect K r) <> 0 ->
  let mt := meas_t K e (s_through K) in let ml := meas_t K e (s_line K l) in
  let mr := meas_t K e (s_reflect K r) in
  let a := trl_a K mt ml in let b := trl_b K mt ml in
  let n := trl_n K mt mr ml l in let d := trl_d K mt mr ml l in
  a <> 0 -> d <> 0 ->
  sq (b * b - (two * two) * a * a) * sq (b * b - (two * two) * a * a) = b * b - (two * two) * a * a ->
  sq (n / d) * sq (n / d) = n / d ->
  le_abs (mag (trl_u K a b + trl_u K a b - l - lguess)) (mag (l - lguess)) = false ->
  le_abs (mag (- r - rguess)) (mag (r - rguess)) = false ->
  trl_solve K sq Mag mag le_abs mt mr ml lguess rguess = (l, r).
Proof.
  intros Ht Hl Hr mt ml mr a b n d Ha Hd Hs1 Hs2 Hc1 Hc2. unfold trl_solve.
  assert (El : trl_select_line K sq Mag mag le_abs (trl_a K mt ml) (trl_b K mt ml) lguess = l).
  { apply trl_selects_truth_line; try assumption.
    exact (trl_line_root_t K H2 e l Ht Hl). }
  rewrite El. f_equal.
  apply trl_selects_truth_reflect; try assumption.
  pose proof (trl_reflect_root_t K e l r Ht Hl Hr) as Hn. cbv zeta in Hn.
  fold mt ml mr in Hn. fold n d in Hn. fold n d.
  transitivity (r * r * d / d); [field; exact Hd | rewrite Hn; reflexivity].
Qed.

Lemma trl_solve_truth_u (e : ubox K) (l r lguess rguess : K) :
  udet K e (s_through K) <> 0 -> udet K e (s_line K l) <> 0 -> udet K e (s_reflect K r) <> 0 ->
  let mt := meas_u K e (s_through K) in let ml := meas_u K e (s_line K l) in
  let mr := meas_u K e (s_reflect K r) in
  let a := trl_a K mt ml in let b := trl_b K mt ml in
  let n := trl_n K mt mr ml l in let d := trl_d K mt mr ml l in
  a <> 0 -> d <> 0 ->
  sq (b * b - (two * two) * a * a) * sq (b * b - (two * two) * a * a) = b * b - (two * two) * a * a ->
  sq (n / d) * sq (n / d) = n / d ->
  le_abs (mag (trl_u K a b + trl_u K a b - l - lguess)) (mag (l - lguess)) = false ->
  le_abs (mag (- r - rguess)) (mag (r - rguess)) = false ->
  trl_solve K sq Mag mag le_abs mt mr ml lguess rguess = (l, r).
Proof.
  intros Ht Hl Hr mt ml mr a b n d Ha Hd Hs1 Hs2 Hc1 Hc2. unfold trl_solve.
  assert (El : trl_select_line K sq Mag mag le_abs (trl_a K mt ml) (trl_b K mt ml) lguess = l).
  { apply trl_selects_truth_line; try assumption.
    exact (trl_line_root_u K H2 e l Ht Hl). }
  rewrite El. f_equal.
  apply trl_selects_truth_reflect; try assumption.
  pose proof (trl_reflect_root_u K e l r Ht Hl Hr) as Hn. cbv zeta in Hn.
  fold mt ml mr in Hn. fold n d in Hn. fold n d.
  transitivity (r * r * d / d); [field; exact Hd | rewrite Hn; reflexivity].
Qed.
End Select.
