(* Concrete instances of SelfCal/AutoKernelModel.v over Q[i]:
   - a one-port, T8-shaped calibration (error terms ts, ti, tx; M = (ts S + ti) / (tx S + 1)) with
     five known reflects and one unknown reflect, exact measurements: every hypothesis of
     AutoKernelProofs.kernel_fixed_point holds, and the conclusion is also obtained by computation;
   - the same problem started from a wrong guess: ONE UNDAMPED Gauss-Newton step (lambda = 0) with
     the Jacobian the code forms (Kaufman's approximation -Q2^H A'(p) x) does NOT land on the true
     value although the equations are linear in the unknown parameter; nor does the step as coded
     (lambda = marquardt_multiplier * sum_k_squared). *)
Require Import List Arith Lia Bool QArith Qcanon.
Import ListNotations.
Require Import LV.Base.CField LV.Base.QcI LV.Lin.MatL LV.Lin.LuModel LV.Lin.LuPartial LV.Lin.LuQI
               LV.Lin.LsSpec LV.Lin.LsLu LV.Lin.LuQI2.
Require Import LV.Lin.LuGenA LV.Lin.LuProofs LV.Lin.LuNonsing LV.Lin.LuNonsingQI LV.Lin.LsProofs
               LV.Lin.LsLuProofs.
Require Import LV.SelfCal.AutoLoop LV.SelfCal.AutoProofs LV.SelfCal.AutoKernelModel
               LV.SelfCal.AutoKernelProofs.
Local Open Scope nat_scope.

Definition zi (a b : Z) : qi := mkqi a 1 b 1.
Definition qh (a : Z) (d : positive) : qi := mkqi a d 0 1.

(* the equation of a one-port standard with reflection coefficient s measured as m, as the
   iterator of the library presents it (T8, one port):  -s ts - ti + m s tx = -m *)
Definition eq1 (s : scell) (m : qi) : equation :=
  Eqn None [Term true None (Some s) None None (Some 0);
            Term true None None None None (Some 1);
            Term false (Some m) (Some s) None None (Some 2);
            Term true (Some m) None None None None].

(* true error terms ts = 2, ti = 1, tx = 1: m(s) = (2 s + 1) / (s + 1) *)
Definition ex_xs : list qi := [zi 2 0; zi 1 0; zi 1 0].
Definition ex_ps : list qi := [zi 3 0].                 (* the unknown reflect is 3: m = 7/4 *)
Definition ex_pr : problem :=
  Problem 3
    [[eq1 (SKnown (zi 0 0)) (zi 1 0);
      eq1 (SKnown (zi 1 0)) (qh 3 2);
      eq1 (SKnown (zi 2 0)) (qh 5 3);
      eq1 (SUnk 0) (qh 7 4);
      eq1 (SKnown (zi (-2) 0)) (zi 3 0);
      eq1 (SKnown (zi 0 1)) (mkqi 3 2 1 2)]]
    [] 1.

Lemma ex_dims : pr_equations ex_pr = 6 /\ pr_xlen ex_pr = 3 /\ pr_pl ex_pr = 1.
Proof. repeat split. Qed.

Lemma ex_full_rank : full_col_rank 6 3 (a_matrix ex_pr ex_ps).
Proof.
  apply (ls_lu_some_iff_full_rank 6 3 1 (a_matrix ex_pr ex_ps) (b_vector ex_pr ex_ps)).
  eexists. vm_compute. reflexivity.
Qed.

Lemma ex_exact : exact_data ex_pr ex_ps ex_xs.
Proof.
  intros i Hi. change (pr_equations ex_pr) with 6 in Hi.
  do 6 (destruct i as [|i]; [vm_compute; reflexivity|]). lia.
Qed.

Lemma ex_corr : corr_consistent ex_pr ex_ps.
Proof. intros c Hc. destruct Hc. Qed.

(* a 1 x 1 matrix with a nonzero entry has a trivial kernel *)
Lemma kernel_trivial_1 (a : qmat) : mget QIF a 0 0 <> qi0 -> q_kernel_trivial a 1.
Proof.
  intros Hn v Hv k Hk. assert (k = 0) by lia. subst k.
  specialize (Hv 0 ltac:(lia)). cbn [sumf] in Hv.
  set (a00 := mget QIF a 0 0) in *. set (v0 := v 0) in *.
  assert (Hi : qi_mul (qi_inv a00) a00 = qi1) by (apply (Finv_l qi_field); exact Hn).
  assert (Hz : qi_mul a00 v0 = qi0).
  { change (qi_add qi0 (qi_mul a00 v0) = qi0) in Hv. rewrite <- Hv. apply qi_eq; simpl; ring. }
  change (v0 = qi0).
  transitivity (qi_mul (qi_mul (qi_inv a00) a00) v0); [rewrite Hi; apply qi_eq; simpl; ring|].
  transitivity (qi_mul (qi_inv a00) (qi_mul a00 v0)); [apply qi_eq; simpl; ring|].
  rewrite Hz. apply qi_eq; simpl; ring.
Qed.

Definition piv00 (pd : passdata) : bool := qi_eqb (mget QIF (j1_matrix 1 (pd_jtj pd) 0%Qc) 0 0) qi0.

Lemma piv00_spec pd : piv00 pd = false -> q_kernel_trivial (j1_matrix 1 (pd_jtj pd) 0%Qc) 1.
Proof. intros E. apply kernel_trivial_1. apply qi_neqb. exact E. Qed.

Lemma ex_j1_nonsingular pd : kernel_pass ex_pr ex_ps = Some pd ->
  q_kernel_trivial (j1_matrix (pr_pl ex_pr) (pd_jtj pd) 0%Qc) (pr_pl ex_pr).
Proof.
  intros H. change (pr_pl ex_pr) with 1. apply piv00_spec.
  assert (E : option_map piv00 (kernel_pass ex_pr ex_ps) = Some false) by (vm_compute; reflexivity).
  rewrite H in E. cbn [option_map] in E. injection E as E. exact E.
Qed.

(* every hypothesis of kernel_fixed_point holds for this instance; hence its conclusion *)
Theorem kernel_fixed_point_instance ptol ettol limit :
  kernel_run ex_pr ptol ettol limit ex_ps = (Converged ex_xs ex_ps, [Entry true 1%Qc 0%Qc true]).
Proof.
  destruct (kernel_fixed_point ex_pr ptol ettol limit ex_ps ex_xs eq_refl eq_refl
              ltac:(discriminate) ltac:(discriminate) ex_full_rank ex_exact ex_corr ex_j1_nonsingular)
    as (pd & _ & _ & _ & _ & _ & H).
  exact H.
Qed.

(* the same by computation, for one choice of tolerances and limit (values compared with the
   decidable equality of Q[i]: Qc carries a canonicity proof) *)
Fixpoint qil_eqb (a b : list qi) : bool :=
  match a, b with
  | [], [] => true
  | x :: a', y :: b' => qi_eqb x y && qil_eqb a' b'
  | _, _ => false
  end.

Example kernel_fixed_point_computed :
  match kernel_run ex_pr (Q2Qc (1 # 1000)) (Q2Qc (1 # 1000)) 30 ex_ps with
  | (Converged x p, [e]) => qil_eqb x ex_xs && qil_eqb p ex_ps && e_best e && e_converged e
  | _ => false
  end = true.
Proof. vm_compute. reflexivity. Qed.

(* ---------- one Gauss-Newton step on a problem that is linear in p ---------- *)
(* undamped step: p - (J^H J)^-1 J^H k with J, k as the code forms them *)
Definition gn_step (pr : problem) (p : list qi) : option (list qi) :=
  match kernel_pass pr p with
  | Some pd => match kernel_step (pr_pl pr) (pd_jtj pd) (pd_jtk pd) 0%Qc with
               | Some d => Some (apply_d p d)
               | None => None
               end
  | None => None
  end.
(* the step of the first pass as coded: marquardt_multiplier = 1, lambda = sum_k_squared *)
Definition lm_first_step (pr : problem) (p : list qi) : option (list qi) :=
  match kernel_pass pr p with
  | Some pd => match kernel_step (pr_pl pr) (pd_jtj pd) (pd_jtk pd) (pd_sumk pd) with
               | Some d => Some (apply_d p d)
               | None => None
               end
  | None => None
  end.

Definition ex_guess : list qi := [zi 2 0].

(* (the unknown parameter enters a_matrix through one s cell of one standard, in the two terms
   -s ts and m s tx of that standard's equation: A(p) = A0 + p A1) *)
Theorem gn_one_step_linear_refuted :
  exists pr ps xs p0 p1,
    exact_data pr ps xs /\ full_col_rank (pr_equations pr) (pr_xlen pr) (a_matrix pr ps) /\
    pr_pl pr = 1 /\ gn_step pr p0 = Some p1 /\ p1 <> ps /\
    (exists p2, lm_first_step pr p0 = Some p2 /\ p2 <> ps).
Proof.
  exists ex_pr, ex_ps, ex_xs, ex_guess.
  eexists. split; [exact ex_exact|]. split; [exact ex_full_rank|]. split; [reflexivity|].
  split; [vm_compute; reflexivity|]. split; [vm_compute; discriminate|].
  eexists. split; [vm_compute; reflexivity|]. vm_compute. discriminate.
Qed.
