(* Vocabulary of the exact-data theorems about VMatrixModel (no proofs in this file).

   An equation of the V form is  sum_k R[r][k] V[k][c]  with R the residual matrix of the standard
   (-Ts S - Ti + M Tx S + M Tm, or the U form): the terms with the same vnt_v_cell make up one entry
   R[r][k].  "The measurements of the standard are exact for x" is therefore stated on the term
   lists as they are: for every v_cell, the terms carrying it sum to zero at x (WITHOUT the V factor
   and without the weight).  group_exactb is the executable form the check evaluates on the term
   lists dumped from the library.  reach: the V states a solve at the truth can go through. *)
Require Import List Arith Bool QArith Qcanon.
Import ListNotations.
Require Import LV.Base.CField LV.SelfCal.PvalueModel LV.SelfCal.GuardModel LV.SelfCal.LsqModel LV.SelfCal.VMatrixModel.
Local Open Scope nat_scope.

Section EO.
Variable K : CField.
Variable N : K -> Qc.
Variable rsqrt : Qc -> Qc.
Variable ofq : Qc -> K.
Variable minv : nat -> list K -> option (list K).

Fixpoint ksum (l : list K) : K := match l with [] => c0 | a :: r => cadd a (ksum r) end.

(* the contribution of one term to (row . x - b), V factor and weight left out *)
Definition term_res (sd : vstd K) (x : list K) (t : vterm) : K :=
  let c := term_coef K ofq sd None None t in
  match vt_x t with Some i => cmul c (nth i x c0) | None => copp c end.
Definition group_res (sd : vstd K) (x : list K) (ts : list vterm) (c : nat) : K :=
  ksum (map (term_res sd x) (filter (fun t => Nat.eqb (vt_v t) c) ts)).

(* the equation's standard measured exactly what x predicts *)
Definition eq_exact (p : vprob K) (x : list K) (e : veq) : Prop :=
  forall c, group_res (std_of K p e) x (ve_terms e) c = c0.
(* shape: every xindex addresses an unknown *)
Definition eq_wf (p : vprob K) (e : veq) : Prop :=
  forall t i, In t (ve_terms e) -> vt_x t = Some i -> i < vp_unknowns p.

(* all systems: xs = the solution, one block per system *)
Definition data_exact (p : vprob K) (xs : list (list K)) : Prop :=
  forall s es e, nth_error (vp_systems p) s = Some es -> In e es ->
  eq_wf p e /\ eq_exact p (nth s xs []) e.
Definition blocks_wf (p : vprob K) (xs : list (list K)) : Prop :=
  length xs = length (vp_systems p) /\ forall x, In x xs -> length x = vp_unknowns p.

(* executable forms *)
Variable eqb0 : K -> bool.
Definition eq_exactb (p : vprob K) (x : list K) (e : veq) : bool :=
  forallb (fun c => eqb0 (group_res (std_of K p e) x (ve_terms e) c)) (map vt_v (ve_terms e)).
Definition eq_wfb (p : vprob K) (e : veq) : bool :=
  forallb (fun t => match vt_x t with Some i => Nat.ltb i (vp_unknowns p) | None => true end) (ve_terms e).

(* the rows handed to the solver as a least-squares problem (weights already inside the rows) *)
Definition sys_of (rows : list (list K * K)) : list (eqn K) := map (fun ab => (1%Qc, fst ab, snd ab)) rows.

(* the V states of a solve whose every pass returns the truth *)
Inductive reach (p : vprob K) (xs : list (list K)) (st0 : vstate K) : vstate K -> Prop :=
| reach_start : reach p xs st0 st0
| reach_update st s st' : reach p xs st0 st -> s < length (vp_systems p) ->
    update_v_matrices K minv p s (nth s xs []) (vp_stds p) st = Some st' -> reach p xs st0 st'.

(* w_offset when the loop of _vnacal_new_solve_simple reaches system s: the equations of the systems before it *)
Definition woff_of (p : vprob K) (s : nat) : nat := length (concat (firstn s (vp_systems p))).
(* full column rank of every coefficient matrix such a solve builds (with the w_offset the code uses:
   for an offset beyond the weight vector every weight read would be the default 0) *)
Definition full_rank_on (p : vprob K) (xs : list (list K)) (ws : option (list Qc)) (st0 : vstate K) : Prop :=
  forall st s es, reach p xs st0 st -> nth_error (vp_systems p) s = Some es ->
  injective K (sys_of (build_eqs K ofq p st s ws (woff_of p s) es)) (nth s xs []).
(* the V update at the truth succeeds: (Tx S + Tm) / (Um - S Ux) of every standard is invertible *)
Definition v_regular (p : vprob K) (xs : list (list K)) : Prop :=
  forall s sd, s < length (vp_systems p) -> In sd (vp_stds p) ->
  minv (v_n K p) (vi_matrix K p s sd (nth s xs [])) <> None.

(* what is assumed of a linear solver: an answer has the right length and minimises; on a
   coefficient matrix of full column rank there is an answer *)
Definition solver_spec (solve : nat -> list (list K) -> list K -> option (list K)) : Prop :=
  (forall u A b x, solve u A b = Some x ->
     length x = u /\ minimises K N (sys_of (combine A b)) x) /\
  (forall u A b x0, length A = length b -> length x0 = u -> injective K (sys_of (combine A b)) x0 ->
     solve u A b <> None).
(* the weaker solver premise the fixed-point theorem really uses: on the coefficient matrices of THIS
   solve (reachable V states, the code's w_offset), a consistent system of full column rank is answered
   by its solution.  solver_spec for both routines implies it (ExactOverProofs.solver_spec_exact_on). *)
Variables solve_sq solve_ls : nat -> list (list K) -> list K -> option (list K).
Definition solver_exact_on (p : vprob K) (xs : list (list K)) (ws : option (list Qc)) (st0 : vstate K) : Prop :=
  forall st s es x0, reach p xs st0 st -> nth_error (vp_systems p) s = Some es ->
  let rows := build_eqs K ofq p st s ws (woff_of p s) es in
  length x0 = vp_unknowns p -> consistent K (sys_of rows) x0 -> injective K (sys_of rows) x0 ->
  solve_rows K solve_sq solve_ls (vp_unknowns p) rows = Some x0.
End EO.
