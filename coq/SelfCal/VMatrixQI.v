(* VMatrixModel at the Gaussian rationals: the linear-algebra Section variables instantiated with the
   executable routines of coq/Lin (no proofs in this file).
     q_minv       exact inverse by Gauss-Jordan on [vi | I] (LsSpec.gj_solve); None iff singular
     q_solve_sq   LuModel.mldivide, None when the determinant is zero
     q_solve_ls   the least-squares oracle on the normal equations (LsLu.ls_lu), None when rank deficient
     tab_rsqrt    1/sqrt answered from a table supplied by the caller
     tab_minv     the inverse answered from a table (the white-box replay: the caller inverts) *)
Require Import List ZArith QArith Qcanon.
Import ListNotations.
Require Import LV.Base.CField LV.Base.QcI LV.Lin.MatL LV.Lin.LuModel LV.Lin.LuQI LV.Lin.LuQI2 LV.Lin.LsSpec.
Require Import LV.SelfCal.PvalueModel LV.SelfCal.GuardModel LV.SelfCal.VMatrixModel.

Definition q_minv (n : nat) (l : list qi) : option (list qi) :=
  match gj_solve QIF qi_isz n n (munflat QIF n n l) (mident QIF n) with
  | Some r => Some (mflat QIF r)
  | None => None
  end.
Definition q_solve_sq (u : nat) (a : list (list qi)) (b : list qi) : option (list qi) :=
  let r := q2_mldivide_recip a (map (fun v => [v]) b) u 1 in
  if qi_isz (snd r) then None else Some (map (fun row => hd qi0 row) (fst r)).
Definition q_solve_ls (u : nat) (a : list (list qi)) (b : list qi) : option (list qi) :=
  match q2_ls_lu (length a) u 1 a (map (fun v => [v]) b) with
  | Some x => Some (map (fun row => hd qi0 row) x)
  | None => None
  end.
Definition tab_rsqrt (tab : list (Qc * Qc)) (a : Qc) : Qc :=
  match find (fun kv => if Qc_eq_dec (fst kv) a then true else false) tab with
  | Some kv => snd kv
  | None => 0%Qc
  end.
Definition qi_list_eqb (a b : list qi) : bool :=
  Nat.eqb (length a) (length b) && forallb (fun xy => qi_eqb (fst xy) (snd xy)) (combine a b).
Definition tab_minv (tab : list (list qi * option (list qi))) (n : nat) (l : list qi) : option (list qi) :=
  match find (fun kv => qi_list_eqb (fst kv) l) tab with
  | Some kv => snd kv
  | None => None
  end.

Definition q_solve_frequencies (rsqrt : Qc -> Qc) :=
  solve_frequencies QIF qi_nrm rsqrt qi_of_Qc q_minv q_solve_sq q_solve_ls.
Definition q_solve_frequency (rsqrt : Qc -> Qc) :=
  solve_frequency QIF qi_nrm rsqrt qi_of_Qc q_minv q_solve_sq q_solve_ls.
Definition q_plain_systems := plain_systems QIF qi_of_Qc q_solve_sq q_solve_ls.
