(* The projector identity (AutoKernelProjector.v) instantiated at the Gaussian rationals and
   connected to the executable model: whatever functions stand for sqrt() and cexp(I carg .) in
   the Householder model of _vnacommon_qrd -- provided the run on A meets the law instances
   QrProofs.run_laws (sqrt s * sqrt s = s etc. at the arguments met) -- the products with Q2 that
   _vnacal_new_solve_auto forms from the Q of _vnacommon_qr are the entries
   AutoKernelModel.kernel_pass computes from [project]:
       (W^H (y - A z))(a, c) = sum_k conj((Q2^H W_a)(k)) (Q2^H y_c)(k)
   for every m >= n, every full-column-rank A (m x n), every y (m x o) and W (m x r). *)
Require Import List Arith Lia Bool QArith Qcanon.
Import ListNotations.
Require Import LV.Base.CField LV.Base.QcI LV.Lin.MatL LV.Lin.LuQI2 LV.Lin.LsSpec LV.Lin.LuGenA.
Require Import LV.Lin.LsProofs LV.Lin.LsLuProofs.
Require Import LV.Lin.QrModel LV.Lin.QrAlg LV.Lin.QrProofs LV.Lin.QrTheorems LV.Lin.QrQI LV.Lin.QrQIProofs.
Require Import LV.SelfCal.AutoKernelModel LV.SelfCal.AutoKernelQrQ LV.SelfCal.AutoKernelProjector.
Local Open Scope nat_scope.

Section QI.
Variables nrm phase : qi -> qi.

(* the Q of _vnacommon_qr for the run on a *)
Definition code_q (m n : nat) (a : qmat) : qmat :=
  qr_formq QIF m n (qr_a QIF (qrd QIF nrm phase qi_isz0 m n a)).

Theorem project_is_q2_projector m n o r (a y py w : qmat) :
  wf m n a -> n <= m -> run_laws QIF nrm phase qi_isz0 m n a n -> full_col_rank m n a ->
  project m n o a y = Some py ->
  forall i c, i < r -> c < o ->
    mget QIF (mmul QIF r m o (mherm QIF m r w) py) i c =
    q2_gram QIF m n (code_q m n a) (fun e => mget QIF w e i) (fun e => mget QIF y e c).
Proof.
  intros Hw Hnm HL Hf Hp i c Hi Hc.
  unfold project in Hp. destruct (q2_ls_lu m n o a y) as [z|] eqn:Ez; [|discriminate].
  injection Hp as <-.
  pose proof (normal_eq_fun m n o a y z (ls_lu_sound m n o a y z Ez)) as NE.
  destruct qif_field_laws as (L0 & L1 & La & Lm & Lc & L2 & Ls & Lz).
  unfold code_q.
  rewrite (q2_gram_projector QIF L0 L1 La Lm Lc L2 Ls nrm phase qi_isz0 Lz m n a
             (fun e => mget QIF w e i) (fun e => mget QIF y e c) (fun t => mget QIF z t c) Hw Hnm HL Hf).
  2:{ intros j Hj. exact (NE j c Hj Hc). }
  rewrite mget_mmul by auto. apply sumf_ext. intros e He.
  unfold mherm, msub. rewrite !mget_mbuild by auto. rewrite mget_mmul by auto. reflexivity.
Qed.
End QI.

(* every hypothesis is met by the 3 x 2 matrix of Lin/QrQIProofs.v (columns (7,24,0), (-7,1,24): the
   Householder run meets rational square roots only), and both sides, computed independently --
   the left one by the exact model, the right one through the model of _vnacommon_qrd, the Q-forming
   loop and the Q2^H accumulation of solve_auto -- agree *)
Definition ex_y : qmat := [[mkqi 1 1 0 1]; [mkqi 2 1 1 1]; [mkqi 3 1 0 1]].

Example project_is_q2_projector_instance :
  wf 3 2 ex_qr_a /\ run_laws QIF qi_sqrt qi_phase qi_isz0 3 2 ex_qr_a 2 /\ full_col_rank 3 2 ex_qr_a /\
  match project 3 2 1 ex_qr_a ex_y with
  | Some py =>
      qi_eqb (mget QIF (mmul QIF 1 3 1 (mherm QIF 3 1 ex_y) py) 0 0)
             (q2_gram QIF 3 2 (code_q qi_sqrt qi_phase 3 2 ex_qr_a) (fun e => mget QIF ex_y e 0) (fun e => mget QIF ex_y e 0))
      && negb (qi_eqb (mget QIF (mmul QIF 1 3 1 (mherm QIF 3 1 ex_y) py) 0 0) qi0)
  | None => false
  end = true.
Proof.
  split; [exact ex_qr_a_wf|]. split; [exact (qq_run_lawsb_sound 3 2 ex_qr_a ex_qr_a_laws)|].
  split; [exact ex_qr_a_full_rank|]. vm_compute. reflexivity.
Qed.
