(* Three pointer walks of the solver over structures with optional (NULL) parts, modelled with
   checked memory: every read of a vector element is a [nth_error] (out of bounds = fault), every
   dereference of a pointer is a match on an [option] (NULL = fault), offsets and indices are
   computed as the C code computes them.  No proofs in this file.

   1. _vnacal_new_solve_update_s_matrices (vnacal_new_solve.c): patches vnmm_s_matrix of every
      standard with the current values of the unknown parameters;
   2. save_v_matrices / restore_v_matrices (vnacal_new_solve_auto.c): copy the V matrices of all
      standards and systems into / out of one flat buffer with a running offset;
   3. the part of _vnacal_new_solve_init that decides which V matrices exist. *)
Require Import List Arith Bool.
Import ListNotations.

Inductive mres (A : Type) := MOk (a : A) | MNull | MOob.
Arguments MOk {A}. Arguments MNull {A}. Arguments MOob {A}.
Definition mbind {A B} (r : mres A) (f : A -> mres B) : mres B :=
  match r with MOk a => f a | MNull => MNull | MOob => MOob end.

(* v[i] of a vector with [length v] allocated elements *)
Definition rd {A} (v : list A) (i : nat) : mres A :=
  match nth_error v i with Some a => MOk a | None => MOob end.
Fixpoint upd {A} (v : list A) (i : nat) (a : A) : list A :=
  match v, i with
  | [], _ => []
  | _ :: r, 0 => a :: r
  | x :: r, S j => x :: upd r j a
  end.
Definition wr {A} (v : list A) (i : nat) (a : A) : mres (list A) :=
  if i <? length v then MOk (upd v i a) else MOob.

(* ======================================================================= 1. update_s_matrices *)
Section UpdateS.
Variable V : Type.

(* vnacal_new_parameter_t as far as this function reads it: vnpr_unknown (true for unknown and
   correlated parameters) and vnpr_unknown_index *)
Record sparam := SParam { sp_unknown : bool; sp_uindex : nat }.
(* a measured standard: vnm_s_matrix (pointers, NULL where the caller gave nothing) and the
   solver's vnmm_s_matrix (values) *)
Record sstd := SStd { ss_cells : list (option sparam); ss_vals : list V }.

Variables s_rows s_columns : nat.
Variable p_vector : list (list V).       (* vnss_p_vector[uindex][findex] *)
Variable findex : nat.

(* "for s_row < s_rows, for s_column < s_columns: s_cell = s_row * s_columns + s_column" *)
Definition cell_indices : list nat :=
  flat_map (fun r => map (fun c => r * s_columns + c) (seq 0 s_columns)) (seq 0 s_rows).

(* body of the inner loop as it is now:
     vnprp = vnmp->vnm_s_matrix[s_cell];
     if (vnprp != NULL && vnprp->vnpr_unknown) { uindex = vnprp->vnpr_unknown_index;
                                                 s_matrix[s_cell] = p_vector[uindex][findex]; } *)
Definition update_cell (cells : list (option sparam)) (vals : list V) (k : nat) : mres (list V) :=
  mbind (rd cells k) (fun c =>
  match c with
  | None => MOk vals
  | Some p => if sp_unknown p then
                mbind (rd p_vector (sp_uindex p)) (fun pv =>
                mbind (rd pv findex) (fun v => wr vals k v))
              else MOk vals
  end).

(* the body as it was before fix D19: "uindex = vnprp->vnpr_unknown_index;" in front of the test *)
Definition update_cell_before_D19 (cells : list (option sparam)) (vals : list V) (k : nat) : mres (list V) :=
  mbind (rd cells k) (fun c =>
  match c with
  | None => MNull
  | Some p => if sp_unknown p then
                mbind (rd p_vector (sp_uindex p)) (fun pv =>
                mbind (rd pv findex) (fun v => wr vals k v))
              else MOk vals
  end).

Section Walk.
Variable body : list (option sparam) -> list V -> nat -> mres (list V).
Fixpoint walk_cells (cells : list (option sparam)) (ks : list nat) (vals : list V) : mres (list V) :=
  match ks with
  | [] => MOk vals
  | k :: r => mbind (body cells vals k) (walk_cells cells r)
  end.
Definition update_std (s : sstd) : mres sstd :=
  mbind (walk_cells (ss_cells s) cell_indices (ss_vals s)) (fun v => MOk (SStd (ss_cells s) v)).
Fixpoint update_all (stds : list sstd) : mres (list sstd) :=
  match stds with
  | [] => MOk []
  | s :: r => mbind (update_std s) (fun s' => mbind (update_all r) (fun r' => MOk (s' :: r')))
  end.
End Walk.

Definition update_s_matrices := update_all update_cell.
Definition update_s_matrices_before_D19 := update_all update_cell_before_D19.

(* what the allocation sites guarantee (vnacal_new_add_common.c: calloc(full_s_rows * full_s_columns)
   pointers; _vnacal_new_solve_init: calloc(s_rows * s_columns) values, vn_unknown_parameters vectors
   of vn_frequencies values; unknown indices are handed out consecutively below vn_unknown_parameters) *)
Definition wf_std (s : sstd) : Prop :=
  length (ss_cells s) = s_rows * s_columns /\ length (ss_vals s) = s_rows * s_columns /\
  forall p, In (Some p) (ss_cells s) -> sp_unknown p = true -> sp_uindex p < length p_vector.
Definition wf_p : Prop := forall pv, In pv p_vector -> findex < length pv.

(* the value cell k must hold afterwards *)
Definition expected (v0 : V) (s : sstd) (k : nat) : V :=
  match nth k (ss_cells s) None with
  | Some p => if sp_unknown p then nth findex (nth (sp_uindex p) p_vector []) v0 else nth k (ss_vals s) v0
  | None => nth k (ss_vals s) v0
  end.
End UpdateS.

(* ======================================================================= 2. V matrices *)
Section VMat.
Variable V : Type.

Definition vmat := list V.                          (* v_rows * v_columns values *)
(* vnsm_v_matrices of one standard: NULL, or a vector of vn_systems pointers each NULL or a matrix *)
Definition vvec := option (list (option vmat)).

Variables systems v_cells : nat.

(* memcpy(&buf[off], p, v_cells * sizeof) / memcpy(p, &buf[off], v_cells * sizeof) *)
Definition copy_in (buf : list V) (off : nat) (p : vmat) : mres (list V) :=
  if (v_cells <=? length p) && (off + v_cells <=? length buf)
  then MOk (firstn off buf ++ firstn v_cells p ++ skipn (off + v_cells) buf) else MOob.
Definition copy_out (buf : list V) (off : nat) (p : vmat) : mres vmat :=
  if (v_cells <=? length p) && (off + v_cells <=? length buf)
  then MOk (firstn v_cells (skipn off buf) ++ skipn v_cells p) else MOob.

(* "for (sindex = 0; sindex < vn_systems; ++sindex) if (v[sindex] != NULL) { memcpy; offset += v_cells; }" *)
Fixpoint save_loop (idxs : list nat) (vs : list (option vmat)) (st : list V * nat) : mres (list V * nat) :=
  match idxs with
  | [] => MOk st
  | i :: r =>
    mbind (rd vs i) (fun e =>
    match e with
    | None => save_loop r vs st
    | Some p => mbind (copy_in (fst st) (snd st) p) (fun b => save_loop r vs (b, snd st + v_cells))
    end)
  end.

(* one standard, as it is now: "if (vnmmp->vnsm_v_matrices == NULL) continue;" *)
Definition save_std (vv : vvec) (st : list V * nat) : mres (list V * nat) :=
  match vv with
  | None => MOk st
  | Some vs => save_loop (seq 0 systems) vs st
  end.
(* as it was before fix D38: the test was "if (vnmmp == NULL) continue;" (never true), the loop
   then indexed the NULL vector *)
Definition save_std_before_D38 (vv : vvec) (st : list V * nat) : mres (list V * nat) :=
  match vv with
  | None => if systems =? 0 then MOk st else MNull
  | Some vs => save_loop (seq 0 systems) vs st
  end.

Section SaveAll.
Variable one : vvec -> list V * nat -> mres (list V * nat).
Fixpoint save_all (stds : list vvec) (st : list V * nat) : mres (list V * nat) :=
  match stds with
  | [] => MOk st
  | vv :: r => mbind (one vv st) (save_all r)
  end.
End SaveAll.

(* save_v_matrices(vnssp, buf): offset starts at 0 *)
Definition save_v_matrices (stds : list vvec) (buf : list V) : mres (list V) :=
  mbind (save_all save_std stds (buf, 0)) (fun st => MOk (fst st)).
Definition save_v_matrices_before_D38 (stds : list vvec) (buf : list V) : mres (list V) :=
  mbind (save_all save_std_before_D38 stds (buf, 0)) (fun st => MOk (fst st)).

(* restore: the same walk, copying out of the buffer into the matrices that exist now *)
Fixpoint restore_loop (buf : list V) (idxs : list nat) (vs : list (option vmat)) (off : nat)
  : mres (list (option vmat) * nat) :=
  match idxs with
  | [] => MOk (vs, off)
  | i :: r =>
    mbind (rd vs i) (fun e =>
    match e with
    | None => restore_loop buf r vs off
    | Some p => mbind (copy_out buf off p) (fun p' =>
                mbind (wr vs i (Some p')) (fun vs' => restore_loop buf r vs' (off + v_cells)))
    end)
  end.
Definition restore_std (buf : list V) (vv : vvec) (off : nat) : mres (vvec * nat) :=
  match vv with
  | None => MOk (None, off)
  | Some vs => mbind (restore_loop buf (seq 0 systems) vs off) (fun r => MOk (Some (fst r), snd r))
  end.
Fixpoint restore_all (buf : list V) (stds : list vvec) (off : nat) : mres (list vvec * nat) :=
  match stds with
  | [] => MOk ([], off)
  | vv :: r => mbind (restore_std buf vv off) (fun a =>
               mbind (restore_all buf r (snd a)) (fun b => MOk (fst a :: fst b, snd b)))
  end.
Definition restore_v_matrices (stds : list vvec) (buf : list V) : mres (list vvec) :=
  mbind (restore_all buf stds 0) (fun r => MOk (fst r)).

(* ---- 3. which V matrices exist: _vnacal_new_solve_init, for every standard alike ----
     if (vn_max_equations > vl_t_terms - 1 && vn_m_error_vector != NULL) {
         vnsm_v_matrices = calloc(vn_systems);
         for sindex: if (vns_equation_count > vl_t_terms - 1) v[sindex] = calloc(v_rows * v_columns); } *)
Variable v0 : V.                                   (* 0.0 from calloc *)
Definition init_vvec (m_error : bool) (unknowns_per_system : nat) (eq_counts : list nat) : vvec :=
  if (unknowns_per_system <? fold_right Nat.max 0 eq_counts) && m_error
  then Some (map (fun c => if unknowns_per_system <? c then Some (repeat v0 v_cells) else None) eq_counts)
  else None.

(* what the allocation sites guarantee *)
Definition wf_vvec (vv : vvec) : Prop :=
  match vv with
  | None => True
  | Some vs => length vs = systems /\ forall p, In (Some p) vs -> length p = v_cells
  end.
(* two states of the same standards: the same pointers are NULL *)
Definition same_shape_vec (a b : list (option vmat)) : Prop :=
  Forall2 (fun x y => match x, y with None, None => True | Some _, Some _ => True | _, _ => False end) a b.
Definition same_shape (a b : vvec) : Prop :=
  match a, b with
  | None, None => True
  | Some x, Some y => same_shape_vec x y
  | _, _ => False
  end.
End VMat.
