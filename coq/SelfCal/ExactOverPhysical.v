(* PHYSICAL EXACTNESS for T8 / TE10 and U8 / UE10, dimensions 1 x 1 and 2 x 2 (the bound is in the
   statements): measurements produced by an error network of the type,
       T:  M (Tx S + Tm) = Ts S + Ti          (tm11 = 1)
       U:  Um M + Ui = S (Ux M + Us)          (um11 = 1)
   (the documented equations of the two families, entrywise, no inverse), satisfy the exactness
   premise of the exact-data theorems (ExactOverModel.eq_exact: for every v_cell the terms carrying it
   sum to zero) on the term lists vnacal_new_build_equation_terms.c builds (VMatrixModel.build_terms_t8 /
   build_terms_u8, tied to the library on every run), for EVERY connectivity pattern and EVERY pattern of
   S cells entered as the zero parameter (whose value is 0).  Proved by case analysis over the
   patterns and the v_cells; every case is a ring identity from one entry of the relation. *)
Require Import List Arith Bool QArith Qcanon Lia.
Import ListNotations.
Require Import LV.Base.CField LV.SelfCal.VMatrixModel LV.SelfCal.ExactOverModel.
Local Open Scope nat_scope.

Section Ph.
Variable K : CField.
Add Field Kf_ph : (cth K).
Variable ofq : Qc -> K.

Definition xg (l : list K) (i : nat) : K := nth i l c0.
(* M (Tx S + Tm) = Ts S + Ti, entry (r, k); x = ts (n), ti (n), tx (n), tm (n - 1), tm11 = 1 *)
Definition t8_relation (n : nat) (m s x : list K) : Prop :=
  forall r k, r < n -> k < n ->
  ksum K (map (fun d => cmul (xg m (r * n + d))
                            (cadd (cmul (xg x (n + n + d)) (xg s (d * n + k)))
                                  (if Nat.eqb d k then (if Nat.eqb d 0 then c1 else xg x (n + n + n + d - 1)) else c0)))
              (seq 0 n)) =
  cadd (cmul (xg x r) (xg s (r * n + k))) (if Nat.eqb r k then xg x (n + r) else c0).
(* Um M + Ui = S (Ux M + Us), entry (k, c); x = um (n - 1), ui (n), ux (n), us (n), um11 = 1 *)
Definition u8_relation (n : nat) (m s x : list K) : Prop :=
  forall k c, k < n -> c < n ->
  cadd (cmul (if Nat.eqb k 0 then c1 else xg x (k - 1)) (xg m (k * n + c)))
       (if Nat.eqb k c then xg x (n - 1 + c) else c0) =
  cadd (ksum K (map (fun d => cmul (xg s (k * n + d)) (cmul (xg x (n - 1 + n + d)) (xg m (d * n + c)))) (seq 0 n)))
       (cmul (xg s (k * n + c)) (xg x (n - 1 + n + n + c))).

Ltac by_hyp H := match type of H with ?A = ?B =>
  first [ transitivity (copp (csub A B)); [ring | rewrite H; ring] | transitivity (csub A B); [ring | rewrite H; ring] ] end.
Ltac kill_bools conn szero :=
  repeat match goal with
         | |- context [conn ?c] => destruct (conn c) eqn:?
         | |- context [szero ?c] => destruct (szero c) eqn:?
         end.
Ltac use_zeros :=
  repeat match goal with
         | Z : true = true -> _ |- _ => specialize (Z eq_refl)
         | Z : false = true -> _ |- _ => clear Z
         end; subst.
Ltac eval_group v :=
  (destruct v as [|[|[|[|v]]]]; cbn [filter Nat.eqb vt_v mk_term map ksum]);
  unfold term_res, term_coef, facn, mk_term; cbn [vt_neg vt_m vt_s vt_v vt_x sd_m sd_s nth];
  try ring.

Lemma t8_1x1_exact (conn szero : nat -> bool) m0 s0 ts0 ti0 tx0 :
  (szero 0 = true -> s0 = c0) -> t8_relation 1 [m0] [s0] [ts0; ti0; tx0] ->
  forall v, group_res K ofq (Build_vstd K [m0] [s0] [true]) [ts0; ti0; tx0] (build_terms_t8 1 1 0 0 conn szero) v = c0.
Proof.
  intros Z0 Hp v. pose proof (Hp 0 0 ltac:(lia) ltac:(lia)) as H00. clear Hp. unfold xg in *. cbn in H00.
  unfold group_res, build_terms_t8; cbn [seq flat_map app Nat.mul Nat.add Nat.eqb Nat.sub].
  kill_bools conn szero; cbn [andb negb app filter]; use_zeros; eval_group v; by_hyp H00.
Qed.

Lemma u8_1x1_exact (conn szero : nat -> bool) m0 s0 ui0 ux0 us0 :
  (szero 0 = true -> s0 = c0) -> u8_relation 1 [m0] [s0] [ui0; ux0; us0] ->
  forall v, group_res K ofq (Build_vstd K [m0] [s0] [true]) [ui0; ux0; us0] (build_terms_u8 1 1 0 0 conn szero) v = c0.
Proof.
  intros Z0 Hp v. pose proof (Hp 0 0 ltac:(lia) ltac:(lia)) as H00. clear Hp. unfold xg in *. cbn in H00.
  unfold group_res, build_terms_u8; cbn [seq flat_map app Nat.mul Nat.add Nat.eqb Nat.sub].
  kill_bools conn szero; cbn [andb negb app filter]; use_zeros; eval_group v; by_hyp H00.
Qed.

Lemma t8_2x2_exact (conn szero : nat -> bool) m0 m1 m2 m3 s0 s1 s2 s3 ts0 ts1 ti0 ti1 tx0 tx1 tm1 :
  let m := [m0; m1; m2; m3] in let s := [s0; s1; s2; s3] in let x := [ts0; ts1; ti0; ti1; tx0; tx1; tm1] in
  (forall c, c < 4 -> szero c = true -> xg s c = c0) ->
  t8_relation 2 m s x ->
  forall r c, r < 2 -> c < 2 -> forall v,
  group_res K ofq (Build_vstd K m s [true; true; true; true]) x (build_terms_t8 2 2 r c conn szero) v = c0.
Proof.
  intros m s x Hz Hp r c Hr Hc v.
  pose proof (Hp 0 0 ltac:(lia) ltac:(lia)) as H00. pose proof (Hp 0 1 ltac:(lia) ltac:(lia)) as H01.
  pose proof (Hp 1 0 ltac:(lia) ltac:(lia)) as H10. pose proof (Hp 1 1 ltac:(lia) ltac:(lia)) as H11.
  pose proof (Hz 0 ltac:(lia)) as Z0. pose proof (Hz 1 ltac:(lia)) as Z1.
  pose proof (Hz 2 ltac:(lia)) as Z2. pose proof (Hz 3 ltac:(lia)) as Z3.
  clear Hp Hz. subst m s x. unfold xg in *. cbn in H00, H01, H10, H11, Z0, Z1, Z2, Z3.
  assert (Hrc : (r = 0 \/ r = 1) /\ (c = 0 \/ c = 1)) by lia.
  destruct Hrc as ([-> | ->] & [-> | ->]); unfold group_res, build_terms_t8; cbn [seq flat_map app Nat.mul Nat.add Nat.eqb Nat.sub].
  all: kill_bools conn szero; cbn [andb negb app filter]; use_zeros; eval_group v;
    first [ by_hyp H00 | by_hyp H01 | by_hyp H10 | by_hyp H11 ].
Qed.

Lemma u8_2x2_exact (conn szero : nat -> bool) m0 m1 m2 m3 s0 s1 s2 s3 um1 ui0 ui1 ux0 ux1 us0 us1 :
  let m := [m0; m1; m2; m3] in let s := [s0; s1; s2; s3] in let x := [um1; ui0; ui1; ux0; ux1; us0; us1] in
  (forall c, c < 4 -> szero c = true -> xg s c = c0) ->
  u8_relation 2 m s x ->
  forall r c, r < 2 -> c < 2 -> forall v,
  group_res K ofq (Build_vstd K m s [true; true; true; true]) x (build_terms_u8 2 2 r c conn szero) v = c0.
Proof.
  intros m s x Hz Hp r c Hr Hc v.
  pose proof (Hp 0 0 ltac:(lia) ltac:(lia)) as H00. pose proof (Hp 0 1 ltac:(lia) ltac:(lia)) as H01.
  pose proof (Hp 1 0 ltac:(lia) ltac:(lia)) as H10. pose proof (Hp 1 1 ltac:(lia) ltac:(lia)) as H11.
  pose proof (Hz 0 ltac:(lia)) as Z0. pose proof (Hz 1 ltac:(lia)) as Z1.
  pose proof (Hz 2 ltac:(lia)) as Z2. pose proof (Hz 3 ltac:(lia)) as Z3.
  clear Hp Hz. subst m s x. unfold xg in *. cbn in H00, H01, H10, H11, Z0, Z1, Z2, Z3.
  assert (Hrc : (r = 0 \/ r = 1) /\ (c = 0 \/ c = 1)) by lia.
  destruct Hrc as ([-> | ->] & [-> | ->]); unfold group_res, build_terms_u8; cbn [seq flat_map app Nat.mul Nat.add Nat.eqb Nat.sub].
  all: kill_bools conn szero; cbn [andb negb app filter]; use_zeros; eval_group v;
    first [ by_hyp H00 | by_hyp H01 | by_hyp H10 | by_hyp H11 ].
Qed.

(* ---- composition into data_exact ---- *)
(* the group sums read the standard's M and S values only (not the "known" flags) *)
Lemma group_res_values (sd sd' : vstd K) x ts v : sd_m sd = sd_m sd' -> sd_s sd = sd_s sd' ->
  group_res K ofq sd x ts v = group_res K ofq sd' x ts v.
Proof.
  intros Hm Hs. unfold group_res. f_equal. apply map_ext. intros t.
  unfold term_res, term_coef. rewrite Hm, Hs. reflexivity.
Qed.

Lemma t8_2x2_wf conn szero r c : r < 2 -> c < 2 -> forall t i,
  In t (build_terms_t8 2 2 r c conn szero) -> vt_x t = Some i -> i < 7.
Proof.
  intros Hr Hc t i. assert (Hrc : (r = 0 \/ r = 1) /\ (c = 0 \/ c = 1)) by lia.
  destruct Hrc as ([-> | ->] & [-> | ->]); unfold build_terms_t8; cbn [seq flat_map app Nat.mul Nat.add Nat.eqb Nat.sub];
    kill_bools conn szero; cbn [andb negb app In]; intros Hin Hx;
    repeat (destruct Hin as [<- | Hin]; [cbn in Hx; inversion Hx; lia|]); destruct Hin.
Qed.

Lemma u8_2x2_wf conn szero r c : r < 2 -> c < 2 -> forall t i,
  In t (build_terms_u8 2 2 r c conn szero) -> vt_x t = Some i -> i < 7.
Proof.
  intros Hr Hc t i. assert (Hrc : (r = 0 \/ r = 1) /\ (c = 0 \/ c = 1)) by lia.
  destruct Hrc as ([-> | ->] & [-> | ->]); unfold build_terms_u8; cbn [seq flat_map app Nat.mul Nat.add Nat.eqb Nat.sub];
    kill_bools conn szero; cbn [andb negb app In]; intros Hin Hx;
    repeat (destruct Hin as [<- | Hin]; [cbn in Hx; inversion Hx; lia|]); destruct Hin.
Qed.

(* what it means for an equation of a problem to come from a 2-port standard of an error network *)
Definition from_network_2x2 (build : nat -> nat -> nat -> nat -> (nat -> bool) -> (nat -> bool) -> list vterm)
           (relation : nat -> list K -> list K -> list K -> Prop) (p : vprob K) (x : list K) (e : veq) : Prop :=
  exists conn szero r c m0 m1 m2 m3 s0 s1 s2 s3,
    r < 2 /\ c < 2 /\ ve_terms e = build 2 2 r c conn szero /\
    sd_m (std_of K p e) = [m0; m1; m2; m3] /\ sd_s (std_of K p e) = [s0; s1; s2; s3] /\
    (forall k, k < 4 -> szero k = true -> xg [s0; s1; s2; s3] k = c0) /\
    relation 2 [m0; m1; m2; m3] [s0; s1; s2; s3] x.

(* PHYSICAL EXACTNESS COMPOSED: a one-system problem with 7 unknowns all of whose equations are built by
   build_terms_t8 (resp. _u8) from 2-port standards measured through an error network with terms x
   satisfies data_exact for x -- the premise of the exact-data theorems *)
Theorem t8_2x2_data_exact (p : vprob K) es ts0 ts1 ti0 ti1 tx0 tx1 tm1 :
  let x := [ts0; ts1; ti0; ti1; tx0; tx1; tm1] in
  vp_unknowns p = 7 -> vp_systems p = [es] ->
  (forall e, In e es -> from_network_2x2 build_terms_t8 t8_relation p x e) ->
  data_exact K ofq p [x].
Proof.
  intros x Hu Hs Hall s es' e Hes He. rewrite Hs in Hes.
  destruct s as [|[|s]]; cbn in Hes; inversion Hes; subst es'. cbn [nth].
  destruct (Hall e He) as (conn & szero & r & c & m0 & m1 & m2 & m3 & s0 & s1 & s2 & s3 & Hr & Hc & Ht & Hm & Hsd & Hz & Hrel).
  split.
  - intros t i Hin Hx. rewrite Hu. rewrite Ht in Hin. apply (t8_2x2_wf conn szero r c Hr Hc t i Hin Hx).
  - intros v. rewrite Ht.
    rewrite (group_res_values (std_of K p e) (Build_vstd K [m0; m1; m2; m3] [s0; s1; s2; s3] [true; true; true; true]))
      by assumption.
    apply (t8_2x2_exact conn szero m0 m1 m2 m3 s0 s1 s2 s3 ts0 ts1 ti0 ti1 tx0 tx1 tm1 Hz Hrel r c Hr Hc v).
Qed.

Theorem u8_2x2_data_exact (p : vprob K) es um1 ui0 ui1 ux0 ux1 us0 us1 :
  let x := [um1; ui0; ui1; ux0; ux1; us0; us1] in
  vp_unknowns p = 7 -> vp_systems p = [es] ->
  (forall e, In e es -> from_network_2x2 build_terms_u8 u8_relation p x e) ->
  data_exact K ofq p [x].
Proof.
  intros x Hu Hs Hall s es' e Hes He. rewrite Hs in Hes.
  destruct s as [|[|s]]; cbn in Hes; inversion Hes; subst es'. cbn [nth].
  destruct (Hall e He) as (conn & szero & r & c & m0 & m1 & m2 & m3 & s0 & s1 & s2 & s3 & Hr & Hc & Ht & Hm & Hsd & Hz & Hrel).
  split.
  - intros t i Hin Hx. rewrite Hu. rewrite Ht in Hin. apply (u8_2x2_wf conn szero r c Hr Hc t i Hin Hx).
  - intros v. rewrite Ht.
    rewrite (group_res_values (std_of K p e) (Build_vstd K [m0; m1; m2; m3] [s0; s1; s2; s3] [true; true; true; true]))
      by assumption.
    apply (u8_2x2_exact conn szero m0 m1 m2 m3 s0 s1 s2 s3 um1 ui0 ui1 ux0 ux1 us0 us1 Hz Hrel r c Hr Hc v).
Qed.

(* in the vocabulary of the exact-data theorems: an equation of a problem whose standard holds these
   values and whose term list is the one the library builds is exact for x *)
Lemma eq_exact_of_groups (p : vprob K) (x : list K) (e : veq) (sd : vstd K) (ts : list vterm) :
  std_of K p e = sd -> ve_terms e = ts -> (forall v, group_res K ofq sd x ts v = c0) -> eq_exact K ofq p x e.
Proof. intros <- <- H v. apply H. Qed.
End Ph.
