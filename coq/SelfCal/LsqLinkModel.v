(* Link between the weight vector as computed and read by the code (WeightModel.v) and the weighted
   least-squares problem (LsqModel.v): the problem _vnacal_new_solve_simple / _vnacal_new_solve_auto
   hand to the QR solver when measurement-error modelling is on.  No proofs in this file.

   The coefficient rows are a parameter: they are whatever the equation iterator produced for
   equation e of system s (with measurement-error modelling the terms also carry the V-matrix
   factors of the current iteration; nothing here depends on what the rows are).  What this file
   fixes is WHICH element of w_vector multiplies which row: the element the consumer reads,
   weight_simple / weight_auto of WeightModel.v over calc_weights. *)
Require Import QArith Qcanon List.
Import ListNotations.
Require Import LV.Base.CField LV.SelfCal.WeightModel LV.SelfCal.LsqModel.

Section Link.
Variable K : CField.
Variable M : Type.                         (* measurement values *)
Variable wt : M -> Qc.                     (* 1 / sqrt(sigma_nf^2 + sigma_tr^2 |m|^2) *)
Variable rows : nat -> nat -> list K * K.  (* system, equation -> coefficients, right-hand side *)

(* solve_simple, system s: "a[eq][x] = w_vector[w_offset + eq_count] * ..., b[eq] = w * ..." *)
Definition weighted_system_simple (sys : systems M) (s : nat) : list (eqn K) :=
  map (fun e => (weight_simple M Qc wt 0%Qc false true sys s e, fst (rows s e), snd (rows s e)))
      (seq 0 (length (nth s sys []))).

(* solve_auto: all systems stacked, "w_vector[equation]" with one running counter *)
Definition weighted_system_auto (sys : systems M) : list (eqn K) :=
  flat_map (fun s => map (fun e => (weight_auto M Qc wt 0%Qc false sys s e, fst (rows s e), snd (rows s e)))
                         (seq 0 (length (nth s sys [])))) (seq 0 (length sys)).
End Link.
