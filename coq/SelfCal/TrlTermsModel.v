(* Second half of _vnacal_new_solve_trl (src/vnacal_new_solve_trl.c): once l and r are known they are
   written into the S matrices (vs_update_s_matrices) and the error terms are the solution of the
   linear system the equation iterator yields -- at most 10 equations in 7 unknowns, handed to
   _vnacommon_qrsolve.  This file models that system as coded, and the correction vnacal_apply
   performs with the resulting terms (fill_t8 / fill_u8 of src/vnacal_apply.c, 2x2 case).
   No proofs in this file.

   Equations (src/vnacal_new_add_common.c): one per cell (row-major) of a standard for which there is
   a signal path between the two ports: all four cells of the through and of the line, the two
   diagonal cells of the reflect; standards in the order in which they were added.
   Terms (src/vnacal_new_build_equation_terms.c, no-V thread):
     build_terms_t8:  -Ts S - Ti + M Tx S + M Tm == 0,  unknowns [ts11 ts22 ti11 ti22 tx11 tx22 tm22],
                      tm11 = 1 moved to the right-hand side;
     build_terms_u8:   Um M + Ui - S Ux M - S Us == 0,  unknowns [um22 ui11 ui22 ux11 ux22 us11 us22],
                      um11 = 1 moved to the right-hand side.
   Terms whose S cell is the zero parameter are skipped by the code; here they are products with 0. *)
Require Import List.
Import ListNotations.
Require Import LV.Base.CField LV.SelfCal.TrlModel.
Local Open Scope cf_scope.

Section Terms.
Variable K : CField.
Notation m2 := (m2 K).

Definition row := (list K * K)%type.        (* coefficients of the 7 unknowns, right-hand side *)

Fixpoint rdot (a x : list K) : K :=
  match a, x with
  | c :: a', v :: x' => c * v + rdot a' x'
  | _, _ => 0
  end.
Definition sat (x : list K) (r : row) : Prop := rdot (fst r) x = snd r.

(* ---- T8 / TE10: equation (i, j) of a standard with S matrix s measured as m ---- *)
Definition t_row11 (s m : m2) : row :=
  ([- m11 s; 0; - (1); 0; m11 m * m11 s; m12 m * m21 s; 0], - m11 m).
Definition t_row12 (s m : m2) : row :=
  ([- m12 s; 0; 0; 0; m11 m * m12 s; m12 m * m22 s; m12 m], 0).
Definition t_row21 (s m : m2) : row :=
  ([0; - m21 s; 0; 0; m21 m * m11 s; m22 m * m21 s; 0], - m21 m).
Definition t_row22 (s m : m2) : row :=
  ([0; - m22 s; 0; - (1); m21 m * m12 s; m22 m * m22 s; m22 m], 0).

(* ---- U8 / UE10 ---- *)
Definition u_row11 (s m : m2) : row :=
  ([0; 1; 0; - (m11 s * m11 m); - (m12 s * m21 m); - m11 s; 0], - m11 m).
Definition u_row12 (s m : m2) : row :=
  ([0; 0; 0; - (m11 s * m12 m); - (m12 s * m22 m); 0; - m12 s], - m12 m).
Definition u_row21 (s m : m2) : row :=
  ([m21 m; 0; 0; - (m21 s * m11 m); - (m22 s * m21 m); - m21 s; 0], 0).
Definition u_row22 (s m : m2) : row :=
  ([m22 m; 0; 1; - (m21 s * m12 m); - (m22 s * m22 m); 0; - m22 s], 0).

Inductive skind := KT | KR | KL.

(* the standards in the order of the measurement list *)
Definition trl_rows_t (order : list skind) (mt mr ml : m2) (l r : K) : list row :=
  flat_map (fun k => match k with
     | KT => [t_row11 (s_through K) mt; t_row12 (s_through K) mt; t_row21 (s_through K) mt; t_row22 (s_through K) mt]
     | KR => [t_row11 (s_reflect K r) mr; t_row22 (s_reflect K r) mr]
     | KL => [t_row11 (s_line K l) ml; t_row12 (s_line K l) ml; t_row21 (s_line K l) ml; t_row22 (s_line K l) ml]
     end) order.
Definition trl_rows_u (order : list skind) (mt mr ml : m2) (l r : K) : list row :=
  flat_map (fun k => match k with
     | KT => [u_row11 (s_through K) mt; u_row12 (s_through K) mt; u_row21 (s_through K) mt; u_row22 (s_through K) mt]
     | KR => [u_row11 (s_reflect K r) mr; u_row22 (s_reflect K r) mr]
     | KL => [u_row11 (s_line K l) ml; u_row12 (s_line K l) ml; u_row21 (s_line K l) ml; u_row22 (s_line K l) ml]
     end) order.

(* x_vector <-> error box: the unity term is inserted by _vnacal_new_solve_internal *)
Definition x_of_tbox (e : tbox K) : list K := [ts1 K e; ts2 K e; ti1 K e; ti2 K e; tx1 K e; tx2 K e; tm2 K e].
Definition tbox_of_x (x : list K) : tbox K :=
  TBox K (nth 0 x 0) (nth 1 x 0) (nth 2 x 0) (nth 3 x 0) (nth 4 x 0) (nth 5 x 0) 1 (nth 6 x 0).
Definition x_of_ubox (e : ubox K) : list K := [um2 K e; ui1 K e; ui2 K e; ux1 K e; ux2 K e; us1 K e; us2 K e].
Definition ubox_of_x (x : list K) : ubox K :=
  UBox K 1 (nth 0 x 0) (nth 1 x 0) (nth 2 x 0) (nth 3 x 0) (nth 4 x 0) (nth 5 x 0) (nth 6 x 0).

(* the true box divided by its unity term *)
Definition tnorm (e : tbox K) : tbox K :=
  let k := tm1 K e in
  TBox K (ts1 K e / k) (ts2 K e / k) (ti1 K e / k) (ti2 K e / k) (tx1 K e / k) (tx2 K e / k) 1 (tm2 K e / k).
Definition unorm (e : ubox K) : ubox K :=
  let k := um1 K e in
  UBox K 1 (um2 K e / k) (ui1 K e / k) (ui2 K e / k) (ux1 K e / k) (ux2 K e / k) (us1 K e / k) (us2 K e / k).

(* ---- vnacal_apply, 2x2 ----
   fill_t8:  A = Ts - M Tx,  B = M Tm - Ti,  S = A^-1 B  (_vnacommon_mldivide; "singular" when det A = 0)
   fill_u8:  A = Ux M + Us,  B = Um M + Ui,  S = B A^-1  (_vnacommon_mrdivide)
   The 2x2 solve is written with the cofactor formula; that LU with pivoting returns the same
   value in exact arithmetic whenever the determinant is not zero is C19's subject. *)
Definition adet_t (e : tbox K) (m : m2) : K :=
  (ts1 K e - m11 m * tx1 K e) * (ts2 K e - m22 m * tx2 K e) - (- (m12 m * tx2 K e)) * (- (m21 m * tx1 K e)).
Definition corr_t (e : tbox K) (m : m2) : m2 :=
  let a11 := ts1 K e - m11 m * tx1 K e in let a12 := - (m12 m * tx2 K e) in
  let a21 := - (m21 m * tx1 K e) in let a22 := ts2 K e - m22 m * tx2 K e in
  let b11 := m11 m * tm1 K e - ti1 K e in let b12 := m12 m * tm2 K e in
  let b21 := m21 m * tm1 K e in let b22 := m22 m * tm2 K e - ti2 K e in
  let det := adet_t e m in
  M2 ((a22 * b11 - a12 * b21) / det) ((a22 * b12 - a12 * b22) / det)
     ((a11 * b21 - a21 * b11) / det) ((a11 * b22 - a21 * b12) / det).

Definition adet_u (e : ubox K) (m : m2) : K :=
  (ux1 K e * m11 m + us1 K e) * (ux2 K e * m22 m + us2 K e) - (ux1 K e * m12 m) * (ux2 K e * m21 m).
Definition corr_u (e : ubox K) (m : m2) : m2 :=
  let a11 := ux1 K e * m11 m + us1 K e in let a12 := ux1 K e * m12 m in
  let a21 := ux2 K e * m21 m in let a22 := ux2 K e * m22 m + us2 K e in
  let b11 := um1 K e * m11 m + ui1 K e in let b12 := um1 K e * m12 m in
  let b21 := um2 K e * m21 m in let b22 := um2 K e * m22 m + ui2 K e in
  let det := adet_u e m in
  M2 ((b11 * a22 - b12 * a21) / det) ((b12 * a11 - b11 * a12) / det)
     ((b21 * a22 - b22 * a21) / det) ((b22 * a11 - b21 * a12) / det).

(* non-degeneracy of the two ports' error boxes (the 2x2 matrices [ts ti; tx tm] are invertible) *)
Definition tdelta1 (e : tbox K) : K := ts1 K e * tm1 K e - ti1 K e * tx1 K e.
Definition tdelta2 (e : tbox K) : K := ts2 K e * tm2 K e - ti2 K e * tx2 K e.
Definition udelta1 (e : ubox K) : K := us1 K e * um1 K e - ui1 K e * ux1 K e.
Definition udelta2 (e : ubox K) : K := us2 K e * um2 K e - ui2 K e * ux2 K e.
End Terms.
