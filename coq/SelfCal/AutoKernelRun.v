(* The model iteration actually converges: exact multi-pass runs of AutoKernelModel.kernel_run
   (AutoLoop's control skeleton over the kernel as coded) from WRONG guesses, by computation.
   One-port T8-shaped problem, true error terms (ts, ti, tx) = (2, 1, 1), i.e.
   m(s) = (2 s + 1) / (s + 1), measured exactly on the dyadic standards
       s = 0, 1, [unknown, true value 3], -1/2, -3, 7     m = 1, 3/2, 7/4, 0, 5/2, 15/8.
   With p_tolerance = et_tolerance = 1/8 and iteration limit 30:
     from the guess 2    the run takes 3 passes (steps of about 0.50, 0.40, 0.10; the third passes
                         the convergence test) and returns p and x within 1/100 of the truth;
     from the guess 5/2  2 passes, same accuracy.
   (The rationals of a fourth exact pass would have tens of thousands of digits; the binary64 run
   of the C code on the same data, harness trajectory 2 -> 2.49988 -> 2.89580 -> 2.99842 ->
   2.99999988 -> 3, continues quadratically.) *)
Require Import List Arith Lia Bool QArith Qcanon.
Import ListNotations.
Require Import LV.Base.CField LV.Base.QcI LV.Lin.MatL LV.Lin.LuGenA LV.Lin.LsLuProofs.
Require Import LV.SelfCal.AutoLoop LV.SelfCal.AutoKernelModel LV.SelfCal.AutoKernelProofs LV.SelfCal.AutoKernelQI.
Local Open Scope nat_scope.

Definition run_pr : problem :=
  Problem 3
    [[eq1 (SKnown (zi 0 0)) (zi 1 0);
      eq1 (SKnown (zi 1 0)) (qh 3 2);
      eq1 (SUnk 0) (qh 7 4);
      eq1 (SKnown (qh (-1) 2)) (zi 0 0);
      eq1 (SKnown (zi (-3) 0)) (qh 5 2);
      eq1 (SKnown (zi 7 0)) (qh 15 8)]]
    [] 1.
Definition run_ps : list qi := [zi 3 0].
Definition run_xs : list qi := [zi 2 0; zi 1 0; zi 1 0].

(* the data are exact for (run_xs, run_ps) and the system has full column rank there *)
Lemma run_exact : exact_data run_pr run_ps run_xs.
Proof.
  intros i Hi. change (pr_equations run_pr) with 6 in Hi.
  do 6 (destruct i as [|i]; [vm_compute; reflexivity|]). lia.
Qed.
Lemma run_full_rank : full_col_rank 6 3 (a_matrix run_pr run_ps).
Proof.
  apply (ls_lu_some_iff_full_rank 6 3 1 (a_matrix run_pr run_ps) (b_vector run_pr run_ps)).
  eexists. vm_compute. reflexivity.
Qed.

(* |a - b| < tol *)
Definition close (a b : qi) (tol : Qc) : bool := Qc_ltb (qi_nrm (qi_sub a b)) (tol * tol)%Qc.

Definition run_ok (guess : qi) (passes : nat) : bool :=
  match kernel_run run_pr (Q2Qc (1 # 8)) (Q2Qc (1 # 8)) 30 [guess] with
  | (Converged [x0; x1; x2] [p], tr) =>
      close p (zi 3 0) (Q2Qc (1 # 100)) && close x0 (zi 2 0) (Q2Qc (1 # 100)) &&
      close x1 (zi 1 0) (Q2Qc (1 # 100)) && close x2 (zi 1 0) (Q2Qc (1 # 100)) &&
      Nat.eqb (length tr) passes && forallb e_best tr
  | _ => false
  end.

Lemma kernel_run_converges_from_5_2 : run_ok (qh 5 2) 2 = true.
Proof. vm_compute. reflexivity. Qed.

Lemma kernel_run_converges_from_2 : run_ok (zi 2 0) 3 = true.
Proof. vm_compute. reflexivity. Qed.

(* the guesses are outside the accuracy reached: the iteration moved them *)
Lemma run_guesses_are_wrong :
  close (zi 2 0) (zi 3 0) (Q2Qc (1 # 100)) = false /\ close (qh 5 2) (zi 3 0) (Q2Qc (1 # 100)) = false.
Proof. split; vm_compute; reflexivity. Qed.
