(* Which solver vnacal_new_solve uses: classify_standard / _vnacal_new_solve_is_trl
   (src/vnacal_new_solve_trl.c) and the dispatch of _vnacal_new_solve_internal, as coded; and the
   write-back of solved values into the parameter object.  No proofs in this file.

   An S cell of a standard is a pointer to a per-calibration parameter structure; all the code
   looks at is pointer identity with vn_zero, identity of the underlying parameter with the
   predefined VNACAL_ONE, the parameter type (UNKNOWN / CORRELATED / known) and identity of two
   cells.  Cells are therefore modelled by the constructors below with equality = identity.
   (VNACAL_MATCH = VNACAL_ZERO and VNACAL_OPEN = VNACAL_ONE are the same parameters.) *)
Require Import List Arith Bool Permutation.
Import ListNotations.

Inductive cell := Zero | One | Known (id : nat) | Unknown (id : nat) | Corr (id : nat).

Definition cell_eqb (a b : cell) : bool :=
  match a, b with
  | Zero, Zero | One, One => true
  | Known i, Known j | Unknown i, Unknown j | Corr i, Corr j => Nat.eqb i j
  | _, _ => false
  end.
Definition is_zero (c : cell) := match c with Zero => true | _ => false end.
Definition is_one (c : cell) := match c with One => true | _ => false end.

(* s[0], s[1], s[2], s[3] of a 2x2 standard *)
Definition std := (cell * cell * cell * cell)%type.

Inductive which := WT | WR (u : nat) | WL (u : nat) | WNone.

Definition classify (s : std) : which :=
  let '(s0, s1, s2, s3) := s in
  if is_one s1 then
    (if is_one s2 && is_zero s0 && is_zero s3 then WT else WNone)
  else if is_zero s1 then
    match s0 with
    | Unknown u => if cell_eqb s3 s0 && is_zero s2 then WR u else WNone
    | _ => WNone
    end
  else if is_zero s0 && is_zero s3 then
    match s1 with
    | Unknown u => if cell_eqb s2 s1 then WL u else WNone
    | _ => WNone
    end
  else WNone.

Inductive caltype := T8 | U8 | TE10 | UE10 | T16 | U16 | UE14 | E12.
Definition eight_term (t : caltype) : bool :=
  match t with T8 | U8 | TE10 | UE10 => true | _ => false end.

(* the loop over the standards: duplicates of a class and unclassifiable standards refuse *)
Fixpoint scan (stds : list std) (t r l : bool) : bool :=
  match stds with
  | [] => true
  | s :: rest =>
    match classify s with
    | WT => if t then false else scan rest true r l
    | WR _ => if r then false else scan rest t true l
    | WL _ => if l then false else scan rest t r true
    | WNone => false
    end
  end.

Definition is_trl (ty : caltype) (rows cols : nat) (stds : list std)
           (unknowns correlated : nat) (m_error : bool) : bool :=
  Nat.eqb rows 2 && Nat.eqb cols 2 && eight_term ty &&
  Nat.eqb (length stds) 3 && Nat.eqb unknowns 2 && Nat.eqb correlated 0 && negb m_error &&
  scan stds false false false.

Inductive path := PathTrl | PathSimple | PathAuto.

Definition dispatch (ty : caltype) (rows cols : nat) (stds : list std)
           (unknowns correlated : nat) (m_error : bool) : path :=
  if is_trl ty rows cols stds unknowns correlated m_error then PathTrl
  else if Nat.eqb unknowns 0 then PathSimple else PathAuto.

Definition std_T : std := (Zero, One, One, Zero).
Definition std_R (a : nat) : std := (Unknown a, Zero, Zero, Unknown a).
Definition std_L (b : nat) : std := (Zero, Unknown b, Unknown b, Zero).

(* ---------------- write-back of the solved values ---------------- *)
Section Writeback.
Variables F V : Type.                       (* frequencies, values *)
Variable F_eqb : F -> F -> bool.

Record pobj := PObj { pf : list F; pg : list V }.     (* vpmr_frequency_vector, vpmr_gamma_vector *)

(* _vnacal_new_solve_internal, "store them into the corresponding parameter structures":
   the frequency vector is reallocated when the count differs; the calibration grid is copied
     copy_always = true : unconditionally
     copy_always = false: only together with the reallocation *)
Definition writeback (copy_always : bool) (old : pobj) (fs : list F) (vs : list V) : pobj :=
  PObj (if copy_always then fs else if Nat.eqb (length (pf old)) (length fs) then pf old else fs) vs.

(* value at a stored frequency point (interpolation is exact at the knots: C10) *)
Fixpoint lookup (fs : list F) (vs : list V) (f : F) : option V :=
  match fs, vs with
  | a :: fr, v :: vr => if F_eqb a f then Some v else lookup fr vr f
  | _, _ => None
  end.
Definition get (p : pobj) (f : F) : option V := lookup (pf p) (pg p) f.

End Writeback.
