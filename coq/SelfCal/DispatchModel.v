(* Which solver vnacal_new_solve uses: classify_standard / _vnacal_new_solve_is_trl
   (src/vnacal_new_solve_trl.c) and the dispatch of _vnacal_new_solve_internal, as coded; and the
   write-back of solved values into the parameter object.  No proofs in this file.

   An S cell of a standard (vnm_s_matrix[i]) is a pointer to a per-calibration parameter structure
   or NULL: the add functions leave the cells NULL that the caller did not specify (single reflect
   on port 2 of a 2x2 calibration: [NULL 0; 0 r]; double reflect given as a 2-port standard has all
   four cells, a double reflect inside a wider calibration does not).  All the code looks at is
     - pointer identity with vn_zero and of two cells with each other   (no dereference),
     - identity of the underlying parameter with the predefined VNACAL_ONE  (s[i]->vnpr_parameter),
     - the parameter type UNKNOWN / CORRELATED / known        (s[i]->vnpr_parameter->vpmr_type),
     - the unknown index                                       (s[i]->vnpr_unknown_index).
   The last three dereference s[i]; in the model they return [Fault] on an absent cell, so that a
   classification that reads through a NULL cell is visible as a result, not hidden by a default.
   Cells are modelled by the constructors below with equality = pointer identity.
   (VNACAL_MATCH = VNACAL_ZERO and VNACAL_OPEN = VNACAL_ONE are the same parameters.) *)
Require Import List Arith Bool Permutation.
Import ListNotations.

Inductive cell := Absent | Zero | One | Known (id : nat) | Unknown (id : nat) | Corr (id : nat).

(* the result of a computation that may read through a NULL pointer *)
Inductive res (A : Type) := Val (a : A) | Fault.
Arguments Val {A}. Arguments Fault {A}.
Definition bind {A B} (r : res A) (f : A -> res B) : res B :=
  match r with Val a => f a | Fault => Fault end.

(* ---- pointer comparisons: no dereference, defined on NULL (NULL == NULL) ---- *)
Definition cell_eqb (a b : cell) : bool :=
  match a, b with
  | Absent, Absent | Zero, Zero | One, One => true
  | Known i, Known j | Unknown i, Unknown j | Corr i, Corr j => Nat.eqb i j
  | _, _ => false
  end.
Definition is_zero (c : cell) := match c with Zero => true | _ => false end.   (* s[i] == vnp->vn_zero *)
Definition is_absent (c : cell) := match c with Absent => true | _ => false end. (* s[i] == NULL *)

(* ---- dereferences ---- *)
(* s[i]->vnpr_parameter == vnprp_one *)
Definition param_is_one (c : cell) : res bool :=
  match c with Absent => Fault | One => Val true | _ => Val false end.
(* s[i]->vnpr_parameter->vpmr_type == VNACAL_UNKNOWN, and when it is, s[i]->vnpr_unknown_index *)
Definition as_unknown (c : cell) : res (option nat) :=
  match c with Absent => Fault | Unknown u => Val (Some u) | _ => Val None end.

(* s[0], s[1], s[2], s[3] of a 2x2 standard *)
Definition std := (cell * cell * cell * cell)%type.

Inductive which := WT | WR (u : nat) | WL (u : nat) | WNone.

(* classify_standard from "vnprp_one = ..." to the end, statement by statement; && evaluates its
   right operand only when the left one is true *)
Definition classify_body (s : std) : res which :=
  let '(s0, s1, s2, s3) := s in
  bind (param_is_one s1) (fun one1 =>
  if one1 then
    bind (param_is_one s2) (fun one2 =>
    if one2 && is_zero s0 && is_zero s3 then Val WT else Val WNone)
  else if is_zero s1 then
    bind (as_unknown s0) (fun u0 =>
    match u0 with
    | Some u => if cell_eqb s3 s0 && is_zero s2 then Val (WR u) else Val WNone
    | None => Val WNone
    end)
  else if is_zero s0 && is_zero s3 then
    bind (as_unknown s1) (fun u1 =>
    match u1 with
    | Some u => if cell_eqb s2 s1 then Val (WL u) else Val WNone
    | None => Val WNone
    end)
  else Val WNone).

(* classify_standard as it is now: "for (i = 0; i < 4; ++i) if (s[i] == NULL) return TRL_NONE;" first *)
Definition classify (s : std) : res which :=
  let '(s0, s1, s2, s3) := s in
  if is_absent s0 || is_absent s1 || is_absent s2 || is_absent s3 then Val WNone
  else classify_body s.

Inductive caltype := T8 | U8 | TE10 | UE10 | T16 | U16 | UE14 | E12.
Definition eight_term (t : caltype) : bool :=
  match t with T8 | U8 | TE10 | UE10 => true | _ => false end.

(* the loop over the standards: duplicates of a class and unclassifiable standards refuse; the
   loop stops at the first refusal (later standards are not classified) *)
Section Scan.
Variable cls : std -> res which.
Fixpoint scan (stds : list std) (t r l : bool) : res bool :=
  match stds with
  | [] => Val true
  | s :: rest =>
    bind (cls s) (fun w =>
    match w with
    | WT => if t then Val false else scan rest true r l
    | WR _ => if r then Val false else scan rest t true l
    | WL _ => if l then Val false else scan rest t r true
    | WNone => Val false
    end)
  end.

(* the tests before the loop return false without looking at a standard *)
Definition is_trl (ty : caltype) (rows cols : nat) (stds : list std)
           (unknowns correlated : nat) (m_error : bool) : res bool :=
  if Nat.eqb rows 2 && Nat.eqb cols 2 && eight_term ty &&
     Nat.eqb (length stds) 3 && Nat.eqb unknowns 2 && Nat.eqb correlated 0 && negb m_error
  then scan stds false false false else Val false.
End Scan.

Inductive path := PathTrl | PathSimple | PathAuto.

Definition dispatch_with (cls : std -> res which) (ty : caltype) (rows cols : nat) (stds : list std)
           (unknowns correlated : nat) (m_error : bool) : res path :=
  bind (is_trl cls ty rows cols stds unknowns correlated m_error) (fun trl =>
  Val (if trl then PathTrl else if Nat.eqb unknowns 0 then PathSimple else PathAuto)).

(* _vnacal_new_solve_internal as it is now *)
Definition dispatch := dispatch_with classify.
(* the same with classify_standard as it was before fix D69 (no NULL test): kept only to document
   that finding *)
Definition dispatch_before_D69 := dispatch_with classify_body.

Definition std_T : std := (Zero, One, One, Zero).
Definition std_R (a : nat) : std := (Unknown a, Zero, Zero, Unknown a).
Definition std_L (b : nat) : std := (Zero, Unknown b, Unknown b, Zero).
(* what vnacal_new_add_single_reflect leaves in a 2x2 calibration *)
Definition std_single1 (c : cell) : std := (c, Zero, Zero, Absent).
Definition std_single2 (c : cell) : std := (Absent, Zero, Zero, c).

Definition has_absent (s : std) : bool :=
  let '(s0, s1, s2, s3) := s in is_absent s0 || is_absent s1 || is_absent s2 || is_absent s3.

(* ---------------- write-back of the solved values ---------------- *)
Section Writeback.
Variables F V : Type.                       (* frequencies, values *)
Variable F_eqb : F -> F -> bool.
Variable f0 : F.                            (* 0.0 from calloc *)

(* vpmr_frequency_vector (vpmr_frequencies = its length), vpmr_gamma_vector *)
Record pobj := PObj { pf : list F; pg : list V }.

(* memcpy(dst, src, n * sizeof) with n = |src| <= |dst| *)
Definition memcpy_over (dst src : list F) : list F := src ++ skipn (length src) dst.

(* _vnacal_new_solve_internal, "store them into the corresponding parameter structures", step by step:
     free(gamma);  if (vpmr_frequencies != frequencies) { free; calloc(frequencies) }
     if (frequencies != 0) memcpy(vpmr_frequency_vector, vn_frequency_vector, frequencies)
                                    (outside the reallocation branch; the guard is fix D68: a copy
                                     of zero elements is the identity in the model)
     vpmr_gamma_vector = p_vector[index] *)
Definition writeback (old : pobj) (fs : list F) (vs : list V) : pobj :=
  let fv := if Nat.eqb (length (pf old)) (length fs) then pf old else repeat f0 (length fs) in
  PObj (memcpy_over fv fs) vs.

(* model variant (not the code): the calibration grid is copied only inside the reallocation
   branch -- the shape of seeded change C02-1, kept as a regression witness *)
Definition writeback_variant_copy_on_realloc (old : pobj) (fs : list F) (vs : list V) : pobj :=
  PObj (if Nat.eqb (length (pf old)) (length fs) then pf old else memcpy_over (repeat f0 (length fs)) fs) vs.

(* value at a stored frequency point (interpolation is exact at the knots: C10) *)
Fixpoint lookup (fs : list F) (vs : list V) (f : F) : option V :=
  match fs, vs with
  | a :: fr, v :: vr => if F_eqb a f then Some v else lookup fr vr f
  | _, _ => None
  end.
Definition get (p : pobj) (f : F) : option V := lookup (pf p) (pg p) f.

End Writeback.
