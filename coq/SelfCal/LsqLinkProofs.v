(* Lemmas about SelfCal/LsqLinkModel.v: with the weights as the code computes and reads them, exact
   (consistent) data have the unweighted solution. *)
Require Import QArith Qcanon List Lia.
Import ListNotations.
Require Import LV.Base.CField LV.SelfCal.WeightModel LV.SelfCal.WeightProofs LV.SelfCal.LsqModel
        LV.SelfCal.LsqProofs LV.SelfCal.LsqLinkModel.
Local Open Scope Qc_scope.

Section P.
Variable K : CField.
Variable N : K -> Qc.
Hypothesis N_nonneg : forall z, 0 <= N z.
Hypothesis N_zero : forall z, N z = 0 -> z = c0.
Hypothesis N_of_zero : N c0 = 0.
Variable M : Type.
Variable wt : M -> Qc.
Hypothesis wt_nonzero : forall m, wt m <> 0.      (* 1 / sqrt(positive) *)
Variable m0 : M.
Variable rows : nat -> nat -> list K * K.

(* every weight the consumers multiply a row with is the (non-zero) weight of that row's own
   measurement -- in particular never the zero left by calloc: this is where the alignment
   theorem is used *)
Lemma simple_weights_nonzero (sys : systems M) (s : nat) :
  (s < length sys)%nat -> weights_nonzero K (weighted_system_simple K M wt rows sys s).
Proof.
  intros Hs w row b Hin. unfold weighted_system_simple in Hin. apply in_map_iff in Hin.
  destruct Hin as (e & E & He). apply in_seq in He. inversion E; subst.
  rewrite (proj1 (weights_aligned M Qc wt 0 m0 sys s e Hs ltac:(lia))). apply wt_nonzero.
Qed.

Lemma auto_weights_nonzero (sys : systems M) : weights_nonzero K (weighted_system_auto K M wt rows sys).
Proof.
  intros w row b Hin. unfold weighted_system_auto in Hin. apply in_flat_map in Hin.
  destruct Hin as (s & Hs & Hin). apply in_seq in Hs. apply in_map_iff in Hin.
  destruct Hin as (e & E & He). apply in_seq in He. inversion E; subst.
  rewrite (proj2 (weights_aligned M Qc wt 0 m0 sys s e ltac:(lia) ltac:(lia))). apply wt_nonzero.
Qed.

(* For data that some x0 fits exactly and a coefficient matrix of full column rank, the problem
   solve_simple solves for system s WITH THE WEIGHTS AS COMPUTED AND READ BY THE CODE has x0 as its
   only minimiser, with residual zero, and the same minimisers as the problem with every weight
   replaced by 1. *)
Lemma exact_data_simple_weights_as_computed (sys : systems M) (s : nat) (x0 : list K) :
  (s < length sys)%nat ->
  let ws := weighted_system_simple K M wt rows sys s in
  consistent K ws x0 -> injective K ws x0 ->
  cost K N ws x0 = 0 /\ minimises K N ws x0 /\
  (forall x, length x = length x0 -> minimises K N ws x -> x = x0) /\
  (forall x, length x = length x0 -> (minimises K N ws x <-> minimises K N (unweighted K ws) x)).
Proof.
  intros Hs ws Hc Hi. pose proof (simple_weights_nonzero sys s Hs) as Hw. fold ws in Hw.
  destruct (exact_data_weight_free K N N_nonneg N_zero N_of_zero ws x0 Hc Hw Hi) as (A & B & C).
  repeat split; try assumption.
  - apply (weighted_equals_unweighted K N N_nonneg N_zero N_of_zero ws x0 x Hc Hw Hi H).
  - apply (weighted_equals_unweighted K N N_nonneg N_zero N_of_zero ws x0 x Hc Hw Hi H).
Qed.

Lemma exact_data_auto_weights_as_computed (sys : systems M) (x0 : list K) :
  let ws := weighted_system_auto K M wt rows sys in
  consistent K ws x0 -> injective K ws x0 ->
  cost K N ws x0 = 0 /\ minimises K N ws x0 /\
  (forall x, length x = length x0 -> minimises K N ws x -> x = x0) /\
  (forall x, length x = length x0 -> (minimises K N ws x <-> minimises K N (unweighted K ws) x)).
Proof.
  intros ws Hc Hi. pose proof (auto_weights_nonzero sys) as Hw. fold ws in Hw.
  destruct (exact_data_weight_free K N N_nonneg N_zero N_of_zero ws x0 Hc Hw Hi) as (A & B & C).
  repeat split; try assumption.
  - apply (weighted_equals_unweighted K N N_nonneg N_zero N_of_zero ws x0 x Hc Hw Hi H).
  - apply (weighted_equals_unweighted K N N_nonneg N_zero N_of_zero ws x0 x Hc Hw Hi H).
Qed.
End P.
