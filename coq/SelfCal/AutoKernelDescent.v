(* The Levenberg-Marquardt step is a descent direction (SelfCal/AutoKernelModel.v, over Q[i] with
   the real part ordered in Qc).  For every J (r x p_length) whose Gram matrix is the J^H J handed
   to the step, every lambda >= 0 and every d with (J^H J + lambda I) d = J^H k:
       d^H (J^H k) = |J d|^2 + lambda |d|^2     (a real number >= 0),
   and it vanishes only if J^H k = 0.  Since the update is p - d and the gradient of |k|^2 with
   J as Jacobian is 2 J^H k, the first-order change of |k|^2 along the step is -2 Re(d^H J^H k) <= 0,
   strictly negative unless the point is stationary.  No hypothesis on the rank of J or on
   lambda > 0 is needed for this; they are needed for the step to exist (kernel_step_spec). *)
Require Import List Arith Lia Bool QArith Qcanon.
Import ListNotations.
Require Import LV.Base.CField LV.Base.QcI LV.Lin.MatL LV.Lin.LuGenA LV.Lin.LsProofs LV.Lin.QrQIProofs.
Require Import LV.Lin.LuNonsing LV.Lin.LuNonsingQI.
Require Import LV.SelfCal.AutoKernelModel LV.SelfCal.AutoKernelProofs LV.SelfCal.AutoKernelProjector LV.SelfCal.AutoKernelQI.
Local Open Scope nat_scope.

(* a sum of squared moduli is the real number sum |f i|^2 *)
Lemma sos_real n (f : nat -> QIF) :
  sumf n (fun i => cmul (f i) (cj (f i))) = qi_of_Qc (qsum n (fun i => qi_nrm (f i))).
Proof.
  induction n as [|n IH]; [reflexivity|].
  cbn [sumf qsum]. rewrite IH. apply qi_eq; destruct (f n) as [a b]; unfold qi_nrm; simpl; ring.
Qed.

Lemma dist3 (x S l : qi) :
  qi_mul (qi_cj x) (qi_add S (qi_mul l x)) = qi_add (qi_mul (qi_cj x) S) (qi_mul l (qi_mul x (qi_cj x))).
Proof. apply qi_eq; simpl; ring. Qed.

Section Descent.
Variables (pl r : nat) (J jtj jtk : qmat) (lam : Qc) (d : nat -> QIF).
(* jtj is the Gram matrix of J *)
Hypothesis Hgram : forall a c, a < pl -> c < pl ->
  mget QIF jtj a c = sumf r (fun k => cmul (cj (mget QIF J k a)) (mget QIF J k c)).
(* d solves the step equation *)
Hypothesis Hstep : forall i, i < pl ->
  sumf pl (fun t => cmul (mget QIF (j1_matrix pl jtj lam) i t) (d t)) = mget QIF jtk i 0.

Definition Jd (k : nat) : QIF := sumf pl (fun t => cmul (mget QIF J k t) (d t)).

Lemma j1_row i : i < pl ->
  sumf pl (fun t => cmul (mget QIF (j1_matrix pl jtj lam) i t) (d t)) =
  cadd (sumf pl (fun t => cmul (sumf r (fun k => cmul (cj (mget QIF J k i)) (mget QIF J k t))) (d t)))
       (cmul (qi_of_Qc lam : QIF) (d i)).
Proof.
  intros Hi.
  rewrite (sumf_ext QIF pl _ (fun t => cadd (cmul (sumf r (fun k => cmul (cj (mget QIF J k i)) (mget QIF J k t))) (d t))
                                             (if Nat.eqb t i then cmul (qi_of_Qc lam : QIF) (d t) else c0))).
  2:{ intros t Ht. unfold j1_matrix. rewrite mget_mbuild by auto. rewrite (Hgram i t Hi Ht).
      rewrite (Nat.eqb_sym t i). destruct (Nat.eqb i t); apply qi_eq; simpl; ring. }
  rewrite sumf_add. f_equal. exact (sumf_single QIF pl i (fun t => cmul (qi_of_Qc lam : QIF) (d t)) Hi).
Qed.

(* d^H (J^H k) = |J d|^2 + lambda |d|^2 *)
Lemma descent_value :
  sumf pl (fun i => cmul (cj (d i)) (mget QIF jtk i 0)) =
  qi_of_Qc (qsum r (fun k => qi_nrm (Jd k)) + lam * qsum pl (fun i => qi_nrm (d i)))%Qc.
Proof.
  rewrite (sumf_ext QIF pl _
            (fun i => cadd (cmul (cj (d i)) (sumf pl (fun t => cmul (sumf r (fun k => cmul (cj (mget QIF J k i)) (mget QIF J k t))) (d t))))
                           (cmul (qi_of_Qc lam : QIF) (cmul (d i) (cj (d i)))))).
  2:{ intros i Hi. rewrite <- (Hstep i Hi), (j1_row i Hi). apply dist3. }
  rewrite sumf_add, <- sumf_scale_l.
  rewrite <- (gram_quadratic QIF qif_cj_0 qif_cj_add qif_cj_mul r pl (mget QIF J) d).
  rewrite (sumf_ext QIF r _ (fun k => cmul (Jd k) (cj (Jd k)))) by (intros; reflexivity).
  rewrite (sos_real r Jd), (sos_real pl d).
  generalize (qsum r (fun k => qi_nrm (Jd k))) (qsum pl (fun i => qi_nrm (d i))). intros A B.
  apply qi_eq; simpl; ring.
Qed.

Lemma descent_nonneg : (0 <= lam)%Qc ->
  (0 <= qsum r (fun k => qi_nrm (Jd k)) + lam * qsum pl (fun i => qi_nrm (d i)))%Qc.
Proof.
  intros Hl. replace 0%Qc with (0 + 0)%Qc by ring. apply Qcplus_le_compat.
  - apply qsum_nonneg. intros; apply qi_nrm_nonneg.
  - replace 0%Qc with (lam * 0)%Qc by ring. rewrite !(Qcmult_comm lam).
    apply Qcmult_le_compat_r; [|exact Hl]. apply qsum_nonneg. intros; apply qi_nrm_nonneg.
Qed.

(* equality only at a stationary point *)
Lemma descent_zero_stationary : (0 <= lam)%Qc ->
  (qsum r (fun k => qi_nrm (Jd k)) + lam * qsum pl (fun i => qi_nrm (d i)) = 0)%Qc ->
  forall i, i < pl -> mget QIF jtk i 0 = qi0.
Proof.
  intros Hl Hz.
  assert (H1 : (0 <= qsum r (fun k => qi_nrm (Jd k)))%Qc) by (apply qsum_nonneg; intros; apply qi_nrm_nonneg).
  assert (H2 : (0 <= lam * qsum pl (fun i => qi_nrm (d i)))%Qc).
  { replace 0%Qc with (lam * 0)%Qc by ring. rewrite !(Qcmult_comm lam).
    apply Qcmult_le_compat_r; [|exact Hl]. apply qsum_nonneg. intros; apply qi_nrm_nonneg. }
  assert (E1 : (qsum r (fun k => qi_nrm (Jd k)) = 0)%Qc).
  { apply Qcle_antisym; [|exact H1]. rewrite <- Hz.
    replace (qsum r (fun k => qi_nrm (Jd k))) with (qsum r (fun k => qi_nrm (Jd k)) + 0)%Qc at 1 by ring.
    apply Qcplus_le_compat; [apply Qcle_refl|exact H2]. }
  assert (E2 : (lam * qsum pl (fun i => qi_nrm (d i)) = 0)%Qc) by (rewrite E1 in Hz; rewrite <- Hz; ring).
  assert (HJd : forall k, k < r -> Jd k = qi0).
  { intros k Hk. apply qi_nrm_zero.
    apply (qsum_terms_zero r (fun k => qi_nrm (Jd k))); auto.
    - intros; apply qi_nrm_nonneg.
    - rewrite E1. apply Qcle_refl. }
  assert (Hld : forall i, i < pl -> cmul (qi_of_Qc lam : QIF) (d i) = qi0).
  { intros i Hi. destruct (Qcmult_integral _ _ E2) as [E|E].
    - rewrite E. apply qi_eq; simpl; ring.
    - assert (Ed : d i = qi0).
      { apply qi_nrm_zero. apply (qsum_terms_zero pl (fun i => qi_nrm (d i))); auto.
        - intros; apply qi_nrm_nonneg.
        - rewrite E. apply Qcle_refl. }
      rewrite Ed. apply qi_eq; simpl; ring. }
  intros i Hi. rewrite <- (Hstep i Hi), (j1_row i Hi), (Hld i Hi).
  assert (E : sumf pl (fun t => cmul (sumf r (fun k => cmul (cj (mget QIF J k i)) (mget QIF J k t))) (d t)) =
              sumf r (fun k => cmul (cj (mget QIF J k i)) (Jd k))).
  { transitivity (sumf pl (fun t => sumf r (fun k => cmul (cj (mget QIF J k i)) (cmul (mget QIF J k t) (d t))))).
    - apply sumf_ext. intros t Ht. rewrite sumf_scale_r. apply sumf_ext. intros; apply qi_eq; simpl; ring.
    - rewrite sumf_exchange. apply sumf_ext. intros k Hk. unfold Jd. rewrite sumf_scale_l. reflexivity. }
  rewrite E. rewrite (sumf_zero QIF r).
  - apply qi_eq; simpl; ring.
  - intros k Hk. rewrite (HJd k Hk). apply qi_eq; simpl; ring.
Qed.
End Descent.

(* the Gram identity of the Levenberg-Marquardt step, on the step function of the model:
   exact arithmetic only; J, jtj, jtk are free-standing (any J whose Gram matrix is jtj, any jtk) *)
Theorem kernel_step_descent pl r (J jtj jtk : qmat) (lam : Qc) :
  wf pl 1 jtk ->
  (forall a c, a < pl -> c < pl ->
     mget QIF jtj a c = sumf r (fun k => cmul (cj (mget QIF J k a)) (mget QIF J k c))) ->
  (0 <= lam)%Qc ->
  LuNonsing.kernel_trivial QIF (j1_matrix pl jtj lam) pl ->
  exists d, kernel_step pl jtj jtk lam = Some d /\
    let dv := fun i => nth i d qi0 : QIF in
    let q := (qsum r (fun k => qi_nrm (Jd pl J dv k)) + lam * qsum pl (fun i => qi_nrm (dv i)))%Qc in
    sumf pl (fun i => cmul (cj (dv i)) (mget QIF jtk i 0)) = qi_of_Qc q /\
    (0 <= q)%Qc /\
    (q = 0%Qc <-> forall i, i < pl -> mget QIF jtk i 0 = qi0).
Proof.
  intros Hw Hg Hl Hk.
  destruct (kernel_step_spec pl jtj jtk lam Hw Hk) as (d & Hd & Hlen & Hsol & Hiff).
  exists d. split; [exact Hd|]. cbv zeta. split; [|split; [|split]].
  - exact (descent_value pl r J jtj jtk lam (fun i => nth i d qi0) Hg Hsol).
  - exact (descent_nonneg pl r J lam (fun i => nth i d qi0) Hl).
  - intros Hz. exact (descent_zero_stationary pl r J jtj jtk lam (fun i => nth i d qi0) Hg Hsol Hl Hz).
  - intros Hz.
    pose proof (descent_value pl r J jtj jtk lam (fun i => nth i d qi0) Hg Hsol) as E.
    rewrite (sumf_zero QIF pl) in E.
    2:{ intros i Hi. rewrite (Hz i Hi). apply qi_eq; simpl; ring. }
    apply (f_equal qre) in E. simpl in E. symmetry. exact E.
Qed.

(* the hypotheses are satisfiable: p_length 1, J = (1/8, 1/8, 1/8)^T, J^H J = 3/64 (the value of the
   one-port instance of AutoKernelQI.v), J^H k = 1/4, lambda = 1/10 *)
Example kernel_step_descent_instance :
  let J : qmat := [[mkqi 1 8 0 1]; [mkqi 1 8 0 1]; [mkqi 1 8 0 1]] in
  let jtj : qmat := [[mkqi 3 64 0 1]] in
  let jtk : qmat := [[mkqi 1 4 0 1]] in
  wf 1 1 jtk /\
  (forall a c, a < 1 -> c < 1 ->
     mget QIF jtj a c = sumf 3 (fun k => cmul (cj (mget QIF J k a)) (mget QIF J k c))) /\
  (0 <= Q2Qc (1 # 10))%Qc /\
  LuNonsing.kernel_trivial QIF (j1_matrix 1 jtj (Q2Qc (1 # 10))) 1.
Proof.
  cbv zeta. split; [split; [reflexivity|repeat constructor]|]. split; [|split].
  - intros a c Ha Hc. assert (a = 0) by lia. assert (c = 0) by lia. subst.
    apply qi_eqb_eq. vm_compute. reflexivity.
  - unfold Qcle. simpl. unfold Qle. simpl. lia.
  - apply LV.SelfCal.AutoKernelQI.kernel_trivial_1. apply qi_neqb. vm_compute. reflexivity.
Qed.

(* the theorem applied to the instance: the conclusion follows from the hypotheses just shown *)
Example kernel_step_descent_applied :
  let J : qmat := [[mkqi 1 8 0 1]; [mkqi 1 8 0 1]; [mkqi 1 8 0 1]] in
  let jtj : qmat := [[mkqi 3 64 0 1]] in
  let jtk : qmat := [[mkqi 1 4 0 1]] in
  let lam := Q2Qc (1 # 10) in
  exists d, kernel_step 1 jtj jtk lam = Some d /\
    let dv := fun i => nth i d qi0 : QIF in
    let q := (qsum 3 (fun k => qi_nrm (Jd 1 J dv k)) + lam * qsum 1 (fun i => qi_nrm (dv i)))%Qc in
    sumf 1 (fun i => cmul (cj (dv i)) (mget QIF jtk i 0)) = qi_of_Qc q /\
    (0 <= q)%Qc /\
    (q = 0%Qc <-> forall i, i < 1 -> mget QIF jtk i 0 = qi0).
Proof.
  cbv zeta. destruct kernel_step_descent_instance as (H1 & H2 & H3 & H4).
  exact (kernel_step_descent 1 3 _ _ _ _ H1 H2 H3 H4).
Qed.
