(* Weighted least squares over a field with a squared modulus: the cost the QR solves of
   _vnacal_new_solve_simple / _vnacal_new_solve_auto minimise when the equations are multiplied
   by real weights.  No proofs in this file.
   An equation is (weight, coefficient row, right-hand side). *)
Require Import QArith Qcanon List.
Import ListNotations.
Require Import LV.Base.CField.
Local Open Scope Qc_scope.

Section Lsq.
Variable K : CField.
Variable N : K -> Qc.                       (* |z|^2 *)

Definition eqn := (Qc * list K * K)%type.

Fixpoint dot (row x : list K) : K :=
  match row, x with
  | a :: r, v :: y => cadd (cmul a v) (dot r y)
  | _, _ => c0
  end.

(* sum over the equations of | w (row . x - b) |^2 = w^2 |row . x - b|^2 *)
Fixpoint cost (sys : list eqn) (x : list K) : Qc :=
  match sys with
  | [] => 0
  | (w, row, b) :: r => w * w * N (csub (dot row x) b) + cost r x
  end.

Definition minimises (sys : list eqn) (x : list K) : Prop :=
  forall y, length y = length x -> cost sys x <= cost sys y.

(* the same equations with every weight replaced by 1: the unweighted problem *)
Definition unweighted (sys : list eqn) : list eqn := map (fun e => (1, snd (fst e), snd e)) sys.

Definition consistent (sys : list eqn) (x0 : list K) : Prop :=
  forall w row b, In (w, row, b) sys -> dot row x0 = b.
Definition weights_nonzero (sys : list eqn) : Prop :=
  forall w row b, In (w, row, b) sys -> w <> 0.
(* full column rank: the coefficient rows separate vectors of the right length *)
Definition injective (sys : list eqn) (x0 : list K) : Prop :=
  forall y, length y = length x0 ->
  (forall w row b, In (w, row, b) sys -> dot row y = dot row x0) -> y = x0.
End Lsq.
