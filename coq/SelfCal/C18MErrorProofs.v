(* Lemmas about SelfCal/C18MErrorModel.v: the stored noise model depends only on the last call. *)
Require Import List Arith Lia.
Import ListNotations.
Require Import LV.SelfCal.C18MErrorModel.

Section P.
Variable R : Type.
Variable r0 : R.

Notation mvec := (mvec R).
Notation set_m_error := (set_m_error R r0).
Notation run := (run R r0).
Notation declared := (declared R r0).
Notation last_effective := (last_effective R r0).

Lemma write_nf_init (v : mvec) : forall nf, length v = length nf ->
  write_nf R (init_vec R r0 true v) nf = combine nf (repeat r0 (length nf)).
Proof.
  unfold init_vec. induction v as [|[a b] v IH]; intros [|x nf] H; simpl in *; try discriminate; [reflexivity|].
  f_equal. apply IH. lia.
Qed.

Lemma write_tr_combine (nf : list R) : forall zs t, length zs = length nf -> length t = length nf ->
  write_tr R (combine nf zs) t = combine nf t.
Proof.
  induction nf as [|x nf IH]; intros [|z zs] [|y t] Hz Ht; simpl in *; try discriminate; [reflexivity|].
  f_equal. apply IH; lia.
Qed.

Lemma declared_length F nf tr :
  length nf = F -> match tr with Some t => length t = F | None => True end ->
  length (declared F nf tr) = F.
Proof.
  intros Hn Ht. unfold C18MErrorModel.declared. rewrite combine_length.
  destruct tr as [t|]; [rewrite Ht | rewrite repeat_length]; lia.
Qed.

(* ONE call: whatever the earlier state (no vector, or a vector left by any earlier call) and
   whatever malloc returned, a successful call leaves exactly what it declares; a NULL
   sigma_tr_vector leaves a tracking term of zero at every frequency *)
Lemma set_m_error_last_call_wins (F : nat) (fresh : mvec) (st : option mvec) nf tr :
  state_wf R F st -> call_wf R F (fresh, MSet R nf tr) ->
  set_m_error true fresh st (MSet R nf tr) = Some (declared F nf tr).
Proof.
  intros Hs (Hf & Hn & Ht). simpl in Hf, Hn, Ht. unfold C18MErrorModel.set_m_error, C18MErrorModel.declared.
  assert (Hv : length (alloc_if_needed R fresh st) = length nf).
  { destruct st as [v|]; simpl in *; lia. }
  rewrite (write_nf_init _ nf Hv). f_equal. rewrite Hn.
  destruct tr as [t|]; [|reflexivity].
  apply write_tr_combine; [rewrite repeat_length|]; lia.
Qed.

Lemma set_m_error_independent_of_state (F : nat) (fresh1 fresh2 : mvec) (st1 st2 : option mvec) nf tr :
  state_wf R F st1 -> state_wf R F st2 ->
  call_wf R F (fresh1, MSet R nf tr) -> call_wf R F (fresh2, MSet R nf tr) ->
  set_m_error true fresh1 st1 (MSet R nf tr) = set_m_error true fresh2 st2 (MSet R nf tr).
Proof.
  intros H1 H2 C1 C2. rewrite (set_m_error_last_call_wins F fresh1 st1 nf tr H1 C1).
  rewrite (set_m_error_last_call_wins F fresh2 st2 nf tr H2 C2). reflexivity.
Qed.

Lemma set_m_error_wf (F : nat) (fresh : mvec) (st : option mvec) c :
  state_wf R F st -> call_wf R F (fresh, c) -> state_wf R F (set_m_error true fresh st c).
Proof.
  intros Hs Hc. destruct c as [| |nf tr]; [exact I | exact Hs |].
  rewrite (set_m_error_last_call_wins F fresh st nf tr Hs Hc).
  destruct Hc as (_ & Hn & Ht). simpl in *. apply declared_length; assumption.
Qed.

(* HISTORIES: after any sequence of calls (set with and without tracking vector, clear, rejected
   calls, in any order) the stored vector is the one declared by the last call that was not
   rejected -- nothing of any earlier call survives *)
Lemma run_last_effective (F : nat) (h : list (mvec * mcall R)) : forall st,
  state_wf R F st -> Forall (call_wf R F) h ->
  run true st h = last_effective F h st.
Proof.
  induction h as [|[fresh c] h IH]; intros st Hs Hh; [reflexivity|].
  inversion Hh as [|? ? Hc Hr]; subst. unfold C18MErrorModel.run in *. cbn [fold_left fst snd].
  rewrite IH; [|apply set_m_error_wf; assumption|exact Hr].
  destruct c as [| |nf tr]; cbn [C18MErrorModel.last_effective]; try reflexivity.
  rewrite (set_m_error_last_call_wins F fresh st nf tr Hs Hc). reflexivity.
Qed.

Lemma run_app reinit st (h1 h2 : list (mvec * mcall R)) :
  C18MErrorModel.run R r0 reinit st (h1 ++ h2) =
  C18MErrorModel.run R r0 reinit (C18MErrorModel.run R r0 reinit st h1) h2.
Proof. unfold C18MErrorModel.run. apply fold_left_app. Qed.

Lemma run_snoc reinit st (h : list (mvec * mcall R)) fresh c :
  C18MErrorModel.run R r0 reinit st (h ++ [(fresh, c)]) =
  C18MErrorModel.set_m_error R r0 reinit fresh (C18MErrorModel.run R r0 reinit st h) c.
Proof. rewrite run_app. reflexivity. Qed.

Lemma run_wf (F : nat) (h : list (mvec * mcall R)) : forall st,
  state_wf R F st -> Forall (call_wf R F) h -> state_wf R F (run true st h).
Proof.
  induction h as [|[fresh c] h IH]; intros st Hs Hh; [exact Hs|].
  inversion Hh as [|? ? Hc Hr]; subst. unfold C18MErrorModel.run in *. cbn [fold_left fst snd].
  apply IH; [apply set_m_error_wf; assumption | exact Hr].
Qed.

(* the stored noise / tracking vectors depend only on the last call *)
Lemma run_depends_only_on_last_call (F : nat) (h1 h2 : list (mvec * mcall R)) (st1 st2 : option mvec)
  (fresh1 fresh2 : mvec) nf tr :
  state_wf R F st1 -> state_wf R F st2 -> Forall (call_wf R F) h1 -> Forall (call_wf R F) h2 ->
  call_wf R F (fresh1, MSet R nf tr) -> call_wf R F (fresh2, MSet R nf tr) ->
  run true st1 (h1 ++ [(fresh1, MSet R nf tr)]) = Some (declared F nf tr) /\
  run true st1 (h1 ++ [(fresh1, MSet R nf tr)]) = run true st2 (h2 ++ [(fresh2, MSet R nf tr)]).
Proof.
  intros S1 S2 H1 H2 C1 C2. rewrite !run_snoc.
  rewrite (set_m_error_last_call_wins F fresh1 _ nf tr (run_wf F h1 st1 S1 H1) C1).
  rewrite (set_m_error_last_call_wins F fresh2 _ nf tr (run_wf F h2 st2 S2 H2) C2).
  split; reflexivity.
Qed.

(* set (with tracking) then set with sigma_tr NULL: the tracking term is zero again *)
Lemma set_then_set_without_tracking_clears (F : nat) (fresh1 fresh2 : mvec) (st : option mvec) nf1 tr1 nf2 :
  state_wf R F st -> call_wf R F (fresh1, MSet R nf1 (Some tr1)) -> call_wf R F (fresh2, MSet R nf2 None) ->
  run true st [(fresh1, MSet R nf1 (Some tr1)); (fresh2, MSet R nf2 None)] = Some (combine nf2 (repeat r0 F)).
Proof.
  intros Hs C1 C2. rewrite (run_last_effective F); [reflexivity | exact Hs |].
  constructor; [exact C1 | constructor; [exact C2 | constructor]].
Qed.

(* a clear and a rejected call *)
Lemma run_clear_last (h : list (mvec * mcall R)) st fresh :
  run true st (h ++ [(fresh, MClear R)]) = None.
Proof. rewrite run_snoc. reflexivity. Qed.

Lemma run_invalid_last (h : list (mvec * mcall R)) st fresh :
  run true st (h ++ [(fresh, MInvalid R)]) = run true st h.
Proof. rewrite run_snoc. reflexivity. Qed.
End P.

(* ---- instances over numbered values (0 = the value 0.0) ---- *)
Definition n_run := run nat 0.

(* hypotheses met, non-trivially: two frequencies; set with tracking, rejected call, set without
   tracking on the reused vector, clear, set again on a fresh vector with arbitrary contents *)
Example run_instance :
  let h := [([(91, 92); (93, 94)], MSet nat [1; 2] (Some [3; 4]));
            ([], MInvalid nat);
            ([(95, 96); (97, 98)], MSet nat [5; 6] None)] in
  Forall (call_wf nat 2) h /\
  n_run true None h = Some [(5, 0); (6, 0)] /\
  n_run true None (h ++ [([], MClear nat); ([(81, 82); (83, 84)], MSet nat [7; 8] (Some [9; 10]))])
    = Some [(7, 9); (8, 10)].
Proof.
  split; [|split; vm_compute; reflexivity].
  repeat constructor.
Qed.

(* Without the "always init" loop (vector from calloc, reused by later calls) the theorem is
   false: after set (nf, tr) then set (nf', NULL) the tracking term of the FIRST call is still
   there. *)
Lemma without_reinit_keeps_earlier_tracking_refuted :
  exists (F : nat) (h : list (mvec nat * mcall nat)),
    Forall (call_wf nat F) h /\
    Forall (fun fc => fst fc = repeat (0, 0) F) h /\            (* calloc: zero filled *)
    n_run false None h <> last_effective nat 0 F h None /\
    n_run false None h = Some [(5, 3)] /\ last_effective nat 0 F h None = Some [(5, 0)].
Proof.
  exists 1, [([(0, 0)], MSet nat [1] (Some [3])); ([(0, 0)], MSet nat [5] None)].
  split; [repeat constructor|]. split; [repeat constructor|].
  split; [vm_compute; discriminate|]. split; vm_compute; reflexivity.
Qed.

(* ... while a single call on a fresh calloc'ed vector is right in both forms (why a test that
   calls the function once cannot tell them apart) *)
Lemma without_reinit_single_call_agrees (F : nat) nf tr :
  call_wf nat F (repeat (0, 0) F, MSet nat nf tr) ->
  n_run false None [(repeat (0, 0) F, MSet nat nf tr)] = n_run true None [(repeat (0, 0) F, MSet nat nf tr)].
Proof.
  intros (Hf & Hn & Ht). simpl in Hf, Hn, Ht. unfold n_run, run. cbn [fold_left fst snd].
  unfold set_m_error. f_equal. cbn [alloc_if_needed]. unfold init_vec.
  assert (E : map (fun _ : nat * nat => (0, 0)) (repeat (0, 0) F) = repeat (0, 0) F).
  { clear. induction F; simpl; [reflexivity|]. f_equal. exact IHF. }
  rewrite E. reflexivity.
Qed.

(* ---- calls with their arguments (Section Args of the model) ---- *)
Section PA.
Variable R : Type.
Variable r0 : R.
Variables leb ltb : R -> R -> bool.
Variable interp : list R -> list R -> R -> R.

Notation lower := (lower R r0 leb ltb interp).
Notation run_args := (run_args R r0 leb ltb interp).
Notation values_at := (values_at R r0 interp).

Lemma values_at_length env a ys : length (values_at env a ys) = length (en_calf R env).
Proof.
  unfold C18MErrorModel.values_at. destruct (Nat.eqb (a_n R a) 1).
  - apply repeat_length.
  - destruct (a_fv R a); rewrite map_length; [reflexivity | apply seq_length].
Qed.

(* whatever the arguments, the lowered call is well formed for F = vn_frequencies *)
Lemma lower_wf env a fresh : length fresh = length (en_calf R env) ->
  call_wf R (length (en_calf R env)) (fresh, lower env a).
Proof.
  intros Hf. unfold call_wf. cbn [snd fst].
  destruct (lower env a) as [| |nf tr] eqn:E; try exact I.
  unfold C18MErrorModel.lower in E.
  destruct (Nat.eqb (a_n R a) 0); [discriminate|].
  destruct (a_nf R a) as [nfv|]; [|destruct (a_tr R a); discriminate].
  repeat match type of E with (if ?c then _ else _) = _ => destruct c; [discriminate|] end.
  inversion E; subst. split; [exact Hf|]. split; [apply values_at_length|].
  destruct (a_tr R a); cbn; [apply values_at_length | exact I].
Qed.

Lemma run_args_as_run env h : forall st,
  run_args true env st h = run R r0 true st (map (fun fa => (fst fa, lower env (snd fa))) h).
Proof.
  induction h as [|[f a] h IH]; intros st; [reflexivity|].
  unfold C18MErrorModel.run_args, C18MErrorModel.run in *. cbn [fold_left map fst snd]. apply IH.
Qed.

Definition fresh_ok (env : menv R) (h : list (mvec R * margs R)) : Prop :=
  Forall (fun fa => length (fst fa) = length (en_calf R env)) h.

Lemma lowered_wf env h : fresh_ok env h ->
  Forall (call_wf R (length (en_calf R env))) (map (fun fa => (fst fa, lower env (snd fa))) h).
Proof.
  induction 1 as [|[f a] h Hf _ IH]; cbn [map]; constructor; [|exact IH].
  apply lower_wf. exact Hf.
Qed.

(* every history of calls, with any arguments (valid or not, any of the three kinds of grid, with or
   without sigma_tr_vector, NULL / NULL): the stored vector is that of the last call that returned 0 *)
Lemma run_args_last_effective env h st :
  state_wf R (length (en_calf R env)) st -> fresh_ok env h ->
  run_args true env st h =
  last_effective R r0 (length (en_calf R env)) (map (fun fa => (fst fa, lower env (snd fa))) h) st.
Proof.
  intros Hs Hh. rewrite run_args_as_run. apply run_last_effective; [exact Hs | apply lowered_wf; exact Hh].
Qed.

Lemma run_args_app env st h1 h2 : run_args true env st (h1 ++ h2) = run_args true env (run_args true env st h1) h2.
Proof. unfold C18MErrorModel.run_args. apply fold_left_app. Qed.

Lemma run_args_wf env h st :
  state_wf R (length (en_calf R env)) st -> fresh_ok env h ->
  state_wf R (length (en_calf R env)) (run_args true env st h).
Proof.
  intros Hs Hh. rewrite run_args_as_run. apply run_wf; [exact Hs | apply lowered_wf; exact Hh].
Qed.

(* THE LAST CALL WINS: after any history on any earlier state, a call that is not rejected leaves what
   the same call leaves on a structure that never saw another call (whatever malloc returned there) *)
Lemma m_error_last_call_wins env h st a fresh fresh' :
  state_wf R (length (en_calf R env)) st -> fresh_ok env h ->
  length fresh = length (en_calf R env) -> length fresh' = length (en_calf R env) ->
  lower env a <> MInvalid R ->
  run_args true env st (h ++ [(fresh, a)]) = run_args true env None [(fresh', a)].
Proof.
  intros Hs Hh Hf Hf' Hv. rewrite run_args_app.
  pose proof (run_args_wf env h st Hs Hh) as Hw.
  set (s := run_args true env st h) in *. clearbody s.
  unfold C18MErrorModel.run_args. cbn [fold_left fst snd]. unfold set_m_error_args.
  pose proof (lower_wf env a fresh Hf) as W1. pose proof (lower_wf env a fresh' Hf') as W2.
  destruct (lower env a) as [| |nf tr] eqn:E; [reflexivity | contradiction |].
  rewrite (set_m_error_last_call_wins R r0 _ fresh s nf tr Hw W1).
  rewrite (set_m_error_last_call_wins R r0 _ fresh' None nf tr I W2). reflexivity.
Qed.

(* a rejected call (return value -1) changes nothing *)
Lemma m_error_rejected_call_ignored env h st a fresh :
  lower env a = MInvalid R -> run_args true env st (h ++ [(fresh, a)]) = run_args true env st h.
Proof.
  intros E. rewrite run_args_app. unfold C18MErrorModel.run_args at 1. cbn [fold_left fst snd].
  unfold set_m_error_args. rewrite E. reflexivity.
Qed.

(* NULL / NULL with frequencies >= 1 disables the model after any history *)
Lemma m_error_disable env h st a fresh :
  a_n R a <> 0 -> a_nf R a = None -> a_tr R a = None ->
  run_args true env st (h ++ [(fresh, a)]) = None.
Proof.
  intros Hn Hnf Htr. rewrite run_args_app. unfold C18MErrorModel.run_args at 1. cbn [fold_left fst snd].
  unfold set_m_error_args, C18MErrorModel.lower. rewrite Hnf, Htr.
  destruct (Nat.eqb (a_n R a) 0) eqn:E; [apply Nat.eqb_eq in E; contradiction | reflexivity].
Qed.
End PA.

(* the three kinds of grid, a rejected call and a disable in one history over numbers (order on nat,
   "interpolation" = 100 + the frequency, calibration frequencies 10 20 30, admissible range [12, 28]):
   set on an own grid with tracking; a call with a sigma_nf of 0 (rejected); set on the calibration grid
   without tracking; then one point; NULL / NULL; one point again on a fresh vector *)
Definition n_env : menv nat := {| en_calf := [10; 20; 30]; en_fvalid := true; en_lo := 12; en_hi := 28; en_full_s_ok := true; en_gaps_ok := fun _ => true |}.
Definition n_run_args := run_args nat 0 Nat.leb Nat.ltb (fun _ _ f => 100 + f).
Definition n_returns := returns nat 0 Nat.leb Nat.ltb (fun _ _ f => 100 + f).
Example run_args_instance :
  let junk := [(91, 92); (93, 94); (95, 96)] in
  let h := [(junk, {| a_fv := Some [5; 40]; a_n := 2; a_nf := Some [1; 2]; a_tr := Some [3; 4] |});
            (junk, {| a_fv := None; a_n := 3; a_nf := Some [1; 0; 2]; a_tr := None |});
            (junk, {| a_fv := None; a_n := 3; a_nf := Some [6; 7; 8]; a_tr := None |})] in
  fresh_ok nat n_env h /\
  n_returns n_env h = [true; false; true] /\
  n_run_args true n_env None (firstn 2 h) = Some [(110, 110); (120, 120); (130, 130)] /\
  n_run_args true n_env None h = Some [(6, 0); (7, 0); (8, 0)] /\
  n_run_args true n_env None (h ++ [(junk, {| a_fv := None; a_n := 1; a_nf := Some [9]; a_tr := Some [4] |})])
    = Some [(9, 4); (9, 4); (9, 4)] /\
  n_run_args true n_env None (h ++ [(junk, {| a_fv := None; a_n := 1; a_nf := None; a_tr := None |})]) = None /\
  (* a grid that does not cover the calibration range is rejected *)
  n_returns n_env [(junk, {| a_fv := Some [15; 40]; a_n := 2; a_nf := Some [1; 2]; a_tr := None |})] = [false] /\
  (* without the "always init" loop the tracking term of the first call survives the third *)
  n_run_args false n_env None h = Some [(6, 110); (7, 120); (8, 130)].
Proof.
  cbv zeta. split; [repeat constructor|]. repeat split; vm_compute; reflexivity.
Qed.
