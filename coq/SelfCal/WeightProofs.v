(* Lemmas about SelfCal/WeightModel.v. *)
Require Import List Arith ZArith QArith Qcanon Lia.
Import ListNotations.
Require Import LV.Lin.MatL LV.SelfCal.WeightModel.

Section P.
Variable M R : Type.
Variable wt : M -> R.
Variable r0 : R.
Variable m0 : M.

Notation fill := (fill M R wt).
Notation fill_systems := (fill_systems M R wt).
Notation calc_weights := (calc_weights M R wt r0).
Notation total := (total M).
Notation offset_of := (offset_of M).

Lemma upd_length {A} (l : list A) i v : length (upd l i v) = length l.
Proof. revert i; induction l; intros [|i]; simpl; auto. Qed.

Lemma nth_upd_eq {A} (l : list A) i v d : (i < length l)%nat -> nth i (upd l i v) d = v.
Proof. revert i; induction l; intros [|i] H; simpl in *; try lia; auto. apply IHl; lia. Qed.

Lemma nth_upd_neq {A} (l : list A) i j v d : i <> j -> nth j (upd l i v) d = nth j l d.
Proof.
  revert i j; induction l; intros [|i] [|j] H; simpl; auto; try congruence.
Qed.

(* fill writes exactly the positions k .. k + |eqs| - 1 *)
Lemma fill_spec eqs : forall w k,
  (k + length eqs <= length w)%nat ->
  snd (fill w k eqs) = (k + length eqs)%nat /\
  length (fst (fill w k eqs)) = length w /\
  (forall j, (j < k \/ k + length eqs <= j)%nat -> nth j (fst (fill w k eqs)) r0 = nth j w r0) /\
  (forall e, (e < length eqs)%nat -> nth (k + e) (fst (fill w k eqs)) r0 = wt (nth e eqs m0)).
Proof.
  induction eqs as [|m r IH]; intros w k Hlen; simpl in *.
  - repeat split; auto; intros; lia.
  - destruct (IH (upd w k (wt m)) (S k)) as (H1 & H2 & H3 & H4); [rewrite upd_length; lia|].
    rewrite upd_length in H2. repeat split.
    + rewrite H1; lia.
    + exact H2.
    + intros j Hj. rewrite H3 by lia. apply nth_upd_neq; lia.
    + intros [|e] He.
      * rewrite Nat.add_0_r. rewrite H3 by lia. apply nth_upd_eq; lia.
      * replace (k + S e)%nat with (S k + e)%nat by lia. apply H4; lia.
Qed.

Lemma total_app a b : total (a ++ b) = (total a + total b)%nat.
Proof. unfold WeightModel.total. induction a; simpl; auto. rewrite IHa. lia. Qed.

(* later systems do not touch the positions below their starting index *)
Lemma fill_systems_keep r : forall kk w j,
  (kk + total r <= length w)%nat -> (j < kk)%nat ->
  nth j (fill_systems false w kk r) r0 = nth j w r0 /\
  length (fill_systems false w kk r) = length w.
Proof.
  induction r as [|q r' IHr]; intros kk w j Hlen Hj; simpl; [auto|].
  unfold WeightModel.total in Hlen; simpl in Hlen. fold (total r') in Hlen.
  destruct (fill_spec q w kk ltac:(lia)) as (G1 & G2 & G3 & G4).
  destruct (fill w kk q) as [w2 k2]. simpl in *. subst k2.
  destruct (IHr (kk + length q)%nat w2 j ltac:(lia) ltac:(lia)) as (A & B).
  split; [rewrite A; apply G3; lia | lia].
Qed.

(* running index: after the systems before s have been written starting at k, the equations
   of system s sit at k + offset .. and later systems do not touch them *)
Lemma fill_systems_running sys : forall w k s e,
  (k + total sys <= length w)%nat ->
  (s < length sys)%nat -> (e < length (nth s sys []))%nat ->
  nth (k + offset_of sys s + e) (fill_systems false w k sys) r0 = wt (nth e (nth s sys []) m0) /\
  length (fill_systems false w k sys) = length w.
Proof.
  induction sys as [|eqs r IH]; intros w k s e Hlen Hs He; simpl in *; [lia|].
  unfold WeightModel.total in Hlen; simpl in Hlen. fold (total r) in Hlen.
  destruct (fill_spec eqs w k ltac:(lia)) as (H1 & H2 & H3 & H4).
  destruct (fill w k eqs) as [w' k']. simpl in *. subst k'.
  destruct s as [|s].
  - unfold WeightModel.offset_of; simpl. rewrite Nat.add_0_r.
    destruct (fill_systems_keep r (k + length eqs)%nat w' (k + e)%nat ltac:(lia) ltac:(lia)) as (A & B).
    split; [rewrite A; apply H4; exact He | lia].
  - destruct (IH w' (k + length eqs)%nat s e ltac:(lia) ltac:(lia) He) as (A & B).
    split; [|lia].
    unfold WeightModel.offset_of in *; simpl. unfold WeightModel.total in *; simpl.
    replace (k + (length eqs + fold_right (fun e0 n => (length e0 + n)%nat) 0%nat (firstn s r)) + e)%nat
      with (k + length eqs + fold_right (fun e0 n => (length e0 + n)%nat) 0%nat (firstn s r) + e)%nat by lia.
    exact A.
Qed.

(* The weight multiplying equation e of system s is the one computed from that equation's own
   measurement: holds for both consumers when the vector is filled with one running index and
   solve_simple adds the offset of its system. *)
Lemma weights_aligned (sys : systems M) (s e : nat) :
  (s < length sys)%nat -> (e < length (nth s sys []))%nat ->
  weight_simple M R wt r0 false true sys s e = own_weight M R wt m0 sys s e /\
  weight_auto M R wt r0 false sys s e = own_weight M R wt m0 sys s e.
Proof.
  intros Hs He. unfold weight_simple, weight_auto, simple_index, auto_index, own_weight, WeightModel.calc_weights.
  destruct (fill_systems_running sys (repeat r0 (total sys)) 0%nat s e) as (A & _);
    [rewrite repeat_length; lia | exact Hs | exact He |].
  simpl in A. split; exact A.
Qed.

(* With a single system all variants coincide (the shipped code is right for every type but
   UE14 / E12). *)
Lemma weights_aligned_single_system (eqs : list M) (e : nat) (restart offset : bool) :
  (e < length eqs)%nat ->
  weight_simple M R wt r0 restart offset [eqs] 0 e = wt (nth e eqs m0) /\
  weight_auto M R wt r0 restart [eqs] 0 e = wt (nth e eqs m0).
Proof.
  intros He. unfold weight_simple, weight_auto, simple_index, auto_index, WeightModel.calc_weights,
    WeightModel.offset_of, WeightModel.total. simpl.
  assert (Hr : (if restart then 0%nat else 0%nat) = 0%nat) by (destruct restart; reflexivity).
  rewrite Hr. rewrite Nat.add_0_r.
  destruct (fill_spec eqs (repeat r0 (length eqs)) 0%nat) as (H1 & H2 & H3 & H4);
    [rewrite repeat_length; lia|].
  destruct (fill (repeat r0 (length eqs)) 0%nat eqs) as [w k]. simpl in *.
  destruct offset; simpl; split; apply (H4 e He).
Qed.
End P.

(* ---- degrees of freedom ---- *)
Section Dof.
Local Open Scope Z_scope.

Lemma dof_systems_acc unknowns l : forall acc,
  fold_left (fun df n => df + 2 * n - 2 * unknowns) l acc =
  acc + 2 * zsum l - 2 * unknowns * Z.of_nat (length l).
Proof.
  unfold zsum. induction l as [|n r IH]; intros acc; cbn [fold_left fold_right length].
  - lia.
  - rewrite IH. rewrite Nat2Z.inj_succ. nia.
Qed.

Definition leak_term (n : Z) : Z := if Z.ltb 1 n then 2 * (n - 1) else 0.

Lemma dof_leakage_acc l : forall acc, dof_leakage l acc = acc + zsum (map leak_term l).
Proof.
  unfold dof_leakage, zsum. induction l as [|n r IH]; intros acc; cbn [fold_left fold_right map].
  - lia.
  - rewrite IH. unfold leak_term. destruct (Z.ltb 1 n); lia.
Qed.

(* df = 2 (total equations - systems * unknowns per system) + sum over the leakage cells with
   n > 1 samples of 2 (n - 1) *)
Lemma dof_count unknowns eq_counts leak_counts :
  dof unknowns eq_counts leak_counts =
  2 * (zsum eq_counts - Z.of_nat (length eq_counts) * unknowns) + zsum (map leak_term leak_counts).
Proof.
  unfold dof, dof_systems. rewrite dof_leakage_acc, dof_systems_acc. nia.
Qed.

(* an exactly determined calibration without leakage samples has no degree of freedom *)
Lemma dof_exactly_determined unknowns k :
  dof unknowns (repeat unknowns k) [] = 0.
Proof.
  rewrite dof_count. rewrite repeat_length.
  assert (H : zsum (repeat unknowns k) = Z.of_nat k * unknowns).
  { unfold zsum. induction k; [reflexivity|]. cbn [repeat fold_right].
    rewrite IHk, Nat2Z.inj_succ. nia. }
  rewrite H. unfold zsum; cbn [map fold_right]. lia.
Qed.
End Dof.

(* ---- no degrees of freedom: never rejected ---- *)
Lemma exactly_determined_never_rejected (tail : Z -> Qc -> Qc) (unknowns : Z) (k : nat) (chisq limit : Qc) :
  (limit <= 1)%Qc ->
  pvalue_of tail (dof unknowns (repeat unknowns k) []) chisq = 1%Qc /\
  rejected (pvalue_of tail (dof unknowns (repeat unknowns k) []) chisq) limit = false.
Proof.
  intros Hl. rewrite dof_exactly_determined. unfold pvalue_of. simpl. split; [reflexivity|].
  unfold rejected. destruct (Qclt_le_dec 1 limit) as [H|H]; [|reflexivity].
  exfalso. exact (Qclt_not_le _ _ H Hl).
Qed.

(* with at least one degree of freedom the verdict is that of the tail function *)
Lemma overdetermined_uses_tail (tail : Z -> Qc -> Qc) (df : Z) (chisq : Qc) :
  (1 <= df)%Z -> pvalue_of tail df chisq = tail df chisq.
Proof. intros H. unfold pvalue_of. destruct (Z.ltb df 1) eqn:E; [apply Z.ltb_lt in E; lia | reflexivity]. Qed.
