(* Lemmas about SelfCal/WeightModel.v. *)
Require Import List Arith ZArith QArith Qcanon Lia.
Import ListNotations.
Require Import LV.Lin.MatL LV.SelfCal.WeightModel.

Section P.
Variable M R : Type.
Variable wt : M -> R.
Variable r0 : R.
Variable m0 : M.

Notation fill := (fill M R wt).
Notation fill_systems := (fill_systems M R wt).
Notation calc_weights := (calc_weights M R wt r0).
Notation total := (total M).
Notation offset_of := (offset_of M).

Lemma upd_length {A} (l : list A) i v : length (upd l i v) = length l.
Proof. revert i; induction l; intros [|i]; simpl; auto. Qed.

Lemma nth_upd_eq {A} (l : list A) i v d : (i < length l)%nat -> nth i (upd l i v) d = v.
Proof. revert i; induction l; intros [|i] H; simpl in *; try lia; auto. apply IHl; lia. Qed.

Lemma nth_upd_neq {A} (l : list A) i j v d : i <> j -> nth j (upd l i v) d = nth j l d.
Proof.
  revert i j; induction l; intros [|i] [|j] H; simpl; auto; try congruence.
Qed.

(* fill writes exactly the positions k .. k + |eqs| - 1 *)
Lemma fill_spec eqs : forall w k,
  (k + length eqs <= length w)%nat ->
  snd (fill w k eqs) = (k + length eqs)%nat /\
  length (fst (fill w k eqs)) = length w /\
  (forall j, (j < k \/ k + length eqs <= j)%nat -> nth j (fst (fill w k eqs)) r0 = nth j w r0) /\
  (forall e, (e < length eqs)%nat -> nth (k + e) (fst (fill w k eqs)) r0 = wt (nth e eqs m0)).
Proof.
  induction eqs as [|m r IH]; intros w k Hlen; simpl in *.
  - repeat split; auto; intros; lia.
  - destruct (IH (upd w k (wt m)) (S k)) as (H1 & H2 & H3 & H4); [rewrite upd_length; lia|].
    rewrite upd_length in H2. repeat split.
    + rewrite H1; lia.
    + exact H2.
    + intros j Hj. rewrite H3 by lia. apply nth_upd_neq; lia.
    + intros [|e] He.
      * rewrite Nat.add_0_r. rewrite H3 by lia. apply nth_upd_eq; lia.
      * replace (k + S e)%nat with (S k + e)%nat by lia. apply H4; lia.
Qed.

Lemma total_app a b : total (a ++ b) = (total a + total b)%nat.
Proof. unfold WeightModel.total. induction a; simpl; auto. rewrite IHa. lia. Qed.

(* later systems do not touch the positions below their starting index *)
Lemma fill_systems_keep r : forall kk w j,
  (kk + total r <= length w)%nat -> (j < kk)%nat ->
  nth j (fill_systems false w kk r) r0 = nth j w r0 /\
  length (fill_systems false w kk r) = length w.
Proof.
  induction r as [|q r' IHr]; intros kk w j Hlen Hj; simpl; [auto|].
  unfold WeightModel.total in Hlen; simpl in Hlen. fold (total r') in Hlen.
  destruct (fill_spec q w kk ltac:(lia)) as (G1 & G2 & G3 & G4).
  destruct (fill w kk q) as [w2 k2]. simpl in *. subst k2.
  destruct (IHr (kk + length q)%nat w2 j ltac:(lia) ltac:(lia)) as (A & B).
  split; [rewrite A; apply G3; lia | lia].
Qed.

(* running index: after the systems before s have been written starting at k, the equations
   of system s sit at k + offset .. and later systems do not touch them *)
Lemma fill_systems_running sys : forall w k s e,
  (k + total sys <= length w)%nat ->
  (s < length sys)%nat -> (e < length (nth s sys []))%nat ->
  nth (k + offset_of sys s + e) (fill_systems false w k sys) r0 = wt (nth e (nth s sys []) m0) /\
  length (fill_systems false w k sys) = length w.
Proof.
  induction sys as [|eqs r IH]; intros w k s e Hlen Hs He; simpl in *; [lia|].
  unfold WeightModel.total in Hlen; simpl in Hlen. fold (total r) in Hlen.
  destruct (fill_spec eqs w k ltac:(lia)) as (H1 & H2 & H3 & H4).
  destruct (fill w k eqs) as [w' k']. simpl in *. subst k'.
  destruct s as [|s].
  - unfold WeightModel.offset_of; simpl. rewrite Nat.add_0_r.
    destruct (fill_systems_keep r (k + length eqs)%nat w' (k + e)%nat ltac:(lia) ltac:(lia)) as (A & B).
    split; [rewrite A; apply H4; exact He | lia].
  - destruct (IH w' (k + length eqs)%nat s e ltac:(lia) ltac:(lia) He) as (A & B).
    split; [|lia].
    unfold WeightModel.offset_of in *; simpl. unfold WeightModel.total in *; simpl.
    replace (k + (length eqs + fold_right (fun e0 n => (length e0 + n)%nat) 0%nat (firstn s r)) + e)%nat
      with (k + length eqs + fold_right (fun e0 n => (length e0 + n)%nat) 0%nat (firstn s r) + e)%nat by lia.
    exact A.
Qed.

(* The weight multiplying equation e of system s is the one computed from that equation's own
   measurement: holds for both consumers when the vector is filled with one running index and
   solve_simple adds the offset of its system. *)
Lemma weights_aligned (sys : systems M) (s e : nat) :
  (s < length sys)%nat -> (e < length (nth s sys []))%nat ->
  weight_simple M R wt r0 false true sys s e = own_weight M R wt m0 sys s e /\
  weight_auto M R wt r0 false sys s e = own_weight M R wt m0 sys s e.
Proof.
  intros Hs He. unfold weight_simple, weight_auto, simple_index, auto_index, own_weight, WeightModel.calc_weights.
  destruct (fill_systems_running sys (repeat r0 (total sys)) 0%nat s e) as (A & _);
    [rewrite repeat_length; lia | exact Hs | exact He |].
  simpl in A. split; exact A.
Qed.

(* With a single system all variants coincide (the shipped code is right for every type but
   UE14 / E12). *)
Lemma weights_aligned_single_system (eqs : list M) (e : nat) (restart offset : bool) :
  (e < length eqs)%nat ->
  weight_simple M R wt r0 restart offset [eqs] 0 e = wt (nth e eqs m0) /\
  weight_auto M R wt r0 restart [eqs] 0 e = wt (nth e eqs m0).
Proof.
  intros He. unfold weight_simple, weight_auto, simple_index, auto_index, WeightModel.calc_weights,
    WeightModel.offset_of, WeightModel.total. simpl.
  assert (Hr : (if restart then 0%nat else 0%nat) = 0%nat) by (destruct restart; reflexivity).
  rewrite Hr. rewrite Nat.add_0_r.
  destruct (fill_spec eqs (repeat r0 (length eqs)) 0%nat) as (H1 & H2 & H3 & H4);
    [rewrite repeat_length; lia|].
  destruct (fill (repeat r0 (length eqs)) 0%nat eqs) as [w k]. simpl in *.
  destruct offset; simpl; split; apply (H4 e He).
Qed.

(* ---- w_offset as the loop of solve_simple computes it (per-system equation counts) ---- *)
Lemma offset_of_cons eqs r s : offset_of (eqs :: r) (S s) = (length eqs + offset_of r s)%nat.
Proof. reflexivity. Qed.

Lemma running_offsets_nth sys : forall k s, (s < length sys)%nat ->
  nth s (running_offsets M k sys) 0%nat = (k + offset_of sys s)%nat.
Proof.
  induction sys as [|eqs r IH]; intros k s Hs; simpl in Hs; [lia|].
  destruct s as [|s]; cbn [running_offsets nth].
  - unfold WeightModel.offset_of; simpl. lia.
  - rewrite IH by lia. rewrite offset_of_cons. lia.
Qed.

Lemma running_offsets_length sys : forall k, length (running_offsets M k sys) = length sys.
Proof. induction sys; intros k; simpl; auto. Qed.

(* the loop form reads the same element as the offset form of simple_index *)
Lemma simple_index_loop_eq (sys : systems M) (s e : nat) :
  (s < length sys)%nat -> simple_index_loop M sys s e = simple_index M true sys s e.
Proof.
  intros Hs. unfold simple_index_loop, simple_index. rewrite running_offsets_nth by exact Hs. lia.
Qed.

(* hence: with w_offset advanced by each system's OWN equation count, every equation of every
   system -- whatever the sizes of the systems -- is multiplied by the weight of its own
   measurement *)
Lemma weights_aligned_loop (sys : systems M) (s e : nat) :
  (s < length sys)%nat -> (e < length (nth s sys []))%nat ->
  weight_simple_loop M R wt r0 sys s e = own_weight M R wt m0 sys s e.
Proof.
  intros Hs He. unfold weight_simple_loop. rewrite simple_index_loop_eq by exact Hs.
  exact (proj1 (weights_aligned sys s e Hs He)).
Qed.

(* the closed form "sindex * equations" reads the right element exactly when the systems before
   s hold s times the count of system s ... *)
Lemma closed_form_iff (sys : systems M) (s e : nat) :
  simple_index_closed M sys s e = simple_index M true sys s e <->
  offset_of sys s = (s * length (nth s sys []))%nat.
Proof. unfold simple_index_closed, simple_index. lia. Qed.

Lemma offset_of_equal_sizes (L : nat) (sys : systems M) :
  (forall q, In q sys -> length q = L) -> forall s, (s <= length sys)%nat -> offset_of sys s = (s * L)%nat.
Proof.
  induction sys as [|eqs r IH]; intros Hall s Hs; simpl in Hs.
  - assert (s = 0%nat) by lia. subst. reflexivity.
  - destruct s as [|s]; [reflexivity|].
    rewrite offset_of_cons, IH; [|intros q Hq; apply Hall; right; exact Hq|lia].
    rewrite (Hall eqs (or_introl eq_refl)). lia.
Qed.

(* ... in particular when all systems have the same number of equations (which is why a
   calibration with equally sized column systems cannot tell the two forms apart) *)
Lemma closed_form_equal_sizes (L : nat) (sys : systems M) (s e : nat) :
  (forall q, In q sys -> length q = L) -> (s < length sys)%nat ->
  simple_index_closed M sys s e = simple_index M true sys s e.
Proof.
  intros Hall Hs. apply closed_form_iff. rewrite (offset_of_equal_sizes L sys Hall s) by lia.
  rewrite (Hall (nth s sys [])); [reflexivity | apply nth_In; exact Hs].
Qed.
End P.

(* ---- degrees of freedom ---- *)
Section Dof.
Local Open Scope Z_scope.

Lemma dof_systems_acc unknowns l : forall acc,
  fold_left (fun df n => df + 2 * n - 2 * unknowns) l acc =
  acc + 2 * zsum l - 2 * unknowns * Z.of_nat (length l).
Proof.
  unfold zsum. induction l as [|n r IH]; intros acc; cbn [fold_left fold_right length].
  - lia.
  - rewrite IH. rewrite Nat2Z.inj_succ. nia.
Qed.

Definition leak_term (n : Z) : Z := if Z.ltb 1 n then 2 * (n - 1) else 0.

Lemma dof_leakage_acc l : forall acc, dof_leakage l acc = acc + zsum (map leak_term l).
Proof.
  unfold dof_leakage, zsum. induction l as [|n r IH]; intros acc; cbn [fold_left fold_right map].
  - lia.
  - rewrite IH. unfold leak_term. destruct (Z.ltb 1 n); lia.
Qed.

(* df = 2 (total equations - systems * unknowns per system) + sum over the leakage cells with
   n > 1 samples of 2 (n - 1) *)
Lemma dof_count unknowns eq_counts leak_counts :
  dof unknowns eq_counts leak_counts =
  2 * (zsum eq_counts - Z.of_nat (length eq_counts) * unknowns) + zsum (map leak_term leak_counts).
Proof.
  unfold dof, dof_systems. rewrite dof_leakage_acc, dof_systems_acc. nia.
Qed.

(* ---- leakage cells with 0, 1 and more samples ---- *)
Lemma leak_term_cases n : (n <= 1 -> leak_term n = 0) /\ (1 < n -> leak_term n = 2 * (n - 1)).
Proof.
  unfold leak_term. split; intros H.
  - destruct (Z.ltb 1 n) eqn:E; [apply Z.ltb_lt in E; lia | reflexivity].
  - destruct (Z.ltb 1 n) eqn:E; [reflexivity | apply Z.ltb_ge in E; lia].
Qed.

Lemma leak_term_nonneg n : 0 <= leak_term n.
Proof. unfold leak_term. destruct (Z.ltb 1 n) eqn:E; [apply Z.ltb_lt in E; lia | lia]. Qed.

Lemma zsum_leak_nonneg l : 0 <= zsum (map leak_term l).
Proof.
  unfold zsum. induction l as [|n r IH]; cbn [map fold_right]; [lia|].
  pose proof (leak_term_nonneg n). lia.
Qed.

(* the leakage cells never take degrees of freedom away, whatever their sample counts
   (0 included) *)
Lemma dof_leakage_never_subtracts unknowns eq_counts leak_counts :
  dof_systems unknowns eq_counts <= dof unknowns eq_counts leak_counts.
Proof.
  unfold dof. rewrite dof_leakage_acc. pose proof (zsum_leak_nonneg leak_counts). lia.
Qed.

(* cells with at most one sample (none when every standard connects the two ports) do not
   change the count *)
Lemma dof_few_samples unknowns eq_counts leak_counts :
  (forall n, In n leak_counts -> n <= 1) ->
  dof unknowns eq_counts leak_counts = dof unknowns eq_counts [].
Proof.
  intros H. rewrite !dof_count. cbn [map]. f_equal.
  unfold zsum. induction leak_counts as [|n r IH]; cbn [map fold_right]; [reflexivity|].
  rewrite (proj1 (leak_term_cases n)) by (apply H; left; reflexivity).
  rewrite IH; [reflexivity | intros k Hk; apply H; right; exact Hk].
Qed.

Definition is_sample (gc : bool * bool) : bool := (fst gc && negb (snd gc))%bool.

Lemma leak_count_acc stds : forall acc,
  fold_left (fun n gc => if is_sample gc then n + 1 else n) stds acc =
  acc + Z.of_nat (length (filter is_sample stds)).
Proof.
  induction stds as [|gc r IH]; intros acc; cbn [fold_left filter length]; [simpl; lia|].
  rewrite IH. destruct (is_sample gc); cbn [length]; [rewrite Nat2Z.inj_succ|]; lia.
Qed.

(* vnlt_count = number of standards that measured the cell and do not connect its ports *)
Lemma leak_count_spec stds : leak_count stds = Z.of_nat (length (filter is_sample stds)).
Proof.
  unfold leak_count. transitivity (0 + Z.of_nat (length (filter is_sample stds))); [|lia].
  exact (leak_count_acc stds 0).
Qed.

Lemma leak_count_all_connected stds :
  (forall gc, In gc stds -> snd gc = true) -> leak_count stds = 0.
Proof.
  intros H. rewrite leak_count_spec.
  assert (E : filter is_sample stds = []).
  { induction stds as [|gc r IH]; [reflexivity|]. cbn [filter]. unfold is_sample at 1.
    rewrite (H gc (or_introl eq_refl)). rewrite Bool.andb_false_r.
    apply IH. intros g Hg. apply H. right. exact Hg. }
  rewrite E. reflexivity.
Qed.

(* when every standard connects every pair of ports the leakage cells have no samples and the
   degrees of freedom are those of the linear systems alone *)
Lemma dof_all_connected unknowns eq_counts (cells : list (list (bool * bool))) :
  (forall c, In c cells -> forall gc, In gc c -> snd gc = true) ->
  dof_of_standards unknowns eq_counts cells =
  2 * (zsum eq_counts - Z.of_nat (length eq_counts) * unknowns).
Proof.
  intros H. unfold dof_of_standards. rewrite dof_few_samples.
  - rewrite dof_count. unfold zsum at 2. cbn [map fold_right]. lia.
  - intros n Hn. apply in_map_iff in Hn. destruct Hn as (c & E & Hc). subst n.
    rewrite (leak_count_all_connected c (H c Hc)). lia.
Qed.

(* the unguarded variant subtracts two degrees of freedom for every cell without samples *)
Lemma dof_leakage_unguarded_acc l : forall acc,
  dof_leakage_unguarded l acc = acc + 2 * zsum l - 2 * Z.of_nat (length l).
Proof.
  unfold dof_leakage_unguarded, zsum. induction l as [|n r IH]; intros acc; cbn [fold_left fold_right length].
  - lia.
  - rewrite IH. rewrite Nat2Z.inj_succ. lia.
Qed.

(* an exactly determined calibration without leakage samples has no degree of freedom *)
Lemma dof_exactly_determined unknowns k :
  dof unknowns (repeat unknowns k) [] = 0.
Proof.
  rewrite dof_count. rewrite repeat_length.
  assert (H : zsum (repeat unknowns k) = Z.of_nat k * unknowns).
  { unfold zsum. induction k; [reflexivity|]. cbn [repeat fold_right].
    rewrite IHk, Nat2Z.inj_succ. nia. }
  rewrite H. unfold zsum; cbn [map fold_right]. lia.
Qed.
End Dof.

(* ---- no degrees of freedom: never rejected ---- *)
Lemma exactly_determined_never_rejected (tail : Z -> Qc -> Qc) (unknowns : Z) (k : nat) (chisq limit : Qc) :
  (limit <= 1)%Qc ->
  pvalue_of tail (dof unknowns (repeat unknowns k) []) chisq = 1%Qc /\
  rejected (pvalue_of tail (dof unknowns (repeat unknowns k) []) chisq) limit = false.
Proof.
  intros Hl. rewrite dof_exactly_determined. unfold pvalue_of. simpl. split; [reflexivity|].
  unfold rejected. destruct (Qclt_le_dec 1 limit) as [H|H]; [|reflexivity].
  exfalso. exact (Qclt_not_le _ _ H Hl).
Qed.

(* the same when leakage cells exist but every standard connects every pair of ports (no samples) *)
Lemma exactly_determined_all_connected_never_rejected (tail : Z -> Qc -> Qc) (unknowns : Z) (k : nat)
  (cells : list (list (bool * bool))) (chisq limit : Qc) :
  (forall c, In c cells -> forall gc, In gc c -> snd gc = true) -> (limit <= 1)%Qc ->
  dof_of_standards unknowns (repeat unknowns k) cells = 0%Z /\
  rejected (pvalue_of tail (dof_of_standards unknowns (repeat unknowns k) cells) chisq) limit = false.
Proof.
  intros Hc Hl.
  assert (E : dof_of_standards unknowns (repeat unknowns k) cells = 0%Z).
  { rewrite dof_all_connected by exact Hc. pose proof (dof_exactly_determined unknowns k) as D.
    rewrite dof_count in D. unfold zsum at 2 in D. cbn [map fold_right] in D. lia. }
  split; [exact E|]. rewrite E. unfold pvalue_of, rejected. simpl.
  destruct (Qclt_le_dec 1 limit) as [H|H]; [|reflexivity].
  exfalso. exact (Qclt_not_le _ _ H Hl).
Qed.

(* with at least one degree of freedom the verdict is that of the tail function *)
Lemma overdetermined_uses_tail (tail : Z -> Qc -> Qc) (df : Z) (chisq : Qc) :
  (1 <= df)%Z -> pvalue_of tail df chisq = tail df chisq.
Proof. intros H. unfold pvalue_of. destruct (Z.ltb df 1) eqn:E; [apply Z.ltb_lt in E; lia | reflexivity]. Qed.
