(* A concrete instance of the exact-data theorems at Q[i], on the term lists the library builds for a
   1 x 1 T8 calibration (vnacal_new_build_equation_terms.c build_terms_t8, as dumped by
   harness/selfcal_wb_vmat.c: "-ts s v - ti v + m tx s v = -(-m v)"): four reflect standards, one
   system of 4 equations in the 3 unknowns (ts, ti, tx), tm = 1, noise model on.  The measurements are
   computed from the truth: m = (ts s + ti) / (tx s + 1).  The V matrices are 1 x 1 but not 1:
   v = 1 / (tx s + 1). *)
Require Import List ZArith QArith Qcanon.
Import ListNotations.
Require Import LV.Base.CField LV.Base.QcI LV.SelfCal.PvalueModel LV.SelfCal.VMatrixModel LV.SelfCal.VMatrixQI.
Require Import LV.SelfCal.ExactOverModel LV.Lin.LuQI2.

Definition ex_truth : list qi := [mkqi 3 2 1 2; mkqi 1 5 0 1; mkqi 1 4 (-1) 3].
Definition ex_s : list qi := [mkqi 1 2 0 1; mkqi (-1) 3 1 7; mkqi 2 5 (-3) 5; mkqi 0 1 9 10].
Definition ex_m (s : qi) : qi :=
  qi_div (qi_add (qi_mul (nth 0 ex_truth qi0) s) (nth 1 ex_truth qi0))
         (qi_add (qi_mul (nth 2 ex_truth qi0) s) qi1).
Definition ex_terms : list vterm :=
  [ {| vt_neg := true; vt_m := None; vt_s := Some 0%nat; vt_v := 0%nat; vt_x := Some 0%nat |};
    {| vt_neg := true; vt_m := None; vt_s := None; vt_v := 0%nat; vt_x := Some 1%nat |};
    {| vt_neg := false; vt_m := Some 0%nat; vt_s := Some 0%nat; vt_v := 0%nat; vt_x := Some 2%nat |};
    {| vt_neg := true; vt_m := Some 0%nat; vt_s := None; vt_v := 0%nat; vt_x := None |} ].
Definition ex_prob (noise : option (Qc * Qc)) : vprob QIF :=
  Build_vprob QIF CT8 1 1 3
    (map (fun s => Build_vstd QIF [ex_m s] [s] [true]) ex_s)
    [map (fun k => {| ve_std := k; ve_row := 0%nat; ve_col := 0%nat; ve_terms := ex_terms |}) (seq 0 4)]
    noise.
Definition ex_on := ex_prob (Some (qq 1 1000, qq 1 100)).
(* an arbitrary positive stand-in for 1/sqrt: the theorems hold for every weight function *)
Definition ex_rsqrt (a : Qc) : Qc := (/ (1 + a))%Qc.

Definition ex_wf : bool := forallb (forallb (eq_wfb QIF ex_on)) (vp_systems ex_on).
Definition ex_exact : bool := forallb (forallb (eq_exactb QIF qi_of_Qc qi_isz ex_on ex_truth)) (vp_systems ex_on).

Definition ex_run (limit : nat) (p : vprob QIF) : sres (list qi * vstate QIF * list nat) :=
  q_solve_frequency ex_rsqrt (qq 1 1000000) limit [qi1; qi0; qi0] (alloc_v QIF p) p.
Definition res_is (r : sres (list qi * vstate QIF * list nat)) (x : list qi) (n : nat) : bool :=
  match r with
  | SOk (y, _, ns) => qi_list_eqb y x && match ns with [k] => Nat.eqb k n | _ => false end
  | _ => false
  end.
Definition res_noconv (r : sres (list qi * vstate QIF * list nat)) : bool :=
  match r with SNoConv => true | _ => false end.
Definition plain_is (r : sres (list qi)) (x : list qi) : bool :=
  match r with SOk y => qi_list_eqb y x | _ => false end.
(* the results are compared with the decidable equality of Q[i] *)
Definition ex_solve_weighted : bool := res_is (ex_run 30 ex_on) ex_truth 2.
Definition ex_solve_plain : bool := plain_is (q_plain_systems (ex_prob None) (vp_systems (ex_prob None))) ex_truth.
(* with iteration limit 1 the same exact data are refused: the first convergence test compares the
   solution with _vnacal_new_solve_init_x_vector's "perfect" terms *)
Definition ex_solve_limit1 : bool := res_noconv (ex_run 1 ex_on).

Lemma exact_data_instance :
  ex_wf = true /\ ex_exact = true /\ ex_solve_weighted = true /\ ex_solve_plain = true.
Proof. vm_compute. repeat split; reflexivity. Qed.

Lemma iteration_limit_one_instance : ex_solve_limit1 = true.
Proof. vm_compute. reflexivity. Qed.
