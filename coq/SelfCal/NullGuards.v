(* Two pointer walks of the self-calibration code whose safety depends on the position of a
   NULL test, modelled with checked cells (DESIGN.md section 3, "Memory").  Each walk has the
   two forms of the source as variants; the API-level correspondence (sanitizer run of the
   directed scenarios) decides which form the working tree has.

   1. _vnacal_new_solve_update_s_matrices (vnacal_new_solve.c): for every cell of vnm_s_matrix
        early_read = true :  uindex = vnprp->vnpr_unknown_index;  if (vnprp != NULL && ...)
        early_read = false:  if (vnprp != NULL && vnprp->vnpr_unknown) { uindex = ...; }
   2. save_v_matrices / restore_v_matrices (vnacal_new_solve_auto.c): for every standard
        guard = false: if (vnmmp == NULL) continue;             (never true) then vnsm_v_matrices[sindex]
        guard = true : if (vnmmp->vnsm_v_matrices == NULL) continue; *)
Require Import List.
Import ListNotations.

Inductive access := Ok | NullDeref.

(* an S cell: absent (NULL), a known parameter, or an unknown parameter with its index *)
Inductive scell := Absent | Known | Unknown (uindex : nat).

Definition update_cell (early_read : bool) (c : scell) : access :=
  match c with
  | Absent => if early_read then NullDeref else Ok
  | _ => Ok
  end.

Fixpoint walk {A} (f : A -> access) (l : list A) : access :=
  match l with
  | [] => Ok
  | a :: r => match f a with Ok => walk f r | NullDeref => NullDeref end
  end.

(* standards -> cells *)
Definition update_s_matrices (early_read : bool) (stds : list (list scell)) : access :=
  walk (walk (update_cell early_read)) stds.

(* per standard: the vector of per-system V matrices is absent when no system is
   over-determined (vs_init allocates it only then); otherwise each entry may be absent *)
Definition vvec := option (list (option unit)).

Definition save_one (guard : bool) (v : vvec) : access :=
  match v with
  | None => if guard then Ok else NullDeref
  | Some _ => Ok          (* entries are tested individually: "if (v[sindex] != NULL)" *)
  end.

Definition save_v_matrices (guard : bool) (stds : list vvec) : access := walk (save_one guard) stds.

Lemma walk_ok {A} (f : A -> access) l : (forall a, f a = Ok) -> walk f l = Ok.
Proof. intros H; induction l; simpl; [reflexivity|rewrite H; exact IHl]. Qed.

Lemma update_s_safe stds : update_s_matrices false stds = Ok.
Proof. apply walk_ok; intros l; apply walk_ok; intros []; reflexivity. Qed.

Lemma update_s_safe_refuted : exists stds, update_s_matrices true stds = NullDeref.
Proof. exists [[Unknown 0; Absent; Absent; Absent]]. reflexivity. Qed.

Lemma v_matrices_safe stds : save_v_matrices true stds = Ok.
Proof. apply walk_ok; intros [v|]; reflexivity. Qed.

Lemma v_matrices_safe_refuted : exists stds, save_v_matrices false stds = NullDeref.
Proof. exists [None]. reflexivity. Qed.
