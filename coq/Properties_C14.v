(* Property C14: property trees survive YAML export and import.
   Theorems only.  Definitions: LV.PropTree.YamlModel (_vnaproperty_yaml_export/_import on an
   abstract YAML document tree, on top of the byte-level model of C13).  libyaml's emitter
   followed by its parser is the function [rt] constrained by hypotheses; nothing is an axiom. *)
Require Import List NArith ZArith Bool.
Import ListNotations.
Require Import LV.PropTree.PropModel LV.PropTree.DocSpec LV.PropTree.PropProofs LV.PropTree.QuoteProofs
        LV.PropTree.RebuildProofs LV.PropTree.YamlModel LV.PropTree.YamlProofs.

(* For EVERY property tree t whose map keys are non-empty and distinct and whose lists are shorter
   than 2^31 - 1 (wf: what the API can build), and for every behaviour [rt] of "emit, then parse"
   that (1) keeps node kinds, order and scalar bytes of the admissible texts, (2) reads a scalar
   back as plain only if it was emitted plain or with the "any" style and (3) reads a plain-emitted
   scalar back as plain: importing the exported document into an empty root succeeds and yields
   the same document (kinds, keys in order, list order, nulls, every scalar byte). *)
Theorem c14_yaml_roundtrip
        (rt : ynode -> ynode) (text_ok : bytes -> Prop)
        (rt_scalar : forall v st, text_ok v ->
            exists st', rt (YScalar v st) = YScalar v st'
                        /\ (st = YPlain -> st' = YPlain)
                        /\ (st' = YPlain -> st = YPlain \/ st = YAny))
        (rt_mapping : forall kv, rt (YMapping kv) = YMapping (map (fun p => (rt (fst p), rt (snd p))) kv))
        (rt_sequence : forall l, rt (YSequence l) = YSequence (map rt l))
        (tilde_ok : text_ok [126%N])
        (t : node) :
  wf t -> tree_ok text_ok t ->
  abs (fst (yaml_import (rt (yaml_export t)) NNull)) = abs t
  /\ snd (yaml_import (rt (yaml_export t)) NNull) = true.
Proof. exact (yaml_roundtrip rt text_ok rt_scalar rt_mapping rt_sequence tilde_ok t). Qed.
Print Assumptions c14_yaml_roundtrip.

(* The hypotheses are satisfiable (by the round trip in which every scalar that may come back
   plain does), for all texts: *)
Theorem c14_yaml_roundtrip_satisfiable (t : node) :
  wf t -> abs (fst (yaml_import (yaml_rt_ideal (yaml_export t)) NNull)) = abs t
          /\ snd (yaml_import (yaml_rt_ideal (yaml_export t)) NNull) = true.
Proof. exact (yaml_roundtrip_ideal t). Qed.
Print Assumptions c14_yaml_roundtrip_satisfiable.

(* ... and a concrete tree with null look-alikes ("~", "null"), a key that needs quoting ("a.b "),
   a key that is a single space, a multi-line scalar, a null and an empty map inside a list. *)
Theorem c14_example_roundtrip :
  fst (yaml_import (yaml_rt_ideal (yaml_export example_tree)) NNull) = example_tree.
Proof. exact example_tree_roundtrip. Qed.
Print Assumptions c14_example_roundtrip.

(* Null look-alikes are never exported in a style that can be read back as null, and null is. *)
Theorem c14_null_lookalike_quoted (v : bytes) :
  is_yaml_null v = true -> yaml_export (NScalar v) = YScalar v YDouble.
Proof. exact (null_lookalike_quoted v). Qed.
Print Assumptions c14_null_lookalike_quoted.


(* ---------------------------------------------------------------- properties embedded in a calibration file.
   save_mapping pre post t: a mapping written by vnacal_save (the top-level one, or a calibration's)
   with arbitrary other entries before and after the pair "properties" -> export t, whose keys are
   admissible texts different from "properties".  Under the same hypotheses about libyaml, what
   vnacal_load's parse_document (global root) and parse_calibration (per-calibration root) import
   is t - for every tree, a null root (written as ~) and a scalar root included. *)
Theorem c14_calfile_global_properties_rt
        (rt : ynode -> ynode) (text_ok : bytes -> Prop)
        (rt_scalar : forall v st, text_ok v ->
            exists st', rt (YScalar v st) = YScalar v st'
                        /\ (st = YPlain -> st' = YPlain)
                        /\ (st' = YPlain -> st = YPlain \/ st = YAny))
        (rt_mapping : forall kv, rt (YMapping kv) = YMapping (map (fun p => (rt (fst p), rt (snd p))) kv))
        (rt_sequence : forall l, rt (YSequence l) = YSequence (map rt l))
        (tilde_ok : text_ok [126%N]) (properties_ok : text_ok key_properties)
        (pre post : list (bytes * ynode)) (t : node) :
  other_keys text_ok pre -> other_keys text_ok post -> wf t -> tree_ok text_ok t ->
  good (load_global_properties (rt (save_mapping pre post t)) NNull) t.
Proof.
  exact (calfile_global_properties_rt rt text_ok rt_scalar rt_mapping rt_sequence tilde_ok properties_ok pre post t).
Qed.
Print Assumptions c14_calfile_global_properties_rt.

Theorem c14_calfile_calibration_properties_rt
        (rt : ynode -> ynode) (text_ok : bytes -> Prop)
        (rt_scalar : forall v st, text_ok v ->
            exists st', rt (YScalar v st) = YScalar v st'
                        /\ (st = YPlain -> st' = YPlain)
                        /\ (st' = YPlain -> st = YPlain \/ st = YAny))
        (rt_mapping : forall kv, rt (YMapping kv) = YMapping (map (fun p => (rt (fst p), rt (snd p))) kv))
        (rt_sequence : forall l, rt (YSequence l) = YSequence (map rt l))
        (tilde_ok : text_ok [126%N]) (properties_ok : text_ok key_properties)
        (pre post : list (bytes * ynode)) (t : node) :
  other_keys text_ok pre -> other_keys text_ok post -> wf t -> tree_ok text_ok t ->
  good (load_calibration_properties (rt (save_mapping pre post t))) t.
Proof.
  exact (calfile_calibration_properties_rt rt text_ok rt_scalar rt_mapping rt_sequence tilde_ok properties_ok pre post t).
Qed.
Print Assumptions c14_calfile_calibration_properties_rt.

Theorem c14_calfile_properties_rt_satisfiable (pre post : list (bytes * ynode)) (t : node) :
  other_keys (fun _ => True) pre -> other_keys (fun _ => True) post -> wf t ->
  good (load_global_properties (yaml_rt_ideal (save_mapping pre post t)) NNull) t /\
  good (load_calibration_properties (yaml_rt_ideal (save_mapping pre post t))) t.
Proof. exact (calfile_properties_rt_ideal pre post t). Qed.
Print Assumptions c14_calfile_properties_rt_satisfiable.

(* vnaproperty_import_yaml_from_string / _from_file replace whatever the root held (DP2 fixed):
   the round trip holds for every previous content of the root *)
Theorem c14_import_replaces_content
        (rt : ynode -> ynode) (text_ok : bytes -> Prop)
        (rt_scalar : forall v st, text_ok v ->
            exists st', rt (YScalar v st) = YScalar v st'
                        /\ (st = YPlain -> st' = YPlain)
                        /\ (st' = YPlain -> st = YPlain \/ st = YAny))
        (rt_mapping : forall kv, rt (YMapping kv) = YMapping (map (fun p => (rt (fst p), rt (snd p))) kv))
        (rt_sequence : forall l, rt (YSequence l) = YSequence (map rt l))
        (tilde_ok : text_ok [126%N]) (root t : node) :
  wf t -> tree_ok text_ok t -> good (import_document (rt (yaml_export t)) root) t.
Proof. exact (import_document_replaces rt text_ok rt_scalar rt_mapping rt_sequence tilde_ok root t). Qed.
Print Assumptions c14_import_replaces_content.
