(* Property C14: property trees survive YAML export and import.
   Theorems only.  Definitions: LV.PropTree.YamlModel (_vnaproperty_yaml_export/_import on an
   abstract YAML document tree, vnacal_load's parse_document / parse_set, on top of the byte-level
   model of C13) and LV.PropTree.YamlText (the text class valid_utf8_no_nul; a MODEL scalar
   emitter / parser with real quoting and escaping).

   libyaml itself is not modelled.  In the theorems named ..._modulo_libyaml, "emit the document
   with libyaml, then parse it with libyaml" is a function [rt] on document trees constrained by
   four hypotheses (premises of the theorems, never axioms), which checks/C14.py tests on the
   documents the real library emits on every run:
     rt_scalar    a scalar of valid UTF-8 text without NUL keeps its kind and its bytes, and is
                  read back as PLAIN only if the plain or the "any" style was requested;
     rt_tilde     the plain scalar ~ (the way a null is written) is read back as the plain scalar ~;
     rt_mapping, rt_sequence   mappings and sequences keep their kind, length and order.
   [rt] is a context-free total function: it gives the same answer for a scalar wherever it
   stands, while libyaml chooses styles by context (flow/block, simple keys up to 1024 bytes,
   else explicit "? " keys); only the relation above is assumed, for every context at once.
   The theorems named ..._model_emitter instantiate [rt] with YamlText.rt_quote and have no
   hypothesis about [rt]; rt_quote is a model emitter/parser, not libyaml. *)
Require Import List NArith ZArith Bool.
Import ListNotations.
Require Import LV.PropTree.PropModel LV.PropTree.DocSpec LV.PropTree.PropProofs LV.PropTree.QuoteProofs
        LV.PropTree.RebuildProofs LV.PropTree.YamlModel LV.PropTree.YamlText LV.PropTree.YamlTextProofs
        LV.PropTree.YamlProofs LV.PropTree.YamlSpec LV.PropTree.YamlImportProofs
        LV.PropTree.YamlFault LV.PropTree.YamlFaultProofs.

(* ---------------------------------------------------------------- the text class *)

(* valid_utf8_no_nul is not the trivial predicate: it rejects [0;300], an embedded NUL, a lone
   continuation byte, a truncated sequence, overlong 2-, 3- and 4-byte forms, a surrogate and
   U+110000; it accepts the empty string, ASCII punctuation with TAB/LF/DEL/SOH, NEL, LS, BOM,
   U+1F600 and U+10FFFF. *)
Theorem c14_text_class_not_trivial :
  (valid_utf8_no_nul [0; 300] = false
   /\ valid_utf8_no_nul [97; 0; 98] = false
   /\ valid_utf8_no_nul [97; 128] = false
   /\ valid_utf8_no_nul [226; 128] = false
   /\ valid_utf8_no_nul [192; 175] = false
   /\ valid_utf8_no_nul [224; 159; 191] = false
   /\ valid_utf8_no_nul [240; 143; 191; 191] = false
   /\ valid_utf8_no_nul [237; 160; 128] = false
   /\ valid_utf8_no_nul [244; 144; 128; 128] = false)
  /\
  (valid_utf8_no_nul [] = true
   /\ valid_utf8_no_nul [126; 58; 32; 45; 32; 35; 39; 34; 92; 91; 93; 123; 125; 33; 38; 42; 37; 64; 96; 9; 10; 127; 1] = true
   /\ valid_utf8_no_nul [194; 133] = true
   /\ valid_utf8_no_nul [226; 128; 168] = true
   /\ valid_utf8_no_nul [239; 187; 191] = true
   /\ valid_utf8_no_nul [240; 159; 152; 128] = true
   /\ valid_utf8_no_nul [244; 143; 191; 191] = true)%N.
Proof. exact text_class_not_trivial. Qed.
Print Assumptions c14_text_class_not_trivial.

(* vnaproperty_quote_key keeps a key inside the text class (it inserts backslashes before ASCII
   bytes only), so the theorems below put the condition on the RAW keys of the tree. *)
Theorem c14_quote_key_keeps_text_valid (k : bytes) :
  valid_utf8_no_nul k = true -> valid_utf8_no_nul (quote_key k) = true.
Proof. exact (quote_key_valid k). Qed.
Print Assumptions c14_quote_key_keeps_text_valid.

(* ---------------------------------------------------------------- round trip, libyaml as hypotheses *)

(* For EVERY property tree t whose map keys are non-empty and distinct and whose lists are shorter
   than 2^31 - 1 (wf: what the API can build) and whose scalars and raw keys are valid UTF-8
   without NUL (tree_text_ok, executable), ASSUMING that libyaml's emit+parse preserves kinds,
   order and the scalar bytes of such text and the plain / non-plain style relation (the four
   hypotheses, tested on every run): importing the exported document into an empty root succeeds
   and yields the same document (kinds, keys in order, list order, nulls, every scalar byte). *)
Theorem c14_yaml_roundtrip_modulo_libyaml
        (rt : ynode -> ynode)
        (rt_scalar : forall v st, valid_utf8_no_nul v = true ->
            exists st', rt (YScalar v st) = YScalar v st'
                        /\ (st' = YPlain -> st = YPlain \/ st = YAny))
        (rt_tilde : rt (YScalar [126%N] YPlain) = YScalar [126%N] YPlain)
        (rt_mapping : forall kv, rt (YMapping kv) = YMapping (map (fun p => (rt (fst p), rt (snd p))) kv))
        (rt_sequence : forall l, rt (YSequence l) = YSequence (map rt l))
        (t : node) :
  wf t -> tree_text_ok t = true ->
  abs (fst (yaml_import (rt (yaml_export t)) NNull)) = abs t
  /\ snd (yaml_import (rt (yaml_export t)) NNull) = true.
Proof. exact (yaml_roundtrip rt rt_scalar rt_tilde rt_mapping rt_sequence t). Qed.
Print Assumptions c14_yaml_roundtrip_modulo_libyaml.

(* vnaproperty_import_yaml_from_string / _from_file replace whatever the root held (DP2 fixed):
   the same round trip for every previous content of the root, under the same hypotheses. *)
Theorem c14_import_replaces_content_modulo_libyaml
        (rt : ynode -> ynode)
        (rt_scalar : forall v st, valid_utf8_no_nul v = true ->
            exists st', rt (YScalar v st) = YScalar v st'
                        /\ (st' = YPlain -> st = YPlain \/ st = YAny))
        (rt_tilde : rt (YScalar [126%N] YPlain) = YScalar [126%N] YPlain)
        (rt_mapping : forall kv, rt (YMapping kv) = YMapping (map (fun p => (rt (fst p), rt (snd p))) kv))
        (rt_sequence : forall l, rt (YSequence l) = YSequence (map rt l))
        (root t : node) :
  wf t -> tree_text_ok t = true -> good (import_document (rt (yaml_export t)) root) t.
Proof. exact (import_document_replaces rt rt_scalar rt_tilde rt_mapping rt_sequence root t). Qed.
Print Assumptions c14_import_replaces_content_modulo_libyaml.

(* ---------------------------------------------------------------- the public importers over a NON-EMPTY destination.
   import_public l root: vnaproperty_import_yaml_from_file / _from_string as coded, where l is what the
   YAML parser delivers (a syntax error, an empty document, or a document tree) and root the content of
   the destination before the call.  YamlSpec.d_import_public is the document-level meaning: a document
   is imported into the EMPTY document (the old content does not occur in the specification), a syntax
   error or an empty document leaves the destination as it was.  For EVERY old content and EVERY parser
   result - any document tree at all, not only exported ones; plain nulls, duplicate and nested
   descriptor keys, keys that are no descriptors - the code's result is the specification's: after a
   successful import the destination is exactly the imported document, the null document included;
   when the import stops at a bad key, after a syntax error and after an empty document the destination
   is unchanged (fix DO90).  No hypotheses. *)
Theorem c14_import_replaces (l : yload) (root : node) :
  (abs (fst (import_public l root)), snd (import_public l root)) = d_import_public l (abs root).
Proof. exact (import_replaces l root). Qed.
Print Assumptions c14_import_replaces.

(* the importer itself refines the document-level import for every document and every anchor content
   (this is also what vnacal_load relies on when it merges repeated "properties" entries) *)
Theorem c14_import_refines_document_import (y : ynode) (n : node) :
  d_yaml_import y (abs n) = (abs (fst (yaml_import y n)), snd (yaml_import y n)).
Proof. exact (sim_yaml_import y n). Qed.
Print Assumptions c14_import_refines_document_import.

(* the null document - what export writes for a NULL tree - clears the destination (seeded change
   C14-6 kept the old content here), byte-level statement for every old content and every null word *)
Theorem c14_import_null_document_clears (root : node) (v : bytes) :
  is_yaml_null v = true -> import_public (YDocument (YScalar v YPlain)) root = (NNull, true).
Proof. exact (import_null_document_clears root v). Qed.
Print Assumptions c14_import_null_document_clears.

(* what the specification gives for each kind of root node and for the two failures before the import *)
Theorem c14_import_replaces_kinds (root : node) :
  (forall v, is_yaml_null v = true -> d_import_public (YDocument (YScalar v YPlain)) (abs root) = (DNull, true)) /\
  (forall v st, is_yaml_null v && is_plain st = false ->
                d_import_public (YDocument (YScalar v st)) (abs root) = (DScalar v, true)) /\
  d_import_public (YDocument (YMapping [])) (abs root) = (DMap [], true) /\
  d_import_public (YDocument (YSequence [])) (abs root) = (DList [], true) /\
  d_import_public YSyntaxError (abs root) = (abs root, false) /\
  d_import_public YEmptyDocument (abs root) = (abs root, false).
Proof. exact (import_replaces_kinds root). Qed.
Print Assumptions c14_import_replaces_kinds.

(* computed, old content { old: [1] }: the plain ~ gives NULL, the quoted "~" the scalar; keys "a.b",
   "l[1]", "a" are descriptors and merge; a key "[" stops the import: failure is reported and the old
   content is untouched (fix DO90; before it the pair in front of the bad key stayed and the old content
   was gone: c14_before_DO90_*_refuted below); a syntax error / empty document changes nothing *)
Theorem c14_import_replaces_examples :
  import_public (YDocument (YScalar [126]%N YPlain)) old_tree = (NNull, true) /\
  import_public (YDocument (YScalar [126]%N YDouble)) old_tree = (NScalar [126]%N, true) /\
  import_public (YDocument (YMapping [(YScalar [97; 46; 98]%N YPlain, YScalar [49]%N YPlain);
                                      (YScalar [108; 91; 49; 93]%N YDouble, YSequence [YScalar [126]%N YPlain]);
                                      (YScalar [97]%N YPlain, YMapping [(YScalar [99]%N YPlain, YScalar [50]%N YPlain)])])) old_tree
  = (NMap [([97], NMap [([98], NScalar [49]); ([99], NScalar [50])]); ([108], NList [NNull; NList [NNull] 8] 8)]%N, true) /\
  import_public (YDocument (YMapping [(YScalar [97]%N YPlain, YScalar [49]%N YPlain);
                                      (YScalar [91]%N YDouble, YScalar [50]%N YPlain);
                                      (YScalar [98]%N YPlain, YScalar [51]%N YPlain)])) old_tree
  = (old_tree, false) /\
  import_public YSyntaxError old_tree = (old_tree, false) /\
  import_public YEmptyDocument old_tree = (old_tree, false).
Proof. exact import_replaces_examples. Qed.
Print Assumptions c14_import_replaces_examples.

(* ---------------------------------------------------------------- a whole calibration file.
   save_file g cals: the document vnacal_save writes (properties: export g; calibrations: one
   mapping per calibration: name: <distinct, valid text>, arbitrary entries before and after
   properties: export t whose keys are valid text different from "properties" and "name").  load_file v pre_ok post_ok y: vnacal_load
   with first-line classification v; pre_ok / post_ok stand for every step of parse_set that is
   not the properties import or the name (field parsing, required fields, dimensions, allocation;
   parse_data) and may depend on the calibrations held so far and on the whole mapping; a
   calibration is stored under its name and replaces an earlier one of the same name.
   load_file returns None as soon as ANY step fails (vnacal_load frees everything, returns NULL).

   (a) If the version line is accepted and all non-property steps succeed, the load succeeds
       and returns the saved global properties and, in order, each calibration's saved
       properties (null roots, written as ~, and scalar roots included). *)
Theorem c14_calfile_load_rt_modulo_libyaml
        (rt : ynode -> ynode)
        (rt_scalar : forall v st, valid_utf8_no_nul v = true ->
            exists st', rt (YScalar v st) = YScalar v st'
                        /\ (st' = YPlain -> st = YPlain \/ st = YAny))
        (rt_tilde : rt (YScalar [126%N] YPlain) = YScalar [126%N] YPlain)
        (rt_mapping : forall kv, rt (YMapping kv) = YMapping (map (fun p => (rt (fst p), rt (snd p))) kv))
        (rt_sequence : forall l, rt (YSequence l) = YSequence (map rt l))
        (pre_ok post_ok : others) (v : vline) (g : node) (cals : list calrec) :
  v <> VBad -> wf g -> tree_text_ok g = true -> Forall calrec_ok cals -> NoDup (map c_name cals) ->
  others_all_ok pre_ok post_ok [] (map (fun c => rt (save_cal c)) cals) = true ->
  exists g' cs', load_file v pre_ok post_ok (rt (save_file g cals)) = Some (g', cs')
                 /\ abs g' = abs g /\ map abs cs' = map (fun c => abs (c_props c)) cals.
Proof.
  exact (calfile_load_rt rt rt_scalar rt_tilde rt_mapping rt_sequence pre_ok post_ok v g cals).
Qed.
Print Assumptions c14_calfile_load_rt_modulo_libyaml.

(* (b) If the version line is refused or any non-property step of any calibration fails, the
       whole load fails - so (a) and (b) together say that a saved file is loaded completely and
       correctly or not at all; nothing is claimed about a partially read file because
       vnacal_load never returns one. *)
Theorem c14_calfile_load_all_or_nothing_modulo_libyaml
        (rt : ynode -> ynode)
        (rt_scalar : forall v st, valid_utf8_no_nul v = true ->
            exists st', rt (YScalar v st) = YScalar v st'
                        /\ (st' = YPlain -> st = YPlain \/ st = YAny))
        (rt_tilde : rt (YScalar [126%N] YPlain) = YScalar [126%N] YPlain)
        (rt_mapping : forall kv, rt (YMapping kv) = YMapping (map (fun p => (rt (fst p), rt (snd p))) kv))
        (rt_sequence : forall l, rt (YSequence l) = YSequence (map rt l))
        (pre_ok post_ok : others) (v : vline) (g : node) (cals : list calrec) :
  wf g -> tree_text_ok g = true -> Forall calrec_ok cals -> NoDup (map c_name cals) ->
  v = VBad \/ others_all_ok pre_ok post_ok [] (map (fun c => rt (save_cal c)) cals) = false ->
  load_file v pre_ok post_ok (rt (save_file g cals)) = None.
Proof.
  exact (calfile_load_all_or_nothing rt rt_scalar rt_tilde rt_mapping rt_sequence pre_ok post_ok v g cals).
Qed.
Print Assumptions c14_calfile_load_all_or_nothing_modulo_libyaml.

(* ---------------------------------------------------------------- the hypotheses are met by an emitter that really quotes.
   MODEL emitter/parser (YamlText.v; not libyaml): emit_scalar writes a scalar plain when a plain
   or "any" style is requested and the text is plain_safe, otherwise in double quotes with the
   escapes \\ \(dquote) \n \t \xHH \L \P \u HHHH; parse_scalar accepts a complete double-quoted token
   (and decodes more escapes than the emitter writes) or plain_safe text and refuses anything else.
   For EVERY byte string and style the parser reads back exactly the emitted bytes, plain iff
   the emitter wrote them plain. *)
Theorem c14_model_emitter_parse_emit (v : bytes) (st : ystyle) :
  parse_scalar (emit_scalar v st) = Some (v, if wants_plain st && plain_safe v then YPlain else YDouble).
Proof. exact (parse_emit_scalar v st). Qed.
Print Assumptions c14_model_emitter_parse_emit.

(* ... and it does quote and escape: emitted text of a valid string with double quote, backslash,
   LF, TAB, SOH, NEL, LS, BOM and a 2-byte character; of "a: b", "- a", "a #b", "a ", ""; text
   left plain; the parser reading \N, \u 00e9, \x41; the parser refusing an unterminated token,
   text after the closing quote, an unknown escape and unsafe plain text. *)
Theorem c14_model_emitter_quotes_and_escapes :
  (valid_utf8_no_nul hostile_text = true
  /\ emit_scalar hostile_text YAny =
     [34; 97; 92; 34; 92; 92; 98; 92; 110; 92; 116; 92; 120; 48; 49; 92; 120; 56; 53; 92; 76;
      92; 117; 70; 69; 70; 70; 195; 169; 34]
  /\ emit_scalar [97; 58; 32; 98] YAny = [34; 97; 58; 32; 98; 34]
  /\ emit_scalar [45; 32; 97] YAny = [34; 45; 32; 97; 34]
  /\ emit_scalar [97; 32; 35; 98] YAny = [34; 97; 32; 35; 98; 34]
  /\ emit_scalar [97; 32] YAny = [34; 97; 32; 34]
  /\ emit_scalar [] YAny = [34; 34]
  /\ emit_scalar [97; 32; 98; 39; 99] YAny = [97; 32; 98; 39; 99]
  /\ emit_scalar [126] YPlain = [126]
  /\ parse_scalar [34; 92; 78; 92; 117; 48; 48; 101; 57; 92; 120; 52; 49; 34] = Some ([194; 133; 195; 169; 65], YDouble)
  /\ parse_scalar [34; 97] = None /\ parse_scalar [34; 97; 34; 98] = None
  /\ parse_scalar [34; 92; 113; 34] = None /\ parse_scalar [97; 58; 32; 98] = None)%N.
Proof. exact model_emitter_quotes_and_escapes. Qed.
Print Assumptions c14_model_emitter_quotes_and_escapes.

(* For EVERY wf tree of valid UTF-8 text: export, write every scalar and key as YAML text with
   the model emitter (quoting / escaping where needed), parse each back with the model parser,
   import: the same tree.  No hypothesis about [rt]: all four are proved for rt_quote. *)
Theorem c14_yaml_roundtrip_model_emitter (t : node) :
  wf t -> tree_text_ok t = true ->
  abs (fst (yaml_import (rt_quote (yaml_export t)) NNull)) = abs t
  /\ snd (yaml_import (rt_quote (yaml_export t)) NNull) = true.
Proof. exact (yaml_roundtrip_model_emitter t). Qed.
Print Assumptions c14_yaml_roundtrip_model_emitter.

Theorem c14_import_replaces_content_model_emitter (root t : node) :
  wf t -> tree_text_ok t = true -> good (import_document (rt_quote (yaml_export t)) root) t.
Proof. exact (import_document_replaces_model_emitter root t). Qed.
Print Assumptions c14_import_replaces_content_model_emitter.

Theorem c14_calfile_load_rt_model_emitter
        (pre_ok post_ok : others) (v : vline) (g : node) (cals : list calrec) :
  v <> VBad -> wf g -> tree_text_ok g = true -> Forall calrec_ok cals -> NoDup (map c_name cals) ->
  others_all_ok pre_ok post_ok [] (map (fun c => rt_quote (save_cal c)) cals) = true ->
  exists g' cs', load_file v pre_ok post_ok (rt_quote (save_file g cals)) = Some (g', cs')
                 /\ abs g' = abs g /\ map abs cs' = map (fun c => abs (c_props c)) cals.
Proof. exact (calfile_load_rt_model_emitter pre_ok post_ok v g cals). Qed.
Print Assumptions c14_calfile_load_rt_model_emitter.

(* A concrete tree (all hypotheses instantiated): a null, the look-alikes ~ and null, a key that
   needs descriptor quoting, a one-space key, a multi-line scalar, keys and scalars with double
   quote, backslash, TAB, ": ", "- ", " #", leading / trailing spaces, a control character, NEL,
   LS, BOM, 2-, 3-, 4-byte UTF-8, an empty string, an empty map in a list - is valid text and
   goes through the model emitter unchanged (Leibniz equality, allocation included) ... *)
Theorem c14_hostile_tree_roundtrip_model_emitter :
  tree_text_ok hostile_tree = true
  /\ fst (yaml_import (rt_quote (yaml_export hostile_tree)) NNull) = hostile_tree
  /\ snd (yaml_import (rt_quote (yaml_export hostile_tree)) NNull) = true.
Proof. exact (conj hostile_tree_text_ok hostile_tree_roundtrip_model_emitter). Qed.
Print Assumptions c14_hostile_tree_roundtrip_model_emitter.

(* ... and on the way several of its scalars and keys are double-quoted and escaped (their
   emitted text differs from their bytes) while "plain text" is written as it is. *)
Theorem c14_hostile_tree_emitted_texts :
  (map (fun v => emit_scalar v (scalar_style v)) [[126]; [108; 49; 10; 108; 50]; [32; 97; 32; 35; 98; 32]; []]
  = [[34; 126; 34]; [34; 108; 49; 92; 110; 108; 50; 34]; [34; 32; 97; 32; 35; 98; 32; 34]; [34; 34]]
  /\ emit_scalar (quote_key [107; 58; 32; 34]) YAny = [34; 107; 92; 92; 58; 32; 92; 92; 92; 34; 34]
  /\ emit_scalar (quote_key [194; 133; 226; 128; 168]) YAny = [34; 92; 120; 56; 53; 92; 76; 34]
  /\ emit_scalar [112; 108; 97; 105; 110; 32; 116; 101; 120; 116] YAny = [112; 108; 97; 105; 110; 32; 116; 101; 120; 116])%N.
Proof. exact hostile_tree_emitted_texts. Qed.
Print Assumptions c14_hostile_tree_emitted_texts.

(* The calibration-file statements on a concrete file (three calibrations whose properties are
   the hostile tree, a null and the scalar "null"): the premises of (a) hold with pre_ok / post_ok
   that look at their arguments; the file loads completely; a failure after the third
   calibration's properties were imported, or a refused version line, gives None; so does a
   hand-made file whose properties contain a key that is not a descriptor. *)
Theorem c14_calfile_examples :
  Forall calrec_ok ex_cals /\ NoDup (map c_name ex_cals)
  /\ others_all_ok (fun done kv => Nat.eqb (length kv) 4) (fun done _ => Nat.ltb (length done) 3) []
                   (map (fun c => rt_quote (save_cal c)) ex_cals) = true
  /\ load_file VMajor1 (fun _ _ => true) (fun _ _ => true) (rt_quote (save_file hostile_tree ex_cals))
     = Some (hostile_tree, [hostile_tree; NNull; NScalar [110; 117; 108; 108]%N])
  /\ load_file VMajor1 (fun _ _ => true) (fun done _ => Nat.ltb (length done) 2) (rt_quote (save_file hostile_tree ex_cals)) = None
  /\ load_file VBad (fun _ _ => true) (fun _ _ => true) (rt_quote (save_file hostile_tree ex_cals)) = None
  /\ load_file VMajor1 (fun _ _ => true) (fun _ _ => true)
       (YMapping [(YScalar key_properties YPlain, YMapping [(YScalar [91]%N YPlain, YScalar [49]%N YPlain)]);
                  (YScalar key_calibrations YPlain, YSequence [])]) = None.
Proof. exact calfile_examples. Qed.
Print Assumptions c14_calfile_examples.

(* Hand-made documents (not ones vnacal_save writes), following parse_document / parse_set: an
   unknown top-level key is ignored, two top-level "properties" entries merge, in a calibration
   the last "properties" entry wins; "sets" lists the calibrations only in a version-0 file; a
   calibration without a name or with a non-scalar name fails the load; a calibration with the
   name of an earlier one replaces it in its slot. *)
Theorem c14_calfile_handmade_documents :
  load_file VMajor1 (fun _ _ => true) (fun _ _ => true)
    (YMapping [(YScalar key_properties YPlain, YMapping [(YScalar [97]%N YPlain, YScalar [49]%N YPlain)]);
               (YScalar [120]%N YPlain, YSequence [YScalar [63]%N YPlain]);
               (YScalar key_properties YPlain, YMapping [(YScalar [98]%N YPlain, YScalar [50]%N YPlain)]);
               (YScalar key_calibrations YPlain,
                YSequence [YMapping [(YScalar key_name YPlain, YScalar [99]%N YPlain);
                                     (YScalar key_properties YPlain, YScalar [49]%N YPlain);
                                     (YScalar key_properties YPlain, YScalar [50]%N YPlain)]])])
  = Some (NMap [([97]%N, NScalar [49]%N); ([98]%N, NScalar [50]%N)], [NScalar [50]%N])
  /\
  (load_file VMajor0 (fun _ _ => true) (fun _ _ => true)
     (YMapping [(YScalar key_sets YPlain, YSequence [YMapping [(YScalar key_name YPlain, YScalar [99]%N YPlain)]])]),
   load_file VMajor1 (fun _ _ => true) (fun _ _ => true)
     (YMapping [(YScalar key_sets YPlain, YSequence [YMapping [(YScalar key_name YPlain, YScalar [99]%N YPlain)]])]))
  = (Some (NNull, [NNull]), Some (NNull, []))
  /\
  (load_file VMajor1 (fun _ _ => true) (fun _ _ => true)
     (YMapping [(YScalar key_calibrations YPlain, YSequence [YMapping []])]),
   load_file VMajor1 (fun _ _ => true) (fun _ _ => true)
     (YMapping [(YScalar key_calibrations YPlain,
                 YSequence [YMapping [(YScalar key_name YPlain, YSequence []); (YScalar key_name YPlain, YScalar [99]%N YPlain)]])]),
   load_file VMajor1 (fun _ _ => true) (fun _ _ => true)
     (YMapping [(YScalar key_calibrations YPlain,
                 YSequence [YMapping [(YScalar key_name YPlain, YScalar [99]%N YPlain); (YScalar key_properties YPlain, YScalar [49]%N YPlain)];
                            YMapping [(YScalar key_name YPlain, YScalar [100]%N YPlain); (YScalar key_properties YPlain, YScalar [50]%N YPlain)];
                            YMapping [(YScalar key_name YPlain, YScalar [99]%N YPlain); (YScalar key_properties YPlain, YScalar [51]%N YPlain)]])]))
  = (None, None, Some (NNull, [NScalar [51]%N; NScalar [50]%N])).
Proof. exact (conj calfile_example_merge_and_last (conj calfile_example_sets calfile_example_names)). Qed.
Print Assumptions c14_calfile_handmade_documents.

(* The weakest witness: the identity on bytes (no quoting at all) also meets the hypotheses.
   Kept because the extracted driver predicts the library's result through it. *)
Theorem c14_yaml_roundtrip_identity_witness (t : node) :
  wf t -> tree_text_ok t = true ->
  abs (fst (yaml_import (yaml_rt_ideal (yaml_export t)) NNull)) = abs t
  /\ snd (yaml_import (yaml_rt_ideal (yaml_export t)) NNull) = true.
Proof. exact (yaml_roundtrip_identity_witness t). Qed.
Print Assumptions c14_yaml_roundtrip_identity_witness.

(* ---------------------------------------------------------------- null look-alikes *)

(* For "~", "null", "Null", "NULL" _vnaproperty_yaml_export REQUESTS the double-quoted style.
   (That libyaml honours the request - never reads such a scalar back plain - is the hypothesis
   rt_scalar, tested on every run; it is not proved here.) *)
Theorem c14_null_lookalike_double_quoted_style_requested (v : bytes) :
  is_yaml_null v = true -> yaml_export (NScalar v) = YScalar v YDouble.
Proof. exact (null_lookalike_quoted v). Qed.
Print Assumptions c14_null_lookalike_double_quoted_style_requested.

(* With the model emitter the request is honoured: the text of a null look-alike is written in
   double quotes and the model parser reads it back non-plain with the same bytes. *)
Theorem c14_null_lookalike_model_emitter (v : bytes) :
  is_yaml_null v = true ->
  emit_scalar v (scalar_style v) = (34 :: escape v ++ [34])%N
  /\ parse_scalar (emit_scalar v (scalar_style v)) = Some (v, YDouble).
Proof. exact (null_lookalike_model_emitter v). Qed.
Print Assumptions c14_null_lookalike_model_emitter.

(* ---------------------------------------------------------------- failure atomicity and error class (fixes DO90, DO91)
   YamlFault.v: the importer made total over everything the YAML parser can deliver - XCycle is an alias to
   an enclosing node ("recursive alias") - and everything that can go wrong: [f : fault] = Some k makes the
   k-th allocating call into the property API fail with ENOMEM, leaving [junk n] - an ARBITRARY function of
   the anchor content - behind; [key_err] is the way a refused mapping key is reported.
   import_public_x = vnaproperty_import_yaml_from_string / _from_file after DO90: import into a detached
   root, install on success only. *)

(* EVERY parser result, EVERY document tree, EVERY failure (syntax error, empty document, recursive alias,
   refused key however reported, any other refused set call, allocation failure at any request whatever the
   failing call leaves behind), EVERY previous content: a failing import leaves *rootptr exactly as it was
   (Leibniz equality of the byte-level tree, list allocations included). *)
Theorem import_failure_leaves_root_unchanged
        (key_err : ecode -> ierr) (junk : node -> node) (l : xload) (root : node) (f : fault) :
  is_ok (snd (import_public_x key_err junk l root f)) = false ->
  fst (import_public_x key_err junk l root f) = root.
Proof. exact (import_failure_leaves_root_unchanged_lemma key_err junk l root f). Qed.
Print Assumptions import_failure_leaves_root_unchanged.

(* a successful import installs what the import into an EMPTY root builds (nothing of the old content) *)
Theorem import_success_replaces_root
        (key_err : ecode -> ierr) (junk : node -> node) (y : xnode) (root : node) (f : fault) :
  is_ok (snd (import_public_x key_err junk (XDocument y) root f)) = true ->
  import_public_x key_err junk (XDocument y) root f = (fst (import_x key_err junk y NNull f), IOk).
Proof. exact (import_success_replaces_root_lemma key_err junk y root f). Qed.
Print Assumptions import_success_replaces_root.

(* the hypotheses of both are met: alias cycle, refused key, allocation failure at request 3 with junk left
   behind - failure, root unchanged; the same document with the fault beyond its 5 requests - success *)
Theorem import_fault_examples :
  import_public_x key_err_DO91 (fun n => n) (XDocument doc_alias) old_content None = (old_content, IFail IE_BADMSG) /\
  import_public_x key_err_DO91 (fun n => n) (XDocument doc_badkey) old_content None = (old_content, IFail IE_BADMSG) /\
  import_public_x key_err_DO91 (fun _ => NScalar [33]%N)
                  (XDocument (XMapping [(pl [97], pl [49]); (pl [98], pl [50])]%N)) old_content (Some 3%nat)
  = (old_content, IFail IE_NOMEM) /\
  import_public_x key_err_DO91 (fun n => n)
                  (XDocument (XMapping [(pl [97], pl [49]); (pl [98], pl [50])]%N)) old_content (Some 5%nat)
  = (NMap [([97], NScalar [49]); ([98], NScalar [50])]%N, IOk).
Proof. exact after_DO90_examples. Qed.
Print Assumptions import_fault_examples.

(* DO90 keeps the documented behaviour: same outcome (success, or the same report) as the code before it
   - where deleting the old content was one more allocating call in front ([shift]) - and on success the
   same tree in *rootptr; for every parser result, content, fault and junk *)
Theorem import_same_outcome_as_before_DO90
        (key_err : ecode -> ierr) (junk : node -> node) (l : xload) (root : node) (f : fault) :
  snd (import_public_x key_err junk l root f) = snd (import_public_x_before_DO90 key_err junk l root (shift f))
  /\ (is_ok (snd (import_public_x key_err junk l root f)) = true ->
      fst (import_public_x key_err junk l root f) = fst (import_public_x_before_DO90 key_err junk l root (shift f))).
Proof. exact (import_same_outcome_as_before_DO90_lemma key_err junk l root f). Qed.
Print Assumptions import_same_outcome_as_before_DO90.

(* the code before DO90 does NOT have the atomicity property: {a: 1, b: 2, c: &x [3, *x]} over {old: {x: 1}}
   fails and leaves a: 1, b: 2, c: [3, ~];  {p: 1, 'a[': 2, z: 3} fails and leaves p: 1;  a failed
   allocation at request 4 of {a: 1, b: 2} leaves a: 1 (the old content is gone in all three) *)
Theorem model_variant_before_DO90_alias_refuted :
  exists l root f,
    is_ok (snd (import_public_x_before_DO90 key_err_before_DO91 (fun n => n) l root f)) = false /\
    fst (import_public_x_before_DO90 key_err_before_DO91 (fun n => n) l root f) <> root.
Proof. exact model_variant_before_DO90_alias_refuted_lemma. Qed.
Print Assumptions model_variant_before_DO90_alias_refuted.

Theorem model_variant_before_DO90_key_refuted :
  import_public_x_before_DO90 key_err_before_DO91 (fun n => n) (XDocument doc_badkey) old_content None
  = (NMap [([112], NScalar [49])]%N, IFail (IE_SYS EINVAL)).
Proof. exact before_DO90_key_left. Qed.
Print Assumptions model_variant_before_DO90_key_refuted.

Theorem model_variant_before_DO90_alias_left :
  import_public_x_before_DO90 key_err_before_DO91 (fun n => n) (XDocument doc_alias) old_content None
  = (NMap [([97], NScalar [49]); ([98], NScalar [50]); ([99], NList [NScalar [51]; NNull] 8)]%N, IFail IE_BADMSG).
Proof. exact before_DO90_alias_left. Qed.
Print Assumptions model_variant_before_DO90_alias_left.

Theorem model_variant_before_DO90_alloc_refuted :
  exists l root f,
    snd (import_public_x_before_DO90 key_err_before_DO91 (fun n => n) l root f) = IFail IE_NOMEM /\
    fst (import_public_x_before_DO90 key_err_before_DO91 (fun n => n) l root f) <> root.
Proof. exact model_variant_before_DO90_alloc_refuted_lemma. Qed.
Print Assumptions model_variant_before_DO90_alloc_refuted.

(* DO91.  After it, for every document whose sequences have fewer than INT_MAX items (the bound of the
   "[%d]" descriptor; stated in seqs_small), every content, fault and junk: a failing import reports
   EBADMSG (category VNAERR_SYNTAX), or ENOMEM - and that only when an allocation was made to fail.  A
   refused mapping key is EBADMSG; nothing is reported as EINVAL in the system category. *)
Theorem import_failure_class (junk : node -> node) (l : xload) (root : node) (f : fault) (e : ierr) :
  match l with XDocument y => seqs_small y = true | _ => True end ->
  snd (import_public_x key_err_DO91 junk l root f) = IFail e ->
  e = IE_BADMSG \/ (e = IE_NOMEM /\ f <> None).
Proof. exact (import_failure_class_lemma junk l root f e). Qed.
Print Assumptions import_failure_class.

(* before DO91 the refused key of {p: 1, 'a[': 2, z: 3} was a system error with errno EINVAL *)
Theorem model_variant_before_DO91_key_class_refuted :
  exists y root,
    snd (snd (import_x key_err_before_DO91 (fun n => n) y root None)) = IFail (IE_SYS EINVAL).
Proof. exact model_variant_before_DO91_key_class_refuted_lemma. Qed.
Print Assumptions model_variant_before_DO91_key_class_refuted.

(* the total model extends the one of the round-trip theorems: on alias-free documents without fault,
   import_x is yaml_import (same tree in the anchor, same success, every anchor content) and
   import_public_x is import_public - so c14_import_replaces and the round trips speak about it too *)
Theorem import_x_embed (key_err : ecode -> ierr) (junk : node -> node) (y : ynode) (root : node) :
  fst (import_x key_err junk (embed y) root None) = fst (yaml_import y root)
  /\ fst (snd (import_x key_err junk (embed y) root None)) = None
  /\ is_ok (snd (snd (import_x key_err junk (embed y) root None))) = snd (yaml_import y root).
Proof. exact (import_x_embed_lemma key_err junk y root). Qed.
Print Assumptions import_x_embed.

Theorem import_public_x_embed (key_err : ecode -> ierr) (junk : node -> node) (l : yload) (root : node) :
  fst (import_public_x key_err junk (embed_load l) root None) = fst (import_public l root)
  /\ is_ok (snd (import_public_x key_err junk (embed_load l) root None)) = snd (import_public l root).
Proof. exact (import_public_x_embed_lemma key_err junk l root). Qed.
Print Assumptions import_public_x_embed.

(* nothing is lost.  import_public_x_ledger true = the importers after DO90 with a ledger of what is still
   allocated on return (the tree under *rootptr, and detached trees nobody points to = leaked): for every
   parser result, content, fault and junk no detached tree is left - the partial tree a failed
   _vnaproperty_yaml_import leaves in new_root has been released - and root / outcome are import_public_x's.
   (The ledger is a two-field abstraction, not a heap: block-level leak freedom of the C code - and of
   vnacal_load's parse_properties, which imports into the vnacal_t's own root - is TIED, not proved:
   interposer count + LeakSanitizer on every failing document; that tie caught seeded C09-11.) *)
Theorem import_failure_frees_partial_tree
        (key_err : ecode -> ierr) (junk : node -> node) (l : xload) (root : node) (f : fault) :
  l_lost (fst (import_public_x_ledger key_err junk true l root f)) = []
  /\ (l_root (fst (import_public_x_ledger key_err junk true l root f)),
      snd (import_public_x_ledger key_err junk true l root f)) = import_public_x key_err junk l root f.
Proof. exact (import_failure_frees_partial_tree_lemma key_err junk l root f). Qed.
Print Assumptions import_failure_frees_partial_tree.

(* the same function without the release (what seeded C09-11 did to parse_properties) loses the partial tree *)
Theorem model_variant_without_free_refuted :
  exists l root f,
    is_ok (snd (import_public_x_ledger key_err_DO91 (fun n => n) false l root f)) = false /\
    l_lost (fst (import_public_x_ledger key_err_DO91 (fun n => n) false l root f)) <> [].
Proof. exact model_variant_without_free_refuted_lemma. Qed.
Print Assumptions model_variant_without_free_refuted.
