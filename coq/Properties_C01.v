(* C01 - calibrate-then-apply recovers the true S-parameters: the theorems.  See docs/design_C01.md.
   Part 1 (stdlib): layout and term structure, on models tied to the C code.
   Part 2 (mathcomp): the matrix algebra of calibrate / apply for every n. *)
Require Import ZArith List.
Require Import LV.Gen.LayoutGen LV.Cal.LayoutProofs LV.Cal.TermsModel LV.Cal.AddModel LV.Cal.TermsSpec LV.Cal.TermsProofs.

(* The blocks of the error-term vector computed by _vnacal_layout (model regenerated from the C text)
   tile [0, error_terms) in the documented order, have the documented sizes and the documented total,
   for every type and all dimensions the type allows. *)
Theorem layout_partition : forall ty r c, dims_ok ty r c -> layout_ok ty r c.
Proof. exact layout_partition_lemma. Qed.
Print Assumptions layout_partition.

(* Bound in the statement: the 8 types, 1 <= rows, columns <= 4 as the type allows, every non-empty
   set of VNA ports for the standard (704 configurations, 2358 equations).  Every generated equation
   has exactly the terms of the literal expansion of the documented matrix equation (as a multiset,
   known-zero terms dropped, unity term on the right-hand side, error terms numbered by the layout). *)
Theorem terms_model_eq_spec : forall c, In c all_cfgs -> check_cfg c = true.
Proof. exact terms_model_eq_spec_lemma. Qed.
Print Assumptions terms_model_eq_spec.

Theorem terms_model_eq_spec_nonvacuous :
  length all_cfgs = 704%nat /\
  fold_left (fun n c => match add_common (cfg_args c) with Accepted m => (n + length (ms_eqs m))%nat | _ => n end)
            all_cfgs 0%nat = 2358%nat.
Proof. exact all_cfgs_size. Qed.
Print Assumptions terms_model_eq_spec_nonvacuous.

(* D63 (repaired in /repo): a rectangular S matrix is refused (EINVAL) for every type other than T16 and
   U16.  Bound in the statement: 6 types x dims 1..4 x every s_rows <> s_columns (rect_cases). *)
Theorem rectangular_s_refused : forall c, In c rect_cases -> is_rejected (add_common (rect_args c)) = true.
Proof. exact rectangular_s_refused_lemma. Qed.
Print Assumptions rectangular_s_refused.

(* The connectivity matrix built by the union-find code of build_connectivity_matrix is the
   reflexive-symmetric-transitive closure of "S cell not known to be zero".  Bound in the statement:
   up to 4 ports, every pattern of known-zero off-diagonal cells. *)
Theorem connectivity_closed :
  forall n nz, In n (1 :: 2 :: 3 :: 4 :: nil)%nat -> In nz (sublists (offdiag n)) -> conn_ok n nz = true.
Proof. exact connectivity_closed_lemma. Qed.
Print Assumptions connectivity_closed.

(* The same for EVERY number of ports and EVERY S matrix, on the union-find code AS CODED (the array set[],
   find with its two loops, "the larger leader is redirected to the smaller", the scan of the S cells by rows,
   the find calls of the second pass): cell (i, j) of the connectivity matrix is set exactly when i and j are
   related by the reflexive - symmetric - transitive closure of "S cell (a, b), a <> b, is not the known zero"
   (s_edge; the symmetric closure covers "(a, b) or (b, a)").  Proof: induction over the cells processed
   (ConnProofs.Inv). *)
Require Import Relations LV.Cal.ConnProofs.
Theorem connectivity_closed_every_n : forall n s i j, (i < n)%nat -> (j < n)%nat ->
  (nth (i * n + j) (build_connectivity n s) false = true <-> clos_refl_sym_trans nat (s_edge n s) i j).
Proof. exact connectivity_closed_every_n_lemma. Qed.
Print Assumptions connectivity_closed_every_n.

Theorem connectivity_matrix_length : forall n s, length (build_connectivity n s) = (n * n)%nat.
Proof. exact build_connectivity_length_lemma. Qed.
Print Assumptions connectivity_matrix_length.

(* the forest the scan leaves is acyclic: set[] has n cells and no parent link goes to a larger index *)
Theorem connectivity_forest_acyclic : forall n s, wfset n (scan_set n s).
Proof. exact scan_forest_acyclic_lemma. Qed.
Print Assumptions connectivity_forest_acyclic.

(* FUEL ADEQUACY: on such a forest find() with the fuel n (the number of ports) ends by its own loop
   conditions: the value returned is a leader (set[l] = l) and any larger fuel returns the same leader and
   leaves the same array *)
Theorem find_fuel_adequate : forall n set i f, wfset n set -> (i < n)%nat -> (n <= f)%nat ->
  find_set f set i = find_set n set i /\
  nth (fst (find_set n set i)) set (fst (find_set n set i)) = fst (find_set n set i).
Proof. exact find_fuel_adequate_lemma. Qed.
Print Assumptions find_fuel_adequate.

(* find() as coded redirects set[index] alone (the step i = set[i] reads the cell just written) and changes no
   leader *)
Theorem find_keeps_leaders : forall n set i, wfset n set -> (i < n)%nat ->
  exists set', find_set n set i = (rep n set i, set') /\ wfset n set' /\ forall k, rep n set' k = rep n set k.
Proof. exact find_set_spec. Qed.
Print Assumptions find_keeps_leaders.

(* not vacuous: six ports, S non-zero only at (1,2), (2,0), (3,4), (4,2): the scan leaves the two-level forest
   4 -> 3 -> 0; ports 0..4 connected, port 5 alone *)
Theorem connectivity_two_level_forest :
  scan_set 6 chain6 = (0 :: 0 :: 0 :: 0 :: 3 :: 5 :: nil)%nat /\
  nth (4 * 6 + 1) (build_connectivity 6 chain6) false = true /\
  nth (4 * 6 + 5) (build_connectivity 6 chain6) false = false /\
  clos_refl_sym_trans nat (s_edge 6 chain6) 4%nat 1%nat /\
  ~ clos_refl_sym_trans nat (s_edge 6 chain6) 4%nat 5%nat.
Proof. exact connectivity_two_level_example. Qed.
Print Assumptions connectivity_two_level_forest.

(* ================================================================================================ *)
(* Part 1b (stdlib): the numeric core AS CODED -- fill_* of vnacal_apply.c (Cal/ApplyModel.v), one
   frequency of vnacal_new_solve without unknown parameters (Cal/SolveSimple.v: leakage means, assembly
   of a_matrix / b_vector, unity term, convert_ue14_to_e12), instantiated at the Gaussian rationals with
   the LU / least-squares models of C19 (Cal/CalQI.v).  Both models are tied to the compiled code by
   exact comparison on every run (checks/C01.py, lib/calcore_num.py). *)
Require Import QArith Qcanon.
Require Import LV.Base.CField LV.Base.QcI LV.Lin.MatL LV.Lin.LuModel LV.Lin.LuQI LV.Lin.LuQI2 LV.Lin.LuGenA
               LV.Lin.LuProofs LV.Lin.LsSpec.
Require Import LV.Cal.Sym LV.Cal.ApplyModel LV.Cal.ApplyProofs LV.Cal.SolveSimple LV.Cal.SolveProofs
               LV.Cal.E12Proofs LV.Cal.LeakProofs LV.Cal.SolveUnique LV.Cal.CalQI LV.Cal.ApplyIdentity
               LV.Cal.AssembleIdentity LV.Cal.LinUnique LV.Cal.ApplyRecovers LV.Cal.SolveRecovers LV.Cal.EndToEnd.
Local Open Scope nat_scope.

(* ---- apply: the fill functions ---- *)

(* Bound in the statement: the 8 stored types x the shapes apply accepts with dimensions 1..4 (1x1..4x4
   and 1x2 for T / 2x1 for U, E: 40 cases).  As rational functions of the error terms and measured cells
   (symbolic values, Cal/Sym.v, normal forms compared by computation) the matrices (A, B) filled by
   fill_t8/u8/t16/u16/ue14/e12 as coded are the block expressions Ts - M' Tx, M' Tm - Ti; Ux M' + Us,
   Um M' + Ui; the per-column forms for UE14 and E12 (ApplyModel.spec_fill). *)
Theorem fill_eq_spec : forall c, In c apply_cases -> check_fill c = true.
Proof. exact fill_eq_spec_lemma. Qed.
Print Assumptions fill_eq_spec.

Theorem fill_eq_spec_nonvacuous : length apply_cases = 40 /\ length (refused_shapes U16) = 5.
Proof. exact fill_cases_count. Qed.
Print Assumptions fill_eq_spec_nonvacuous.

(* No bound, no symbolic layer: for EVERY field K, every case of apply_cases and ALL error-term vectors
   e, measured matrices m and candidate matrices s of the right lengths, the filled (A, B) satisfy
   (A S - B)[i,j] = - doc[i,j] (T) resp. (S A - B)[i,j] = - doc[i,j] (U, UE14, E12), doc being the
   documented expression of vnacal_layout.h at (e, m, s) (ApplyIdentity.doc_cell; for 1x2 / 2x1 the two
   orientations of the two-port).  So S solves the filled system iff the documented equation holds. *)
Theorem fill_solves (K : CField) (ty : caltype) (mr mc : nat) (e m s : list K) :
  In (ty, (mr, mc)) apply_cases ->
  let p := Nat.max mr mc in
  length e = nterms ty mr mc -> length m = p * p -> length s = p * p ->
  exists m' a b, apply_fill (ops_of K) ty mr mc e m = Filled m' a b /\
    forall i j, i < p -> j < p ->
      csub (prod_cell K ty mr mc a s i j) (g (ops_of K) b (i * p + j)) = copp (doc_cell K ty mr mc e m s i j).
Proof. exact (fill_solves_lemma K ty mr mc e m s). Qed.
Print Assumptions fill_solves.

(* No bound: every value type, type code, dimensions and arrays.  A calibration that is neither square
   nor has 2 ports is refused before any fill function runs; every other shape is not refused; and for
   the dimensions a type allows the assert(m_rows == m_columns) of the fill functions cannot fail. *)
Theorem apply_refuses_other_shapes (O : Ops) (ty : caltype) (mr mc : nat) (e m : list O) :
  mr <> mc -> Nat.max mr mc <> 2 -> apply_fill O ty mr mc e m = Refused.
Proof. exact (apply_refuses_other_shapes_lemma O ty mr mc e m). Qed.
Print Assumptions apply_refuses_other_shapes.

Theorem apply_accepts_shape (O : Ops) (ty : caltype) (mr mc : nat) (e m : list O) :
  mr = mc \/ Nat.max mr mc = 2 -> apply_fill O ty mr mc e m <> Refused.
Proof. exact (apply_accepts_shape_lemma O ty mr mc e m). Qed.
Print Assumptions apply_accepts_shape.

Theorem apply_assert_unreachable (O : Ops) (ty : caltype) (mr mc : nat) (e m : list O) :
  1 <= mr -> 1 <= mc -> (if VNACAL_IS_T ty then mr <= mc else mc <= mr) ->
  apply_fill O ty mr mc e m <> FAssert.
Proof. exact (apply_assert_unreachable_lemma O ty mr mc e m). Qed.
Print Assumptions apply_assert_unreachable.

(* ---- solve: assembly of the linear systems ---- *)

(* Bound in the statement: the 704 configurations of all_cfgs (8 types, dims 1..4, every port set; one
   standard without known-zero cells).  As polynomials (symbolic values) the residual sum_k a_k x_k - b
   of every row assembled by the model of _vnacal_new_solve_simple is the cell (eq_row, eq_col) of the
   documented matrix expression, unity term = 1, blocks read through the regenerated layout. *)
Theorem assembled_eq_matrix_cell : forall c, In c all_cfgs -> check_assembled c = true.
Proof. exact assembled_eq_matrix_cell_lemma. Qed.
Print Assumptions assembled_eq_matrix_cell.

(* The same for EVERY field K and all values, without the symbolic layer.  Bound in the statement:
   small_cfgs = dims 1..3 (224 configurations, 518 equations). *)
Theorem assembled_row_is_equation_cell (K : CField) : forall c, In c small_cfgs -> assembled_identity K c.
Proof. exact (assembled_identity_all K). Qed.
Print Assumptions assembled_row_is_equation_cell.

Theorem assembled_row_is_equation_cell_nonvacuous :
  length small_cfgs = 224 /\
  fold_left (fun n c => match add_common (cfg_args c) with Accepted m => n + length (ms_eqs m) | _ => n end)
            small_cfgs 0 = 518.
Proof. exact small_cfgs_size. Qed.
Print Assumptions assembled_row_is_equation_cell_nonvacuous.

(* ---- solve: assembly for LISTS of standards, known-zero and absent S cells ---- *)

(* One standard, ARBITRARY leakage-corrected values fadj, EVERY field.  Bound in the statement: zcfgs = the 8
   measuring types, dimensions 1..3 as the type allows, every non-empty port set, known-zero masks of the k x k
   S matrix: k = 1 both, k = 2 all 16 (4 on a 3-port VNA), k = 3 four (none; all off-diagonal + S11; above the
   diagonal; all off-diagonal but S23, S31) -- 864 configurations.  Every row built by the body of
   SolveSimple.row_of is the cell of the documented matrix expression at the error terms, M' = fadj and the S
   matrix of the standard (known zero = 0, parameter = its value, absent cell = any value). *)
Require Import LV.Cal.C17Proofs LV.Cal.OrderProofs LV.Cal.AssembleList.
Theorem assembled_row_is_equation_cell_zero_cells (K : CField) : forall c, In c zcfgs -> adj_identity K c.
Proof. exact (adj_identity_all K). Qed.
Print Assumptions assembled_row_is_equation_cell_zero_cells.

(* EVERY list of standards of that family (any number, any order, any mix of full multi-port standards,
   standards on a subset of the ports and standards with known-zero cells), every field, all values: every
   row of every system assembled by the model of _vnacal_new_solve_simple for the WHOLE list satisfies
   sum_k a_k x_k - b = cell (eq_row, eq_col) of the documented matrix expression of the standard the row
   belongs to, with M' = its measurement minus the leakage means computed over the whole list (m_adjusted).
   The dimensions stay bounded (1..3) through the family; the list is not bounded. *)
Theorem assembled_list_rows_are_equation_cells (K : CField) ty mr mc (ms : list (mvals (ops_of K)))
        (pv : Z -> K) (fe fx : nat -> K) (sys : nat) :
  sys < systems_of ty mc ->
  (forall mv, In mv ms -> std_of K ty mr mc mv) ->
  Forall2 (fun row me =>
             row_res K ty mr mc fe sys row
             = std_cell K ty mr mc (mv_meas _ (fst me)) fe (m_adjusted (ops_of K) ty mr mc ms (fst me)) fx pv
                        (e_row (snd me)) (e_col (snd me)))
          (assemble (ops_of K) ty mr mc pv ms sys)
          (flat_map (fun mv => map (pair mv) (filter (eq_in_system ty sys) (ms_eqs (mv_meas _ mv)))) ms).
Proof. exact (assembled_list_rows_lemma K ty mr mc ms pv fe fx sys). Qed.
Print Assumptions assembled_list_rows_are_equation_cells.

(* for EVERY type, all dimensions and every list (no bound): the rows of a system are built standard by
   standard, and a row depends on the other standards only through the leakage-corrected values *)
Theorem assemble_standard_by_standard (O : Ops) ty mr mc pval (ms : list (mvals O)) sys :
  assemble O ty mr mc pval ms sys =
  flat_map (fun mv => map (fun e => row_of_adj O ty mr mc pval (m_adjusted O ty mr mc ms mv) (mv_meas O mv) e)
                          (filter (eq_in_system ty sys) (ms_eqs (mv_meas O mv)))) ms.
Proof. exact (assemble_flat O ty mr mc pval ms sys). Qed.
Print Assumptions assemble_standard_by_standard.

Theorem assembled_list_nonvacuous (K : CField) (vals : nat -> nat -> K) (pv : Z -> K) :
  length zcfgs = 864 /\
  length (exl_ms K vals) = 3 /\
  (forall mv, In mv (exl_ms K vals) -> std_of K TE10 2 2 mv) /\
  length (assemble (ops_of K) TE10 2 2 pv (exl_ms K vals) 0) = 6 /\
  leak_mean (ops_of K) 2 2 (exl_ms K vals) (0, 1) <> None.
Proof. exact (conj (proj1 zcfgs_size) (assembled_list_example K vals pv)). Qed.
Print Assumptions assembled_list_nonvacuous.

(* ---- solve: leakage means ---- *)

(* Every field in which the sample counts are invertible, every list of standards, every cell: if every
   measurement that contributes a sample to the leakage term of the cell has the value x there, the mean
   that the solver subtracts and saves is x.  (That such a cell measures El is the block-diagonal argument
   of vnacal_layout.h; tested end to end, not proved.) *)
Theorem leak_mean_exact (K : CField) (mr mc : nat) (ms : list (mvals (ops_of K))) (r c : nat) (x v : K) :
  (forall mv, In mv ms -> sampled K mr mc mv r c = true -> g (ops_of K) (mv_m _ mv) (r * mc + c) = x) ->
  (forall n : nat, n <> 0 -> onat (ops_of K) n <> c0) ->
  leak_mean (ops_of K) mr mc ms (r, c) = Some v -> v = x.
Proof. exact (leak_mean_exact_lemma K mr mc ms r c x v). Qed.
Print Assumptions leak_mean_exact.

Theorem leak_mean_exact_nonvacuous :
  (forall mv, In mv lk_ms -> sampled QIF 2 2 mv 0 1 = true -> g (ops_of QIF) (mv_m _ mv) (0 * 2 + 1) = lk_x) /\
  (forall n : nat, n <> 0 -> onat (ops_of QIF) n <> @c0 QIF) /\
  exists v, leak_mean (ops_of QIF) 2 2 lk_ms (0, 1) = Some v.
Proof. exact LeakProofs.leak_mean_exact_nonvacuous. Qed.
Print Assumptions leak_mean_exact_nonvacuous.

(* ---- solve: UE14 -> E12 ---- *)

(* Bound in the statement: 1x1..4x4 and 2x1.  On symbolic values, the E12 terms produced by
   convert_ue14_to_e12 as coded make fill_e12 produce, cell by cell, the (A, B) of fill_ue14 on the UE14
   terms divided by the column's scalar n_c = us_c - ui_c ux_cc / um_cc (so B A^-1 is unchanged). *)
Theorem ue14_to_e12_sound :
  forall rc, In rc ((1, 1) :: (2, 2) :: (3, 3) :: (4, 4) :: (2, 1) :: nil) -> check_e12 rc = true.
Proof. exact ue14_to_e12_sound_lemma. Qed.
Print Assumptions ue14_to_e12_sound.

(* the scalar identities behind it, every field *)
Theorem ue14_to_e12_diag_cell (K : CField) (um_c ui ux_c us m : K) :
  um_c <> c0 -> csub us (cdiv (cmul ui ux_c) um_c) <> c0 ->
  let n := csub us (cdiv (cmul ui ux_c) um_c) in
  let el := cdiv (csub c0 ui) um_c in let er := cdiv n um_c in let em := cdiv ux_c um_c in
  let b12 := cdiv (csub m el) er in let a12 := cadd c1 (cmul em b12) in
  cmul b12 n = cadd (cmul m um_c) ui /\ cmul a12 n = cadd (cmul m ux_c) us.
Proof. exact (e12_diag_cell K um_c ui ux_c us m). Qed.
Print Assumptions ue14_to_e12_diag_cell.

Theorem ue14_to_e12_offdiag_cell (K : CField) (um_c um_r ui ux_c ux_r us m el_in : K) :
  um_c <> c0 -> um_r <> c0 -> csub us (cdiv (cmul ui ux_c) um_c) <> c0 ->
  let n := csub us (cdiv (cmul ui ux_c) um_c) in
  let er := cdiv n um_r in let em := cdiv ux_r um_r in
  let b12 := cdiv (csub m el_in) er in let a12 := cadd c0 (cmul em b12) in
  cmul b12 n = cmul (csub m el_in) um_r /\ cmul a12 n = cmul (csub m el_in) ux_r.
Proof. exact (e12_offdiag_cell K um_c um_r ui ux_c ux_r us m el_in). Qed.
Print Assumptions ue14_to_e12_offdiag_cell.

Theorem ue14_to_e12_scalars_nonvacuous :
  let um : QIF := mkqi 2 1 0 1 in let ui : QIF := mkqi 1 2 0 1 in
  let ux : QIF := mkqi 1 3 0 1 in let us : QIF := mkqi 1 1 0 1 in
  um <> @c0 QIF /\ csub us (cdiv (cmul ui ux) um) <> @c0 QIF.
Proof. exact e12_scalars_nonvacuous. Qed.
Print Assumptions ue14_to_e12_scalars_nonvacuous.

(* ---- solve: what the exact solver models guarantee (instances of the C19 theorems), every n ---- *)

Theorem solve_square_exact (n : nat) (a b : mat QIF) :
  wf n n a -> pivots_nonzero QIF Qc qi_nrm Qcmult Qc_ltb 0%Qc row_scale_of_max a n -> wf n 1 b ->
  forall i, i < n -> mget QIF (mmul QIF n n 1 a (fst (q_mldivide a b n 1))) i 0 = mget QIF b i 0.
Proof. exact (solve_square_exact_lemma n a b). Qed.
Print Assumptions solve_square_exact.

Theorem solve_square_unique (n : nat) (a : mat QIF) :
  wf n n a -> pivots_nonzero QIF Qc qi_nrm Qcmult Qc_ltb 0%Qc row_scale_of_max a n ->
  forall v, in_kernel QIF a n v -> forall k, k < n -> v k = c0.
Proof. exact (solve_square_unique_lemma n a). Qed.
Print Assumptions solve_square_unique.

Theorem solve_square_nonvacuous :
  wf 2 2 su_a /\ pivots_nonzero QIF Qc qi_nrm Qcmult Qc_ltb 0%Qc row_scale_of_max su_a 2 /\ wf 2 1 su_b.
Proof. exact SolveUnique.solve_square_nonvacuous. Qed.
Print Assumptions solve_square_nonvacuous.

Theorem solve_tall_consistent_exact (m n : nat) (a b x : mat QIF) :
  q2_ls_solve m n 1 a b = Some x ->
  (exists x0 : mat QIF, forall i k, i < m -> k < 1 -> mget QIF (mmul QIF m n 1 a x0) i k = mget QIF b i k) ->
  forall i, i < m -> mget QIF (mmul QIF m n 1 a x) i 0 = mget QIF b i 0.
Proof. exact (solve_tall_consistent_exact_lemma m n a b x). Qed.
Print Assumptions solve_tall_consistent_exact.

Theorem solve_tall_nonvacuous :
  q2_ls_solve 3 2 1 su_ta su_tb = Some su_tx /\
  exists x0 : mat QIF, forall i k, i < 3 -> k < 1 -> mget QIF (mmul QIF 3 2 1 su_ta x0) i k = mget QIF su_tb i k.
Proof. exact SolveUnique.solve_tall_nonvacuous. Qed.
Print Assumptions solve_tall_nonvacuous.

(* every n, flat row-major arrays as the C code passes them: when the LU model reports a non-zero
   determinant, A \ B (resp. B / A) is THE solution *)
Theorem lu_left_divide_unique (n : nat) (a b s : list qi) :
  length s = n * n ->
  (forall i j, i < n -> j < n ->
     @sumf QIF n (fun k => @cmul QIF (nth (i * n + k) a (@c0 QIF)) (nth (k * n + j) s (@c0 QIF))) = nth (i * n + j) b (@c0 QIF)) ->
  let r := q_mldivide (munflat QIF n n a) (munflat QIF n n b) n n in
  snd r <> @c0 QIF -> mflat QIF (fst r) = s.
Proof. exact (mldivide_unique QIF Qc qi_nrm Qcmult Qc_ltb 0%Qc row_scale_of_max n a b s). Qed.
Print Assumptions lu_left_divide_unique.

Theorem lu_right_divide_unique (n : nat) (a b s : list qi) :
  length s = n * n ->
  (forall i j, i < n -> j < n ->
     @sumf QIF n (fun k => @cmul QIF (nth (i * n + k) s (@c0 QIF)) (nth (k * n + j) a (@c0 QIF))) = nth (i * n + j) b (@c0 QIF)) ->
  let r := q_mrdivide (munflat QIF n n b) (munflat QIF n n a) n n in
  snd r <> @c0 QIF -> mflat QIF (fst r) = s.
Proof. exact (mrdivide_unique QIF Qc qi_nrm Qcmult Qc_ltb 0%Qc row_scale_of_max n a b s). Qed.
Print Assumptions lu_right_divide_unique.

(* ---- composition on the models as coded ---- *)

(* Bound in the statement: apply_cases (40).  ALL error terms, measurements and S at the Gaussian
   rationals: if the measurement satisfies the documented equation with the error terms and the model of
   vnacal_apply (fill as coded, exact LU model) reports success, its result is S. *)
Theorem apply_model_recovers_S (ty : caltype) (mr mc : nat) (e m s : list qi) :
  In (ty, (mr, mc)) apply_cases ->
  let p := Nat.max mr mc in
  length e = nterms ty mr mc -> length m = p * p -> length s = p * p ->
  (forall i j, i < p -> j < p -> doc_cell QIF ty mr mc e m s i j = @c0 QIF) ->
  forall a b x, q_apply ty mr mc e m = AOk a b x -> x = s.
Proof. exact (apply_model_recovers_S_lemma ty mr mc e m s). Qed.
Print Assumptions apply_model_recovers_S.

Theorem apply_model_recovers_S_nonvacuous :
  In (T8, (2, 2)) apply_cases /\ length ex_e = nterms T8 2 2 /\
  (forall i j, i < 2 -> j < 2 -> doc_cell QIF T8 2 2 ex_e ex_s ex_s i j = @c0 QIF) /\
  exists a b, q_apply T8 2 2 ex_e ex_s = AOk a b ex_s.
Proof. exact ApplyRecovers.apply_model_recovers_S_nonvacuous. Qed.
Print Assumptions apply_model_recovers_S_nonvacuous.

(* No bound: every type, all dimensions, every list of standards and parameter values.  If xt satisfies
   every equation assembled (as coded) for the system and the system determines it (square: implied by
   the solver's non-zero determinant; tall: trivial kernel, hypothesis), the solver model returns xt. *)
Theorem solve_system_recovers ty mr mc (ms : list (mvals qops)) (pval : Z -> qi) (sys : nat)
        (rows : list (list qi * qi)) (x xt : list qi) :
  q_solve_system ty mr mc ms pval sys = SysOk rows x ->
  let n := unknowns ty mr mc in
  length xt = n ->
  (forall r, In r rows -> rdot n (fst r) xt = snd r) ->
  (n < length rows -> kernel_trivial n rows) ->
  rows = q_assemble ty mr mc ms pval sys /\ x = xt.
Proof. exact (solve_system_recovers_lemma ty mr mc ms pval sys rows x xt). Qed.
Print Assumptions solve_system_recovers.

(* the tall case with its trivial-kernel hypothesis can be met: four reflection standards on one port *)
Theorem solve_system_recovers_tall_nonvacuous :
  let rows := q_assemble T8 1 1 ex_ms4 ex_pval4 0 in
  length rows = 4 /\ unknowns T8 1 1 = 3 /\
  (forall r, In r rows -> rdot 3 (fst r) (ex_ts :: ex_ti :: ex_tx :: nil) = snd r) /\
  kernel_trivial 3 rows /\
  exists rows', q_solve_system T8 1 1 ex_ms4 ex_pval4 0 = SysOk rows' (ex_ts :: ex_ti :: ex_tx :: nil).
Proof. exact EndToEnd.solve_system_recovers_tall_nonvacuous. Qed.
Print Assumptions solve_system_recovers_tall_nonvacuous.

(* ... and the saved vector is the true one: unity terms inserted, leakage means appended, converted
   by convert_ue14_to_e12 for E12 *)
Theorem error_terms_recover ty mr mc (ms : list (mvals qops)) (pval : Z -> qi)
        (xs_true : list (list qi)) (e : list qi) :
  let n := unknowns ty mr mc in
  let nsys := systems_of ty mc in
  length xs_true = nsys ->
  (forall sys, sys < nsys ->
     let xt := nth sys xs_true nil in
     let rows := q_assemble ty mr mc ms pval sys in
     length xt = n /\ (forall r, In r rows -> rdot n (fst r) xt = snd r) /\
     (n < length rows -> kernel_trivial n rows)) ->
  q_error_terms ty mr mc ms pval = Some e ->
  e = (if caltype_eqb ty E12_UE14 then convert_ue14_to_e12 qops mr mc (e_vector qops ty mr mc ms xs_true)
       else e_vector qops ty mr mc ms xs_true).
Proof. exact (error_terms_recover_lemma ty mr mc ms pval xs_true e). Qed.
Print Assumptions error_terms_recover.

(* calibrate-then-apply on the models as coded.  Bound in the statement: apply_cases (8 stored types x
   1x1..4x4, 1x2 / 2x1); every list of standards, parameter values, measured values, every device.
   PARTIAL with respect to the property: (1) the calibration hypothesis is "the true normalised terms
   satisfy every assembled equation", not "the measurements of the standards come from the error
   network" -- the bridge is assembled_list_rows_are_equation_cells (EVERY list of standards, known-zero
   and absent S cells, leakage means over the whole list; dimensions 1..3 and the mask family zcfgs) with
   assembled_eq_matrix_cell (dimension 4, one full standard) and leak_mean_exact; not formalised: that the
   documented cell vanishes for measurements that come from the error network when the type has leakage
   terms outside the system (block-diagonal argument), and the composition for dimensions > 3;
   (2) tall systems need the trivial-kernel hypothesis;
   (3) exact arithmetic; (4) models, tied to the C code by the exact comparisons of checks/C01.py. *)
Theorem c01_model_end_to_end_partial (ty : caltype) (mr mc : nat) :
  In (ty, (mr, mc)) apply_cases ->
  let sty := solve_type ty in
  let n := unknowns sty mr mc in
  let nsys := systems_of sty mc in
  let p := Nat.max mr mc in
  forall (ms : list (mvals qops)) (pval : Z -> qi) (xs_true : list (list qi)) (e : list qi),
  length xs_true = nsys ->
  (forall sys, sys < nsys ->
     let xt := nth sys xs_true nil in
     let rows := q_assemble sty mr mc ms pval sys in
     length xt = n /\ (forall r, In r rows -> rdot n (fst r) xt = snd r) /\
     (n < length rows -> kernel_trivial n rows)) ->
  q_error_terms sty mr mc ms pval = Some e ->
  e = true_terms ty mr mc ms xs_true /\
  forall m s : list qi, length m = p * p -> length s = p * p ->
  (forall i j, i < p -> j < p -> doc_cell QIF ty mr mc (true_terms ty mr mc ms xs_true) m s i j = @c0 QIF) ->
  forall a b x, q_apply ty mr mc e m = AOk a b x -> x = s.
Proof. exact (c01_model_end_to_end_lemma ty mr mc). Qed.
Print Assumptions c01_model_end_to_end_partial.

(* a one-port T8 calibration with three reflection standards, a non-ideal VNA and a complex device:
   every hypothesis holds, the solve returns the true terms and apply returns the device *)
Theorem c01_model_end_to_end_nonvacuous :
  In (T8, (1, 1)) apply_cases /\
  length ex_ms = 3 /\ length ex_xs = systems_of T8 1 /\
  (let xt := nth 0 ex_xs nil in let rows := q_assemble T8 1 1 ex_ms ex_pval 0 in
   length rows = 3 /\ length xt = unknowns T8 1 1 /\
   (forall r, In r rows -> rdot (unknowns T8 1 1) (fst r) xt = snd r) /\
   (unknowns T8 1 1 < length rows -> kernel_trivial (unknowns T8 1 1) rows)) /\
  q_error_terms T8 1 1 ex_ms ex_pval = Some (true_terms T8 1 1 ex_ms ex_xs) /\
  true_terms T8 1 1 ex_ms ex_xs = ex_ts :: ex_ti :: ex_tx :: qi1 :: nil /\
  doc_cell QIF T8 1 1 (true_terms T8 1 1 ex_ms ex_xs) (ex_meas ex_dut :: nil) (ex_dut :: nil) 0 0 = @c0 QIF /\
  exists a b, q_apply T8 1 1 (true_terms T8 1 1 ex_ms ex_xs) (ex_meas ex_dut :: nil) = AOk a b (ex_dut :: nil).
Proof. exact EndToEnd.c01_model_end_to_end_nonvacuous. Qed.
Print Assumptions c01_model_end_to_end_nonvacuous.

(* ------------------------------------------------------------------------------------------------ *)
From mathcomp Require Import all_ssreflect all_fingroup all_algebra.
Require LV.Cal.CalAlgebra.
Import GRing.Theory.
Local Open Scope ring_scope.

(* If the measurement of a standard comes from the T model, the true terms satisfy the documented
   equation (every generated equation is a cell of it): all r, p, any field. *)
Theorem true_terms_solve_T (F : fieldType) (r p : nat)
        (Ts Ti : 'M[F]_(r, p)) (Tx Tm : 'M[F]_(p, p)) (S : 'M[F]_p) (M : 'M[F]_(r, p)) :
  Tx *m S + Tm \in unitmx ->
  M = (Ts *m S + Ti) *m invmx (Tx *m S + Tm) ->
  - (Ts *m S) - Ti + M *m Tx *m S + M *m Tm = 0.
Proof. exact: CalAlgebra.true_terms_solve_T. Qed.
Print Assumptions true_terms_solve_T.

Theorem true_terms_solve_U (F : fieldType) (p c : nat)
        (Um Ux : 'M[F]_(p, p)) (Ui Us : 'M[F]_(p, c)) (S : 'M[F]_p) (M : 'M[F]_(p, c)) :
  Um - S *m Ux \in unitmx ->
  M = invmx (Um - S *m Ux) *m (S *m Us - Ui) ->
  Um *m M + Ui - S *m Ux *m M - S *m Us = 0.
Proof. exact: CalAlgebra.true_terms_solve_U. Qed.
Print Assumptions true_terms_solve_U.

(* the solver normalises one term to 1: any scalar multiple of the terms solves the equations *)
Theorem scaled_terms_solve_T (F : fieldType) (r p : nat)
        (Ts Ti : 'M[F]_(r, p)) (Tx Tm : 'M[F]_(p, p)) (S : 'M[F]_p) (M : 'M[F]_(r, p)) (k : F) :
  - (Ts *m S) - Ti + M *m Tx *m S + M *m Tm = 0 ->
  - ((k *: Ts) *m S) - k *: Ti + M *m (k *: Tx) *m S + M *m (k *: Tm) = 0.
Proof. exact: CalAlgebra.scaled_terms_solve_T. Qed.
Print Assumptions scaled_terms_solve_T.

(* apply (fill_t8 / fill_t16 then A^-1 B) returns the DUT's S for any non-zero multiple of the true terms *)
Theorem apply_recovers_T (F : fieldType) (n : nat) (Ts Ti Tx Tm S M : 'M[F]_n) (k : F) :
  k != 0 ->
  Tx *m S + Tm \in unitmx ->
  M = (Ts *m S + Ti) *m invmx (Tx *m S + Tm) ->
  let A := k *: Ts - M *m (k *: Tx) in
  let B := M *m (k *: Tm) - k *: Ti in
  A \in unitmx -> invmx A *m B = S.
Proof. exact: CalAlgebra.apply_recovers_T. Qed.
Print Assumptions apply_recovers_T.

(* fill_u8 / fill_u16 then B A^-1 *)
Theorem apply_recovers_U (F : fieldType) (n : nat) (Um Ui Ux Us S M : 'M[F]_n) (k : F) :
  k != 0 ->
  Um - S *m Ux \in unitmx ->
  M = invmx (Um - S *m Ux) *m (S *m Us - Ui) ->
  let A := (k *: Ux) *m M + k *: Us in
  let B := (k *: Um) *m M + k *: Ui in
  A \in unitmx -> B *m invmx A = S.
Proof. exact: CalAlgebra.apply_recovers_U. Qed.
Print Assumptions apply_recovers_U.

(* the hypotheses are met by the ideal VNA for every device S *)
Theorem apply_hypotheses_satisfiable_T (F : fieldType) (n : nat) (S : 'M[F]_n) :
  [/\ (1 : F) != 0, (0 : 'M[F]_n) *m S + 1%:M \in unitmx,
      S = (1%:M *m S + 0) *m invmx ((0 : 'M[F]_n) *m S + 1%:M)
    & (1 : F) *: (1%:M : 'M[F]_n) - S *m ((1 : F) *: (0 : 'M[F]_n)) \in unitmx].
Proof. exact: CalAlgebra.apply_hypotheses_satisfiable_T. Qed.
Print Assumptions apply_hypotheses_satisfiable_T.

Theorem apply_hypotheses_satisfiable_U (F : fieldType) (n : nat) (S : 'M[F]_n) :
  [/\ (1 : F) != 0, (1%:M : 'M[F]_n) - S *m 0 \in unitmx,
      S = invmx ((1%:M : 'M[F]_n) - S *m 0) *m (S *m 1%:M - 0)
    & ((1 : F) *: (0 : 'M[F]_n)) *m S + (1 : F) *: (1%:M : 'M[F]_n) \in unitmx].
Proof. exact: CalAlgebra.apply_hypotheses_satisfiable_U. Qed.
Print Assumptions apply_hypotheses_satisfiable_U.

(* a/b entry points: M = B A^-1 does not depend on a common right factor of a and b *)
Theorem ab_reduction_scaling (F : fieldType) (r n : nat) (A D : 'M[F]_n) (B : 'M[F]_(r, n)) :
  A \in unitmx -> D \in unitmx -> (B *m D) *m invmx (A *m D) = B *m invmx A.
Proof. exact: CalAlgebra.ab_scaling. Qed.
Print Assumptions ab_reduction_scaling.
