(* C01 - calibrate-then-apply recovers the true S-parameters: the theorems.  See docs/design_C01.md.
   Part 1 (stdlib): layout and term structure, on models tied to the C code.
   Part 2 (mathcomp): the matrix algebra of calibrate / apply for every n. *)
Require Import ZArith List.
Require Import LV.Gen.LayoutGen LV.Cal.LayoutProofs LV.Cal.TermsModel LV.Cal.AddModel LV.Cal.TermsSpec LV.Cal.TermsProofs.

(* The blocks of the error-term vector computed by _vnacal_layout (model regenerated from the C text)
   tile [0, error_terms) in the documented order, have the documented sizes and the documented total,
   for every type and all dimensions the type allows. *)
Theorem layout_partition : forall ty r c, dims_ok ty r c -> layout_ok ty r c.
Proof. exact layout_partition_lemma. Qed.
Print Assumptions layout_partition.

(* Bound in the statement: the 8 types, 1 <= rows, columns <= 4 as the type allows, every non-empty
   set of VNA ports for the standard (704 configurations, 2358 equations).  Every generated equation
   has exactly the terms of the literal expansion of the documented matrix equation (as a multiset,
   known-zero terms dropped, unity term on the right-hand side, error terms numbered by the layout). *)
Theorem terms_model_eq_spec : forall c, In c all_cfgs -> check_cfg c = true.
Proof. exact terms_model_eq_spec_lemma. Qed.
Print Assumptions terms_model_eq_spec.

Theorem terms_model_eq_spec_nonvacuous :
  length all_cfgs = 704%nat /\
  fold_left (fun n c => match add_common (cfg_args c) with Accepted m => (n + length (ms_eqs m))%nat | _ => n end)
            all_cfgs 0%nat = 2358%nat.
Proof. exact all_cfgs_size. Qed.
Print Assumptions terms_model_eq_spec_nonvacuous.

(* D63 (repaired in /repo): a rectangular S matrix is refused (EINVAL) for every type other than T16 and
   U16.  Bound in the statement: 6 types x dims 1..4 x every s_rows <> s_columns (rect_cases). *)
Theorem rectangular_s_refused : forall c, In c rect_cases -> is_rejected (add_common (rect_args c)) = true.
Proof. exact rectangular_s_refused_lemma. Qed.
Print Assumptions rectangular_s_refused.

(* The connectivity matrix built by the union-find code of build_connectivity_matrix is the
   reflexive-symmetric-transitive closure of "S cell not known to be zero".  Bound in the statement:
   up to 4 ports, every pattern of known-zero off-diagonal cells. *)
Theorem connectivity_closed :
  forall n nz, In n (1 :: 2 :: 3 :: 4 :: nil)%nat -> In nz (sublists (offdiag n)) -> conn_ok n nz = true.
Proof. exact connectivity_closed_lemma. Qed.
Print Assumptions connectivity_closed.

(* ------------------------------------------------------------------------------------------------ *)
From mathcomp Require Import all_ssreflect all_fingroup all_algebra.
Require LV.Cal.CalAlgebra.
Import GRing.Theory.
Local Open Scope ring_scope.

(* If the measurement of a standard comes from the T model, the true terms satisfy the documented
   equation (every generated equation is a cell of it): all r, p, any field. *)
Theorem true_terms_solve_T (F : fieldType) (r p : nat)
        (Ts Ti : 'M[F]_(r, p)) (Tx Tm : 'M[F]_(p, p)) (S : 'M[F]_p) (M : 'M[F]_(r, p)) :
  Tx *m S + Tm \in unitmx ->
  M = (Ts *m S + Ti) *m invmx (Tx *m S + Tm) ->
  - (Ts *m S) - Ti + M *m Tx *m S + M *m Tm = 0.
Proof. exact: CalAlgebra.true_terms_solve_T. Qed.
Print Assumptions true_terms_solve_T.

Theorem true_terms_solve_U (F : fieldType) (p c : nat)
        (Um Ux : 'M[F]_(p, p)) (Ui Us : 'M[F]_(p, c)) (S : 'M[F]_p) (M : 'M[F]_(p, c)) :
  Um - S *m Ux \in unitmx ->
  M = invmx (Um - S *m Ux) *m (S *m Us - Ui) ->
  Um *m M + Ui - S *m Ux *m M - S *m Us = 0.
Proof. exact: CalAlgebra.true_terms_solve_U. Qed.
Print Assumptions true_terms_solve_U.

(* the solver normalises one term to 1: any scalar multiple of the terms solves the equations *)
Theorem scaled_terms_solve_T (F : fieldType) (r p : nat)
        (Ts Ti : 'M[F]_(r, p)) (Tx Tm : 'M[F]_(p, p)) (S : 'M[F]_p) (M : 'M[F]_(r, p)) (k : F) :
  - (Ts *m S) - Ti + M *m Tx *m S + M *m Tm = 0 ->
  - ((k *: Ts) *m S) - k *: Ti + M *m (k *: Tx) *m S + M *m (k *: Tm) = 0.
Proof. exact: CalAlgebra.scaled_terms_solve_T. Qed.
Print Assumptions scaled_terms_solve_T.

(* apply (fill_t8 / fill_t16 then A^-1 B) returns the DUT's S for any non-zero multiple of the true terms *)
Theorem apply_recovers_T (F : fieldType) (n : nat) (Ts Ti Tx Tm S M : 'M[F]_n) (k : F) :
  k != 0 ->
  Tx *m S + Tm \in unitmx ->
  M = (Ts *m S + Ti) *m invmx (Tx *m S + Tm) ->
  let A := k *: Ts - M *m (k *: Tx) in
  let B := M *m (k *: Tm) - k *: Ti in
  A \in unitmx -> invmx A *m B = S.
Proof. exact: CalAlgebra.apply_recovers_T. Qed.
Print Assumptions apply_recovers_T.

(* fill_u8 / fill_u16 then B A^-1 *)
Theorem apply_recovers_U (F : fieldType) (n : nat) (Um Ui Ux Us S M : 'M[F]_n) (k : F) :
  k != 0 ->
  Um - S *m Ux \in unitmx ->
  M = invmx (Um - S *m Ux) *m (S *m Us - Ui) ->
  let A := (k *: Ux) *m M + k *: Us in
  let B := (k *: Um) *m M + k *: Ui in
  A \in unitmx -> B *m invmx A = S.
Proof. exact: CalAlgebra.apply_recovers_U. Qed.
Print Assumptions apply_recovers_U.

(* the hypotheses are met by the ideal VNA for every device S *)
Theorem apply_hypotheses_satisfiable_T (F : fieldType) (n : nat) (S : 'M[F]_n) :
  [/\ (1 : F) != 0, (0 : 'M[F]_n) *m S + 1%:M \in unitmx,
      S = (1%:M *m S + 0) *m invmx ((0 : 'M[F]_n) *m S + 1%:M)
    & (1 : F) *: (1%:M : 'M[F]_n) - S *m ((1 : F) *: (0 : 'M[F]_n)) \in unitmx].
Proof. exact: CalAlgebra.apply_hypotheses_satisfiable_T. Qed.
Print Assumptions apply_hypotheses_satisfiable_T.

Theorem apply_hypotheses_satisfiable_U (F : fieldType) (n : nat) (S : 'M[F]_n) :
  [/\ (1 : F) != 0, (1%:M : 'M[F]_n) - S *m 0 \in unitmx,
      S = invmx ((1%:M : 'M[F]_n) - S *m 0) *m (S *m 1%:M - 0)
    & ((1 : F) *: (0 : 'M[F]_n)) *m S + (1 : F) *: (1%:M : 'M[F]_n) \in unitmx].
Proof. exact: CalAlgebra.apply_hypotheses_satisfiable_U. Qed.
Print Assumptions apply_hypotheses_satisfiable_U.

(* a/b entry points: M = B A^-1 does not depend on a common right factor of a and b *)
Theorem ab_reduction_scaling (F : fieldType) (r n : nat) (A D : 'M[F]_n) (B : 'M[F]_(r, n)) :
  A \in unitmx -> D \in unitmx -> (B *m D) *m invmx (A *m D) = B *m invmx A.
Proof. exact: CalAlgebra.ab_scaling. Qed.
Print Assumptions ab_reduction_scaling.
