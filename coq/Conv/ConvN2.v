(* At n = 2 the model of the n-port conversion functions (Conv/ConvN.v, on the LU model) equals
   the translated two-port functions (Gen/Conv2_*.v), for either pivot order.
   The LU model at n = 2 depends on the magnitude comparison only through which of the two rows
   is taken as the first pivot ([lu2_cases]); the theorems below are therefore stated for the two
   constant comparators [fun _ _ => swap]. *)
Require Import List Arith.
Import ListNotations.
Require Import LV.Base.CField LV.Lin.MatL LV.Lin.LuModel LV.Conv.ConvN LV.Conv.ConvRel LV.Conv.ConvTac.
Require Import LV.Gen.Conv2_s LV.Gen.Conv2_z LV.Gen.Conv2_y LV.Gen.Conv2_zi.
Local Open Scope cf_scope.

Ltac fold_one_in K t := lazymatch t with @c1 _ => fail | _ => unify t (@c1 K); change t with (@c1 K) end.
(* [field] prints the constant 1 of its side conditions as an unfolded record projection *)
Ltac fold_one K := repeat match goal with
  | |- context [@cadd K ?x ?t] => fold_one_in K t
  | |- context [@cadd K ?t ?x] => fold_one_in K t
  | |- context [@csub K ?x ?t] => fold_one_in K t
  | |- context [@csub K ?t ?x] => fold_one_in K t
  | |- context [@cmul K ?x ?t] => fold_one_in K t
  | |- context [@cmul K ?t ?x] => fold_one_in K t
  | |- context [@copp K ?t] => fold_one_in K t
  end.

Section Nz.
Variable K : CField.
Add Field Kfz : (cth K).
Lemma cf_mul_nz (x y : K) : x <> 0 -> y <> 0 -> x * y <> 0.
Proof.
  intros Hx Hy E. apply Hy.
  transitivity ((x * y) / x); [field; exact Hx | rewrite E; field; exact Hx].
Qed.
End Nz.

Ltac nz_side :=
  lazymatch goal with
  | |- ?G <> 0 =>
    first [ assumption
          | match goal with H : ?X <> 0 |- _ =>
              let E := fresh in intro E; apply H; transitivity G; [ring | exact E] end
          | match goal with H : ?X <> 0 |- _ =>
              let E := fresh in intro E; apply H; transitivity (- G); [ring | rewrite E; ring] end
          | match goal with HX : ?X <> 0, HY : ?Y <> 0 |- _ =>
              let E := fresh in intro E; apply (cf_mul_nz _ X Y HX HY); transitivity G; [ring | exact E] end
          | match goal with HX : ?X <> 0, HY : ?Y <> 0 |- _ =>
              let E := fresh in intro E; apply (cf_mul_nz _ X Y HX HY); transitivity (- G); [ring | rewrite E; ring] end ]
  end.

Ltac n2_solve K H2 Hz1 Hz2 Hok :=
  cbv beta iota zeta delta [stozn ztosn stoyn ytosn ztoyn ytozn stozin ztozin ytozin mldivide mrdivide minverse
     lu lu_init lu_column row_max dot_sub mget mset mrow upd mbuild mzero swap_rows scale_kk scale_kk' zn kn
     fold_left seq map nth rev app Nat.eqb Nat.sub negb fst snd lu_a lu_ri lu_rs lu_d lu_pivots lu_cands
     repeat length m11 m12 m21 m22];
  conv_prep H2 Hz1 Hz2 Hok;
  repeat (match goal with |- _ :: _ = _ :: _ => f_equal end); try reflexivity;
  field; repeat split; fold_one K; nz_side.

Section N2.
Variable K : CField.
Definition cthK : field_theory (@c0 K) (@c1 K) (@cadd K) (@cmul K) (@csub K) (@copp K) (@cdiv K) (@cinv K) (@eq K) := cth K.
Add Field Kf : cthK.
Variable M : Type.
Variable nrm2 : K -> M.
Variable mulM : M -> M -> M.
Variable zeroM : M.
Variable scale_of_max : M -> M.

Definition mat_of (m : m2 K) : mat K := [[m11 m; m12 m]; [m21 m; m22 m]].
Definition vec_of (p : K * K) : list K := [fst p; snd p].

Lemma stozn2 (swap : bool) (m : m2 K) (z1 z2 : K) :
  char_ok K -> z0_ok z1 -> z0_ok z2 -> stoz_ok K m z1 z2 ->
  (if swap then m21 m <> 0 else 1 - m11 m <> 0) ->
  stozn K M nrm2 mulM (fun _ _ => swap) zeroM scale_of_max 2 (mat_of m) [z1; z2] = mat_of (stoz K m z1 z2).
Proof.
  intros H2 Hz1 Hz2 Hok Hp. destruct m as [a b c d].
  unfold stoz_ok, stoz_factors, stoz, mat_of, vec_of in *. cbn [m11 m21] in Hp.
  destruct swap; pose proof (conj Hp Hok) as Hok'; clear Hp Hok; n2_solve K H2 Hz1 Hz2 Hok'.
Qed.

Lemma ztosn2 (swap : bool) (m : m2 K) (z1 z2 : K) :
  char_ok K -> z0_ok z1 -> z0_ok z2 -> ztos_ok K m z1 z2 ->
  (if swap then m21 m <> 0 else m11 m + z1 <> 0) ->
  ztosn K M nrm2 mulM (fun _ _ => swap) zeroM scale_of_max 2 (mat_of m) [z1; z2] = mat_of (ztos K m z1 z2).
Proof.
  intros H2 Hz1 Hz2 Hok Hp. destruct m as [a b c d].
  unfold ztos_ok, ztos_factors, ztos, mat_of, vec_of in *. cbn [m11 m12 m21 m22] in Hp.
  destruct swap; pose proof (conj Hp Hok) as Hok'; clear Hp Hok; n2_solve K H2 Hz1 Hz2 Hok'.
Qed.

Lemma stoyn2 (swap : bool) (m : m2 K) (z1 z2 : K) :
  char_ok K -> z0_ok z1 -> z0_ok z2 -> stoy_ok K m z1 z2 ->
  (if swap then m21 m <> 0 /\ z1 <> 0 else m11 m * z1 + cj z1 <> 0) ->
  stoyn K M nrm2 mulM (fun _ _ => swap) zeroM scale_of_max 2 (mat_of m) [z1; z2] = mat_of (stoy K m z1 z2).
Proof.
  intros H2 Hz1 Hz2 Hok Hp. destruct m as [a b c d].
  unfold stoy_ok, stoy_factors, stoy, mat_of, vec_of in *. cbn [m11 m12 m21 m22] in Hp.
  destruct swap; pose proof (conj Hp Hok) as Hok'; clear Hp Hok; n2_solve K H2 Hz1 Hz2 Hok'.
Qed.

Lemma ytosn2 (swap : bool) (m : m2 K) (z1 z2 : K) :
  char_ok K -> z0_ok z1 -> z0_ok z2 -> ytos_ok K m z1 z2 ->
  (if swap then z2 <> 0 /\ m21 m <> 0 else z1 * m11 m + 1 <> 0) ->
  ytosn K M nrm2 mulM (fun _ _ => swap) zeroM scale_of_max 2 (mat_of m) [z1; z2] = mat_of (ytos K m z1 z2).
Proof.
  intros H2 Hz1 Hz2 Hok Hp. destruct m as [a b c d].
  unfold ytos_ok, ytos_factors, ytos, mat_of, vec_of in *. cbn [m11 m12 m21 m22] in Hp.
  destruct swap; pose proof (conj Hp Hok) as Hok'; clear Hp Hok; n2_solve K H2 Hz1 Hz2 Hok'.
Qed.

Lemma ztoyn2 (swap : bool) (m : m2 K) (z1 z2 : K) :
  char_ok K -> z0_ok z1 -> z0_ok z2 -> ztoy_ok K m z1 z2 ->
  (if swap then m21 m <> 0 else m11 m <> 0) ->
  ztoyn K M nrm2 mulM (fun _ _ => swap) zeroM scale_of_max 2 (mat_of m) = mat_of (ztoy K m z1 z2).
Proof.
  intros H2 Hz1 Hz2 Hok Hp. destruct m as [a b c d].
  unfold ztoy_ok, ztoy_factors, ztoy, mat_of, vec_of in *. cbn [m11 m12 m21 m22] in Hp.
  destruct swap; pose proof (conj Hp Hok) as Hok'; clear Hp Hok; n2_solve K H2 Hz1 Hz2 Hok'.
Qed.

Lemma ytozn2 (swap : bool) (m : m2 K) (z1 z2 : K) :
  char_ok K -> z0_ok z1 -> z0_ok z2 -> ytoz_ok K m z1 z2 ->
  (if swap then m21 m <> 0 else m11 m <> 0) ->
  ytozn K M nrm2 mulM (fun _ _ => swap) zeroM scale_of_max 2 (mat_of m) = mat_of (ytoz K m z1 z2).
Proof.
  intros H2 Hz1 Hz2 Hok Hp. destruct m as [a b c d].
  unfold ytoz_ok, ytoz_factors, ytoz, mat_of, vec_of in *. cbn [m11 m12 m21 m22] in Hp.
  destruct swap; pose proof (conj Hp Hok) as Hok'; clear Hp Hok; n2_solve K H2 Hz1 Hz2 Hok'.
Qed.

Lemma ztozin2 (swap : bool) (m : m2 K) (z1 z2 : K) :
  char_ok K -> z0_ok z1 -> z0_ok z2 -> ztozi_ok K m z1 z2 ->
  (if swap then m21 m <> 0 else m11 m + z1 <> 0) ->
  ztozin K M nrm2 mulM (fun _ _ => swap) zeroM scale_of_max 2 (mat_of m) [z1; z2] = vec_of (ztozi K m z1 z2).
Proof.
  intros H2 Hz1 Hz2 Hok Hp. destruct m as [a b c d].
  unfold ztozi_ok, ztozi_factors, ztozi, mat_of, vec_of in *. cbn [m11 m12 m21 m22] in Hp.
  destruct swap; pose proof (conj Hp Hok) as Hok'; clear Hp Hok; n2_solve K H2 Hz1 Hz2 Hok'.
Qed.

Lemma stozin2 (m : m2 K) (z1 z2 : K) :
  stozin K 2 (mat_of m) [z1; z2] = vec_of (stozi K m z1 z2).
Proof. destruct m as [a b c d]. reflexivity. Qed.


End N2.
