(* Conv/ConvNZin.v at the Gaussian rationals (the instance checks/convn_check.py runs against the C
   functions): the pivot hypothesis is discharged from the trivial kernel of the factored matrix, so
   the theorems have hypotheses on the INPUT (and on the entry the function divides by) only.
   Non-vacuity: for the 3-port example of ConvNModelQI.v a concrete electrical state with port 0
   driven and ports 1, 2 terminated is exhibited and every hypothesis is discharged. *)
Require Import List Arith Lia Bool QArith Qcanon.
Import ListNotations.
Require Import LV.Base.CField LV.Base.QcI LV.Lin.MatL LV.Lin.LuModel LV.Lin.LuQI LV.Lin.LsSpec LV.Lin.LuQI2 LV.Conv.ConvN.
Require Import LV.Lin.LuGenA LV.Lin.LuProofs LV.Lin.LuNonsing LV.Lin.LuNonsingQI LV.Conv.ConvNModel LV.Conv.ConvNModelQI.
Require Import LV.Conv.ConvNZin.
Local Open Scope nat_scope.

Theorem q_stozin_phys n (z0 : list QIF) (s : mat QIF) t (v i : nat -> QIF) :
  k_ok QIF n z0 -> t < n ->
  csub (@c1 QIF) (mget QIF s t t) <> @c0 QIF ->
  relSn QIF n s z0 v i -> terminated_except QIF n z0 t v i ->
  v t = cmul (nth t (q_stozin n s z0) (@c0 QIF)) (i t).
Proof.
  intros Hk Ht Hd HS HT. exact (stozin_phys QIF QIF_char n z0 Hk s t v i Ht Hd HS HT).
Qed.

Theorem q_ztozin_phys n (z0 : list QIF) (z : mat QIF) t (v i : nat -> QIF) :
  k_ok QIF n z0 -> t < n ->
  kernel_trivial QIF (m_z_plus_z0 QIF n z z0) n ->
  mget QIF (fst (q_minverse (m_z_plus_z0 QIF n z z0) n)) t t <> @c0 QIF ->
  relZn QIF n z v i -> terminated_except QIF n z0 t v i ->
  v t = cmul (nth t (q_ztozin n z z0) (@c0 QIF)) (i t).
Proof.
  intros Hk Ht Hker Hx HZ HT.
  apply (ztozin_phys QIF Qc qi_nrm Qcmult Qc_ltb 0%Qc row_scale_of_max n z0 z t v i Ht Hker); auto.
  apply q_piv; [apply wf_mbuild|exact Hker].
Qed.

Theorem q_ytozin_phys n (z0 : list QIF) (y : mat QIF) t (v i : nat -> QIF) :
  k_ok QIF n z0 -> zsum_ok QIF n z0 -> t < n ->
  kernel_trivial QIF (m_one_plus_zy QIF n y z0) n ->
  csub (@c1 QIF) (mget QIF (fst (q_mrdivide (m_one_minus_zcy QIF n y z0) (m_one_plus_zy QIF n y z0) n n)) t t) <> @c0 QIF ->
  relYn QIF n y v i -> terminated_except QIF n z0 t v i ->
  v t = cmul (nth t (q_ytozin n y z0) (@c0 QIF)) (i t).
Proof.
  intros Hk Hzs Ht Hker Hd HY HT.
  apply (ytozin_phys QIF Qc qi_nrm Qcmult Qc_ltb 0%Qc row_scale_of_max QIF_char n z0 Hk y t v i Ht Hzs); auto.
  apply q_piv; [apply wf_mbuild|exact Hker].
Qed.

(* ---------------- non-vacuity: the 3-port example, port 0 driven, ports 1 and 2 terminated -------- *)
(* the state: e = unit vector at port 0, i = (Z + Z0)^-1 e, v = e - Z0 i *)
Definition ex3_X : mat QIF := fst (q_minverse (m_z_plus_z0 QIF 3 ex3_z ex3_z0) 3).
Definition ex3_i (u : nat) : QIF := mget QIF ex3_X u 0.
Definition ex3_v (u : nat) : QIF :=
  csub (if Nat.eqb u 0 then @c1 QIF else @c0 QIF) (cmul (zn QIF ex3_z0 u) (ex3_i u)).

Lemma ex3_state_terminated : terminated_except QIF 3 ex3_z0 0 ex3_v ex3_i.
Proof.
  intros j Hj Hne. destruct j as [|[|[|j]]]; try lia; apply qi_eqb_eq; vm_compute; reflexivity.
Qed.
Lemma ex3_state_relZ : relZn QIF 3 ex3_z ex3_v ex3_i.
Proof.
  intros r Hr. destruct r as [|[|[|r]]]; try lia; apply qi_eqb_eq; vm_compute; reflexivity.
Qed.
Lemma ex3_state_relS : relSn QIF 3 ex3_s ex3_z0 ex3_v ex3_i.
Proof. apply (proj2 (ex3_stozn ex3_v ex3_i)). exact ex3_state_relZ. Qed.
Lemma ex3_state_relY : relYn QIF 3 ex3_y ex3_v ex3_i.
Proof. apply (proj1 (ex3_ztoyn ex3_v ex3_i)). exact ex3_state_relZ. Qed.
Lemma ex3_state_nontrivial : ex3_i 0 <> @c0 QIF.
Proof. apply qi_neqb. vm_compute. reflexivity. Qed.

Lemma ex3_stozin_div : csub (@c1 QIF) (mget QIF ex3_s 0 0) <> @c0 QIF.
Proof. apply qi_neqb. vm_compute. reflexivity. Qed.
Lemma ex3_ztozin_div : mget QIF (fst (q_minverse (m_z_plus_z0 QIF 3 ex3_z ex3_z0) 3)) 0 0 <> @c0 QIF.
Proof. apply qi_neqb. vm_compute. reflexivity. Qed.
Lemma ex3_ytozin_div :
  csub (@c1 QIF) (mget QIF (fst (q_mrdivide (m_one_minus_zcy QIF 3 ex3_y ex3_z0) (m_one_plus_zy QIF 3 ex3_y ex3_z0) 3 3)) 0 0) <> @c0 QIF.
Proof. apply qi_neqb. vm_compute. reflexivity. Qed.

Example ex3_stozin_phys : ex3_v 0 = cmul (nth 0 (q_stozin 3 ex3_s ex3_z0) (@c0 QIF)) (ex3_i 0).
Proof.
  apply (q_stozin_phys 3 ex3_z0 ex3_s 0 ex3_v ex3_i ex3_k_ok); [lia|exact ex3_stozin_div|exact ex3_state_relS|exact ex3_state_terminated].
Qed.
Example ex3_ztozin_phys : ex3_v 0 = cmul (nth 0 (q_ztozin 3 ex3_z ex3_z0) (@c0 QIF)) (ex3_i 0).
Proof.
  apply (q_ztozin_phys 3 ex3_z0 ex3_z 0 ex3_v ex3_i ex3_k_ok); [lia|exact ex3_z_plus_z0_trivial|exact ex3_ztozin_div|exact ex3_state_relZ|exact ex3_state_terminated].
Qed.
Example ex3_ytozin_phys : ex3_v 0 = cmul (nth 0 (q_ytozin 3 ex3_y ex3_z0) (@c0 QIF)) (ex3_i 0).
Proof.
  apply (q_ytozin_phys 3 ex3_z0 ex3_y 0 ex3_v ex3_i ex3_k_ok ex3_zsum_ok); [lia|exact ex3_one_plus_zy_trivial|exact ex3_ytozin_div|exact ex3_state_relY|exact ex3_state_terminated].
Qed.

(* the three functions agree on the example (same network, three descriptions) *)
Example ex3_zin_agree :
  nth 0 (q_stozin 3 ex3_s ex3_z0) (@c0 QIF) = nth 0 (q_ztozin 3 ex3_z ex3_z0) (@c0 QIF) /\
  nth 0 (q_ztozin 3 ex3_z ex3_z0) (@c0 QIF) = nth 0 (q_ytozin 3 ex3_y ex3_z0) (@c0 QIF).
Proof. split; apply qi_eqb_eq; vm_compute; reflexivity. Qed.
