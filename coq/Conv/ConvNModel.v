(* Property C04, n-port functions, ALL n, on the EXECUTABLE model Conv/ConvN.v (list matrices on the
   LU model Lin/LuModel.v), i.e. on the functions the correspondence of checks/convn_check.py ties
   to the C code:
     - the matrix each function returns satisfies its defining linear system
       (stozn: (I - S) X = S Z0 + Z0^*, Z = K X K^-1; ...)  [*_defining_eq], from Lin/LuGen*.v;
     - hence it satisfies its own port relation of vnaconv(3) for exactly the electrical states
       (v, i) that satisfy the input's relation  [*_same_states].
   Hypothesis on the input: the matrix that is factored (I - S, S Z0 + Z0^*, Z + Z0, I + Z0 Y, Z, Y)
   has a trivial kernel, plus [pivots_nonzero] of it, which Lin/LuNonsing.v derives from the trivial
   kernel under the order premises on the magnitude type (discharged at Q[i]/Qc in
   LuNonsingQI.q_pivots_nonzero_iff); the corollaries *_QI at the end have the input hypothesis only.
   This is the link between the mathcomp specification Conv/ConvNSpec.v and the code-tied model. *)
Require Import List Arith Lia Bool.
Import ListNotations.
Require Import LV.Base.CField LV.Lin.MatL LV.Lin.LuModel LV.Conv.ConvN.
Require Import LV.Lin.LuGenA LV.Lin.LuGenB LV.Lin.LuGenC LV.Lin.LuGenD LV.Lin.LuProofs LV.Lin.LuNonsing.
Local Open Scope cf_scope.

(* ================= generic algebra on finite sums ================= *)
Section Alg.
Variable K : CField.
Add Field KfCM : (cth K).

Definition delta (r t : nat) : K := if Nat.eqb r t then 1 else 0.

Lemma sumf_delta_l n r (x : nat -> K) : r < n -> sumf n (fun u => delta r u * x u) = x r.
Proof.
  intros Hr. rewrite <- (sumf_single K n r x Hr). apply sumf_ext. intros u Hu. unfold delta.
  destruct (Nat.eqb_spec r u); destruct (Nat.eqb_spec u r); try lia; ring.
Qed.

Lemma sumf_assoc n (P : nat -> K) (Q : nat -> nat -> K) (x : nat -> K) :
  sumf n (fun t => P t * sumf n (fun u => Q t u * x u)) =
  sumf n (fun u => sumf n (fun t => P t * Q t u) * x u).
Proof.
  rewrite (sumf_ext K n _ (fun t => sumf n (fun u => P t * Q t u * x u))).
  2:{ intros t Ht. rewrite sumf_scale_l. apply sumf_ext. intros; ring. }
  rewrite sumf_exchange. apply sumf_ext. intros u Hu. rewrite sumf_scale_r. reflexivity.
Qed.

Lemma sumf_sub' n (f g : nat -> K) : sumf n (fun k => f k - g k) = sumf n f - sumf n g.
Proof. induction n; simpl; [ring|]. rewrite IHn. ring. Qed.

Definition ker_trivial_f (A : nat -> nat -> K) (n : nat) : Prop :=
  forall w : nat -> K, (forall r, r < n -> sumf n (fun t => A r t * w t) = 0) -> forall t, t < n -> w t = 0.

(* A X = B, A injective:  A v = B i  <->  v = X i *)
Lemma lin_states_left (A B X : nat -> nat -> K) n : ker_trivial_f A n ->
  (forall r k, r < n -> k < n -> sumf n (fun t => A r t * X t k) = B r k) ->
  forall v i : nat -> K,
  (forall r, r < n -> sumf n (fun t => A r t * v t) = sumf n (fun t => B r t * i t)) <->
  (forall r, r < n -> v r = sumf n (fun t => X r t * i t)).
Proof.
  intros Hk HX v i.
  assert (Hw : forall r, r < n ->
     sumf n (fun t => A r t * sumf n (fun u => X t u * i u)) = sumf n (fun u => B r u * i u)).
  { intros r Hr. rewrite sumf_assoc. apply sumf_ext. intros u Hu. rewrite HX by auto. reflexivity. }
  split; intros H r Hr.
  - assert (E : (fun t => v t - sumf n (fun u => X t u * i u)) r = 0).
    { apply (Hk (fun t => v t - sumf n (fun u => X t u * i u))); auto. intros r' Hr'.
      rewrite (sumf_ext K n _ (fun t => A r' t * v t - A r' t * sumf n (fun u => X t u * i u))) by (intros; ring).
      rewrite sumf_sub', (H r' Hr'), (Hw r' Hr'). ring. }
    cbv beta in E. transitivity ((v r - sumf n (fun u => X r u * i u)) + sumf n (fun u => X r u * i u)); [ring|].
    rewrite E. ring.
  - rewrite <- (Hw r Hr). apply sumf_ext. intros t Ht. rewrite (H t Ht). reflexivity.
Qed.

(* X A = B, A injective with a right inverse:  q = X p  <->  p = A w and q = B w for some w *)
Lemma lin_states_right (A B X R : nat -> nat -> K) n :
  (forall r k, r < n -> k < n -> sumf n (fun t => X r t * A t k) = B r k) ->
  (forall r k, r < n -> k < n -> sumf n (fun t => A r t * R t k) = delta r k) ->
  forall p q : nat -> K,
  (forall r, r < n -> q r = sumf n (fun t => X r t * p t)) <->
  (exists w : nat -> K, (forall r, r < n -> p r = sumf n (fun t => A r t * w t)) /\
                        (forall r, r < n -> q r = sumf n (fun t => B r t * w t))).
Proof.
  intros HX HR p q. split.
  - intros H. exists (fun t => sumf n (fun u => R t u * p u)).
    assert (Hp : forall r, r < n -> p r = sumf n (fun t => A r t * sumf n (fun u => R t u * p u))).
    { intros r Hr. rewrite sumf_assoc.
      rewrite (sumf_ext K n _ (fun u => delta r u * p u)) by (intros u Hu; rewrite HR by auto; reflexivity).
      symmetry. apply sumf_delta_l; auto. }
    split; [exact Hp|]. intros r Hr. rewrite (H r Hr).
    rewrite (sumf_ext K n (fun t => X r t * p t)
               (fun t => X r t * sumf n (fun k => A t k * sumf n (fun u => R k u * p u)))).
    2:{ intros t Ht. rewrite <- (Hp t Ht). reflexivity. }
    rewrite sumf_assoc. apply sumf_ext. intros k Hk. rewrite HX by auto. reflexivity.
  - intros (w & Hp & Hq) r Hr. rewrite (Hq r Hr).
    rewrite (sumf_ext K n (fun t => X r t * p t) (fun t => X r t * sumf n (fun k => A t k * w k))).
    2:{ intros t Ht. rewrite (Hp t Ht). reflexivity. }
    rewrite sumf_assoc. apply sumf_ext. intros k Hk. rewrite HX by auto. reflexivity.
Qed.

(* a right inverse of an injective matrix is a left inverse *)
Lemma right_inv_left_inv (A Y : nat -> nat -> K) n : ker_trivial_f A n ->
  (forall r k, r < n -> k < n -> sumf n (fun t => A r t * Y t k) = delta r k) ->
  forall r k, r < n -> k < n -> sumf n (fun t => Y r t * A t k) = delta r k.
Proof.
  intros Hk HR r k Hr Hkn.
  assert (E : (fun t => sumf n (fun u => Y t u * A u k) - delta t k) r = 0).
  { apply (Hk (fun t => sumf n (fun u => Y t u * A u k) - delta t k)); auto. intros r' Hr'.
    rewrite (sumf_ext K n _ (fun t => A r' t * sumf n (fun u => Y t u * A u k) - A r' t * delta t k))
      by (intros; ring).
    rewrite sumf_sub', sumf_assoc.
    rewrite (sumf_ext K n (fun u => sumf n (fun t => A r' t * Y t u) * A u k) (fun u => delta r' u * A u k))
      by (intros u Hu; rewrite HR by auto; reflexivity).
    rewrite sumf_delta_l by auto.
    rewrite (sumf_ext K n (fun t => A r' t * delta t k) (fun t => delta k t * A r' t)).
    2:{ intros t Ht. unfold delta. destruct (Nat.eqb_spec t k); destruct (Nat.eqb_spec k t); try lia; ring. }
    rewrite sumf_delta_l by auto. ring. }
  cbv beta in E.
  transitivity ((sumf n (fun u => Y r u * A u k) - delta r k) + delta r k); [ring|]. rewrite E. ring.
Qed.
End Alg.

(* ================= the n-port model ================= *)
Section NM.
Variable K : CField.
Variable M : Type.
Variable nrm2 : K -> M.
Variable mulM : M -> M -> M.
Variable ltM : M -> M -> bool.
Variable zeroM : M.
Variable scale_of_max : M -> M.
Add Field KfCM2 : (cth K).

Notation mat := (mat K).
Notation mg := (mget K).
Notation pivots_nonzero := (pivots_nonzero K M nrm2 mulM ltM zeroM scale_of_max).
Notation mld := (mldivide K M nrm2 mulM ltM zeroM scale_of_max).
Notation mrd := (mrdivide K M nrm2 mulM ltM zeroM scale_of_max).
Notation minv := (minverse K M nrm2 mulM ltM zeroM scale_of_max).
Notation stozn := (stozn K M nrm2 mulM ltM zeroM scale_of_max).
Notation stoyn := (stoyn K M nrm2 mulM ltM zeroM scale_of_max).
Notation ztosn := (ztosn K M nrm2 mulM ltM zeroM scale_of_max).
Notation ytosn := (ytosn K M nrm2 mulM ltM zeroM scale_of_max).
Notation ztoyn := (ztoyn K M nrm2 mulM ltM zeroM scale_of_max).
Notation ytozn := (ytozn K M nrm2 mulM ltM zeroM scale_of_max).
Notation zn := (zn K).
Notation kn := (kn K).
Notation delta := (delta K).

(* the matrices the C functions build (as in ConvN.v) *)
Definition m_one_minus_s (n : nat) (s : mat) : mat :=
  mbuild K n n (fun i j => if Nat.eqb i j then copp (mg s i j) + 1 else copp (mg s i j)).
Definition m_sz_plus_zc (n : nat) (s : mat) (z0 : list K) : mat :=
  mbuild K n n (fun i j => if Nat.eqb i j then mg s i j * zn z0 j + cj (zn z0 i) else mg s i j * zn z0 j).
Definition m_z_minus_zc (n : nat) (z : mat) (z0 : list K) : mat :=
  mbuild K n n (fun i j => if Nat.eqb i j then mg z i j - cj (zn z0 i) else mg z i j).
Definition m_z_plus_z0 (n : nat) (z : mat) (z0 : list K) : mat :=
  mbuild K n n (fun i j => if Nat.eqb i j then mg z i j + zn z0 i else mg z i j).
Definition m_one_minus_zcy (n : nat) (y : mat) (z0 : list K) : mat :=
  mbuild K n n (fun i j => if Nat.eqb i j then copp (cj (zn z0 i)) * mg y i j + 1 else copp (cj (zn z0 i)) * mg y i j).
Definition m_one_plus_zy (n : nat) (y : mat) (z0 : list K) : mat :=
  mbuild K n n (fun i j => if Nat.eqb i j then zn z0 i * mg y i j + 1 else zn z0 i * mg y i j).

(* the functions of ConvN.v are these matrices fed to the solvers *)
Lemma stozn_unfold n s z0 :
  stozn n s z0 = scale_kk K n z0 (fst (mld (m_one_minus_s n s) (m_sz_plus_zc n s z0) n n)).
Proof. reflexivity. Qed.
Lemma stoyn_unfold n s z0 :
  stoyn n s z0 = scale_kk K n z0 (fst (mld (m_sz_plus_zc n s z0) (m_one_minus_s n s) n n)).
Proof. reflexivity. Qed.
Lemma ztosn_unfold n z z0 :
  ztosn n z z0 = scale_kk' K n z0 (fst (mrd (m_z_minus_zc n z z0) (m_z_plus_z0 n z z0) n n)).
Proof. reflexivity. Qed.
Lemma ytosn_unfold n y z0 :
  ytosn n y z0 = scale_kk' K n z0 (fst (mrd (m_one_minus_zcy n y z0) (m_one_plus_zy n y z0) n n)).
Proof. reflexivity. Qed.

(* ---------- vnaconv(3): waves and port relations for n ports ---------- *)
Definition wan (z0 : list K) (v i : nat -> K) (t : nat) : K := (v t + zn z0 t * i t) / (two * kn z0 t).
Definition wbn (z0 : list K) (v i : nat -> K) (t : nat) : K := (v t - cj (zn z0 t) * i t) / (two * kn z0 t).
Definition relSn (n : nat) (s : mat) (z0 : list K) (v i : nat -> K) : Prop :=
  forall r, r < n -> wbn z0 v i r = sumf n (fun t => mg s r t * wan z0 v i t).
Definition relZn (n : nat) (z : mat) (v i : nat -> K) : Prop :=
  forall r, r < n -> v r = sumf n (fun t => mg z r t * i t).
Definition relYn (n : nat) (y : mat) (v i : nat -> K) : Prop :=
  forall r, r < n -> i r = sumf n (fun t => mg y r t * v t).

Definition k_ok (n : nat) (z0 : list K) : Prop := forall t, t < n -> kn z0 t <> 0.

Lemma kt_fun (a : mat) n : kernel_trivial K a n -> ker_trivial_f K (mg a) n.
Proof. intros H w Hw. exact (H w Hw). Qed.

(* ---------- defining linear systems (from the LU correctness theorems) ---------- *)
Theorem stozn_defining_eq n s z0 : pivots_nonzero (m_one_minus_s n s) n ->
  exists x : mat,
    (forall r k, r < n -> k < n ->
       sumf n (fun t => mg (m_one_minus_s n s) r t * mg x t k) = mg (m_sz_plus_zc n s z0) r k) /\
    (forall r k, r < n -> k < n ->
       mg (stozn n s z0) r k = if Nat.eqb r k then mg x r k else mg x r k * (kn z0 r / kn z0 k)).
Proof.
  intros Hp. exists (fst (mld (m_one_minus_s n s) (m_sz_plus_zc n s z0) n n)). split.
  - intros r k Hr Hk. rewrite <- (mget_mmul K n n n _ _ r k Hr Hk).
    exact (lu_solves_mldivide K M nrm2 mulM ltM zeroM scale_of_max n n _ _ (wf_mbuild K n n _) (wf_mbuild K n n _) Hp r k Hr Hk).
  - intros r k Hr Hk. rewrite stozn_unfold. unfold scale_kk. rewrite mget_mbuild by auto. reflexivity.
Qed.

Theorem stoyn_defining_eq n s z0 : pivots_nonzero (m_sz_plus_zc n s z0) n ->
  exists x : mat,
    (forall r k, r < n -> k < n ->
       sumf n (fun t => mg (m_sz_plus_zc n s z0) r t * mg x t k) = mg (m_one_minus_s n s) r k) /\
    (forall r k, r < n -> k < n ->
       mg (stoyn n s z0) r k = if Nat.eqb r k then mg x r k else mg x r k * (kn z0 r / kn z0 k)).
Proof.
  intros Hp. exists (fst (mld (m_sz_plus_zc n s z0) (m_one_minus_s n s) n n)). split.
  - intros r k Hr Hk. rewrite <- (mget_mmul K n n n _ _ r k Hr Hk).
    exact (lu_solves_mldivide K M nrm2 mulM ltM zeroM scale_of_max n n _ _ (wf_mbuild K n n _) (wf_mbuild K n n _) Hp r k Hr Hk).
  - intros r k Hr Hk. rewrite stoyn_unfold. unfold scale_kk. rewrite mget_mbuild by auto. reflexivity.
Qed.

Theorem ztosn_defining_eq n z z0 : pivots_nonzero (m_z_plus_z0 n z z0) n ->
  exists x : mat,
    (forall r k, r < n -> k < n ->
       sumf n (fun t => mg x r t * mg (m_z_plus_z0 n z z0) t k) = mg (m_z_minus_zc n z z0) r k) /\
    (forall r k, r < n -> k < n ->
       mg (ztosn n z z0) r k = if Nat.eqb r k then mg x r k else mg x r k * (kn z0 k / kn z0 r)).
Proof.
  intros Hp. exists (fst (mrd (m_z_minus_zc n z z0) (m_z_plus_z0 n z z0) n n)). split.
  - intros r k Hr Hk. rewrite <- (mget_mmul K n n n _ _ r k Hr Hk).
    exact (lu_solves_mrdivide K M nrm2 mulM ltM zeroM scale_of_max n n _ _ (wf_mbuild K n n _) (wf_mbuild K n n _) Hp r k Hr Hk).
  - intros r k Hr Hk. rewrite ztosn_unfold. unfold scale_kk'. rewrite mget_mbuild by auto. reflexivity.
Qed.

Theorem ytosn_defining_eq n y z0 : pivots_nonzero (m_one_plus_zy n y z0) n ->
  exists x : mat,
    (forall r k, r < n -> k < n ->
       sumf n (fun t => mg x r t * mg (m_one_plus_zy n y z0) t k) = mg (m_one_minus_zcy n y z0) r k) /\
    (forall r k, r < n -> k < n ->
       mg (ytosn n y z0) r k = if Nat.eqb r k then mg x r k else mg x r k * (kn z0 k / kn z0 r)).
Proof.
  intros Hp. exists (fst (mrd (m_one_minus_zcy n y z0) (m_one_plus_zy n y z0) n n)). split.
  - intros r k Hr Hk. rewrite <- (mget_mmul K n n n _ _ r k Hr Hk).
    exact (lu_solves_mrdivide K M nrm2 mulM ltM zeroM scale_of_max n n _ _ (wf_mbuild K n n _) (wf_mbuild K n n _) Hp r k Hr Hk).
  - intros r k Hr Hk. rewrite ytosn_unfold. unfold scale_kk'. rewrite mget_mbuild by auto. reflexivity.
Qed.

(* Z -> Y and Y -> Z: the returned matrix is a two-sided inverse *)
Theorem minv_defining_eq n (z : mat) : wf n n z -> kernel_trivial K z n -> pivots_nonzero z n ->
  (forall r k, r < n -> k < n -> sumf n (fun t => mg z r t * mg (fst (minv z n)) t k) = delta r k) /\
  (forall r k, r < n -> k < n -> sumf n (fun t => mg (fst (minv z n)) r t * mg z t k) = delta r k).
Proof.
  intros Hw Hk Hp.
  assert (HR : forall r k, r < n -> k < n -> sumf n (fun t => mg z r t * mg (fst (minv z n)) t k) = delta r k).
  { intros r k Hr Hkn. rewrite <- (mget_mmul K n n n _ _ r k Hr Hkn).
    exact (lu_solves_minverse K M nrm2 mulM ltM zeroM scale_of_max n z Hw Hp r k Hr Hkn). }
  split; [exact HR|].
  exact (right_inv_left_inv K (mg z) (mg (fst (minv z n))) n (kt_fun z n Hk) HR).
Qed.

(* ---------- same electrical states ---------- *)
Section States.
Hypothesis H2 : char_ok K.
Variable n : nat.
Variable z0 : list K.
Hypothesis Hk : k_ok n z0.

Let two_nz : (two : K) <> 0 := H2.
Ltac fsolve := field; repeat split; first [exact two_nz | apply Hk; auto].

(* b = S a  written on the scaled quantities v' = v/k, i' = i/k:  (I - S) v' = (S Z0 + Z0^* ) i' *)
Lemma relSn_lin (s : mat) (v i : nat -> K) :
  relSn n s z0 v i <->
  (forall r, r < n ->
     sumf n (fun t => mg (m_one_minus_s n s) r t * (v t / kn z0 t)) =
     sumf n (fun t => mg (m_sz_plus_zc n s z0) r t * (i t / kn z0 t))).
Proof.
  unfold relSn.
  assert (E : forall r, r < n ->
    (wbn z0 v i r = sumf n (fun t => mg s r t * wan z0 v i t) <->
     sumf n (fun t => mg (m_one_minus_s n s) r t * (v t / kn z0 t)) =
     sumf n (fun t => mg (m_sz_plus_zc n s z0) r t * (i t / kn z0 t)))).
  { intros r Hr.
    set (Sv := sumf n (fun t => mg s r t * (v t / kn z0 t))).
    set (Szi := sumf n (fun t => mg s r t * (zn z0 t * (i t / kn z0 t)))).
    assert (E1 : sumf n (fun t => mg s r t * wan z0 v i t) = (Sv + Szi) / two).
    { unfold Sv, Szi. rewrite <- sumf_add.
      transitivity (sumf n (fun t => (mg s r t * (v t / kn z0 t) + mg s r t * (zn z0 t * (i t / kn z0 t))) * (1 / two))).
      - apply sumf_ext. intros t Ht. unfold wan. fsolve.
      - rewrite <- sumf_scale_r. fsolve. }
    assert (E2 : sumf n (fun t => mg (m_one_minus_s n s) r t * (v t / kn z0 t)) = v r / kn z0 r - Sv).
    { unfold Sv.
      rewrite (sumf_ext K n _ (fun t => delta r t * (v t / kn z0 t) - mg s r t * (v t / kn z0 t))).
      2:{ intros t Ht. unfold m_one_minus_s. rewrite mget_mbuild by auto. unfold LV.Conv.ConvNModel.delta.
          destruct (Nat.eqb r t); ring. }
      rewrite sumf_sub', sumf_delta_l by auto. reflexivity. }
    assert (E3 : sumf n (fun t => mg (m_sz_plus_zc n s z0) r t * (i t / kn z0 t)) = Szi + cj (zn z0 r) * (i r / kn z0 r)).
    { unfold Szi.
      rewrite (sumf_ext K n _ (fun t => mg s r t * (zn z0 t * (i t / kn z0 t)) + delta r t * (cj (zn z0 r) * (i t / kn z0 t)))).
      2:{ intros t Ht. unfold m_sz_plus_zc. rewrite mget_mbuild by auto. unfold LV.Conv.ConvNModel.delta.
          destruct (Nat.eqb r t); ring. }
      rewrite sumf_add. rewrite (sumf_delta_l K n r (fun t => cj (zn z0 r) * (i t / kn z0 t))) by auto. reflexivity. }
    rewrite E1, E2, E3.
    assert (E4 : wbn z0 v i r = (v r / kn z0 r - cj (zn z0 r) * (i r / kn z0 r)) / two).
    { unfold wbn. fsolve. }
    rewrite E4. split; intros H.
    - transitivity (two * ((v r / kn z0 r - cj (zn z0 r) * (i r / kn z0 r)) / two) - Sv + cj (zn z0 r) * (i r / kn z0 r)).
      + fsolve.
      + rewrite H. fsolve.
    - transitivity (((v r / kn z0 r - Sv) + Sv - cj (zn z0 r) * (i r / kn z0 r)) / two).
      + fsolve.
      + rewrite H. fsolve. }
  split; intros H r Hr; apply (E r Hr); apply H; auto.
Qed.

(* K X K^-1 applied to a state *)
Lemma scale_kk_apply (x : mat) (w : nat -> K) r : r < n ->
  sumf n (fun t => mg (scale_kk K n z0 x) r t * w t) = kn z0 r * sumf n (fun t => mg x r t * (w t / kn z0 t)).
Proof.
  intros Hr. rewrite sumf_scale_l. apply sumf_ext. intros t Ht. unfold scale_kk.
  rewrite mget_mbuild by auto. destruct (Nat.eqb_spec r t) as [<-|Hne]; fsolve.
Qed.

Lemma scaled_eq (a b : K) r : r < n -> (a = kn z0 r * b <-> a / kn z0 r = b).
Proof.
  intros Hr. pose proof (Hk r Hr) as Hnz. split; intros H.
  - rewrite H. field. exact Hnz.
  - rewrite <- H. field. exact Hnz.
Qed.

Theorem stozn_same_states (s : mat) :
  kernel_trivial K (m_one_minus_s n s) n -> pivots_nonzero (m_one_minus_s n s) n ->
  forall v i : nat -> K, relSn n s z0 v i <-> relZn n (stozn n s z0) v i.
Proof.
  intros Hker Hp v i.
  rewrite relSn_lin.
  set (X := fst (mld (m_one_minus_s n s) (m_sz_plus_zc n s z0) n n)).
  assert (HX : forall r k, r < n -> k < n ->
            sumf n (fun t => mg (m_one_minus_s n s) r t * mg X t k) = mg (m_sz_plus_zc n s z0) r k).
  { intros r k Hr Hk'. rewrite <- (mget_mmul K n n n _ _ r k Hr Hk').
    exact (lu_solves_mldivide K M nrm2 mulM ltM zeroM scale_of_max n n _ _ (wf_mbuild K n n _) (wf_mbuild K n n _) Hp r k Hr Hk'). }
  rewrite (lin_states_left K (mg (m_one_minus_s n s)) (mg (m_sz_plus_zc n s z0)) (mg X) n
             (kt_fun _ n Hker) HX (fun t => v t / kn z0 t) (fun t => i t / kn z0 t)).
  unfold relZn. rewrite stozn_unfold. fold X.
  split; intros H r Hr.
  - rewrite scale_kk_apply by auto. apply scaled_eq; auto.
  - apply scaled_eq; auto. rewrite <- scale_kk_apply by auto. apply H; auto.
Qed.

Theorem stoyn_same_states (s : mat) :
  kernel_trivial K (m_sz_plus_zc n s z0) n -> pivots_nonzero (m_sz_plus_zc n s z0) n ->
  forall v i : nat -> K, relSn n s z0 v i <-> relYn n (stoyn n s z0) v i.
Proof.
  intros Hker Hp v i.
  rewrite relSn_lin.
  set (X := fst (mld (m_sz_plus_zc n s z0) (m_one_minus_s n s) n n)).
  assert (HX : forall r k, r < n -> k < n ->
            sumf n (fun t => mg (m_sz_plus_zc n s z0) r t * mg X t k) = mg (m_one_minus_s n s) r k).
  { intros r k Hr Hk'. rewrite <- (mget_mmul K n n n _ _ r k Hr Hk').
    exact (lu_solves_mldivide K M nrm2 mulM ltM zeroM scale_of_max n n _ _ (wf_mbuild K n n _) (wf_mbuild K n n _) Hp r k Hr Hk'). }
  pose proof (lin_states_left K (mg (m_sz_plus_zc n s z0)) (mg (m_one_minus_s n s)) (mg X) n
             (kt_fun _ n Hker) HX (fun t => i t / kn z0 t) (fun t => v t / kn z0 t)) as L.
  unfold relYn. rewrite stoyn_unfold. fold X.
  split; intros H.
  - assert (H' : forall r, r < n -> i r / kn z0 r = sumf n (fun t => mg X r t * (v t / kn z0 t))).
    { apply L. intros r Hr. symmetry. apply H; auto. }
    intros r Hr. rewrite scale_kk_apply by auto. apply scaled_eq; auto.
  - assert (H' : forall r, r < n -> i r / kn z0 r = sumf n (fun t => mg X r t * (v t / kn z0 t))).
    { intros r Hr. apply scaled_eq; auto. rewrite <- scale_kk_apply by auto. apply H; auto. }
    intros r Hr. symmetry. apply (proj2 L H'); auto.
Qed.

(* K^-1 X K applied to the waves: b = S a  <->  v - Z0^* i = X (v + Z0 i) *)
Lemma relSn_scaled (x : mat) (v i : nat -> K) :
  relSn n (scale_kk' K n z0 x) z0 v i <->
  (forall r, r < n -> v r - cj (zn z0 r) * i r = sumf n (fun t => mg x r t * (v t + zn z0 t * i t))).
Proof.
  unfold relSn.
  assert (E : forall r, r < n ->
     sumf n (fun t => mg (scale_kk' K n z0 x) r t * wan z0 v i t) =
     sumf n (fun t => mg x r t * (v t + zn z0 t * i t)) / (two * kn z0 r)).
  { intros r Hr.
    transitivity (sumf n (fun t => mg x r t * (v t + zn z0 t * i t)) * (1 / (two * kn z0 r))).
    - rewrite sumf_scale_r. apply sumf_ext. intros t Ht. unfold scale_kk', wan. rewrite mget_mbuild by auto.
      destruct (Nat.eqb_spec r t) as [<-|Hne]; fsolve.
    - fsolve. }
  split; intros H r Hr.
  - specialize (H r Hr). rewrite (E r Hr) in H. unfold wbn in H.
    transitivity ((v r - cj (zn z0 r) * i r) / (two * kn z0 r) * (two * kn z0 r)).
    + fsolve.
    + rewrite H. fsolve.
  - rewrite (E r Hr). unfold wbn. rewrite (H r Hr). reflexivity.
Qed.

(* reference impedances with z + conj z <> 0 (Re z0 > 0: z + conj z = 2 k^2) *)
Definition zsum_ok : Prop := forall t, t < n -> zn z0 t + cj (zn z0 t) <> 0.

Lemma mul_cancel_l (c a b : K) : c <> 0 -> c * a = c * b -> a = b.
Proof. intros Hc E. transitivity (c * a / c); [field; exact Hc|]. rewrite E. field. exact Hc. Qed.

Theorem ztosn_same_states (z : mat) : zsum_ok ->
  pivots_nonzero (m_z_plus_z0 n z z0) n ->
  forall v i : nat -> K, relZn n z v i <-> relSn n (ztosn n z z0) z0 v i.
Proof.
  intros Hzs Hp v i.
  rewrite ztosn_unfold. rewrite relSn_scaled.
  set (A := m_z_plus_z0 n z z0). set (B := m_z_minus_zc n z z0).
  set (X := fst (mrd B A n n)).
  assert (HX : forall r k, r < n -> k < n -> sumf n (fun t => mg X r t * mg A t k) = mg B r k).
  { intros r k Hr Hk'. rewrite <- (mget_mmul K n n n _ _ r k Hr Hk').
    exact (lu_solves_mrdivide K M nrm2 mulM ltM zeroM scale_of_max n n _ _ (wf_mbuild K n n _) (wf_mbuild K n n _) Hp r k Hr Hk'). }
  assert (HR : forall r k, r < n -> k < n -> sumf n (fun t => mg A r t * mg (fst (minv A n)) t k) = delta r k).
  { intros r k Hr Hk'. rewrite <- (mget_mmul K n n n _ _ r k Hr Hk').
    exact (lu_solves_minverse K M nrm2 mulM ltM zeroM scale_of_max n A (wf_mbuild K n n _) Hp r k Hr Hk'). }
  rewrite (lin_states_right K (mg A) (mg B) (mg X) (mg (fst (minv A n))) n HX HR
             (fun t => v t + zn z0 t * i t) (fun r => v r - cj (zn z0 r) * i r)).
  assert (EA : forall (w : nat -> K) r, r < n ->
            sumf n (fun t => mg A r t * w t) = sumf n (fun t => mg z r t * w t) + zn z0 r * w r).
  { intros w r Hr.
    rewrite (sumf_ext K n _ (fun t => mg z r t * w t + delta r t * (zn z0 r * w t))).
    2:{ intros t Ht. unfold A, m_z_plus_z0. rewrite mget_mbuild by auto. unfold LV.Conv.ConvNModel.delta.
        destruct (Nat.eqb r t); ring. }
    rewrite sumf_add. rewrite (sumf_delta_l K n r (fun t => zn z0 r * w t)) by auto. reflexivity. }
  assert (EB : forall (w : nat -> K) r, r < n ->
            sumf n (fun t => mg B r t * w t) = sumf n (fun t => mg z r t * w t) - cj (zn z0 r) * w r).
  { intros w r Hr.
    rewrite (sumf_ext K n _ (fun t => mg z r t * w t - delta r t * (cj (zn z0 r) * w t))).
    2:{ intros t Ht. unfold B, m_z_minus_zc. rewrite mget_mbuild by auto. unfold LV.Conv.ConvNModel.delta.
        destruct (Nat.eqb r t); ring. }
    rewrite sumf_sub'. rewrite (sumf_delta_l K n r (fun t => cj (zn z0 r) * w t)) by auto. reflexivity. }
  unfold relZn. split.
  - intros H. exists i. split; intros r Hr.
    + rewrite EA by auto. rewrite (H r Hr). reflexivity.
    + rewrite EB by auto. rewrite (H r Hr). reflexivity.
  - intros (w & Hp' & Hq').
    assert (Ew : forall r, r < n -> i r = w r).
    { intros r Hr. apply (mul_cancel_l (zn z0 r + cj (zn z0 r))); [apply Hzs; auto|].
      pose proof (Hp' r Hr) as E1. pose proof (Hq' r Hr) as E2. cbv beta in E1, E2.
      rewrite EA in E1 by auto. rewrite EB in E2 by auto.
      transitivity ((v r + zn z0 r * i r) - (v r - cj (zn z0 r) * i r)); [ring|].
      rewrite E1, E2. ring. }
    intros r Hr. pose proof (Hp' r Hr) as E1. cbv beta in E1. rewrite EA in E1 by auto.
    rewrite (sumf_ext K n (fun t => mg z r t * i t) (fun t => mg z r t * w t)) by (intros t Ht; rewrite (Ew t Ht); reflexivity).
    transitivity ((v r + zn z0 r * i r) - zn z0 r * i r); [ring|]. rewrite E1. rewrite (Ew r Hr). ring.
Qed.

Theorem ytosn_same_states (y : mat) : zsum_ok ->
  pivots_nonzero (m_one_plus_zy n y z0) n ->
  forall v i : nat -> K, relYn n y v i <-> relSn n (ytosn n y z0) z0 v i.
Proof.
  intros Hzs Hp v i.
  rewrite ytosn_unfold. rewrite relSn_scaled.
  set (A := m_one_plus_zy n y z0). set (B := m_one_minus_zcy n y z0).
  set (X := fst (mrd B A n n)).
  assert (HX : forall r k, r < n -> k < n -> sumf n (fun t => mg X r t * mg A t k) = mg B r k).
  { intros r k Hr Hk'. rewrite <- (mget_mmul K n n n _ _ r k Hr Hk').
    exact (lu_solves_mrdivide K M nrm2 mulM ltM zeroM scale_of_max n n _ _ (wf_mbuild K n n _) (wf_mbuild K n n _) Hp r k Hr Hk'). }
  assert (HR : forall r k, r < n -> k < n -> sumf n (fun t => mg A r t * mg (fst (minv A n)) t k) = delta r k).
  { intros r k Hr Hk'. rewrite <- (mget_mmul K n n n _ _ r k Hr Hk').
    exact (lu_solves_minverse K M nrm2 mulM ltM zeroM scale_of_max n A (wf_mbuild K n n _) Hp r k Hr Hk'). }
  rewrite (lin_states_right K (mg A) (mg B) (mg X) (mg (fst (minv A n))) n HX HR
             (fun t => v t + zn z0 t * i t) (fun r => v r - cj (zn z0 r) * i r)).
  assert (EA : forall (w : nat -> K) r, r < n ->
            sumf n (fun t => mg A r t * w t) = w r + zn z0 r * sumf n (fun t => mg y r t * w t)).
  { intros w r Hr.
    rewrite (sumf_ext K n _ (fun t => delta r t * w t + zn z0 r * (mg y r t * w t))).
    2:{ intros t Ht. unfold A, m_one_plus_zy. rewrite mget_mbuild by auto. unfold LV.Conv.ConvNModel.delta.
        destruct (Nat.eqb r t); ring. }
    rewrite sumf_add, sumf_delta_l by auto. rewrite <- sumf_scale_l. reflexivity. }
  assert (EB : forall (w : nat -> K) r, r < n ->
            sumf n (fun t => mg B r t * w t) = w r - cj (zn z0 r) * sumf n (fun t => mg y r t * w t)).
  { intros w r Hr.
    rewrite (sumf_ext K n _ (fun t => delta r t * w t - cj (zn z0 r) * (mg y r t * w t))).
    2:{ intros t Ht. unfold B, m_one_minus_zcy. rewrite mget_mbuild by auto. unfold LV.Conv.ConvNModel.delta.
        destruct (Nat.eqb r t); ring. }
    rewrite sumf_sub', sumf_delta_l by auto. rewrite <- sumf_scale_l. reflexivity. }
  unfold relYn. split.
  - intros H. exists v. split; intros r Hr.
    + rewrite EA by auto. rewrite <- (H r Hr). reflexivity.
    + rewrite EB by auto. rewrite <- (H r Hr). reflexivity.
  - intros (w & Hp' & Hq').
    assert (Ei : forall r, r < n -> i r = sumf n (fun t => mg y r t * w t)).
    { intros r Hr. apply (mul_cancel_l (zn z0 r + cj (zn z0 r))); [apply Hzs; auto|].
      pose proof (Hp' r Hr) as E1. pose proof (Hq' r Hr) as E2. cbv beta in E1, E2.
      rewrite EA in E1 by auto. rewrite EB in E2 by auto.
      transitivity ((v r + zn z0 r * i r) - (v r - cj (zn z0 r) * i r)); [ring|].
      rewrite E1, E2. ring. }
    assert (Ev : forall r, r < n -> v r = w r).
    { intros r Hr. pose proof (Hp' r Hr) as E1. cbv beta in E1. rewrite EA in E1 by auto.
      transitivity ((v r + zn z0 r * i r) - zn z0 r * i r); [ring|]. rewrite E1, (Ei r Hr). ring. }
    intros r Hr. rewrite (Ei r Hr). apply sumf_ext. intros t Ht. rewrite (Ev t Ht). reflexivity.
Qed.
End States.

(* Z <-> Y: the returned matrix relates the same states (no reference impedances involved) *)
Theorem ztoyn_same_states n (z : mat) : wf n n z -> kernel_trivial K z n -> pivots_nonzero z n ->
  forall v i : nat -> K, relZn n z v i <-> relYn n (ztoyn n z) v i.
Proof.
  intros Hw Hk Hp v i. destruct (minv_defining_eq n z Hw Hk Hp) as (HR & HL).
  unfold relZn, relYn, ConvN.ztoyn. split; intros H r Hr.
  - rewrite (sumf_ext K n _ (fun t => mg (fst (minv z n)) r t * sumf n (fun u => mg z t u * i u)))
      by (intros t Ht; rewrite (H t Ht); reflexivity).
    rewrite sumf_assoc.
    rewrite (sumf_ext K n _ (fun u => delta r u * i u)) by (intros u Hu; rewrite HL by auto; reflexivity).
    symmetry. apply sumf_delta_l; auto.
  - rewrite (sumf_ext K n _ (fun t => mg z r t * sumf n (fun u => mg (fst (minv z n)) t u * v u)))
      by (intros t Ht; rewrite (H t Ht); reflexivity).
    rewrite sumf_assoc.
    rewrite (sumf_ext K n _ (fun u => delta r u * v u)) by (intros u Hu; rewrite HR by auto; reflexivity).
    symmetry. apply sumf_delta_l; auto.
Qed.

Theorem ytozn_same_states n (y : mat) : wf n n y -> kernel_trivial K y n -> pivots_nonzero y n ->
  forall v i : nat -> K, relYn n y v i <-> relZn n (ytozn n y) v i.
Proof.
  intros Hw Hk Hp v i.
  pose proof (ztoyn_same_states n y Hw Hk Hp i v) as H. unfold relZn, relYn in *.
  unfold ConvN.ytozn. unfold ConvN.ztoyn in H. exact H.
Qed.
End NM.
