(* Property C04, the n-port input-impedance functions vnaconv_stozin / vnaconv_ztozin /
   vnaconv_ytozin, ALL n, on the EXECUTABLE model Conv/ConvN.v (the functions the correspondence of
   checks/convn_check.py ties to the C code).

   Physical meaning proved here (vnaconv(3): "input impedance looking into port t with every other
   port terminated in its reference impedance"): a port j is terminated in z_j when v_j = - z_j i_j,
   which is exactly a_j = 0 for the incident wave a_j = (v_j + z_j i_j) / (2 k_j).  For EVERY
   electrical state (v, i) of the network (one satisfying the input matrix's port relation) in which
   all ports other than t are so terminated,   v_t = zi_t * i_t   with zi the vector the function
   returns.  Hypotheses on the input only (after the instantiation at Q[i] below): the entry the
   function divides by is non-zero (1 - s_tt resp. x_tt) and, for the two functions that factor a
   matrix, that matrix has a trivial kernel. *)
Require Import List Arith Lia Bool.
Import ListNotations.
Require Import LV.Base.CField LV.Lin.MatL LV.Lin.LuModel LV.Conv.ConvN.
Require Import LV.Lin.LuGenA LV.Lin.LuGenB LV.Lin.LuGenC LV.Lin.LuGenD LV.Lin.LuProofs LV.Lin.LuNonsing.
Require Import LV.Conv.ConvNModel.
Local Open Scope cf_scope.

Section Zin.
Variable K : CField.
Variable M : Type.
Variable nrm2 : K -> M.
Variable mulM : M -> M -> M.
Variable ltM : M -> M -> bool.
Variable zeroM : M.
Variable scale_of_max : M -> M.
Add Field KfZin : (cth K).

Notation mat := (mat K).
Notation mg := (mget K).
Notation pivots_nonzero := (pivots_nonzero K M nrm2 mulM ltM zeroM scale_of_max).
Notation mrd := (mrdivide K M nrm2 mulM ltM zeroM scale_of_max).
Notation minv := (minverse K M nrm2 mulM ltM zeroM scale_of_max).
Notation stozin := (stozin K).
Notation ztozin := (ztozin K M nrm2 mulM ltM zeroM scale_of_max).
Notation ytozin := (ytozin K M nrm2 mulM ltM zeroM scale_of_max).
Notation ytosn := (ytosn K M nrm2 mulM ltM zeroM scale_of_max).
Notation zn := (zn K).
Notation kn := (kn K).

(* every port except t is terminated in its reference impedance *)
Definition terminated_except (n : nat) (z0 : list K) (t : nat) (v i : nat -> K) : Prop :=
  forall j, j < n -> j <> t -> v j = copp (zn z0 j * i j).

Lemma sumf_only n t (f : nat -> K) : t < n -> (forall j, j < n -> j <> t -> f j = 0) -> sumf n f = f t.
Proof.
  intros Ht H. rewrite <- (sumf_single K n t f Ht). apply sumf_ext. intros k Hk.
  destruct (Nat.eqb_spec k t) as [->|Hne]; [reflexivity|]. apply H; auto.
Qed.

Lemma nth_map_seq (f : nat -> K) n t : t < n -> nth t (map f (seq 0 n)) 0 = f t.
Proof.
  intros Ht. rewrite (nth_indep _ 0 (f 0%nat)) by (rewrite map_length, seq_length; exact Ht).
  rewrite map_nth. rewrite seq_nth by exact Ht. reflexivity.
Qed.

Section WithZ0.
Hypothesis H2 : char_ok K.
Variable n : nat.
Variable z0 : list K.
Hypothesis Hk : k_ok K n z0.
Let two_nz : (two : K) <> 0 := H2.

(* the termination condition is a_j = 0 *)
Lemma terminated_wan t v i : terminated_except n z0 t v i ->
  forall j, j < n -> j <> t -> wan K z0 v i j = 0.
Proof.
  intros HT j Hj Hne. unfold wan. rewrite (HT j Hj Hne). field. split; [apply Hk; auto|exact two_nz].
Qed.

(* ---------------- vnaconv_stozin ---------------- *)
Theorem stozin_phys (s : mat) t (v i : nat -> K) : t < n ->
  1 - mg s t t <> 0 ->
  relSn K n s z0 v i -> terminated_except n z0 t v i ->
  v t = nth t (stozin n s z0) 0 * i t.
Proof.
  intros Ht Hd HS HT.
  unfold ConvN.stozin. rewrite nth_map_seq by exact Ht. cbv zeta.
  pose proof (HS t Ht) as E.
  rewrite (sumf_only n t (fun u => mg s t u * wan K z0 v i u) Ht) in E.
  2:{ intros j Hj Hne. rewrite (terminated_wan t v i HT j Hj Hne). ring. }
  unfold wbn, wan in E.
  assert (Hkt : kn z0 t <> 0) by (apply Hk; exact Ht).
  (* (v - cj z i) = s (v + z i)  after multiplying by 2k *)
  assert (E' : v t - cj (zn z0 t) * i t = mg s t t * (v t + zn z0 t * i t)).
  { transitivity ((v t - cj (zn z0 t) * i t) / (two * kn z0 t) * (two * kn z0 t)).
    - field. split; assumption.
    - rewrite E. field. split; assumption. }
  transitivity ((v t - cj (zn z0 t) * i t - mg s t t * v t + cj (zn z0 t) * i t) / (1 - mg s t t)).
  - field. exact Hd.
  - rewrite E'. field. exact Hd.
Qed.

(* ---------------- vnaconv_ztozin ---------------- *)
Lemma ztozin_unfold (z : mat) t : t < n ->
  nth t (ztozin n z z0) 0 = 1 / mg (fst (minv (m_z_plus_z0 K n z z0) n)) t t - zn z0 t.
Proof. intros Ht. unfold ConvN.ztozin. rewrite nth_map_seq by exact Ht. reflexivity. Qed.

Theorem ztozin_phys (z : mat) t (v i : nat -> K) : t < n ->
  kernel_trivial K (m_z_plus_z0 K n z z0) n -> pivots_nonzero (m_z_plus_z0 K n z z0) n ->
  mg (fst (minv (m_z_plus_z0 K n z z0) n)) t t <> 0 ->
  relZn K n z v i -> terminated_except n z0 t v i ->
  v t = nth t (ztozin n z z0) 0 * i t.
Proof.
  intros Ht Hker Hp Hx HZ HT.
  rewrite ztozin_unfold by exact Ht.
  set (A := m_z_plus_z0 K n z z0) in *. set (X := fst (minv A n)) in *.
  destruct (minv_defining_eq K M nrm2 mulM ltM zeroM scale_of_max n A (wf_mbuild K n n _) Hker Hp) as (_ & HL).
  fold X in HL.
  (* e = v + Z0 i = A i *)
  assert (EA : forall r, r < n -> sumf n (fun u => mg A r u * i u) = v r + zn z0 r * i r).
  { intros r Hr.
    rewrite (sumf_ext K n _ (fun u => mg z r u * i u + delta K r u * (zn z0 r * i u))).
    2:{ intros u Hu. unfold A, m_z_plus_z0. rewrite mget_mbuild by auto. unfold delta.
        destruct (Nat.eqb r u); ring. }
    rewrite sumf_add. rewrite (sumf_delta_l K n r (fun u => zn z0 r * i u)) by auto.
    rewrite <- (HZ r Hr). reflexivity. }
  (* i_t = sum_j X_tj e_j = X_tt e_t *)
  assert (Ei : i t = mg X t t * (v t + zn z0 t * i t)).
  { transitivity (sumf n (fun r => mg X t r * sumf n (fun u => mg A r u * i u))).
    - rewrite sumf_assoc.
      rewrite (sumf_ext K n _ (fun u => delta K t u * i u)) by (intros u Hu; rewrite HL by auto; reflexivity).
      symmetry. apply sumf_delta_l; exact Ht.
    - rewrite (sumf_only n t _ Ht).
      + rewrite EA by exact Ht. reflexivity.
      + intros j Hj Hne. rewrite EA by exact Hj. rewrite (HT j Hj Hne). ring. }
  transitivity ((mg X t t * (v t + zn z0 t * i t)) / mg X t t - zn z0 t * i t).
  - field. exact Hx.
  - rewrite <- Ei. field. exact Hx.
Qed.

(* ---------------- vnaconv_ytozin ---------------- *)
(* the function computes the unscaled S' = (I - Z0^* Y) (I + Z0 Y)^-1 and applies the stozin formula to
   its diagonal; the diagonal of S = K^-1 S' K (what ytosn returns) is the same *)
Lemma ytozin_eq_stozin_ytosn (y : mat) t : t < n ->
  nth t (ytozin n y z0) 0 = nth t (stozin n (ytosn n y z0) z0) 0.
Proof.
  intros Ht. unfold ConvN.ytozin, ConvN.stozin. rewrite !nth_map_seq by exact Ht. cbv zeta.
  unfold ConvN.ytosn, scale_kk'. rewrite mget_mbuild by auto. rewrite Nat.eqb_refl. reflexivity.
Qed.

Lemma ytosn_diag (y : mat) t : t < n ->
  mg (ytosn n y z0) t t = mg (fst (mrd (m_one_minus_zcy K n y z0) (m_one_plus_zy K n y z0) n n)) t t.
Proof.
  intros Ht. rewrite (ytosn_unfold K M nrm2 mulM ltM zeroM scale_of_max). unfold scale_kk'.
  rewrite mget_mbuild by auto. rewrite Nat.eqb_refl. reflexivity.
Qed.

Theorem ytozin_phys (y : mat) t (v i : nat -> K) : t < n ->
  zsum_ok K n z0 ->
  pivots_nonzero (m_one_plus_zy K n y z0) n ->
  1 - mg (fst (mrd (m_one_minus_zcy K n y z0) (m_one_plus_zy K n y z0) n n)) t t <> 0 ->
  relYn K n y v i -> terminated_except n z0 t v i ->
  v t = nth t (ytozin n y z0) 0 * i t.
Proof.
  intros Ht Hzs Hp Hd HY HT.
  rewrite ytozin_eq_stozin_ytosn by exact Ht.
  apply stozin_phys; auto.
  - rewrite ytosn_diag by exact Ht. exact Hd.
  - apply (ytosn_same_states K M nrm2 mulM ltM zeroM scale_of_max H2 n z0 Hk y Hzs Hp v i). exact HY.
Qed.

End WithZ0.
End Zin.
