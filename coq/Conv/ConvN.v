(* Executable model of the n-port conversion functions (src/vnaconv_stozn.c, ztosn.c, stoyn.c,
   ytosn.c, ztoyn.c, ytozn.c, stozin.c, ztozin.c, ytozin.c) as coded, on top of LuModel.
   The C functions copy their input into local arrays (a, b, u) before writing the output, so
   passing the same array as input and output cannot change the result; the model is therefore a
   pure function of the input matrix (the aliased call is exercised by the correspondence). *)
Require Import List Arith.
Import ListNotations.
Require Import LV.Base.CField LV.Lin.MatL LV.Lin.LuModel.
Local Open Scope cf_scope.

Section N.
Variable K : CField.
Variable M : Type.
Variable nrm2 : K -> M.
Variable mulM : M -> M -> M.
Variable ltM : M -> M -> bool.
Variable zeroM : M.
Variable scale_of_max : M -> M.

Notation mat := (mat K).
Notation mld := (mldivide K M nrm2 mulM ltM zeroM scale_of_max).
Notation mrd := (mrdivide K M nrm2 mulM ltM zeroM scale_of_max).
Notation minv := (minverse K M nrm2 mulM ltM zeroM scale_of_max).

Definition zn (z0 : list K) (i : nat) : K := nth i z0 0.
Definition kn (z0 : list K) (i : nat) : K := ksq (zn z0 i).

(* z(i,j) *= ki[i]/ki[j] off the diagonal *)
Definition scale_kk (n : nat) (z0 : list K) (x : mat) : mat :=
  mbuild K n n (fun i j => if Nat.eqb i j then mget K x i j
                           else mget K x i j * (kn z0 i / kn z0 j)).
(* s(i,j) *= ki[j]/ki[i] off the diagonal *)
Definition scale_kk' (n : nat) (z0 : list K) (x : mat) : mat :=
  mbuild K n n (fun i j => if Nat.eqb i j then mget K x i j
                           else mget K x i j * (kn z0 j / kn z0 i)).

Definition stozn (n : nat) (s : mat) (z0 : list K) : mat :=
  let a := mbuild K n n (fun i j => if Nat.eqb i j then copp (mget K s i j) + 1 else copp (mget K s i j)) in
  let b := mbuild K n n (fun i j => if Nat.eqb i j then mget K s i j * zn z0 j + cj (zn z0 i)
                                    else mget K s i j * zn z0 j) in
  scale_kk n z0 (fst (mld a b n n)).

Definition ztosn (n : nat) (z : mat) (z0 : list K) : mat :=
  let b := mbuild K n n (fun i j => if Nat.eqb i j then mget K z i j - cj (zn z0 i) else mget K z i j) in
  let a := mbuild K n n (fun i j => if Nat.eqb i j then mget K z i j + zn z0 i else mget K z i j) in
  scale_kk' n z0 (fst (mrd b a n n)).

Definition stoyn (n : nat) (s : mat) (z0 : list K) : mat :=
  let a := mbuild K n n (fun i j => if Nat.eqb i j then mget K s i j * zn z0 j + cj (zn z0 i)
                                    else mget K s i j * zn z0 j) in
  let b := mbuild K n n (fun i j => if Nat.eqb i j then copp (mget K s i j) + 1 else copp (mget K s i j)) in
  scale_kk n z0 (fst (mld a b n n)).

Definition ytosn (n : nat) (y : mat) (z0 : list K) : mat :=
  let b := mbuild K n n (fun i j => if Nat.eqb i j then copp (cj (zn z0 i)) * mget K y i j + 1
                                    else copp (cj (zn z0 i)) * mget K y i j) in
  let a := mbuild K n n (fun i j => if Nat.eqb i j then zn z0 i * mget K y i j + 1
                                    else zn z0 i * mget K y i j) in
  scale_kk' n z0 (fst (mrd b a n n)).

Definition ztoyn (n : nat) (z : mat) : mat := fst (minv z n).
Definition ytozn (n : nat) (y : mat) : mat := fst (minv y n).

Definition stozin (n : nat) (s : mat) (z0 : list K) : list K :=
  map (fun i => let sii := mget K s i i in (sii * zn z0 i + cj (zn z0 i)) / (1 - sii)) (seq 0 n).

Definition ztozin (n : nat) (z : mat) (z0 : list K) : list K :=
  let a := mbuild K n n (fun i j => if Nat.eqb i j then mget K z i j + zn z0 i else mget K z i j) in
  let x := fst (minv a n) in
  map (fun i => 1 / mget K x i i - zn z0 i) (seq 0 n).

Definition ytozin (n : nat) (y : mat) (z0 : list K) : list K :=
  let b := mbuild K n n (fun i j => if Nat.eqb i j then copp (cj (zn z0 i)) * mget K y i j + 1
                                    else copp (cj (zn z0 i)) * mget K y i j) in
  let a := mbuild K n n (fun i j => if Nat.eqb i j then zn z0 i * mget K y i j + 1
                                    else zn z0 i * mget K y i j) in
  let s := fst (mrd b a n n) in
  map (fun i => let sii := mget K s i i in (sii * zn z0 i + cj (zn z0 i)) / (1 - sii)) (seq 0 n).
End N.
