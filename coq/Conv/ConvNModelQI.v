(* Conv/ConvNModel.v at the Gaussian rationals (the instance convn_check.py runs): the pivot
   hypothesis is discharged from the trivial kernel of the factored matrix by
   LuNonsingQI.q_pivots_nonzero_iff, so every theorem here has hypotheses on the INPUT only.
   Non-vacuity: a concrete 3-port S matrix with unequal complex reference impedances. *)
Require Import List Arith Lia Bool QArith Qcanon.
Import ListNotations.
Require Import LV.Base.CField LV.Base.QcI LV.Lin.MatL LV.Lin.LuModel LV.Lin.LuQI LV.Lin.LsSpec LV.Lin.LuQI2 LV.Conv.ConvN.
Require Import LV.Lin.LuGenA LV.Lin.LuProofs LV.Lin.LuNonsing LV.Lin.LuNonsingQI LV.Conv.ConvNModel.
Local Open Scope nat_scope.

Lemma q_piv (a : mat QIF) n : wf n n a -> kernel_trivial QIF a n ->
  pivots_nonzero QIF Qc qi_nrm Qcmult Qc_ltb 0%Qc row_scale_of_max a n.
Proof. intros Hw Hk. exact (proj2 (q_pivots_nonzero_iff a n Hw) Hk). Qed.

Theorem q_stozn_same_states n (z0 : list QIF) (s : mat QIF) : k_ok QIF n z0 ->
  kernel_trivial QIF (m_one_minus_s QIF n s) n ->
  forall v i : nat -> QIF, relSn QIF n s z0 v i <-> relZn QIF n (q_stozn n s z0) v i.
Proof.
  intros Hk Hker. apply (stozn_same_states QIF Qc qi_nrm Qcmult Qc_ltb 0%Qc row_scale_of_max QIF_char n z0 Hk s Hker).
  apply q_piv; [apply wf_mbuild|exact Hker].
Qed.

Theorem q_stoyn_same_states n (z0 : list QIF) (s : mat QIF) : k_ok QIF n z0 ->
  kernel_trivial QIF (m_sz_plus_zc QIF n s z0) n ->
  forall v i : nat -> QIF, relSn QIF n s z0 v i <-> relYn QIF n (q_stoyn n s z0) v i.
Proof.
  intros Hk Hker. apply (stoyn_same_states QIF Qc qi_nrm Qcmult Qc_ltb 0%Qc row_scale_of_max QIF_char n z0 Hk s Hker).
  apply q_piv; [apply wf_mbuild|exact Hker].
Qed.

Theorem q_ztosn_same_states n (z0 : list QIF) (z : mat QIF) : k_ok QIF n z0 -> zsum_ok QIF n z0 ->
  kernel_trivial QIF (m_z_plus_z0 QIF n z z0) n ->
  forall v i : nat -> QIF, relZn QIF n z v i <-> relSn QIF n (q_ztosn n z z0) z0 v i.
Proof.
  intros Hk Hzs Hker. apply (ztosn_same_states QIF Qc qi_nrm Qcmult Qc_ltb 0%Qc row_scale_of_max QIF_char n z0 Hk z Hzs).
  apply q_piv; [apply wf_mbuild|exact Hker].
Qed.

Theorem q_ytosn_same_states n (z0 : list QIF) (y : mat QIF) : k_ok QIF n z0 -> zsum_ok QIF n z0 ->
  kernel_trivial QIF (m_one_plus_zy QIF n y z0) n ->
  forall v i : nat -> QIF, relYn QIF n y v i <-> relSn QIF n (q_ytosn n y z0) z0 v i.
Proof.
  intros Hk Hzs Hker. apply (ytosn_same_states QIF Qc qi_nrm Qcmult Qc_ltb 0%Qc row_scale_of_max QIF_char n z0 Hk y Hzs).
  apply q_piv; [apply wf_mbuild|exact Hker].
Qed.

Theorem q_ztoyn_same_states n (z : mat QIF) : wf n n z -> kernel_trivial QIF z n ->
  forall v i : nat -> QIF, relZn QIF n z v i <-> relYn QIF n (q_ztoyn n z) v i.
Proof.
  intros Hw Hker. apply (ztoyn_same_states QIF Qc qi_nrm Qcmult Qc_ltb 0%Qc row_scale_of_max n z Hw Hker).
  apply q_piv; assumption.
Qed.

Theorem q_ytozn_same_states n (y : mat QIF) : wf n n y -> kernel_trivial QIF y n ->
  forall v i : nat -> QIF, relYn QIF n y v i <-> relZn QIF n (q_ytozn n y) v i.
Proof.
  intros Hw Hker. apply (ytozn_same_states QIF Qc qi_nrm Qcmult Qc_ltb 0%Qc row_scale_of_max n y Hw Hker).
  apply q_piv; assumption.
Qed.

(* ---------------- non-vacuity: 3 ports, z0 = (4+3i, 9-2i, 1) ---------------- *)
Definition ex3_z0 : list QIF := [mkqi 4 1 3 1; mkqi 9 1 (-2) 1; mkqi 1 1 0 1].
Definition ex3_s : mat QIF :=
  [[mkqi 1 3 1 5; mkqi 2 7 (-1) 3; mkqi 1 9 0 1];
   [mkqi (-3) 5 1 2; mkqi 1 4 2 3; mkqi 0 1 1 4];
   [mkqi 1 6 0 1; mkqi (-1) 5 1 7; mkqi 2 5 (-1) 2]].

Lemma ex3_k_ok : k_ok QIF 3 ex3_z0.
Proof. intros t Ht. apply qi_neqb. destruct t as [|[|[|t]]]; try lia; vm_compute; reflexivity. Qed.
Lemma ex3_zsum_ok : zsum_ok QIF 3 ex3_z0.
Proof. intros t Ht. apply qi_neqb. destruct t as [|[|[|t]]]; try lia; vm_compute; reflexivity. Qed.

(* I - S has a left inverse (computed, then checked entry by entry), hence a trivial kernel *)
Lemma kernel_trivial_by_inverse (a : mat QIF) :
  (forall i k, i < 3 -> k < 3 ->
     sumf 3 (fun t => cmul (mget QIF (fst (q_mrdivide (mident QIF 3) a 3 3)) i t) (mget QIF a t k))
     = (if Nat.eqb i k then @c1 QIF else @c0 QIF)) ->
  kernel_trivial QIF a 3.
Proof. intros H. exact (left_inverse_kernel_trivial QIF a _ 3 H). Qed.

Ltac inv_check := apply kernel_trivial_by_inverse; intros i k Hi Hk;
  destruct i as [|[|[|i]]]; try lia; destruct k as [|[|[|k]]]; try lia; apply qi_eqb_eq; vm_compute; reflexivity.

Example ex3_one_minus_s_trivial : kernel_trivial QIF (m_one_minus_s QIF 3 ex3_s) 3.
Proof. inv_check. Qed.
Example ex3_sz_plus_zc_trivial : kernel_trivial QIF (m_sz_plus_zc QIF 3 ex3_s ex3_z0) 3.
Proof. inv_check. Qed.

Example ex3_stozn : forall v i : nat -> QIF,
  relSn QIF 3 ex3_s ex3_z0 v i <-> relZn QIF 3 (q_stozn 3 ex3_s ex3_z0) v i.
Proof. exact (q_stozn_same_states 3 ex3_z0 ex3_s ex3_k_ok ex3_one_minus_s_trivial). Qed.
Example ex3_stoyn : forall v i : nat -> QIF,
  relSn QIF 3 ex3_s ex3_z0 v i <-> relYn QIF 3 (q_stoyn 3 ex3_s ex3_z0) v i.
Proof. exact (q_stoyn_same_states 3 ex3_z0 ex3_s ex3_k_ok ex3_sz_plus_zc_trivial). Qed.

(* and back: Z = stozn S, then ztosn Z relates the same states as Z *)
Definition ex3_z : mat QIF := q_stozn 3 ex3_s ex3_z0.
Example ex3_z_plus_z0_trivial : kernel_trivial QIF (m_z_plus_z0 QIF 3 ex3_z ex3_z0) 3.
Proof. inv_check. Qed.
Example ex3_ztosn : forall v i : nat -> QIF,
  relZn QIF 3 ex3_z v i <-> relSn QIF 3 (q_ztosn 3 ex3_z ex3_z0) ex3_z0 v i.
Proof. exact (q_ztosn_same_states 3 ex3_z0 ex3_z ex3_k_ok ex3_zsum_ok ex3_z_plus_z0_trivial). Qed.

Lemma ex3_z_wf : wf 3 3 ex3_z.
Proof. unfold ex3_z, q_stozn, stozn, scale_kk. apply wf_mbuild. Qed.
Example ex3_z_trivial : kernel_trivial QIF ex3_z 3.
Proof. inv_check. Qed.
Example ex3_ztoyn : forall v i : nat -> QIF,
  relZn QIF 3 ex3_z v i <-> relYn QIF 3 (q_ztoyn 3 ex3_z) v i.
Proof. exact (q_ztoyn_same_states 3 ex3_z ex3_z_wf ex3_z_trivial). Qed.

Definition ex3_y : mat QIF := q_ztoyn 3 ex3_z.
Example ex3_one_plus_zy_trivial : kernel_trivial QIF (m_one_plus_zy QIF 3 ex3_y ex3_z0) 3.
Proof. inv_check. Qed.
Example ex3_ytosn : forall v i : nat -> QIF,
  relYn QIF 3 ex3_y v i <-> relSn QIF 3 (q_ytosn 3 ex3_y ex3_z0) ex3_z0 v i.
Proof. exact (q_ytosn_same_states 3 ex3_z0 ex3_y ex3_k_ok ex3_zsum_ok ex3_one_plus_zy_trivial). Qed.
