(* Concrete instance of the conversion theorems' hypotheses over the Gaussian rationals. *)
Require Import List ZArith QArith Qcanon.
Require Import LV.Base.CField LV.Base.QcI LV.Conv.ConvRel LV.Conv.ConvTac LV.Gen.Conv2All.

Definition ex_z1 : qi := mkqi 4 1 3 1.        (* 4 + 3i : sqrt(Re) = 2 *)
Definition ex_z2 : qi := mkqi 9 1 (-2) 1.     (* 9 - 2i : sqrt(Re) = 3 *)
Definition ex_m : m2 qi := M2 (mkqi 1 3 1 5) (mkqi 2 7 (-1) 3) (mkqi (-3) 5 1 2) (mkqi 1 4 2 3).

Ltac nzsolve := lazymatch goal with
  | |- _ <> _ => apply qi_neqb; vm_compute; reflexivity
  | |- _ => hnf; lazymatch goal with
    | |- True => exact I
    | |- _ /\ _ => split; nzsolve
    end
  end.

Lemma ex_hyps :
  char_ok QIF /\ @z0_ok QIF ex_z1 /\ @z0_ok QIF ex_z2 /\
  forall X Y, conv2_ok QIF X Y ex_m ex_z1 ex_z2 /\ conv2zi_ok QIF X ex_m ex_z1 ex_z2.
Proof.
  split; [exact QIF_char|]. split; [apply qi_z0_ok; vm_compute; reflexivity|].
  split; [apply qi_z0_ok; vm_compute; reflexivity|].
  intros X Y; split.
  - destruct X, Y; nzsolve.
  - destruct X; nzsolve.
Qed.

(* The hypotheses about the IMAGE f ex_m of a conversion that the round-trip and chain theorems
   carry (conv2_ok Y X (f m ..) resp. conv2_ok Y Z (f m ..)): for every one of the 72 conversions
   X -> Y the converted example matrix is off the singular set of every conversion Y -> Z. *)
Lemma ex_hyps_images :
  forall X Y f, conv2 QIF X Y = Some f ->
  forall Z, conv2_ok QIF Y Z (f ex_m ex_z1 ex_z2) ex_z1 ex_z2.
Proof.
  intros X Y f E Z.
  destruct X, Y; cbn in E; try discriminate; injection E as <-; destruct Z; nzsolve.
Qed.

Lemma ex_hyps_full :
  char_ok QIF /\ @z0_ok QIF ex_z1 /\ @z0_ok QIF ex_z2 /\
  (forall X Y, conv2_ok QIF X Y ex_m ex_z1 ex_z2 /\ conv2zi_ok QIF X ex_m ex_z1 ex_z2) /\
  (forall X Y f, conv2 QIF X Y = Some f ->
     forall Z, conv2_ok QIF Y Z (f ex_m ex_z1 ex_z2) ex_z1 ex_z2).
Proof.
  destruct ex_hyps as (H1 & H2 & H3 & H4).
  split; [exact H1|]. split; [exact H2|]. split; [exact H3|]. split; [exact H4|exact ex_hyps_images].
Qed.
