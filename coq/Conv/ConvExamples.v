(* Concrete instance of the conversion theorems' hypotheses over the Gaussian rationals. *)
Require Import List ZArith QArith Qcanon.
Require Import LV.Base.CField LV.Base.QcI LV.Conv.ConvRel LV.Conv.ConvTac LV.Gen.Conv2All.

Definition ex_z1 : qi := mkqi 4 1 3 1.        (* 4 + 3i : sqrt(Re) = 2 *)
Definition ex_z2 : qi := mkqi 9 1 (-2) 1.     (* 9 - 2i : sqrt(Re) = 3 *)
Definition ex_m : m2 qi := M2 (mkqi 1 3 1 5) (mkqi 2 7 (-1) 3) (mkqi (-3) 5 1 2) (mkqi 1 4 2 3).

Ltac nzsolve := lazymatch goal with
  | |- _ <> _ => apply qi_neqb; vm_compute; reflexivity
  | |- _ => hnf; lazymatch goal with
    | |- True => exact I
    | |- _ /\ _ => split; nzsolve
    end
  end.

Lemma ex_hyps :
  char_ok QIF /\ @z0_ok QIF ex_z1 /\ @z0_ok QIF ex_z2 /\
  forall X Y, conv2_ok QIF X Y ex_m ex_z1 ex_z2 /\ conv2zi_ok QIF X ex_m ex_z1 ex_z2.
Proof.
  split; [exact QIF_char|]. split; [apply qi_z0_ok; vm_compute; reflexivity|].
  split; [apply qi_z0_ok; vm_compute; reflexivity|].
  intros X Y; split.
  - destruct X, Y; nzsolve.
  - destruct X; nzsolve.
Qed.
