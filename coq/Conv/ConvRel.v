(* The defining port relations of vnaconv(3) for two-port parameter matrices, over an abstract
   complex-like field, and for each parameter type a parametrisation of the solution space of
   its relation by two free quantities.  Hand-written from the manual page (not from the code):
   this file is the *specification* side of property C04. *)
Require Import LV.Base.CField.
Local Open Scope cf_scope.

Inductive ptype := PS | PT | PU | PZ | PY | PH | PG | PA | PB.

Record m2 (K : Type) := M2 { m11 : K; m12 : K; m21 : K; m22 : K }.
Arguments M2 {K}. Arguments m11 {K}. Arguments m12 {K}. Arguments m21 {K}. Arguments m22 {K}.

(* an electrical state of the two ports *)
Record pstate (K : Type) := St { v1 : K; v2 : K; i1 : K; i2 : K }.
Arguments St {K}. Arguments v1 {K}. Arguments v2 {K}. Arguments i1 {K}. Arguments i2 {K}.

Section Rel.
Variable K : CField.
Add Field Kf : (cth K).
Variables z1 z2 : K.

(* vnaconv(3):  a_i = 1/2 K_i (v_i + Z_i i_i),  b_i = 1/2 K_i (v_i - Z_i^* i_i),
   K_i = 1/sqrt|Re Z_i|;  ksq z = sqrt|Re z| = 1/K. *)
Definition wa1 (s : pstate K) : K := (v1 s + z1 * i1 s) / (two * ksq z1).
Definition wa2 (s : pstate K) : K := (v2 s + z2 * i2 s) / (two * ksq z2).
Definition wb1 (s : pstate K) : K := (v1 s - cj z1 * i1 s) / (two * ksq z1).
Definition wb2 (s : pstate K) : K := (v2 s - cj z2 * i2 s) / (two * ksq z2).

Definition rel (t : ptype) (m : m2 K) (s : pstate K) : Prop :=
  match t with
  | PS => wb1 s = m11 m * wa1 s + m12 m * wa2 s /\ wb2 s = m21 m * wa1 s + m22 m * wa2 s
  | PT => wb1 s = m11 m * wa2 s + m12 m * wb2 s /\ wa1 s = m21 m * wa2 s + m22 m * wb2 s
  | PU => wa2 s = m11 m * wb1 s + m12 m * wa1 s /\ wb2 s = m21 m * wb1 s + m22 m * wa1 s
  | PZ => v1 s = m11 m * i1 s + m12 m * i2 s /\ v2 s = m21 m * i1 s + m22 m * i2 s
  | PY => i1 s = m11 m * v1 s + m12 m * v2 s /\ i2 s = m21 m * v1 s + m22 m * v2 s
  | PH => v1 s = m11 m * i1 s + m12 m * v2 s /\ i2 s = m21 m * i1 s + m22 m * v2 s
  | PG => i1 s = m11 m * v1 s + m12 m * i2 s /\ v2 s = m21 m * v1 s + m22 m * i2 s
  | PA => v1 s = m11 m * v2 s + m12 m * (- i2 s) /\ i1 s = m21 m * v2 s + m22 m * (- i2 s)
  | PB => v2 s = m11 m * v1 s + m12 m * i1 s /\ - i2 s = m21 m * v1 s + m22 m * i1 s
  end.

(* state from the wave quantities: v = (Z^* a + Z b) / k, i = (a - b) / k  (vnaconv(3),
   with K re(Z) = 1/k * k^2 = k) *)
Definition of_waves (a1 a2 b1 b2 : K) : pstate K :=
  St ((cj z1 * a1 + z1 * b1) / ksq z1) ((cj z2 * a2 + z2 * b2) / ksq z2)
     ((a1 - b1) / ksq z1) ((a2 - b2) / ksq z2).

(* the two free quantities of each relation ... *)
Definition free (t : ptype) (s : pstate K) : K * K :=
  match t with
  | PS => (wa1 s, wa2 s)
  | PT => (wa2 s, wb2 s)
  | PU => (wb1 s, wa1 s)
  | PZ => (i1 s, i2 s)
  | PY => (v1 s, v2 s)
  | PH => (i1 s, v2 s)
  | PG => (v1 s, i2 s)
  | PA => (v2 s, i2 s)
  | PB => (v1 s, i1 s)
  end.

(* ... and the unique state of the relation with given free quantities *)
Definition param (t : ptype) (m : m2 K) (p q : K) : pstate K :=
  match t with
  | PS => of_waves p q (m11 m * p + m12 m * q) (m21 m * p + m22 m * q)
  | PT => of_waves (m21 m * p + m22 m * q) p (m11 m * p + m12 m * q) q
  | PU => of_waves q (m11 m * p + m12 m * q) p (m21 m * p + m22 m * q)
  | PZ => St (m11 m * p + m12 m * q) (m21 m * p + m22 m * q) p q
  | PY => St p q (m11 m * p + m12 m * q) (m21 m * p + m22 m * q)
  | PH => St (m11 m * p + m12 m * q) q p (m21 m * p + m22 m * q)
  | PG => St p (m21 m * p + m22 m * q) (m11 m * p + m12 m * q) q
  | PA => St (m11 m * p + m12 m * (- q)) p (m21 m * p + m22 m * (- q)) q
  | PB => St p (m11 m * p + m12 m * q) q (- (m21 m * p + m22 m * q))
  end.

Hypothesis H2 : char_ok K.
Hypothesis Hz1 : z0_ok z1.
Hypothesis Hz2 : z0_ok z2.

Lemma pstate_eq (s t : pstate K) :
  v1 s = v1 t -> v2 s = v2 t -> i1 s = i1 t -> i2 s = i2 t -> s = t.
Proof. destruct s, t; simpl; intros; subst; reflexivity. Qed.

Lemma of_waves_waves (s : pstate K) : of_waves (wa1 s) (wa2 s) (wb1 s) (wb2 s) = s.
Proof.
  pose proof (ksq_nz K z1 Hz1) as Hk1. pose proof (ksq_nz K z2 Hz2) as Hk2.
  apply pstate_eq; unfold of_waves, wa1, wa2, wb1, wb2; destruct s as [a b c d]; simpl;
    rewrite ?(cj_of_ksq K H2 z1 Hz1), ?(cj_of_ksq K H2 z2 Hz2); field; repeat split;
    assumption || exact H2.
Qed.

Lemma waves_of_waves (a1 a2 b1 b2 : K) :
  let s := of_waves a1 a2 b1 b2 in wa1 s = a1 /\ wa2 s = a2 /\ wb1 s = b1 /\ wb2 s = b2.
Proof.
  pose proof (ksq_nz K z1 Hz1) as Hk1. pose proof (ksq_nz K z2 Hz2) as Hk2.
  unfold of_waves, wa1, wa2, wb1, wb2; simpl;
    rewrite ?(cj_of_ksq K H2 z1 Hz1), ?(cj_of_ksq K H2 z2 Hz2).
  repeat split; field; repeat split; assumption || exact H2.
Qed.

(* A state satisfies the relation of type t iff it is the parametrised state of its own free
   quantities: the solution space of each relation is exactly the image of [param]. *)
Lemma rel_iff_param (t : ptype) (m : m2 K) (s : pstate K) :
  rel t m s <-> s = param t m (fst (free t s)) (snd (free t s)).
Proof.
  destruct t; simpl.
  - (* S *) split.
    + intros [E1 E2]. rewrite <- E1, <- E2. symmetry; apply of_waves_waves.
    + intros E. destruct (waves_of_waves (wa1 s) (wa2 s)
        (m11 m * wa1 s + m12 m * wa2 s) (m21 m * wa1 s + m22 m * wa2 s)) as (A1 & A2 & B1 & B2).
      rewrite <- E in B1, B2. split; assumption.
  - (* T *) split.
    + intros [E1 E2]. rewrite <- E1, <- E2. symmetry; apply of_waves_waves.
    + intros E. destruct (waves_of_waves (m21 m * wa2 s + m22 m * wb2 s) (wa2 s)
        (m11 m * wa2 s + m12 m * wb2 s) (wb2 s)) as (A1 & A2 & B1 & B2).
      rewrite <- E in A1, B1. split; assumption.
  - (* U *) split.
    + intros [E1 E2]. rewrite <- E1, <- E2. symmetry; apply of_waves_waves.
    + intros E. destruct (waves_of_waves (wa1 s) (m11 m * wb1 s + m12 m * wa1 s)
        (wb1 s) (m21 m * wb1 s + m22 m * wa1 s)) as (A1 & A2 & B1 & B2).
      rewrite <- E in A2, B2. split; assumption.
  - destruct s as [a b c d]; simpl; split; [intros [-> ->]; reflexivity|intros E; injection E; auto].
  - destruct s as [a b c d]; simpl; split; [intros [-> ->]; reflexivity|intros E; injection E; auto].
  - destruct s as [a b c d]; simpl; split; [intros [-> ->]; reflexivity|intros E; injection E; auto].
  - destruct s as [a b c d]; simpl; split; [intros [-> ->]; reflexivity|intros E; injection E; auto].
  - destruct s as [a b c d]; simpl; split; [intros [-> ->]; reflexivity|intros E; injection E; auto].
  - destruct s as [a b c d]; simpl; split.
    + intros [-> E]. f_equal. rewrite <- E. ring.
    + intros E; injection E; intros E2 E1. split; [exact E1|]. rewrite E2 at 1. ring.
Qed.

(* every parametrised state satisfies its relation (so [param] really parametrises) *)
Lemma param_rel (t : ptype) (m : m2 K) (p q : K) : rel t m (param t m p q).
Proof.
  destruct t; simpl; try (split; reflexivity).
  - destruct (waves_of_waves p q (m11 m * p + m12 m * q) (m21 m * p + m22 m * q)) as (A1 & A2 & B1 & B2).
    rewrite A1, A2, B1, B2. split; reflexivity.
  - destruct (waves_of_waves (m21 m * p + m22 m * q) p (m11 m * p + m12 m * q) q) as (A1 & A2 & B1 & B2).
    rewrite A1, A2, B1, B2. split; reflexivity.
  - destruct (waves_of_waves q (m11 m * p + m12 m * q) p (m21 m * p + m22 m * q)) as (A1 & A2 & B1 & B2).
    rewrite A1, A2, B1, B2. split; reflexivity.
  - split; [reflexivity|ring].
Qed.

(* How the generated per-function lemmas combine into "exactly the same states". *)
Lemma same_states_from_params (X Y : ptype) (m n : m2 K) :
  (forall p q, rel Y n (param X m p q)) ->
  (forall p q, rel X m (param Y n p q)) ->
  forall s, rel X m s <-> rel Y n s.
Proof.
  intros Hf Hb s; split; intros H.
  - apply rel_iff_param in H. rewrite H. apply Hf.
  - apply rel_iff_param in H. rewrite H. apply Hb.
Qed.

Lemma wa1_of a1 a2 b1 b2 : wa1 (of_waves a1 a2 b1 b2) = a1.
Proof. apply (waves_of_waves a1 a2 b1 b2). Qed.
Lemma wa2_of a1 a2 b1 b2 : wa2 (of_waves a1 a2 b1 b2) = a2.
Proof. apply (waves_of_waves a1 a2 b1 b2). Qed.
Lemma wb1_of a1 a2 b1 b2 : wb1 (of_waves a1 a2 b1 b2) = b1.
Proof. apply (waves_of_waves a1 a2 b1 b2). Qed.
Lemma wb2_of a1 a2 b1 b2 : wb2 (of_waves a1 a2 b1 b2) = b2.
Proof. apply (waves_of_waves a1 a2 b1 b2). Qed.

(* a matrix is determined by its relation: two matrices with the same states are equal *)
Lemma rel_determines (t : ptype) (m n : m2 K) :
  (forall s, rel t m s <-> rel t n s) -> m = n.
Proof.
  intros H.
  assert (P : forall p q, rel t n (param t m p q)) by (intros; apply H; apply param_rel).
  pose proof (P 1 0) as P10. pose proof (P 0 1) as P01. pose proof (P 0 (- (1))) as P0m.
  clear P H.
  destruct m as [a b c d], n as [a' b' c' d'].
  destruct t; simpl in P10, P01, P0m;
    rewrite ?wa1_of, ?wa2_of, ?wb1_of, ?wb2_of in P10, P01, P0m;
    destruct P10 as [E1 E2], P01 as [E3 E4], P0m as [E5 E6];
    f_equal;
    let fin E := (match type of E with ?L = ?R => transitivity L; [ring | rewrite E; ring] end) in
    first [fin E1 | fin E2 | fin E3 | fin E4 | fin E5 | fin E6].
Qed.

End Rel.
