(* Proof automation shared by the generated conversion lemmas (coq/Gen/Conv2_*.v). *)
Require Import List.
Require Import LV.Base.CField LV.Conv.ConvRel.
Local Open Scope cf_scope.

Fixpoint all_nz {K : CField} (l : list K) : Prop :=
  match l with
  | nil => True
  | x :: r => x <> 0 /\ all_nz r
  end.

Ltac conv_prep H2 Hz1 Hz2 Hok :=
  let Hk1 := fresh "Hk1" in let Hk2 := fresh "Hk2" in
  pose proof (ksq_nz _ _ Hz1) as Hk1; pose proof (ksq_nz _ _ Hz2) as Hk2;
  let C1 := fresh "C1" in let C2 := fresh "C2" in let R1 := fresh "R1" in let R2 := fresh "R2" in
  pose proof (cj_of_ksq _ H2 _ Hz1) as C1; pose proof (cj_of_ksq _ H2 _ Hz2) as C2;
  pose proof (re_of_ksq _ _ Hz1) as R1; pose proof (re_of_ksq _ _ Hz2) as R2;
  unfold char_ok in H2;
  cbv beta iota zeta in Hok |- *;
  cbn [all_nz] in Hok;
  unfold rel, param, of_waves, wa1, wa2, wb1, wb2;
  cbv beta iota zeta;
  cbn [v1 v2 i1 i2 m11 m12 m21 m22 fst snd];
  rewrite ?C1, ?C2, ?R1, ?R2;
  rewrite ?C1, ?C2, ?R1, ?R2 in Hok;
  decompose [and] Hok.

Ltac side := repeat split; assumption.

(* both equations of a two-port relation *)
Ltac conv_finish H2 Hz1 Hz2 Hok := conv_prep H2 Hz1 Hz2 Hok; split; field; side.
