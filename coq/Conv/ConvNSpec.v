(* General-n specification of the n-port conversions and the theorem that the specified
   output matrix satisfies its defining relation for exactly the states that satisfy the input's
   (property C04, all n).  mathcomp matrices over an arbitrary field; conjugation enters only
   through the diagonal matrices Z0 (reference impedances), Z0c (their conjugates) and K
   (sqrt |Re z0|), with the hypotheses that these commute and K is invertible.
   The executable model Conv/ConvN.v computes [invmx A *m B] by the LU model; the link between
   the two is the correctness of LU (property C19) and, at n = 2, Properties_C04n. *)
From mathcomp Require Import all_ssreflect all_algebra.
Set Implicit Arguments.
Unset Strict Implicit.
Unset Printing Implicit Defensive.
Import GRing.Theory.
Local Open Scope ring_scope.

Section NPort.
Variable F : fieldType.
Variable n : nat.
Variables (Z0 Z0c K Ki : 'M[F]_n).
Hypothesis two_nz : (2%:R : F) != 0.
Hypothesis KiK : Ki *m K = 1%:M.
Hypothesis KKi : K *m Ki = 1%:M.
Hypothesis KiZ0 : Ki *m Z0 = Z0 *m Ki.
Hypothesis KiZ0c : Ki *m Z0c = Z0c *m Ki.

(* vnaconv(3): a = 1/2 K^-1 (v + Z0 i),  b = 1/2 K^-1 (v - Z0^* i) *)
Definition wave_a (v i : 'cV[F]_n) : 'cV[F]_n := (2%:R)^-1 *: (Ki *m (v + Z0 *m i)).
Definition wave_b (v i : 'cV[F]_n) : 'cV[F]_n := (2%:R)^-1 *: (Ki *m (v - Z0c *m i)).

(* S -> Z as coded: a = I - S, b = S Z0 + Z0c, z = a^-1 b, then z_ij *= k_i / k_j *)
Definition stozn_spec (S : 'M[F]_n) : 'M[F]_n :=
  K *m (invmx (1%:M - S) *m (S *m Z0 + Z0c)) *m Ki.

Lemma half_inj (x y : 'cV[F]_n) : ((2%:R)^-1 *: x = (2%:R)^-1 *: y) <-> (x = y).
Proof.
split=> [|->//]; apply: scalerI; by rewrite invr_eq0.
Qed.

Lemma Ki_inj (x y : 'cV[F]_n) : (Ki *m x = Ki *m y) <-> (x = y).
Proof.
split=> [E|->//].
by rewrite -[x]mul1mx -[y]mul1mx -KKi -!mulmxA E.
Qed.

Lemma lin_rearrange (a b c e : 'cV[F]_n) : (a - c = b + e) <-> (a - b = e + c).
Proof.
split=> /eqP; rewrite subr_eq => /eqP E; apply/eqP; rewrite subr_eq; apply/eqP; rewrite E.
  by rewrite -addrA addrC.
by rewrite -[RHS]addrA [RHS]addrC.
Qed.

Lemma add_sub_sub (V : zmodType) (a b c : V) : (a + b) - (a - c) = b + c.
Proof. by rewrite opprB addrC addrA subrK addrC. Qed.

Theorem stozn_rel (S : 'M[F]_n) (v i : 'cV[F]_n) :
  (1%:M - S) \in unitmx ->
  (wave_b v i = S *m wave_a v i) <-> (v = stozn_spec S *m i).
Proof.
move=> Aunit; rewrite /wave_a /wave_b /stozn_spec.
rewrite -scalemxAr half_inj.
have -> : Ki *m (v + Z0 *m i) = Ki *m v + Z0 *m (Ki *m i).
  by rewrite mulmxDr mulmxA KiZ0 -mulmxA.
have -> : Ki *m (v - Z0c *m i) = Ki *m v - Z0c *m (Ki *m i).
  by rewrite mulmxBr mulmxA KiZ0c -mulmxA.
set v' := Ki *m v; set i' := Ki *m i.
rewrite mulmxDr lin_rearrange.
have -> : v' - S *m v' = (1%:M - S) *m v' by rewrite mulmxBl mul1mx.
have -> : S *m (Z0 *m i') + Z0c *m i' = (S *m Z0 + Z0c) *m i' by rewrite mulmxDl mulmxA.
split=> [E|Ev].
  by rewrite -!mulmxA -/i' -E mulKmx // /v' mulmxA KKi mul1mx.
have Hv : v' = invmx (1%:M - S) *m ((S *m Z0 + Z0c) *m i').
  by rewrite /v' Ev -!mulmxA mulmxA KiK mul1mx.
by rewrite Hv mulKVmx.
Qed.

(* S -> Y as coded: a = S Z0 + Z0c, b = I - S, y = a^-1 b, then y_ij *= k_i / k_j *)
Definition stoyn_spec (S : 'M[F]_n) : 'M[F]_n :=
  K *m (invmx (S *m Z0 + Z0c) *m (1%:M - S)) *m Ki.

Theorem stoyn_rel (S : 'M[F]_n) (v i : 'cV[F]_n) :
  (S *m Z0 + Z0c) \in unitmx ->
  (wave_b v i = S *m wave_a v i) <-> (i = stoyn_spec S *m v).
Proof.
move=> Bunit; rewrite /wave_a /wave_b /stoyn_spec.
rewrite -scalemxAr half_inj.
have -> : Ki *m (v + Z0 *m i) = Ki *m v + Z0 *m (Ki *m i).
  by rewrite mulmxDr mulmxA KiZ0 -mulmxA.
have -> : Ki *m (v - Z0c *m i) = Ki *m v - Z0c *m (Ki *m i).
  by rewrite mulmxBr mulmxA KiZ0c -mulmxA.
set v' := Ki *m v; set i' := Ki *m i.
rewrite mulmxDr lin_rearrange.
have -> : v' - S *m v' = (1%:M - S) *m v' by rewrite mulmxBl mul1mx.
have -> : S *m (Z0 *m i') + Z0c *m i' = (S *m Z0 + Z0c) *m i' by rewrite mulmxDl mulmxA.
split=> [E|Ei].
  by rewrite -!mulmxA -/v' E mulKmx // /i' mulmxA KKi mul1mx.
have Hi : i' = invmx (S *m Z0 + Z0c) *m ((1%:M - S) *m v').
  by rewrite /i' Ei -!mulmxA mulmxA KiK mul1mx.
by rewrite Hi mulKVmx.
Qed.

Hypothesis ZZc_unit : (Z0 + Z0c) \in unitmx.

(* Z -> S as coded: b = Z - Z0c, a = Z + Z0, s = b a^-1, then s_ij *= k_j / k_i *)
Definition ztosn_spec (Z : 'M[F]_n) : 'M[F]_n :=
  Ki *m ((Z - Z0c) *m invmx (Z + Z0)) *m K.

Lemma KKi_cancel (x : 'cV[F]_n) : K *m (Ki *m x) = x.
Proof. by rewrite mulmxA KKi mul1mx. Qed.

Theorem ztosn_rel (Z : 'M[F]_n) (v i : 'cV[F]_n) :
  (Z + Z0) \in unitmx ->
  (v = Z *m i) <-> (wave_b v i = ztosn_spec Z *m wave_a v i).
Proof.
move=> Aunit; rewrite /wave_a /wave_b /ztosn_spec.
rewrite -scalemxAr half_inj -!mulmxA KKi_cancel Ki_inj.
split=> [->|E].
  rewrite -mulmxDl mulKmx // mulmxBl //.
pose w := invmx (Z + Z0) *m (v + Z0 *m i).
have E1 : v + Z0 *m i = (Z + Z0) *m w by rewrite /w mulKVmx.
have E2 : v - Z0c *m i = (Z - Z0c) *m w by rewrite E.
have Ei : (Z0 + Z0c) *m i = (Z0 + Z0c) *m w.
  have -> : (Z0 + Z0c) *m i = (v + Z0 *m i) - (v - Z0c *m i).
    by rewrite add_sub_sub mulmxDl.
  rewrite E1 E2 -mulmxBl; congr (_ *m _).
  by rewrite add_sub_sub.
have {}Ei : i = w by rewrite -[i](mulKmx ZZc_unit) Ei mulKmx.
have : v + Z0 *m i = Z *m i + Z0 *m i by rewrite E1 -Ei mulmxDl.
by move/addIr.
Qed.

(* Y -> S as coded: b = I - Z0c Y, a = I + Z0 Y, s = b a^-1, then s_ij *= k_j / k_i *)
Definition ytosn_spec (Y : 'M[F]_n) : 'M[F]_n :=
  Ki *m ((1%:M - Z0c *m Y) *m invmx (1%:M + Z0 *m Y)) *m K.

Theorem ytosn_rel (Y : 'M[F]_n) (v i : 'cV[F]_n) :
  (1%:M + Z0 *m Y) \in unitmx ->
  (i = Y *m v) <-> (wave_b v i = ytosn_spec Y *m wave_a v i).
Proof.
move=> Aunit; rewrite /wave_a /wave_b /ytosn_spec.
rewrite -scalemxAr half_inj -!mulmxA KKi_cancel Ki_inj.
split=> [->|E].
  have -> : v + Z0 *m (Y *m v) = (1%:M + Z0 *m Y) *m v by rewrite mulmxDl mul1mx mulmxA.
  by rewrite mulKmx // mulmxBl mul1mx mulmxA.
pose w := invmx (1%:M + Z0 *m Y) *m (v + Z0 *m i).
have E1 : v + Z0 *m i = (1%:M + Z0 *m Y) *m w by rewrite /w mulKVmx.
have E2 : v - Z0c *m i = (1%:M - Z0c *m Y) *m w by rewrite E.
have Ei : (Z0 + Z0c) *m i = (Z0 + Z0c) *m (Y *m w).
  have -> : (Z0 + Z0c) *m i = (v + Z0 *m i) - (v - Z0c *m i).
    by rewrite add_sub_sub mulmxDl.
  rewrite E1 E2 -mulmxBl mulmxA; congr (_ *m _).
  by rewrite add_sub_sub mulmxDl.
have {}Ei : i = Y *m w by rewrite -[i](mulKmx ZZc_unit) Ei mulKmx.
have Ev : v + Z0 *m i = w + Z0 *m i by rewrite E1 mulmxDl mul1mx -mulmxA -Ei.
move: Ev => /addIr Ev; by rewrite Ei Ev.
Qed.

(* Z <-> Y as coded: matrix inverse *)
Theorem ztoyn_rel (Z : 'M[F]_n) (v i : 'cV[F]_n) :
  Z \in unitmx -> (v = Z *m i) <-> (i = invmx Z *m v).
Proof. by move=> U; split=> ->; rewrite ?mulKmx ?mulKVmx. Qed.

End NPort.

(* Instantiation: the hypotheses of section NPort hold for the diagonal matrices built from any
   reference impedance vector with  z_j + conj z_j = 2 k_j^2  and  k_j <> 0  (i.e. Re z_j > 0,
   k_j = sqrt (Re z_j)) over a field of characteristic different from 2. *)
Section Diag.
Variable F : fieldType.
Variable n : nat.
Variables (z zc k : 'rV[F]_n).
Hypothesis two_nz : (2%:R : F) != 0.
Hypothesis k_nz : forall j, k 0 j != 0.
Hypothesis zk : forall j, z 0 j + zc 0 j = 2%:R * (k 0 j * k 0 j).

Definition dZ0 := diag_mx z.
Definition dZ0c := diag_mx zc.
Definition dK := diag_mx k.
Definition dKi := diag_mx (\row_j (k 0 j)^-1).

Lemma dKiK : dKi *m dK = 1%:M.
Proof.
rewrite /dKi /dK mulmx_diag; apply/matrixP=> i j.
by rewrite !mxE mulVf.
Qed.

Lemma dKKi : dK *m dKi = 1%:M.
Proof.
rewrite /dKi /dK mulmx_diag; apply/matrixP=> i j.
by rewrite !mxE mulfV.
Qed.

Lemma dKiZ0 : dKi *m dZ0 = dZ0 *m dKi.  Proof. exact: diag_mxC. Qed.
Lemma dKiZ0c : dKi *m dZ0c = dZ0c *m dKi.  Proof. exact: diag_mxC. Qed.

Lemma dZZc_unit : (dZ0 + dZ0c) \in unitmx.
Proof.
rewrite /dZ0 /dZ0c -raddfD unitmxE det_diag unitfE.
apply/prodf_neq0 => j _; rewrite mxE zk.
by rewrite !mulf_neq0.
Qed.

Theorem stozn_correct (S : 'M[F]_n) (v i : 'cV[F]_n) :
  (1%:M - S) \in unitmx ->
  (wave_b dZ0c dKi v i = S *m wave_a dZ0 dKi v i) <-> (v = stozn_spec dZ0 dZ0c dK dKi S *m i).
Proof. exact: (stozn_rel two_nz dKiK dKKi dKiZ0 dKiZ0c). Qed.

Theorem stoyn_correct (S : 'M[F]_n) (v i : 'cV[F]_n) :
  (S *m dZ0 + dZ0c) \in unitmx ->
  (wave_b dZ0c dKi v i = S *m wave_a dZ0 dKi v i) <-> (i = stoyn_spec dZ0 dZ0c dK dKi S *m v).
Proof. exact: (stoyn_rel two_nz dKiK dKKi dKiZ0 dKiZ0c). Qed.

Theorem ztosn_correct (Z : 'M[F]_n) (v i : 'cV[F]_n) :
  (Z + dZ0) \in unitmx ->
  (v = Z *m i) <-> (wave_b dZ0c dKi v i = ztosn_spec dZ0 dZ0c dK dKi Z *m wave_a dZ0 dKi v i).
Proof. exact: (ztosn_rel two_nz dKKi dZZc_unit). Qed.

Theorem ytosn_correct (Y : 'M[F]_n) (v i : 'cV[F]_n) :
  (1%:M + dZ0 *m Y) \in unitmx ->
  (i = Y *m v) <-> (wave_b dZ0c dKi v i = ytosn_spec dZ0 dZ0c dK dKi Y *m wave_a dZ0 dKi v i).
Proof. exact: (ytosn_rel two_nz dKKi dZZc_unit). Qed.
End Diag.
