(* Hand-written consequences of the generated per-function lemmas (Gen/Conv2All.v). *)
Require Import List.
Require Import LV.Base.CField LV.Conv.ConvRel LV.Conv.ConvTac LV.Gen.Conv2All.
Local Open Scope cf_scope.

Section Thm.
Variable K : CField.
Variables z1 z2 : K.
Hypothesis H2 : char_ok K.
Hypothesis Hz1 : z0_ok z1.
Hypothesis Hz2 : z0_ok z2.

(* converting back returns the original matrix *)
Lemma conv2_roundtrip X Y f g (m : m2 K) :
  conv2 K X Y = Some f -> conv2 K Y X = Some g ->
  conv2_ok K X Y m z1 z2 -> conv2_ok K Y X (f m z1 z2) z1 z2 ->
  g (f m z1 z2) z1 z2 = m.
Proof.
  intros Ef Eg Ho1 Ho2.
  apply (rel_determines K z1 z2 H2 Hz1 Hz2 X).
  intros s.
  rewrite (conv2_same_states K X Y f m z1 z2 Ef H2 Hz1 Hz2 Ho1 s).
  symmetry.
  apply (conv2_same_states K Y X g (f m z1 z2) z1 z2 Eg H2 Hz1 Hz2 Ho2 s).
Qed.

(* A -> B -> C denotes the same network as A -> C *)
Lemma conv2_chain X Y Z f g h (m : m2 K) :
  conv2 K X Y = Some f -> conv2 K Y Z = Some g -> conv2 K X Z = Some h ->
  conv2_ok K X Y m z1 z2 -> conv2_ok K Y Z (f m z1 z2) z1 z2 -> conv2_ok K X Z m z1 z2 ->
  g (f m z1 z2) z1 z2 = h m z1 z2.
Proof.
  intros Ef Eg Eh Ho1 Ho2 Ho3.
  apply (rel_determines K z1 z2 H2 Hz1 Hz2 Z).
  intros s.
  rewrite <- (conv2_same_states K Y Z g (f m z1 z2) z1 z2 Eg H2 Hz1 Hz2 Ho2 s).
  rewrite <- (conv2_same_states K X Y f m z1 z2 Ef H2 Hz1 Hz2 Ho1 s).
  apply (conv2_same_states K X Z h m z1 z2 Eh H2 Hz1 Hz2 Ho3 s).
Qed.

(* input impedances: for every state of the X network in which the other port is terminated
   in its reference impedance (no incident wave there), v = zi * i at the driven port *)
Lemma conv2zi_phys X (m : m2 K) :
  conv2zi_ok K X m z1 z2 ->
  forall s, rel K z1 z2 X m s ->
    (wa2 K z2 s = 0 -> v1 s = fst (conv2zi K X m z1 z2) * i1 s) /\
    (wa1 K z1 s = 0 -> v2 s = snd (conv2zi K X m z1 z2) * i2 s).
Proof.
  intros Hok s Hs.
  apply (conv2_to_s_states K X m z1 z2 H2 Hz1 Hz2 Hok) in Hs.
  apply (rel_iff_param K z1 z2 H2 Hz1 Hz2) in Hs. cbn [free fst snd] in Hs.
  destruct (conv2zi_param K X m z1 z2 H2 Hz1 Hz2 Hok) as [P1 P2].
  split; intros E; rewrite E in Hs; rewrite Hs.
  - apply P1.
  - apply P2.
Qed.
End Thm.
