(* Non-vacuity of the hypotheses of Properties_C04n.v (n = 2 model = translated two-port function):
   over the Gaussian rationals, with z0 = (4+3i, 9-2i) and the matrix ConvExamples.ex_m, the singular-set
   hypothesis AND the pivot hypothesis of BOTH pivot orders (swap = true: the second row is taken as the
   first pivot; swap = false: the first row) hold for every one of the seven theorems. *)
Require Import List ZArith QArith Qcanon.
Require Import LV.Base.CField LV.Base.QcI LV.Conv.ConvRel LV.Conv.ConvTac LV.Conv.ConvExamples.
Require Import LV.Gen.Conv2_s LV.Gen.Conv2_z LV.Gen.Conv2_y LV.Gen.Conv2_zi.
Local Open Scope cf_scope.

Example c04n_hyps_stozn : stoz_ok QIF ex_m ex_z1 ex_z2 /\
  (forall swap : bool, if swap then m21 ex_m <> @c0 QIF else @csub QIF (@c1 QIF) (m11 ex_m) <> @c0 QIF).
Proof. split; [nzsolve|intros [|]; nzsolve]. Qed.

Example c04n_hyps_ztosn : ztos_ok QIF ex_m ex_z1 ex_z2 /\
  (forall swap : bool, if swap then m21 ex_m <> @c0 QIF else @cadd QIF (m11 ex_m) ex_z1 <> @c0 QIF).
Proof. split; [nzsolve|intros [|]; nzsolve]. Qed.

Example c04n_hyps_stoyn : stoy_ok QIF ex_m ex_z1 ex_z2 /\
  (forall swap : bool, if swap then m21 ex_m <> @c0 QIF /\ ex_z1 <> @c0 QIF
                       else @cadd QIF (@cmul QIF (m11 ex_m) ex_z1) (@cj QIF ex_z1) <> @c0 QIF).
Proof. split; [nzsolve|intros [|]; nzsolve]. Qed.

Example c04n_hyps_ytosn : ytos_ok QIF ex_m ex_z1 ex_z2 /\
  (forall swap : bool, if swap then ex_z2 <> @c0 QIF /\ m21 ex_m <> @c0 QIF
                       else @cadd QIF (@cmul QIF ex_z1 (m11 ex_m)) (@c1 QIF) <> @c0 QIF).
Proof. split; [nzsolve|intros [|]; nzsolve]. Qed.

Example c04n_hyps_ztoyn : ztoy_ok QIF ex_m ex_z1 ex_z2 /\
  (forall swap : bool, if swap then m21 ex_m <> @c0 QIF else m11 ex_m <> @c0 QIF).
Proof. split; [nzsolve|intros [|]; nzsolve]. Qed.

Example c04n_hyps_ytozn : ytoz_ok QIF ex_m ex_z1 ex_z2 /\
  (forall swap : bool, if swap then m21 ex_m <> @c0 QIF else m11 ex_m <> @c0 QIF).
Proof. split; [nzsolve|intros [|]; nzsolve]. Qed.

Example c04n_hyps_ztozin : ztozi_ok QIF ex_m ex_z1 ex_z2 /\
  (forall swap : bool, if swap then m21 ex_m <> @c0 QIF else @cadd QIF (m11 ex_m) ex_z1 <> @c0 QIF).
Proof. split; [nzsolve|intros [|]; nzsolve]. Qed.
