(* Property C16: calibration and parameter handles stay valid, distinct and correctly indexed.
   Theorems only; every statement is about the executable model LV.CalTab.CalTabModel (tied to
   /repo/src/vnacal_*.c by the op-script correspondence of checks/C16.py on every run) and the
   finite-map specification LV.CalTab.TableSpec. *)
Require Import List ZArith.
Import ListNotations.
Require Import LV.CalTab.CalTabModel LV.CalTab.TableSpec LV.CalTab.CalTabProofs.

(* The invariant (count = occupied slots; first_free <= least free index; hold count =
   [not deleted] + number of referrers; occupied iff hold count > 0; nothing refers to an empty
   slot; the predefined parameters are in place) holds after every operation sequence, and no
   operation - vnacal_free included - trips an assertion of the C code. *)
Theorem c16_inv_reachable : forall ops,
  Inv (run_state ops) /\ forall x, In x (snd (run st_initial ops)) -> o_ret x <> RFault.
Proof. exact (fun ops => run_inv ops st_initial inv_initial). Qed.
Print Assumptions c16_inv_reachable.

Theorem c16_inv_step : forall s o, Inv s -> Inv (fst (step s o)) /\ o_ret (snd (step s o)) <> RFault.
Proof. exact (fun s o H => conj (step_inv s o H) (step_no_fault s o H)). Qed.
Print Assumptions c16_inv_step.

(* add returns the index at which find / get_name / get_type / get_rows / ... then see it *)
Theorem c16_add_returns_found_index : forall s id name s' z,
  step s (OAddCal id name) = (s', ok_int z) ->
  snd (step s' (OFind name)) = ok_int z /\
  exists v c, get_new s id = Some v /\ vn_cal v = Some c /\
    snd (step s' (OGetCal z)) =
    mkOut (RCal name (c_type c) (c_rows c) (c_cols c) (c_nf c) (c_fmin c) (c_fmax c)) ENone 0.
Proof. exact add_returns_found_index_l. Qed.
Print Assumptions c16_add_returns_found_index.

Example c16_add_returns_found_index_satisfiable :
  exists s', step (run_state d8_script) (OAddCal 0 2) = (s', ok_int 1).
Proof. exact add_returns_found_index_example. Qed.

(* the chosen index is the one the finite-map specification names, and the map changes there only *)
Theorem c16_add_refines_spec : forall s id name s' z,
  step s (OAddCal id name) = (s', ok_int z) ->
  exists i c, z = Z.of_nat i /\ spec_add_index (cal_map s) name i /\ c_name c = name /\
    forall j, cal_map s' j = map_set (cal_map s) i (Some c) j.
Proof. exact add_refines_spec_l. Qed.
Print Assumptions c16_add_refines_spec.

(* the code before fix D08 returned 0 whatever the slot (kept as the record of the finding) *)
Theorem c16_add_index_before_fix_D08_refuted :
  exists s name s' z, step_asis s (OAddCal 0 name) = (s', ok_int z) /\
                      snd (step_asis s' (OFind name)) <> ok_int z.
Proof. exact add_index_asis_refuted_l. Qed.
Print Assumptions c16_add_index_before_fix_D08_refuted.

Theorem c16_add_existing_name_replaces : forall s id name i s' out,
  st_freed s = false -> find_name (st_cals s) name = Some i ->
  step s (OAddCal id name) = (s', out) -> o_err out = ENone -> o_ret out <> RNoSuch ->
  o_ret out = RInt (Z.of_nat i) /\
  length (st_cals s') = length (st_cals s) /\
  (forall j, j <> i -> nth j (st_cals s') None = nth j (st_cals s) None) /\
  (exists c, nth i (st_cals s') None = Some c /\ c_name c = name).
Proof. exact add_existing_name_replaces_l. Qed.
Print Assumptions c16_add_existing_name_replaces.

Example c16_add_existing_name_satisfiable :
  let s := fst (step (run_state d8_script) (OAddCal 0 2)) in
  st_freed s = false /\ find_name (st_cals s) 1 = Some 0 /\ find_name (st_cals s) 2 = Some 1.
Proof. exact add_existing_name_example. Qed.

(* delete empties exactly one slot, without renumbering the others *)
Theorem c16_delete_one_slot : forall s ci s',
  step s (ODelCal ci) = (s', ok_int 0) ->
  (0 <= ci)%Z /\ nth (Z.to_nat ci) (st_cals s) None <> None /\
  nth (Z.to_nat ci) (st_cals s') None = None /\
  length (st_cals s') = length (st_cals s) /\
  (forall j, j <> Z.to_nat ci -> nth j (st_cals s') None = nth j (st_cals s) None) /\
  st_pt s' = st_pt s /\ st_news s' = st_news s /\ st_gprop s' = st_gprop s.
Proof. exact delete_one_slot_l. Qed.
Print Assumptions c16_delete_one_slot.

Example c16_delete_one_slot_satisfiable :
  let s := fst (step (run_state d8_script) (OAddCal 0 2)) in
  exists s', step s (ODelCal 0) = (s', ok_int 0) /\ snd (step s' OEnd) = ok_int 2.
Proof. exact delete_one_slot_example. Qed.

Theorem c16_delete_refused_unchanged : forall s ci s' out,
  step s (ODelCal ci) = (s', out) -> o_ret out <> RInt 0 -> s' = s /\ o_cb out = 0.
Proof. exact delete_refused_unchanged. Qed.
Print Assumptions c16_delete_refused_unchanged.

(* get_calibration_end is one past the highest live index *)
Theorem c16_end_is_max_plus_one : forall s s' out,
  st_freed s = false -> step s OEnd = (s', out) ->
  s' = s /\ exists e, out = ok_int (Z.of_nat e) /\
  (forall j, e <= j -> cal_map s j = None) /\ (0 < e -> cal_map s (e - 1) <> None).
Proof. exact end_is_max_plus_one_l. Qed.
Print Assumptions c16_end_is_max_plus_one.

(* global and per-calibration properties are separate *)
Theorem c16_properties_separate : forall s ci tok s' out,
  step s (OPropSet ci tok) = (s', out) -> o_err out = ENone -> o_ret out = RInt 0 ->
  (ci = (-1)%Z -> st_cals s' = st_cals s /\ st_gprop s' = Some tok) /\
  (ci <> (-1)%Z ->
     st_gprop s' = st_gprop s /\ (0 <= ci)%Z /\
     (forall j, j <> Z.to_nat ci -> nth j (st_cals s') None = nth j (st_cals s) None) /\
     exists c, nth (Z.to_nat ci) (st_cals s) None = Some c /\
               nth (Z.to_nat ci) (st_cals s') None = Some (set_prop c (Some tok))).
Proof. exact properties_separate_l. Qed.
Print Assumptions c16_properties_separate.

(* parameter handles are unique while live (or merely held) *)
Theorem c16_handles_unique_while_live : forall s o s' z,
  Inv s -> st_freed s = false -> is_make o = true ->
  step s o = (s', ok_int z) -> (3 <= z)%Z ->
  param_map s (Z.to_nat z) = None /\ live s' (Z.to_nat z) /\
  forall j p, param_map s j = Some p ->
    j <> Z.to_nat z /\ exists p', param_map s' j = Some p' /\ p_kind p' = p_kind p /\ p_deleted p' = p_deleted p.
Proof. exact handles_unique_while_live_l. Qed.
Print Assumptions c16_handles_unique_while_live.

Example c16_handles_unique_satisfiable :
  exists s', step (run_state held_script) (OMakeUnknown 3 0) = (s', ok_int 4).
Proof. exact handles_unique_example. Qed.

(* the predefined match / open / short handles are permanent *)
Theorem c16_predefined_permanent : forall ops,
  let s := run_state ops in
  st_freed s = false ->
  (forall f, get_value (st_pt s) 0 f = mkOut (RValue (0, 0)%Z) ENone 0) /\
  (forall f, get_value (st_pt s) 1 f = mkOut (RValue (64, 0)%Z) ENone 0) /\
  (forall f, get_value (st_pt s) 2 f = mkOut (RValue (-64, 0)%Z) ENone 0) /\
  (forall h, (0 <= h < 3)%Z -> step s (ODeleteParam h) = (s, ok_int 0)).
Proof. exact predefined_permanent_l. Qed.
Print Assumptions c16_predefined_permanent.

(* a handle deleted while a vnacal_new_t uses it keeps working there *)
Theorem c16_deleted_while_held_still_works : forall s h n p id v,
  Inv s -> st_freed s = false ->
  get_param (st_pt s) h = Some (n, p) -> (3 <= h)%Z ->
  get_new s id = Some v -> In n (vn_params v) ->
  exists s' k,
    step s (ODeleteParam h) = (s', ok_int 0) /\
    param_map s' n = Some (mkParam (p_kind p) true k) /\ 0 < k /\
    st_news s' = st_news s /\
    get_param (st_pt s') h = None /\
    (forall ms, exists s'', step s' (OAddStd id [h] ms) = (s'', ok_int 0) /\ st_pt s'' = st_pt s').
Proof. exact deleted_while_held_still_works_l. Qed.
Print Assumptions c16_deleted_while_held_still_works.

Example c16_deleted_while_held_satisfiable :
  let s := run_state held_script in
  st_freed s = false /\ (exists p, get_param (st_pt s) 3 = Some (3, p)) /\
  (exists v, get_new s 0 = Some v /\ In 3 (vn_params v)).
Proof. exact deleted_while_held_example. Qed.

(* values are returned as supplied *)
Theorem c16_values_as_supplied_scalar : forall s g fl s' z,
  Inv s -> st_freed s = false -> step s (OMakeScalar g fl) = (s', ok_int z) ->
  forall f, get_value (st_pt s') z f = mkOut (RValue g) ENone 0.
Proof. exact values_as_supplied_scalar_l. Qed.
Print Assumptions c16_values_as_supplied_scalar.

(* ... and stay as supplied: over any history that neither deletes the handle nor frees the vnacal_t,
   vnacal_get_parameter_value of a live scalar or vector parameter does not change *)
Theorem c16_values_stable_while_live : forall ops s h p,
  Inv s -> st_freed s = false ->
  slot (st_pt s) h = Some p -> p_deleted p = false -> other_of (p_kind p) = None ->
  Forall (not_free_or_delete h) ops ->
  let s' := fst (run s ops) in
  st_freed s' = false /\ forall f, get_value (st_pt s') (Z.of_nat h) f = get_value (st_pt s) (Z.of_nat h) f.
Proof. exact value_stable_run. Qed.
Print Assumptions c16_values_stable_while_live.

(* partial: the interpolation of _vnacal_rfi is not modelled (a knot returns its value - the
   first test of that function); solved unknown parameters are an oracle of the model *)
Theorem c16_values_as_supplied_vector_partial : forall s fs gs fl s' z f i,
  Inv s -> st_freed s = false -> step s (OMakeVector fs gs fl) = (s', ok_int z) ->
  index_of f fs = Some i ->
  (99 * hd 0 fs <= 100 * f)%Z -> (100 * f <= 101 * last fs 0)%Z ->
  get_value (st_pt s') z f = mkOut (RValue (nth i gs (0, 0)%Z)) ENone 0.
Proof. exact values_as_supplied_vector_partial_l. Qed.
Print Assumptions c16_values_as_supplied_vector_partial.

Example c16_values_as_supplied_satisfiable :
  exists s', step st_initial (OMakeVector [1; 2; 3]%Z [(5, 6); (7, 8); (9, 10)]%Z 0) = (s', ok_int 3) /\
             get_value (st_pt s') 3 2 = mkOut (RValue (7, 8)%Z) ENone 0.
Proof. exact values_as_supplied_example. Qed.

(* vnacal_free (fix D42) never aborts from a state that satisfies the invariant *)
Theorem c16_free_never_aborts : forall s, st_freed s = false -> Inv s ->
  exists s', step s OFree = (s', mkOut (RInt 0) ENone 0) /\ st_freed s' = true.
Proof. exact (fun s Fr H => free_ok s Fr (proj1 (Inv_Good s Fr) H)). Qed.
Print Assumptions c16_free_never_aborts.

Theorem c16_free_before_fix_D42_refuted :
  exists s, s = fst (run st_initial d42_script) /\ o_ret (snd (step_asis s OFree)) = RFault.
Proof. exact free_asis_aborts_l. Qed.
Print Assumptions c16_free_before_fix_D42_refuted.

(* a failed parameter allocation (fix D11) keeps first_free at or below the least free slot;
   before the fix it did not *)
Theorem c16_alloc_failure_keeps_table : forall t k fl t',
  inv_table t -> alloc_param t k fl = AFail t' ->
  (forall j, slot t' j = slot t j) /\ inv_table t' /\ other_owners (pt_slots t') = other_owners (pt_slots t).
Proof. exact alloc_fail_spec. Qed.
Print Assumptions c16_alloc_failure_keeps_table.

Theorem c16_alloc_failure_before_fix_D11_refuted :
  exists t t', inv_table t /\ alloc_param_gen false t (KScalar (1, 1)%Z) 1 = AFail t' /\ ~ inv_table t'.
Proof. exact alloc_fail_asis_breaks_first_free_l. Qed.
Print Assumptions c16_alloc_failure_before_fix_D11_refuted.

(* a standard refused because one of its parameter handles is invalid leaves everything unchanged
   (fix D17; also a C11 clause) *)
Theorem c16_rejected_standard_unchanged : forall s id v hs ms,
  st_freed s = false -> get_new s id = Some v ->
  forallb (vn_check_param (S (length (pt_slots (st_pt s)))) (st_pt s) v) hs = false ->
  step s (OAddStd id hs ms) = (s, fail_usage).
Proof. exact rejected_standard_unchanged_l. Qed.
Print Assumptions c16_rejected_standard_unchanged.

Example c16_rejected_standard_satisfiable :
  let s := run_state held_script in
  exists v, get_new s 0 = Some v /\
  forallb (vn_check_param (S (length (pt_slots (st_pt s)))) (st_pt s) v) [3%Z; 9%Z] = false.
Proof. exact rejected_standard_example. Qed.
