(* Property C16: calibration and parameter handles stay valid, distinct and correctly indexed.
   Theorems only; every statement is about the executable model LV.CalTab.CalTabModel (tied to
   /repo/src/vnacal_*.c by the op-script correspondence of checks/C16.py on every run) and the
   specification LV.CalTab.TableSpec (finite maps, invariant, [acceptable], [ends_at], [touches_cals]).
   Lemmas: CalTab/CalTabProofs.v, CalTab/CalTabWalks.v.  Every implication is followed by an Example
   that instantiates ALL of its hypotheses on a concrete, reachable, non-trivial state. *)
Require Import List ZArith.
Import ListNotations.
Require Import LV.CalTab.CalTabModel LV.CalTab.TableSpec LV.CalTab.CalTabProofs LV.CalTab.CalTabWalks.

(* ------------------------------------------------------------------ the invariant *)
(* The invariant (count = occupied slots; first_free <= least free index; hold count =
   [not deleted] + number of referrers; occupied iff hold count > 0; nothing refers to an empty
   slot; the predefined parameters are in place; the [other] links are acyclic) holds after every
   operation sequence, and no operation - vnacal_free included - trips a MODELLED assertion or
   dereferences an empty slot.  The modelled assertions are five of vnacal_parameter.c,
     _vnacal_release_parameter:              assert(vpmrp->vpmr_hold_count > 0)
     _vnacal_release_parameter:              assert(vpmrp->vpmr_deleted)      (last reference gone)
     _vnacal_free_parameter:                 assert(vprmcp->vprmc_count >= 1)
     _vnacal_alloc_parameter:                assert(parameter < vprmcp->vprmc_allocation)  (scan past the vector)
     _vnacal_teardown_parameter_collection:  assert(vprmcp->vprmc_count == 0)
   plus "the slot named by a reference / by vpmr_other is not NULL" and "the walk over vpmr_other in
   release ends" (outcome RFault in each case).  Every other assertion of the C code (index/vcp
   consistency in _vnacal_get_parameter, the default: branches on the parameter type, vc_properties
   == NULL in vnacal_free, cal_name == NULL, the numeric solver) is outside the model. *)
Theorem c16_inv_reachable : forall ops,
  Inv (run_state ops) /\ forall x, In x (snd (run st_initial ops)) -> o_ret x <> RFault.
Proof. exact (fun ops => run_inv ops st_initial inv_initial). Qed.
Print Assumptions c16_inv_reachable.

Theorem c16_inv_step : forall s o, Inv s -> Inv (fst (step s o)) /\ o_ret (snd (step s o)) <> RFault.
Proof. exact (fun s o H => conj (step_inv s o H) (step_no_fault s o H)). Qed.
Print Assumptions c16_inv_step.

Example c16_inv_step_satisfiable :
  let s := run_state chain_script in
  Inv s /\ st_freed s = false /\ length (pt_slots (st_pt s)) = 8 /\
  (exists p, slot (st_pt s) 5 = Some p /\ other_of (p_kind p) = Some 4) /\
  (exists e, chain_end 9 (st_pt s) 5 = Some e /\ p_kind e = KVector [1; 2; 3]%Z [(5, 6); (7, 8); (9, 10)]%Z) /\
  chain_end 2 (st_pt s) 5 = None.
Proof. exact fuel_example. Qed.

(* The walks over vpmr_other terminate.  The model gives chain_end / frange / vn_check_param /
   vn_get_param a fuel of (number of slots + 1) where the C code has unbounded loops
   (_vnacal_get_parameter_frange, the while loop of vnacal_make_correlated_parameter, the recursion
   of _vnacal_new_get_parameter).  Under the invariant the fuel is never exhausted: every larger
   fuel gives the same result, and the walk from an occupied slot ends at a scalar / vector
   parameter, whose range frange returns.  (The fuel of [release] is covered by c16_inv_step: its
   exhaustion is reported as RFault.)  The second Example line above shows a state where fuel 2 is
   NOT enough for slot 5, so the statement is not vacuous. *)
Theorem c16_walks_terminate : forall s, Inv s -> st_freed s = false ->
  let t := st_pt s in let n := S (length (pt_slots t)) in
  (forall f, n <= f ->
    (forall h, chain_end f t h = chain_end n t h) /\
    (forall h, frange f t h = frange n t h) /\
    (forall v z, vn_check_param f t v z = vn_check_param n t v z) /\
    (forall v z, vn_get_param f t v z = vn_get_param n t v z)) /\
  (forall h p, slot t h = Some p ->
    exists e, chain_end n t h = Some e /\ other_of (p_kind e) = None /\ ends_at t h e /\
              frange n t h = range_of e).
Proof.
  exact (fun s HI Fr => conj (fuel_sufficient_l s HI Fr) (fun h p S => walk_total_l s h p HI Fr S)).
Qed.
Print Assumptions c16_walks_terminate.

(* ------------------------------------------------------------------ calibration indices *)
(* add returns the index at which find / get_name / get_type / get_rows / ... then see it *)
Theorem c16_add_returns_found_index : forall s id name s' z,
  step s (OAddCal id name) = (s', ok_int z) ->
  snd (step s' (OFind name)) = ok_int z /\
  exists v c, get_new s id = Some v /\ vn_cal v = Some c /\
    snd (step s' (OGetCal z)) =
    mkOut (RCal name (c_type c) (c_rows c) (c_cols c) (c_nf c) (c_fmin c) (c_fmax c)) ENone 0.
Proof. exact add_returns_found_index_l. Qed.
Print Assumptions c16_add_returns_found_index.

Example c16_add_returns_found_index_satisfiable :
  exists s', step (run_state d8_script) (OAddCal 0 2) = (s', ok_int 1).
Proof. exact add_returns_found_index_example. Qed.

(* the chosen index is the one the finite-map specification names, and the map changes there only
   (same hypothesis as the previous theorem: the Example above instantiates it) *)
Theorem c16_add_refines_spec : forall s id name s' z,
  step s (OAddCal id name) = (s', ok_int z) ->
  exists i c, z = Z.of_nat i /\ spec_add_index (cal_map s) name i /\ c_name c = name /\
    forall j, cal_map s' j = map_set (cal_map s) i (Some c) j.
Proof. exact add_refines_spec_l. Qed.
Print Assumptions c16_add_refines_spec.

(* FRAME: every operation other than add_calibration, delete_calibration, a property set on a
   calibration (ci <> -1) and vnacal_free leaves the calibration table exactly as it was -
   make/delete parameter, get_parameter_value, new_alloc, set_frequency_vector, add standard, solve
   (successful or not), find, get_*, end, global property set, property get, new_free. *)
Theorem c16_cals_frame_step : forall s o, touches_cals o = false ->
  st_cals (fst (step s o)) = st_cals s /\ st_freed (fst (step s o)) = st_freed s.
Proof. exact step_cals_frame. Qed.
Print Assumptions c16_cals_frame_step.

Theorem c16_cals_frame_history : forall ops s, Forall (fun o => touches_cals o = false) ops ->
  st_cals (fst (run s ops)) = st_cals s /\ st_freed (fst (run s ops)) = st_freed s.
Proof. exact run_cals_frame. Qed.
Print Assumptions c16_cals_frame_history.

(* ... hence the index returned by add is still honoured by find and get_* after any such history,
   and every calibration query (find, get_*, end, property get on a calibration) answers as before *)
Theorem c16_add_index_stable_along_history : forall s id name s' z ops,
  step s (OAddCal id name) = (s', ok_int z) ->
  Forall (fun o => touches_cals o = false) ops ->
  let s'' := fst (run s' ops) in
  st_cals s'' = st_cals s' /\
  snd (step s'' (OFind name)) = ok_int z /\
  (exists v c, get_new s id = Some v /\ vn_cal v = Some c /\
     snd (step s'' (OGetCal z)) =
     mkOut (RCal name (c_type c) (c_rows c) (c_cols c) (c_nf c) (c_fmin c) (c_fmax c)) ENone 0) /\
  forall q, cal_query q = true -> snd (step s'' q) = snd (step s' q).
Proof. exact add_index_stable_along_history_l. Qed.
Print Assumptions c16_add_index_stable_along_history.

(* twelve operations (make scalar / unknown, a second vnacal_new_t set up, solved and freed, global
   property, delete parameter, ...) that change the parameter table but not the calibration table *)
Example c16_add_index_stable_satisfiable :
  let s := run_state d8_script in
  let ops := [OMakeScalar (32, 0)%Z 0; OMakeUnknown 3 0; ONewAlloc 1 0 1 2; OSetFreq 1 5;
              OAddStd 1 [4%Z] [(1, 0); (2, 0)]%Z; OSolve 1 true; OPropSet (-1) 7; ODeleteParam 3;
              OGetValue 4 5; ONewFree 1; OFind 9; OEnd] in
  exists s', step s (OAddCal 0 2) = (s', ok_int 1) /\
             Forall (fun o => touches_cals o = false) ops /\
             st_pt (fst (run s' ops)) <> st_pt s' /\
             snd (step (fst (run s' ops)) (OFind 2)) = ok_int 1.
Proof. exact add_index_stable_example. Qed.

(* Stronger: histories that DO add, replace and delete OTHER calibrations and set properties.  As
   long as no operation deletes index i, re-adds the name, or frees the vnacal_t, the name is found
   at i and index i shows the same name / type / rows / columns / frequencies / fmin / fmax:
   delete and add never renumber (at_index s i c = not freed, find (c_name c) = i, slot i holds c up
   to its property root). *)
Theorem c16_index_stable_along_history : forall ops s i c,
  at_index s i c -> Forall (leaves_index i (c_name c)) ops ->
  let s' := fst (run s ops) in
  at_index s' i c /\
  snd (step s' (OFind (c_name c))) = ok_int (Z.of_nat i) /\
  snd (step s' (OGetCal (Z.of_nat i))) =
    mkOut (RCal (c_name c) (c_type c) (c_rows c) (c_cols c) (c_nf c) (c_fmin c) (c_fmax c)) ENone 0.
Proof. exact index_stable_along_history_l. Qed.
Print Assumptions c16_index_stable_along_history.

(* a successful add establishes at_index for the returned index *)
Theorem c16_add_establishes_index : forall s id name s' z,
  step s (OAddCal id name) = (s', ok_int z) ->
  exists i c, z = Z.of_nat i /\ c_name c = name /\ at_index s' i c /\
    exists v c0, get_new s id = Some v /\ vn_cal v = Some c0 /\
      c_type c = c_type c0 /\ c_rows c = c_rows c0 /\ c_cols c = c_cols c0 /\ c_nf c = c_nf c0 /\
      c_fmin c = c_fmin c0 /\ c_fmax c = c_fmax c0.
Proof. exact add_gives_at_index. Qed.
Print Assumptions c16_add_establishes_index.

Example c16_index_stable_satisfiable :
  let s := run_state two_cals_script in
  let c := mkCal 2 0 1 1 1 1 1 None in
  let ops := [OAddCal 0 3; OSolve 0 true; ODelCal 0; OAddCal 0 4; OSolve 0 true; OPropSet 1 9;
              OAddCal 0 3; OMakeScalar (32, 0)%Z 0] in
  at_index s 1 c /\ Forall (leaves_index 1 (c_name c)) ops /\
  st_cals (fst (run s ops)) <> st_cals s /\
  snd (step (fst (run s ops)) OEnd) = ok_int 3.
Proof. exact index_stable_example. Qed.

(* MODEL VARIANT, not the current code: [step_asis] is a hand-written variant of the model that
   keeps three repaired defects (D08: add returned 0; D11: first_free stayed advanced after a failed
   allocation; D42: teardown order).  It is tied to nothing (the correspondence runs [step] only);
   the three theorems below are records of the findings: on the variant the statement above fails. *)
Theorem c16_model_variant_before_fix_D08_add_index_refuted :
  exists s name s' z, step_asis s (OAddCal 0 name) = (s', ok_int z) /\
                      snd (step_asis s' (OFind name)) <> ok_int z.
Proof. exact add_index_asis_refuted_l. Qed.
Print Assumptions c16_model_variant_before_fix_D08_add_index_refuted.

Theorem c16_add_existing_name_replaces : forall s id name i s' out,
  st_freed s = false -> find_name (st_cals s) name = Some i ->
  step s (OAddCal id name) = (s', out) -> o_err out = ENone -> o_ret out <> RNoSuch ->
  o_ret out = RInt (Z.of_nat i) /\
  length (st_cals s') = length (st_cals s) /\
  (forall j, j <> i -> nth j (st_cals s') None = nth j (st_cals s) None) /\
  (exists c, nth i (st_cals s') None = Some c /\ c_name c = name).
Proof. exact add_existing_name_replaces_l. Qed.
Print Assumptions c16_add_existing_name_replaces.

Example c16_add_existing_name_satisfiable :
  let s := run_state d8_script in
  st_freed s = false /\ find_name (st_cals s) 1 = Some 0 /\
  exists s', step s (OAddCal 0 1) = (s', ok_int 0) /\ o_err (ok_int 0) = ENone /\ o_ret (ok_int 0) <> RNoSuch.
Proof. exact add_existing_name_full_example. Qed.

(* delete empties exactly one slot, without renumbering the others *)
Theorem c16_delete_one_slot : forall s ci s',
  step s (ODelCal ci) = (s', ok_int 0) ->
  (0 <= ci)%Z /\ nth (Z.to_nat ci) (st_cals s) None <> None /\
  nth (Z.to_nat ci) (st_cals s') None = None /\
  length (st_cals s') = length (st_cals s) /\
  (forall j, j <> Z.to_nat ci -> nth j (st_cals s') None = nth j (st_cals s) None) /\
  st_pt s' = st_pt s /\ st_news s' = st_news s /\ st_gprop s' = st_gprop s.
Proof. exact delete_one_slot_l. Qed.
Print Assumptions c16_delete_one_slot.

Example c16_delete_one_slot_satisfiable :
  let s := fst (step (run_state d8_script) (OAddCal 0 2)) in
  exists s', step s (ODelCal 0) = (s', ok_int 0) /\ snd (step s' OEnd) = ok_int 2.
Proof. exact delete_one_slot_example. Qed.

Theorem c16_delete_refused_unchanged : forall s ci s' out,
  step s (ODelCal ci) = (s', out) -> o_ret out <> RInt 0 -> s' = s /\ o_cb out = 0.
Proof. exact delete_refused_unchanged. Qed.
Print Assumptions c16_delete_refused_unchanged.

Example c16_delete_refused_satisfiable :
  exists s' out, step (run_state two_cals_script) (ODelCal 5) = (s', out) /\ o_ret out <> RInt 0 /\ o_err out = ENOENT.
Proof. exact delete_refused_example. Qed.

(* get_calibration_end is one past the highest live index *)
Theorem c16_end_is_max_plus_one : forall s s' out,
  st_freed s = false -> step s OEnd = (s', out) ->
  s' = s /\ exists e, out = ok_int (Z.of_nat e) /\
  (forall j, e <= j -> cal_map s j = None) /\ (0 < e -> cal_map s (e - 1) <> None).
Proof. exact end_is_max_plus_one_l. Qed.
Print Assumptions c16_end_is_max_plus_one.

(* index 0 deleted, index 1 live: end = 2 *)
Example c16_end_satisfiable :
  let s := fst (step (run_state two_cals_script) (ODelCal 0)) in
  st_freed s = false /\ step s OEnd = (s, ok_int 2) /\ cal_map s 0 = None /\ cal_map s 1 <> None.
Proof. exact end_example. Qed.

(* global and per-calibration properties are separate (a property root is abstracted to one
   optional integer in the model: see docs/design_C16.md, "tested only") *)
Theorem c16_properties_separate : forall s ci tok s' out,
  step s (OPropSet ci tok) = (s', out) -> o_err out = ENone -> o_ret out = RInt 0 ->
  (ci = (-1)%Z -> st_cals s' = st_cals s /\ st_gprop s' = Some tok) /\
  (ci <> (-1)%Z ->
     st_gprop s' = st_gprop s /\ (0 <= ci)%Z /\
     (forall j, j <> Z.to_nat ci -> nth j (st_cals s') None = nth j (st_cals s) None) /\
     exists c, nth (Z.to_nat ci) (st_cals s) None = Some c /\
               nth (Z.to_nat ci) (st_cals s') None = Some (set_prop c (Some tok))).
Proof. exact properties_separate_l. Qed.
Print Assumptions c16_properties_separate.

Example c16_properties_satisfiable :
  let s := run_state two_cals_script in
  (exists s', step s (OPropSet (-1) 7) = (s', ok_int 0) /\ snd (step s' (OPropGet 0)) = mkOut (RTok None) ENOENT 0) /\
  (exists s', step s (OPropSet 1 8) = (s', ok_int 0) /\ snd (step s' (OPropGet (-1))) = mkOut (RTok None) ENOENT 0 /\
              snd (step s' (OPropGet 0)) = mkOut (RTok None) ENOENT 0 /\
              snd (step s' (OPropGet 1)) = mkOut (RTok (Some 8%Z)) ENone 0).
Proof. exact properties_example. Qed.

(* ------------------------------------------------------------------ parameter handles *)
(* parameter handles are unique while live (or merely held) *)
Theorem c16_handles_unique_while_live : forall s o s' z,
  Inv s -> st_freed s = false -> is_make o = true ->
  step s o = (s', ok_int z) -> (3 <= z)%Z ->
  param_map s (Z.to_nat z) = None /\ live s' (Z.to_nat z) /\
  forall j p, param_map s j = Some p ->
    j <> Z.to_nat z /\ exists p', param_map s' j = Some p' /\ p_kind p' = p_kind p /\ p_deleted p' = p_deleted p.
Proof. exact handles_unique_while_live_l. Qed.
Print Assumptions c16_handles_unique_while_live.

Example c16_handles_unique_satisfiable :
  let s := run_state held_script in
  Inv s /\ st_freed s = false /\ is_make (OMakeUnknown 3 0) = true /\
  exists s', step s (OMakeUnknown 3 0) = (s', ok_int 4) /\ (3 <= 4)%Z.
Proof. exact handles_unique_full_example. Qed.

(* the predefined match / open / short handles are permanent *)
Theorem c16_predefined_permanent : forall ops,
  let s := run_state ops in
  st_freed s = false ->
  (forall f, get_value (st_pt s) 0 f = mkOut (RValue (0, 0)%Z) ENone 0) /\
  (forall f, get_value (st_pt s) 1 f = mkOut (RValue (64, 0)%Z) ENone 0) /\
  (forall f, get_value (st_pt s) 2 f = mkOut (RValue (-64, 0)%Z) ENone 0) /\
  (forall h, (0 <= h < 3)%Z -> step s (ODeleteParam h) = (s, ok_int 0)).
Proof. exact predefined_permanent_l. Qed.
Print Assumptions c16_predefined_permanent.

Example c16_predefined_satisfiable :
  st_freed (run_state chain_script) = false /\ run_state chain_script <> st_initial.
Proof. exact predefined_example. Qed.

(* a handle deleted while a vnacal_new_t uses it keeps working there *)
Theorem c16_deleted_while_held_still_works : forall s h n p id v,
  Inv s -> st_freed s = false ->
  get_param (st_pt s) h = Some (n, p) -> (3 <= h)%Z ->
  get_new s id = Some v -> In n (vn_params v) ->
  exists s' k,
    step s (ODeleteParam h) = (s', ok_int 0) /\
    param_map s' n = Some (mkParam (p_kind p) true k) /\ 0 < k /\
    st_news s' = st_news s /\
    get_param (st_pt s') h = None /\
    (forall ms, exists s'', step s' (OAddStd id [h] ms) = (s'', ok_int 0) /\ st_pt s'' = st_pt s').
Proof. exact deleted_while_held_still_works_l. Qed.
Print Assumptions c16_deleted_while_held_still_works.

Example c16_deleted_while_held_satisfiable :
  let s := run_state held_script in
  Inv s /\ st_freed s = false /\ (exists p, get_param (st_pt s) 3 = Some (3, p)) /\ (3 <= 3)%Z /\
  (exists v, get_new s 0 = Some v /\ In 3 (vn_params v)).
Proof. exact deleted_while_held_full_example. Qed.

(* ------------------------------------------------------------------ which handles a standard may name *)
(* Specification (TableSpec.acceptable): a handle is acceptable for vnacal_new_t v iff v already
   holds it, or the user can see it (non-negative, occupied, not deleted), its chain of [other] links
   ends at a parameter covering the frequency range of v (once the frequency vector is set) and - if
   it is a correlated parameter - the parameter it is correlated with is acceptable.
   (fix D17; also a C11 clause)  A standard naming a handle that is NOT acceptable is refused with
   EINVAL and one callback and leaves the whole state unchanged: no parameter of the other cells has
   been registered, no reference taken.  The hypothesis is the specification, not the model's test:
   the link is CalTabWalks.check_acceptable (the validation pass accepts only acceptable handles),
   which needs the invariant (termination of the range walk). *)
Theorem c16_rejected_standard_unchanged : forall s id v hs ms,
  Inv s -> st_freed s = false -> get_new s id = Some v ->
  (exists h, In h hs /\ ~ acceptable (st_pt s) v h) ->
  step s (OAddStd id hs ms) = (s, fail_usage).
Proof. exact rejected_standard_unchanged_l. Qed.
Print Assumptions c16_rejected_standard_unchanged.

(* the simplest way of not being acceptable: neither held by the vnacal_new_t nor visible *)
Theorem c16_unheld_invisible_not_acceptable : forall t v h,
  ~ ((0 <= h)%Z /\ In (Z.to_nat h) (vn_params v)) -> get_param t h = None -> ~ acceptable t v h.
Proof. exact unheld_invisible_not_acceptable. Qed.
Print Assumptions c16_unheld_invisible_not_acceptable.

(* [3; 9]: handle 3 is held (acceptable), handle 9 is neither held nor visible *)
Example c16_rejected_standard_satisfiable :
  let s := run_state held_script in
  Inv s /\ st_freed s = false /\
  exists v, get_new s 0 = Some v /\ (exists h, In h [3%Z; 9%Z] /\ ~ acceptable (st_pt s) v h) /\
            acceptable (st_pt s) v 3.
Proof. exact rejected_standard_example. Qed.

(* [0; 3]: handle 3 is a visible vector parameter over 1..3, the vnacal_new_t runs from 1 to 10 *)
Example c16_rejected_standard_out_of_range_satisfiable :
  let s := run_state range_script in
  Inv s /\ st_freed s = false /\
  exists v, get_new s 0 = Some v /\ (exists h, In h [0%Z; 3%Z] /\ ~ acceptable (st_pt s) v h) /\
            get_param (st_pt s) 3 <> None.
Proof. exact rejected_standard_out_of_range_example. Qed.

(* the converse: when every handle is acceptable the standard is added - the validation pass
   accepts (CalTabWalks.acceptable_check) and the registration pass cannot fail afterwards
   (check_all_then_get_all): return 0, the measurement is appended, the parameter set only grows, the
   calibration table and the other vnacal_new_t are untouched, the parameter table changes in hold
   counts only (HR: same length, same kind and deleted flag in every slot) *)
Theorem c16_acceptable_standard_added : forall s id v hs ms,
  Inv s -> st_freed s = false -> get_new s id = Some v ->
  (forall h, In h hs -> acceptable (st_pt s) v h) ->
  exists s' v', step s (OAddStd id hs ms) = (s', ok_int 0) /\
    get_new s' id = Some v' /\ vn_meas v' = vn_meas v ++ [mkMeas (map Z.to_nat hs) ms] /\
    incl (vn_params v) (vn_params v') /\
    st_cals s' = st_cals s /\ (forall j, j <> id -> get_new s' j = get_new s j) /\
    HR (st_pt s) (st_pt s').
Proof. exact accepted_standard_l. Qed.
Print Assumptions c16_acceptable_standard_added.

(* handle 5 = correlated -> unknown 4 -> vector 3 over 1..3; the vnacal_new_t runs over 1..3 and
   holds none of them yet *)
Example c16_acceptable_standard_satisfiable :
  let s := run_state chain_script in
  Inv s /\ st_freed s = false /\
  exists v, get_new s 0 = Some v /\ (forall h, In h [5%Z] -> acceptable (st_pt s) v h) /\
            ~ In 5 (vn_params v) /\
            exists s', step s (OAddStd 0 [5%Z] [(1, 0); (2, 0); (3, 0)]%Z) = (s', ok_int 0).
Proof. exact accepted_standard_example. Qed.

(* ------------------------------------------------------------------ values *)
(* values are returned as supplied *)
Theorem c16_values_as_supplied_scalar : forall s g fl s' z,
  Inv s -> st_freed s = false -> step s (OMakeScalar g fl) = (s', ok_int z) ->
  forall f, get_value (st_pt s') z f = mkOut (RValue g) ENone 0.
Proof. exact values_as_supplied_scalar_l. Qed.
Print Assumptions c16_values_as_supplied_scalar.

Example c16_values_as_supplied_scalar_satisfiable :
  let s := run_state held_script in
  Inv s /\ st_freed s = false /\
  exists s', step s (OMakeScalar (5, 7)%Z 0) = (s', ok_int 4) /\
             get_value (st_pt s') 4 123 = mkOut (RValue (5, 7)%Z) ENone 0.
Proof. exact scalar_value_example. Qed.

(* ... and stay as supplied: over any history that neither deletes the handle nor frees the vnacal_t,
   vnacal_get_parameter_value of a live scalar or vector parameter does not change *)
Theorem c16_values_stable_while_live : forall ops s h p,
  Inv s -> st_freed s = false ->
  slot (st_pt s) h = Some p -> p_deleted p = false -> other_of (p_kind p) = None ->
  Forall (not_free_or_delete h) ops ->
  let s' := fst (run s ops) in
  st_freed s' = false /\ forall f, get_value (st_pt s') (Z.of_nat h) f = get_value (st_pt s) (Z.of_nat h) f.
Proof. exact value_stable_run. Qed.
Print Assumptions c16_values_stable_while_live.

Example c16_values_stable_satisfiable :
  let s := run_state chain_script in
  let ops := [OAddStd 0 [5%Z] [(1, 0); (2, 0); (3, 0)]%Z; OSolve 0 true; OAddCal 0 1; ODeleteParam 5;
              OMakeScalar (9, 9)%Z 0; ONewFree 0; ODeleteParam 4] in
  Inv s /\ st_freed s = false /\
  (exists p, slot (st_pt s) 3 = Some p /\ p_deleted p = false /\ other_of (p_kind p) = None) /\
  Forall (not_free_or_delete 3) ops /\
  st_pt (fst (run s ops)) <> st_pt s /\
  get_value (st_pt (fst (run s ops))) 3 2 = mkOut (RValue (7, 8)%Z) ENone 0.
Proof. exact values_stable_example. Qed.

(* A vector parameter asked at the i-th supplied frequency returns the i-th supplied value.
   No default value is involved: the C function takes ONE count for both arrays and copies that many
   gamma entries, so a caller array shorter than the frequency vector is a caller error the code
   cannot detect; the model answers RUndef there (c16_make_vector_short_gamma_out_of_model) and
   makes no prediction, and a successful make_vector implies that the i-th gamma entry exists.  A
   supplied frequency always passes the range test of vnacal_get_parameter_value (proved from the
   ascending / non-negative checks), so there is no range premise.
   "at_knots": the rational-function interpolation between supplied frequencies is not modelled
   (the model answers RInterp there); that a knot returns its own value is the first test of
   _vnacal_rfi, a fact about the C code that only the correspondence checks. *)
Theorem c16_values_as_supplied_vector_at_knots : forall s fs gs fl s' z f i,
  Inv s -> st_freed s = false -> step s (OMakeVector fs gs fl) = (s', ok_int z) ->
  index_of f fs = Some i ->
  exists g, nth_error gs i = Some g /\ get_value (st_pt s') z f = mkOut (RValue g) ENone 0.
Proof. exact values_as_supplied_vector_l. Qed.
Print Assumptions c16_values_as_supplied_vector_at_knots.

Example c16_values_as_supplied_satisfiable :
  exists s', step st_initial (OMakeVector [1; 2; 3]%Z [(5, 6); (7, 8); (9, 10)]%Z 0) = (s', ok_int 3) /\
             get_value (st_pt s') 3 2 = mkOut (RValue (7, 8)%Z) ENone 0.
Proof. exact values_as_supplied_example. Qed.

Theorem c16_make_vector_short_gamma_out_of_model : forall s f0 fs gs fl,
  st_freed s = false -> (0 <= f0)%Z -> ascending (f0 :: fs) = true -> length gs < length (f0 :: fs) ->
  step s (OMakeVector (f0 :: fs) gs fl) = (s, mkOut RUndef ENone 0).
Proof. exact make_vector_short_gamma_undefined. Qed.
Print Assumptions c16_make_vector_short_gamma_out_of_model.

Example c16_make_vector_short_gamma_satisfiable :
  step st_initial (OMakeVector [1; 2; 3]%Z [(5, 6)]%Z 0) = (st_initial, mkOut RUndef ENone 0).
Proof. exact short_gamma_example. Qed.

(* ------------------------------------------------------------------ vnacal_free, allocation failure *)
(* vnacal_free (fix D42) never trips a modelled assertion from a state that satisfies the invariant -
   the final assert(vprmc_count == 0) of _vnacal_teardown_parameter_collection included: every
   parameter has been released (this needs the acyclicity of the [other] links: a cycle would keep
   its members alive) - and nothing is left in either table *)
Theorem c16_free_never_aborts : forall s, st_freed s = false -> Inv s ->
  exists s', step s OFree = (s', mkOut (RInt 0) ENone 0) /\ st_freed s' = true /\
             pt_count (st_pt s') = 0 /\ (forall h, slot (st_pt s') h = None) /\ st_cals s' = [].
Proof. exact (fun s Fr H => free_ok s Fr (proj1 (Inv_Good s Fr) H)). Qed.
Print Assumptions c16_free_never_aborts.

Example c16_free_satisfiable :
  let s := run_state chain_script in
  Inv s /\ st_freed s = false /\ exists s', step s OFree = (s', mkOut (RInt 0) ENone 0).
Proof. exact free_example. Qed.

(* model variant (see above): the teardown order of the code before fix D42 *)
Theorem c16_model_variant_before_fix_D42_free_aborts :
  exists s, s = fst (run st_initial d42_script) /\ o_ret (snd (step_asis s OFree)) = RFault.
Proof. exact free_asis_aborts_l. Qed.
Print Assumptions c16_model_variant_before_fix_D42_free_aborts.

(* a failed parameter allocation (fix D11) keeps first_free at or below the least free slot *)
Theorem c16_alloc_failure_keeps_table : forall t k fl t',
  inv_table t -> alloc_param t k fl = AFail t' ->
  (forall j, slot t' j = slot t j) /\ inv_table t' /\ other_owners (pt_slots t') = other_owners (pt_slots t).
Proof. exact alloc_fail_spec. Qed.
Print Assumptions c16_alloc_failure_keeps_table.

Example c16_alloc_failure_satisfiable :
  let t := st_pt (run_state [OMakeScalar (32, 0)%Z 0]) in
  inv_table t /\ exists t', alloc_param t (KScalar (1, 1)%Z) 1 = AFail t' /\ pt_first_free t' = 4.
Proof. exact alloc_failure_example. Qed.

(* model variant (see above): before fix D11 first_free stayed advanced.  The witness is a REACHABLE
   table: the one after a single make_scalar (8 slots, 4 used, first_free 3). *)
Theorem c16_model_variant_before_fix_D11_alloc_failure_breaks_first_free :
  let t := st_pt (run_state [OMakeScalar (32, 0)%Z 0]) in
  inv_table t /\ exists t', alloc_param_gen false t (KScalar (1, 1)%Z) 1 = AFail t' /\ ~ inv_table t'.
Proof. exact alloc_fail_variant_breaks_first_free_l. Qed.
Print Assumptions c16_model_variant_before_fix_D11_alloc_failure_breaks_first_free.

(* ------------------------------------------------------------------ session 5: the parameter table of a vnacal_new_t *)
(* Duplicate-freedom of vn_parameter_hash (the model's list vn_params) is now part of the PROVED
   invariant: InvP s = Inv s /\ (not freed -> every live vnacal_new_t has NoDup vn_params).  It holds in
   every reachable state (all op lists, unbounded) and no modelled assertion fails on the way; the
   argument uses the acyclicity of the [other] links (a correlated parameter cannot be registered by the
   recursion over its own correlate).  Lemmas: CalTab/CalTabParams.v. *)
Require Import LV.CalTab.CalTabParams.

Theorem c16_invp_reachable : forall ops,
  InvP (run_state ops) /\ forall x, In x (snd (run st_initial ops)) -> o_ret x <> RFault.
Proof. exact (fun ops => run_invp ops st_initial invp_initial). Qed.
Print Assumptions c16_invp_reachable.

Theorem c16_invp_step : forall s o, InvP s -> InvP (fst (step s o)).
Proof. exact step_invp. Qed.
Print Assumptions c16_invp_step.

(* _vnacal_new_get_parameter / the loop of _vnacal_new_add_common keep a duplicate-free table duplicate
   free, from ANY table whose [other] links are acyclic (not only reachable ones) *)
Theorem c16_get_parameters_keep_nodup : forall rank hs t v t1 v1 ok,
  acyc_by rank t -> vn_get_params t v hs = (t1, v1, ok) -> NoDup (vn_params v) -> NoDup (vn_params v1).
Proof. exact vn_get_params_nodup. Qed.
Print Assumptions c16_get_parameters_keep_nodup.

(* consequence: one vnacal_new_t contributes at most ONE reference to the hold count of a parameter *)
Theorem c16_held_once : forall s id v h, params_nodup s -> st_freed s = false -> get_new s id = Some v ->
  cnt (vn_params v) h <= 1.
Proof. exact held_once. Qed.
Print Assumptions c16_held_once.

(* the run-time test of the driver (inv_b: nodup_b) decides exactly NoDup *)
Theorem c16_nodup_b_correct : forall l, nodup_b l = true <-> NoDup l.
Proof. exact nodup_b_NoDup. Qed.
Print Assumptions c16_nodup_b_correct.

(* non-trivial instance: a standard naming the correlated handle 5 twice and the unknown 4 once registers
   each of them once (vn_params = [0; 4; 5]) *)
Example c16_params_nodup_satisfiable :
  let s := run_state nodup_script in
  st_freed s = false /\
  exists v, get_new s 0 = Some v /\ vn_params v = [0; 4; 5] /\ NoDup (vn_params v) /\ length (vn_meas v) = 1.
Proof. exact nodup_example. Qed.

(* ------------------------------------------------------------------ session 5b: zero frequency points, vector values everywhere *)
(* vnacal_new_alloc accepts frequencies = 0 (as coded): vnacal_new_set_frequency_vector then reads no
   element and succeeds for every start value, the range tests of add_* are guarded by
   vn_frequencies_valid && vn_frequencies > 0 (vn_ranged; TableSpec.in_range), vnacal_new_solve has
   nothing to solve and succeeds, a solved unknown is left without a value, the calibration has no
   fmin / fmax.  All theorems above are about this model. *)
(* What follows for a vnacal_new_t without frequency points (the three one-step facts - set_frequency_vector
   accepts every start value, in_range holds for every parameter, solve answers 0 for every oracle bit - are
   unfoldings of the model, lemmas zero_points_setfreq / _in_range / _solve of CalTab/CalTabParams.v, and are
   tied by the directed scenario zero_frequencies; the theorems here are their consequences):
   a standard naming ANY visible scalar / vector / unknown handles (whatever frequency ranges the vector
   parameters cover) or handles already held is ADDED - validation pass and registration of every cell, through
   the specification [acceptable] and c16_acceptable_standard_added - before and after set_frequency_vector. *)
Theorem c16_zero_points_any_range_accepted : forall s id v hs ms,
  Inv s -> st_freed s = false -> get_new s id = Some v -> vn_nf v = 0 ->
  (forall h, In h hs -> ((0 <= h)%Z /\ In (Z.to_nat h) (vn_params v)) \/
                        exists n p, get_param (st_pt s) h = Some (n, p) /\ forall o sf sv, p_kind p <> KCorrelated o sf sv) ->
  exists s' v', step s (OAddStd id hs ms) = (s', ok_int 0) /\ get_new s' id = Some v' /\
                vn_meas v' = vn_meas v ++ [mkMeas (map Z.to_nat hs) ms].
Proof. exact zero_points_standard_added. Qed.
Print Assumptions c16_zero_points_any_range_accepted.

(* the calibration solved by a zero-point vnacal_new_t has no frequency range: cal_frange = None, which is
   what the driver prints and the harness accepts only when BOTH vnacal_get_fmin and vnacal_get_fmax answer
   HUGE_VAL with errno EINVAL *)
Theorem c16_zero_points_calibration_no_range : forall s id v b s' out,
  st_freed s = false -> get_new s id = Some v -> vn_nf v = 0 -> vn_fvalid v = true ->
  step s (OSolve id b) = (s', out) ->
  exists v' c, get_new s' id = Some v' /\ vn_cal v' = Some c /\ cal_frange c = None.
Proof. exact zero_points_calibration_no_range. Qed.
Print Assumptions c16_zero_points_calibration_no_range.

(* reachable instance of ALL the hypotheses: after `mkv 5 6; nalloc nf=0; setf -5` the vnacal_new_t has
   vn_nf = 0 AND vn_fvalid = true (f0 = -5), handle 3 is a visible vector over 5..6; the whole script answers
   0 everywhere and the calibration it adds has no range *)
Example c16_zero_points_satisfiable :
  map o_ret (snd (run st_initial zero_script))
  = [RInt 3; RPtr true; RInt 0; RInt 0; RInt 0; RInt 0; RCal 1 0 1 1 0 (-5) (-6)] /\
  (let s := run_state (firstn 3 zero_script) in
   Inv s /\ st_freed s = false /\
   exists v, get_new s 0 = Some v /\ vn_nf v = 0 /\ vn_fvalid v = true /\ vn_f0 v = (-5)%Z /\
             exists n p, get_param (st_pt s) 3 = Some (n, p) /\ p_kind p = KVector [5; 6]%Z [(10, 0); (20, 0)]%Z) /\
  (exists c, nth 0 (st_cals (run_state zero_script)) None = Some c /\ c_nf c = 0%Z /\ cal_frange c = None).
Proof. exact zero_example. Qed.

(* c16_values_vector: the value of a vector parameter at every INTEGER frequency of its extrapolation band,
   for the numbers of the C16 model: integer knot frequencies, values that are multiples of 1/64 (exact
   rationals).  Non-integer query frequencies and arbitrary binary64 values are property C10's (rfi model over
   Q / qi, stated there for all rationals); the floating-point rounding of _vnacal_rfi is in neither.
   get_value_q (CalTab/CalTabVectorModel.v) = _vnacal_rfi of property C10 (Interp/RfiModel.v, imported)
   over the supplied points with order min(n, VNACAL_MAX_M), EPS and the cut-off as regenerated from the
   C text.  For the handle z a successful make_vector returns and every f inside the band:
   the value v exists (the rfi model neither faults nor fails an assert), is the same for every cached
   segment (hint), equals the supplied value when f is a supplied frequency (where the integer model
   answers RValue), and is what the integer model's RInterp stands for between supplied frequencies
   (the tie compares exactly this number with the library's double). *)
Require Import LV.Base.QcI LV.CalTab.CalTabVectorModel LV.CalTab.CalTabVector.
Theorem c16_values_vector : forall s fs gs fl s' z f,
  Inv s -> st_freed s = false -> step s (OMakeVector fs gs fl) = (s', ok_int z) ->
  out_of_band fs f = false ->
  exists v, get_value_q (st_pt s') z f = Some v /\
            (forall hint, interp_value_hint hint fs (firstn (length fs) gs) f = Some v) /\
            (forall i, index_of f fs = Some i ->
               exists g, nth_error gs i = Some g /\ v = qval g /\ get_value (st_pt s') z f = mkOut (RValue g) ENone 0) /\
            (index_of f fs = None -> get_value (st_pt s') z f = mkOut RInterp ENone 0).
Proof. exact values_vector_l. Qed.
Print Assumptions c16_values_vector.

(* ... and the number survives every history that neither deletes the handle nor frees the vnacal_t (for an
   off-knot frequency c16_values_stable_while_live only says RInterp = RInterp) *)
Theorem c16_values_q_stable_while_live : forall ops s h p,
  Inv s -> st_freed s = false ->
  slot (st_pt s) h = Some p -> p_deleted p = false -> other_of (p_kind p) = None ->
  Forall (not_free_or_delete h) ops ->
  let s' := fst (run s ops) in
  forall f, get_value_q (st_pt s') (Z.of_nat h) f = get_value_q (st_pt s) (Z.of_nat h) f.
Proof. exact value_q_stable_run. Qed.
Print Assumptions c16_values_q_stable_while_live.

Example c16_values_vector_satisfiable :
  exists s', step st_initial (OMakeVector [1; 3; 6]%Z [(64, 0); (32, 0); (16, 64)]%Z 0) = (s', ok_int 3) /\
             out_of_band [1; 3; 6] 2 = false /\ index_of 2 [1; 3; 6] = None /\
             get_value (st_pt s') 3 2 = mkOut RInterp ENone 0 /\
             (exists v, get_value_q (st_pt s') 3 2 = Some v) /\
             get_value_q (st_pt s') 3 3 = Some (qval (32, 0)).
Proof. exact values_vector_example. Qed.

(* SCOPE (review round 2, MEDIUM 1, done in the last box): correlated parameters with their OWN sigma frequency
   grid are in the model (KCorrelated o sf sv; OMakeCorrelated h n sf: with one sigma value the grid is ignored;
   NULL needs a vector initial guess of n points; an own grid must be non-negative, strictly ascending and not
   disjoint with a vector initial guess - fix DC93's NaN / inf refusals and the spline's MIN_DX test cannot be
   expressed / cannot fail on integers; a caller array shorter than the count is RUndef) and in the specification:
   TableSpec.in_range clamps the range of the chain end with the grid of the parameter asked about (not of the
   parameters below it), as _vnacal_get_parameter_frange does.  c16_rejected_standard_unchanged,
   c16_acceptable_standard_added, c16_unheld_invisible_not_acceptable, c16_deleted_while_held_still_works,
   c16_zero_points_any_range_accepted and the walk theorems above are proved for THIS model and specification. *)
Require Import LV.Interp.FrangeBase LV.Gen.RangeGen LV.CalTab.CalTabSigma.

(* the clamp of the model is C10's regenerated frange_clamp on the first and last entry of the grid *)
Theorem c16_sigma_clamp_is_c10_clamp : forall fs r,
  xrange (clamp_range (Some fs) r) = frange_clamp (xz (hd 0%Z fs)) (xz (last fs 0%Z)) (fst (xrange r)) (snd (xrange r)).
Proof. exact clamp_range_is_frange_clamp. Qed.
Print Assumptions c16_sigma_clamp_is_c10_clamp.

(* reachable instance (the review's reproducer): vector over 1..5, unknown on it, correlated 5 with the own grid
   2 3 4, correlated 6 with NULL: a vnacal_new_t over 1..5 refuses 5 with the whole state unchanged and adds 6, one
   over 2..4 adds 5; disjoint / negative / not ascending grids are refused by make_correlated *)
Example c16_sigma_grid_satisfiable :
  let s := run_state sigma_script in
  Inv s /\ st_freed s = false /\
  sigma_at (st_pt s) 5 = Some [2; 3; 4]%Z /\ sigma_at (st_pt s) 6 = None /\
  frange_c (S (length (pt_slots (st_pt s)))) (st_pt s) 5 = Some (2, 4)%Z /\
  frange_c (S (length (pt_slots (st_pt s)))) (st_pt s) 6 = Some (1, 5)%Z /\
  step s (OAddStd 0 [5%Z] [(1, 1); (1, 1); (1, 1); (1, 1); (1, 1)]%Z) = (s, fail_usage) /\
  (exists s', step s (OAddStd 0 [6%Z] [(1, 1); (1, 1); (1, 1); (1, 1); (1, 1)]%Z) = (s', ok_int 0)) /\
  (exists s', step s (OAddStd 1 [5%Z] [(1, 1); (1, 1); (1, 1)]%Z) = (s', ok_int 0)) /\
  step s (OMakeCorrelated 4 2 (Some [6; 9]%Z) 0) = (s, fail_usage) /\
  step s (OMakeCorrelated 4 2 (Some [-1; 3]%Z) 0) = (s, fail_usage) /\
  step s (OMakeCorrelated 4 2 (Some [3; 3]%Z) 0) = (s, fail_usage).
Proof. exact sigma_example. Qed.
