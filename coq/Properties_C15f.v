(* Properties C15 / C06 / C11, the parameter-format language of vnadata: theorems only.
   Every statement is about the executable model LV.Data.FormatModel of vnadata_set_format /
   parse_format, _vnadata_update_format_string, _vnadata_format_to_name, _vnadata_set_simple_format and
   vnadata_get_format as coded, tied to the library by checks/c15_format.py on every run (exhaustive
   enumeration of short strings, decorated valid lists, mutations, injected allocation failures; result,
   message class, canonical string, descriptor vector, live blocks compared exactly).
   [sgn] selects the comparison of the copy loop (`*cp > 0x7e` on a signed char, or on unsigned char after
   fix DN90); every theorem holds for both.  Strings are lists of N; all byte strings are among them.
   The grammars [man_list] (the table of vnadata(3), white space allowed around a specifier) and
   [code_list] (what the code accepts) are the Inductive predicates of FormatModel.v. *)
Require Import List NArith Bool.
Import ListNotations.
Require Import LV.Files.NpdScan LV.Data.FormatModel LV.Data.FormatProofs.
Local Open Scope N_scope.

(* ---- print_parse: the printed form of every descriptor vector the parser can produce parses back
   to that vector (for ALL non-empty lists of producible descriptors). *)
Theorem c15f_print_parse : forall sgn ds, Forall (fun e => producible e = true) ds -> ds <> [] ->
  exists b, print ds = PStr b /\ parse sgn b = POk ds.
Proof. exact print_parse. Qed.
Print Assumptions c15f_print_parse.

(* ... and that is exactly what the parser produces: a non-empty vector of producible descriptors *)
Theorem c15f_parse_produces : forall sgn s ds, parse sgn s = POk ds ->
  ds <> [] /\ Forall (fun e => producible e = true) ds.
Proof. exact parse_ok_producible. Qed.
Print Assumptions c15f_parse_produces.

(* ---- parse_print_canonical: for ALL byte strings the parser accepts, the printed form b is accepted,
   denotes the same vector, and is a fixed point of the canonicalisation. *)
Theorem c15f_parse_print_canonical : forall sgn s ds, parse sgn s = POk ds ->
  exists b, print ds = PStr b /\ parse sgn b = POk ds /\ canon sgn s = Some b /\ canon sgn b = Some b.
Proof. exact parse_print_canonical. Qed.
Print Assumptions c15f_parse_print_canonical.

Theorem c15f_canon_idempotent : forall sgn s b, canon sgn s = Some b -> canon sgn b = Some b.
Proof. exact canon_idem. Qed.
Print Assumptions c15f_canon_idempotent.

(* case and spacing, exactly as the code: the parser is a function of the first refused byte of the
   C string and otherwise of [normal] (white space removed everywhere, upper case folded) *)
Theorem c15f_parse_factors_through_normal : forall sgn s,
  parse sgn s = match find (bad_char sgn) (cstr s) with
                | Some c => PErr (BadChar c)
                | None => match parse_fields (split (normal (cstr s))) with
                          | inl f => PErr (BadSpec f) | inr ds => POk ds end
                end.
Proof. exact parse_factor. Qed.
Print Assumptions c15f_parse_factors_through_normal.

Theorem c15f_parse_insensitive : forall sgn s t,
  find (bad_char sgn) (cstr s) = None -> find (bad_char sgn) (cstr t) = None ->
  normal (cstr s) = normal (cstr t) -> parse sgn s = parse sgn t.
Proof. exact parse_insensitive. Qed.
Print Assumptions c15f_parse_insensitive.

(* ---- accepted_iff_grammar: for ALL byte strings, accepted with vector ds iff the C string is a
   sentence of the code grammar with denotation ds. *)
Theorem c15f_accepted_iff_grammar : forall sgn s ds, parse sgn s = POk ds <-> code_list (cstr s) ds.
Proof. exact accepted_iff_code_grammar. Qed.
Print Assumptions c15f_accepted_iff_grammar.

(* every sentence of the manual's grammar is accepted, with the documented meaning *)
Theorem c15f_manual_accepted : forall sgn s ds, man_list s ds -> parse sgn s = POk ds.
Proof. exact manual_accepted. Qed.
Print Assumptions c15f_manual_accepted.

(* the converse is false: "ZdB" (the manual lists Z[ri|ma]) and "dB" on its own (no such row in the
   manual's table) are accepted and are not sentences of the manual's grammar *)
Theorem c15f_accepted_iff_manual_refuted : forall sgn,
  (exists ds, parse sgn zdb = POk ds /\ forall ds', ~ man_list zdb ds') /\
  (exists ds, parse sgn bare_db = POk ds /\ forall ds', ~ man_list bare_db ds').
Proof. exact accepted_not_in_manual_refuted. Qed.
Print Assumptions c15f_accepted_iff_manual_refuted.

(* ---- refused_unchanged: any failing call (refused string, failed allocation at any request, also the
   one after the new vector was installed) leaves vector and string as they were; any state. *)
Theorem c15f_refused_unchanged : forall sgn fail st a why st',
  set_format sgn fail st a = Ret false why st' -> st' = st.
Proof. exact set_format_refused. Qed.
Print Assumptions c15f_refused_unchanged.

Theorem c15f_simple_refused_unchanged : forall fail st p fm why st',
  set_simple_format fail st p fm = Ret false why st' -> st' = st.
Proof. exact set_simple_refused. Qed.
Print Assumptions c15f_simple_refused_unchanged.

(* without an allocation failure vnadata_set_format is the parser followed by the printer *)
Theorem c15f_set_format_is_parse_print : forall sgn st s,
  set_format sgn None st (AStr s) =
  match parse sgn s with
  | PErr r => Ret false (Some r) st
  | POk ds => match print ds with
              | PStr b => Ret true None {| f_vec := ds; f_str := Some b |}
              | PNull => Ret true None {| f_vec := []; f_str := None |}
              | PAbort => Abort
              end
  end.
Proof. exact set_format_spec. Qed.
Print Assumptions c15f_set_format_is_parse_print.

(* ---- all histories of vnadata_set_format (any argument, any failure point) and
   _vnadata_set_simple_format (producible descriptors): abort() is never reached and at the end the
   string is the print of the vector ... *)
Theorem c15f_history_invariant : forall sgn cs st, Forall call_ok cs -> inv st ->
  exists st', run_calls sgn st cs = Some st' /\ inv st'.
Proof. exact history_inv. Qed.
Print Assumptions c15f_history_invariant.

(* ... so that vnadata_get_format returns a spelling that parses to the object's vector *)
Theorem c15f_get_format_denotes : forall sgn st, inv st ->
  match f_vec st with
  | [] => get_format st = None
  | v => exists b, get_format st = Some b /\ parse sgn b = POk v /\ print v = PStr b
  end.
Proof. exact get_denotes. Qed.
Print Assumptions c15f_get_format_denotes.

(* ---- buffers: the copy loop writes at most strlen + 1 bytes (the size of format_copy); the printed
   string with its NUL fits count * (MAX_FORMAT + 1) bytes. *)
Theorem c15f_copy_fits : forall sgn s fs, pass1 sgn s = inr fs -> copy_fits s fs = true.
Proof. exact copy_fits_all. Qed.
Print Assumptions c15f_copy_fits.

Theorem c15f_print_fits : forall ds b, Forall (fun e => producible e = true) ds -> print ds = PStr b ->
  (List.length b + 1 <= string_alloc ds)%nat.
Proof. exact print_fits. Qed.
Print Assumptions c15f_print_fits.

(* ---- C06: the descriptors handed to the saver are entries of the NPD / Touchstone models once the
   untyped ones took the type of the object *)
Theorem c15f_producible_resolved_wf : forall e t, producible e = true -> is_matrix t = true ->
  wf_entry (Build_entry (match e_par e with PUNDEF => t | p => p end) (e_form e)) = true.
Proof. exact producible_resolved_wf. Qed.
Print Assumptions c15f_producible_resolved_wf.
