(* C08, the instance over the real numbers: the only C08 statements that rest on axioms (those of the standard
   library's real numbers and Coquelicot's use of functional extensionality / classical logic, as Print Assumptions lists
   them).  Everything in Properties_C08.v stays closed under the global context.  Lemmas in Files/TsFormatReal.v. *)
Require Import Reals QArith Qcanon List.
From Coquelicot Require Import Complex.
Require Import LV.Base.CField LV.Files.TsTok LV.Files.TsParse LV.Files.TsSpec LV.Files.TsFormat LV.Files.TsFormatProofs.
Require Import LV.Files.TsFormatReal.
Local Open Scope R_scope.

(* every law of fmt_laws holds for C with cexp z = exp (Re z) (cos (Im z) + i sin (Im z)), pow10 z = cexp (ln 10 * z)
   (= 10 ^ x for a real x), LOG10 = ln 10, RAD_PER_DEG = PI / 180, the file's numbers embedded by Q2R *)
Theorem fmt_laws_real : fmt_laws CF r_ofQ Ci r_cexp r_ln10 r_rad r_twenty r_pi r_180 r_pow10.
Proof. exact real_laws. Qed.
Print Assumptions fmt_laws_real.

Theorem pow10_is_power_of_ten : forall x : R, r_pow10 (RtoC x) = RtoC (exp (x * ln 10)) /\ exp (x * ln 10) = Rpower 10 x.
Proof. exact pow10_real. Qed.

(* format_equiv_pair_real: for every real m > 0 and every angle a in degrees, the RI pair (m cos a', m sin a') with
   a' = a PI / 180, the MA pair (m, a) and the DB pair (20 log10 m, a) are converted by convert_value_pair (as coded) to the
   same complex number, m cos a' + i m sin a'.  No abstract hypothesis left. *)
Theorem format_equiv_pair_real : forall m a : R, 0 < m ->
  let a' := a * PI / 180 in
  convert_value_pair CF Ci r_cexp r_ln10 r_rad r_twenty FRI (RtoC (m * cos a')) (RtoC (m * sin a')) =
    convert_value_pair CF Ci r_cexp r_ln10 r_rad r_twenty FMA (RtoC m) (RtoC a) /\
  convert_value_pair CF Ci r_cexp r_ln10 r_rad r_twenty FDB (RtoC (20 * (ln m / ln 10))) (RtoC a) =
    convert_value_pair CF Ci r_cexp r_ln10 r_rad r_twenty FMA (RtoC m) (RtoC a) /\
  convert_value_pair CF Ci r_cexp r_ln10 r_rad r_twenty FMA (RtoC m) (RtoC a) = (m * cos a', m * sin a').
Proof. exact format_equiv_pair_real_lemma. Qed.
Print Assumptions format_equiv_pair_real.

(* the numbers a file would hold: RI (0, 10), MA (10, 90), DB (20, 90) spell one number *)
Example same_number_real_example :
  same_number CF Ci r_cexp r_twenty r_pi r_180 r_pow10 r_log10
    (r_ofQ (qcz 0)) (r_ofQ (qcz 10)) (r_ofQ (qcz 10)) (r_ofQ (qcz 90)) (r_ofQ (qcz 20)).
Proof. exact same_number_real_instance. Qed.

(* the whole-file theorems over the complex numbers: the hypothesis fmt_laws is discharged *)
Theorem format_equiv_v2_real : forall fr fm fd : v2file, v2_wf fr -> v2_wf fm -> v2_wf fd ->
    let hr := opts_hdr true (f_opts fr) in let hm := opts_hdr true (f_opts fm) in let hd := opts_hdr true (f_opts fd) in
    h_fmt hr = FRI -> h_fmt hm = FMA -> h_fmt hd = FDB -> hdr_same_but_fmt hr hm -> hdr_same_but_fmt hd hm ->
    f_n fr = f_n fm -> f_n fd = f_n fm -> f_order fr = f_order fm -> f_order fd = f_order fm ->
    f_mf fr = f_mf fm -> f_mf fd = f_mf fm ->
    option_map (map n_val) (f_ref fr) = option_map (map n_val) (f_ref fm) ->
    option_map (map n_val) (f_ref fd) = option_map (map n_val) (f_ref fm) ->
    same_records CF r_ofQ Ci r_cexp r_twenty r_pi r_180 r_pow10 r_log10 (f_records fr) (f_records fm) (f_records fd) ->
    exists o_ri o_ma o_db, parse (v2_stream fr) = Ok o_ri /\ parse (v2_stream fm) = Ok o_ma /\ parse (v2_stream fd) = Ok o_db /\
      same_meta o_ri o_ma /\ same_meta o_db o_ma /\
      obj_values CF r_ofQ Ci r_cexp r_ln10 r_rad r_twenty o_ri = obj_values CF r_ofQ Ci r_cexp r_ln10 r_rad r_twenty o_ma /\
      obj_values CF r_ofQ Ci r_cexp r_ln10 r_rad r_twenty o_db = obj_values CF r_ofQ Ci r_cexp r_ln10 r_rad r_twenty o_ma.
Proof. exact (format_equiv_v2_thm CF r_ofQ Ci r_cexp r_ln10 r_rad r_twenty r_pi r_180 r_pow10 r_log10 real_laws). Qed.
Print Assumptions format_equiv_v2_real.
