(* Property C04 (two-port part): theorems only.  Every statement is about the definitions that
   translate/conv2.py regenerates from /repo/src/vnaconv_*.c on every run (the LV.Gen files), and about
   the relations of vnaconv(3) written by hand in LV.Conv.ConvRel. *)
Require Import List.
Require Import LV.Base.CField LV.Base.QcI LV.Conv.ConvRel LV.Conv.ConvTac LV.Gen.Conv2All
               LV.Conv.ConvThm LV.Conv.ConvExamples.
Local Open Scope cf_scope.

(* For each of the 72 two-port conversions X -> Y there is a translated function ... *)
Theorem c04_two_port_defined (K : CField) (X Y : ptype) :
  X <> Y -> exists f, conv2 K X Y = Some f.
Proof. exact (conv2_defined K X Y). Qed.
Print Assumptions c04_two_port_defined.

(* ... whose output satisfies its own defining relation for exactly the electrical states that
   satisfy the input's relation, for all reference impedances with z0_ok (Re z0 > 0) and all
   matrices away from the conversion's singular set (conv2_ok = the denominators of the code). *)
Theorem c04_two_port_same_states (K : CField) (X Y : ptype) f (m : m2 K) (z1 z2 : K) :
  conv2 K X Y = Some f -> char_ok K -> z0_ok z1 -> z0_ok z2 -> conv2_ok K X Y m z1 z2 ->
  forall s, rel K z1 z2 X m s <-> rel K z1 z2 Y (f m z1 z2) s.
Proof. exact (conv2_same_states K X Y f m z1 z2). Qed.
Print Assumptions c04_two_port_same_states.

(* Passing the same array as input and output gives the same result as separate arrays. *)
Theorem c04_two_port_alias (K : CField) (X Y : ptype) f g (m : m2 K) (z1 z2 : K) :
  conv2 K X Y = Some f -> conv2_alias K X Y = Some g -> g m z1 z2 = f m z1 z2.
Proof. exact (conv2_alias_eq K X Y f g m z1 z2). Qed.
Print Assumptions c04_two_port_alias.

(* Converting back returns the original. *)
Theorem c04_two_port_roundtrip (K : CField) (z1 z2 : K) :
  char_ok K -> z0_ok z1 -> z0_ok z2 ->
  forall X Y f g (m : m2 K),
  conv2 K X Y = Some f -> conv2 K Y X = Some g ->
  conv2_ok K X Y m z1 z2 -> conv2_ok K Y X (f m z1 z2) z1 z2 ->
  g (f m z1 z2) z1 z2 = m.
Proof. exact (conv2_roundtrip K z1 z2). Qed.
Print Assumptions c04_two_port_roundtrip.

(* A -> B -> C is the same network as A -> C (used by C05). *)
Theorem c04_two_port_chain (K : CField) (z1 z2 : K) :
  char_ok K -> z0_ok z1 -> z0_ok z2 ->
  forall X Y Z f g h (m : m2 K),
  conv2 K X Y = Some f -> conv2 K Y Z = Some g -> conv2 K X Z = Some h ->
  conv2_ok K X Y m z1 z2 -> conv2_ok K Y Z (f m z1 z2) z1 z2 -> conv2_ok K X Z m z1 z2 ->
  g (f m z1 z2) z1 z2 = h m z1 z2.
Proof. exact (conv2_chain K z1 z2). Qed.
Print Assumptions c04_two_port_chain.

(* The nine two-port input-impedance functions: with the other port terminated in its
   reference impedance, the voltage/current ratio at a port is the returned value. *)
Theorem c04_two_port_zi (K : CField) (z1 z2 : K) :
  char_ok K -> z0_ok z1 -> z0_ok z2 ->
  forall X (m : m2 K), conv2zi_ok K X m z1 z2 ->
  forall s, rel K z1 z2 X m s ->
    (wa2 K z2 s = 0 -> v1 s = fst (conv2zi K X m z1 z2) * i1 s) /\
    (wa1 K z1 s = 0 -> v2 s = snd (conv2zi K X m z1 z2) * i2 s).
Proof. exact (conv2zi_phys K z1 z2). Qed.
Print Assumptions c04_two_port_zi.

(* Non-vacuity: over the Gaussian rationals, with z0 = (4+3i, 9-2i), every hypothesis of the
   theorems above is satisfied by a concrete matrix for every one of the 72 pairs. *)
Theorem c04_hypotheses_satisfiable :
  char_ok QIF /\ @z0_ok QIF ex_z1 /\ @z0_ok QIF ex_z2 /\
  forall X Y, conv2_ok QIF X Y ex_m ex_z1 ex_z2 /\ conv2zi_ok QIF X ex_m ex_z1 ex_z2.
Proof. exact ex_hyps. Qed.
Print Assumptions c04_hypotheses_satisfiable.
