(* C01 - calibrate-then-apply recovers the true S-parameters: the theorems of package K (session 5), kept apart from
   Properties_C01.v so that they do not load mathcomp (cold build time).  Parts 3, 4 (and 5) of docs/design_C01.md.
   Nothing but `Theorem ... Proof. exact <lemma>. Qed.' + Print Assumptions. *)
Require Import ZArith List Bool Arith QArith Qcanon.
Require Import LV.Base.CField LV.Base.QcI LV.Lin.MatL LV.Lin.LuGenA.
Require Import LV.Gen.LayoutGen LV.Cal.Sym LV.Cal.TermsModel LV.Cal.AddModel LV.Cal.ApplyModel LV.Cal.ApplyProofs
               LV.Cal.ApplyIdentity LV.Cal.AssembleIdentity LV.Cal.SolveSimple LV.Cal.CalQI LV.Cal.AssembleList
               LV.Cal.LeakProofs LV.Cal.ApplyRecovers LV.Cal.SolveRecovers LV.Cal.EndToEnd.
Local Open Scope nat_scope.

(* ================================================================================================
   Part 3 (session 5, package K): the leakage types from a physical model, and fill_* for every n.
 *)
Require LV.Cal.LeakPhysical LV.Cal.LeakPhysicalEx LV.Cal.EndToEndLeak LV.Cal.EndToEndLeakEx
        LV.Cal.FillLoops LV.Cal.FillLoopsProofs LV.Cal.FillLoopsRecovers.
Import LV.Cal.LeakPhysical LV.Cal.LeakPhysicalEx LV.Cal.EndToEndLeak LV.Cal.EndToEndLeakEx
       LV.Cal.FillLoops LV.Cal.FillLoopsProofs LV.Cal.FillLoopsRecovers.

(* Block-diagonal argument, every number of ports n, every field, every equivalence `same' on the ports that the
   standard S respects (S[i,j] = 0 between classes) and any error boxes that respect it (diagonal boxes respect
   every partition): the response Mc of a well-posed T network,  Mc (Tx S + Tm) = Ts S + Ti  with one solution,
   has no entry between different classes.  No inverse is formed. *)
Theorem core_response_block_diagonal_T (K : CField) (n : nat) (same : nat -> nat -> bool) :
  (forall i j, (i < n)%nat -> (j < n)%nat -> same i j = true -> same j i = true) ->
  (forall i j k, (i < n)%nat -> (j < n)%nat -> (k < n)%nat -> same i j = true -> same j k = true -> same i k = true) ->
  forall S : nat -> nat -> K, bd K n same S ->
  forall (Ts Ti Tx Tm : nat -> nat -> K) (mr : nat) (Mc : nat -> nat -> K),
  bd K n same Ts -> bd K n same Ti -> bd K n same Tx -> bd K n same Tm -> (mr <= n)%nat ->
  left_kernel_trivial K n (NT K n S Tx Tm) -> physT K n S Ts Ti Tx Tm mr Mc ->
  forall i k, (i < mr)%nat -> (k < n)%nat -> same i k = false -> Mc i k = @c0 K.
Proof. exact (LeakPhysical.physT_offblock K n same). Qed.
Print Assumptions core_response_block_diagonal_T.

(* the same for a U network  (Um - S Ux) Mc = S Us - Ui *)
Theorem core_response_block_diagonal_U (K : CField) (n : nat) (same : nat -> nat -> bool) :
  (forall i j, (i < n)%nat -> (j < n)%nat -> same i j = true -> same j i = true) ->
  (forall i j k, (i < n)%nat -> (j < n)%nat -> (k < n)%nat -> same i j = true -> same j k = true -> same i k = true) ->
  forall S : nat -> nat -> K, bd K n same S ->
  forall (Um Ui Ux Us : nat -> nat -> K) (mc : nat) (Mc : nat -> nat -> K),
  bd K n same Um -> bd K n same Ui -> bd K n same Ux -> bd K n same Us -> (mc <= n)%nat ->
  right_kernel_trivial K n (NU K n S Um Ux) -> physU K n S Um Ui Ux Us mc Mc ->
  forall k j, (k < n)%nat -> (j < mc)%nat -> same k j = false -> Mc k j = @c0 K.
Proof. exact (LeakPhysical.physU_offblock K n same). Qed.
Print Assumptions core_response_block_diagonal_U.

(* and for the per-column systems of UE14 / E12:  (Um_c - S Ux_c) Mc(:,c) = (S us_c - ui_c) e_c *)
Theorem core_response_block_diagonal_UE14 (K : CField) (n : nat) (same : nat -> nat -> bool) :
  (forall i, (i < n)%nat -> same i i = true) ->
  (forall i j, (i < n)%nat -> (j < n)%nat -> same i j = true -> same j i = true) ->
  (forall i j k, (i < n)%nat -> (j < n)%nat -> (k < n)%nat -> same i j = true -> same j k = true -> same i k = true) ->
  forall S : nat -> nat -> K, bd K n same S ->
  forall (um ux : nat -> nat -> K) (ui us : nat -> K) (mc : nat) (Mc : nat -> nat -> K), (mc <= n)%nat ->
  (forall c, (c < mc)%nat -> right_kernel_trivial K n (N14 K S um ux c)) -> phys14 K n S um ux ui us mc Mc ->
  forall k c, (k < n)%nat -> (c < mc)%nat -> same k c = false -> Mc k c = @c0 K.
Proof. exact (LeakPhysical.phys14_offblock K n same). Qed.
Print Assumptions core_response_block_diagonal_UE14.

(* the physical equation IS the documented equation "= 0" (both directions, every cell) *)
Theorem physical_T_iff_documented (K : CField) (n : nat) (S Ts Ti Tx Tm : nat -> nat -> K) (mr : nat) (Mc : nat -> nat -> K) :
  physT K n S Ts Ti Tx Tm mr Mc <->
  forall i j, (i < mr)%nat -> (j < n)%nat -> docT K n S Ts Ti Tx Tm Mc i j = @c0 K.
Proof. exact (LeakPhysical.physT_iff_doc K n S Ts Ti Tx Tm mr Mc). Qed.
Print Assumptions physical_T_iff_documented.

Theorem physical_U_iff_documented (K : CField) (n : nat) (S Um Ui Ux Us : nat -> nat -> K) (mc : nat) (Mc : nat -> nat -> K) :
  physU K n S Um Ui Ux Us mc Mc <->
  forall i j, (i < n)%nat -> (j < mc)%nat -> docU K n S Um Ui Ux Us Mc i j = @c0 K.
Proof. exact (LeakPhysical.physU_iff_doc K n S Um Ui Ux Us mc Mc). Qed.
Print Assumptions physical_U_iff_documented.

Theorem physical_UE14_iff_documented (K : CField) (n : nat) (S um ux : nat -> nat -> K) (ui us : nat -> K) (mc : nat) (Mc : nat -> nat -> K) :
  phys14 K n S um ux ui us mc Mc <->
  forall i c, (i < n)%nat -> (c < mc)%nat -> doc14 K n S um ux ui us Mc i c = @c0 K.
Proof. exact (LeakPhysical.phys14_iff_doc K n S um ux ui us mc Mc). Qed.
Print Assumptions physical_UE14_iff_documented.

(* what the model of _vnacal_new_add_common records as connectivity matrix (inversion of the accepting path, all arguments) *)
Theorem accepted_records_connectivity : forall a m, add_common a = Accepted m ->
  ms_conn m = if is_16 (aa_ty a) then None
              else Some (build_connectivity (Nat.max (aa_mr a) (aa_mc a)) (ms_s m)).
Proof. exact LeakPhysical.accepted_conn_built_lemma. Qed.
Print Assumptions accepted_records_connectivity.

(* TE10, all dimensions rows <= columns, every field in which sample counts are invertible, every list of standards
   (any S cells: parameters, known zeros, cells not given with ANY value fxof), connectivity matrix as computed by
   the model of build_connectivity_matrix: if every standard is measured by one well-posed T8 core network (error
   terms fe, unity term 1) plus additive leakage El off the diagonal, then (leak_conclusion)
     - every cell the solver samples measures El exactly,
     - every leakage mean is El (for every number of samples >= 1),
     - if every off-diagonal cell has a sample or no leakage: the saved leakage terms are El, the corrected values
       m_adjusted are the core response, and the documented T8 expression with M' = m_adjusted vanishes in EVERY cell. *)
Theorem leak_physical_TE10 (K : CField) (mr mc : nat) (fe : nat -> K) (el : nat -> nat -> K) (pv : Z -> K)
        (ms : list (mvals (ops_of K))) (fxof : mvals (ops_of K) -> nat -> K) (core : mvals (ops_of K) -> nat -> nat -> K) :
  (forall k : nat, k <> O -> onat (ops_of K) k <> @c0 K) -> (mr <= mc)%nat ->
  (forall mv, List.In mv ms -> conn_built K mr mc mv /\ te_network K mr mc fe pv fxof core mv /\ measured_with_leakage K mr mc el core mv) ->
  leak_conclusion K mr mc fe el pv ms fxof core TE10.
Proof. exact (LeakPhysical.leak_TE10_lemma K mr mc fe el pv ms fxof core). Qed.
Print Assumptions leak_physical_TE10.

Theorem leak_physical_UE10 (K : CField) (mr mc : nat) (fe : nat -> K) (el : nat -> nat -> K) (pv : Z -> K)
        (ms : list (mvals (ops_of K))) (fxof : mvals (ops_of K) -> nat -> K) (core : mvals (ops_of K) -> nat -> nat -> K) :
  (forall k : nat, k <> O -> onat (ops_of K) k <> @c0 K) -> (mc <= mr)%nat ->
  (forall mv, List.In mv ms -> conn_built K mr mc mv /\ ue_network K mr mc fe pv fxof core mv /\ measured_with_leakage K mr mc el core mv) ->
  leak_conclusion K mr mc fe el pv ms fxof core UE10.
Proof. exact (LeakPhysical.leak_UE10_lemma K mr mc fe el pv ms fxof core). Qed.
Print Assumptions leak_physical_UE10.

(* UE14 and E12 (which is measured and solved as E12_UE14) *)
Theorem leak_physical_UE14_E12 (K : CField) (mr mc : nat) (fe : nat -> K) (el : nat -> nat -> K) (pv : Z -> K)
        (ms : list (mvals (ops_of K))) (fxof : mvals (ops_of K) -> nat -> K) (core : mvals (ops_of K) -> nat -> nat -> K) :
  (forall k : nat, k <> O -> onat (ops_of K) k <> @c0 K) -> forall ty : caltype, ty = UE14 \/ ty = E12_UE14 -> (mc <= mr)%nat ->
  (forall mv, List.In mv ms -> conn_built K mr mc mv /\ c14_network K mr mc fe pv fxof core ty mv /\ measured_with_leakage K mr mc el core mv) ->
  leak_conclusion K mr mc fe el pv ms fxof core ty.
Proof. exact (LeakPhysical.leak_UE14_lemma K mr mc fe el pv ms fxof core). Qed.
Print Assumptions leak_physical_UE14_E12.

(* the hypotheses are met (2 x 2 TE10 at Q[i], two double reflects entered through add_common, El12 = 1/4 + i/8,
   El21 = 1/3; both cells sampled; the saved terms computed by the theorem) *)
Theorem leak_physical_TE10_nonvacuous :
  (forall mv, List.In mv lx_ms ->
     conn_built QIF 2 2 mv /\ te_network QIF 2 2 lx_fe lx_pv lx_fx lx_core mv /\
     measured_with_leakage QIF 2 2 lx_el lx_core mv) /\
  covered QIF 2 2 lx_el lx_ms /\
  (forall r c, (r < 2)%nat -> (c < 2)%nat -> r <> c -> exists mv, List.In mv lx_ms /\ sampled QIF 2 2 mv r c = true) /\
  leak_terms (ops_of QIF) TE10 2 2 lx_ms = (mkqi 1 4 1 8 :: mkqi 1 3 0 1 :: nil)%list /\
  length (ms_eqs (lx_meas 3 4)) = 2%nat.
Proof. exact LeakPhysicalEx.leak_TE10_nonvacuous. Qed.
Print Assumptions leak_physical_TE10_nonvacuous.

(* PARTIAL (bound in the statement: standards of the family zcfgs = dims 1..3, every port set, its known-zero masks;
   the residual form row_res, not yet the rdot form of c01_model_end_to_end_partial): the calibration hypothesis of the
   composition derived from the physical hypothesis.  Every list of such standards measured by one network of the
   type: every row of every assembled system is satisfied by the true terms, and the saved leakage terms are El. *)
Theorem c01_leak_rows_satisfied_partial (K : CField) (mr mc : nat) (fe : nat -> K) (el : nat -> nat -> K) (pv : Z -> K)
        (ms : list (mvals (ops_of K))) (fxof : mvals (ops_of K) -> nat -> K) (core : mvals (ops_of K) -> nat -> nat -> K) :
  (forall k : nat, k <> O -> onat (ops_of K) k <> @c0 K) ->
  forall ty, List.In ty (TE10 :: UE10 :: UE14 :: E12_UE14 :: nil)%list ->
  (forall mv, List.In mv ms -> std_of K ty mr mc mv /\ network_of K mr mc fe pv fxof core ty mv /\ measured_with_leakage K mr mc el core mv) ->
  covered K mr mc el ms ->
  leak_terms (ops_of K) ty mr mc ms = List.map (fun rc => el (fst rc) (snd rc)) (offdiag_cells mr mc) /\
  forall sys, (sys < systems_of ty mc)%nat ->
    forall row, List.In row (assemble (ops_of K) ty mr mc pv ms sys) -> row_res K ty mr mc fe sys row = @c0 K.
Proof. exact (EndToEndLeak.leak_rows_satisfied_lemma K mr mc fe el pv ms fxof core). Qed.
Print Assumptions c01_leak_rows_satisfied_partial.

Theorem c01_leak_rows_satisfied_nonvacuous :
  (forall mv, List.In mv ly_ms ->
     std_of QIF TE10 2 2 mv /\ network_of QIF 2 2 lx_fe ly_pv lx_fx lx_core TE10 mv /\
     measured_with_leakage QIF 2 2 lx_el lx_core mv) /\
  covered QIF 2 2 lx_el ly_ms /\
  length (assemble (ops_of QIF) TE10 2 2 ly_pv ly_ms 0) = 3%nat /\
  leak_terms (ops_of QIF) TE10 2 2 ly_ms = (mkqi 1 4 1 8 :: mkqi 1 3 0 1 :: nil)%list /\
  forall row, List.In row (assemble (ops_of QIF) TE10 2 2 ly_pv ly_ms 0) -> row_res QIF TE10 2 2 lx_fe 0 row = @c0 QIF.
Proof. exact EndToEndLeakEx.leak_rows_satisfied_nonvacuous. Qed.
Print Assumptions c01_leak_rows_satisfied_nonvacuous.

(* fill_t8 / fill_u8 / fill_t16 / fill_u16 / fill_ue14 / fill_e12 written as the C loops (nested folds with in-place
   updates of a and b, the leakage pointer el_cur as a counter; Cal/FillLoops.v) compute what the closed-form model
   Cal/ApplyModel.v computes -- the model the exact tie 5 compares with the compiled functions -- for EVERY square
   dimension n, every value type, all arrays. *)
Theorem loop_fill_eq_model (O : Ops) (ty : caltype) (n : nat) (e m : list O) :
  apply_fill O ty n n e m = (let '(m', a, b) := loop_apply_fill O ty n e m in Filled m' a b).
Proof. exact (FillLoopsProofs.loop_fill_eq_model O ty n e m). Qed.
Print Assumptions loop_fill_eq_model.

(* fill_solves without its bound: EVERY n, every field, all e, m, s: the filled (A, B) satisfy
   (A S - B)[i,j] = - doc[i,j] (T) resp. (S A - B)[i,j] = - doc[i,j] (U, UE14, E12), doc the documented expression. *)
Theorem fill_solves_every_n (K : CField) (ty : caltype) (n : nat) (e m s : list K) :
  List.In ty stored_types -> (1 <= n)%nat -> length m = (n * n)%nat ->
  exists m' a b, apply_fill (ops_of K) ty n n e m = Filled m' a b /\
    forall i j, (i < n)%nat -> (j < n)%nat ->
      csub (prod_cell K ty n n a s i j) (g (ops_of K) b (i * n + j)%nat) = copp (doc_cell K ty n n e m s i j).
Proof. exact (FillLoopsProofs.fill_solves_every_n K ty n e m s). Qed.
Print Assumptions fill_solves_every_n.

Theorem loop_fill_solves_every_n (K : CField) (ty : caltype) (n : nat) (e m s : list K) :
  List.In ty stored_types -> (1 <= n)%nat -> length m = (n * n)%nat ->
  let '(m', a, b) := loop_apply_fill (ops_of K) ty n e m in
  forall i j, (i < n)%nat -> (j < n)%nat ->
    csub (prod_cell K ty n n a s i j) (g (ops_of K) b (i * n + j)%nat) = copp (doc_cell K ty n n e m s i j).
Proof. exact (FillLoopsProofs.loop_fill_solves_every_n K ty n e m s). Qed.
Print Assumptions loop_fill_solves_every_n.

(* apply_model_recovers_S without its bound: every square dimension n *)
Theorem apply_model_recovers_S_every_n (ty : caltype) (n : nat) (e m s : list qi) :
  List.In ty stored_types -> (1 <= n)%nat -> length m = (n * n)%nat -> length s = (n * n)%nat ->
  (forall i j, (i < n)%nat -> (j < n)%nat -> doc_cell QIF ty n n e m s i j = @c0 QIF) ->
  forall a b x, q_apply ty n n e m = AOk a b x -> x = s.
Proof. exact (FillLoopsRecovers.apply_model_recovers_S_every_n ty n e m s). Qed.
Print Assumptions apply_model_recovers_S_every_n.

(* beyond the old bound: T8 5 x 5 *)
Theorem apply_model_recovers_S_n5_nonvacuous :
  (forall i j, (i < 5)%nat -> (j < 5)%nat -> doc_cell QIF T8 5 5 kf_e5 kf_s5 kf_s5 i j = @c0 QIF) /\
  exists a b, q_apply T8 5 5 kf_e5 kf_s5 = AOk a b kf_s5.
Proof. exact FillLoopsRecovers.apply_model_recovers_S_n5_nonvacuous. Qed.
Print Assumptions apply_model_recovers_S_n5_nonvacuous.

(* ================================================================================================
   Part 4 (session 5, package K, second box): the composition for the leakage types from the physical hypothesis
   on both halves, and the E-term form of the physical hypothesis. *)
Require LV.Cal.EndToEndAll LV.Cal.EndToEndDevice LV.Cal.EndToEndFinal LV.Cal.LeakETerms LV.Cal.EndToEndCore LV.Cal.EndToEndCoreDevice LV.Cal.EndToEndE12Check LV.Cal.EndToEndBounds.
Import LV.Cal.EndToEndAll LV.Cal.EndToEndDevice LV.Cal.EndToEndFinal LV.Cal.LeakETerms LV.Cal.EndToEndCore LV.Cal.EndToEndCoreDevice LV.Cal.EndToEndE12Check LV.Cal.EndToEndBounds.

(* row_res = 0 is the rdot hypothesis of the solve theorems (every type, all dimensions) *)
Theorem rows_satisfied_rdot ty mr mc (fe : nat -> qi) (sys : nat) (row : list qi * qi) :
  length (fst row) = unknowns ty mr mc ->
  row_res QIF ty mr mc fe sys row = @c0 QIF ->
  rdot (unknowns ty mr mc) (fst row) (x_of_sys ty mr mc fe sys) = snd row.
Proof. exact (EndToEndAll.rows_satisfied_rdot ty mr mc fe sys row). Qed.
Print Assumptions rows_satisfied_rdot.

(* PARTIAL (bound: standards of the family zcfgs, dims 1..3): physical network + every cell covered + every system
   with enough equations and full column rank (the form of Properties_C20.determining_set_solves) => the solve
   model SUCCEEDS with the network's vector and the saved leakage terms are El *)
Theorem leak_solve_returns_true_terms_partial (mr mc : nat) (fe : nat -> qi) (el : nat -> nat -> qi) (pv : Z -> qi)
        (ms : list (mvals qops)) (fxof : mvals qops -> nat -> qi) (core : mvals qops -> nat -> nat -> qi) (sty : caltype) :
  List.In sty (TE10 :: UE10 :: UE14 :: E12_UE14 :: nil)%list ->
  (forall mv, List.In mv ms ->
     std_of QIF sty mr mc mv /\ network_of QIF mr mc fe pv fxof core sty mv /\ measured_with_leakage QIF mr mc el core mv) ->
  covered QIF mr mc el ms ->
  (forall sys, (sys < systems_of sty mc)%nat ->
     let rows := q_assemble sty mr mc ms pv sys in
     (unknowns sty mr mc <= length rows)%nat /\ kernel_trivial (unknowns sty mr mc) rows) ->
  q_error_terms sty mr mc ms pv =
  Some (if caltype_eqb sty E12_UE14 then convert_ue14_to_e12 qops mr mc (e_vector qops sty mr mc ms (xs_of sty mr mc fe))
        else e_vector qops sty mr mc ms (xs_of sty mr mc fe)) /\
  leak_terms qops sty mr mc ms = List.map (fun rc => el (fst rc) (snd rc)) (offdiag_cells mr mc).
Proof. exact (EndToEndAll.leak_solve_returns_true_terms_lemma mr mc fe el pv ms fxof core sty). Qed.
Print Assumptions leak_solve_returns_true_terms_partial.

(* the device half, every field: what doc_cell reads out of the SAVED vector (through the layout; through
   convert_ue14_to_e12 for E12) at the measured matrix Mc + El vanishes when Mc satisfies the core equation.
   Bound in the statement: dev_cases_all = TE10, UE10, UE14, E12 x square dimensions 1..3. *)
Theorem device_doc_vanishes (K : CField) (ty : caltype) (n : nat) (fe : nat -> K) (el Mc : nat -> nat -> K) (fs : nat -> K) :
  List.In (ty, n) dev_cases_all ->
  device_network K ty n fe Mc (fun a b => fs (a * n + b)%nat) ->
  forall i j, (i < n)%nat -> (j < n)%nat ->
    doc_cell K ty n n (dev_vector K ty n fe el) (dev_m K n Mc el) (lst K (n * n)%nat fs) i j = @c0 K.
Proof. exact (EndToEndDevice.device_doc_vanishes_lemma K ty n fe el Mc fs). Qed.
Print Assumptions device_doc_vanishes.

(* c01_model_end_to_end_leak, PARTIAL by its bound (in the statement): stored type TE10 / UE10 / UE14 / E12, square
   dimensions 2, 3, standards of the family zcfgs (n = 1 is left out: in the family a 1 x 1 calibration has two distinct
   standards for three unknowns, so its rank hypothesis cannot be met; in zcfgs the parameter handle of S cell i is
   3 + i with ONE pv for the list: two standards with the same ports and mask are the same standard).  For E12
   conclusion (a) is about SolveSimple's total convert_ue14_to_e12; solved_e12_vector_passes_um_test below shows the
   C function's um == 0 exit is not taken on that vector when the network's um terms are non-zero.  Solve returns the network's vector; apply on it
   returns S for EVERY device measured by the same network.  (1x2 / 2x1 and dimension 4: c01_model_end_to_end_partial
   with the device equation assumed.) *)
Theorem c01_model_end_to_end_leak_partial (ty : caltype) (n : nat) :
  List.In ty (TE10 :: UE10 :: UE14 :: E12 :: nil) -> List.In n (2 :: 3 :: nil) ->
  let sty := solve_type ty in
  forall (fe : nat -> qi) (el : nat -> nat -> qi) (pv : Z -> qi) (ms : list (mvals qops))
         (fxof : mvals qops -> nat -> qi) (core : mvals qops -> nat -> nat -> qi),
  (forall mv, List.In mv ms ->
     std_of QIF sty n n mv /\ network_of QIF n n fe pv fxof core sty mv /\ measured_with_leakage QIF n n el core mv) ->
  covered QIF n n el ms ->
  (forall sys, (sys < systems_of sty n)%nat ->
     let rows := q_assemble sty n n ms pv sys in
     (unknowns sty n n <= length rows)%nat /\ kernel_trivial (unknowns sty n n) rows) ->
  let e_true := dev_vector QIF ty n fe el in
  q_error_terms sty n n ms pv = Some e_true /\
  forall (m s : list qi) (Mc : nat -> nat -> qi), length m = (n * n)%nat -> length s = (n * n)%nat ->
    device_network QIF ty n fe Mc (fun a b => List.nth (a * n + b)%nat s (@c0 QIF)) ->
    (forall r c, (r < n)%nat -> (c < n)%nat ->
       List.nth (r * n + c)%nat m (@c0 QIF) = @cadd QIF (Mc r c) (if Nat.eqb r c then @c0 QIF else el r c)) ->
    forall a b x, q_apply ty n n e_true m = AOk a b x -> x = s.
Proof. exact (EndToEndBounds.c01_model_end_to_end_leak_23 ty n). Qed.
Print Assumptions c01_model_end_to_end_leak_partial.

(* E terms (vnacal_layout.h): the 8-term core as a physical box [Ed Er; Et Em] with wave variables, no inverse:
   B = S (Et e_j + Em B), Mc = Ed + Er B.  It yields the U / T / UE14 determining equations with the documented
   conversions (Um = Er^-1, Ui = -Er^-1 Ed, Ux = Em Er^-1, Us = Et - Em Er^-1 Ed; Ts = Er - Ed Et^-1 Em, Ti = Ed Et^-1,
   Tx = -Et^-1 Em, Tm = Et^-1) times ANY common factor k0 -- every n, every field. *)
Theorem eterms_give_physU (K : CField) (n : nat) (Sm : nat -> nat -> K) (ed er et em : nat -> K) (k0 : K) (mc : nat) (Mc : nat -> nat -> K) :
  (mc <= n)%nat -> (forall i, (i < n)%nat -> er i <> @c0 K) ->
  physE K n Sm ed er et em n mc Mc ->
  physU K n Sm (eu_Um K er k0) (eu_Ui K ed er k0) (eu_Ux K er em k0) (eu_Us K ed er et em k0) mc Mc.
Proof. exact (LeakETerms.eterms_give_physU K n Sm ed er et em k0 mc Mc). Qed.
Print Assumptions eterms_give_physU.

Theorem eterms_give_physT (K : CField) (n : nat) (Sm : nat -> nat -> K) (ed er et em : nat -> K) (k0 : K) (mr : nat) (Mc : nat -> nat -> K) :
  (mr <= n)%nat -> (forall i, (i < n)%nat -> et i <> @c0 K) ->
  right_kernel_trivial K n (ISE K Sm em) ->
  physE K n Sm ed er et em mr n Mc ->
  physT K n Sm (et_Ts K ed er et em k0) (et_Ti K ed et k0) (et_Tx K et em k0) (et_Tm K et k0) mr Mc.
Proof. exact (LeakETerms.eterms_give_physT K n Sm ed er et em k0 mr Mc). Qed.
Print Assumptions eterms_give_physT.

(* ================================================================================================
   Part 5 (package K, third box): the composition for the types WITHOUT outside leakage (T8, U8, T16, U16), and
   Examples that meet ALL hypotheses of a composed theorem at once. *)
Require LV.Cal.EndToEndCore LV.Cal.EndToEndCoreDevice LV.Cal.EndToEndCoreEx LV.Cal.EndToEndFinalEx.
Import LV.Cal.EndToEndCore LV.Cal.EndToEndCoreDevice LV.Cal.EndToEndCoreEx LV.Cal.EndToEndFinalEx.

(* PARTIAL (bound: standards of the family zcfgs = dims 1..3 as the type allows, RECTANGULAR calibrations included):
   every field, T8 / U8 / T16 / U16, every list of such standards measured exactly (M = Mc, no leakage) by one network
   of the type (blocks read through the layout with the `full' flag of T16 / U16): every assembled row is satisfied by
   the true terms. *)
Theorem core_rows_satisfied_partial (K : CField) (mr mc : nat) (fe : nat -> K) (pv : Z -> K)
        (fxof : mvals (ops_of K) -> nat -> K) (core : mvals (ops_of K) -> nat -> nat -> K) (ms : list (mvals (ops_of K))) (ty : caltype) :
  In ty core_types ->
  (forall mv, In mv ms -> std_of K ty mr mc mv /\ core_network K ty mr mc fe pv fxof core mv /\ measured_exactly K mr mc core mv) ->
  forall sys, sys < systems_of ty mc -> forall row, In row (assemble (ops_of K) ty mr mc pv ms sys) ->
    row_res K ty mr mc fe sys row = @c0 K.
Proof. exact (EndToEndCore.core_rows_satisfied_lemma K mr mc fe pv fxof core ms ty). Qed.
Print Assumptions core_rows_satisfied_partial.

(* ... hence, with enough equations and full column rank, the solve model succeeds with the network's vector *)
Theorem core_solve_returns_true_terms_partial (ty : caltype) (mr mc : nat) (fe : nat -> qi) (pv : Z -> qi) (ms : list (mvals qops))
        (fxof : mvals qops -> nat -> qi) (core : mvals qops -> nat -> nat -> qi) :
  In ty core_types ->
  (forall mv, In mv ms -> std_of QIF ty mr mc mv /\ core_network QIF ty mr mc fe pv fxof core mv /\ measured_exactly QIF mr mc core mv) ->
  (forall sys, sys < systems_of ty mc ->
     let rows := q_assemble ty mr mc ms pv sys in
     unknowns ty mr mc <= length rows /\ kernel_trivial (unknowns ty mr mc) rows) ->
  q_error_terms ty mr mc ms pv = Some (net_vector qops ty mr mc (xs_of ty mr mc fe) nil) /\
  leak_terms qops ty mr mc ms = nil.
Proof. exact (EndToEndCore.core_solve_returns_true_terms_lemma ty mr mc fe pv ms fxof core). Qed.
Print Assumptions core_solve_returns_true_terms_partial.

(* device half, every field; bound in the statement core_dev_cases = T8, U8, T16, U16 x square n = 1..5 *)
Theorem core_device_doc_vanishes (K : CField) (ty : caltype) (n : nat) (fe : nat -> K) (Mc : nat -> nat -> K) (fs : nat -> K) :
  In (ty, n) core_dev_cases ->
  core_device_network K ty n fe Mc (fun a b => fs (a * n + b)) ->
  forall i j, i < n -> j < n ->
    doc_cell K ty n n (core_dev_vector K ty n fe) (core_dev_m K n Mc) (lst K (n * n) fs) i j = @c0 K.
Proof. exact (EndToEndCoreDevice.core_device_doc_vanishes_lemma K ty n fe Mc fs). Qed.
Print Assumptions core_device_doc_vanishes.

(* c01_model_end_to_end_core, PARTIAL by its bound (in the statement): T8 / U8 / T16 / U16, square n = 2, 3, standards
   of the family zcfgs (n = 1 left out: unsatisfiable rank hypothesis inside the family, as for the leakage types) *)
Theorem c01_model_end_to_end_core_partial (ty : caltype) (n : nat) :
  In ty core_types -> In n (2 :: 3 :: nil) ->
  forall (fe : nat -> qi) (pv : Z -> qi) (ms : list (mvals qops))
         (fxof : mvals qops -> nat -> qi) (core : mvals qops -> nat -> nat -> qi),
  (forall mv, In mv ms ->
     std_of QIF ty n n mv /\ core_network QIF ty n n fe pv fxof core mv /\ measured_exactly QIF n n core mv) ->
  (forall sys, sys < systems_of ty n ->
     let rows := q_assemble ty n n ms pv sys in
     unknowns ty n n <= length rows /\ kernel_trivial (unknowns ty n n) rows) ->
  let e_true := core_dev_vector QIF ty n fe in
  q_error_terms ty n n ms pv = Some e_true /\
  forall (m s : list qi) (Mc : nat -> nat -> qi), length m = n * n -> length s = n * n ->
    core_device_network QIF ty n fe Mc (fun a b => nth (a * n + b) s (@c0 QIF)) ->
    (forall r c, r < n -> c < n -> nth (r * n + c) m (@c0 QIF) = Mc r c) ->
    forall a b x, q_apply ty n n e_true m = AOk a b x -> x = s.
Proof. exact (EndToEndBounds.c01_model_end_to_end_core_23 ty n). Qed.
Print Assumptions c01_model_end_to_end_core_partial.

(* ALL hypotheses at once: 2 x 2 T8, NON-ideal network Ts = diag(2,1), Ti = diag(1,0), Tx = diag(0,1), Tm = diag(1,1),
   minimal determining set (through, reflect pair, match with the other port not given): 7 equations, 7 unknowns,
   LU branch; complex non-reciprocal device *)
Theorem c01_model_end_to_end_core_nonvacuous :
  In (T8, 2) core_e2e_cases /\
  (forall mv, In mv cz_ms ->
     std_of QIF T8 2 2 mv /\ core_network QIF T8 2 2 cz_fe cz_pv cz_fx cz_core mv /\ measured_exactly QIF 2 2 cz_core mv) /\
  (forall sys, sys < systems_of T8 2 ->
     let rows := q_assemble T8 2 2 cz_ms cz_pv sys in
     length rows = 7 /\ unknowns T8 2 2 <= length rows /\ kernel_trivial (unknowns T8 2 2) rows) /\
  length cz_m = 4 /\ length cz_s = 4 /\
  core_device_network QIF T8 2 cz_fe cz_Mc (fun a b => nth (a * 2 + b) cz_s (@c0 QIF)) /\
  (forall r c, r < 2 -> c < 2 -> nth (r * 2 + c) cz_m (@c0 QIF) = cz_Mc r c) /\
  q_error_terms T8 2 2 cz_ms cz_pv = Some (qn 2 :: qn 1 :: qn 1 :: qn 0 :: qn 0 :: qn 1 :: qn 1 :: qn 1 :: nil) /\
  (forall a b x, q_apply T8 2 2 (core_dev_vector QIF T8 2 cz_fe) cz_m = AOk a b x -> x = cz_s) /\
  exists a b, q_apply T8 2 2 (core_dev_vector QIF T8 2 cz_fe) cz_m = AOk a b cz_s.
Proof. exact EndToEndCoreEx.c01_model_end_to_end_core_nonvacuous. Qed.
Print Assumptions c01_model_end_to_end_core_nonvacuous.

(* ALL hypotheses of c01_model_end_to_end_leak_partial at once: 2 x 2 TE10, El12 = 1/4 + i/8, El21 = 1/3, the same
   minimal set (both leakage cells sampled twice), square system *)
Theorem c01_model_end_to_end_leak_nonvacuous :
  In (TE10, 2) dev_cases_all /\
  (forall mv, In mv fz_ms ->
     std_of QIF TE10 2 2 mv /\ network_of QIF 2 2 lx_fe fz_pv lx_fx fz_core TE10 mv /\
     measured_with_leakage QIF 2 2 lx_el fz_core mv) /\
  covered QIF 2 2 lx_el fz_ms /\
  (forall sys, sys < systems_of TE10 2 ->
     let rows := q_assemble TE10 2 2 fz_ms fz_pv sys in
     length rows = 7 /\ unknowns TE10 2 2 <= length rows /\ kernel_trivial (unknowns TE10 2 2) rows) /\
  length fz_m = 4 /\ length fz_s = 4 /\
  device_network QIF TE10 2 lx_fe fz_Mc (fun a b => nth (a * 2 + b) fz_s (@c0 QIF)) /\
  (forall r c, r < 2 -> c < 2 ->
     nth (r * 2 + c) fz_m (@c0 QIF) = @cadd QIF (fz_Mc r c) (if Nat.eqb r c then @c0 QIF else lx_el r c)) /\
  q_error_terms TE10 2 2 fz_ms fz_pv = Some (dev_vector QIF TE10 2 lx_fe lx_el) /\
  (forall a b x, q_apply TE10 2 2 (dev_vector QIF TE10 2 lx_fe lx_el) fz_m = AOk a b x -> x = fz_s) /\
  exists a b, q_apply TE10 2 2 (dev_vector QIF TE10 2 lx_fe lx_el) fz_m = AOk a b fz_s.
Proof. exact EndToEndFinalEx.c01_model_end_to_end_leak_nonvacuous. Qed.
Print Assumptions c01_model_end_to_end_leak_nonvacuous.

(* ================================================================================================
   Part 6 (package K, third box): the composition for the leakage types with the physical hypothesis in E TERMS --
   the error box [Ed Er; Et Em] of vnacal_layout.h in wave form, no inverse (LeakETerms.physE / physE14), plus the
   additive leakage El.  The term function of the box in layout order, normalised so that the unity term is 1
   (fe_box8: k0 = et 0 for TE10, er 0 for UE10; fe_UE14: k_c = er c c), is identified block by block with the
   documented conversions (EndToEndETerms.te_blocks_partial, ue_blocks_partial, c14_blocks_partial).
   Bound in the statements: the named types, square n = 1..3, standards of the family zcfgs. *)
Require LV.Cal.LeakETerms LV.Cal.EndToEndETerms.
Import LV.Cal.LeakETerms LV.Cal.EndToEndETerms.

Theorem c01_model_end_to_end_leak_eterms_partial (ty : caltype) (n : nat) :
  In ty (TE10 :: UE10 :: nil) -> In n (2 :: 3 :: nil) ->
  forall (ed er et em : nat -> qi) (el : nat -> nat -> qi) (pv : Z -> qi) (ms : list (mvals qops))
         (fxof : mvals qops -> nat -> qi) (core : mvals qops -> nat -> nat -> qi),
  box8_regular QIF n er et ty ->
  (forall mv, In mv ms ->
     std_of QIF ty n n mv /\
     (box8_wellposed_std QIF n em ty (Sof QIF n n pv fxof mv) /\
      physE QIF n (Sof QIF n n pv fxof mv) ed er et em n n (core mv)) /\
     measured_with_leakage QIF n n el core mv) ->
  covered QIF n n el ms ->
  (forall sys, sys < systems_of ty n ->
     let rows := q_assemble ty n n ms pv sys in
     unknowns ty n n <= length rows /\ kernel_trivial (unknowns ty n n) rows) ->
  let e_true := dev_vector QIF ty n (fe_box8 QIF n ed er et em ty) el in
  q_error_terms ty n n ms pv = Some e_true /\
  forall (m s : list qi) (Mc : nat -> nat -> qi), length m = n * n -> length s = n * n ->
    let S := fun a b => nth (a * n + b) s (@c0 QIF) in
    box8_wellposed_dev QIF n em ty S ->
    physE QIF n S ed er et em n n Mc ->
    (forall r c, r < n -> c < n ->
       nth (r * n + c) m (@c0 QIF) = @cadd QIF (Mc r c) (if Nat.eqb r c then @c0 QIF else el r c)) ->
    forall a b x, q_apply ty n n e_true m = AOk a b x -> x = s.
Proof. exact (fun Ht Hn => EndToEndETerms.c01_model_end_to_end_leak_eterms_partial ty n Ht (or_intror Hn)). Qed.
Print Assumptions c01_model_end_to_end_leak_eterms_partial.

Theorem c01_model_end_to_end_leak_eterms14_partial (ty : caltype) (n : nat) :
  In ty (UE14 :: E12 :: nil) -> In n (2 :: 3 :: nil) ->
  let sty := solve_type ty in
  forall (ed et : nat -> qi) (er em : nat -> nat -> qi) (el : nat -> nat -> qi) (pv : Z -> qi)
         (ms : list (mvals qops)) (fxof : mvals qops -> nat -> qi) (core : mvals qops -> nat -> nat -> qi),
  (forall c i, c < n -> i < n -> er c i <> @c0 QIF) ->
  (ty = E12 -> forall c, c < n -> et c <> @c0 QIF) ->
  (forall mv, In mv ms ->
     std_of QIF sty n n mv /\
     ((forall c, c < n -> right_kernel_trivial QIF n (ISE QIF (Sof QIF n n pv fxof mv) (em c))) /\
      physE14 QIF n (Sof QIF n n pv fxof mv) ed et er em n (core mv)) /\
     measured_with_leakage QIF n n el core mv) ->
  covered QIF n n el ms ->
  (forall sys, sys < systems_of sty n ->
     let rows := q_assemble sty n n ms pv sys in
     unknowns sty n n <= length rows /\ kernel_trivial (unknowns sty n n) rows) ->
  let e_true := dev_vector QIF ty n (fe_UE14 QIF n ed et er em) el in
  q_error_terms sty n n ms pv = Some e_true /\
  forall (m s : list qi) (Mc : nat -> nat -> qi), length m = n * n -> length s = n * n ->
    physE14 QIF n (fun a b => nth (a * n + b) s (@c0 QIF)) ed et er em n Mc ->
    (forall r c, r < n -> c < n ->
       nth (r * n + c) m (@c0 QIF) = @cadd QIF (Mc r c) (if Nat.eqb r c then @c0 QIF else el r c)) ->
    forall a b x, q_apply ty n n e_true m = AOk a b x -> x = s.
Proof. exact (fun Ht Hn => EndToEndETerms.c01_model_end_to_end_leak_eterms14_partial ty n Ht (or_intror Hn)). Qed.
Print Assumptions c01_model_end_to_end_leak_eterms14_partial.

(* ================================================================================================
   Part 7 (review R1): the failure exit of convert_ue14_to_e12. *)
(* every um non-zero (x == 0.0 as is0): the checked model = the C function with its test takes the success path, which
   is SolveSimple's total function -- every Ops, all dimensions, all vectors *)
Theorem convert_checked_ok (O : Ops) (is0 : O -> bool) (mr mc : nat) (e : list O) :
  (forall c r, c < mc -> r < mr -> is0 (um_of O mr mc e c r) = false) ->
  convert_ue14_to_e12_checked O is0 mr mc e = Some (convert_ue14_to_e12 O mr mc e).
Proof. exact (EndToEndE12Check.convert_checked_ok O is0 mr mc e). Qed.
Print Assumptions convert_checked_ok.

(* the exit is reached (um of column 0, row 1 = 0), where the total model goes on with er = em = 0 *)
Theorem convert_checked_edom_exit :
  q_convert_checked 2 2 e12_bad = None /\
  length (convert_ue14_to_e12 qops 2 2 e12_bad) = 12 /\
  q_convert_checked 2 2 e12_good = Some (convert_ue14_to_e12 qops 2 2 e12_good).
Proof. exact EndToEndE12Check.convert_checked_edom_exit. Qed.
Print Assumptions convert_checked_edom_exit.

(* bound n = 1..3: on the vector the solve returns for a network with um <> 0 (e12_regular) the test never fires *)
Theorem solved_e12_vector_passes_um_test (n : nat) (fe : nat -> qi) (lk : list qi) :
  In n (1 :: 2 :: 3 :: nil) -> e12_regular QIF n fe ->
  let v := net_vector qops E12_UE14 n n (xs_of_K QIF E12_UE14 n n fe) lk in
  q_convert_checked n n v = Some (convert_ue14_to_e12 qops n n v).
Proof. exact (EndToEndBounds.solved_e12_vector_passes_um_test_lemma n fe lk). Qed.
Print Assumptions solved_e12_vector_passes_um_test.
