(* YamlFault: the YAML importer of src/vnaproperty.c (yaml_import / _vnaproperty_yaml_import) and the two
   public importers (src/vnaproperty_import_yaml_from_string.c, _from_file.c) made TOTAL over everything the
   YAML parser can deliver and everything that can go wrong on the way, with an explicit failure outcome:

     - the document tree may contain aliases.  An alias to a node that is not being imported is the
       anchored sub-tree once more (libyaml hands out the same node index; the importer walks it again),
       so in a tree it is a copy; an alias to one of the ENCLOSING nodes is [XCycle]: the importer finds
       the node in its chain of parents and reports "recursive alias" (VNAERR_SYNTAX, errno EBADMSG);
     - every call into the property API that allocates (vnaproperty_set ".=%s", vnaproperty_set_subtree
       "{}", "[]", "<key>", "[%d]") is a request point; [fault] = Some k makes the k-th of them (counted
       from 0, in execution order) fail for lack of memory: it returns -1 / NULL with errno ENOMEM, reported
       in category VNAERR_SYSTEM.  What such a call leaves in the anchor it worked on is not pinned down:
       it is [junk n] for an ARBITRARY function [junk] (the C code may have conformed part of the path);
     - a mapping key that is not a property expression makes vnaproperty_set_subtree fail with EINVAL;
       [key_err] says how the importer reports it: after fix DO91 as VNAERR_SYNTAX (EBADMSG), before it as
       VNAERR_SYSTEM with the errno of the call.

   The outcome [ires] carries the class of the report (category + errno).  On alias-free documents without
   fault this model is YamlModel.yaml_import / import_public (YamlFaultProofs.import_x_embed,
   import_public_x_embed).  No proofs in this file. *)
Require Import List NArith ZArith Bool.
Import ListNotations.
Require Import LV.PropTree.PropModel LV.PropTree.YamlModel.
Open Scope N_scope.

Inductive xnode :=
| XScalar (v : bytes) (st : ystyle)
| XMapping (kv : list (xnode * xnode))
| XSequence (l : list xnode)
| XCycle.                                   (* an alias to a node that is being imported *)

(* the class of a failure report: what the error callback gets as category, and errno *)
Inductive ierr :=
| IE_BADMSG                                 (* VNAERR_SYNTAX, errno EBADMSG *)
| IE_SYS (e : ecode)                        (* VNAERR_SYSTEM with the errno of a refused vnaproperty call *)
| IE_NOMEM.                                 (* VNAERR_SYSTEM, errno ENOMEM *)

Inductive ires := IOk | IFail (e : ierr).

Definition is_ok (r : ires) : bool := match r with IOk => true | IFail _ => false end.

(* Some k: the k-th allocating call from here on fails; None: no allocation fails *)
Definition fault := option nat.

(* is this call the faulted one?  and the fault as seen by the calls after it *)
Definition tick (f : fault) : bool * fault :=
  match f with
  | None => (false, None)
  | Some O => (true, None)
  | Some (S k) => (false, Some k)
  end.

(* how a refused key is reported *)
Definition key_err_DO91 (e : ecode) : ierr := IE_BADMSG.         (* after DO91 *)
Definition key_err_before_DO91 (e : ecode) : ierr := IE_SYS e.   (* before: "_vnaproperty_set_subtree: ...: Invalid argument" *)

Section Import.
  Variable key_err : ecode -> ierr.
  Variable junk : node -> node.

  (* yaml_import of src/vnaproperty.c into the anchor holding [root]:
     (node left in the anchor, (fault for the calls after this one, outcome)) *)
  Fixpoint import_x (y : xnode) (root : node) (f : fault) : node * (fault * ires) :=
    match y with
    | XCycle => (root, (f, IFail IE_BADMSG))                      (* "recursive alias" *)
    | XScalar v st =>
      if is_yaml_null v && is_plain st then (root, (f, IOk))      (* "root is already NULL" *)
      else
        let '(hit, f1) := tick f in
        if hit then (junk root, (f1, IFail IE_NOMEM))
        else let '(r, out) := vset root (46 :: 61 :: v) in
             (r, (f1, if (o_ret out =? 0)%Z then IOk else IFail (IE_SYS (o_err out))))
    | XMapping kv =>
      let '(hit, f0) := tick f in
      if hit then (junk root, (f0, IFail IE_NOMEM))
      else
        let '(r0, out0) := vset_subtree root [123; 125] in
        if negb (o_ret out0 =? 0)%Z then (r0, (f0, IFail (IE_SYS (o_err out0))))
        else
          fold_left
            (fun (st : node * (fault * ires)) p =>
               let '(r, (fc, res)) := st in
               let '(k, v) := p in
               match res with
               | IFail _ => st
               | IOk =>
                 match k with
                 | XScalar kb _ =>
                   let '(hit1, f1) := tick fc in
                   if hit1 then (junk r, (f1, IFail IE_NOMEM))
                   else
                     let '(r', res') := vset_subtree_then r kb (fun a => import_x v a f1) in
                     (r', match res' with inl e => (f1, IFail (key_err e)) | inr x => x end)
                 | _ => st                                         (* non-scalar key: warning, skipped *)
                 end
               end)
            kv (r0, (f0, IOk))
    | XSequence l =>
      let '(hit, f0) := tick f in
      if hit then (junk root, (f0, IFail IE_NOMEM))
      else
        let '(r0, out0) := vset_subtree root [91; 93] in
        if negb (o_ret out0 =? 0)%Z then (r0, (f0, IFail (IE_SYS (o_err out0))))
        else
          let '(_, r, x) :=
              fold_left
                (fun (st : nat * node * (fault * ires)) v =>
                   let '(i, r, (fc, res)) := st in
                   match res with
                   | IFail _ => st
                   | IOk =>
                     let '(hit1, f1) := tick fc in
                     if hit1 then (S i, junk r, (f1, IFail IE_NOMEM))
                     else
                       let '(r', res') := vset_subtree_then r (index_desc i) (fun a => import_x v a f1) in
                       (S i, r', match res' with inl e => (f1, IFail (IE_SYS e)) | inr x => x end)
                   end)
                l (O, r0, (f0, IOk)) in
          (r, x)
    end.

  (* what yaml_parser_load / yaml_document_get_root_node deliver *)
  Inductive xload := XSyntaxError | XEmptyDocument | XDocument (y : xnode).

  (* vnaproperty_import_yaml_from_string / _from_file AFTER fix DO90: the document is imported into a
     detached root (new_root = NULL); on failure that tree is freed and *rootptr is not touched; on
     success the old content is freed (_vnaproperty_free_tree: no allocation) and the new tree installed.
     Result: the node in *rootptr after the call, and the outcome. *)
  Definition import_public_x (l : xload) (root : node) (f : fault) : node * ires :=
    match l with
    | XSyntaxError | XEmptyDocument => (root, IFail IE_BADMSG)
    | XDocument y =>
      let '(r, (_, res)) := import_x y NNull f in
      match res with
      | IOk => (r, IOk)
      | IFail e => (root, IFail e)
      end
    end.

  (* the same functions BEFORE DO90 (as in /repo up to commit ac7d04b): vnaproperty_delete(rootptr, ".")
     - itself an allocating call: when it fails the error is reported and *rootptr is untouched - then the
     document is imported into *rootptr itself; whatever the import leaves there stays *)
  Definition import_public_x_before_DO90 (l : xload) (root : node) (f : fault) : node * ires :=
    match l with
    | XSyntaxError | XEmptyDocument => (root, IFail IE_BADMSG)
    | XDocument y =>
      let '(hit, f0) := tick f in
      if hit then (root, IFail IE_NOMEM)
      else let '(r, (_, res)) := import_x y (fst (vdelete root dot)) f0 in (r, res)
    end.

  (* The same with a ledger of what is still allocated when the importer returns: the tree reachable from
     *rootptr and the DETACHED trees nobody points to any more (lost = leaked).  A failed
     _vnaproperty_yaml_import leaves the part built so far (junk included) in the root pointer it was given;
     the importers after DO90 release it with _vnaproperty_free_tree(&new_root) before returning -1
     ([free_on_failure] = true).  false = the same function without that call (seeded change C09-11 did this to
     vnacal_load's parse_properties): the partial tree is lost.  A NULL partial tree holds no block; on
     success the old content is released and the new tree installed. *)
  Record ledger := mkLedger { l_root : node; l_lost : list node }.

  Definition import_public_x_ledger (free_on_failure : bool) (l : xload) (root : node) (f : fault) : ledger * ires :=
    match l with
    | XSyntaxError | XEmptyDocument => (mkLedger root [], IFail IE_BADMSG)
    | XDocument y =>
      let '(r, (_, res)) := import_x y NNull f in
      match res with
      | IOk => (mkLedger r [], IOk)
      | IFail e =>
        (mkLedger root (if free_on_failure then [] else match r with NNull => [] | _ => [r] end), IFail e)
      end
    end.
End Import.

(* alias-free documents *)
Fixpoint embed (y : ynode) : xnode :=
  match y with
  | YScalar v st => XScalar v st
  | YMapping kv => XMapping (map (fun p => let '(k, v) := p in (embed k, embed v)) kv)
  | YSequence l => XSequence (map embed l)
  end.

Definition embed_load (l : yload) : xload :=
  match l with
  | YSyntaxError => XSyntaxError
  | YEmptyDocument => XEmptyDocument
  | YDocument y => XDocument (embed y)
  end.

(* every sequence of the document has at most INT_MAX - 1 items (a longer one cannot be indexed by the
   "[%d]" of the importer: vnaproperty refuses index INT_MAX) *)
Fixpoint seqs_small (y : xnode) : bool :=
  match y with
  | XScalar _ _ | XCycle => true
  | XMapping kv => forallb (fun p => let '(k, v) := p in seqs_small v) kv
  | XSequence l => (Z.of_nat (length l) <? INT_MAX)%Z && forallb seqs_small l
  end.
