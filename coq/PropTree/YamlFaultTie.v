(* YamlFaultTie: executable glue for the tie of YamlFault.import_public_x with the library (checks/C14.py,
   checks/c09_cal.py through lib/yaml_atomic_lib.py): the digest of a tree in the notation of
   harness/yaml_atomic.c, the old content built by a list of vnaproperty_set arguments, and one case =
   (success flag, class of the report, digest of the root afterwards).  No proofs in this file. *)
Require Import List NArith ZArith Bool.
Import ListNotations.
Require Import LV.PropTree.PropModel LV.PropTree.YamlModel LV.PropTree.YamlFault.
Open Scope N_scope.

Definition hexd (d : N) : N := if d <? 10 then 48 + d else 87 + d.
Definition hexb (s : bytes) : bytes := flat_map (fun c => [hexd (c / 16); hexd (c mod 16)]) s.

Fixpoint join (sep : bytes) (l : list bytes) : bytes :=
  match l with
  | [] => []
  | [x] => x
  | x :: r => x ++ sep ++ join sep r
  end.

Fixpoint dg (n : node) : bytes :=
  match n with
  | NNull => [78]
  | NScalar v => 83 :: hexb v
  | NMap kv => [77; 123] ++ join [59] (map (fun p => let '(k, v) := p in hexb k ++ [61] ++ dg v) kv) ++ [125]
  | NList vec al => 76 :: dec_digits (S al) al [] ++ [91] ++ join [59] (map dg vec) ++ [93]
  end.

Definition build (setups : list bytes) : node := fold_left (fun r d => fst (vset r d)) setups NNull.

(* class code: 0 = success, 1 = EBADMSG / VNAERR_SYNTAX, 2 = ENOMEM / VNAERR_SYSTEM, 3 = another errno / VNAERR_SYSTEM *)
Definition code (r : ires) : N :=
  match r with IOk => 0 | IFail IE_BADMSG => 1 | IFail IE_NOMEM => 2 | IFail (IE_SYS _) => 3 end.

Definition run_case (l : xload) (setups : list bytes) : N * bytes :=
  let '(r, res) := import_public_x key_err_DO91 (fun n => n) l (build setups) None in (code res, dg r).
