(* YamlImportProofs: the YAML importer of the byte-level model refines the document-level import of
   YamlSpec.v, for EVERY document and EVERY destination (no well-formedness or text hypothesis), and the
   public importers replace the destination whatever it held - the null document included. *)
Require Import List NArith ZArith Bool Lia.
Import ListNotations.
Require Import LV.PropTree.PropModel LV.PropTree.DocSpec LV.PropTree.PropProofs LV.PropTree.QuoteProofs
        LV.PropTree.RebuildProofs LV.PropTree.YamlModel LV.PropTree.YamlSpec.

Lemma ynode_ind' (P : ynode -> Prop) :
  (forall v st, P (YScalar v st)) ->
  (forall kv, Forall (fun p => P (snd p)) kv -> P (YMapping kv)) ->
  (forall l, Forall P l -> P (YSequence l)) ->
  forall y, P y.
Proof.
  intros HS HM HL. fix IH 1. intros [v st | kv | l].
  - apply HS.
  - apply HM. induction kv as [|[k v] r IHr]; constructor; [apply IH|exact IHr].
  - apply HL. induction l as [|v r IHr]; constructor; [apply IH|exact IHr].
Qed.

Definition abs_res (r : node * bool) : doc * bool := (abs (fst r), snd r).

(* the loop over the pairs of a mapping *)
Lemma sim_import_map_loop : forall kv,
    Forall (fun p => forall n, d_yaml_import (snd p) (abs n) = abs_res (yaml_import (snd p) n)) kv ->
    forall r ok,
      fold_left
        (fun (st : doc * bool) p =>
           let '(r, ok) := st in
           let '(k, v) := p in
           if negb ok then st
           else match k with
                | YScalar kb _ =>
                  let '(r', res) := d_set_subtree_then r kb (fun a => d_yaml_import v a) in
                  (r', match res with inl _ => false | inr b => b end)
                | _ => st
                end)
        kv (abs r, ok)
      = abs_res (fold_left
        (fun (st : node * bool) p =>
           let '(r, ok) := st in
           let '(k, v) := p in
           if negb ok then st
           else match k with
                | YScalar kb _ =>
                  let '(r', res) := vset_subtree_then r kb (fun a => yaml_import v a) in
                  (r', match res with inl _ => false | inr b => b end)
                | _ => st
                end)
        kv (r, ok)).
Proof.
  induction kv as [|[k v] kv IH]; intros HP r ok; [reflexivity|].
  inversion HP as [|? ? Hv Hr]; subst. cbn [snd] in Hv. cbn [fold_left].
  destruct ok; cbn [negb].
  - destruct k as [kb st | |]; try (apply IH; exact Hr).
    rewrite (sim_vset_subtree_then (fun b : bool => b) r kb (fun a => yaml_import v a) (fun a => d_yaml_import v a)) by exact Hv.
    destruct (vset_subtree_then r kb (fun a => yaml_import v a)) as [r' [e|b]]; cbn [fst snd map_inr]; apply IH; exact Hr.
  - apply IH; exact Hr.
Qed.

(* the loop over the items of a sequence *)
Lemma sim_import_list_loop : forall l,
    Forall (fun v => forall n, d_yaml_import v (abs n) = abs_res (yaml_import v n)) l ->
    forall i r ok,
      fold_left
        (fun (st : nat * doc * bool) v =>
           let '(i, r, ok) := st in
           if negb ok then st
           else let '(r', res) := d_set_subtree_then r (index_desc i) (fun a => d_yaml_import v a) in
                (S i, r', match res with inl _ => false | inr b => b end))
        l (i, abs r, ok)
      = (let '(j, r', ok') := fold_left
        (fun (st : nat * node * bool) v =>
           let '(i, r, ok) := st in
           if negb ok then st
           else let '(r', res) := vset_subtree_then r (index_desc i) (fun a => yaml_import v a) in
                (S i, r', match res with inl _ => false | inr b => b end))
        l (i, r, ok) in (j, abs r', ok')).
Proof.
  induction l as [|v l IH]; intros HP i r ok; [reflexivity|].
  inversion HP as [|? ? Hv Hr]; subst. cbn [fold_left].
  destruct ok; cbn [negb].
  - rewrite (sim_vset_subtree_then (fun b : bool => b) r (index_desc i) (fun a => yaml_import v a) (fun a => d_yaml_import v a)) by exact Hv.
    destruct (vset_subtree_then r (index_desc i) (fun a => yaml_import v a)) as [r' [e|b]]; cbn [fst snd map_inr]; apply IH; exact Hr.
  - apply IH; exact Hr.
Qed.

(* _vnaproperty_yaml_import refines the document-level import: every document, every anchor content *)
Theorem sim_yaml_import : forall y n, d_yaml_import y (abs n) = abs_res (yaml_import y n).
Proof.
  induction y as [v st | kv IH | l IH] using ynode_ind'; intros n.
  - cbn [d_yaml_import yaml_import]. destruct (is_yaml_null v && is_plain st); [reflexivity|].
    rewrite sim_vset. destruct (vset n (46 :: 61 :: v)%N) as [r out]. reflexivity.
  - cbn [d_yaml_import yaml_import]. rewrite sim_vset_subtree.
    destruct (vset_subtree n [123; 125]%N) as [r0 out0]. cbn [fst snd abs_out d_ret].
    destruct (negb (o_ret out0 =? 0)%Z); [reflexivity|].
    apply sim_import_map_loop. exact IH.
  - cbn [d_yaml_import yaml_import]. rewrite sim_vset_subtree.
    destruct (vset_subtree n [91; 93]%N) as [r0 out0]. cbn [fst snd abs_out d_ret].
    destruct (negb (o_ret out0 =? 0)%Z); [reflexivity|].
    rewrite (sim_import_list_loop l IH O r0 true).
    destruct (fold_left _ l (O, r0, true)) as [[j r'] ok']. reflexivity.
Qed.

(* import_replaces: vnaproperty_import_yaml_from_file / _from_string, for every old content of the
   destination and everything the YAML parser can deliver: the outcome is the specification's, which for
   a document that imports is the import into the EMPTY document - nothing of the old tree survives - and
   for a syntax error / empty document / a document whose import fails is the untouched destination (DO90) *)
Theorem import_replaces (l : yload) (root : node) :
  abs_res (import_public l root) = d_import_public l (abs root).
Proof.
  destruct l as [| | y]; try reflexivity.
  unfold import_public, import_document, d_import_public.
  change DNull with (abs NNull). rewrite (sim_yaml_import y NNull). unfold abs_res.
  destruct (yaml_import y NNull) as [r ok]. cbn [fst snd]. destruct ok; reflexivity.
Qed.

(* the null document (plain ~, null, Null, NULL - what export writes for a NULL tree) clears the destination *)
Theorem import_null_document_clears (root : node) (v : bytes) :
  is_yaml_null v = true -> import_public (YDocument (YScalar v YPlain)) root = (NNull, true).
Proof.
  intros H. unfold import_public, import_document. cbn [yaml_import is_plain].
  now rewrite H.
Qed.

(* the same at document level, and the other root kinds: a scalar, an empty mapping, an empty sequence *)
Theorem import_replaces_kinds (root : node) :
  (forall v, is_yaml_null v = true -> d_import_public (YDocument (YScalar v YPlain)) (abs root) = (DNull, true)) /\
  (forall v st, is_yaml_null v && is_plain st = false ->
                d_import_public (YDocument (YScalar v st)) (abs root) = (DScalar v, true)) /\
  d_import_public (YDocument (YMapping [])) (abs root) = (DMap [], true) /\
  d_import_public (YDocument (YSequence [])) (abs root) = (DList [], true) /\
  d_import_public YSyntaxError (abs root) = (abs root, false) /\
  d_import_public YEmptyDocument (abs root) = (abs root, false).
Proof.
  repeat split; try reflexivity.
  - intros v H. cbn [d_import_public d_yaml_import is_plain]. now rewrite H.
  - intros v st H. cbn [d_import_public d_yaml_import]. now rewrite H.
Qed.

(* computed: old content { old: [1] }; (a) the null document, (b) a mapping whose keys are descriptors
   ("a.b", "l[1]") and merge, (c) a mapping whose second key is not a descriptor: the import fails and
   the old content is still there (before DO90: the first pair, the old content gone), (d) a syntax
   error: nothing changes *)
Definition old_tree : node := NMap [([111; 108; 100], NList [NScalar [49]] 8)]%N.
Example import_replaces_examples :
  import_public (YDocument (YScalar [126]%N YPlain)) old_tree = (NNull, true) /\
  import_public (YDocument (YScalar [126]%N YDouble)) old_tree = (NScalar [126]%N, true) /\
  import_public (YDocument (YMapping [(YScalar [97; 46; 98]%N YPlain, YScalar [49]%N YPlain);
                                      (YScalar [108; 91; 49; 93]%N YDouble, YSequence [YScalar [126]%N YPlain]);
                                      (YScalar [97]%N YPlain, YMapping [(YScalar [99]%N YPlain, YScalar [50]%N YPlain)])])) old_tree
  = (NMap [([97], NMap [([98], NScalar [49]); ([99], NScalar [50])]); ([108], NList [NNull; NList [NNull] 8] 8)]%N, true) /\
  import_public (YDocument (YMapping [(YScalar [97]%N YPlain, YScalar [49]%N YPlain);
                                      (YScalar [91]%N YDouble, YScalar [50]%N YPlain);
                                      (YScalar [98]%N YPlain, YScalar [51]%N YPlain)])) old_tree
  = (old_tree, false) /\
  import_public YSyntaxError old_tree = (old_tree, false) /\
  import_public YEmptyDocument old_tree = (old_tree, false).
Proof. vm_compute. repeat split; reflexivity. Qed.
